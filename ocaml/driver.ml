(* Driver for the extracted model: moves bytes only.  Each stdin line is handed to Model.run_line
   as a list of byte values (Coq N); the resulting list is written back as one line. *)

let rec pos_of_int n =
  if n = 1 then Model.XH else if n land 1 = 0 then Model.XO (pos_of_int (n lsr 1)) else Model.XI (pos_of_int (n lsr 1))
let n_of_int n = if n = 0 then Model.N0 else Model.Npos (pos_of_int n)
let rec int_of_pos = function Model.XH -> 1 | Model.XO p -> 2 * int_of_pos p | Model.XI p -> 2 * int_of_pos p + 1
let int_of_n = function Model.N0 -> 0 | Model.Npos p -> int_of_pos p

let explode (s : string) =
  let rec go i acc = if i < 0 then acc else go (i - 1) (n_of_int (Char.code s.[i]) :: acc) in
  go (String.length s - 1) []

let implode l =
  let b = Buffer.create 256 in
  List.iter (fun n -> Buffer.add_char b (Char.chr ((int_of_n n) land 255))) l;
  Buffer.contents b

let () =
  try
    while true do
      let line = input_line stdin in
      if String.length line > 0 then begin
        print_string (implode (Model.run_line (explode line)));
        print_newline ()
      end
    done
  with End_of_file -> ()
