package main

import (
	"math/rand"
	"sort"
	"strconv"
	"strings"
	"unicode"

	"github.com/remieven/ysgo/markup"

	"verifharness/sx"
)

// markup families (C13, C14, C15) and the unicode table check.
func init() {
	register("markupdoc", family{gen: genMarkupDoc, run: runMarkup})
	register("markupfuzz", family{gen: genMarkupFuzz, run: runMarkup})
	register("markuphist", family{gen: genMarkupHist, run: runMarkupHist})
	register("unicode", family{gen: genUnicode, run: runUnicode})
}

// markupInput: a string, a list of byte values, or - for inputs too large to spell out -
// ("rep" n part) = part repeated n times and ("cat" part ...) = the parts one after the other.
func markupInput(n *sx.Node) string {
	if n.Kind == 's' {
		return n.Text()
	}
	if len(n.L) >= 1 && n.L[0].Kind == 's' {
		switch n.L[0].Text() {
		case "rep":
			return strings.Repeat(markupInput(n.L[2]), int(n.L[1].Int()))
		case "cat":
			var b strings.Builder
			for _, p := range n.L[1:] {
				b.WriteString(markupInput(p))
			}
			return b.String()
		}
	}
	b := make([]byte, len(n.L))
	for i, x := range n.L {
		b[i] = byte(x.Int())
	}
	return string(b)
}

func encParseResult(res *markup.ParseResult, err error) *sx.Node {
	if err != nil {
		return sx.Tag("err")
	}
	tfa := []*sx.Node{}
	for _, a := range res.Attributes {
		a := a
		tfa = append(tfa, func() (out *sx.Node) {
			defer func() {
				if r := recover(); r != nil {
					out = sx.Tag("panic")
				}
			}()
			return sx.Tag("s", sx.Str(res.TextForAttribute(a)))
		}())
	}
	return sx.Tag("ok", sx.Str(res.Text), encAttributes(res.Attributes), sx.List(tfa...))
}

func parseWith(p *markup.LineParser, in string) (out *sx.Node) {
	defer func() {
		if r := recover(); r != nil {
			out = sx.Tag("panic")
		}
	}()
	res, err := p.ParseMarkup(in)
	return encParseResult(res, err)
}

func runMarkup(c *sx.Node) *sx.Node {
	return parseWith(&markup.LineParser{}, markupInput(c.L[1]))
}

// afterLines are parsed on the reused parser AFTER the probe line and BEFORE the probe's result is
// looked at: a result handed out earlier must not change when the parser goes on to other lines
// (1, 2, 3, 4 attributes far from the start, so that a buffer shared with an earlier result of any
// capacity is overwritten with ranges that do not fit the earlier text).
var afterLines = []string{
	"a much longer line than most, with some [zz]markup[/zz] near its end",
	"another long line, this time with [y1]two[/y1] markers near [y2]its[/y2] end",
	"and a third long line carrying [w1]three[/w1] of [w2]them[/w2] right [w3]here[/w3]",
	"long enough to be beyond any of the earlier texts: [v1]a[/v1] [v2]b[/v2] [v3]c[/v3] [v4]d[/v4] [v5/]",
}

func runMarkupHist(c *sx.Node) *sx.Node {
	p := &markup.LineParser{}
	for _, h := range c.L[1].L {
		parseWith(p, markupInput(h))
	}
	// the same line on the reused parser and on a fresh one; the reused parser's result is kept
	// while the parser parses further lines, and only then encoded
	var reused *sx.Node
	func() {
		defer func() {
			if r := recover(); r != nil {
				reused = sx.Tag("panic")
			}
		}()
		res, err := p.ParseMarkup(markupInput(c.L[2]))
		for _, l := range afterLines {
			parseWith(p, l)
		}
		for _, h := range c.L[1].L {
			parseWith(p, markupInput(h))
		}
		reused = encParseResult(res, err)
	}()
	return sx.Tag("hist", reused, parseWith(&markup.LineParser{}, markupInput(c.L[2])))
}

// ---- document generator ----
var mkChunks = []string{"hello", "wörld", "日本", " ", "  ", "a b", "x", "Grr!", "it's", "1.5", "50%", "tab\tbed", "é", "𝄞 clef", "end.", ":", "Mr Smith: ", "  lead"}
var mkNames = []string{"a", "b", "wave", "bounce", "é", "x1", "_u", "mood", "日"}
var mkWs = []string{"", "", "", " ", "  ", "\t"}

func (g *mgen) ws() string { return mkWs[g.r.Intn(len(mkWs))] }

type mgen struct{ r *rand.Rand }

func (g *mgen) value() string {
	switch g.r.Intn(9) {
	case 0:
		return strconv.Itoa(g.r.Intn(200))
	case 1:
		return strconv.Itoa(g.r.Intn(30)) + "." + []string{"5", "05", "25", "003", "10", "0", "999"}[g.r.Intn(7)]
	case 2:
		return []string{"true", "false", "True", "FALSE", "tRuE", "fAlSe", "TRUE", "False"}[g.r.Intn(8)]
	case 3:
		return `"` + []string{"quoted text", "a \\\"q\\\" b", "", "ünï", "with ] bracket", "% of \\%", "%\\\\", "% \\\\", "\\\\", "x\\\\%"}[g.r.Intn(10)] + `"`
	case 4:
		// bare words, among them the ones strconv.ParseBool would take for booleans
		return []string{"angry", "bare_word", "é1", "x", "t", "T", "f", "F", "tru", "yes", "no", "on", "nil", "null"}[g.r.Intn(14)]
	default:
		return strconv.Itoa(g.r.Intn(5))
	}
}

func (g *mgen) props() string {
	var b strings.Builder
	n := g.r.Intn(4)
	if g.r.Intn(2) == 0 {
		n = 0
	}
	for i := 0; i < n; i++ {
		b.WriteString(" " + g.ws() + []string{"p", "size", "k_1", "é", "trimwhitespace"}[g.r.Intn(5)] + g.ws() + "=" + g.ws() + g.value())
	}
	return b.String()
}

func (g *mgen) replacement() string {
	// half of the replacement texts hold multi-byte characters (byte and character counts differ)
	mb := g.r.Intn(2) == 0
	pick := func(ascii, multi string) string {
		if mb {
			return multi
		}
		return ascii
	}
	switch g.r.Intn(7) {
	case 6:
		// replacement texts ending in a backslash, with and without a placeholder before it
		return "[select value=" + strconv.Itoa(g.r.Intn(4)) + ` 0="%\\" 1="one\\" 2="%:\\" 3="\\%\\"/]`
	case 0:
		v := g.r.Intn(4)
		return "[select value=" + strconv.Itoa(v) + pick(" 0=zero 1=\"one %\" 2=two 3=\"\\% three\"/]", " 0=zéro 1=\"ün %\" 2=日本 3=\"\\% 𝄞\"/]")
	case 1:
		return "[plural value=" + strconv.Itoa(g.r.Intn(3)) + pick(" one=\"% apple\" other=\"% apples\"/]", " one=\"% pömme\" other=\"% pömmes\"/]")
	case 2:
		return "[ordinal value=" + strconv.Itoa(g.r.Intn(130)-5) + pick(" one=\"%st\" two=\"%nd\" few=\"%rd\" other=\"%th\"/]", " one=\"%ᵉʳ\" two=\"%ⁿᵈ\" few=\"%é\" other=\"%日\"/]")
	case 3:
		return "[nomarkup]" + []string{"[b]raw[/b]", "plain", "[ x", "", "[b]ünï[/b]", "日本", "é[ 𝄞"}[g.r.Intn(7)] + "[/nomarkup]"
	case 4:
		return pick("[nomarkup]keep [this][/]", "[nomarkup]gärde [日][/]")
	default:
		return pick("[select value=a a=\"it was %\" b=other]ignored[/select]", "[select value=é é=\"c'était %\" b=other]ignoré[/select]")
	}
}

func (g *mgen) doc() string {
	var b strings.Builder
	open := []string{}
	n := 1 + g.r.Intn(9)
	if g.r.Intn(6) == 0 {
		// the implicit character prefix ends after the colon and the blanks of the regexp class \s that
		// follow it - not after other Unicode spaces
		b.WriteString([]string{"Name: ", "Ém: ", "A B:", "  Sp: ", "N:   ", "Mae:\u00a0", "名前:\u3000", "A:\v", "N: \u2003x", "B:\t\u0085", "C:\u2028"}[g.r.Intn(11)])
	}
	for i := 0; i < n; i++ {
		switch x := g.r.Intn(20); {
		case x < 7:
			b.WriteString(mkChunks[g.r.Intn(len(mkChunks))])
		case x < 8:
			b.WriteString([]string{"\\[", "\\]", "\\", "\\x"}[g.r.Intn(4)])
		case x < 12 && len(open) < 4:
			name := mkNames[g.r.Intn(len(mkNames))]
			open = append(open, name)
			if g.r.Intn(5) == 0 {
				b.WriteString("[" + g.ws() + name + g.ws() + "=" + g.ws() + g.value() + g.props() + g.ws() + "]")
			} else {
				b.WriteString("[" + g.ws() + name + g.props() + g.ws() + "]")
			}
		case x < 15 && len(open) > 0:
			// close any open marker (overlap allowed), most often the innermost
			i := len(open) - 1
			if g.r.Intn(3) == 0 {
				i = g.r.Intn(len(open))
			}
			b.WriteString("[" + g.ws() + "/" + g.ws() + open[i] + g.ws() + "]")
			open = append(open[:i], open[i+1:]...)
		case x < 16:
			b.WriteString("[" + g.ws() + "/" + g.ws() + "]")
			open = open[:0]
		case x < 18:
			b.WriteString("[" + g.ws() + mkNames[g.r.Intn(len(mkNames))] + g.props() + g.ws() + "/" + g.ws() + "]")
		default:
			b.WriteString(g.replacement())
		}
	}
	// mostly close what is open
	if g.r.Intn(4) != 0 {
		for i := len(open) - 1; i >= 0; i-- {
			b.WriteString("[/" + open[i] + "]")
		}
	}
	if g.r.Intn(8) == 0 {
		b.WriteString([]string{" ", "  ", "\t"}[g.r.Intn(3)])
	}
	return b.String()
}

func genMarkupDoc(r *rand.Rand, tier string) *sx.Node {
	g := &mgen{r: r}
	if r.Intn(3) == 0 {
		return g.structured()
	}
	return sx.Tag("markup", sx.Str(g.doc()))
}

// structured builds a document whose meaning the generator knows by construction (an independent
// oracle): plain chunks, escaped brackets, open / close / close-all markers with properties,
// nested, overlapping and repeated, multi-byte text; blanks at the edges in a quarter of them; no colon.
// The case carries (expect text ((name pos len enclosed) ...)).
func (g *mgen) structured() *sx.Node {
	chunks := []string{"hello", "wörld", "日本", " ", "a b", "x", "Grr!", "it's", "50%", "é", "𝄞", "end."}
	var src strings.Builder
	text := []rune{}
	type om struct {
		name string
		pos  int
	}
	open := []om{}
	type att struct {
		name     string
		pos, len int
	}
	attrs := []att{}
	emit := func(t string) {
		src.WriteString(t)
		text = append(text, []rune(t)...)
	}
	// a quarter of the documents has blanks at its edges, inside or outside the first / last marker:
	// the text is trimmed and the ranges delimit what is left of the enclosed text
	edgy := g.r.Intn(4) == 0
	if !edgy {
		emit([]string{"Start", "é", "x"}[g.r.Intn(3)])
	} else if g.r.Intn(2) == 0 {
		emit([]string{" ", "  ", " x"}[g.r.Intn(3)])
	}
	n := 2 + g.r.Intn(10)
	for i := 0; i < n; i++ {
		switch x := g.r.Intn(12); {
		case x < 4:
			emit(chunks[g.r.Intn(len(chunks))])
		case x < 5:
			if g.r.Intn(2) == 0 {
				src.WriteString("\\[")
				text = append(text, '[')
			} else {
				src.WriteString("\\]")
				text = append(text, ']')
			}
		case x < 8 && len(open) < 4:
			name := mkNames[g.r.Intn(len(mkNames))]
			open = append(open, om{name, len(text)})
			src.WriteString("[" + g.ws() + name + g.props() + g.ws() + "]")
			if strings.Contains(src.String(), "trimwhitespace") {
				return sx.Tag("markup", sx.Str(g.doc())) // that property changes the text: not in this sub-mode
			}
		case x < 11 && len(open) > 0:
			// a close marker closes the most recent open marker of its name
			name := open[g.r.Intn(len(open))].name
			for j := len(open) - 1; j >= 0; j-- {
				if open[j].name == name {
					attrs = append(attrs, att{name, open[j].pos, len(text) - open[j].pos})
					open = append(open[:j], open[j+1:]...)
					break
				}
			}
			src.WriteString("[" + g.ws() + "/" + g.ws() + name + g.ws() + "]")
		case x < 12 && len(open) > 0:
			for _, o := range open {
				attrs = append(attrs, att{o.name, o.pos, len(text) - o.pos})
			}
			open = open[:0]
			src.WriteString("[" + g.ws() + "/" + g.ws() + "]")
		}
	}
	if !edgy {
		emit([]string{"End", "é.", "!"}[g.r.Intn(3)])
	} else if g.r.Intn(2) == 0 {
		emit([]string{" ", "  ", "z "}[g.r.Intn(3)])
	}
	lead, trail := 0, 0
	for lead < len(text) && text[lead] == ' ' {
		lead++
	}
	for trail < len(text)-lead && text[len(text)-1-trail] == ' ' {
		trail++
	}
	trimmed := text[lead : len(text)-trail]
	clamp := func(x int) int {
		x -= lead
		if x < 0 {
			return 0
		}
		if x > len(trimmed) {
			return len(trimmed)
		}
		return x
	}
	exp := []*sx.Node{}
	for _, a := range attrs {
		st, en := clamp(a.pos), clamp(a.pos+a.len)
		exp = append(exp, sx.List(sx.Str(a.name), sx.Int(int64(st)), sx.Int(int64(en-st)), sx.Runes(trimmed[st:en])))
	}
	return sx.Tag("markup", sx.Str(src.String()), sx.Tag("expect", sx.Runes(trimmed), sx.List(exp...)))
}

var mkFragments = []string{"[", "]", "/", "=", "\"", "\\", " ", "a", "b1", "é", "12", ".", "5", "true", "[/]", "[a]", "[/a]", "[a/]",
	"[a=", "p=", ":", "%", "nomarkup", "select", "value", "plural", "ordinal", "one", "other", "[nomarkup]", "[/nomarkup]", "\t", "\n", "\x00", "character", "name", "trimwhitespace", "-", "٣", "𝄞"}

func genMarkupFuzz(r *rand.Rand, tier string) *sx.Node {
	switch r.Intn(3) {
	case 0: // arbitrary bytes, invalid UTF-8 included
		n := r.Intn(40)
		b := make([]byte, n)
		for i := range b {
			switch r.Intn(4) {
			case 0:
				b[i] = byte(r.Intn(256))
			case 1:
				b[i] = "[]/=\"\\ :ab1."[r.Intn(12)]
			default:
				b[i] = byte(0x80 + r.Intn(0x80))
			}
		}
		return sx.Tag("markup", sx.Bytes(b))
	case 1: // a valid document with a few byte-level mutations
		g := &mgen{r: r}
		b := []byte(g.doc())
		for k := r.Intn(4); k > 0 && len(b) > 0; k-- {
			i := r.Intn(len(b))
			switch r.Intn(3) {
			case 0:
				b = append(b[:i], b[i+1:]...)
			case 1:
				b[i] = "[]/=\"\\ "[r.Intn(7)]
			default:
				b = append(b[:i], append([]byte{b[i]}, b[i:]...)...)
			}
		}
		return sx.Tag("markup", sx.Bytes(b))
	default: // fragment soup
		n := r.Intn(16)
		var sb strings.Builder
		for i := 0; i < n; i++ {
			sb.WriteString(mkFragments[r.Intn(len(mkFragments))])
		}
		return sx.Tag("markup", sx.Str(sb.String()))
	}
}

func genMarkupHist(r *rand.Rand, tier string) *sx.Node {
	g := &mgen{r: r}
	n := r.Intn(9)
	hist := []*sx.Node{}
	for i := 0; i < n; i++ {
		if r.Intn(3) == 0 {
			hist = append(hist, genMarkupFuzz(r, tier).L[1])
		} else {
			hist = append(hist, sx.Str(g.doc()))
		}
	}
	line := sx.Str(g.doc())
	if n > 0 && r.Intn(3) == 0 {
		line = hist[r.Intn(n)] // the same line again
	}
	// shapes on which state left behind by the previous call would show: the history ends (or
	// fails) right after a blank, a marker, an escape; the next line begins with escaped brackets and
	// a marker whose treatment depends on "what came just before"
	if r.Intn(3) == 0 {
		last := g.doc() + []string{" ", "\t", "  ", " [b", "\t[", " \\", "[wave/]", " [a/] "}[r.Intn(8)]
		hist = append(hist, sx.Str(last))
	}
	if r.Intn(3) == 0 {
		var b strings.Builder
		for k := r.Intn(3); k > 0; k-- {
			b.WriteString([]string{"\\[", "\\]"}[r.Intn(2)])
		}
		b.WriteString([]string{"[wave/]", "[wave /]", "[x trimwhitespace=true]", "[x trimwhitespace=false/]", "[a=1/]",
			"[select value=m m=\"he\"/]", "[nomarkup]q[/nomarkup]"}[r.Intn(7)])
		b.WriteString([]string{" splash", "  two", " ", "x", "\tq"}[r.Intn(5)])
		if r.Intn(2) == 0 {
			b.WriteString([]string{"\\]", "[/]", " [b/] z"}[r.Intn(3)])
		}
		line = sx.Str(b.String())
	}
	return sx.Tag("markuphist", sx.List(hist...), line)
}

// ---- unicode classes ----
func genUnicode(r *rand.Rand, tier string) *sx.Node {
	runes := []*sx.Node{}
	for i := 0; i < 400; i++ {
		var c rune
		switch r.Intn(4) {
		case 0:
			c = rune(r.Intn(0x300))
		case 1:
			c = rune(r.Intn(0x3000))
		case 2:
			c = rune(r.Intn(0x30000))
		default:
			c = rune(r.Intn(0x110000))
		}
		runes = append(runes, sx.Int(int64(c)))
	}
	return sx.Tag("unicode", runes...)
}

func runUnicode(c *sx.Node) *sx.Node {
	out := []*sx.Node{}
	for _, n := range c.Args() {
		r := rune(n.Int())
		v := int64(0)
		if unicode.IsLetter(r) {
			v += 4
		}
		if unicode.IsDigit(r) {
			v += 2
		}
		if unicode.IsSpace(r) {
			v++
		}
		out = append(out, sx.Int(v))
	}
	return sx.Tag("classes", out...)
}

var _ = sort.Strings
