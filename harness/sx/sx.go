// Package sx implements the s-expression wire format shared with the Coq model (Base/Sexp.v).
package sx

import (
	"fmt"
	"math/big"
	"strconv"
	"strings"
)

// Node is an integer (Z), a string (S) or a list (L).
type Node struct {
	Kind byte // 'z', 's', 'l'
	Z    *big.Int
	S    []rune
	L    []*Node
}

func Int(i int64) *Node     { return &Node{Kind: 'z', Z: big.NewInt(i)} }
func Uint(u uint64) *Node   { return &Node{Kind: 'z', Z: new(big.Int).SetUint64(u)} }
func Big(b *big.Int) *Node  { return &Node{Kind: 'z', Z: b} }
func Str(s string) *Node    { return &Node{Kind: 's', S: []rune(s)} }
func Runes(r []rune) *Node  { return &Node{Kind: 's', S: r} }
func List(l ...*Node) *Node { return &Node{Kind: 'l', L: l} }
func Bool(b bool) *Node {
	if b {
		return Int(1)
	}
	return Int(0)
}

// Tag builds (name args...).
func Tag(name string, args ...*Node) *Node {
	return &Node{Kind: 'l', L: append([]*Node{Str(name)}, args...)}
}

// Bytes encodes arbitrary bytes as a list of ints (strings on the wire are code points).
func Bytes(b []byte) *Node {
	l := make([]*Node, len(b))
	for i, c := range b {
		l[i] = Int(int64(c))
	}
	return List(l...)
}

func (n *Node) String() string {
	var b strings.Builder
	n.write(&b)
	return b.String()
}

func (n *Node) write(b *strings.Builder) {
	switch n.Kind {
	case 'z':
		b.WriteString(n.Z.String())
	case 's':
		b.WriteByte('"')
		for _, c := range n.S {
			switch {
			case c == '"':
				b.WriteString(`\"`)
			case c == '\\':
				b.WriteString(`\\`)
			case c == '\n':
				b.WriteString(`\n`)
			case c == '\r':
				b.WriteString(`\r`)
			case c == '\t':
				b.WriteString(`\t`)
			case c >= 32 && c < 127:
				b.WriteRune(c)
			default:
				b.WriteString(`\u{` + strconv.FormatInt(int64(c), 16) + `}`)
			}
		}
		b.WriteByte('"')
	case 'l':
		b.WriteByte('(')
		for i, c := range n.L {
			if i > 0 {
				b.WriteByte(' ')
			}
			c.write(b)
		}
		b.WriteByte(')')
	}
}

// Parse reads one s-expression.
func Parse(s string) (*Node, error) {
	p := &parser{src: []rune(s)}
	n, err := p.node()
	if err != nil {
		return nil, err
	}
	p.skip()
	if p.pos != len(p.src) {
		return nil, fmt.Errorf("trailing input at %d", p.pos)
	}
	return n, nil
}

type parser struct {
	src []rune
	pos int
}

func (p *parser) skip() {
	for p.pos < len(p.src) && strings.ContainsRune(" \t\r\n", p.src[p.pos]) {
		p.pos++
	}
}

func (p *parser) node() (*Node, error) {
	p.skip()
	if p.pos >= len(p.src) {
		return nil, fmt.Errorf("unexpected end")
	}
	switch c := p.src[p.pos]; {
	case c == '(':
		p.pos++
		n := &Node{Kind: 'l'}
		for {
			p.skip()
			if p.pos >= len(p.src) {
				return nil, fmt.Errorf("unterminated list")
			}
			if p.src[p.pos] == ')' {
				p.pos++
				return n, nil
			}
			c, err := p.node()
			if err != nil {
				return nil, err
			}
			n.L = append(n.L, c)
		}
	case c == ')':
		return nil, fmt.Errorf("unexpected )")
	case c == '"':
		p.pos++
		var out []rune
		for {
			if p.pos >= len(p.src) {
				return nil, fmt.Errorf("unterminated string")
			}
			c := p.src[p.pos]
			p.pos++
			if c == '"' {
				return &Node{Kind: 's', S: out}, nil
			}
			if c != '\\' {
				out = append(out, c)
				continue
			}
			if p.pos >= len(p.src) {
				return nil, fmt.Errorf("unterminated escape")
			}
			e := p.src[p.pos]
			p.pos++
			switch e {
			case 'n':
				out = append(out, '\n')
			case 'r':
				out = append(out, '\r')
			case 't':
				out = append(out, '\t')
			case 'u':
				if p.pos >= len(p.src) || p.src[p.pos] != '{' {
					return nil, fmt.Errorf("bad \\u escape")
				}
				end := p.pos
				for end < len(p.src) && p.src[end] != '}' {
					end++
				}
				if end >= len(p.src) {
					return nil, fmt.Errorf("bad \\u escape")
				}
				v, err := strconv.ParseInt(string(p.src[p.pos+1:end]), 16, 64)
				if err != nil {
					return nil, err
				}
				out = append(out, rune(v))
				p.pos = end + 1
			default:
				out = append(out, e)
			}
		}
	default:
		start := p.pos
		for p.pos < len(p.src) && !strings.ContainsRune(" \t\r\n()\"", p.src[p.pos]) {
			p.pos++
		}
		atom := string(p.src[start:p.pos])
		if z, ok := new(big.Int).SetString(atom, 10); ok && !strings.HasPrefix(atom, "+") {
			return &Node{Kind: 'z', Z: z}, nil
		}
		return &Node{Kind: 's', S: []rune(atom)}, nil
	}
}

// Helpers for decoding.
func (n *Node) IsTag(name string) bool {
	return n.Kind == 'l' && len(n.L) > 0 && n.L[0].Kind == 's' && string(n.L[0].S) == name
}
func (n *Node) TagName() string {
	if n.Kind == 'l' && len(n.L) > 0 && n.L[0].Kind == 's' {
		return string(n.L[0].S)
	}
	return ""
}
func (n *Node) Args() []*Node { return n.L[1:] }
func (n *Node) Int() int64    { return n.Z.Int64() }
func (n *Node) Text() string  { return string(n.S) }
