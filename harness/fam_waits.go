package main

import (
	"errors"
	"math"
	"math/rand"
	"strconv"
	"strings"
	"time"

	ysgo "github.com/remieven/ysgo"

	"verifharness/sx"
)

// waits (C10): the built-in <<wait n>> on real timers.  A case is (wait <bits of n> <form>); the
// harness reads the clock before the Next call that starts the command and after the first Next
// call that no longer answers "waiting" (polling without pause), so the measured time can only be
// LONGER than the time between the start of the command and its reported completion: a measured time
// below n seconds is a completion reported too early, whatever the load of the machine.
func init() {
	register("waits", family{gen: genWaits, run: runWaits})
}

var waitDurations = []float64{
	0.0009, 0.0005, 0.00075, 0.0003, 0.00099, // below a millisecond
	0.0015, 0.0025, 0.0035, 0.0109, 0.0207, 0.0051, // not a whole number of milliseconds
	0.001, 0.002, 0.01, 0.03125, 0.015625, // whole milliseconds, dyadic fractions
	0, // completes at once
}

func genWaits(r *rand.Rand, tier string) *sx.Node {
	n := waitDurations[r.Intn(len(waitDurations))]
	switch r.Intn(6) {
	case 0:
		n = float64(r.Intn(30000)) / 1e6 // microseconds up to 30 ms
	case 1:
		n = float64(r.Intn(2000)) / 1e6 // up to 2 ms
	case 2:
		n = r.Float64() * 0.004
	}
	if tier == "thorough" && r.Intn(40) == 0 {
		n = []float64{2.01, 1.0005, 0.5, 2.03}[r.Intn(4)]
	}
	return sx.Tag("wait", sx.Uint(math.Float64bits(n)), sx.Int(int64(r.Intn(3))))
}

func runWaits(c *sx.Node) *sx.Node {
	n := math.Float64frombits(c.L[1].Z.Uint64())
	lit := strconv.FormatFloat(n, 'f', -1, 64)
	var body string
	switch c.L[2].Int() {
	case 0:
		body = "<<wait " + lit + ">>\n"
	case 1:
		body = "<<wait {" + lit + "}>>\n"
	default:
		body = "<<set $d to " + lit + ">>\n<<wait {$d}>>\n"
	}
	dr, err := ysgo.NewDialogueRunner(nil, "s", strings.NewReader("title: S\n---\n"+body+"after\n===\n"))
	if err != nil {
		return sx.Tag("refused")
	}
	t0 := time.Now()
	el, err := dr.Next(0)
	polls := 0
	for errors.Is(err, ysgo.ErrWaitingForCommandCompletion) {
		polls++
		el, err = dr.Next(0)
	}
	elapsed := time.Since(t0)
	out := "other"
	switch {
	case err != nil:
		out = "err"
	case el != nil && el.Line != nil && el.Line.Text == "after":
		out = "line"
	}
	// "waiting" was answered at least once - or the wait is so short (at most 2 ms) that it had run out before the
	// runner looked at the command again: on a loaded machine the goroutine sleeping 0.3 ms can be done before Next
	// polls it, which is not the runner blocking (durations above 2 ms must answer "waiting")
	started := int64(0)
	if polls > 0 || (n <= 0.002 && elapsed.Seconds() >= n) {
		started = 1
	}
	return sx.Tag("waited", sx.Str(out), sx.Int(started), sx.Int(elapsed.Nanoseconds()))
}
