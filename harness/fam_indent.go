package main

import (
	"math/rand"
	"strings"

	ysgo "github.com/remieven/ysgo"

	"verifharness/sx"
)

// indent family (C20 token balance, C08 wrapper behaviour): the model is fed the base tokens the
// generated lexer produces for the text; the implementation lexes the text through the
// indentation-aware NextToken.
func init() {
	register("indent", family{gen: genIndent, run: runIndent, norm: func(c *sx.Node) *sx.Node { return indentCase(c.L[3].Text()) }})
}

const tokNEWLINE = 6

var indentLineKinds = []string{
	"plain line", "-> option", "<<set $x to 1>>", "// a comment", "", "another {1+1} line #tag",
	"<<jump a>>", "-> option <<if true>>", "<<if true>>", "<<endif>>", "text // trailing", "\\-> escaped",
}

// randomIndentedText builds a node whose body lines carry arbitrary indentation.
func randomIndentedText(r *rand.Rand) string {
	if r.Intn(40) == 0 {
		return ""
	}
	nl := "\n"
	if r.Intn(5) == 0 {
		nl = "\r\n"
	}
	var b strings.Builder
	if r.Intn(10) != 0 {
		b.WriteString("title: a" + nl)
		if r.Intn(4) == 0 {
			b.WriteString("tags: x y" + nl)
		}
		b.WriteString("---" + nl)
	}
	style := r.Intn(4) // 0 spaces, 1 tabs, 2 per-line choice, 3 may mix inside one line
	unit := 1 + r.Intn(4)
	depth := 0
	n := r.Intn(14)
	for i := 0; i < n; i++ {
		switch r.Intn(6) {
		case 0:
			depth++
		case 1:
			if depth > 0 {
				depth -= 1 + r.Intn(depth)
			}
		case 2:
			depth = r.Intn(4)
		}
		kind := indentLineKinds[r.Intn(len(indentLineKinds))]
		ind := ""
		switch style {
		case 0:
			ind = strings.Repeat(" ", depth*unit)
		case 1:
			ind = strings.Repeat("\t", depth)
		case 2:
			if r.Intn(2) == 0 {
				ind = strings.Repeat(" ", depth*unit)
			} else {
				ind = strings.Repeat("\t", depth)
			}
		case 3:
			for j := 0; j < depth; j++ {
				if r.Intn(6) == 0 {
					ind += "\t"
				} else {
					ind += " "
				}
			}
		}
		if kind == "" && r.Intn(2) == 0 {
			ind = strings.Repeat(" ", r.Intn(6)) // whitespace-only line at any width
		}
		if kind == "// a comment" && r.Intn(2) == 0 {
			ind = strings.Repeat(" ", r.Intn(6)) // comment at any indentation
		}
		b.WriteString(ind + kind)
		if i < n-1 || r.Intn(4) != 0 {
			b.WriteString(nl)
		}
	}
	if r.Intn(8) != 0 {
		b.WriteString("===")
		if r.Intn(2) == 0 {
			b.WriteString(nl)
		}
	}
	return b.String()
}

// followedByBlankOrComment reports whether the characters after rune index stop begin a blank or
// comment-only line, or the end of input.
func followedByBlankOrComment(runes []rune, stop int) bool {
	rest := runes[stop+1:]
	if len(rest) == 0 || rest[0] == '\n' || rest[0] == '\r' {
		return true
	}
	return len(rest) >= 2 && rest[0] == '/' && rest[1] == '/'
}

func indentCase(text string) *sx.Node {
	base, panicked := ysgo.VerifBaseTokens(text, 100000)
	runes := []rune(text)
	toks := []*sx.Node{}
	if panicked == "" {
		for _, t := range base {
			switch {
			case t.Type == -1:
			case t.Type == tokNEWLINE:
				toks = append(toks, sx.Tag("nl", sx.Str(t.Text), sx.Bool(followedByBlankOrComment(runes, t.Stop))))
			default:
				toks = append(toks, sx.Tag("t", sx.Int(int64(t.Type))))
			}
		}
	}
	return sx.Tag("indent", sx.Bool(len(runes) == 0), sx.List(toks...), sx.Str(text))
}

func genIndent(r *rand.Rand, tier string) *sx.Node {
	return indentCase(randomIndentedText(r))
}

func runIndent(c *sx.Node) *sx.Node {
	text := c.L[3].Text()
	toks, panicked := ysgo.VerifWrappedTokens(text, 300000)
	if panicked != "" {
		return sx.Tag("PANIC")
	}
	out := []*sx.Node{}
	for _, t := range toks {
		out = append(out, sx.Int(int64(t.Type)))
	}
	return sx.Tag("toks", out...)
}
