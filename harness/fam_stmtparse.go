package main

// Family stmtparse (C05, C08, C01, C17): the generated parser + the listener of internal/tree against the
// statement parser model (coq/Syntax/StmtParser.v). A case is one reader's text together with the tokens
// the implementation's own lexer (indentation wrapper included) hands to the parser for it - the
// default-channel tokens up to EOF, with their numeric types and texts - and the number of errors the
// lexer reported. The model parses the token list; the implementation parses the text
// (tree.FromReader through the dump hook): accepted or refused, and the dialogue built.

import (
	"math/rand"
	"strings"

	ysgo "github.com/remieven/ysgo"

	"verifharness/sx"
)

func init() {
	register("stmtparse", family{gen: genStmtParse, run: runStmtParse, norm: normStmtParse})
}

// stmtTokens: (lexer errors, tokens) of text as the parser sees them; ok=false when the lexer panics
// (indentation mixing tabs and blanks) or does not end.
func stmtTokens(text string) (toks []*sx.Node, ok bool) {
	all, panicked := ysgo.VerifWrappedTokens(text, 400000)
	if panicked != "" || len(all) == 0 || all[len(all)-1].Type != -1 {
		return nil, false
	}
	for _, t := range all {
		if t.Channel != 0 {
			continue
		}
		toks = append(toks, sx.List(sx.Int(int64(t.Type)), sx.Str(t.Text)))
	}
	return toks, true
}

func stmtCase(text string, extra ...*sx.Node) *sx.Node {
	toks, ok := stmtTokens(text)
	if !ok {
		return sx.Tag("stmtparse", append([]*sx.Node{sx.Str(text), sx.Tag("lexer-panic")}, extra...)...)
	}
	lexErrs, _ := ysgo.VerifLexerErrors(text)
	return sx.Tag("stmtparse", append([]*sx.Node{sx.Str(text), sx.Tag("toks", sx.Int(int64(lexErrs)), sx.List(toks...))}, extra...)...)
}

// a shrunk case is a changed text: its tokens are taken again, the expectation (if any) is dropped
func normStmtParse(c *sx.Node) *sx.Node { return stmtCase(c.L[1].Text()) }

func genStmtParse(r *rand.Rand, tier string) *sx.Node {
	cfg := flowCfg
	cfg.faultPct, cfg.markupText, cfg.multiByte = 3, r.Intn(4) == 0, r.Intn(3) == 0
	cfg.maxDepth = 3 + r.Intn(3)
	g := &dgen{r: r, cfg: cfg}
	nodes := g.dialogue()
	lay := randomLayout(r)
	text := lay.printNodes(nodes)
	if r.Intn(2) == 0 {
		// the printed program as it is: the generator knows the dialogue it stands for (independent of
		// model and implementation): ("expect" <dialogue>)
		return stmtCase(text, sx.Tag("expect", sx.List(nodes...)))
	}
	switch r.Intn(8) {
	case 0, 1, 2: // token-level mutations of a valid script
		text = mutate(r, text)
	case 3: // keyword soup
		var sb strings.Builder
		for i := r.Intn(20); i > 0; i-- {
			sb.WriteString(soup[r.Intn(len(soup))])
		}
		text = sb.String()
	case 4: // a script cut at an arbitrary offset
		k := r.Intn(len(text) + 1)
		if r.Intn(2) == 0 {
			text = text[:k]
		} else {
			text = text[k:]
		}
	}
	return stmtCase(text)
}

func runStmtParse(c *sx.Node) *sx.Node {
	text := c.L[1].Text()
	// an independent run of the generated lexer and parser with error listeners of its own: the
	// oracle's reading of "syntactically valid" (not compared with the model)
	syntaxErrors, leftover, nodes, panicked := ysgo.VerifSyntaxCheck(text)
	syn := sx.Tag("syntax", sx.Int(int64(syntaxErrors)), sx.Bool(leftover), sx.Int(int64(nodes)), sx.Bool(panicked != ""))
	dump, err := ysgo.VerifDumpDialogue(strings.NewReader(text))
	if err != nil {
		return sx.Tag("err", syn)
	}
	n, perr := sx.Parse(dump)
	if perr != nil {
		return sx.Tag("HARNESS-PANIC", sx.Str("dump does not parse: "+perr.Error()))
	}
	return sx.Tag("ok", n, syn)
}
