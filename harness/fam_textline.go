package main

import (
	"math/rand"
	"strings"

	ysgo "github.com/remieven/ysgo"

	"verifharness/sx"
)

// textline family (C04, lexing part): one source line in a node body; what the implementation's
// parser makes of it (a single plain line with its literal text and tags, or anything else).
func init() {
	register("textline", family{gen: genTextLine, run: runTextLine})
}

var tlAlphabet = []rune("abcXYZ 09\t.,;:!?'\"()[]|~^&*+=-_%$@<>/#{}\\éü日本𝄞")

func genTextLine(r *rand.Rand, tier string) *sx.Node {
	var b strings.Builder
	if r.Intn(5) == 0 {
		b.WriteString(strings.Repeat(" ", r.Intn(4)))
	}
	n := 1 + r.Intn(14)
	raw := r.Intn(4) == 0 // a quarter of the lines is written without any care for escapes
	for i := 0; i < n; i++ {
		c := tlAlphabet[r.Intn(len(tlAlphabet))]
		if c == '{' || (c == '<' && r.Intn(3) != 0) {
			// inline expressions and commands are outside this family: always escape them
			b.WriteString("\\" + string(c))
			continue
		}
		special := strings.ContainsRune("\\#{}</", c)
		switch {
		case raw:
			b.WriteRune(c)
		case special && r.Intn(6) != 0:
			b.WriteString("\\" + string(c))
		case !special && c == '>' && r.Intn(2) == 0:
			b.WriteString("\\>")
		case !special && r.Intn(40) == 0:
			b.WriteString("\\" + string(c)) // a character that cannot be escaped
		default:
			b.WriteRune(c)
		}
	}
	// tags and comment
	for k := r.Intn(3); k > 0 && r.Intn(2) == 0; k-- {
		b.WriteString([]string{" #", "#", "  # ", " ##"}[r.Intn(4)] + []string{"tag", "line:12", "é", "a-b", "x$y", ""}[r.Intn(6)])
	}
	if r.Intn(6) == 0 {
		b.WriteString([]string{" // comment", "// c # not a tag", " //"}[r.Intn(3)])
	}
	s := b.String()
	if strings.Contains(s, "<<") && !strings.Contains(s, "\\<<") {
		s = strings.ReplaceAll(s, "<<", "<\\<")
	}
	return sx.Tag("textline", sx.Str(s))
}

func runTextLine(c *sx.Node) *sx.Node {
	src := "title: a\n---\n" + c.L[1].Text() + "\n===\n"
	dump, err := ysgo.VerifDumpDialogue(strings.NewReader(src))
	if err != nil {
		return sx.Tag("none")
	}
	d, perr := sx.Parse(dump)
	if perr != nil || len(d.L) != 1 {
		return sx.Tag("none")
	}
	body := d.L[0].L[2].L
	if len(body) != 1 || body[0].TagName() != "line" {
		return sx.Tag("none")
	}
	line := body[0]
	if len(line.L[1].L) != 1 || line.L[1].L[0].TagName() != "t" || len(line.L[2].L) != 0 {
		return sx.Tag("none")
	}
	return sx.Tag("line", line.L[1].L[0].L[1], line.L[3])
}
