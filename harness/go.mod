module verifharness

go 1.22

require github.com/remieven/ysgo v0.0.0

require github.com/antlr4-go/antlr/v4 v4.13.1

require golang.org/x/exp v0.0.0-20240808152545-0cdaa3abc0fa // indirect

replace github.com/remieven/ysgo => /repo
