package main

import (
	"errors"
	"io"
	"math/rand"
	"strings"
	"testing/iotest"
	"time"

	ysgo "github.com/remieven/ysgo"

	"verifharness/sx"
)

// load family (C05): any bytes, any reader split, any seed: a runner or an error, never a panic;
// accepted exactly when an independent run of the generated lexer/parser reports a valid script.
func init() {
	register("load", family{gen: genLoad, run: runLoad})
}

var soup = []string{"title: a\n", "---\n", "===\n", "<<if true>>\n", "<<endif>>\n", "<<else>>\n", "-> opt\n", "    ", "\t", "<<set $x to 1>>\n",
	"<<jump a>>\n", "{1+", "}", ">>", "<<", "#tag", "// c\n", "\\", "hello\n", "\n", "\r\n", "<<declare $v = 3>>\n", "<<call f()>>\n", "<<stop>>\n", "null", "$", "\"", "(", ")"}

func mutate(r *rand.Rand, text string) string {
	b := []byte(text)
	for k := r.Intn(4); k > 0 && len(b) > 0; k-- {
		switch r.Intn(11) {
		case 9: // input after the last node that cannot start a node (the dialogue rule stops without an error)
			b = append(b, []byte([]string{"---\nx\n===\n", "#late\n", ": x\n", "---\n", "#a #b\n"}[r.Intn(5)])...)
		case 10: // a later node loses its headers
			s := string(b)
			if i := strings.Index(s, "===\n"); i >= 0 {
				if j := strings.Index(s[i:], "---"); j >= 0 {
					b = []byte(s[:i+4] + s[i+j:])
				}
			}
		case 0: // truncate
			b = b[:r.Intn(len(b))]
		case 1: // delete a line
			lines := strings.SplitAfter(string(b), "\n")
			i := r.Intn(len(lines))
			b = []byte(strings.Join(append(lines[:i:i], lines[i+1:]...), ""))
		case 2: // duplicate a line
			lines := strings.SplitAfter(string(b), "\n")
			i := r.Intn(len(lines))
			b = []byte(strings.Join(append(lines[:i+1:i+1], lines[i:]...), ""))
		case 3: // swap two lines
			lines := strings.SplitAfter(string(b), "\n")
			i, j := r.Intn(len(lines)), r.Intn(len(lines))
			lines[i], lines[j] = lines[j], lines[i]
			b = []byte(strings.Join(lines, ""))
		case 4: // unbalance a command
			s := string(b)
			if i := strings.Index(s, ">>"); i >= 0 {
				b = []byte(s[:i] + s[i+2:])
			}
		case 5: // break an endif / else
			b = []byte(strings.Replace(string(b), "<<endif>>", []string{"", "<<endif", "<<end if>>", "<<endif>><<endif>>"}[r.Intn(4)], 1))
		case 6: // mix tabs and blanks in an indentation
			b = []byte(strings.Replace(string(b), "\n  ", "\n \t ", 1))
		case 7: // overwrite a byte
			bs := []byte("<>{}#\\\"$-=\n\t \x00\xff")
			b[r.Intn(len(b))] = bs[r.Intn(len(bs))]
		default: // insert soup
			i := r.Intn(len(b) + 1)
			b = append(b[:i:i], append([]byte(soup[r.Intn(len(soup))]), b[i:]...)...)
		}
	}
	return string(b)
}

func genLoad(r *rand.Rand, tier string) *sx.Node {
	readers := []string{}
	switch r.Intn(10) {
	case 0: // random bytes
		n := r.Intn(60)
		b := make([]byte, n)
		for i := range b {
			b[i] = byte(r.Intn(256))
		}
		readers = append(readers, string(b))
	case 1: // keyword soup
		var sb strings.Builder
		for i := r.Intn(20); i > 0; i-- {
			sb.WriteString(soup[r.Intn(len(soup))])
		}
		readers = append(readers, sb.String())
	case 2: // empty or blank
		readers = append(readers, []string{"", "\n", "   ", "// only a comment\n", "#tag\n"}[r.Intn(5)])
	default:
		cfg := flowCfg
		cfg.faultPct = 3
		g := &dgen{r: r, cfg: cfg}
		nodes := g.dialogue()
		lay := randomLayout(r)
		// split the nodes over 1-3 readers
		for len(nodes) > 0 {
			n := 1 + r.Intn(len(nodes))
			readers = append(readers, lay.printNodes(nodes[:n]))
			nodes = nodes[n:]
		}
		if r.Intn(3) != 0 {
			i := r.Intn(len(readers))
			readers[i] = mutate(r, readers[i])
		}
		if r.Intn(12) == 0 {
			// one script cut in two at an arbitrary offset: two readers, neither of them a script
			all := strings.Join(readers, "")
			k := r.Intn(len(all) + 1)
			readers = []string{all[:k], all[k:]}
		}
	}
	if r.Intn(60) == 0 {
		// a single reader of more than a megabyte: a valid script padded with comment lines, and the
		// same followed by something that is not a script
		pad := sx.Tag("rep", sx.Int(int64(30000+r.Intn(30000))), sx.Str("// forty characters of padding, line after line\n"))
		head := sx.Str("title: Big\n---\nfirst line\n")
		tail := "last line\n===\ntitle: After\n---\nstill here\n===\n"
		if r.Intn(2) == 0 {
			tail += "this is not a script <<\n"
		}
		if r.Intn(3) == 0 {
			// the megabyte boundary falls inside the padding of a node body that ends much later
			tail = "-> option\n    deep\n" + tail
		}
		return sx.Tag("load", sx.Bytes([]byte(randomSeed(r))), sx.List(sx.Tag("cat", head, pad, sx.Str(tail))))
	}
	seed := []byte(randomSeed(r))
	switch r.Intn(12) {
	case 0:
		seed = nil
	case 1:
		seed = []byte([]string{"A", "é", "-1", " ", "a b", "seed!", "ß"}[r.Intn(7)])
	case 2, 3:
		// any byte, alone or after / before / between valid seed characters - on an unmutated script,
		// because the seed is only looked at once the script has been accepted
		readers = []string{"title: S\n---\nline {dice(6)}\n===\n"}
		b := byte(r.Intn(256))
		switch r.Intn(8) {
		case 0:
			b = 0x7f
		case 1:
			b = []byte{0, '/', ':', '`', '{', '@', '[', 0x80, 0xff}[r.Intn(9)]
		}
		seed = [][]byte{{b}, {'a', '1', b}, {b, 'z'}, {'0', b, '9'}, {b, b}}[r.Intn(5)]
	}
	rs := []*sx.Node{}
	for _, t := range readers {
		rs = append(rs, sx.Bytes([]byte(t)))
	}
	c := sx.Tag("load", sx.Bytes(seed), sx.List(rs...))
	// how the host's readers behave is not part of the script: one byte per Read, data together with EOF,
	// empty reads; and, before this load, another load whose reader failed half-way (a third of the cases)
	if r.Intn(3) == 0 {
		c.L = append(c.L, sx.Tag("rmode", sx.Int(int64(1+r.Intn(4)))))
	}
	if r.Intn(3) == 0 {
		c.L = append(c.L, sx.Tag("prefail", sx.Str([]string{"title: Ghost\n---\nghost line\n", "title: G\n---\n<<if true>>\n", "===\n", "title: Ghost\n---\nghost\n===\n", "x"}[r.Intn(5)])))
	}
	return c
}

// failingReader delivers its data and then fails with an error that is not io.EOF.
type failingReader struct {
	data []byte
	done bool
}

func (f *failingReader) Read(p []byte) (int, error) {
	if !f.done && len(f.data) > 0 {
		n := copy(p, f.data)
		f.data = f.data[n:]
		return n, nil
	}
	return 0, errors.New("connection reset")
}

func readerIn(mode int, t string) io.Reader {
	var rd io.Reader = strings.NewReader(t)
	switch mode {
	case 1:
		return iotest.OneByteReader(rd)
	case 2:
		return iotest.DataErrReader(rd)
	case 3:
		return iotest.HalfReader(rd)
	case 4:
		return iotest.DataErrReader(iotest.OneByteReader(rd))
	}
	return rd
}

func runLoad(c *sx.Node) *sx.Node {
	seed := markupInput(c.L[1])
	texts := []string{}
	for _, n := range c.L[2].L {
		texts = append(texts, markupInput(n))
	}
	// the independent verdict
	valid := len(texts) > 0
	why := ""
	for _, t := range texts {
		errs, leftover, nodes, panicked := ysgo.VerifSyntaxCheck(t)
		if errs != 0 || leftover || nodes == 0 || panicked != "" {
			valid = false
			switch {
			case panicked != "":
				why = "lexer panic: " + panicked
			case errs != 0:
				why = "syntax errors"
			case leftover:
				why = "input left after the last node"
			default:
				why = "no node"
			}
		}
	}
	if _, ok := ownSeedToInt64(seed); !ok {
		valid = false
		why = "seed outside [0-9a-z]"
	}
	type result struct {
		outcome string
		usable  string
	}
	done := make(chan result, 1)
	go func() {
		res := result{}
		defer func() {
			if r := recover(); r != nil {
				res.outcome = "panic"
			}
			done <- res
		}()
		mode := 0
		for _, x := range c.L[3:] {
			switch x.TagName() {
			case "rmode":
				mode = int(x.L[1].Int())
			case "prefail":
				// an earlier load that failed while reading must leave nothing behind
				ysgo.NewDialogueRunner(nil, "x", &failingReader{data: []byte(x.L[1].Text())})
			}
		}
		readers := make([]io.Reader, len(texts))
		for i, t := range texts {
			readers[i] = readerIn(mode, t)
		}
		dr, err := ysgo.NewDialogueRunner(nil, seed, readers...)
		if err != nil {
			res.outcome = "err"
			return
		}
		res.outcome = "runner"
		res.usable = "ok"
		_ = dr // running the dialogue is C06's concern (a mutated script may contain a non-yielding jump cycle, D7)
	}()
	var res result
	select {
	case res = <-done:
	case <-time.After(10 * time.Second):
		res = result{outcome: "hang"}
	}
	return sx.Tag("load", sx.Str(res.outcome), sx.Str(res.usable), sx.Bool(valid), sx.Str(why))
}
