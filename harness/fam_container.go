package main

import (
	"math/rand"

	ysgo "github.com/remieven/ysgo"

	"verifharness/sx"
)

// queue / stack operation sequences (C20).  Generation is biased towards the states the property
// names: wrapped buffers at the moment of growth, several growths, draining to empty and refilling.
func init() {
	register("queue", family{gen: genQueue, run: runQueue})
	register("stack", family{gen: genStack, run: runStack})
}

func genQueue(r *rand.Rand, tier string) *sx.Node {
	maxOps := 120
	if tier == "thorough" {
		maxOps = 400
	}
	n := 1 + r.Intn(maxOps)
	ops := []*sx.Node{}
	next := int64(1)
	// phases: each phase has its own enqueue probability so the queue breathes
	for len(ops) < n {
		phaseLen := 1 + r.Intn(40)
		pEnq := []float64{0.5, 0.9, 0.2, 0.65, 1.0, 0.0}[r.Intn(6)]
		for i := 0; i < phaseLen && len(ops) < n; i++ {
			x := r.Float64()
			switch {
			case x < 0.08:
				ops = append(ops, sx.Tag("size"))
			case x < 0.14:
				ops = append(ops, sx.Tag("peek"))
			case r.Float64() < pEnq:
				v := next
				if r.Intn(10) == 0 {
					v = int64(r.Intn(5)) - 2 // duplicates and zero values
				}
				next++
				ops = append(ops, sx.Tag("enq", sx.Int(v)))
			default:
				ops = append(ops, sx.Tag("deq"))
			}
		}
	}
	return sx.Tag("queue", ops...)
}

func catchPanic(f func() *sx.Node) (out *sx.Node) {
	defer func() {
		if r := recover(); r != nil {
			out = sx.Tag("panic")
		}
	}()
	return f()
}

func runQueue(c *sx.Node) *sx.Node {
	var q ysgo.VerifQueue
	res := []*sx.Node{}
	for _, op := range c.Args() {
		op := op
		res = append(res, catchPanic(func() *sx.Node {
			switch op.TagName() {
			case "enq":
				q.Enqueue(int(op.L[1].Int()))
				return sx.Tag("n")
			case "deq":
				return sx.Tag("v", sx.Int(int64(q.Dequeue())))
			case "peek":
				return sx.Tag("v", sx.Int(int64(q.Peek())))
			case "size":
				return sx.Tag("size", sx.Int(int64(q.Size())))
			}
			return sx.Tag("BADCASE")
		}))
	}
	return sx.Tag("res", res...)
}

func genStack(r *rand.Rand, tier string) *sx.Node {
	n := 1 + r.Intn(80)
	ops := []*sx.Node{}
	next := int64(1)
	for len(ops) < n {
		switch x := r.Intn(20); {
		case x < 7:
			ops = append(ops, sx.Tag("push", sx.Int(next)))
			next++
		case x < 9:
			k := r.Intn(5)
			args := []*sx.Node{}
			for i := 0; i < k; i++ {
				args = append(args, sx.Int(next))
				next++
			}
			ops = append(ops, sx.Tag("pushall", args...))
		case x < 15:
			ops = append(ops, sx.Tag("pop"))
		case x < 17:
			ops = append(ops, sx.Tag("peek"))
		case x < 19:
			ops = append(ops, sx.Tag("size"))
		default:
			ops = append(ops, sx.Tag("clear"))
		}
	}
	return sx.Tag("stack", ops...)
}

func runStack(c *sx.Node) *sx.Node {
	var s ysgo.VerifStack
	res := []*sx.Node{}
	for _, op := range c.Args() {
		op := op
		res = append(res, catchPanic(func() *sx.Node {
			switch op.TagName() {
			case "push":
				s.Push(int(op.L[1].Int()))
				return sx.Tag("n")
			case "pushall":
				// the caller's slice (with spare capacity) stays the caller's: it is overwritten and appended
				// to straight after the call, which must not change what the stack holds
				xs := make([]int, 0, len(op.Args())+4)
				for _, a := range op.Args() {
					xs = append(xs, int(a.Int()))
				}
				s.PushAll(xs...)
				for i := range xs {
					xs[i] = -7777
				}
				_ = append(xs, -8888, -8889)
				return sx.Tag("n")
			case "pop":
				return sx.Tag("v", sx.Int(int64(s.Pop())))
			case "peek":
				return sx.Tag("v", sx.Int(int64(s.Peek())))
			case "size":
				return sx.Tag("size", sx.Int(int64(s.Size())))
			case "clear":
				s.Clear()
				return sx.Tag("n")
			}
			return sx.Tag("BADCASE")
		}))
	}
	return sx.Tag("res", res...)
}
