package main

// Random dialogues (as s-expression ASTs in the parser's normal form) and adaptive operation
// sequences for the runner families.

import (
	"math"
	"math/rand"
	"strconv"
	"strings"

	"verifharness/sx"
)

type genCfg struct {
	maxNodes, maxDepth, maxStmts                                 int
	wOpts, wIf, wSet, wJump, wCmd, wCall, wDeclare, wStop, wLine int // statement weights
	exprDepth                                                    int
	faultPct                                                     int // percent of expressions / names made faulty
	randomFns                                                    bool
	hostCmds                                                     bool
	waitCmd                                                      bool
	trackingHeaders                                              bool
	visitedFns                                                   bool
	markupText                                                   bool
	multiByte                                                    bool
	compound                                                     bool     // compound assignment operators
	typeFaultPct                                                 int      // percent of assignments given a value of another type
	domainFaults                                                 bool     // out-of-domain arguments to built-ins
	visitLines                                                   bool     // every line shows the visit counters of every node
	replPct                                                      int      // with markupText: percent of chunks carrying a replacement marker
	loopPct                                                      int      // percent of nodes ending in a counted jump back to themselves / another node
	neverPct                                                     int      // percent of nodes with "tracking: never" (0: the default mix)
	bareSetPct                                                   int      // percent of assignments whose right-hand side is a bare literal or variable
	firstLineRepl                                                bool     // the first line of every node carries an open-form replacement marker
	cmdNames                                                     []string // host commands of the family (default: hostCommandNames)
	randomPct                                                    int      // percent of numeric expressions that are a call of dice / random_range / random
}

var flowCfg = genCfg{maxNodes: 4, maxDepth: 4, maxStmts: 5, wOpts: 5, wIf: 4, wSet: 3, wJump: 2, wCmd: 1, wCall: 1,
	wDeclare: 1, wStop: 1, wLine: 6, exprDepth: 2, faultPct: 2, hostCmds: true, trackingHeaders: true, visitedFns: true, compound: true, loopPct: 25}

type dgen struct {
	r     *rand.Rand
	cfg   genCfg
	nodes []string
	vars  map[string][]string // type -> names
}

func numLit(f float64) *sx.Node { return sx.Tag("num", sx.Uint(math.Float64bits(f))) }
func boolLit(b bool) *sx.Node   { return sx.Tag("bool", sx.Bool(b)) }
func strLit(s string) *sx.Node  { return sx.Tag("str", sx.Str(s)) }
func varRef(n string) *sx.Node  { return sx.Tag("var", sx.Str(n)) }
func fnCall(f string, a ...*sx.Node) *sx.Node {
	return sx.Tag("fn", sx.Str(f), sx.List(a...))
}
func binOp(op string, l, r *sx.Node) *sx.Node { return sx.Tag("bin", sx.Str(op), l, r) }

var numLits = []float64{0, 1, 2, 3, 4, 5, 7, 10, 12, 100, 0.5, 0.25, 1.5, 2.75, 3.125, 1000000, 6.75}
var strLits = []string{"a", "b", "hello", "x y", "", "Start", "N1", "N2", "ünï", "日本", "{0}", "{1}", "{2}", "%d"}

func (g *dgen) pick(l []string) string { return l[g.r.Intn(len(l))] }

func (g *dgen) fault() bool { return g.cfg.faultPct > 0 && g.r.Intn(100) < g.cfg.faultPct }

func (g *dgen) otherType(t string) string {
	ts := []string{"num", "bool", "str"}
	for {
		o := ts[g.r.Intn(3)]
		if o != t {
			return o
		}
	}
}

// expr generates an expression that evaluates (when nothing is faulty) to a value of type t.
func (g *dgen) expr(t string, depth int) *sx.Node {
	if g.fault() {
		switch g.r.Intn(9) {
		case 6, 7, 8:
			return g.illTypedOperation(t, depth)
		case 0:
			return g.expr(g.otherType(t), depth) // ill-typed
		case 1:
			return varRef("undefined_" + strconv.Itoa(g.r.Intn(3)))
		case 2:
			return fnCall([]string{"no_such_function", "rand", "dic", "roun", "flor", "strin", "visite"}[g.r.Intn(7)], g.expr("num", 0))
		case 3:
			return fnCall("noret")
		case 4:
			return fnCall("fail", numLit(1))
		case 5:
			return sx.Tag("null")
		}
	}
	leaf := depth <= 0 || g.r.Intn(3) == 0
	switch t {
	case "num":
		if g.cfg.randomPct > 0 && g.r.Intn(100) < g.cfg.randomPct {
			return g.randomCall()
		}
		if leaf {
			if g.r.Intn(2) == 0 && len(g.vars["num"]) > 0 {
				return varRef(g.pick(g.vars["num"]))
			}
			return numLit(numLits[g.r.Intn(len(numLits))])
		}
		switch x := g.r.Intn(12); {
		case g.cfg.randomFns && g.cfg.domainFaults && g.r.Intn(8) == 0:
			return g.domainFault()
		case x < 6:
			return binOp([]string{"+", "-", "*", "/", "%"}[g.r.Intn(5)], g.expr("num", depth-1), g.expr("num", depth-1))
		case x < 7:
			return sx.Tag("neg", g.expr("num", depth-1))
		case x < 8:
			return fnCall("p", strLit("t"+strconv.Itoa(g.r.Intn(4))), g.expr("num", depth-1))
		case x < 9:
			return fnCall([]string{"floor", "ceil", "round", "inc", "dec", "integer", "decimal"}[g.r.Intn(7)], g.expr("num", depth-1))
		case x < 10 && g.cfg.visitedFns && len(g.nodes) > 0:
			return fnCall("visited_count", strLit(g.pick(g.nodes)))
		case x < 11 && g.cfg.randomFns && g.cfg.domainFaults && g.r.Intn(3) == 0:
			return g.domainFault()
		case x < 11 && g.cfg.randomFns:
			return g.randomCall()
		default:
			return fnCall("number", g.expr([]string{"num", "bool"}[g.r.Intn(2)], depth-1))
		}
	case "bool":
		if leaf {
			if g.r.Intn(2) == 0 && len(g.vars["bool"]) > 0 {
				return varRef(g.pick(g.vars["bool"]))
			}
			return boolLit(g.r.Intn(2) == 0)
		}
		switch x := g.r.Intn(12); {
		case x < 3:
			return binOp([]string{"<", "<=", ">", ">="}[g.r.Intn(4)], g.expr("num", depth-1), g.expr("num", depth-1))
		case x < 5:
			t2 := []string{"num", "bool", "str"}[g.r.Intn(3)]
			return binOp([]string{"==", "!="}[g.r.Intn(2)], g.expr(t2, depth-1), g.expr(t2, depth-1))
		case x < 8:
			return binOp([]string{"and", "or", "xor"}[g.r.Intn(3)], g.expr("bool", depth-1), g.expr("bool", depth-1))
		case x < 9:
			return sx.Tag("not", g.expr("bool", depth-1))
		case x < 10 && g.cfg.visitedFns && len(g.nodes) > 0:
			return fnCall("visited", strLit(g.pick(g.nodes)))
		case x < 11:
			return fnCall("p", strLit("t"+strconv.Itoa(g.r.Intn(4))), g.expr("bool", depth-1))
		default:
			return fnCall("bool", g.expr([]string{"num", "bool"}[g.r.Intn(2)], depth-1))
		}
	default:
		if leaf {
			if g.r.Intn(2) == 0 && len(g.vars["str"]) > 0 {
				return varRef(g.pick(g.vars["str"]))
			}
			if g.cfg.markupText && g.r.Intn(5) == 0 {
				return strLit([]string{"[b]", "[/b]", "]x", "[", "[z/]", "]", "a [i]b[/i]"}[g.r.Intn(7)])
			}
			return strLit(strLits[g.r.Intn(len(strLits))])
		}
		switch x := g.r.Intn(6); {
		case x < 3:
			return binOp("+", g.expr("str", depth-1), g.expr("str", depth-1))
		case x < 4:
			return fnCall("p", strLit("t"+strconv.Itoa(g.r.Intn(4))), g.expr("str", depth-1))
		default:
			return fnCall("string", g.expr([]string{"num", "bool", "str"}[g.r.Intn(3)], depth-1))
		}
	}
}

// illTypedOperation: an operation that would give a t if its operands were of the right types, with
// exactly one operand of another type - on either side, and for and/or with a left operand that
// does not decide (so the right operand is reached and must be rejected).
func (g *dgen) illTypedOperation(t string, depth int) *sx.Node {
	d := depth - 1
	if d < 0 {
		d = 0
	}
	two := func(op, want string) *sx.Node {
		good, bad := g.expr(want, d), g.expr(g.otherType(want), d)
		if g.r.Intn(2) == 0 {
			return binOp(op, bad, good)
		}
		return binOp(op, good, bad)
	}
	switch t {
	case "num":
		if g.r.Intn(5) == 0 {
			return sx.Tag("neg", g.expr(g.otherType("num"), d))
		}
		return two([]string{"+", "-", "*", "/", "%"}[g.r.Intn(5)], "num")
	case "bool":
		switch g.r.Intn(6) {
		case 0:
			return binOp("and", boolLit(true), g.expr(g.otherType("bool"), d))
		case 1:
			return binOp("or", boolLit(false), g.expr(g.otherType("bool"), d))
		case 2:
			return two([]string{"and", "or", "xor"}[g.r.Intn(3)], "bool")
		case 3:
			return two([]string{"<", "<=", ">", ">="}[g.r.Intn(4)], "num")
		case 4:
			return two([]string{"==", "!="}[g.r.Intn(2)], []string{"num", "bool", "str"}[g.r.Intn(3)])
		default:
			return sx.Tag("not", g.expr(g.otherType("bool"), d))
		}
	default:
		return two("+", "str")
	}
}

// lit is a numeric literal in the parser's normal form (negative numbers are neg(literal)).
func (g *dgen) lit(f float64) *sx.Node {
	if f < 0 {
		return sx.Tag("neg", numLit(-f))
	}
	return numLit(f)
}

var words = []string{"hello", "there", "well", "a", "long", "day", "Ünï", "日本語", "ok", "yes", "no", "x2", "it's", "so - so", "wait...", "50%", "a>b", "tab\there",
	"{0}", "{1}", "{2} {0}", "%s", "{}"}

func (g *dgen) textChunk(first bool) string {
	n := 1 + g.r.Intn(3)
	parts := []string{}
	for i := 0; i < n; i++ {
		parts = append(parts, g.pick(words))
	}
	s := strings.Join(parts, " ")
	if !first && g.r.Intn(2) == 0 {
		s = " " + s
	}
	if g.r.Intn(3) == 0 {
		s += " "
	}
	if g.r.Intn(12) == 0 {
		s += []string{"#", "{", "}", "\\", "<", "/", "<<", "//"}[g.r.Intn(8)] + "z"
	}
	if g.cfg.markupText {
		s = g.decorate(s)
	}
	return s
}

var markupNames = []string{"b", "i", "wave", "shake", "a1", "ü"}
var markupLoose = []string{"[b]", "[/b]", "[/]", "[wave/]", "[wave /]", "[a=1]", "[/a]", "\\[", "\\]", "[", "]", "[/nope]", "[pause=500/]", "[b][i]", "[/i][/b]",
	"[nomarkup]", "[/nomarkup]", "\\", "[x y=\"q r\"/]", "[/b ]", "[ b ]"}

// decorate adds markup to a text chunk: mostly balanced (so that lines mostly render), sometimes a
// replacement marker in its self-closing or its open form, sometimes loose brackets and backslashes.
func (g *dgen) decorate(s string) string {
	x := g.r.Intn(100)
	switch {
	case x < g.cfg.replPct:
		switch g.r.Intn(8) {
		case 0:
			return s + "[nomarkup][z] \\[ " + g.pick(words) + "[/nomarkup]"
		case 1:
			return "[nomarkup]" + s + "[/nomarkup]"
		case 2:
			return s + "[select value=" + g.pick([]string{"m", "f", "x"}) + " m=\"he\" f=\"she\"/]"
		case 3:
			return s + "[select value=m m=\"he\" f=\"she\"]" + g.pick(words) + "[/select]"
		case 4:
			return s + "[plural value=" + strconv.Itoa(g.r.Intn(4)) + " one=\"% apple\" other=\"% apples\"/]"
		case 5:
			return s + "[plural value=2 one=\"% apple\" other=\"% apples\"]" + g.pick(words) + "[/plural]"
		case 6:
			return s + "[ordinal value=" + strconv.Itoa(g.r.Intn(25)) + " one=\"%st\" two=\"%nd\" few=\"%rd\" other=\"%th\"/]"
		default:
			return s + "[ordinal value=3 one=\"%st\" two=\"%nd\" few=\"%rd\" other=\"%th\"]" + g.pick(words) + "[/ordinal]"
		}
	case x < g.cfg.replPct+30:
		n := g.pick(markupNames)
		open := "[" + n
		if g.r.Intn(3) == 0 {
			open += []string{"=1", " k=v", " k=\"two words\"", "=true x=2.5"}[g.r.Intn(4)]
		}
		close := "[/" + n + "]"
		if g.r.Intn(4) == 0 {
			close = "[/]"
		}
		return open + "]" + s + close
	case x < g.cfg.replPct+42:
		bit := markupLoose[g.r.Intn(len(markupLoose))]
		if g.r.Intn(2) == 0 {
			return s + bit
		}
		cut := 0
		for i := range s {
			if g.r.Intn(3) == 0 {
				cut = i
			}
		}
		return s[:cut] + bit + s[cut:]
	}
	return s
}

func (g *dgen) line(allowCond bool) *sx.Node {
	elems := []*sx.Node{}
	n := 1 + g.r.Intn(3)
	if g.r.Intn(8) == 0 {
		// a line that is nothing but one inline expression
		t := []string{"num", "bool", "str"}[g.r.Intn(3)]
		var e *sx.Node = varRef(g.pick(g.vars[t]))
		if g.r.Intn(3) == 0 {
			e = g.expr(t, 1)
		}
		elems = append(elems, sx.Tag("e", e))
		n = 0
	}
	lastText := false
	for i := 0; i < n; i++ {
		if !lastText && g.r.Intn(3) != 0 {
			elems = append(elems, sx.Tag("t", sx.Str(g.textChunk(len(elems) == 0))))
			lastText = true
		} else {
			elems = append(elems, sx.Tag("e", g.expr([]string{"num", "bool", "str"}[g.r.Intn(3)], g.cfg.exprDepth)))
			lastText = false
		}
	}
	if first := elems[0]; first.TagName() == "t" {
		t := first.L[1].Text()
		// a line cannot start with the tokens of other statements; leading blanks are not text
		if strings.HasPrefix(t, "->") || strings.HasPrefix(t, "===") || strings.HasPrefix(t, "\\[") || strings.HasPrefix(t, "\\]") {
			first.L[1] = sx.Str("so " + t)
		}
	}
	cond := sx.List()
	if allowCond && g.r.Intn(3) == 0 {
		cond = g.expr("bool", g.cfg.exprDepth)
	}
	tags := []*sx.Node{}
	for g.r.Intn(4) == 0 && len(tags) < 3 {
		tags = append(tags, sx.Str([]string{"tag", "line:12", "a_b", "é", "x-1"}[g.r.Intn(5)]))
	}
	if g.cfg.visitLines {
		// ... and of names that are not nodes: an unknown name, and one node's name with a blank before / after it
		probes := append(append([]string{}, g.nodes...), "Ghost")
		if len(g.nodes) > 0 {
			probes = append(probes, []string{" " + g.nodes[0], g.nodes[len(g.nodes)-1] + " ", "\t" + g.nodes[0] + " "}[g.r.Intn(3)])
		}
		for _, n := range probes {
			elems = append(elems, sx.Tag("t", sx.Str(" "+n+"=")), sx.Tag("e", fnCall("visited_count", strLit(n))),
				sx.Tag("t", sx.Str("/")), sx.Tag("e", fnCall("visited", strLit(n))))
		}
		// keep the parser's normal form: no two adjacent text elements
		merged := []*sx.Node{}
		for _, e := range elems {
			if len(merged) > 0 && e.TagName() == "t" && merged[len(merged)-1].TagName() == "t" {
				merged[len(merged)-1] = sx.Tag("t", sx.Str(merged[len(merged)-1].L[1].Text()+e.L[1].Text()))
			} else {
				merged = append(merged, e)
			}
		}
		elems = merged
	}
	return sx.Tag("line", sx.List(elems...), cond, sx.List(tags...))
}

func (g *dgen) weighted(ws []int) int {
	total := 0
	for _, w := range ws {
		total += w
	}
	x := g.r.Intn(total)
	for i, w := range ws {
		if x < w {
			return i
		}
		x -= w
	}
	return 0
}

func (g *dgen) stmts(depth int) []*sx.Node {
	n := g.r.Intn(g.cfg.maxStmts + 1)
	if depth == 0 && n == 0 {
		n = 1
	}
	out := []*sx.Node{}
	for i := 0; i < n; i++ {
		st := g.stmt(depth)
		// two adjacent option groups are one group in the text: keep the parser's normal form
		for len(out) > 0 && out[len(out)-1].TagName() == "opts" && st.TagName() == "opts" {
			st = g.line(false)
		}
		out = append(out, st)
		if st.TagName() == "line" && g.r.Intn(4) == 0 {
			if tw := lineTwin(st); tw != nil {
				out = append(out, tw)
				i++
			}
		}
	}
	return out
}

// lineTwin: the line whose text is the written form of st with its braces as literal characters - what the
// parser sees of `a {$x} b` and of `a \{$x\} b` differs only in the token types (nil unless every inline
// expression of st is a variable and there is at least one).
func lineTwin(st *sx.Node) *sx.Node {
	text := ""
	found := false
	if len(st.L[1].L) == 0 || st.L[1].L[0].TagName() != "t" {
		return nil // an escaped character at the very start of a line is its own matter (known finding D21)
	}
	for _, e := range st.L[1].L {
		switch {
		case e.TagName() == "t":
			text += e.L[1].Text()
		case e.TagName() == "e" && e.L[1].TagName() == "var":
			text += "{$" + e.L[1].L[1].Text() + "}"
			found = true
		default:
			return nil
		}
	}
	if !found || strings.TrimSpace(text) != text {
		return nil
	}
	return sx.Tag("line", sx.List(sx.Tag("t", sx.Str(text))), sx.List(), sx.List())
}

func (g *dgen) target() *sx.Node {
	if g.fault() {
		return strLit("Nowhere")
	}
	name := g.pick(g.nodes)
	if g.cfg.loopPct > 0 && len(g.nodes) > 2 && g.r.Intn(6) == 0 {
		// a computed destination that names a different node every time the statement runs again
		// (lc is the loop counter every looping node increments): "N" + string(1 + lc % k)
		k := float64(2 + g.r.Intn(len(g.nodes)-2))
		var counter *sx.Node = varRef("lc")
		if g.cfg.visitedFns && g.r.Intn(3) != 0 {
			// the visit count of some node: it has changed whenever a cycle of jumps comes back here
			counter = fnCall("visited_count", strLit(g.pick(g.nodes)))
		}
		return binOp("+", strLit("N"), fnCall("string", binOp("+", numLit(1), binOp("%", counter, numLit(k)))))
	}
	if g.r.Intn(4) == 0 {
		// jump by expression
		if g.r.Intn(2) == 0 && len(name) > 1 {
			return binOp("+", strLit(name[:1]), strLit(name[1:]))
		}
		return fnCall("p", strLit("jump"), strLit(name))
	}
	return strLit(name)
}

func (g *dgen) stmt(depth int) *sx.Node {
	c := g.cfg
	ws := []int{c.wLine, c.wOpts, c.wIf, c.wSet, c.wJump, c.wCmd, c.wCall, c.wDeclare, c.wStop}
	if depth >= c.maxDepth {
		ws[1], ws[2] = 0, 0
	}
	switch g.weighted(ws) {
	case 0:
		return g.line(g.r.Intn(6) == 0) // a sixth of the plain lines carry a <<if ...>> condition
	case 1:
		k := 1 + g.r.Intn(3)
		opts := []*sx.Node{}
		for i := 0; i < k; i++ {
			body := []*sx.Node{}
			if g.r.Intn(4) != 0 {
				body = g.stmts(depth + 1)
			}
			ol := g.line(true)
			if g.r.Intn(4) == 0 {
				// text and condition of the option both call the logging probe: the order in which a group's
				// texts and conditions are evaluated shows in the host's log
				ol.L[1].L = append(ol.L[1].L, sx.Tag("e", fnCall("p", strLit("ot"), numLit(float64(i)))))
				ol.L[2] = fnCall("p", strLit("oc"), boolLit(g.r.Intn(3) != 0))
			}
			opts = append(opts, sx.Tag("opt", ol, sx.List(body...)))
		}
		return sx.Tag("opts", opts...)
	case 2:
		k := 1 + g.r.Intn(3)
		clauses := []*sx.Node{}
		for i := 0; i < k; i++ {
			cond := g.expr("bool", c.exprDepth)
			if i == k-1 && i > 0 && g.r.Intn(2) == 0 {
				cond = boolLit(true) // <<else>>
			}
			clauses = append(clauses, sx.Tag("clause", cond, sx.List(g.stmts(depth+1)...)))
		}
		return sx.Tag("if", clauses...)
	case 3:
		t := []string{"num", "bool", "str"}[g.r.Intn(3)]
		name := g.pick(g.vars[t])
		op := "="
		if c.compound && g.r.Intn(2) == 0 {
			op = []string{"+=", "-=", "*=", "/=", "%="}[g.r.Intn(5)]
			if t != "num" && g.r.Intn(4) != 0 {
				op = "+="
			}
		}
		vt := t
		if c.typeFaultPct > 0 && g.r.Intn(100) < c.typeFaultPct {
			vt = g.otherType(t)
		}
		if c.typeFaultPct > 0 && g.r.Intn(40) == 0 {
			name = "fresh" + strconv.Itoa(g.r.Intn(3)) // compound assignment to an unknown variable, or a first assignment
		}
		d := c.exprDepth
		if c.bareSetPct > 0 && g.r.Intn(100) < c.bareSetPct {
			d = 0
		}
		return sx.Tag("set", sx.Str(name), sx.Str(op), g.expr(vt, d))
	case 4:
		return sx.Tag("jump", g.target())
	case 5:
		return g.command()
	case 6:
		args := []*sx.Node{strLit("c" + strconv.Itoa(g.r.Intn(3)))}
		if g.r.Intn(2) == 0 {
			args = append(args, g.expr([]string{"num", "bool", "str"}[g.r.Intn(3)], c.exprDepth))
		}
		f := "p"
		if g.fault() {
			f = []string{"noret", "fail", "nope"}[g.r.Intn(3)]
		}
		if c.faultPct >= 10 && g.r.Intn(4) == 0 {
			// a fault inside an argument of a call statement (a value-less function used as a value, a failing
			// function, an unknown one), bare or below an operator / another call: the statement must fail
			bad := []*sx.Node{fnCall("noret"), fnCall("fail", numLit(1)), fnCall("no_such_function"),
				binOp("+", numLit(1), fnCall("noret")), fnCall("p", strLit("t0"), fnCall("noret")),
				fnCall("string", fnCall("noret")), sx.Tag("neg", fnCall("noret"))}[g.r.Intn(7)]
			args = append(args, bad)
		}
		return sx.Tag("call", sx.Str(f), sx.List(args...))
	case 7:
		t := []string{"num", "bool", "str"}[g.r.Intn(3)]
		var v *sx.Node
		switch t {
		case "num":
			v = numLit(numLits[g.r.Intn(len(numLits))])
		case "bool":
			v = boolLit(g.r.Intn(2) == 0)
		default:
			v = strLit(strLits[g.r.Intn(len(strLits))])
		}
		return sx.Tag("declare", sx.Str(g.pick(g.vars[t])), v)
	default:
		// <<stop>>, sometimes written with arguments: still the end of the dialogue
		els := []*sx.Node{strLit("stop")}
		if g.r.Intn(3) == 0 {
			els = append(els, []*sx.Node{strLit("now"), numLit(3), g.exprNoLiteralFold("num"), boolLit(false)}[g.r.Intn(4)])
		}
		return sx.Tag("cmd", els...)
	}
}

// "stop" is registered as a host command too (a handler that must never run: <<stop>> is the end of
// the dialogue, not a dispatch); it is never picked as the name of a generated command.
var hostCommandNames = []string{"walk", "say", "settings", "stop"}

func (g *dgen) command() *sx.Node {
	if g.cfg.waitCmd && g.r.Intn(4) == 0 {
		return sx.Tag("cmd", strLit("wait"), numLit([]float64{0.03, 0.05}[g.r.Intn(2)]))
	}
	names := hostCommandNames
	if g.cfg.cmdNames != nil {
		names = g.cfg.cmdNames
	}
	name := g.pick(names)
	for name == "stop" {
		name = g.pick(names)
	}
	if !g.cfg.hostCmds || g.fault() {
		name = "unregistered"
	}
	if strings.HasPrefix(name, "act") {
		// a command registered through ConvertAndAddCommand with one float64 parameter
		// (closed numeric expressions only: a converted handler refuses an argument of another type
		// before it is invoked, which the raw-handler model of the runner does not describe)
		a, b := numLit(numLits[g.r.Intn(len(numLits))]), numLit(numLits[g.r.Intn(len(numLits))])
		switch g.r.Intn(5) {
		case 0:
			return sx.Tag("cmd", strLit(name), a)
		case 1:
			return sx.Tag("cmd", strLit(name), binOp([]string{"+", "-", "*"}[g.r.Intn(3)], a, b))
		case 2:
			return sx.Tag("cmd", strLit(name), fnCall("p", strLit("arg"), a))
		case 3:
			return sx.Tag("cmd", strLit(name), fnCall("fail", a)) // evaluation fails: the command is never dispatched
		default:
			return sx.Tag("cmd", strLit(name), fnCall("floor", binOp("/", a, numLit(4))))
		}
	}
	elems := []*sx.Node{strLit(name)}
	n := g.r.Intn(4)
	if g.cfg.loopPct > 0 && g.r.Intn(3) == 0 {
		// an argument without any variable whose value (or whose evaluation) is observable each time the
		// statement runs: a visit count, the logging probe
		if g.cfg.visitedFns && len(g.nodes) > 0 && g.r.Intn(2) == 0 {
			elems = append(elems, fnCall("visited_count", strLit(g.pick(g.nodes))))
		} else {
			elems = append(elems, fnCall("p", strLit("arg"), numLit(float64(g.r.Intn(5)))))
		}
	}
	for i := 0; i < n; i++ {
		switch g.r.Intn(5) {
		case 0:
			elems = append(elems, numLit(numLits[g.r.Intn(len(numLits))]))
		case 1:
			elems = append(elems, boolLit(g.r.Intn(2) == 0))
		case 2:
			elems = append(elems, strLit([]string{"left", "x1", "né", "door"}[g.r.Intn(4)]))
		default:
			elems = append(elems, g.exprNoLiteralFold([]string{"num", "bool", "str"}[g.r.Intn(3)]))
		}
	}
	return sx.Tag("cmd", elems...)
}

// exprNoLiteralFold: an expression element of a command (printed inside braces).
func (g *dgen) exprNoLiteralFold(t string) *sx.Node {
	return g.expr(t, g.cfg.exprDepth)
}

// dialogue builds the nodes.  Every node starts with a line so that no cycle of jumps can run
// without yielding (the unrepaired known finding D7).
func (g *dgen) dialogue() []*sx.Node {
	n := 1 + g.r.Intn(g.cfg.maxNodes)
	g.nodes = []string{"Start"}
	for i := 1; i < n; i++ {
		g.nodes = append(g.nodes, "N"+strconv.Itoa(i))
	}
	g.vars = map[string][]string{"num": {"n1", "n2"}, "bool": {"b1", "b2"}, "str": {"s1", "s2"}}
	nodes := []*sx.Node{}
	dupOdds := 5
	if g.cfg.visitLines {
		dupOdds = 4
	}
	// a shadowed duplicate of a title will be added below: then every node ends in a counted jump to a node
	// picked at random, so that the run walks past the duplicate and comes back to the title it shadows
	willDup := g.r.Intn(dupOdds) == 0 && n > 1
	for i, name := range g.nodes {
		headers := []*sx.Node{}
		if g.r.Intn(4) == 0 {
			headers = append(headers, sx.List(sx.Str("tags"), sx.Str("a b")))
		}
		headers = append(headers, sx.List(sx.Str("title"), sx.Str(name)))
		if g.cfg.neverPct > 0 {
			if g.r.Intn(100) < g.cfg.neverPct {
				headers = append(headers, sx.List(sx.Str("tracking"), sx.Str("never")))
			} else if g.r.Intn(4) == 0 {
				headers = append(headers, sx.List(sx.Str("tracking"), sx.Str("always")))
			}
		} else if g.cfg.trackingHeaders && g.r.Intn(3) == 0 {
			headers = append(headers, sx.List(sx.Str("tracking"), sx.Str([]string{"never", "always"}[g.r.Intn(2)])))
		}
		first := "node " + name
		if g.cfg.firstLineRepl {
			first = []string{
				"node [nomarkup]" + name + " [b][/nomarkup]",
				"node " + name + " [select value=m m=\"he\" f=\"she\"]x[/select]",
				"node " + name + " [plural value=2 one=\"% apple\" other=\"% apples\"]y[/plural]",
				"node " + name + " [ordinal value=3 one=\"%st\" two=\"%nd\" few=\"%rd\" other=\"%th\"]z[/ordinal]",
				"node " + name,
			}[g.r.Intn(5)]
		}
		firstElems := []*sx.Node{sx.Tag("t", sx.Str(first))}
		if g.cfg.firstLineRepl {
			// ... and touches every built-in, so that state shared between runners is exercised by all of them
			x := numLit(float64(g.r.Intn(9)) + 0.25*float64(g.r.Intn(4)))
			calls := []*sx.Node{
				fnCall("floor", x), fnCall("ceil", x), fnCall("round", x), fnCall("round_places", x, numLit(1)), fnCall("inc", x),
				fnCall("dec", x), fnCall("decimal", x), fnCall("integer", x), fnCall("string", x), fnCall("number", strLit("2.5")),
				fnCall("bool", numLit(1)), fnCall("dice", numLit(6)), fnCall("random"), fnCall("random_range", numLit(1), numLit(4)),
				fnCall("visited", strLit(name)), fnCall("visited_count", strLit(name)),
			}
			g.r.Shuffle(len(calls), func(a, b int) { calls[a], calls[b] = calls[b], calls[a] })
			for i, c := range calls[:4+g.r.Intn(len(calls)-4)] {
				if i == 0 {
					firstElems[0] = sx.Tag("t", sx.Str(first+" "))
					firstElems = append(firstElems, sx.Tag("e", c))
				} else {
					firstElems = append(firstElems, sx.Tag("t", sx.Str(" ")), sx.Tag("e", c))
				}
			}
		}
		body := []*sx.Node{sx.Tag("line", sx.List(firstElems...), sx.List(), sx.List())}
		tracked := true
		for _, h := range headers {
			if h.L[0].Text() == "tracking" && h.L[1].Text() == "never" {
				tracked = false
			}
		}
		if i > 0 && tracked && g.cfg.visitedFns && g.cfg.loopPct > 0 && g.r.Intn(6) == 0 {
			// a silent loop: the node is entered again and again with the same variables and nothing shown in
			// between; only its visit count (or a stateful host function) changes and ends the loop
			var cond *sx.Node = binOp("<", fnCall("visited_count", strLit(name)), numLit(float64(2+g.r.Intn(2))))
			if g.r.Intn(3) == 0 {
				cond = binOp("<", fnCall("p", strLit("tick"), fnCall("visited_count", strLit(name))), numLit(2))
			}
			body = append([]*sx.Node{sx.Tag("if", sx.Tag("clause", cond, sx.List(sx.Tag("jump", strLit(name)))))}, body...)
		}
		if i == 0 {
			// most variables get a value first, so that scripts are mostly valid
			for _, d := range []struct {
				n string
				v *sx.Node
			}{{"n1", numLit(1)}, {"n2", numLit(2.5)}, {"b1", boolLit(true)}, {"b2", boolLit(false)}, {"s1", strLit("one")}, {"s2", strLit("")}} {
				if g.r.Intn(8) != 0 {
					body = append(body, sx.Tag("declare", sx.Str(d.n), d.v))
				}
			}
		}
		if i == 0 && g.cfg.loopPct > 0 {
			body = append(body, sx.Tag("declare", sx.Str("lc"), numLit(0)))
		}
		body = append(body, g.stmts(0)...)
		if g.cfg.loopPct > 0 && (g.r.Intn(100) < g.cfg.loopPct || willDup) {
			// a counted loop: the statements above run again and again in one runner
			to := name
			if g.r.Intn(3) == 0 || willDup {
				to = g.pick(g.nodes)
			}
			body = append(body,
				sx.Tag("set", sx.Str("lc"), sx.Str("+="), numLit(1)),
				sx.Tag("if", sx.Tag("clause", binOp("<", varRef("lc"), numLit(float64(2+g.r.Intn(4)))), sx.List(sx.Tag("jump", strLit(to))))))
		}
		nodes = append(nodes, sx.Tag("node", sx.List(headers...), sx.List(body...)))
	}
	// duplicate title: FindNode returns the first one
	if willDup && len(nodes) > 1 {
		// ... whatever its own headers say (the shadowed node's tracking header is nobody's business)
		// (mostly a title that is not the last one's, placed right behind the node it shadows, so that jumps to
		// the nodes after it walk past it)
		dupOf := g.r.Intn(len(g.nodes))
		if len(g.nodes) > 1 && g.r.Intn(4) != 0 {
			dupOf = g.r.Intn(len(g.nodes) - 1)
		}
		dupHeaders := []*sx.Node{sx.List(sx.Str("title"), sx.Str(g.nodes[dupOf]))}
		if g.r.Intn(2) == 0 {
			dupHeaders = append(dupHeaders, sx.List(sx.Str("tracking"), sx.Str([]string{"never", "always"}[g.r.Intn(2)])))
		}
		dup := sx.Tag("node", sx.List(dupHeaders...),
			sx.List(sx.Tag("line", sx.List(sx.Tag("t", sx.Str("duplicate"))), sx.List(), sx.List())))
		// anywhere after the node it shadows: jumps to nodes behind it walk past it
		first := 0
		for k, n := range nodes {
			if n.L[1].L[len(n.L[1].L)-1].L[0].Text() == "title" || true {
				for _, h := range n.L[1].L {
					if h.L[0].Text() == "title" && h.L[1].Text() == dupHeaders[0].L[1].Text() {
						first = k
					}
				}
			}
			if first != 0 {
				break
			}
		}
		at := first + 1
		if g.r.Intn(3) == 0 {
			at = first + 1 + g.r.Intn(len(nodes)-first)
		}
		nodes = append(nodes[:at], append([]*sx.Node{dup}, nodes[at:]...)...)
	}
	return nodes
}

// headersSorted: the dump of the implementation sorts header keys; cases are built sorted already
// ("tags" < "title" < "tracking").

func normaliseAdjacentText(nodes []*sx.Node) {}

// domainFault: a call of a random built-in outside (or at the very edge of) its domain.
func (g *dgen) domainFault() *sx.Node {
	switch g.r.Intn(9) {
	case 7:
		// widths at the edge of int64: upper = 2^63 - 1024k, lower = upper - (2^63-1) + d
		k := float64(1 + g.r.Intn(3))
		up := 9223372036854775808.0 - 1024*k
		lo := -(1024*k - 1) + float64([]int{0, 0, 0, -2, -1, 1, 2}[g.r.Intn(7)])
		return fnCall("random_range", g.lit(lo), numLit(up))
	case 8:
		big := []float64{9e18, 9223372036854774784, 4611686018427387904, 9223372036854775808, 1e19}
		a, b := big[g.r.Intn(len(big))], big[g.r.Intn(len(big))]
		if g.r.Intn(2) == 0 {
			return fnCall("random_range", numLit(a), g.lit(-b)) // reversed, more than 2^63 apart
		}
		return fnCall("random_range", g.lit(-a), numLit(b))
	case 0:
		return fnCall("dice", numLit(0))
	case 1:
		return fnCall("dice", g.lit(-3))
	case 2:
		return fnCall("dice", numLit(1e30))
	case 3:
		return fnCall("random_range", numLit(5), numLit(1))
	case 4:
		return fnCall("random_range", g.lit(-1e30), numLit(1e30))
	case 5:
		return fnCall("dice", binOp("/", numLit(0), numLit(0)))
	default:
		return fnCall("round_places", numLit(2.75), g.lit([]float64{-400, 400, 1e30, 2.5}[g.r.Intn(4)]))
	}
}

// randomCall: a call of one of the random built-ins inside its domain.
func (g *dgen) randomCall() *sx.Node {
	if g.r.Intn(12) == 0 {
		// wider than an int64 can count: refused, the same way in every run
		lo := []float64{-9000000000000000000, -9223372036854775808, -5e18}[g.r.Intn(3)]
		return fnCall("random_range", g.lit(lo), numLit([]float64{9000000000000000000, 9223372036854774784, 5e18}[g.r.Intn(3)]))
	}
	switch g.r.Intn(4) {
	case 0:
		return fnCall("dice", numLit(float64(1+g.r.Intn(20))))
	case 1:
		lo := g.r.Intn(10) - 5
		return fnCall("random_range", g.lit(float64(lo)), g.lit(float64(lo+g.r.Intn(12))))
	case 2:
		// wide ranges: Int63n / Int31n paths and their rejection sampling
		w := []float64{1 << 31, 1<<31 + 1, 3e9, 1 << 40, 6e18, 9223372036854774784}[g.r.Intn(6)]
		if g.r.Intn(2) == 0 {
			return fnCall("dice", numLit(w))
		}
		return fnCall("random_range", g.lit(float64(-g.r.Intn(3))), numLit(w-1024))
	default:
		return fnCall("random")
	}
}
