package main

import (
	"bytes"
	"errors"
	"math/rand"
	"os"
	"os/exec"
	"strconv"
	"strings"
	"time"

	ysgo "github.com/remieven/ysgo"

	"verifharness/sx"
)

// The runner families share one case format and one executor; they differ in what the generator
// emphasises.  Operation sequences are produced adaptively: the generator drives the real runner
// so that choices are in range when (and only when) an option group is waiting, and junk otherwise.

func init() {
	register("flow", family{gen: func(r *rand.Rand, tier string) *sx.Node {
		return genRunnerCase(r, flowCfg, opsCfg{steps: 40, extraAfterEnd: 2})
	}, run: runRunnerCase})
	varsCfg := flowCfg
	varsCfg.wSet, varsCfg.wDeclare, varsCfg.wLine, varsCfg.wOpts, varsCfg.wIf, varsCfg.wJump, varsCfg.wStop, varsCfg.wCmd = 9, 3, 5, 2, 2, 1, 0, 0
	varsCfg.faultPct, varsCfg.typeFaultPct, varsCfg.maxNodes = 4, 12, 2
	varsCfg.loopPct, varsCfg.bareSetPct = 50, 35
	register("vars", family{gen: func(r *rand.Rand, tier string) *sx.Node {
		// half of the cases also take snapshots and restore them (variables then disappear from the store)
		if r.Intn(2) == 0 {
			return genRunnerCase(r, varsCfg, opsCfg{steps: 30, extraAfterEnd: 1, hostWrites: true, vals: true, storer: 1, snapshots: true, runners: 1, snapFreq: 4})
		}
		return genRunnerCase(r, varsCfg, opsCfg{steps: 30, extraAfterEnd: 1, hostWrites: true, vals: true, storer: 1})
	}, run: runRunnerCase})
	faultCfg := flowCfg
	faultCfg.faultPct, faultCfg.typeFaultPct, faultCfg.randomFns, faultCfg.domainFaults = 18, 10, true, true
	faultCfg.wCall = 3
	register("faults", family{gen: func(r *rand.Rand, tier string) *sx.Node {
		return genRunnerCase(r, faultCfg, opsCfg{steps: 40, extraAfterEnd: 2})
	}, run: runRunnerCase})
	snapCfg := flowCfg
	snapCfg.wJump, snapCfg.wStop, snapCfg.wCmd = 4, 0, 3
	// a third of the snap cases are jump-heavy graphs with "tracking: never" on a third of the nodes and the visit
	// counters of every node on every line: what a restored runner counts when it leaves the restored node shows
	snapVisitCfg := snapCfg
	snapVisitCfg.wJump, snapVisitCfg.visitLines, snapVisitCfg.maxNodes, snapVisitCfg.neverPct, snapVisitCfg.wCmd = 7, true, 4, 35, 1
	register("snap", family{gen: func(r *rand.Rand, tier string) *sx.Node {
		if r.Intn(3) == 0 {
			return genRunnerCase(r, snapVisitCfg, opsCfg{steps: 30, extraAfterEnd: 2, hostWrites: true, vals: true, snapshots: true, runners: 2, storer: 1, snapFreq: 3})
		}
		return genRunnerCase(r, snapCfg, opsCfg{steps: 24, extraAfterEnd: 2, hostWrites: true, vals: true, snapshots: true, runners: 2, storer: 1})
	}, run: runRunnerCase})
	cmdCfg := flowCfg
	cmdCfg.wCmd, cmdCfg.wStop, cmdCfg.waitCmd, cmdCfg.maxNodes = 9, 1, true, 2
	cmdCfg.loopPct = 50 // the same command statements run several times in one runner
	register("cmds", family{gen: func(r *rand.Rand, tier string) *sx.Node {
		return genRunnerCase(r, cmdCfg, opsCfg{steps: 40, extraAfterEnd: 1})
	}, run: runRunnerCase})
	convCfg := flowCfg
	convCfg.wCmd, convCfg.wStop, convCfg.maxNodes, convCfg.wJump = 9, 1, 3, 3
	convCfg.cmdNames = []string{"act1", "act2", "act3", "walk", "stop"}
	register("convcmds", family{gen: func(r *rand.Rand, tier string) *sx.Node {
		return genRunnerCase(r, convCfg, opsCfg{steps: 36, extraAfterEnd: 1, snapshots: true, runners: 1, snapFreq: 5})
	}, run: runRunnerCase})
	visitCfg := flowCfg
	visitCfg.wJump, visitCfg.wStop, visitCfg.visitLines, visitCfg.maxNodes, visitCfg.wCmd = 7, 1, true, 5, 0
	visitCfg.neverPct = 35
	register("visits", family{gen: func(r *rand.Rand, tier string) *sx.Node {
		return genRunnerCase(r, visitCfg, opsCfg{steps: 40, extraAfterEnd: 1, snapshots: true, runners: 1, snapFreq: 3})
	}, run: runRunnerCase})
	register("flow-witherrs", family{gen: func(r *rand.Rand, tier string) *sx.Node {
		return genRunnerCase(r, flowCfg, opsCfg{steps: 40, extraAfterEnd: 2})
	}, run: runWithErrs})
	register("exprs", family{gen: genExprCase, run: runRunnerCase})
	register("cmdargs", family{gen: genCmdArgsCase, run: runRunnerCase})
	register("concurrent", family{gen: genConcurrent, run: runConcurrent})
	renderCfg := flowCfg
	renderCfg.wLine, renderCfg.wOpts, renderCfg.wSet, renderCfg.wCmd, renderCfg.wStop, renderCfg.wJump, renderCfg.faultPct, renderCfg.exprDepth = 9, 7, 3, 0, 0, 1, 3, 3
	renderCfg.markupText, renderCfg.replPct = true, 8
	renderCfg.loopPct = 50
	register("render", family{gen: func(r *rand.Rand, tier string) *sx.Node {
		return genRunnerCase(r, renderCfg, opsCfg{steps: 30, extraAfterEnd: 1})
	}, run: runRunnerCase})
	layCfg := flowCfg
	layCfg.faultPct = 0
	register("layout", family{gen: func(r *rand.Rand, tier string) *sx.Node {
		return genRunnerCase(r, layCfg, opsCfg{steps: 30, extraAfterEnd: 1})
	}, run: runLayouts})
	rndCfg := flowCfg
	rndCfg.randomFns, rndCfg.wCmd, rndCfg.wStop, rndCfg.faultPct = true, 0, 0, 3 // failing calls: their errors must be the same in every execution
	rndCfg.domainFaults = true
	rndCfg.randomPct = 25
	register("random", family{gen: func(r *rand.Rand, tier string) *sx.Node {
		if r.Intn(2) == 0 {
			// snapshots taken (and restored) along the way: neither draws from the generator nor rewinds it
			return genRunnerCase(r, rndCfg, opsCfg{steps: 30, extraAfterEnd: 1, snapshots: true, runners: 1, snapFreq: 3})
		}
		return genRunnerCase(r, rndCfg, opsCfg{steps: 30, extraAfterEnd: 1})
	}, run: runRepeated})
	endCfg := flowCfg
	endCfg.wStop, endCfg.wJump, endCfg.maxNodes = 4, 1, 2
	register("endcalls", family{gen: func(r *rand.Rand, tier string) *sx.Node {
		return genRunnerCase(r, endCfg, opsCfg{steps: 30, extraAfterEnd: 3 + r.Intn(4)})
	}, run: runRunnerCase})
}

// ownSeedToInt64 is the harness's own reading of the seed rule (base 36 over [0-9a-z], int64 wrap).
func ownSeedToInt64(seed string) (int64, bool) {
	var acc int64
	for _, c := range seed {
		var v int64
		switch {
		case c >= '0' && c <= '9':
			v = int64(c - '0')
		case c >= 'a' && c <= 'z':
			v = int64(c-'a') + 10
		default:
			return 0, false
		}
		acc = 36*acc + v
	}
	return acc, true
}

func randomSeed(r *rand.Rand) string {
	if r.Intn(8) == 0 {
		// seeds whose integer is 0 or wraps to it, leading zeros, the longest strings
		return []string{"0", "000", "00000000000000", "1y2p0ij32e8e8", "3w5e11264sgsg", "zzzzzzzzzzzzzz", "1", "01", "a", "0a"}[r.Intn(10)]
	}
	const alphabet = "0123456789abcdefghijklmnopqrstuvwxyz"
	n := 1 + r.Intn(14)
	b := make([]byte, n)
	for i := range b {
		b[i] = alphabet[r.Intn(len(alphabet))]
	}
	return string(b)
}

func seedNode(seed string, k int) *sx.Node {
	si, _ := ownSeedToInt64(seed)
	src := rand.NewSource(si)
	stream := make([]*sx.Node, k)
	for i := range stream {
		stream[i] = sx.Int(src.Int63())
	}
	return sx.Tag("seed", sx.Str(seed), sx.Int(si), sx.List(stream...))
}

type opsCfg struct {
	storer        int // 0 random, 1 host recording storer, 2 default in-memory storer
	steps         int
	extraAfterEnd int
	hostWrites    bool
	snapshots     bool
	runners       int
	vals          bool
	snapFreq      int // one snapshot operation every snapFreq steps on average (default 4)
}

var junkChoices = []int64{0, 1, 7, -1, 1 << 40}

// genRunnerCase builds a complete (runner ...) case.
func genRunnerCase(r *rand.Rand, cfg genCfg, oc opsCfg) *sx.Node {
	g := &dgen{r: r, cfg: cfg}
	nodes := g.dialogue()
	// readers: split the nodes into 1-3 consecutive groups
	readers := []*sx.Node{}
	left := len(nodes)
	for left > 0 {
		n := 1 + r.Intn(left)
		if r.Intn(2) == 0 {
			n = left
		}
		readers = append(readers, sx.Int(int64(n)))
		left -= n
	}
	lseed := r.Int63()
	lay := randomLayout(rand.New(rand.NewSource(lseed)))
	storerMode := r.Intn(4) != 0
	if oc.storer != 0 {
		storerMode = oc.storer == 1
	}
	init := []*sx.Node{}
	if storerMode && r.Intn(3) == 0 {
		init = append(init, sx.List(sx.Str("n2"), numLit(40)), sx.List(sx.Str("pre"), strLit("set")))
	}
	hcmds := []*sx.Node{}
	if cfg.hostCmds {
		names := hostCommandNames
		if cfg.cmdNames != nil {
			names = cfg.cmdNames
		}
		for _, n := range names {
			hcmds = append(hcmds, sx.Str(n))
		}
	}
	sched := []*sx.Node{}
	for i := 0; i < 12; i++ {
		polls := []int64{0, 0, 1, 2, 3}[r.Intn(5)]
		failing := int64(0)
		if r.Intn(6) == 0 {
			failing = 1
		}
		sched = append(sched, sx.List(sx.Int(polls), sx.Int(failing)))
	}
	nr := 1
	if oc.runners > 1 {
		nr = oc.runners
	}
	c := sx.Tag("runner",
		seedNode(randomSeed(r), 64),
		sx.Tag("storer", sx.Bool(storerMode)),
		sx.Tag("init", init...),
		sx.Tag("hcmds", hcmds...),
		sx.Tag("sched", sched...),
		sx.Tag("nrunners", sx.Int(int64(nr))),
		sx.Tag("nodes", sx.List(nodes...)),
		sx.Tag("readers", readers...),
		layoutToSx(lay, lseed),
		sx.Tag("ops"))
	ops, voidFail := adaptiveOps(r, c, oc)
	c.L[10] = sx.Tag("ops", ops...)
	// a handler of type func(float64) cannot fail: the entries it consumed while the operations were
	// generated are successes (the implementation behaved exactly so)
	for _, i := range voidFail {
		e := c.L[5].L[1+i]
		c.L[5].L[1+i] = sx.List(e.L[0], sx.Int(0))
	}
	return c
}

// adaptiveOps drives the implementation to produce an operation sequence whose choices are valid.
// Every operation - snapshots and restores included - is applied to real runners through the same
// execState.apply the executor uses, so the driver always knows what each runner waits for.
func adaptiveOps(r *rand.Rand, c *sx.Node, oc opsCfg) (ops []*sx.Node, voidFail []int) {
	ops = []*sx.Node{}
	storerMode := c.L[2].L[1].Int() != 0
	hcmds := []string{}
	for _, n := range c.L[4].Args() {
		hcmds = append(hcmds, n.Text())
	}
	nr := int(c.L[6].L[1].Int())
	texts := caseTexts(c)
	st := &execState{snaps: map[int]*ysgo.Snapshot{}}
	for i := 0; i < nr; i++ {
		h, err := newHostRunner(storerMode, c.L[3].Args(), c.L[1].L[1].Text(), hcmds, append([]*sx.Node{}, c.L[5].Args()...), texts)
		if err != nil {
			return ops, nil
		}
		st.runners = append(st.runners, h)
	}
	nodeNames := []string{}
	for _, n := range c.L[7].L[1].L {
		for _, h := range n.L[1].L {
			if h.L[0].Text() == "title" {
				nodeNames = append(nodeNames, h.L[1].Text())
			}
		}
	}
	waiting := make([]int, nr) // number of options the runner waits on, 0 = none
	ended := make([]int, nr)
	nsnaps := 0
	do := func(op *sx.Node) *sx.Node {
		ops = append(ops, op)
		return st.apply(op)
	}
	for step := 0; step < oc.steps; step++ {
		ri := r.Intn(nr)
		// host-side operations between steps
		if oc.hostWrites && storerMode && r.Intn(5) == 0 {
			name := []string{"n1", "n2", "b1", "s1", "host"}[r.Intn(5)]
			var v *sx.Node
			switch r.Intn(3) {
			case 0:
				v = numLit(float64(r.Intn(9)))
			case 1:
				v = boolLit(r.Intn(2) == 0)
			default:
				v = strLit("h" + strconv.Itoa(r.Intn(3)))
			}
			do(sx.Tag("hset", sx.Int(int64(ri)), sx.Str(name), v))
		}
		if oc.vals && storerMode && r.Intn(4) == 0 {
			do(sx.Tag("vals", sx.Int(int64(ri))))
		}
		if oc.snapshots && r.Intn(oc.snapEvery()) == 0 {
			switch x := r.Intn(12); {
			case x < 4:
				do(sx.Tag("snap", sx.Int(int64(ri)), sx.Int(int64(nsnaps))))
				nsnaps++
			case x < 6 && nsnaps > 0:
				do(sx.Tag("readsnap", sx.Int(int64(r.Intn(nsnaps)))))
			case x < 7:
				// a snapshot made by the host: any node name (known or not), any maps
				node := "Nowhere"
				if r.Intn(4) != 0 && len(nodeNames) > 0 {
					node = nodeNames[r.Intn(len(nodeNames))]
				}
				vars := []*sx.Node{}
				for _, n := range []string{"n1", "s1", "b2", "extra"} {
					if r.Intn(2) == 0 {
						vars = append(vars, sx.List(sx.Str(n), []*sx.Node{numLit(float64(r.Intn(5))), strLit("m"), boolLit(true)}[r.Intn(3)]))
					}
				}
				counts := []*sx.Node{}
				seenName := map[string]bool{}
				for _, n := range append(append([]string{}, nodeNames...), "Ghost") {
					if seenName[n] {
						continue
					}
					seenName[n] = true
					if r.Intn(3) == 0 {
						counts = append(counts, sx.List(sx.Str(n), sx.Int(int64(r.Intn(4)))))
					}
				}
				do(sx.Tag("mksnap", sx.Int(int64(nsnaps)), sx.Str(node), sx.List(vars...), sx.List(counts...)))
				nsnaps++
			case nsnaps > 0:
				if out := do(sx.Tag("restore", sx.Int(int64(ri)), sx.Int(int64(r.Intn(nsnaps))))); out.TagName() == "ok" {
					waiting[ri] = 0
				}
				if r.Intn(3) == 0 {
					do(sx.Tag("snap", sx.Int(int64(ri)), sx.Int(int64(nsnaps)))) // a snapshot straight after a restore
					nsnaps++
				}
			}
		}
		var choice int64
		if waiting[ri] > 0 {
			choice = int64(r.Intn(waiting[ri]))
		} else {
			choice = junkChoices[r.Intn(len(junkChoices))]
		}
		out := do(sx.Tag("next", sx.Int(int64(ri)), sx.Int(choice)))
		switch out.TagName() {
		case "opts":
			waiting[ri] = len(out.L[2].L)
		case "end":
			waiting[ri] = 0
			ended[ri]++
			if ended[ri] > oc.extraAfterEnd && nr == 1 && !oc.snapshots {
				return ops, st.runners[0].voidFail
			}
		case "wait":
			// keeps waiting for the same thing
		default:
			waiting[ri] = 0
		}
	}
	return ops, st.runners[0].voidFail
}

func (oc opsCfg) snapEvery() int {
	if oc.snapFreq > 0 {
		return oc.snapFreq
	}
	return 4
}

// genExprCase: one node of <<call p("r<i>", EXPR)>> statements over deep expressions (C02): the value
// each expression evaluates to reaches the probe with its type, the probes inside the expression log
// their own calls, so order and count of evaluation are observable.
func genExprCase(r *rand.Rand, tier string) *sx.Node {
	cfg := flowCfg
	cfg.exprDepth, cfg.faultPct, cfg.visitedFns = 3+r.Intn(3), 4, false
	g := &dgen{r: r, cfg: cfg}
	g.nodes = []string{"Start"}
	g.vars = map[string][]string{"num": {"n1", "n2"}, "bool": {"b1", "b2"}, "str": {"s1", "s2"}}
	body := []*sx.Node{}
	for _, d := range []struct {
		n string
		v *sx.Node
	}{{"n1", numLit(3)}, {"n2", numLit(2.5)}, {"b1", boolLit(true)}, {"b2", boolLit(false)}, {"s1", strLit("one")}, {"s2", strLit("")}} {
		body = append(body, sx.Tag("declare", sx.Str(d.n), d.v))
	}
	k := 3 + r.Intn(6)
	for i := 0; i < k; i++ {
		t := []string{"num", "bool", "str", "bool"}[r.Intn(4)]
		var e *sx.Node
		if r.Intn(3) == 0 {
			e = g.chain(t)
		} else {
			e = g.expr(t, cfg.exprDepth)
		}
		body = append(body, sx.Tag("call", sx.Str("p"), sx.List(strLit("r"+strconv.Itoa(i)), e)))
	}
	body = append(body, sx.Tag("line", sx.List(sx.Tag("t", sx.Str("done"))), sx.List(), sx.List()))
	nodes := []*sx.Node{sx.Tag("node", sx.List(sx.List(sx.Str("title"), sx.Str("Start"))), sx.List(body...))}
	if r.Intn(2) == 0 {
		// the same expression trees evaluated again and again by one runner: Start declares and jumps
		// to Body, which loops on itself
		decls, rest := body[:6], body[6:]
		start := append(append([]*sx.Node{}, decls...), sx.Tag("declare", sx.Str("lc"), numLit(0)), sx.Tag("jump", strLit("Body")))
		loop := append(append([]*sx.Node{}, rest...),
			sx.Tag("set", sx.Str("lc"), sx.Str("+="), numLit(1)),
			sx.Tag("if", sx.Tag("clause", binOp("<", varRef("lc"), numLit(3)), sx.List(sx.Tag("jump", strLit("Body"))))))
		nodes = []*sx.Node{sx.Tag("node", sx.List(sx.List(sx.Str("title"), sx.Str("Start"))), sx.List(start...)),
			sx.Tag("node", sx.List(sx.List(sx.Str("title"), sx.Str("Body"))), sx.List(loop...))}
	}
	lseed := r.Int63()
	lay := randomLayout(rand.New(rand.NewSource(lseed)))
	lay.blankProb = 0
	ops := []*sx.Node{}
	for i := 0; i < k+2; i++ {
		ops = append(ops, sx.Tag("next", sx.Int(0), sx.Int(0)))
	}
	return sx.Tag("runner", seedNode(randomSeed(r), 8), sx.Tag("storer", sx.Bool(false)), sx.Tag("init"), sx.Tag("hcmds"),
		sx.Tag("sched"), sx.Tag("nrunners", sx.Int(1)), sx.Tag("nodes", sx.List(nodes...)), sx.Tag("readers", sx.Int(int64(len(nodes)))),
		layoutToSx(lay, lseed), sx.Tag("ops", ops...))
}

// chain: a flat run of binary operators of mixed precedence over simple operands, associated at
// random, so that what the printer leaves without parentheses exercises precedence and associativity.
func (g *dgen) chain(t string) *sx.Node {
	n := 2 + g.r.Intn(4)
	switch t {
	case "num":
		e := g.expr("num", 0)
		for i := 0; i < n; i++ {
			op := []string{"+", "-", "*", "/", "%"}[g.r.Intn(5)]
			if g.r.Intn(2) == 0 {
				e = binOp(op, e, g.expr("num", 0))
			} else {
				e = binOp(op, g.expr("num", 0), e)
			}
			if g.r.Intn(5) == 0 {
				e = sx.Tag("neg", e)
			}
		}
		return e
	case "str":
		e := g.expr("str", 0)
		for i := 0; i < n; i++ {
			e = binOp("+", e, g.expr("str", 0))
		}
		return e
	default:
		e := binOp([]string{"<", "<=", ">", ">=", "==", "!="}[g.r.Intn(6)], g.chain("num"), g.chain("num"))
		for i := 0; i < n; i++ {
			var o *sx.Node
			switch g.r.Intn(3) {
			case 0:
				o = binOp([]string{"<", "<=", ">", ">=", "==", "!="}[g.r.Intn(6)], g.chain("num"), g.expr("num", 0))
			case 1:
				o = fnCall("p", strLit("side"), g.expr("bool", 0))
			default:
				o = g.expr("bool", 0)
			}
			op := []string{"and", "or", "xor", "==", "!="}[g.r.Intn(5)]
			if g.r.Intn(2) == 0 {
				e = binOp(op, e, o)
			} else {
				e = binOp(op, o, e)
			}
			if g.r.Intn(5) == 0 {
				e = sx.Tag("not", e)
			}
		}
		return e
	}
}

// runRepeated executes a case several times - twice in this process with an unrelated runner (another
// seed, drawing random numbers) in between, and once in a fresh child process - and returns the
// common result, or (differ ...) when the executions are not identical (C09).
func runRepeated(c *sx.Node) *sx.Node {
	n1, e1 := runRunnerCaseErrs(c)
	r1 := n1.String()
	// unrelated activity: another runner with another seed drawing from its own source
	other := sx.Tag("runner", seedNode("other"+strconv.Itoa(len(r1)%7), 4), sx.Tag("storer", sx.Bool(false)), sx.Tag("init"), sx.Tag("hcmds"),
		sx.Tag("sched"), sx.Tag("nrunners", sx.Int(1)),
		sx.Tag("nodes", sx.List(sx.Tag("node", sx.List(sx.List(sx.Str("title"), sx.Str("A"))),
			sx.List(sx.Tag("line", sx.List(sx.Tag("e", fnCall("dice", numLit(6))), sx.Tag("e", fnCall("random"))), sx.List(), sx.List()))))),
		sx.Tag("readers", sx.Int(1)), layoutToSx(defaultLayout(), 1), sx.Tag("ops", sx.Tag("next", sx.Int(0), sx.Int(0))))
	runRunnerCase(other)
	n2, e2 := runRunnerCaseErrs(c)
	r2 := n2.String()
	r3, e3 := r1, e1
	if os.Getenv("VERIF_NO_CHILD") == "" {
		// the child answers with (witherrs <result> (<message> ...)): C09 asks for identical errors too
		cmd := exec.Command(os.Args[0], "run", "flow-witherrs")
		cmd.Env = append(os.Environ(), "VERIF_WORKERS=1")
		cmd.Stdin = strings.NewReader(c.String() + "\n")
		var out bytes.Buffer
		cmd.Stdout = &out
		if err := cmd.Run(); err != nil {
			r3 = "(\"CHILD-FAILED\")"
		} else if w, perr := sx.Parse(strings.TrimSpace(out.String())); perr != nil || w.TagName() != "witherrs" {
			r3 = strings.TrimSpace(out.String())
		} else {
			r3 = w.L[1].String()
			e3 = []string{}
			for _, m := range w.L[2].L {
				e3 = append(e3, m.Text())
			}
		}
	}
	sameErrs := strings.Join(e1, "\x00") == strings.Join(e2, "\x00") && strings.Join(e2, "\x00") == strings.Join(e3, "\x00")
	if r1 == r2 && r2 == r3 && sameErrs {
		n, _ := sx.Parse(r1)
		return n
	}
	if r1 == r2 && r2 == r3 {
		// same outcomes, different error messages: report the first message that differs
		msg := func(e []string, i int) *sx.Node {
			if i < len(e) {
				return sx.Str(e[i])
			}
			return sx.Str("<none>")
		}
		for i := 0; ; i++ {
			a, b, d := msg(e1, i), msg(e2, i), msg(e3, i)
			if a.String() != b.String() || b.String() != d.String() || i >= len(e1) {
				return sx.Tag("differ", sx.Tag("errtext", a), sx.Tag("errtext", b), sx.Tag("errtext", d))
			}
		}
	}
	a, _ := sx.Parse(r1)
	b, _ := sx.Parse(r2)
	d, err := sx.Parse(r3)
	if err != nil {
		d = sx.Str(r3)
	}
	return sx.Tag("differ", a, b, d)
}

// runWithErrs: the result of a runner case together with the messages of the errors Next returned
// (used by runRepeated for its child process).
func runWithErrs(c *sx.Node) *sx.Node {
	n, e := runRunnerCaseErrs(c)
	ms := make([]*sx.Node, len(e))
	for i, m := range e {
		ms[i] = sx.Str(m)
	}
	return sx.Tag("witherrs", n, sx.List(ms...))
}

var cmdNames = []string{"walk", "say", "iffy", "settings", "jumpy", "caller", "declared", "localise", "enumerate", "cases", "ifelse", "wálk", "set_up", "x", "àvis", "Šárka"}
var cmdWords = []string{"left", "3", "-3", "0.5", "-12.25", "007", "true", "false", "True", "inf", "NaN", "1e3", ".5", "5.", "+5", "0x10", "-", "--1",
	"1.2.3", "né", "日本", "a,b", "x=1", "#tag", "a/b", "it's", "\"q\"", "1_000", "tru", "falsey", "-0", "00", "9999999999999999999999",
	"４２", "-٣.٥", "1२", "٣", "1.२", "²", "1e", "1.", "-.5", "1.5.", "TRUE", "False", "t", "f", "1,5",
	// characters whose UTF-8 encoding holds the bytes 0x85 / 0xA0 (U+0085 and U+00A0 are spaces; the bytes are not)
	"voilà", "Å", "Šárka", "ą", "元", "先生", "😅", "хорошо", "Πυ", "3à", "à3", "trueà"}
var cmdSeps = []string{" ", " ", "  ", "\t", " \t ", "   ", " ", " ", "\u3000", "\u00a0", " \u2003"}

// genCmdArgsCase: generic commands written as raw text (C17): names incl. keyword-prefixed ones, words
// from mixed alphabets, any spacing, inline expressions of every type; every name is registered as
// a host command except "unknown".
func genCmdArgsCase(r *rand.Rand, tier string) *sx.Node {
	cfg := flowCfg
	cfg.exprDepth, cfg.faultPct, cfg.visitedFns = 1, 0, false
	g := &dgen{r: r, cfg: cfg}
	g.nodes = []string{"Start"}
	g.vars = map[string][]string{"num": {"n1"}, "bool": {"b1"}, "str": {"s1"}}
	body := []*sx.Node{sx.Tag("declare", sx.Str("n1"), numLit(3)), sx.Tag("declare", sx.Str("b1"), boolLit(true)), sx.Tag("declare", sx.Str("s1"), strLit("one"))}
	k := 2 + r.Intn(5)
	for i := 0; i < k; i++ {
		name := cmdNames[r.Intn(len(cmdNames))]
		switch r.Intn(12) {
		case 0:
			name = "unknown"
		case 1:
			name = "stop"
		}
		els := []*sx.Node{}
		text := name
		if r.Intn(8) == 0 {
			text = cmdSeps[r.Intn(len(cmdSeps))] + text // blanks after << are hidden by the lexer... only before a keyword; here they are text
			text = strings.TrimLeft(text, " \t")
		}
		n := r.Intn(6)
		for j := 0; j < n; j++ {
			sep := cmdSeps[r.Intn(len(cmdSeps))]
			if r.Intn(4) == 0 {
				els = append(els, sx.Tag("t", sx.Str(text+sep)))
				text = ""
				if r.Intn(3) == 0 {
					// no variable in it, yet a different value every time the statement runs
					vc := fnCall("visited_count", strLit("Start"))
					els = append(els, sx.Tag("e", []*sx.Node{vc, fnCall("dice", numLit(6)), fnCall("p", strLit("t"), vc),
						fnCall("random_range", numLit(1), numLit(50)), binOp("+", vc, numLit(1)), fnCall("visited", strLit("Start"))}[r.Intn(6)]))
				} else {
					els = append(els, sx.Tag("e", g.expr([]string{"num", "bool", "str"}[r.Intn(3)], 1)))
				}
				if r.Intn(3) == 0 {
					text = "" // the next word follows the expression directly
				}
			} else {
				text += sep + cmdWords[r.Intn(len(cmdWords))]
			}
		}
		if r.Intn(4) == 0 {
			text += cmdSeps[r.Intn(len(cmdSeps))]
		}
		if text != "" {
			els = append(els, sx.Tag("t", sx.Str(text)))
		}
		body = append(body, sx.Tag("rawcmd", els...))
		if name == "stop" {
			break
		}
	}
	nops := k + 2
	if r.Intn(2) == 0 {
		// the node runs two or three times in one runner: every command statement is dispatched again
		body = append(body, sx.Tag("if", sx.Tag("clause", binOp("<", fnCall("visited_count", strLit("Start")), numLit(float64(1+r.Intn(2)))),
			sx.List(sx.Tag("jump", strLit("Start"))))))
		nops *= 3
	}
	body = append(body, sx.Tag("line", sx.List(sx.Tag("t", sx.Str("done"))), sx.List(), sx.List()))
	nodes := []*sx.Node{sx.Tag("node", sx.List(sx.List(sx.Str("title"), sx.Str("Start"))), sx.List(body...))}
	hc := []*sx.Node{}
	for _, n := range cmdNames {
		hc = append(hc, sx.Str(n))
	}
	hc = append(hc, sx.Str("stop")) // a handler registered under "stop" must never run
	ops := []*sx.Node{}
	// a third of the cases: two runners of the same script, each with its own handlers under the same
	// names, stepped alternately - a command of one runner must reach that runner's handler
	nr := 1
	if r.Intn(3) == 0 {
		nr = 2
	}
	for i := 0; i < nops; i++ {
		for ri := 0; ri < nr; ri++ {
			ops = append(ops, sx.Tag("next", sx.Int(int64(ri)), sx.Int(0)))
		}
	}
	lseed := r.Int63()
	lay := randomLayout(rand.New(rand.NewSource(lseed)))
	lay.trailingCmt, lay.blankProb = 0, 0
	return sx.Tag("runner", seedNode(randomSeed(r), 64), sx.Tag("storer", sx.Bool(false)), sx.Tag("init"), sx.Tag("hcmds", hc...),
		sx.Tag("sched"), sx.Tag("nrunners", sx.Int(int64(nr))), sx.Tag("nodes", sx.List(nodes...)), sx.Tag("readers", sx.Int(1)),
		layoutToSx(lay, lseed), sx.Tag("ops", ops...))
}

// standardLayouts: the renderings every program is compared under (C08), besides its own random one.
func standardLayouts(seed int64) []*layout {
	mk := func(f func(l *layout)) *layout {
		l := defaultLayout()
		l.r = rand.New(rand.NewSource(seed))
		f(l)
		return l
	}
	return []*layout{
		mk(func(l *layout) { l.unit = " " }),
		mk(func(l *layout) { l.unit = "        " }),
		mk(func(l *layout) { l.unit = "\t" }),
		mk(func(l *layout) { l.nl = "\r\n"; l.unit = "   " }),
		mk(func(l *layout) { l.blankProb = 100 }), // a blank / comment line before EVERY line
		mk(func(l *layout) { l.blankProb = 100; l.unit = "\t"; l.nl = "\r\n" }),
		mk(func(l *layout) { l.parens = 1; l.wordOps = 1 }), // maximal parentheses, word operators
		mk(func(l *layout) { l.parens = 2; l.wordOps = 0; l.cmdSpaces = 100; l.trailingCmt = 100 }),
		mk(func(l *layout) { l.wordOps = 2; l.cmdSpaces = 50 }),
	}
}

// runLayouts runs the case under its own layout, the standard layouts, and with one node per
// reader; all parsed dialogues and all traces must be identical.
func runLayouts(c *sx.Node) *sx.Node {
	base := runRunnerCase(c).String()
	variants := []*sx.Node{}
	for _, l := range standardLayouts(c.L[9].L[8].Int()) {
		v := *c
		v.L = append([]*sx.Node{}, c.L...)
		v.L[9] = layoutToSx(l, c.L[9].L[8].Int()+1)
		variants = append(variants, &v)
	}
	one := *c
	one.L = append([]*sx.Node{}, c.L...)
	readers := []*sx.Node{}
	for range c.L[7].L[1].L {
		readers = append(readers, sx.Int(1))
	}
	one.L[8] = sx.Tag("readers", readers...)
	variants = append(variants, &one)
	for i, v := range variants {
		if got := runRunnerCase(v).String(); got != base {
			a, _ := sx.Parse(base)
			b, _ := sx.Parse(got)
			return sx.Tag("differ", sx.Int(int64(i)), a, b, sx.Str(strings.Join(caseTexts(v), "#####\n")))
		}
	}
	n, _ := sx.Parse(base)
	return n
}

// genConcurrent: K independent runner cases to be created and driven from K goroutines at once (C18).
func genConcurrent(r *rand.Rand, tier string) *sx.Node {
	k := []int{2, 4, 8, 16}[r.Intn(4)]
	if tier == "thorough" && r.Intn(3) == 0 {
		k = 32
	}
	cfg := flowCfg
	cfg.randomFns, cfg.waitCmd, cfg.wStop = true, false, 0
	cfg.markupText, cfg.replPct, cfg.firstLineRepl = true, 25, true
	cases := []*sx.Node{}
	for i := 0; i < k; i++ {
		c := genRunnerCase(rand.New(rand.NewSource(r.Int63())), cfg, opsCfg{steps: 16, extraAfterEnd: 1})
		cases = append(cases, c)
	}
	return sx.Tag("concurrent", cases...)
}

// runConcurrent: every goroutine parses its own script, creates its own runner and drives it; all
// start together. Each result must be what the case gives when it runs alone.
func runConcurrent(c *sx.Node) *sx.Node {
	cases := c.Args()
	results := make([]*sx.Node, len(cases))
	start := make(chan struct{})
	done := make(chan int, len(cases))
	stop := make(chan struct{})
	noiseDone := make(chan struct{}, 4)
	// meanwhile other goroutines keep offering the library scripts it must refuse (abandoned in the
	// middle of an indented block, after the last node, at the first token ...): what one caller
	// feeds the library must not influence what another caller gets
	for n := 0; n < 4; n++ {
		go func(n int) {
			defer func() { recover(); noiseDone <- struct{}{} }()
			<-start
			for round := 0; ; round++ {
				select {
				case <-stop:
					return
				default:
				}
				src := brokenScripts[(n+round)%len(brokenScripts)]
				func() {
					defer func() { recover() }()
					ysgo.NewDialogueRunner(nil, "noise", strings.NewReader(src))
				}()
				if round%8 == 7 {
					time.Sleep(200 * time.Microsecond)
				}
			}
		}(n)
	}
	// and four "hammer" runners: each runs one node 120 times, every pass calling every pure built-in,
	// the conversions and markup with replacement markers, on values of its own; its trace must be the
	// one the same script gives alone (computed before the goroutines start)
	hammerRef := make([]string, 4)
	hammerGot := make([]string, 4)
	hammerDone := make(chan struct{}, 4)
	for n := range hammerRef {
		hammerRef[n] = hammerTrace(n * 7)
	}
	for n := 0; n < 4; n++ {
		go func(n int) {
			defer func() { hammerDone <- struct{}{} }()
			<-start
			hammerGot[n] = hammerTrace(n * 7)
		}(n)
	}
	for i := range cases {
		go func(i int) {
			defer func() {
				if r := recover(); r != nil {
					results[i] = sx.Tag("panic")
				}
				done <- i
			}()
			<-start
			first := runRunnerCase(cases[i])
			// and once more, later in the life of the process
			if second := runRunnerCase(cases[i]); second.String() != first.String() {
				first = sx.Tag("unstable", first, second)
			}
			results[i] = first
		}(i)
	}
	close(start)
	for range cases {
		<-done
	}
	close(stop)
	for n := 0; n < 4; n++ {
		<-noiseDone
		<-hammerDone
	}
	if st := starvationProbe(6); st != nil {
		results = append(results, st)
	}
	for n := range hammerRef {
		if hammerGot[n] != hammerRef[n] || strings.Contains(hammerRef[n], "err:") || strings.Contains(hammerRef[n], "load:") || !strings.HasSuffix(hammerRef[n], "end\n") {
			results = append(results, sx.Tag("hammer-differs", sx.Int(int64(n)), sx.Str(firstDiffLine(hammerRef[n], hammerGot[n]))))
		}
	}
	return sx.Tag("all", results...)
}

// starvationProbe: k runners each start a converted command (func(float64) error, func(float64)) whose
// handler stays busy until the probe releases it; one more runner then executes a command that returns at
// once and must get past it - independent runners do not wait for one another's handlers.
func starvationProbe(k int) *sx.Node {
	script := "title: S\n---\nBefore\n<<busy 1>>\nAfter\n===\n"
	gate := make(chan struct{})
	started := make(chan struct{}, k)
	defer close(gate)
	for i := 0; i < k; i++ {
		dr, err := ysgo.NewDialogueRunner(nil, "s"+strconv.Itoa(i), strings.NewReader(script))
		if err != nil {
			return sx.Tag("starved", sx.Int(int64(k)), sx.Str("load: "+err.Error()))
		}
		if i%2 == 0 {
			err = dr.ConvertAndAddCommand("busy", func(float64) error { started <- struct{}{}; <-gate; return nil })
		} else {
			err = dr.ConvertAndAddCommand("busy", func(float64) { started <- struct{}{}; <-gate })
		}
		if err != nil {
			return sx.Tag("starved", sx.Int(int64(k)), sx.Str("register: "+err.Error()))
		}
		dr.Next(0) // Before
		dr.Next(0) // starts the command
		select {
		case <-started:
		case <-time.After(2 * time.Second):
			return sx.Tag("starved", sx.Int(int64(i)), sx.Str("the handler of runner "+strconv.Itoa(i)+" never started"))
		}
	}
	dr, err := ysgo.NewDialogueRunner(nil, "last", strings.NewReader(script))
	if err != nil {
		return sx.Tag("starved", sx.Int(int64(k)), sx.Str("load: "+err.Error()))
	}
	if err := dr.ConvertAndAddCommand("busy", func(float64) error { return nil }); err != nil {
		return sx.Tag("starved", sx.Int(int64(k)), sx.Str("register: "+err.Error()))
	}
	dr.Next(0)
	deadline := time.Now().Add(2 * time.Second)
	for {
		el, err := dr.Next(0)
		if err == nil && el != nil && el.Line != nil {
			return nil // "After"
		}
		if err != nil && !errors.Is(err, ysgo.ErrWaitingForCommandCompletion) {
			return sx.Tag("starved", sx.Int(int64(k)), sx.Str("error: "+err.Error()))
		}
		if time.Now().After(deadline) {
			return sx.Tag("starved", sx.Int(int64(k)), sx.Str("still waiting for a command that returned at once"))
		}
		time.Sleep(200 * time.Microsecond)
	}
}

// brokenScripts are refused by NewDialogueRunner, each at a different point of the load.
var brokenScripts = []string{
	"title: A\n---\n-> a\n    x\n    -> b\n        y\n \t  z\n===\n", // tab/space mix inside a nested block
	"title: A\n---\nline\n===\n    junk\n",                           // indented input after the last node
	"title: A\n---\n-> a\n    <<if>>\n        q\n===\n",              // syntax error inside an indented block
	"title: A\n---\n-> a\n        deep\n    <<set $x to >>\n",        // no end of node, half-closed indentation
	"", // nothing at all
	"title: A\n---\n<<jump>>\n-> o\n    -> p\n        -> q\n            r", // error, then end of input deep inside
	"title: A\n---\n-> a\n\t-> b\n\t\tc\n\t  d\n===\n",                     // tabs then blanks
	"title: A\n---\n    indented first line\n        deeper\n===\n===\n",   // stray second delimiter
}

func firstDiffLine(a, b string) string {
	la, lb := strings.Split(a, "\n"), strings.Split(b, "\n")
	for i := 0; i < len(la) || i < len(lb); i++ {
		x, y := "", ""
		if i < len(la) {
			x = la[i]
		}
		if i < len(lb) {
			y = lb[i]
		}
		if x != y {
			return "alone: " + x + " | concurrently: " + y
		}
	}
	return "alone: " + a
}
