package main

import (
	"fmt"
	"strings"

	ysgo "github.com/remieven/ysgo"
)

// hammerScript: one node that runs 120 times in one runner; every pass evaluates every pure built-in,
// the conversions, markup with replacement markers and a host-independent command-free flow, on values
// that differ from pass to pass and from runner to runner (offset), so that state shared between
// runners - a scratch buffer, a memo, a pooled object - shows as a wrong value or as a data race.
func hammerScript(offset int) string {
	var b strings.Builder
	b.WriteString("title: L\n---\n<<declare $i = 0>>\n<<declare $o = " + fmt.Sprint(offset) + ">>\n<<jump Loop>>\n===\n")
	b.WriteString("title: Loop\n---\n")
	b.WriteString("{$i}: {floor($i / 4 + $o)} {ceil($i / 4 + $o)} {round($i / 4 + $o)} {round_places($i / 8 + $o, 2)} {inc($i / 4 + $o)} {dec($i / 4 + $o)} " +
		"{decimal($i / 4 + $o)} {integer($i / 4 + $o)} {string($i + $o)} {number(string($i / 4 + $o))} {bool($i % 2)} {string($i % 2 == 0)} " +
		"[select value={$i % 3} 0=\"zéro\" 1=\"one %\" 2=two/] [plural value={$i} one=\"% apple\" other=\"% apples\"/] [b]x{$i + $o}[/b]\n")
	b.WriteString("<<set $i += 1>>\n<<if $i < 120>>\n    <<jump Loop>>\n<<endif>>\ndone {visited_count(\"Loop\")}\n===\n")
	return b.String()
}

// hammerTrace drives a fresh runner over hammerScript(offset) and returns everything it returns.
func hammerTrace(offset int) string {
	var out strings.Builder
	defer func() {
		if r := recover(); r != nil {
			out.WriteString(fmt.Sprint("PANIC ", r))
		}
	}()
	dr, err := ysgo.NewDialogueRunner(nil, "hammer", strings.NewReader(hammerScript(offset)))
	if err != nil {
		return "load: " + err.Error()
	}
	for step := 0; step < 200; step++ {
		el, err := dr.Next(0)
		if err != nil {
			out.WriteString("err: " + err.Error() + "\n")
			break
		}
		if el == nil {
			out.WriteString("end\n")
			break
		}
		if el.Line != nil {
			out.WriteString(el.Line.Text)
			for _, a := range el.Line.Attributes {
				out.WriteString(fmt.Sprintf(" <%s %d %d>", a.Name, a.Position, a.Length))
			}
			out.WriteString("\n")
		}
	}
	return out.String()
}
