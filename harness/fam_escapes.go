package main

import (
	"math/rand"
	"strings"

	ysgo "github.com/remieven/ysgo"

	"verifharness/sx"
)

// escapes family (C04, end to end for literal text): one line or one option written as a list of
// tokens - ordinary characters, escapable characters with their backslash, the characters that may
// be written either way - whose meaning the generator knows by construction: the text the runner
// must return is the characters with every escape resolved, trimmed; the tags are the hashtags.
func init() {
	register("escapes", family{gen: genEscapes, run: runEscapes})
}

var escOrdinary = []rune("abcXYZ  09.,;:!?'\"()|~^&*+_%$@éü日本𝄞")

func genEscapes(r *rand.Rand, tier string) *sx.Node {
	kind := r.Intn(2) // 0 line, 1 option
	toks := []string{}
	var meaning strings.Builder
	n := 1 + r.Intn(12)
	add := func(tok, m string) {
		toks = append(toks, tok)
		meaning.WriteString(m)
	}
	if r.Intn(6) == 0 {
		add(strings.Repeat(" ", 1+r.Intn(3)), "") // leading blanks are layout, not text
	}
	for i := 0; i < n; i++ {
		switch x := r.Intn(20); {
		case x < 8:
			c := string(escOrdinary[r.Intn(len(escOrdinary))])
			add(c, c)
		case x < 13:
			// a character that must be escaped to be text
			c := string([]rune("\\#{</[]")[r.Intn(7)])
			add("\\"+c, c)
		case x < 15:
			// characters that may be written either way
			c := string([]rune(">}")[r.Intn(2)])
			if r.Intn(2) == 0 {
				add("\\"+c, c)
			} else {
				add(c, c)
			}
		case x < 16:
			add("]", "]") // a closing bracket outside a marker is text
		case x < 17:
			// a single '<' or '/' is text when the next character does not make it a command / comment
			c := string([]rune("</")[r.Intn(2)])
			add(c, c)
			nx := string(escOrdinary[r.Intn(len(escOrdinary))])
			add(nx, nx)
		case x < 18:
			add("\\\\", "\\")  // an escaped backslash ...
			switch r.Intn(4) { // ... followed by something a backslash could bind to
			case 0:
				add("]", "]")
			case 1:
				add("\\[", "[")
			case 2:
				add("\\]", "]")
			default:
				add("n", "n")
			}
		default:
			w := []string{"hello", " there ", "Name: ", "50% ", "a-b", "x=1"}[r.Intn(6)]
			add(w, w)
		}
	}
	if strings.TrimSpace(meaning.String()) == "" {
		add("x", "x")
	}
	tags := []*sx.Node{}
	for k := r.Intn(3); k > 0; k-- {
		t := []string{"tag", "line:12", "é", "a-b"}[r.Intn(4)]
		toks = append(toks, []string{" #", "#", "  #"}[r.Intn(3)]+t)
		tags = append(tags, sx.Str(t))
	}
	if r.Intn(6) == 0 {
		cm := []string{" // comment", "// c # not a tag", " //"}[r.Intn(3)]
		if len(tags) > 0 && cm[0] != ' ' {
			cm = " " + cm // a hashtag runs up to the next blank
		}
		toks = append(toks, cm)
	}
	tn := []*sx.Node{}
	for _, t := range toks {
		tn = append(tn, sx.Str(t))
	}
	return sx.Tag("esc", sx.Int(int64(kind)), sx.List(tn...), sx.Str(strings.TrimSpace(meaning.String())), sx.List(tags...))
}

func runEscapes(c *sx.Node) *sx.Node {
	var b strings.Builder
	for _, t := range c.L[2].L {
		b.WriteString(t.Text())
	}
	body := b.String()
	if c.L[1].Int() == 1 {
		body = "-> " + body
	}
	src := "title: a\n---\n" + body + "\n===\n"
	dr, err := ysgo.NewDialogueRunner(nil, "", strings.NewReader(src))
	if err != nil {
		return sx.Tag("none")
	}
	el, err := dr.Next(0)
	if err != nil || el == nil {
		return sx.Tag("none")
	}
	line := el.Line
	if c.L[1].Int() == 1 {
		if len(el.Options) != 1 {
			return sx.Tag("none")
		}
		line = el.Options[0].Line
	}
	if line == nil {
		return sx.Tag("none")
	}
	tags := []*sx.Node{}
	for _, t := range line.Tags {
		tags = append(tags, sx.Str(t))
	}
	return sx.Tag("text", sx.Str(line.Text), sx.List(tags...))
}
