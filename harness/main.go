// Command verifharness generates cases and runs them against the ysgo implementation built from
// /repo's current working tree (build tag verif).  Cases and results are s-expressions, one per line.
//
//	verifharness gen <family> <seed> <n>      cases on stdout
//	verifharness run <family>                 cases on stdin, observed results on stdout
//	verifharness norm <family>                cases on stdin, cases with derived fields recomputed on stdout
package main

import (
	"bufio"
	"fmt"
	"io"
	"math/rand"
	"os"
	"runtime/debug"
	"runtime/pprof"
	"strconv"
	"sync"
	"sync/atomic"

	"verifharness/sx"
)

type family struct {
	gen  func(r *rand.Rand, tier string) *sx.Node
	run  func(c *sx.Node) *sx.Node
	norm func(c *sx.Node) *sx.Node // recompute derived fields of a (shrunk) case; nil = identity
}

var families = map[string]family{}

func register(name string, f family) { families[name] = f }

func caseRand(seed int64, i int) *rand.Rand {
	// one PRNG state per case, derived from the run seed, so that a case replays alone
	return rand.New(rand.NewSource(seed*1000003 + int64(i)*7919 + 17))
}

func safeRun(f family, c *sx.Node) (out *sx.Node) {
	defer func() {
		if r := recover(); r != nil {
			out = sx.Tag("HARNESS-PANIC", sx.Str(fmt.Sprint(r)))
		}
	}()
	return f.run(c)
}

func safeGen(f family, r *rand.Rand, tier string) (out *sx.Node) {
	defer func() {
		if r := recover(); r != nil {
			out = sx.Tag("GEN-PANIC", sx.Str(fmt.Sprint(r)))
		}
	}()
	return f.gen(r, tier)
}

// parallel runs work(0..n-1) on a pool of goroutines (VERIF_WORKERS, default 12; 1 = serial).
func parallel(n int, work func(i int)) {
	workers := 12
	if v, err := strconv.Atoi(os.Getenv("VERIF_WORKERS")); err == nil && v > 0 {
		workers = v
	}
	if workers > n {
		workers = n
	}
	if workers <= 1 {
		for i := 0; i < n; i++ {
			work(i)
		}
		return
	}
	var wg sync.WaitGroup
	next := int64(-1)
	for w := 0; w < workers; w++ {
		wg.Add(1)
		go func() {
			defer wg.Done()
			for {
				i := int(atomic.AddInt64(&next, 1))
				if i >= n {
					return
				}
				work(i)
			}
		}()
	}
	wg.Wait()
}

func main() {
	if len(os.Args) < 3 {
		fmt.Fprintln(os.Stderr, "usage: verifharness gen|run <family> ...")
		os.Exit(2)
	}
	gcp := 400 // the ANTLR runtime allocates heavily; trade memory for time
	if v, err := strconv.Atoi(os.Getenv("VERIF_GOGC")); err == nil {
		gcp = v
	}
	debug.SetGCPercent(gcp)
	// unbounded recursion (known finding D7) should die quickly instead of eating a gigabyte
	debug.SetMaxStack(48 << 20)
	if pf := os.Getenv("VERIF_PPROF"); pf != "" {
		fh, _ := os.Create(pf)
		pprof.StartCPUProfile(fh)
		defer pprof.StopCPUProfile()
	}
	if os.Args[1] == "tokens" {
		// debugging aid: the parser-visible tokens of the text on stdin
		b, _ := io.ReadAll(os.Stdin)
		fmt.Println(stmtCase(string(b)).String())
		return
	}
	if os.Args[1] == "text" {
		printTexts()
		return
	}
	f, ok := families[os.Args[2]]
	if !ok {
		fmt.Fprintln(os.Stderr, "unknown family", os.Args[2])
		os.Exit(2)
	}
	w := bufio.NewWriterSize(os.Stdout, 1<<20)
	defer w.Flush()
	switch os.Args[1] {
	case "gen":
		seed, _ := strconv.ParseInt(os.Args[3], 10, 64)
		n, _ := strconv.Atoi(os.Args[4])
		tier := "quick"
		if len(os.Args) > 5 {
			tier = os.Args[5]
		}
		out := make([]string, n)
		parallel(n, func(i int) { out[i] = safeGen(f, caseRand(seed, i), tier).String() })
		for _, l := range out {
			fmt.Fprintln(w, l)
		}
	case "run":
		sc := bufio.NewScanner(os.Stdin)
		sc.Buffer(make([]byte, 1<<20), 1<<28)
		lines := []string{}
		for sc.Scan() {
			if line := sc.Text(); line != "" {
				lines = append(lines, line)
			}
		}
		out := make([]string, len(lines))
		parallel(len(lines), func(i int) {
			c, err := sx.Parse(lines[i])
			if err != nil {
				out[i] = sx.Tag("BADCASE", sx.Str(err.Error())).String()
				return
			}
			out[i] = safeRun(f, c).String()
		})
		for _, l := range out {
			fmt.Fprintln(w, l)
		}
	case "norm":
		sc := bufio.NewScanner(os.Stdin)
		sc.Buffer(make([]byte, 1<<20), 1<<28)
		for sc.Scan() {
			line := sc.Text()
			if line == "" {
				continue
			}
			c, err := sx.Parse(line)
			if err != nil || f.norm == nil {
				fmt.Fprintln(w, line)
				continue
			}
			fmt.Fprintln(w, f.norm(c).String())
		}
	default:
		fmt.Fprintln(os.Stderr, "unknown command", os.Args[1])
		os.Exit(2)
	}
}
