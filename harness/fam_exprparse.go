package main

import (
	"math"
	"math/rand"
	"strconv"
	"strings"

	ysgo "github.com/remieven/ysgo"

	"verifharness/sx"
)

// exprparse (C02 grouping, C08 redundant parentheses and operator spellings): token sequences of
// the expression language.  Two thirds are written down from a random tree by the rules the
// property states (the generator's own table: unary minus and not, then * / %, then + -, then
// < <= > >=, then == !=, then and/or/xor; binary operators left-associative) with parentheses where
// needed and, at random, where not - those cases carry the tree, which the implementation's parser
// and listener must give back.  The rest are mutated sequences and token soups, on which the
// implementation must accept/reject and group exactly as the parser model does.
func init() {
	register("exprparse", family{gen: genExprParse, run: runExprParse})
}

var epLevel = map[string]int{"*": 6, "/": 6, "%": 6, "+": 5, "-": 5, "<=": 4, ">=": 4, "<": 4, ">": 4, "==": 3, "!=": 3, "and": 2, "or": 2, "xor": 2}
var epOps = []string{"*", "/", "%", "+", "-", "<=", ">=", "<", ">", "==", "!=", "and", "or", "xor"}
var epSpell = map[string][]string{"*": {"*"}, "/": {"/"}, "%": {"%"}, "+": {"+"}, "-": {"-"},
	"<=": {"<=", "lte"}, ">=": {">=", "gte"}, "<": {"<", "lt"}, ">": {">", "gt"}, "==": {"==", "is", "eq"}, "!=": {"!=", "neq"},
	"and": {"and", "&&"}, "or": {"or", "||"}, "xor": {"xor", "^"}}

const epNeg, epNot = 8, 7

func epTree(r *rand.Rand, depth int) *sx.Node {
	if depth <= 0 || r.Intn(4) == 0 {
		switch r.Intn(7) {
		case 0:
			return boolLit(r.Intn(2) == 0)
		case 1:
			return strLit([]string{"a", "x y", "", "ünï", "日本", "and", "(", "1+2"}[r.Intn(8)])
		case 2:
			return varRef([]string{"x", "n1", "flag", "é"}[r.Intn(4)])
		case 3:
			return sx.Tag("null")
		default:
			return numLit([]float64{0, 1, 2, 3, 7, 10, 0.5, 2.75, 100, 1e6}[r.Intn(10)])
		}
	}
	switch x := r.Intn(12); {
	case x < 7:
		return binOp(epOps[r.Intn(len(epOps))], epTree(r, depth-1), epTree(r, depth-1))
	case x < 9:
		return sx.Tag("neg", epTree(r, depth-1))
	case x < 10:
		return sx.Tag("not", epTree(r, depth-1))
	default:
		n := r.Intn(4)
		args := make([]*sx.Node, n)
		for i := range args {
			args[i] = epTree(r, depth-1)
		}
		return fnCall([]string{"p", "f", "floor", "visited"}[r.Intn(4)], args...)
	}
}

func epTok(kind string, a ...*sx.Node) *sx.Node { return sx.Tag(kind, a...) }

// epPrint writes tree e in a position that demands level q; extra is the percentage of redundant
// parentheses.
func epPrint(r *rand.Rand, e *sx.Node, q, extra int) []*sx.Node {
	wrap := func(ts []*sx.Node) []*sx.Node {
		return append(append([]*sx.Node{epTok("lp")}, ts...), epTok("rp"))
	}
	var out []*sx.Node
	switch e.TagName() {
	case "bin":
		op := e.L[1].Text()
		l := epLevel[op]
		out = append(epPrint(r, e.L[2], l, extra), epTok("op", sx.Str(op)))
		out = append(out, epPrint(r, e.L[3], l+1, extra)...)
		if q > l {
			return wrap(out)
		}
	case "neg":
		out = append([]*sx.Node{epTok("op", sx.Str("-"))}, epPrint(r, e.L[1], epNeg, extra)...)
	case "not":
		out = append([]*sx.Node{epTok("not")}, epPrint(r, e.L[1], epNot, extra)...)
	case "fn":
		out = []*sx.Node{epTok("fn", e.L[1]), epTok("lp")}
		for i, a := range e.L[2].L {
			if i > 0 {
				out = append(out, epTok("comma"))
			}
			out = append(out, epPrint(r, a, 0, extra)...)
		}
		out = append(out, epTok("rp"))
	default:
		out = []*sx.Node{e} // (num bits) (bool b) (str s) (var x) (null): the token is the leaf
	}
	if r.Intn(100) < extra {
		return wrap(out)
	}
	return out
}

func genExprParse(r *rand.Rand, tier string) *sx.Node {
	tree := epTree(r, 1+r.Intn(4))
	extra := []int{0, 0, 15, 40, 100}[r.Intn(5)]
	toks := epPrint(r, tree, 0, extra)
	for len(toks) > 40 {
		tree = epTree(r, 2)
		toks = epPrint(r, tree, 0, extra)
	}
	spell := sx.Int(r.Int63())
	if r.Intn(3) != 0 {
		return sx.Tag("exprparse", sx.List(toks...), spell, sx.Tag("tree", tree))
	}
	// mutations and soups: no expectation by construction
	pool := []*sx.Node{epTok("lp"), epTok("rp"), epTok("comma"), epTok("not"), epTok("op", sx.Str("-")), epTok("op", sx.Str("+")),
		epTok("op", sx.Str("*")), epTok("op", sx.Str("and")), epTok("op", sx.Str("==")), epTok("op", sx.Str("<")), numLit(1), numLit(2), boolLit(true),
		varRef("x"), sx.Tag("null"), epTok("fn", sx.Str("f")), strLit("s")}
	if r.Intn(3) == 0 {
		n := 1 + r.Intn(9)
		toks = nil
		for i := 0; i < n; i++ {
			toks = append(toks, pool[r.Intn(len(pool))])
		}
	} else {
		for k := 1 + r.Intn(2); k > 0 && len(toks) > 0; k-- {
			i := r.Intn(len(toks))
			switch r.Intn(3) {
			case 0:
				toks = append(append([]*sx.Node{}, toks[:i]...), toks[i+1:]...)
			case 1:
				toks = append(append(append([]*sx.Node{}, toks[:i]...), pool[r.Intn(len(pool))]), toks[i:]...)
			default:
				toks = append(append(append([]*sx.Node{}, toks[:i]...), pool[r.Intn(len(pool))]), toks[i+1:]...)
			}
		}
	}
	return sx.Tag("exprparse", sx.List(toks...), spell)
}

func epText(toks []*sx.Node, seed int64) string {
	r := rand.New(rand.NewSource(seed))
	var b strings.Builder
	for i, t := range toks {
		if i > 0 {
			b.WriteString([]string{" ", " ", "  "}[r.Intn(3)])
		}
		switch t.TagName() {
		case "lp":
			b.WriteString("(")
		case "rp":
			b.WriteString(")")
		case "comma":
			b.WriteString(",")
		case "not":
			b.WriteString([]string{"not", "!"}[r.Intn(2)])
		case "op":
			sp := epSpell[t.L[1].Text()]
			b.WriteString(sp[r.Intn(len(sp))])
		case "num":
			b.WriteString(strconv.FormatFloat(math.Float64frombits(t.L[1].Z.Uint64()), 'f', -1, 64))
		case "bool":
			if t.L[1].Int() != 0 {
				b.WriteString("true")
			} else {
				b.WriteString("false")
			}
		case "str":
			b.WriteString(`"` + t.L[1].Text() + `"`)
		case "var":
			b.WriteString("$" + t.L[1].Text())
		case "null":
			b.WriteString("null")
		case "fn":
			b.WriteString(t.L[1].Text())
		}
	}
	return b.String()
}

func runExprParse(c *sx.Node) *sx.Node {
	text := epText(c.L[1].L, c.L[2].Int())
	if strings.HasSuffix(text, ">") {
		text += " " // a final '>' must not run into the closing ">>" (">>>" is the end of the command and a text)
	}
	src := "title: T\n---\n<<set $v to " + text + ">>\n===\n"
	dump, err := ysgo.VerifDumpDialogue(strings.NewReader(src))
	if err != nil {
		return sx.Tag("reject")
	}
	d, perr := sx.Parse(dump)
	if perr != nil || len(d.L) != 1 || len(d.L[0].L) < 3 || len(d.L[0].L[2].L) != 1 {
		return sx.Tag("odd", sx.Str(dump))
	}
	st := d.L[0].L[2].L[0]
	if st.TagName() != "set" || len(st.L) != 4 {
		return sx.Tag("odd", sx.Str(dump))
	}
	return sx.Tag("ast", st.L[3])
}
