package main

// Printer from the s-expression AST (the encoding of coq/Yarn/RunnerWire.v and of the
// VerifDumpDialogue hook) to Yarn script text, under a layout.  The layout only chooses among
// spellings that must not change the parsed dialogue (C08).

import (
	"math"
	"math/rand"
	"strconv"
	"strings"

	"verifharness/sx"
)

type layout struct {
	unit        string // one indentation step ("  ", "\t", ...)
	nl          string // "\n" or "\r\n"
	blankProb   int    // percent: blank / whitespace-only / comment line before a statement
	trailingCmt int    // percent: trailing comment after a command line
	parens      int    // 0 minimal, 1 redundant around every binary operation, 2 random extra
	wordOps     int    // 0 symbols, 1 words, 2 random per operator
	cmdSpaces   int    // percent: extra blanks inside commands where the lexer hides them
	r           *rand.Rand
}

func defaultLayout() *layout {
	return &layout{unit: "    ", nl: "\n", r: rand.New(rand.NewSource(1))}
}

func randomLayout(r *rand.Rand) *layout {
	l := &layout{r: rand.New(rand.NewSource(r.Int63()))}
	switch r.Intn(6) {
	case 0:
		l.unit = "\t"
	case 1:
		l.unit = " "
	case 2:
		l.unit = "        "
	default:
		l.unit = strings.Repeat(" ", 1+r.Intn(6))
	}
	l.nl = "\n"
	if r.Intn(5) == 0 {
		l.nl = "\r\n"
	}
	l.blankProb = []int{0, 0, 15, 40, 100}[r.Intn(5)]
	l.trailingCmt = []int{0, 0, 30}[r.Intn(3)]
	l.parens = r.Intn(3)
	l.wordOps = r.Intn(3)
	l.cmdSpaces = []int{0, 0, 50}[r.Intn(3)]
	return l
}

func layoutToSx(l *layout, seed int64) *sx.Node {
	return sx.Tag("layout", sx.Str(l.unit), sx.Str(l.nl), sx.Int(int64(l.blankProb)), sx.Int(int64(l.trailingCmt)),
		sx.Int(int64(l.parens)), sx.Int(int64(l.wordOps)), sx.Int(int64(l.cmdSpaces)), sx.Int(seed))
}

func layoutFromSx(n *sx.Node) *layout {
	if n == nil || len(n.L) < 9 {
		return defaultLayout()
	}
	return &layout{unit: n.L[1].Text(), nl: n.L[2].Text(), blankProb: int(n.L[3].Int()), trailingCmt: int(n.L[4].Int()),
		parens: int(n.L[5].Int()), wordOps: int(n.L[6].Int()), cmdSpaces: int(n.L[7].Int()),
		r: rand.New(rand.NewSource(n.L[8].Int()))}
}

func (l *layout) pct(p int) bool { return p > 0 && l.r.Intn(100) < p }

// sp returns the blanks between tokens inside a command: at least min, sometimes more.
func (l *layout) sp(min int) string {
	n := min
	if l.pct(l.cmdSpaces) {
		n += 1 + l.r.Intn(3)
	}
	return strings.Repeat(" ", n)
}

var binPrec = map[string]int{"*": 5, "/": 5, "%": 5, "+": 4, "-": 4, "<=": 3, ">=": 3, "<": 3, ">": 3,
	"==": 2, "!=": 2, "and": 1, "or": 1, "xor": 1}

var opSpellings = map[string][]string{
	"<=": {"<=", "lte"}, ">=": {">=", "gte"}, "==": {"==", "is", "eq"}, "<": {"<", "lt"}, ">": {">", "gt"},
	"!=": {"!=", "neq"}, "and": {"&&", "and"}, "or": {"||", "or"}, "xor": {"^", "xor"}, "not": {"!", "not"},
	"=": {"=", "to"},
}

func (l *layout) spell(op string) string {
	alts, ok := opSpellings[op]
	if !ok {
		return op
	}
	switch l.wordOps {
	case 0:
		return alts[0]
	case 1:
		return alts[len(alts)-1]
	}
	return alts[l.r.Intn(len(alts))]
}

func isWordSpelling(s string) bool { return s != "" && s[0] >= 'a' && s[0] <= 'z' }

func formatNumber(f float64) string {
	return strconv.FormatFloat(f, 'f', -1, 64)
}

func numberOf(n *sx.Node) float64 { return math.Float64frombits(n.L[1].Z.Uint64()) }

// printExpr prints e; ctx is the precedence of the enclosing operator (0 = none).
func (l *layout) printExpr(e *sx.Node, ctx int) string {
	switch e.TagName() {
	case "num":
		return formatNumber(numberOf(e))
	case "bool":
		if e.L[1].Int() != 0 {
			return "true"
		}
		return "false"
	case "str":
		return `"` + e.L[1].Text() + `"`
	case "null":
		return "null"
	case "var":
		return "$" + e.L[1].Text()
	case "fn":
		args := []string{}
		for _, a := range e.L[2].L {
			args = append(args, l.printExpr(a, 0))
		}
		return e.L[1].Text() + "(" + strings.Join(args, ","+l.sp(1)) + ")"
	case "neg":
		s := "-" + l.printExpr(e.L[1], 6)
		return l.wrap(s, 6, ctx)
	case "not":
		sp := l.spell("not")
		if isWordSpelling(sp) {
			sp += " "
		}
		s := sp + l.printExpr(e.L[1], 6)
		return l.wrap(s, 6, ctx)
	case "bin":
		op := e.L[1].Text()
		p := binPrec[op]
		// left-associative: the right operand needs parentheses at equal precedence
		s := l.printExpr(e.L[2], p) + l.sp(1) + l.spell(op) + l.sp(1) + l.printExprRight(e.L[3], p)
		if l.parens == 1 || (l.parens == 2 && l.r.Intn(3) == 0) {
			return "(" + s + ")"
		}
		if ctx > p {
			return "(" + s + ")"
		}
		return s
	}
	return "?"
}

func (l *layout) printExprRight(e *sx.Node, p int) string {
	if e.TagName() == "bin" && binPrec[e.L[1].Text()] <= p {
		if l.parens == 1 {
			return l.printExpr(e, 0) // already parenthesised
		}
		s := l.printExpr(e, 0)
		if strings.HasPrefix(s, "(") && l.parens == 2 && balancedOuter(s) {
			return s
		}
		return "(" + s + ")"
	}
	return l.printExpr(e, p)
}

// balancedOuter reports whether the first '(' of s closes at its last character.
func balancedOuter(s string) bool {
	depth := 0
	inStr := false
	for i, c := range s {
		switch {
		case c == '"':
			inStr = !inStr
		case inStr:
		case c == '(':
			depth++
		case c == ')':
			depth--
			if depth == 0 && i != len(s)-1 {
				return false
			}
		}
	}
	return true
}

func (l *layout) wrap(s string, p, ctx int) string {
	if l.parens == 2 && l.r.Intn(4) == 0 {
		return "(" + s + ")"
	}
	return s
}

// escapeText escapes a literal text chunk of a line: every character the lexer treats specially
// in text is escaped ('>' never is special).
func escapeText(t string, first bool) string {
	var b strings.Builder
	for _, c := range t {
		switch c {
		case '\\', '#', '{', '}', '<', '/':
			b.WriteByte('\\')
			b.WriteRune(c)
		default:
			b.WriteRune(c)
		}
	}
	return b.String()
}

func (l *layout) printLineBody(line *sx.Node) string {
	var b strings.Builder
	for i, el := range line.L[1].L {
		if el.TagName() == "t" {
			b.WriteString(escapeText(el.L[1].Text(), i == 0))
		} else {
			b.WriteString("{" + l.sp(0) + l.printExpr(el.L[1], 0) + l.sp(0) + "}")
		}
	}
	needSpace := false
	if line.L[2].Kind == 'l' && len(line.L[2].L) > 0 {
		b.WriteString("<<if" + l.sp(1) + l.printExpr(line.L[2], 0) + l.sp(0) + ">>")
		needSpace = true
	}
	for _, t := range line.L[3].L {
		if needSpace {
			b.WriteString(l.sp(1))
		}
		b.WriteString("#" + t.Text())
		needSpace = true
	}
	return b.String()
}

func wordable(v *sx.Node) (string, bool) {
	switch v.TagName() {
	case "bool":
		if v.L[1].Int() != 0 {
			return "true", true
		}
		return "false", true
	case "num":
		f := numberOf(v)
		s := formatNumber(f)
		if math.IsInf(f, 0) || math.IsNaN(f) || strings.ContainsAny(s, "e") {
			return "", false
		}
		return s, true
	case "str":
		s := v.L[1].Text()
		if s == "" || s == "true" || s == "false" || strings.ContainsAny(s, " \t\r\n{}>\"") {
			return "", false
		}
		if _, err := strconv.ParseFloat(s, 64); err == nil && s[0] != '+' {
			return "", false
		}
		return s, true
	}
	return "", false
}

func (l *layout) printStatements(b *strings.Builder, stmts []*sx.Node, depth int) {
	for _, s := range stmts {
		l.printStatement(b, s, depth)
	}
}

func (l *layout) emit(b *strings.Builder, depth int, text string, isCommand bool) {
	if l.pct(l.blankProb) {
		switch l.r.Intn(4) {
		case 0:
			b.WriteString(l.nl)
		case 1:
			b.WriteString(strings.Repeat(" ", l.r.Intn(7)) + l.nl)
		case 2:
			b.WriteString("// a comment at column 0" + l.nl)
		case 3:
			b.WriteString(strings.Repeat(" ", l.r.Intn(9)) + "// a comment anywhere" + l.nl)
		}
	}
	b.WriteString(strings.Repeat(l.unit, depth))
	b.WriteString(text)
	if isCommand && l.pct(l.trailingCmt) {
		b.WriteString(" // trailing")
	}
	b.WriteString(l.nl)
}

func (l *layout) printStatement(b *strings.Builder, s *sx.Node, depth int) {
	switch s.TagName() {
	case "line":
		l.emit(b, depth, l.printLineBody(s), false)
	case "opts":
		for _, o := range s.Args() {
			l.emit(b, depth, "->"+l.sp(1)+l.printLineBody(o.L[1]), false)
			l.printStatements(b, o.L[2].L, depth+1)
		}
	case "set":
		l.emit(b, depth, "<<set"+l.sp(1)+"$"+s.L[1].Text()+l.sp(1)+l.spell(s.L[2].Text())+l.sp(1)+l.printExpr(s.L[3], 0)+l.sp(0)+">>", true)
	case "declare":
		// the `as <type>` clause is parsed and ignored: writing it (with the value's type or another one) is layout
		as := ""
		if l.pct(l.cmdSpaces) || l.parens == 2 && l.r.Intn(3) == 0 {
			as = l.sp(1) + "as" + l.sp(1) + []string{"number", "string", "bool"}[l.r.Intn(3)]
		}
		l.emit(b, depth, "<<declare"+l.sp(1)+"$"+s.L[1].Text()+l.sp(1)+l.spell("=")+l.sp(1)+l.printExpr(s.L[2], 7)+as+l.sp(0)+">>", true)
	case "jump":
		e := s.L[1]
		if e.TagName() == "str" && isIdent(e.L[1].Text()) {
			l.emit(b, depth, "<<jump "+e.L[1].Text()+l.sp(0)+">>", true)
		} else {
			l.emit(b, depth, "<<jump {"+l.sp(0)+l.printExpr(e, 0)+l.sp(0)+"}>>", true)
		}
	case "if":
		cs := s.Args()
		for i, c := range cs {
			switch {
			case i == 0:
				l.emit(b, depth, "<<if"+l.sp(1)+l.printExpr(c.L[1], 0)+l.sp(0)+">>", true)
			case i == len(cs)-1 && c.L[1].TagName() == "bool" && c.L[1].L[1].Int() == 1:
				l.emit(b, depth, "<<else"+l.sp(0)+">>", true)
			default:
				l.emit(b, depth, "<<elseif"+l.sp(1)+l.printExpr(c.L[1], 0)+l.sp(0)+">>", true)
			}
			// bodies of clauses may be indented or not: indentation blocks flatten into the clause
			l.printStatements(b, c.L[2].L, depth)
		}
		l.emit(b, depth, "<<endif"+l.sp(0)+">>", true)
	case "call":
		args := []string{}
		for _, a := range s.L[2].L {
			args = append(args, l.printExpr(a, 0))
		}
		l.emit(b, depth, "<<call"+l.sp(1)+s.L[1].Text()+"("+strings.Join(args, ", ")+")"+l.sp(0)+">>", true)
	case "rawcmd":
		// the command exactly as written: text runs and inline expressions
		var cb strings.Builder
		for _, e := range s.Args() {
			if e.TagName() == "t" {
				cb.WriteString(e.L[1].Text())
			} else {
				cb.WriteString("{" + l.printExpr(e.L[1], 0) + "}")
			}
		}
		l.emit(b, depth, "<<"+cb.String()+">>", true)
	case "cmd":
		parts := []string{}
		for _, e := range s.Args() {
			if w, ok := wordable(e); ok {
				parts = append(parts, w)
			} else {
				parts = append(parts, "{"+l.printExpr(e, 0)+"}")
			}
		}
		sep := " "
		if l.pct(l.cmdSpaces) {
			sep = "   "
		}
		l.emit(b, depth, "<<"+strings.Join(parts, sep)+">>", true)
	}
}

func isIdent(s string) bool {
	if s == "" {
		return false
	}
	for i, c := range s {
		if !(c == '_' || c >= 'a' && c <= 'z' || c >= 'A' && c <= 'Z' || i > 0 && c >= '0' && c <= '9') {
			return false
		}
	}
	return true
}

// printNodes prints the given nodes as one reader text.
func (l *layout) printNodes(nodes []*sx.Node) string {
	var b strings.Builder
	for _, n := range nodes {
		for _, h := range n.L[1].L {
			b.WriteString(h.L[0].Text() + ": " + h.L[1].Text() + l.nl)
		}
		b.WriteString("---" + l.nl)
		l.printStatements(&b, n.L[2].L, 0)
		b.WriteString("===" + l.nl)
	}
	return b.String()
}
