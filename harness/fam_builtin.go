package main

import (
	"fmt"
	"math"
	"math/rand"
	"strconv"
	"strings"

	ysgo "github.com/remieven/ysgo"
	"github.com/remieven/ysgo/variable"

	"verifharness/sx"
)

// builtins (C19), float formatting and parsing (model validation for C04/C19).
func init() {
	register("builtins", family{gen: genBuiltin, run: runBuiltin})
	register("fmt", family{gen: genFmt, run: runFmt})
	register("parse", family{gen: genParse, run: runParse})
}

// interestingDouble draws from the classes the property names: random bit patterns, integers near
// powers of two, half-way cases, neighbours of integers, signed zeros, subnormals, specials.
func interestingDouble(r *rand.Rand, bounded bool) float64 {
	for {
		var f float64
		switch r.Intn(10) {
		case 0:
			f = math.Float64frombits(r.Uint64())
		case 1:
			k := r.Intn(54)
			f = math.Ldexp(1, k) + float64(r.Intn(5)-2)
		case 2:
			f = float64(r.Intn(2000)-1000) + 0.5
		case 3:
			n := float64(r.Intn(1 << 20))
			if r.Intn(2) == 0 {
				f = math.Nextafter(n, math.Inf(1))
			} else {
				f = math.Nextafter(n, math.Inf(-1))
			}
		case 4:
			f = []float64{0, math.Copysign(0, -1), 5e-324, -5e-324, 0.1, -0.1, 1, -1, 0.49999999999999994, 2.5, -2.5, 3.5}[r.Intn(12)]
		case 5:
			f = float64(r.Int63n(1<<52)) / float64(int64(1)<<uint(r.Intn(30)))
		case 6:
			f = (r.Float64() - 0.5) * math.Ldexp(1, r.Intn(60))
		case 7:
			f = float64(r.Intn(100000)) / 100
		case 8:
			f = []float64{math.Inf(1), math.Inf(-1), math.NaN(), math.MaxFloat64, -math.MaxFloat64, 9.223372036854775807e18, -9.223372036854775808e18, 1e30}[r.Intn(8)]
		default:
			f = float64(r.Int63()) * []float64{1, -1}[r.Intn(2)]
		}
		if r.Intn(2) == 0 {
			f = -f
		}
		if !bounded || (!math.IsNaN(f) && !math.IsInf(f, 0) && math.Abs(f) < math.Ldexp(1, 52)) {
			return f
		}
	}
}

func genBuiltin(r *rand.Rand, tier string) *sx.Node {
	num := func(bounded bool) *sx.Node { return sx.Tag("num", sx.Uint(canonBits(interestingDouble(r, bounded)))) }
	bounded := r.Intn(5) != 0
	switch x := r.Intn(20); {
	case x < 8:
		name := []string{"floor", "ceil", "round", "inc", "dec", "decimal", "integer"}[r.Intn(7)]
		return sx.Tag("builtin", sx.Str(name), sx.List(num(bounded)))
	case x < 11:
		places := float64(r.Intn(9))
		if r.Intn(8) == 0 {
			places = []float64{-1, 9, 22, 23, 40, 308, 309, -323, -400, 2.5, 1e30}[r.Intn(11)]
		}
		return sx.Tag("builtin", sx.Str("round_places"), sx.List(num(bounded), sx.Tag("num", sx.Uint(math.Float64bits(places)))))
	case x < 13:
		return sx.Tag("builtin", sx.Str("string"), sx.List(num(false)))
	case x < 15:
		f := interestingDouble(r, false)
		s := strconv.FormatFloat(f, 'g', -1, 64)
		if r.Intn(3) == 0 {
			s = fmt.Sprint(f)
		}
		return sx.Tag("builtin", sx.Str("number"), sx.List(sx.Tag("str", sx.Str(s))))
	case x < 16:
		s := []string{"", "abc", "1e5", "1e400", "-.5", "5.", "+3", "inf", "-Inf", "nan", "NaN", "Infinity", "1.5e-3", "12abc", " 1", "1 ", "--1", "1e", "e1", ".", "-", "0x", "1e+5", "1E5", "00012.5000", "4.9e-324", "2.47e-324", "1.7976931348623159e308"}[r.Intn(28)]
		return sx.Tag("builtin", sx.Str("number"), sx.List(sx.Tag("str", sx.Str(s))))
	case x < 17:
		s := []string{"true", "false", "True", "False", "TRUE", "FALSE", "t", "f", "T", "F", "1", "0", "yes", "no", "tRue", "", " true", "2"}[r.Intn(18)]
		return sx.Tag("builtin", sx.Str("bool"), sx.List(sx.Tag("str", sx.Str(s))))
	case x < 18:
		name := []string{"string", "number", "bool"}[r.Intn(3)]
		var v *sx.Node
		switch r.Intn(3) {
		case 0:
			v = num(false)
		case 1:
			v = sx.Tag("bool", sx.Bool(r.Intn(2) == 0))
		default:
			v = sx.Tag("str", sx.Str([]string{"x", "True", "12", ""}[r.Intn(4)]))
		}
		return sx.Tag("builtin", sx.Str(name), sx.List(v))
	case x < 19:
		// wrong arity / types
		name := []string{"floor", "round_places", "string", "number", "bool", "dice", "random", "ceil", "inc"}[r.Intn(9)]
		args := []*sx.Node{}
		for i := r.Intn(4); i > 0; i-- {
			switch r.Intn(3) {
			case 0:
				args = append(args, num(false))
			case 1:
				args = append(args, sx.Tag("bool", sx.Bool(true)))
			default:
				args = append(args, sx.Tag("str", sx.Str("s")))
			}
		}
		if name == "dice" || name == "random" {
			// keep the random ones out of domain or ill-typed only: there is no stream in this family
			args = []*sx.Node{sx.Tag("str", sx.Str("x"))}
		}
		return sx.Tag("builtin", sx.Str(name), sx.List(args...))
	default:
		return sx.Tag("builtin", sx.Str("dice"), sx.List(sx.Tag("num", sx.Uint(math.Float64bits([]float64{0, -3, 1e30, math.NaN(), math.Inf(1), 0.5, -0.0}[r.Intn(7)])))))
	}
}

// confusable: a value of another type with the same display form (true / "True", 5 / "5"), or the
// value a string spells.
func confusable(v *variable.Value) *variable.Value {
	switch {
	case v == nil:
		return nil
	case v.Number != nil, v.Boolean != nil:
		return variable.NewString(v.ToString())
	case v.String != nil:
		switch *v.String {
		case "True", "true":
			return variable.NewBoolean(true)
		case "False", "false":
			return variable.NewBoolean(false)
		}
		if f, err := strconv.ParseFloat(*v.String, 64); err == nil {
			return variable.NewNumber(f)
		}
		return variable.NewNumber(0)
	}
	return v
}

var builtinScript = "title: S\n---\nline\n===\n"

// runBuiltin calls the built-in on the function table of one runner: first with arguments of other
// types that look the same when displayed (a memo keyed by display form would be primed), then with
// the case's arguments, then with the case's arguments again (the answer must not change).
func runBuiltin(c *sx.Node) (out *sx.Node) {
	defer func() {
		if r := recover(); r != nil {
			out = sx.Tag("panic")
		}
	}()
	args, other := []*variable.Value{}, []*variable.Value{}
	for _, a := range c.L[2].L {
		args = append(args, decValue(a))
		other = append(other, confusable(decValue(a)))
	}
	name := c.L[1].Text()
	dr, derr := ysgo.NewDialogueRunner(nil, "seed", strings.NewReader(builtinScript))
	if derr != nil {
		return sx.Tag("HARNESS-PANIC", sx.Str("builtin script refused"))
	}
	func() {
		defer func() { recover() }()
		dr.VerifCallFunction(name, other)
	}()
	enc := func(v *variable.Value, err error) *sx.Node {
		switch {
		case err != nil:
			return sx.Tag("err")
		case v == nil:
			return sx.Tag("nil")
		}
		return sx.Tag("val", encValue(v))
	}
	first := enc(dr.VerifCallFunction(name, args))
	if second := enc(dr.VerifCallFunction(name, args)); second.String() != first.String() {
		return sx.Tag("unstable", first, second)
	}
	return first
}

func genFmt(r *rand.Rand, tier string) *sx.Node {
	return sx.Tag("fmt", sx.Uint(canonBits(interestingDouble(r, false))))
}

func runFmt(c *sx.Node) *sx.Node {
	f := math.Float64frombits(c.L[1].Z.Uint64())
	return sx.Tag("s", sx.Str(variable.NewNumber(f).ToString()), sx.Str(fmt.Sprint(f)))
}

func genParse(r *rand.Rand, tier string) *sx.Node {
	f := interestingDouble(r, false)
	var s string
	switch r.Intn(6) {
	case 0:
		s = strconv.FormatFloat(f, 'f', -1, 64)
	case 1:
		s = strconv.FormatFloat(f, 'e', r.Intn(20), 64)
	case 2:
		s = strconv.FormatFloat(f, 'f', r.Intn(25), 64)
	case 3:
		s = strconv.Itoa(r.Intn(1000)) + "." + strconv.Itoa(r.Intn(100000)) + "e" + strconv.Itoa(r.Intn(700)-350)
	case 4:
		// long digit strings around half-way points
		s = strconv.FormatFloat(f, 'e', 17, 64)
		if len(s) > 5 {
			s = s[:len(s)-4] + "5000000000000000000001" + s[len(s)-4:]
		}
	default:
		s = strconv.FormatFloat(f, 'g', -1, 64)
	}
	return sx.Tag("parse", sx.Str(s))
}

func runParse(c *sx.Node) *sx.Node {
	f, err := strconv.ParseFloat(c.L[1].Text(), 64)
	if err != nil {
		return sx.Tag("err")
	}
	return sx.Tag("num", sx.Uint(canonBits(f)))
}
