package main

import (
	"bufio"
	"fmt"
	"os"

	"verifharness/sx"
)

// printTexts: `verifharness text runner < cases` prints the script text of each case (debugging aid
// and the input of replays).
func printTexts() {
	sc := bufio.NewScanner(os.Stdin)
	sc.Buffer(make([]byte, 1<<20), 1<<28)
	for sc.Scan() {
		c, err := sx.Parse(sc.Text())
		if err != nil || len(c.L) < 11 {
			continue
		}
		for i, t := range caseTexts(c) {
			fmt.Printf("##### reader %d\n%s", i, t)
		}
		fmt.Println("##### end of case")
	}
}
