package main

// Executor of runner cases against the real ysgo.DialogueRunner: builds the script text from the
// AST, creates the runners with the probe host library, applies the operation sequence and records
// the projected observables in the encoding of coq/Yarn/RunnerWire.v.

import (
	"errors"
	"fmt"
	"io"
	"math"
	"sort"
	"strconv"
	"strings"
	"sync"
	"time"

	ysgo "github.com/remieven/ysgo"
	"github.com/remieven/ysgo/markup"
	"github.com/remieven/ysgo/variable"

	"verifharness/sx"
)

// recordingStorer is a host-side variable.Storer that logs every write it receives.
type recordingStorer struct {
	inner *variable.InMemoryStorer
	log   []*sx.Node
}

func newRecordingStorer() *recordingStorer {
	return &recordingStorer{inner: variable.NewInMemoryStorer()}
}

func (s *recordingStorer) GetValue(name string) (*variable.Value, bool) {
	return s.inner.GetValue(name)
}
func (s *recordingStorer) GetValues() map[string]variable.Value { return s.inner.GetValues() }
func (s *recordingStorer) Contains(name string) bool            { return s.inner.Contains(name) }
func (s *recordingStorer) SetNumberValue(name string, v float64) {
	s.log = append(s.log, sx.Tag("setn", sx.Str(name), sx.Uint(canonBits(v))))
	s.inner.SetNumberValue(name, v)
}
func (s *recordingStorer) SetBooleanValue(name string, v bool) {
	s.log = append(s.log, sx.Tag("setb", sx.Str(name), sx.Bool(v)))
	s.inner.SetBooleanValue(name, v)
}
func (s *recordingStorer) SetStringValue(name string, v string) {
	s.log = append(s.log, sx.Tag("sets", sx.Str(name), sx.Str(v)))
	s.inner.SetStringValue(name, v)
}
func (s *recordingStorer) Clear() {
	s.log = append(s.log, sx.Tag("clear"))
	s.inner.Clear()
}

// canonBits: one NaN.
func canonBits(f float64) uint64 {
	if math.IsNaN(f) {
		return 0x7FF8000000000001
	}
	return math.Float64bits(f)
}

func encValue(v *variable.Value) *sx.Node {
	switch {
	case v == nil:
		return sx.Tag("nil")
	case v.Number != nil:
		return sx.Tag("num", sx.Uint(canonBits(*v.Number)))
	case v.Boolean != nil:
		return sx.Tag("bool", sx.Bool(*v.Boolean))
	case v.String != nil:
		return sx.Tag("str", sx.Str(*v.String))
	}
	return sx.Tag("nil")
}

func decValue(n *sx.Node) *variable.Value {
	switch n.TagName() {
	case "num":
		return variable.NewNumber(math.Float64frombits(n.L[1].Z.Uint64()))
	case "bool":
		return variable.NewBoolean(n.L[1].Int() != 0)
	case "str":
		return variable.NewString(n.L[1].Text())
	}
	return nil
}

func encValues(m map[string]variable.Value) []*sx.Node {
	keys := make([]string, 0, len(m))
	for k := range m {
		keys = append(keys, k)
	}
	sort.Strings(keys)
	out := []*sx.Node{}
	for _, k := range keys {
		v := m[k]
		out = append(out, sx.List(sx.Str(k), encValue(&v)))
	}
	return out
}

func encCounts(m map[string]int) []*sx.Node {
	keys := make([]string, 0, len(m))
	for k := range m {
		keys = append(keys, k)
	}
	sort.Strings(keys)
	out := []*sx.Node{}
	for _, k := range keys {
		out = append(out, sx.List(sx.Str(k), sx.Int(int64(m[k]))))
	}
	return out
}

func encMarkupValue(v markup.Value) *sx.Node {
	switch v.ValueType {
	case markup.ValueTypeInteger:
		return sx.Tag("i", sx.Int(int64(v.IntegerValue)))
	case markup.ValueTypeFloat:
		return sx.Tag("f", sx.Uint(canonBits(v.FloatValue)))
	case markup.ValueTypeString:
		return sx.Tag("s", sx.Str(v.StringValue))
	case markup.ValueTypeBool:
		return sx.Tag("b", sx.Bool(v.BoolValue))
	}
	return sx.Tag("?")
}

func encAttributes(attrs []markup.Attribute) *sx.Node {
	out := []*sx.Node{}
	for _, a := range attrs {
		keys := make([]string, 0, len(a.Properties))
		for k := range a.Properties {
			keys = append(keys, k)
		}
		sort.Strings(keys)
		props := []*sx.Node{}
		for _, k := range keys {
			props = append(props, sx.List(sx.Str(k), encMarkupValue(a.Properties[k])))
		}
		out = append(out, sx.List(sx.Str(a.Name), sx.Int(int64(a.Position)), sx.Int(int64(a.Length)),
			sx.Int(int64(a.SourcePosition)), sx.List(props...)))
	}
	return sx.List(out...)
}

func encLineParts(l *ysgo.Line) []*sx.Node {
	tags := []*sx.Node{}
	for _, t := range l.Tags {
		tags = append(tags, sx.Str(t))
	}
	return []*sx.Node{sx.Str(l.Text), sx.List(tags...), encAttributes(l.Attributes)}
}

type pendingCommand struct {
	ch        chan error    // a handler that handed out its own channel: the harness fills it
	release   chan struct{} // a converted handler blocked on a goroutine of the bridge: closing lets it return
	remaining int
	result    error
	closing   bool // completion is reported by closing ch
}

// hostRunner is one DialogueRunner with its host side.
type hostRunner struct {
	dr       *ysgo.DialogueRunner
	storer   *recordingStorer
	log      []*sx.Node
	sched    []*sx.Node
	pending  *pendingCommand
	waitSeen bool
	conv     bool          // some commands are registered through ConvertAndAddCommand (names act1, act2, act3)
	started  chan struct{} // one token per invocation of a converted handler
	mu       sync.Mutex    // converted handlers run on goroutines of the bridge
	nsched   int           // entries of the schedule consumed so far
	voidFail []int         // schedule entries asking a handler without a result (act1) to fail: it cannot
	errTexts []string      // the message of every error Next returned (compared between executions by the random family)
}

var errScheduled = errors.New("scheduled failure")

func (h *hostRunner) getPending() *pendingCommand {
	h.mu.Lock()
	defer h.mu.Unlock()
	return h.pending
}

// convInvoke is the body of a converted command handler: log the call, take the next entry of the
// schedule, and either return at once or stay blocked until the schedule releases it.
func (h *hostRunner) convInvoke(name string, n float64, ownChannel bool) (error, chan error) {
	h.mu.Lock()
	h.logCall("cmd", name, []*variable.Value{variable.NewNumber(n)})
	polls, failing := 0, false
	if len(h.sched) > 0 {
		polls, failing = int(h.sched[0].L[0].Int()), h.sched[0].L[1].Int() != 0
		h.sched = h.sched[1:]
		if failing && name == "act1" {
			h.voidFail = append(h.voidFail, h.nsched)
		}
		h.nsched++
	}
	var result error
	if failing {
		result = errScheduled
	}
	if ownChannel {
		ch := make(chan error, 1)
		if polls == 0 {
			ch <- result
		} else {
			h.pending = &pendingCommand{ch: ch, remaining: polls - 1, result: result}
		}
		h.mu.Unlock()
		h.started <- struct{}{}
		return nil, ch
	}
	if polls == 0 {
		h.mu.Unlock()
		h.started <- struct{}{}
		return result, nil
	}
	rel := make(chan struct{})
	h.pending = &pendingCommand{release: rel, remaining: polls - 1, result: result}
	h.mu.Unlock()
	h.started <- struct{}{}
	<-rel
	return result, nil
}

func (h *hostRunner) logCall(kind, name string, args []*variable.Value) {
	items := []*sx.Node{sx.Str(name)}
	for _, a := range args {
		items = append(items, encValue(a))
	}
	h.log = append(h.log, sx.Tag(kind, items...))
}

func newHostRunner(storerMode bool, init []*sx.Node, seed string, hcmds []string, sched []*sx.Node, texts []string) (*hostRunner, error) {
	h := &hostRunner{sched: sched}
	var storer variable.Storer
	if storerMode {
		h.storer = newRecordingStorer()
		for _, kv := range init {
			v := decValue(kv.L[1])
			switch {
			case v.Number != nil:
				h.storer.inner.SetNumberValue(kv.L[0].Text(), *v.Number)
			case v.Boolean != nil:
				h.storer.inner.SetBooleanValue(kv.L[0].Text(), *v.Boolean)
			case v.String != nil:
				h.storer.inner.SetStringValue(kv.L[0].Text(), *v.String)
			}
		}
		storer = h.storer
	}
	readers := make([]io.Reader, len(texts))
	for i, t := range texts {
		readers[i] = strings.NewReader(t)
	}
	dr, err := ysgo.NewDialogueRunner(storer, seed, readers...)
	if err != nil {
		return nil, err
	}
	h.dr = dr
	dr.AddFunction("p", func(args []*variable.Value) (*variable.Value, error) {
		h.logCall("call", "p", args)
		if len(args) == 0 {
			return nil, errors.New("p needs an argument")
		}
		return args[len(args)-1], nil
	})
	dr.AddFunction("noret", func(args []*variable.Value) (*variable.Value, error) {
		h.logCall("call", "noret", args)
		return nil, nil
	})
	dr.AddFunction("fail", func(args []*variable.Value) (*variable.Value, error) {
		h.logCall("call", "fail", args)
		return nil, errors.New("probe failure")
	})
	h.started = make(chan struct{}, 64)
	for _, name := range hcmds {
		name := name
		if strings.HasPrefix(name, "act") {
			h.conv = true
			var err error
			switch name {
			case "act1":
				err = dr.ConvertAndAddCommand(name, func(n float64) { h.convInvoke(name, n, false) })
			case "act2":
				err = dr.ConvertAndAddCommand(name, func(n float64) error { e, _ := h.convInvoke(name, n, false); return e })
			default:
				err = dr.ConvertAndAddCommand(name, func(n float64) <-chan error { _, ch := h.convInvoke(name, n, true); return ch })
			}
			if err != nil {
				return nil, err
			}
			continue
		}
		dr.AddCommand(name, func(args []*variable.Value) <-chan error {
			h.logCall("cmd", name, args)
			polls, failing := 0, false
			if len(h.sched) > 0 {
				polls, failing = int(h.sched[0].L[0].Int()), h.sched[0].L[1].Int() != 0
				h.sched = h.sched[1:]
				h.nsched++
			}
			var result error
			if failing {
				result = errScheduled
			}
			// every other successful completion is reported by closing the channel (a receive from a
			// closed channel yields a nil error), the others by a value in the buffer
			closing := !failing && h.nsched%2 == 1
			ch := make(chan error, 1)
			if closing {
				ch = make(chan error)
			}
			if polls == 0 {
				if closing {
					close(ch)
				} else {
					ch <- result
				}
			} else {
				h.mu.Lock()
				h.pending = &pendingCommand{ch: ch, remaining: polls - 1, result: result, closing: closing}
				h.mu.Unlock()
			}
			return ch
		})
	}
	return h, nil
}

// next performs one Next call, first letting the pending host command make progress.
func (h *hostRunner) next(choice int) (out *sx.Node) {
	waitDue := false
	h.mu.Lock()
	if h.pending != nil {
		if h.pending.remaining == 0 {
			if h.pending.release != nil {
				close(h.pending.release)
			} else if h.pending.closing {
				close(h.pending.ch)
			} else {
				h.pending.ch <- h.pending.result
			}
			h.pending = nil
		} else {
			h.pending.remaining--
		}
		h.mu.Unlock()
	} else if h.mu.Unlock(); h.waitSeen {
		// a <<wait n>> is running (the generators use n <= 0.05): let it finish
		time.Sleep(120 * time.Millisecond)
		h.waitSeen = false
		waitDue = true
	}
	defer func() {
		if r := recover(); r != nil {
			out = sx.Tag("panic")
		}
	}()
	el, err := h.dr.Next(choice)
	if waitDue {
		// on a loaded machine the timer goroutine of the built-in can be late: keep asking for a little while.
		// The window (25 ms) is shorter than the shortest wait the generators write (30 ms), so a wait that the
		// runner has only just started is still reported as "waiting".
		deadline := time.Now().Add(25 * time.Millisecond)
		for errors.Is(err, ysgo.ErrWaitingForCommandCompletion) && h.getPending() == nil && time.Now().Before(deadline) {
			time.Sleep(time.Millisecond)
			el, err = h.dr.Next(choice)
		}
	}
	if h.conv {
		// Converted handlers complete on goroutines of the bridge: "the command is due at this call"
		// means the runner gets past it as soon as that goroutine has reported. Keep polling while
		// the runner waits for a command that the schedule does not hold.
		deadline := time.Now().Add(2 * time.Second)
		for errors.Is(err, ysgo.ErrWaitingForCommandCompletion) {
			select {
			case <-h.started:
			default:
			}
			if h.getPending() != nil {
				break // held by the schedule: a genuine wait
			}
			select {
			case <-h.started:
				if h.getPending() != nil {
					continue
				}
			case <-time.After(300 * time.Microsecond):
			}
			if h.getPending() != nil {
				continue
			}
			if time.Now().After(deadline) {
				return sx.Tag("hang")
			}
			el, err = h.dr.Next(choice)
		}
	}
	switch {
	case errors.Is(err, ysgo.ErrWaitingForCommandCompletion):
		if h.getPending() == nil {
			h.waitSeen = true
		}
		return sx.Tag("wait")
	case err != nil:
		h.errTexts = append(h.errTexts, err.Error())
		return sx.Tag("err")
	case el == nil:
		return sx.Tag("end")
	case el.Line != nil:
		return sx.Tag("line", append([]*sx.Node{sx.Str(el.Node)}, encLineParts(el.Line)...)...)
	default:
		opts := []*sx.Node{}
		for _, o := range el.Options {
			opts = append(opts, sx.List(append([]*sx.Node{sx.Bool(o.Disabled)}, encLineParts(o.Line)...)...))
		}
		return sx.Tag("opts", sx.Str(el.Node), sx.List(opts...))
	}
}

func splitReaders(nodes []*sx.Node, readers *sx.Node) [][]*sx.Node {
	out := [][]*sx.Node{}
	i := 0
	if readers != nil {
		for _, c := range readers.Args() {
			n := int(c.Int())
			if i+n > len(nodes) {
				n = len(nodes) - i
			}
			out = append(out, nodes[i:i+n])
			i += n
		}
	}
	if i < len(nodes) || len(out) == 0 {
		out = append(out, nodes[i:])
	}
	return out
}

func caseTexts(c *sx.Node) []string {
	nodes := c.L[7].L[1].L
	lay := layoutFromSx(c.L[9])
	texts := []string{}
	for _, group := range splitReaders(nodes, c.L[8]) {
		texts = append(texts, lay.printNodes(group))
	}
	// how a reader ends is layout too (derived from the layout seed): with its line end, without it,
	// with trailing blanks, with a trailing comment and no line end
	if len(c.L[9].L) >= 9 {
		style := c.L[9].L[8].Int() % 8
		for i, t := range texts {
			bare := strings.TrimSuffix(t, lay.nl)
			switch style {
			case 1:
				texts[i] = bare
			case 2:
				texts[i] = bare + "   "
			case 3:
				texts[i] = bare + " // end of this file"
			case 4:
				texts[i] = bare + " // vim: ft=yarn" + lay.nl + lay.nl
			}
		}
	}
	return texts
}

// runRunnerCase executes a (runner ...) case.
func runRunnerCase(c *sx.Node) *sx.Node {
	n, _ := runRunnerCaseErrs(c)
	return n
}

// runRunnerCaseErrs also returns the messages of the errors Next returned, runner by runner.
func runRunnerCaseErrs(c *sx.Node) (res *sx.Node, errTexts []string) {
	var runners []*hostRunner
	defer func() {
		for i, h := range runners {
			for _, t := range h.errTexts {
				errTexts = append(errTexts, strconv.Itoa(i)+": "+t)
			}
		}
	}()
	return runRunnerCaseOn(c, &runners), nil
}

func runRunnerCaseOn(c *sx.Node, out *[]*hostRunner) *sx.Node {
	seed := c.L[1].L[1].Text()
	storerMode := c.L[2].L[1].Int() != 0
	init := c.L[3].Args()
	hcmds := []string{}
	for _, n := range c.L[4].Args() {
		hcmds = append(hcmds, n.Text())
	}
	sched := c.L[5].Args()
	nr := int(c.L[6].L[1].Int())
	texts := caseTexts(c)

	// the implementation's own parse of the printed text must give back the AST of the case
	readers := make([]io.Reader, len(texts))
	for i, t := range texts {
		readers[i] = strings.NewReader(t)
	}
	dump, derr := ysgo.VerifDumpDialogue(readers...)
	want := c.L[7].L[1].String()
	astNote := []*sx.Node{}
	if derr == nil && dump != want && !strings.Contains(want, `("rawcmd"`) {
		astNote = append(astNote, sx.Tag("ast-mismatch", sx.Str(dump)))
	}

	runners := []*hostRunner{}
	for i := 0; i < nr; i++ {
		h, err := newHostRunner(storerMode, init, seed, hcmds, append([]*sx.Node{}, sched...), texts)
		if err != nil {
			return sx.Tag("res", append([]*sx.Node{sx.Tag("load", sx.Str("err"))}, astNote...)...)
		}
		runners = append(runners, h)
	}
	*out = runners
	st := &execState{runners: runners, snaps: map[int]*ysgo.Snapshot{}}
	obs := []*sx.Node{}
	for _, op := range c.L[10].Args() {
		obs = append(obs, st.apply(op))
	}
	for _, h := range runners {
		if len(h.voidFail) > 0 {
			// the schedule asks a handler of type func(float64) to fail: not a well-formed case
			return sx.Tag("BADCASE", sx.Str("a schedule entry consumed by act1 is a failure"))
		}
	}
	finals := []*sx.Node{}
	for _, h := range runners {
		slog := []*sx.Node{}
		if h.storer != nil {
			slog = h.storer.log
		}
		finals = append(finals, sx.Tag("runner", sx.List(h.log...), sx.List(slog...)))
	}
	return sx.Tag("res", append([]*sx.Node{sx.Tag("load", sx.Str("ok")), sx.List(obs...), sx.List(finals...)}, astNote...)...)
}

// execState: the runners and snapshot objects of one case; apply performs one operation and returns
// what it observed. The executor and the adaptive generator share it.
type execState struct {
	runners []*hostRunner
	snaps   map[int]*ysgo.Snapshot
}

func (st *execState) apply(op *sx.Node) *sx.Node {
	switch op.TagName() {
	case "next":
		return (st.runners[op.L[1].Int()].next(int(op.L[2].Int())))
	case "hset":
		h := st.runners[op.L[1].Int()]
		v := decValue(op.L[3])
		if h.storer != nil {
			switch {
			case v.Number != nil:
				h.storer.SetNumberValue(op.L[2].Text(), *v.Number)
			case v.Boolean != nil:
				h.storer.SetBooleanValue(op.L[2].Text(), *v.Boolean)
			case v.String != nil:
				h.storer.SetStringValue(op.L[2].Text(), *v.String)
			}
		}
		return (sx.Tag("n"))
	case "snap":
		st.snaps[int(op.L[2].Int())] = st.runners[op.L[1].Int()].dr.Snapshot()
		return (sx.Tag("n"))
	case "readsnap":
		s, ok := st.snaps[int(op.L[1].Int())]
		if !ok {
			return (sx.Tag("nosnap"))
		}
		return (sx.Tag("snap", sx.Str(s.CurrentNode), sx.List(encValues(s.Variables)...), sx.List(encCounts(s.VisitedNodes)...)))
	case "restore":
		h := st.runners[op.L[1].Int()]
		s, ok := st.snaps[int(op.L[2].Int())]
		if !ok {
			return (sx.Tag("nosnap"))
		}
		var mark int
		if h.storer != nil {
			mark = len(h.storer.log)
		}
		err := func() (err error) {
			defer func() {
				if r := recover(); r != nil {
					err = fmt.Errorf("panic: %v", r)
				}
			}()
			return h.dr.RestoreAt(s)
		}()
		if h.storer != nil {
			// the order in which RestoreAt replays the variables is Go's map order: canonicalise
			block := h.storer.log[mark:]
			if len(block) > 1 && block[0].TagName() == "clear" {
				rest := block[1:]
				sort.SliceStable(rest, func(i, j int) bool { return rest[i].L[1].Text() < rest[j].L[1].Text() })
			}
		}
		// a restore abandons whatever command was pending
		if err == nil {
			h.mu.Lock()
			if h.pending != nil && h.pending.release != nil {
				close(h.pending.release) // let the abandoned handler return
			}
			h.pending = nil
			h.mu.Unlock()
			h.waitSeen = false
			return (sx.Tag("ok"))
		} else if strings.HasPrefix(err.Error(), "panic:") {
			return (sx.Tag("panic"))
		} else {
			return (sx.Tag("err"))
		}
	case "mksnap":
		// a snapshot written by hand: a map the host has nothing to put in stays nil
		s := &ysgo.Snapshot{CurrentNode: op.L[2].Text()}
		for _, kv := range op.L[3].L {
			if s.Variables == nil {
				s.Variables = map[string]variable.Value{}
			}
			s.Variables[kv.L[0].Text()] = *decValue(kv.L[1])
		}
		for _, kv := range op.L[4].L {
			if s.VisitedNodes == nil {
				s.VisitedNodes = map[string]int{}
			}
			s.VisitedNodes[kv.L[0].Text()] = int(kv.L[1].Int())
		}
		st.snaps[int(op.L[1].Int())] = s
		return (sx.Tag("n"))
	case "vals":
		h := st.runners[op.L[1].Int()]
		if h.storer != nil {
			return (sx.Tag("vals", encValues(h.storer.GetValues())...))
		} else {
			return (sx.Tag("vals"))
		}
	default:
		return (sx.Tag("BADCASE", sx.Str("unknown op")))
	}
}
