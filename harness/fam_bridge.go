package main

import (
	"errors"
	"math"
	"math/rand"
	"reflect"
	"sort"
	"strings"
	"sync"
	"time"

	ysgo "github.com/remieven/ysgo"
	"github.com/remieven/ysgo/variable"

	"verifharness/sx"
)

// bridge family (C16): Go functions of generated signatures, built with reflect.FuncOf /
// reflect.MakeFunc, are registered through ConvertAndAddFunction / ConvertAndAddCommand and called
// with argument lists of length 0-4 over {number, boolean, string}.

func init() {
	register("bridge", family{gen: genBridge, run: runBridge})
}

type MyInt int
type MyInt8 int8
type MyInt16 int16
type MyInt32 int32
type MyInt64 int64
type MyFloat32 float32
type MyFloat64 float64
type MyBool bool
type MyString string
type MyIntB int
type MyInt64B int64
type MyFloat64B float64
type MyBoolB bool
type MyStringB string
type MyErr struct{}
type MyStruct struct{ A int }
type MyChan chan error

func (MyErr) Error() string { return "my error" }

// defined types of a value kind that also implement error: as the single result of a function they are
// values, as the single result of a command they are errors
type MyErrInt int
type MyErrString string
type MyErrFloat64 float64
type MyErrBool bool

func (MyErrInt) Error() string     { return "code" }
func (MyErrString) Error() string  { return "text" }
func (MyErrFloat64) Error() string { return "level" }
func (MyErrBool) Error() string    { return "flag" }

var errorType = reflect.TypeOf((*error)(nil)).Elem()

var typeCatalogue = map[string]reflect.Type{
	"int": reflect.TypeOf(int(0)), "int8": reflect.TypeOf(int8(0)), "int16": reflect.TypeOf(int16(0)),
	"int32": reflect.TypeOf(int32(0)), "int64": reflect.TypeOf(int64(0)), "uint": reflect.TypeOf(uint(0)),
	"float32": reflect.TypeOf(float32(0)), "float64": reflect.TypeOf(float64(0)), "bool": reflect.TypeOf(false),
	"string": reflect.TypeOf(""), "error": errorType, "any": reflect.TypeOf((*any)(nil)).Elem(),
	"MyInt": reflect.TypeOf(MyInt(0)), "MyInt8": reflect.TypeOf(MyInt8(0)), "MyInt16": reflect.TypeOf(MyInt16(0)),
	"MyInt32": reflect.TypeOf(MyInt32(0)), "MyInt64": reflect.TypeOf(MyInt64(0)), "MyFloat32": reflect.TypeOf(MyFloat32(0)),
	"MyFloat64": reflect.TypeOf(MyFloat64(0)), "MyBool": reflect.TypeOf(MyBool(false)), "MyString": reflect.TypeOf(MyString("")),
	"MyIntB": reflect.TypeOf(MyIntB(0)), "MyInt64B": reflect.TypeOf(MyInt64B(0)), "MyFloat64B": reflect.TypeOf(MyFloat64B(0)),
	"MyBoolB": reflect.TypeOf(MyBoolB(false)), "MyStringB": reflect.TypeOf(MyStringB("")),
	"MyErrInt": reflect.TypeOf(MyErrInt(0)), "MyErrString": reflect.TypeOf(MyErrString("")),
	"MyErrFloat64": reflect.TypeOf(MyErrFloat64(0)), "MyErrBool": reflect.TypeOf(MyErrBool(false)),
	"MyErr": reflect.TypeOf(MyErr{}), "MyStruct": reflect.TypeOf(MyStruct{}), "[]int": reflect.TypeOf([]int{}),
	"*int": reflect.TypeOf((*int)(nil)), "chan error": reflect.TypeOf((chan error)(nil)),
	"<-chan error": reflect.TypeOf((<-chan error)(nil)), "chan<- error": reflect.TypeOf((chan<- error)(nil)),
	"MyChan": reflect.TypeOf(MyChan(nil)), "chan int": reflect.TypeOf((chan int)(nil)), "chan MyErr": reflect.TypeOf((chan MyErr)(nil)),
}

var paramTypeIDs = []string{"int", "int8", "int16", "int32", "int64", "float32", "float64", "bool", "string",
	"MyInt", "MyInt8", "MyInt16", "MyInt32", "MyInt64", "MyFloat32", "MyFloat64", "MyBool", "MyString",
	"MyIntB", "MyInt64B", "MyFloat64B", "MyBoolB", "MyStringB",
	"uint", "MyStruct", "[]int", "*int", "any", "error"}
var resultTypeIDs = []string{"int", "int64", "float32", "float64", "bool", "string", "MyInt", "MyFloat64", "MyBool", "MyStringB",
	"error", "MyErr", "MyErrInt", "MyErrString", "MyErrFloat64", "MyErrBool", "MyStruct", "uint", "[]int", "chan error", "<-chan error", "chan<- error", "MyChan", "chan int", "chan MyErr"}

func ids(r *rand.Rand, from []string, n int, good int) []*sx.Node {
	out := []*sx.Node{}
	for i := 0; i < n; i++ {
		if r.Intn(100) < good {
			out = append(out, sx.Str(from[r.Intn(23)%len(from)])) // the bridgeable head of the list
		} else {
			out = append(out, sx.Str(from[r.Intn(len(from))]))
		}
	}
	return out
}

func genBridge(r *rand.Rand, tier string) *sx.Node {
	which := []string{"fn", "cmd"}[r.Intn(2)]
	var reg *sx.Node
	switch x := r.Intn(30); {
	case x == 0:
		reg = sx.Tag("nil")
	case x == 1:
		reg = sx.Tag("nonfunc")
	default:
		params := ids(r, paramTypeIDs, r.Intn(4), 92)
		variadic := []*sx.Node{}
		if r.Intn(3) == 0 {
			variadic = ids(r, paramTypeIDs, 1, 90)
		}
		var results []*sx.Node
		if which == "fn" {
			switch r.Intn(8) {
			case 0:
				results = []*sx.Node{}
			case 1, 2, 3:
				results = ids(r, resultTypeIDs[:10], 1, 100)
			case 4:
				results = []*sx.Node{sx.Str([]string{"error", "MyErr", "MyErrInt", "MyErrString", "MyErrFloat64", "MyErrBool"}[r.Intn(6)])}
			case 5:
				results = []*sx.Node{ids(r, resultTypeIDs[:10], 1, 100)[0], sx.Str([]string{"error", "MyErr"}[r.Intn(2)])}
			default:
				results = ids(r, resultTypeIDs, r.Intn(4), 0)
			}
		} else {
			switch r.Intn(6) {
			case 0:
				results = []*sx.Node{}
			case 1:
				results = []*sx.Node{sx.Str([]string{"error", "MyErr", "MyErrInt", "MyErrString"}[r.Intn(4)])}
			case 2, 3:
				results = []*sx.Node{sx.Str([]string{"chan error", "<-chan error", "chan<- error", "MyChan", "chan MyErr", "chan int"}[r.Intn(6)])}
			default:
				results = ids(r, resultTypeIDs, r.Intn(3), 0)
			}
		}
		sig := sx.List(sx.List(params...), sx.List(variadic...), sx.List(results...))
		if x == 2 {
			reg = sx.Tag("nilfunc", sig)
		} else {
			reg = sx.Tag("func", sig)
		}
	}
	calls := []*sx.Node{}
	nc := 2 + r.Intn(5)
	for i := 0; i < nc; i++ {
		// mostly argument lists that fit the signature, sometimes anything
		args := []*sx.Node{}
		fit := reg.TagName() == "func" && r.Intn(4) != 0
		if fit {
			sig := reg.L[1]
			for _, p := range sig.L[0].L {
				args = append(args, argFor(r, p.Text()))
			}
			if len(sig.L[1].L) > 0 {
				for k := r.Intn(3); k > 0; k-- {
					args = append(args, argFor(r, sig.L[1].L[0].Text()))
				}
			}
			if r.Intn(6) == 0 && len(args) > 0 {
				args = args[:len(args)-1]
			}
			if r.Intn(8) == 0 {
				args = append(args, argFor(r, "string"))
			}
		} else {
			for k := r.Intn(5); k > 0; k-- {
				args = append(args, argFor(r, []string{"int", "bool", "string"}[r.Intn(3)]))
			}
		}
		calls = append(calls, sx.List(args...))
	}
	return sx.Tag("bridge", sx.Str(which), reg, sx.Bool(r.Intn(3) != 0), sx.Bool(r.Intn(4) == 0), sx.List(calls...))
}

func argFor(r *rand.Rand, typeID string) *sx.Node {
	k := strings.TrimPrefix(typeID, "My")
	k = strings.ToLower(k)
	if strings.HasSuffix(typeID, "B") {
		k = strings.TrimSuffix(k, "b")
	}
	switch {
	case strings.HasPrefix(k, "int8"):
		return numLit(float64(r.Intn(250)-125) + []float64{0, 0.5}[r.Intn(2)])
	case strings.HasPrefix(k, "int16"):
		return numLit(float64(r.Intn(60000) - 30000))
	case strings.HasPrefix(k, "int32"):
		return numLit(float64(r.Intn(1<<31) - 1<<30))
	case strings.HasPrefix(k, "int"):
		return sx.Tag("num", sx.Uint(canonBits([]float64{0, 3, -7, 2.75, -2.75, 1e15, 1e30, -1e30, math.NaN(), math.Inf(1), 9.223372036854775e18}[r.Intn(11)])))
	case strings.HasPrefix(k, "float"):
		return sx.Tag("num", sx.Uint(canonBits([]float64{0, 0.1, -2.5, 1e10, 1e-50, 3.4e38, 1e39, 16777217, math.Inf(-1)}[r.Intn(9)])))
	case k == "bool":
		return boolLit(r.Intn(2) == 0)
	case k == "string":
		return strLit([]string{"", "x", "héllo"}[r.Intn(3)])
	}
	return []*sx.Node{numLit(1), boolLit(true), strLit("s")}[r.Intn(3)]
}

var bridgeRunnerOnce sync.Once
var bridgeScript = "title: a\n---\nx\n===\n"

func kindName(t reflect.Type) string {
	return t.Kind().String()
}

func encGoValue(v reflect.Value) *sx.Node {
	named := sx.Bool(strings.HasPrefix(v.Type().Name(), "My"))
	switch {
	case v.CanInt():
		return sx.List(sx.Str(kindName(v.Type())), named, sx.Int(v.Int()))
	case v.CanFloat():
		return sx.List(sx.Str(kindName(v.Type())), named, sx.Uint(canonBits(v.Float())))
	case v.Kind() == reflect.Bool:
		return sx.List(sx.Str("bool"), named, sx.Bool(v.Bool()))
	case v.Kind() == reflect.String:
		return sx.List(sx.Str("string"), named, sx.Str(v.String()))
	}
	return sx.List(sx.Str(kindName(v.Type())), named, sx.Str("?"))
}

func cannedResult(t reflect.Type, errNil, chanNil bool) reflect.Value {
	v := reflect.New(t).Elem()
	switch {
	case v.CanInt():
		v.SetInt(7)
	case v.CanFloat():
		v.SetFloat(2.5)
	case v.Kind() == reflect.Bool:
		v.SetBool(true)
	case v.Kind() == reflect.String:
		v.SetString("r")
	case t == errorType:
		if !errNil {
			v.Set(reflect.ValueOf(errors.New("probe error")))
		}
	case t.Kind() == reflect.Chan && !chanNil && t.ChanDir() != reflect.RecvDir && t.Elem() == errorType:
		ch := reflect.MakeChan(reflect.ChanOf(reflect.BothDir, t.Elem()), 1)
		if errNil {
			ch.Send(reflect.Zero(errorType))
		} else {
			ch.Send(reflect.ValueOf(errors.New("probe error")).Convert(errorType))
		}
		v.Set(ch.Convert(t))
	case t.Kind() == reflect.Chan && !chanNil && t.ChanDir() == reflect.RecvDir && t.Elem() == errorType:
		ch := make(chan error, 1)
		if errNil {
			ch <- nil
		} else {
			ch <- errors.New("probe error")
		}
		v.Set(reflect.ValueOf((<-chan error)(ch)))
	case t.Kind() == reflect.Chan && !chanNil:
		v.Set(reflect.MakeChan(reflect.ChanOf(reflect.BothDir, t.Elem()), 1).Convert(t))
	}
	return v
}

func runBridge(c *sx.Node) (out *sx.Node) {
	which := c.L[1].Text()
	reg := c.L[2]
	errNil := c.L[3].Int() != 0
	chanNil := c.L[4].Int() != 0
	dr, err := ysgo.NewDialogueRunner(nil, "seed", strings.NewReader(bridgeScript))
	if err != nil {
		return sx.Tag("HARNESS-PANIC", sx.Str(err.Error()))
	}
	var got []*sx.Node
	var allGot []string // what every invocation of the probe received, in order of arrival
	var mu sync.Mutex
	var fn any
	switch reg.TagName() {
	case "nil":
		fn = nil
	case "nonfunc":
		fn = 42
	default:
		sig := reg.L[1]
		in := []reflect.Type{}
		for _, p := range sig.L[0].L {
			in = append(in, typeCatalogue[p.Text()])
		}
		variadic := len(sig.L[1].L) > 0
		if variadic {
			in = append(in, reflect.SliceOf(typeCatalogue[sig.L[1].L[0].Text()]))
		}
		outT := []reflect.Type{}
		for _, p := range sig.L[2].L {
			outT = append(outT, typeCatalogue[p.Text()])
		}
		ft := reflect.FuncOf(in, outT, variadic)
		if reg.TagName() == "nilfunc" {
			fn = reflect.Zero(ft).Interface()
		} else {
			fn = reflect.MakeFunc(ft, func(args []reflect.Value) []reflect.Value {
				mu.Lock()
				defer func() { allGot = append(allGot, sx.List(got...).String()); mu.Unlock() }()
				got = []*sx.Node{}
				for i, a := range args {
					if variadic && i == len(args)-1 {
						for j := 0; j < a.Len(); j++ {
							got = append(got, encGoValue(a.Index(j)))
						}
					} else {
						got = append(got, encGoValue(a))
					}
				}
				res := []reflect.Value{}
				for _, t := range outT {
					res = append(res, cannedResult(t, errNil, chanNil))
				}
				return res
			}).Interface()
		}
	}
	regErr, regPanic := func() (err error, p bool) {
		defer func() {
			if r := recover(); r != nil {
				p = true
			}
		}()
		if which == "fn" {
			return dr.ConvertAndAddFunction("f", fn), false
		}
		return dr.ConvertAndAddCommand("f", fn), false
	}()
	if regPanic {
		return sx.Tag("reg", sx.Str("panic"))
	}
	if regErr != nil {
		return sx.Tag("reg", sx.Str("err"))
	}
	results := []*sx.Node{}
	for _, call := range c.L[5].L {
		args := []*variable.Value{}
		for _, a := range call.L {
			args = append(args, decValue(a))
		}
		mu.Lock()
		got = nil
		mu.Unlock()
		res := func() (res *sx.Node) {
			defer func() {
				if r := recover(); r != nil {
					res = sx.Tag("panic")
				}
			}()
			if which == "fn" {
				v, err := dr.VerifCallFunction("f", args)
				switch {
				case err != nil:
					return sx.Tag("err")
				case v == nil:
					return sx.Tag("nil")
				}
				return sx.Tag("val", encValue(v))
			}
			ch := dr.VerifCallCommand("f", args)
			select {
			case err := <-ch:
				if err != nil {
					return sx.Tag("err")
				}
				return sx.Tag("done")
			case <-time.After(2 * time.Second):
				return sx.Tag("hang")
			}
		}()
		mu.Lock()
		g := got
		mu.Unlock()
		if res.TagName() == "panic" || g == nil {
			results = append(results, sx.List(res))
		} else {
			results = append(results, sx.List(res, sx.Tag("got", g...)))
		}
	}
	// Overlapping invocations of one converted command (its handler runs on a goroutine of the
	// bridge): two calls issued back to back must deliver to the handler exactly what the same two
	// calls delivered one after the other.
	if which == "cmd" && reg.TagName() == "func" {
		seq := []string{}
		for _, r := range results {
			g := ""
			if len(r.L) == 2 {
				g = sx.List(r.L[1].L[1:]...).String()
			}
			if len(r.L) >= 1 && r.L[0].TagName() == "panic" {
				g = "PANIC"
			}
			seq = append(seq, g)
		}
		for i := 0; i+1 < len(seq); i++ {
			if seq[i] == "PANIC" || seq[i+1] == "PANIC" || seq[i] == seq[i+1] {
				continue
			}
			mu.Lock()
			allGot = nil
			mu.Unlock()
			a1, a2 := []*variable.Value{}, []*variable.Value{}
			for _, a := range c.L[5].L[i].L {
				a1 = append(a1, decValue(a))
			}
			for _, a := range c.L[5].L[i+1].L {
				a2 = append(a2, decValue(a))
			}
			ch1 := dr.VerifCallCommand("f", a1)
			ch2 := dr.VerifCallCommand("f", a2)
			for _, ch := range []<-chan error{ch1, ch2} {
				select {
				case <-ch:
				case <-time.After(2 * time.Second):
				}
			}
			time.Sleep(200 * time.Microsecond)
			mu.Lock()
			seen := append([]string{}, allGot...)
			mu.Unlock()
			want := []string{}
			for _, g := range []string{seq[i], seq[i+1]} {
				if g != "" {
					want = append(want, g)
				}
			}
			sort.Strings(seen)
			sort.Strings(want)
			if strings.Join(seen, "|") != strings.Join(want, "|") {
				results = append(results, sx.List(sx.Tag("overlap-mismatch", sx.Int(int64(i)), sx.Str(strings.Join(want, "|")), sx.Str(strings.Join(seen, "|")))))
				break
			}
		}
	}
	return sx.Tag("reg", sx.Str("ok"), sx.List(results...))
}
