# Build of the verification framework.  `make setup` builds everything from files on disk:
# the Coq development (full .vo), the extracted model + OCaml driver, the Go harness against /repo.
SHELL := /bin/bash
COQMF := coq/Makefile.coq
GOENV := GOFLAGS=-mod=mod GOPROXY=off GOSUMDB=off GOTOOLCHAIN=local
VFILES := $(shell grep '\.v$$' coq/_CoqProject)
MODEL_DEPS := $(addprefix coq/,$(filter-out Props/% Proofs/%,$(VFILES)))

.PHONY: setup coq coq-target model harness harness-race coqchk clean gen

# translator: the precedence table of the generated expression parser, extracted from /repo's
# current source into coq/Generated/ExprTable.v (rewritten only when it changes)
gen:
	python3 tools/gen_exprtable.py
	python3 tools/gen_tokentable.py

setup: coq model harness harness-race

$(COQMF): coq/_CoqProject
	cd coq && coq_makefile -f _CoqProject -o Makefile.coq >/dev/null

coq: gen $(COQMF)
	cd coq && timeout 3000 $(MAKE) -f Makefile.coq -j16

# one target and what it depends on (a broken proof elsewhere does not stop this property)
coq-target: gen $(COQMF)
	cd coq && timeout 3000 $(MAKE) -f Makefile.coq -j16 $(T)

model: gen
	$(MAKE) ocaml/model

ocaml/model: $(MODEL_DEPS) coq/Extract/Extract.v ocaml/driver.ml $(COQMF)
	cd coq && timeout 3000 $(MAKE) -f Makefile.coq -j16 Extract/Dispatch.vo
	cd ocaml && timeout 1200 coqc -Q ../coq YS ../coq/Extract/Extract.v
	cd ocaml && ocamlfind ocamlopt -O3 -w -a model.mli model.ml driver.ml -o model 2>/dev/null || \
	  (cd ocaml && ocamlfind ocamlopt -w -a model.mli model.ml driver.ml -o model)

# always rebuilt from /repo's current working tree (go's build cache makes this cheap)
harness:
	cd harness && cp /repo/go.sum . && $(GOENV) go build -tags verif -o bin/verifharness .

# the same harness with the race detector, for the concurrent family (C18)
harness-race:
	cd harness && cp /repo/go.sum . && $(GOENV) go build -race -tags verif -o bin/verifharness-race .

coqchk:
	cd coq && timeout 3300 coqchk -silent -o -Q . YS $(T)

clean:
	-cd coq && $(MAKE) -f Makefile.coq clean
	rm -f coq/Makefile.coq coq/Makefile.coq.conf ocaml/model ocaml/model.ml ocaml/model.mli ocaml/*.cm* ocaml/*.o harness/bin/verifharness
