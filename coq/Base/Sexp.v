(* S-expressions: the wire format between the Go harness, the extracted model and check.py.
   Everything (lexing, parsing, printing, decimal conversion) is Gallina, so the OCaml driver only
   moves bytes.  The text format is pure ASCII:
     int      -?[0-9]+
     string   double-quoted, with backslash escapes for the quote, the backslash, n, r, t and u{hex}
     symbol   any other run of non-blank, non-paren, non-quote characters (read as a string)
     list     ( ... )                                                                         *)
From Coq Require Import List ZArith NArith Ascii String Bool.
From Coq Require Decimal DecimalZ.
Export Coq.Strings.String.StringSyntax.
Import ListNotations.
Local Open Scope N_scope.

(* plain aliases (notations, so that no conversion is ever needed between str and list N) *)
Notation rune := N (only parsing).
Notation str := (list N) (only parsing).

Inductive sexp := SZ (z : Z) | SS (s : str) | SL (l : list sexp).

(* ASCII literal -> str *)
Fixpoint str_of_string (s : string) : str :=
  match s with
  | EmptyString => []
  | String a r => N_of_ascii a :: str_of_string r
  end.

(* STR "abc" : str, usable in files that import this one (any open scopes) *)
Notation "'STR' x" := (str_of_string x%string) (at level 0, x at level 0).

Fixpoint str_eqb (a b : str) : bool :=
  match a, b with
  | [], [] => true
  | x :: a', y :: b' => N.eqb x y && str_eqb a' b'
  | _, _ => false
  end.

Lemma str_eqb_eq a b : str_eqb a b = true <-> a = b.
Proof.
  revert b; induction a as [|x a IH]; intros [|y b]; simpl; split; intro H;
    try reflexivity; try discriminate.
  - apply andb_true_iff in H as [H1 H2]. apply N.eqb_eq in H1. apply IH in H2. congruence.
  - inversion H; subst. rewrite N.eqb_refl. simpl. apply IH. reflexivity.
Qed.

Lemma str_eqb_refl a : str_eqb a a = true.
Proof. apply str_eqb_eq. reflexivity. Qed.

Lemma str_eqb_neq a b : str_eqb a b = false <-> a <> b.
Proof.
  split; intro H.
  - intro E. apply str_eqb_eq in E. congruence.
  - destruct (str_eqb a b) eqn:E; [apply str_eqb_eq in E; contradiction | reflexivity].
Qed.

Lemma str_eqb_sym a b : str_eqb a b = str_eqb b a.
Proof.
  destruct (str_eqb a b) eqn:E.
  - apply str_eqb_eq in E. subst. symmetry. apply str_eqb_refl.
  - symmetry. apply str_eqb_neq. apply str_eqb_neq in E. congruence.
Qed.

(* ---- decimal conversion ---- *)
Fixpoint uint_digits (u : Decimal.uint) : str :=
  match u with
  | Decimal.Nil => []
  | Decimal.D0 r => 48 :: uint_digits r | Decimal.D1 r => 49 :: uint_digits r | Decimal.D2 r => 50 :: uint_digits r
  | Decimal.D3 r => 51 :: uint_digits r | Decimal.D4 r => 52 :: uint_digits r | Decimal.D5 r => 53 :: uint_digits r
  | Decimal.D6 r => 54 :: uint_digits r | Decimal.D7 r => 55 :: uint_digits r | Decimal.D8 r => 56 :: uint_digits r
  | Decimal.D9 r => 57 :: uint_digits r
  end.

Definition nonempty0 (s : str) : str := match s with [] => [48] | _ => s end.

Definition z_to_str (z : Z) : str :=
  match Z.to_int z with
  | Decimal.Pos u => nonempty0 (uint_digits u)
  | Decimal.Neg u => 45 :: nonempty0 (uint_digits u)
  end.

Definition n_to_str (n : N) : str := z_to_str (Z.of_N n).
Definition nat_to_str (n : nat) : str := z_to_str (Z.of_nat n).

Definition is_digit (c : N) : bool := (48 <=? c) && (c <=? 57).

(* digits -> value; None when a non-digit occurs or the string is empty *)
Fixpoint digits_val (acc : Z) (s : str) : option Z :=
  match s with
  | [] => Some acc
  | c :: r => if is_digit c then digits_val (acc * 10 + Z.of_N (c - 48))%Z r else None
  end.

Definition str_to_z (s : str) : option Z :=
  match s with
  | [] => None
  | 45 :: (_ :: _) as r => option_map Z.opp (digits_val 0%Z r)
  | _ => digits_val 0%Z s
  end.

(* ---- printing ---- *)
Definition hex_digit (n : N) : N := if n <? 10 then 48 + n else 87 + n.
Fixpoint hex_pos (fuel : nat) (n : N) (acc : str) : str :=
  match fuel with
  | O => acc
  | S f => let acc' := hex_digit (n mod 16) :: acc in
           if n / 16 =? 0 then acc' else hex_pos f (n / 16) acc'
  end.
Definition hex (n : N) : str := hex_pos 32 n [].

Definition esc_char (c : N) : str :=
  if c =? 34 then [92; 34]
  else if c =? 92 then [92; 92]
  else if c =? 10 then [92; 110]
  else if c =? 13 then [92; 114]
  else if c =? 9 then [92; 116]
  else if (32 <=? c) && (c <? 127) then [c]
  else [92; 117; 123] ++ hex c ++ [125].

Definition quote (s : str) : str := 34 :: flat_map esc_char s ++ [34].

Fixpoint print_sexp (e : sexp) : str :=
  match e with
  | SZ z => z_to_str z
  | SS s => quote s
  | SL l =>
      let fix go (l : list sexp) : str :=
        match l with
        | [] => []
        | [x] => print_sexp x
        | x :: r => print_sexp x ++ 32 :: go r
        end in
      40 :: go l ++ [41]
  end.

(* linear-time reverse (List.rev is quadratic) *)
Definition frev {A} (l : list A) : list A := rev_append l [].

(* ---- lexing ---- *)
Inductive tok := TLp | TRp | TAtom (s : str) | TStr (s : str).

Definition is_blank (c : N) : bool := (c =? 32) || (c =? 9) || (c =? 10) || (c =? 13).

Definition hex_val (c : N) : option N :=
  if (48 <=? c) && (c <=? 57) then Some (c - 48)
  else if (97 <=? c) && (c <=? 102) then Some (c - 87)
  else if (65 <=? c) && (c <=? 70) then Some (c - 55)
  else None.

(* modes: 0 = between tokens, 1 = inside a bare atom, 2 = inside a string, 3 = after a backslash
   inside a string, 4 = inside \u{...} *)
Inductive lmode := MNone | MAtom (acc : str) | MStr (acc : str) | MEsc (acc : str)
                 | MUni (acc : str) (v : N) (started : bool).

Fixpoint lex (m : lmode) (s : str) (out : list tok) : option (list tok) :=
  match s with
  | [] => match m with
          | MNone => Some (frev out)
          | MAtom a => Some (frev (TAtom (frev a) :: out))
          | _ => None
          end
  | c :: r =>
      match m with
      | MNone =>
          if is_blank c then lex MNone r out
          else if c =? 40 then lex MNone r (TLp :: out)
          else if c =? 41 then lex MNone r (TRp :: out)
          else if c =? 34 then lex (MStr []) r out
          else lex (MAtom [c]) r out
      | MAtom a =>
          if is_blank c then lex MNone r (TAtom (frev a) :: out)
          else if c =? 40 then lex MNone r (TLp :: TAtom (frev a) :: out)
          else if c =? 41 then lex MNone r (TRp :: TAtom (frev a) :: out)
          else if c =? 34 then lex (MStr []) r (TAtom (frev a) :: out)
          else lex (MAtom (c :: a)) r out
      | MStr a =>
          if c =? 34 then lex MNone r (TStr (frev a) :: out)
          else if c =? 92 then lex (MEsc a) r out
          else lex (MStr (c :: a)) r out
      | MEsc a =>
          if c =? 110 then lex (MStr (10 :: a)) r out
          else if c =? 114 then lex (MStr (13 :: a)) r out
          else if c =? 116 then lex (MStr (9 :: a)) r out
          else if c =? 117 then lex (MUni a 0 false) r out
          else lex (MStr (c :: a)) r out
      | MUni a v started =>
          if (c =? 123) && negb started then lex (MUni a 0 true) r out
          else if c =? 125 then lex (MStr (v :: a)) r out
          else match hex_val c with
               | Some d => lex (MUni a (v * 16 + d) true) r out
               | None => None
               end
      end
  end.

(* ---- parsing ---- *)
Definition atom_sexp (a : str) : sexp :=
  match str_to_z a with Some z => SZ z | None => SS a end.

Fixpoint parse_toks (ts : list tok) (cur : list sexp) (stack : list (list sexp)) : option sexp :=
  match ts with
  | [] => match stack, cur with
          | [], [x] => Some x
          | _, _ => None
          end
  | TLp :: r => parse_toks r [] (cur :: stack)
  | TRp :: r => match stack with
                | [] => None
                | up :: st => parse_toks r (SL (frev cur) :: up) st
                end
  | TAtom a :: r => parse_toks r (atom_sexp a :: cur) stack
  | TStr s :: r => parse_toks r (SS s :: cur) stack
  end.

Definition parse_sexp (s : str) : option sexp :=
  match lex MNone s [] with
  | Some ts => parse_toks ts [] []
  | None => None
  end.

(* ---- decoding helpers ---- *)
Definition as_z (e : sexp) : option Z := match e with SZ z => Some z | _ => None end.
Definition as_n (e : sexp) : option N :=
  match e with SZ z => if (z <? 0)%Z then None else Some (Z.to_N z) | _ => None end.
Definition as_nat (e : sexp) : option nat := option_map N.to_nat (as_n e).
Definition as_str (e : sexp) : option str := match e with SS s => Some s | _ => None end.
Definition as_list (e : sexp) : option (list sexp) := match e with SL l => Some l | _ => None end.
Definition as_bool (e : sexp) : option bool :=
  match e with SZ 0%Z => Some false | SZ 1%Z => Some true | _ => None end.

Fixpoint all_some {A} (l : list (option A)) : option (list A) :=
  match l with
  | [] => Some []
  | Some x :: r => option_map (cons x) (all_some r)
  | None :: _ => None
  end.

Definition map_opt {A B} (f : A -> option B) (l : list A) : option (list B) := all_some (map f l).

Definition sbool (b : bool) : sexp := SZ (if b then 1 else 0)%Z.
Definition snat (n : nat) : sexp := SZ (Z.of_nat n).
Definition sN (n : N) : sexp := SZ (Z.of_N n).
Definition ssym (s : string) : sexp := SS (str_of_string s).
Definition tagged (t : string) (args : list sexp) : sexp := SL (ssym t :: args).

(* (tag arg ...) -> Some (tag, args) *)
Definition untag (e : sexp) : option (str * list sexp) :=
  match e with
  | SL (SS t :: args) => Some (t, args)
  | _ => None
  end.

Definition tag_is (t : str) (name : string) : bool := str_eqb t (str_of_string name).

Definition bad (why : string) : sexp := tagged "BADCASE" [ssym why].
