(* What an assignment statement stores (the table of property C03). *)
From Coq Require Import List ZArith NArith Bool.
From YS Require Import Base.Sexp Num.F64 Yarn.Ast Yarn.Value.
Import ListNotations.

(* [v op= e]: the stored value, or None when the statement is an error
   - a variable never changes type; a compound operator needs an existing variable
   - numbers: = * / % + - ; booleans: = only ; strings: = and += (appends on the right) *)
Definition set_spec (prev : option value) (op : setop) (v : value) : option value :=
  match prev, op, v with
  | None, SAssign, _ => Some v
  | None, _, _ => None
  | Some (VNum _), SAssign, VNum n => Some (VNum n)
  | Some (VNum p), SMulEq, VNum n => Some (VNum (fmul p n))
  | Some (VNum p), SDivEq, VNum n => Some (VNum (fdiv p n))
  | Some (VNum p), SModEq, VNum n => Some (VNum (fmod p n))
  | Some (VNum p), SAddEq, VNum n => Some (VNum (fadd p n))
  | Some (VNum p), SSubEq, VNum n => Some (VNum (fsub p n))
  | Some (VBool _), SAssign, VBool b => Some (VBool b)
  | Some (VStr _), SAssign, VStr t => Some (VStr t)
  | Some (VStr p), SAddEq, VStr t => Some (VStr (p ++ t))
  | _, _, _ => None
  end.
