(* Yarn's sequential semantics as a flat-continuation machine: the whole pending dialogue is ONE
   list of statements [k].
     line            yield it, continue with the rest
     option group    yield it; choosing option i continues with body_i ++ rest
     if/elseif/else  continue with (body of the first true clause) ++ rest
     jump            continue with the body of the target node; everything pending is abandoned
     stop / k = []   end; nothing is pending afterwards
     set/declare/call/command  their effect, then the rest
   Statement-level effects (evaluation, rendering, assignment, visit counting, command dispatch)
   are those of Yarn/Runner.v; this file only fixes the control flow. *)
From Coq Require Import List ZArith NArith Bool.
From YS Require Import Base.Sexp Num.F64 Yarn.Ast Yarn.Value Yarn.Eval Markup.LineParser Yarn.Runner.
Import ListNotations.

Record sstate := { k : list stmt;
                   waiting : option (list (line * list stmt));
                   sdat : dstate }.

Definition smk (k0 : list stmt) (w : option (list (line * list stmt))) (s : dstate) : sstate :=
  {| k := k0; waiting := w; sdat := s |}.

Fixpoint srun (d : dialogue) (fuel : nat) (s : dstate) (k0 : list stmt) : nres * sstate :=
  match fuel with
  | O => (NFuel, smk k0 None s)
  | S f =>
    match k0 with
    | [] => (NEnd, smk [] None s)
    | st :: q =>
        match st with
        | SLine l =>
            match render_line s l with
            | (Val rl, s3) => (NElem (ELine (cur s3) rl), smk q None s3)
            | (Fail, s3) => (NErr, smk q None s3)
            | (Crash, s3) => (NPanic, smk q None s3)
            end
        | SOpts os =>
            match render_options s os with
            | (Val ros, s3) => (NElem (EOpts (cur s3) ros), smk q (Some os) s3)
            | (Fail, s3) => (NErr, smk q None s3)
            | (Crash, s3) => (NPanic, smk q None s3)
            end
        | SSet x op e =>
            match exec_set x op e s with
            | (true, s3) => srun d f s3 q
            | (false, s3) => (NErr, smk q None s3)
            end
        | SDeclare x e =>
            match exec_set x SAssign e s with
            | (true, s3) => srun d f s3 q
            | (false, s3) => (NErr, smk q None s3)
            end
        | SJump e =>
            match exec_jump d e s with
            | (Some b', s3) => srun d f s3 b'
            | (None, s3) => (NErr, smk q None s3)
            end
        | SIf cs =>
            match exec_if cs s with
            | (Val (Some b'), s3) => srun d f s3 (b' ++ q)
            | (Val None, s3) => srun d f s3 q
            | (Fail, s3) => (NErr, smk q None s3)
            | (Crash, s3) => (NPanic, smk q None s3)
            end
        | SCmd es =>
            match exec_command es s with
            | (CmdStop, s3) => (NEnd, smk [] None s3)
            | (CmdDone, s3) => srun d f s3 q
            | (CmdWait, s3) => (NWait, smk q None s3)
            | (CmdErr, s3) => (NErr, smk q None s3)
            end
        | SCall fn args =>
            match exec_call fn args s with
            | (true, s3) => srun d f s3 q
            | (false, s3) => (NErr, smk q None s3)
            end
        end
    end
  end.

(* one call of Next: poll the pending command, apply the choice if an option group is waiting,
   then run *)
Definition snext (d : dialogue) (fuel : nat) (s : sstate) (choice : Z) : nres * sstate :=
  match poll (sdat s) with
  | (Some r, s0) => (r, smk (k s) (waiting s) s0)
  | (None, s0) =>
      match chosen_body (waiting s) choice with
      | None => (NPanic, smk (k s) (waiting s) s0)
      | Some b => srun d fuel s0 (b ++ k s)
      end
  end.

Definition sinit (d : dialogue) (s : dstate) : option sstate :=
  match d with
  | [] => None
  | n :: _ => Some (smk (body n) None s)
  end.
