(* The dialogue AST of internal/tree (tree.go, expression.go) and the values of variable/value.go. *)
From Coq Require Import List ZArith NArith Bool.
From YS Require Import Base.Sexp Num.F64.
Import ListNotations.

Inductive value := VNum (f : f64) | VBool (b : bool) | VStr (s : str).

Inductive binop := OMul | ODiv | OMod | OAdd | OSub | OLe | OGe | OLt | OGt | OEq | ONe
                 | OAnd | OOr | OXor.

(* tree.Expression; ENull is the empty expression the null literal is parsed to *)
Inductive expr :=
| EVal (v : value)
| EVar (x : str)
| ECall (f : str) (args : list expr)
| ENeg (e : expr)
| ENot (e : expr)
| EBin (o : binop) (l r : expr)
| ENull.

Inductive telem := TText (s : str) | TExpr (e : expr).

Record line := { ltext : list telem; lcond : option expr; ltags : list str }.

Inductive setop := SAssign | SMulEq | SDivEq | SModEq | SAddEq | SSubEq.

Inductive stmt :=
| SLine (l : line)
| SOpts (os : list (line * list stmt))
| SSet (x : str) (op : setop) (e : expr)
| SJump (e : expr)
| SIf (cs : list (expr * list stmt))
| SCmd (es : list expr)
| SCall (f : str) (args : list expr)
| SDeclare (x : str) (e : expr).

Record node := { headers : list (str * str); body : list stmt }.

Definition dialogue := list node.

(* ---- association lists standing for Go maps ---- *)
Definition alist (V : Type) := list (str * V).

Fixpoint aget {V} (m : alist V) (k : str) : option V :=
  match m with
  | [] => None
  | (k', v) :: r => if str_eqb k' k then Some v else aget r k
  end.

Fixpoint aset {V} (m : alist V) (k : str) (v : V) : alist V :=
  match m with
  | [] => [(k, v)]
  | (k', v') :: r => if str_eqb k' k then (k, v) :: r else (k', v') :: aset r k v
  end.

Fixpoint adel {V} (m : alist V) (k : str) : alist V :=
  match m with
  | [] => []
  | (k', v') :: r => if str_eqb k' k then adel r k else (k', v') :: adel r k
  end.

Definition amem {V} (m : alist V) (k : str) : bool :=
  match aget m k with Some _ => true | None => false end.

(* node.Title() = Headers["title"] (the empty string when absent) *)
Definition last_header (h : list (str * str)) (k : str) : option str :=
  aget (rev h) k.

Definition title (n : node) : str :=
  match last_header (headers n) (STR "title") with Some t => t | None => [] end.

(* Dialogue.FindNode: first node with that title *)
Fixpoint find_node (d : dialogue) (t : str) : option node :=
  match d with
  | [] => None
  | n :: r => if str_eqb (title n) t then Some n else find_node r t
  end.

(* ---- ordering of strings (code point order = Go's byte order on valid UTF-8) ---- *)
Fixpoint str_ltb (a b : str) : bool :=
  match a, b with
  | [], [] => false
  | [], _ :: _ => true
  | _ :: _, [] => false
  | x :: a', y :: b' => if N.ltb x y then true else if N.ltb y x then false else str_ltb a' b'
  end.

Fixpoint insert_sorted {V} (kv : str * V) (m : alist V) : alist V :=
  match m with
  | [] => [kv]
  | kv' :: r => if str_ltb (fst kv) (fst kv') then kv :: m else kv' :: insert_sorted kv r
  end.

Definition sort_alist {V} (m : alist V) : alist V := fold_right insert_sorted [] m.
