(* (builtin name (value ...)) -> (val v) | (nil) | (err): a direct call of a built-in function, with
   an empty random stream. (fmt bits) / (parse "s"): the float formatter and parser models. *)
From Coq Require Import List ZArith NArith Bool.
From YS Require Import Base.Sexp Num.F64 Num.Decimal Yarn.Ast Yarn.Value Yarn.Eval Yarn.RunnerWire Yarn.Timed.
Import ListNotations.

Definition run_builtin_case (args : list sexp) : sexp :=
  match args with
  | [SS name; SL vs] =>
      match map_opt dec_value vs with
      | Some vals =>
          let v := {| rvars := empty_store; rvisits := [] |} in
          let e := {| rng := []; hlog := [] |} in
          match call_builtin v name vals e with
          | Some (Val (Some r), _) => tagged "val" [enc_value r]
          | Some (Val None, _) => tagged "nil" []
          | Some (Fail, _) => tagged "err" []
          | Some (Crash, _) => tagged "panic" []
          | None => tagged "err" []
          end
      | None => bad "builtin: decode"
      end
  | _ => bad "builtin: shape"
  end.

Definition run_fmt_case (args : list sexp) : sexp :=
  match args with
  | [SZ b] => tagged "s" [SS (num_to_string (of_bits b)); SS (fmt_g (of_bits b))]
  | _ => bad "fmt: shape"
  end.

Definition run_parse_case (args : list sexp) : sexp :=
  match args with
  | [SS s] => match parse_float s with
              | Some f => tagged "num" [SZ (to_bits f)]
              | None => tagged "err" []
              end
  | _ => bad "parse: shape"
  end.

(* (wait bits form) -> (waited "line" 1 <nanoseconds the command sleeps>): the statement after the
   command is the next element, after at least one answer "waiting" (the command is started by one
   Next call and polled by the following ones). *)
Definition run_wait_case (args : list sexp) : sexp :=
  match args with
  | [SZ b; SZ _] => tagged "waited" [SS (STR "line"); SZ 1; SZ (Z.max 0 (wait_nanos (of_bits b)))]
  | _ => bad "wait: shape"
  end.
