(* Wire format of the runner family: decoding of dialogues and operation sequences, execution on
   the model, encoding of the observations. *)
From Coq Require Import List ZArith NArith Bool.
From YS Require Import Base.Sexp Num.F64 Yarn.Ast Yarn.Value Yarn.Eval Markup.LineParser Markup.MarkupWire Yarn.Runner Syntax.CommandText.
Import ListNotations.

Definition dec_value (e : sexp) : option value :=
  match e with
  | SL [SS t; SZ b] => if tag_is t "num" then Some (VNum (of_bits b))
                       else if tag_is t "bool" then Some (VBool (negb (Z.eqb b 0))) else None
  | SL [SS t; SS s] => if tag_is t "str" then Some (VStr s) else None
  | _ => None
  end.

Definition dec_binop (s : str) : option binop :=
  if tag_is s "*" then Some OMul else if tag_is s "/" then Some ODiv else if tag_is s "%" then Some OMod
  else if tag_is s "+" then Some OAdd else if tag_is s "-" then Some OSub
  else if tag_is s "<=" then Some OLe else if tag_is s ">=" then Some OGe
  else if tag_is s "<" then Some OLt else if tag_is s ">" then Some OGt
  else if tag_is s "==" then Some OEq else if tag_is s "!=" then Some ONe
  else if tag_is s "and" then Some OAnd else if tag_is s "or" then Some OOr
  else if tag_is s "xor" then Some OXor else None.

Definition dec_setop (s : str) : option setop :=
  if tag_is s "=" then Some SAssign else if tag_is s "*=" then Some SMulEq
  else if tag_is s "/=" then Some SDivEq else if tag_is s "%=" then Some SModEq
  else if tag_is s "+=" then Some SAddEq else if tag_is s "-=" then Some SSubEq else None.

Fixpoint dec_expr (e : sexp) : option expr :=
  let fix go (l : list sexp) : option (list expr) :=
    match l with
    | [] => Some []
    | x :: r => match dec_expr x, go r with Some a, Some b => Some (a :: b) | _, _ => None end
    end in
  match e with
  | SL [SS t] => if tag_is t "null" then Some ENull else None
  | SL [SS t; SZ b] => option_map EVal (dec_value e)
  | SL [SS t; SS s] => if tag_is t "var" then Some (EVar s) else option_map EVal (dec_value e)
  | SL [SS t; x] => if tag_is t "neg" then option_map ENeg (dec_expr x)
                    else if tag_is t "not" then option_map ENot (dec_expr x) else None
  | SL [SS t; SS f; SL args] => if tag_is t "fn" then option_map (ECall f) (go args) else None
  | SL [SS t; SS o; l; r] =>
      if tag_is t "bin" then
        match dec_binop o, dec_expr l, dec_expr r with
        | Some o', Some l', Some r' => Some (EBin o' l' r')
        | _, _, _ => None
        end
      else None
  | _ => None
  end.

Definition dec_exprs (l : list sexp) : option (list expr) := map_opt dec_expr l.

Definition dec_telem (e : sexp) : option telem :=
  match e with
  | SL [SS t; SS s] => if tag_is t "t" then Some (TText s) else None
  | SL [SS t; x] => if tag_is t "e" then option_map TExpr (dec_expr x) else None
  | _ => None
  end.

Definition dec_relem (e : sexp) : option relem :=
  match e with
  | SL [SS t; SS s] => if tag_is t "t" then Some (RText s) else None
  | SL [SS t; x] => if tag_is t "e" then option_map RExpr (dec_expr x) else None
  | _ => None
  end.

Definition dec_line (e : sexp) : option line :=
  match e with
  | SL [SS t; SL parts; c; SL tags] =>
      if tag_is t "line" then
        match map_opt dec_telem parts, map_opt as_str tags with
        | Some ps, Some ts =>
            match c with
            | SL [] => Some {| ltext := ps; lcond := None; ltags := ts |}
            | _ => match dec_expr c with
                   | Some c' => Some {| ltext := ps; lcond := Some c'; ltags := ts |}
                   | None => None
                   end
            end
        | _, _ => None
        end
      else None
  | _ => None
  end.

Fixpoint dec_stmt (e : sexp) : option stmt :=
  let fix go (l : list sexp) : option (list stmt) :=
    match l with
    | [] => Some []
    | x :: r => match dec_stmt x, go r with Some a, Some b => Some (a :: b) | _, _ => None end
    end in
  let fix go_opts (l : list sexp) : option (list (line * list stmt)) :=
    match l with
    | [] => Some []
    | SL [SS t; ln; SL b] :: r =>
        if tag_is t "opt" then
          match dec_line ln, go b, go_opts r with
          | Some ln', Some b', Some r' => Some ((ln', b') :: r')
          | _, _, _ => None
          end
        else None
    | _ => None
    end in
  let fix go_clauses (l : list sexp) : option (list (expr * list stmt)) :=
    match l with
    | [] => Some []
    | SL [SS t; c; SL b] :: r =>
        if tag_is t "clause" then
          match dec_expr c, go b, go_clauses r with
          | Some c', Some b', Some r' => Some ((c', b') :: r')
          | _, _, _ => None
          end
        else None
    | _ => None
    end in
  match e with
  | SL (SS t :: args) =>
      if tag_is t "line" then option_map SLine (dec_line e)
      else if tag_is t "opts" then option_map SOpts (go_opts args)
      else if tag_is t "if" then option_map SIf (go_clauses args)
      else if tag_is t "cmd" then option_map SCmd (dec_exprs args)
      else if tag_is t "rawcmd" then                      (* as collected by the listener, before rearrange *)
        option_map (fun els => SCmd (rearrange els [])) (map_opt dec_relem args)
      else match args with
           | [SS x; SS o; v] => if tag_is t "set" then
                                  match dec_setop o, dec_expr v with
                                  | Some o', Some v' => Some (SSet x o' v')
                                  | _, _ => None
                                  end
                                else None
           | [SS x; v] => if tag_is t "call" then
                            match v with SL a => option_map (SCall x) (dec_exprs a) | _ => None end
                          else if tag_is t "declare" then option_map (SDeclare x) (dec_expr v)
                          else None
           | [x] => if tag_is t "jump" then option_map SJump (dec_expr x) else None
           | _ => None
           end
  | _ => None
  end.

Definition dec_header (e : sexp) : option (str * str) :=
  match e with SL [SS k; SS v] => Some (k, v) | _ => None end.

Definition dec_node (e : sexp) : option node :=
  match e with
  | SL [SS t; SL hs; SL b] =>
      if tag_is t "node" then
        match map_opt dec_header hs, map_opt dec_stmt b with
        | Some hs', Some b' => Some {| headers := hs'; body := b' |}
        | _, _ => None
        end
      else None
  | _ => None
  end.

Definition dec_dialogue (e : sexp) : option dialogue :=
  match e with SL ns => map_opt dec_node ns | _ => None end.

(* ---- operations ---- *)
Inductive rop :=
| ONext (r : nat) (c : Z)
| OHSet (r : nat) (k : str) (v : value)
| OSnap (r : nat) (k : nat)
| OReadSnap (k : nat)
| ORestore (r : nat) (k : nat)
| OMkSnap (k : nat) (nd : str) (vs : alist value) (cs : alist Z)
| OVals (r : nat).

Definition dec_kv (e : sexp) : option (str * value) :=
  match e with SL [SS k; v] => option_map (pair k) (dec_value v) | _ => None end.
Definition dec_kz (e : sexp) : option (str * Z) :=
  match e with SL [SS k; SZ z] => Some (k, z) | _ => None end.

Definition dec_op (e : sexp) : option rop :=
  match untag e with
  | Some (t, [SZ r; SZ c]) =>
      if tag_is t "next" then Some (ONext (Z.to_nat r) c)
      else if tag_is t "snap" then Some (OSnap (Z.to_nat r) (Z.to_nat c))
      else if tag_is t "restore" then Some (ORestore (Z.to_nat r) (Z.to_nat c))
      else None
  | Some (t, [SZ r; SS k; v]) =>
      if tag_is t "hset" then option_map (OHSet (Z.to_nat r) k) (dec_value v) else None
  | Some (t, [SZ k]) =>
      if tag_is t "readsnap" then Some (OReadSnap (Z.to_nat k))
      else if tag_is t "vals" then Some (OVals (Z.to_nat k)) else None
  | Some (t, [SZ k; SS nd; SL vs; SL cs]) =>
      if tag_is t "mksnap" then
        match map_opt dec_kv vs, map_opt dec_kz cs with
        | Some vs', Some cs' => Some (OMkSnap (Z.to_nat k) nd vs' cs')
        | _, _ => None
        end
      else None
  | _ => None
  end.

(* ---- encoding ---- *)
Definition enc_value (v : value) : sexp :=
  match v with
  | VNum n => tagged "num" [SZ (to_bits n)]
  | VBool b => tagged "bool" [sbool b]
  | VStr s => tagged "str" [SS s]
  end.

Definition enc_rline (l : rline) : list sexp :=
  [SS (rtext l); SL (map SS (rtags l)); SL (map enc_attr (rattrs l))].

Definition enc_nres (r : nres) : sexp :=
  match r with
  | NElem (ELine n l) => tagged "line" (SS n :: enc_rline l)
  | NElem (EOpts n os) =>
      tagged "opts" [SS n; SL (map (fun o => SL (sbool (snd o) :: enc_rline (fst o))) os)]
  | NEnd => tagged "end" []
  | NErr => tagged "err" []
  | NWait => tagged "wait" []
  | NPanic => tagged "panic" []
  | NFuel => tagged "fuel" []
  end.

Definition enc_vals (m : alist value) : list sexp :=
  map (fun kv => SL [SS (fst kv); enc_value (snd kv)]) (sort_alist m).

Definition enc_counts (m : alist Z) : list sexp :=
  map (fun kv => SL [SS (fst kv); SZ (snd kv)]) (sort_alist m).

Definition enc_hevent (h : hevent) : sexp :=
  match h with
  | HCall f args => tagged "call" (SS f :: map enc_value args)
  | HCmd n args => tagged "cmd" (SS n :: map enc_value args)
  end.

Definition enc_sevent (e : sevent) : sexp :=
  match e with
  | SetN k n => tagged "setn" [SS k; SZ (to_bits n)]
  | SetB k b => tagged "setb" [SS k; sbool b]
  | SetS k x => tagged "sets" [SS k; SS x]
  | SClearAll => tagged "clear" []
  end.

(* ---- running a case ---- *)
Fixpoint set_nth_state (l : list rstate) (n : nat) (x : rstate) : list rstate :=
  match l, n with
  | [], _ => []
  | _ :: t, O => x :: t
  | h :: t, S k => h :: set_nth_state t k x
  end.

Definition snaps := list (nat * snapshot).
Fixpoint get_snap (m : snaps) (k : nat) : option snapshot :=
  match m with
  | [] => None
  | (k', s) :: r => if Nat.eqb k' k then Some s else get_snap r k
  end.

Definition host_set (s : rstate) (k : str) (v : value) : rstate :=
  mk (stack s) (last_opts s)
     (upd_vars (dat s) (st_set (vars (dat s)) k v)
               (match v with VNum n => SetN k n | VBool b => SetB k b | VStr x => SetS k x end)).

Definition fuel_per_next : nat := 1500.

Definition run_op (d : dialogue) (rs : list rstate) (sn : snaps) (o : rop)
  : sexp * list rstate * snaps :=
  match o with
  | ONext r c =>
      match nth_error rs r with
      | Some s => let '(res, s') := next d fuel_per_next s c in
                  (enc_nres res, set_nth_state rs r s', sn)
      | None => (bad "runner index", rs, sn)
      end
  | OHSet r k v =>
      match nth_error rs r with
      | Some s => (tagged "n" [], set_nth_state rs r (host_set s k v), sn)
      | None => (bad "runner index", rs, sn)
      end
  | OSnap r k =>
      match nth_error rs r with
      | Some s => (tagged "n" [], rs, (k, take_snapshot (dat s)) :: sn)
      | None => (bad "runner index", rs, sn)
      end
  | OReadSnap k =>
      match get_snap sn k with
      | Some x => (tagged "snap" [SS (snode x); SL (enc_vals (svars x)); SL (enc_counts (svisits x))], rs, sn)
      | None => (tagged "nosnap" [], rs, sn)
      end
  | ORestore r k =>
      match nth_error rs r, get_snap sn k with
      | Some s, Some x => let '(ok, s') := restore_at d s x in
                          (tagged (if ok then "ok" else "err") [], set_nth_state rs r s', sn)
      | _, _ => (tagged "nosnap" [], rs, sn)
      end
  | OMkSnap k nd vs cs =>
      (tagged "n" [], rs, (k, {| svars := vs; snode := nd; svisits := cs |}) :: sn)
  | OVals r =>
      match nth_error rs r with
      | Some s => (tagged "vals" (enc_vals (st_values (vars (dat s)))), rs, sn)
      | None => (bad "runner index", rs, sn)
      end
  end.

Fixpoint run_ops (d : dialogue) (rs : list rstate) (sn : snaps) (ops : list rop) (acc : list sexp)
  : list sexp * list rstate :=
  match ops with
  | [] => (frev acc, rs)
  | o :: r => let '(out, rs', sn') := run_op d rs sn o in run_ops d rs' sn' r (out :: acc)
  end.

Definition dec_sched (e : sexp) : option (nat * cresult) :=
  match e with
  | SL [SZ p; SZ r] => Some (Z.to_nat p, if Z.eqb r 0 then CNil else CErr)
  | _ => None
  end.

(* internal/rng/seed.go: base 36 over [0-9a-z], int64 arithmetic with wrap-around *)
Fixpoint seed_to_int64 (s : str) (acc : Z) : option Z :=
  match s with
  | [] => Some acc
  | c :: r =>
      let dv := if (48 <=? c)%N && (c <=? 57)%N then Some (Z.of_N c - 48)%Z
                else if (97 <=? c)%N && (c <=? 122)%N then Some (Z.of_N c - 97 + 10)%Z
                else None in
      match dv with
      | Some v => seed_to_int64 r (wrap64 (wrap64 (36 * acc) + v))
      | None => None
      end
  end.

Definition enc_final (host_storer : bool) (s : rstate) : sexp :=
  tagged "runner" [SL (map enc_hevent (frev (hlog (fe (dat s)))));
                   SL (if host_storer then map enc_sevent (frev (slog (dat s))) else [])].

(* (runner (seed s int (stream...)) (storer b) (init kv...) (hcmds n...) (sched ...) (nrunners n)
           (nodes dialogue) (readers ...) (layout ...) (ops ...)) *)
Definition run_runner_case (args : list sexp) : sexp :=
  match args with
  | [SL [_; SS seed; SZ seedint; SL stream]; SL [_; SZ hs]; SL (_ :: init); SL (_ :: cmds);
     SL (_ :: sc); SL [_; SZ nr]; SL [_; nodes]; _; _; SL (_ :: ops)] =>
      match map_opt as_z stream, map_opt dec_kv init, map_opt as_str cmds, map_opt dec_sched sc,
            dec_dialogue nodes, map_opt dec_op ops with
      | Some stream', Some init', Some cmds', Some sc', Some d, Some ops' =>
          match seed_to_int64 seed 0 with
          | None => tagged "res" [tagged "load" [ssym "err"]]
          | Some si =>
              if negb (Z.eqb si seedint) then bad "runner: seed integer differs from the model's derivation" else
              let st0 := fold_left (fun st kv => st_set st (fst kv) (snd kv)) init' empty_store in
              match new_runner d st0 stream' sc' cmds' with
              | None => tagged "res" [tagged "load" [ssym "err"]]
              | Some s0 =>
                  let '(obs, rs) := run_ops d (repeat s0 (Z.to_nat nr)) [] ops' [] in
                  tagged "res" [tagged "load" [ssym "ok"]; SL obs;
                                SL (map (enc_final (negb (Z.eqb hs 0))) rs)]
              end
          end
      | _, _, _, _, _, _ => bad "runner: decode"
      end
  | _ => bad "runner: shape"
  end.
