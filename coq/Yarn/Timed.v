(* The built-in <<wait n>> (command_storer.go, waitCommand): the goroutine sleeps
   time.Duration(n * float64(time.Second)) and then reports completion.  time.Duration is an int64
   of nanoseconds; the conversion of the binary64 product is Go's float64 -> int64 conversion
   (F64.to_int64).  time.Sleep returns no earlier than after that many nanoseconds (and at once for
   a duration <= 0) - that clause is the Go runtime's contract, observed by the waits family.

   A timed view of the pending command, for the part of C10 about <<wait>>: the command started at
   instant t0 (nanoseconds on any monotonic clock) is reported complete at an instant t only if the
   sleep has returned. *)
From Coq Require Import ZArith Bool.
From YS Require Import Num.F64.
Local Open Scope Z_scope.

Definition nanos_per_second : Z := 1000000000.

Definition wait_nanos (n : f64) : Z := to_int64 (fmul n (of_Z nanos_per_second)).

(* earliest instant at which the completion can be reported *)
Definition wait_ready_at (t0 : Z) (n : f64) : Z := t0 + Z.max 0 (wait_nanos n).

(* what a poll of the pending channel at instant t may answer: completion only from wait_ready_at on *)
Definition wait_may_complete (t0 : Z) (n : f64) (t : Z) : bool := wait_ready_at t0 n <=? t.
