(* Heap-explicit model of the snapshot machinery (runner.go: Snapshot, RestoreAt,
   executeJumpStatement, executeSetStatement; variable/in_memory_storer.go: Clear, Set*, GetValues).
   Go maps are references: the value-based model of Yarn/Runner.v cannot even state "nothing the
   runner does afterwards changes the snapshot" (the defect D8 was exactly shared maps).  Here every
   Go map (and the storer, whose three maps are only reachable through it) is an object in a heap,
   runners and snapshots hold addresses, and every `make(map...)` + copy loop of the Go code is an
   allocation.  Payloads reuse the definitions of the value-based model (store, st_set, st_values,
   bump), so that the two models agree on contents by construction (Proofs/SnapHeapProofs.v:
   `abs_*` lemmas). *)
From Coq Require Import List ZArith Bool Arith.
From YS Require Import Base.Sexp Num.F64 Yarn.Ast Yarn.Value Yarn.Runner.
Import ListNotations.

Inductive obj :=
| OStore (s : store)            (* an InMemoryStorer: its maps are reachable only through it *)
| OVars (m : alist value)       (* a map[string]variable.Value *)
| OVisits (m : alist Z).        (* a map[string]int *)

(* address = position of allocation; the heap only grows *)
Definition heap := list obj.

Definition alloc (h : heap) (o : obj) : nat * heap := (length h, h ++ [o]).
Definition hget (h : heap) (a : nat) : option obj := nth_error h a.
Fixpoint hset (h : heap) (a : nat) (o : obj) : heap :=
  match h, a with
  | [], _ => []
  | _ :: r, O => o :: r
  | x :: r, S a' => x :: hset r a' o
  end.

Record hrunner := { r_store : nat; r_visits : nat; r_vsnap : nat; r_cur : str }.
Record hsnap := { s_vars : nat; s_node : str; s_visits : nat }.

Record config := { hp : heap; runners : list hrunner; snaps : list hsnap }.

Definition vars_of (h : heap) (a : nat) : alist value := match hget h a with Some (OVars m) => m | _ => [] end.
Definition visits_of (h : heap) (a : nat) : alist Z := match hget h a with Some (OVisits m) => m | _ => [] end.
Definition store_of (h : heap) (a : nat) : store := match hget h a with Some (OStore s) => s | _ => empty_store end.

Definition set_runner (l : list hrunner) (i : nat) (r : hrunner) : list hrunner :=
  firstn i l ++ r :: skipn (S i) l.

(* NewDialogueRunner: a storer, an empty visit map, the first variable snapshot *)
Definition op_new (c : config) (start : str) : config :=
  let '(a1, h1) := alloc (hp c) (OStore empty_store) in
  let '(a2, h2) := alloc h1 (OVisits []) in
  let '(a3, h3) := alloc h2 (OVars []) in
  {| hp := h3; runners := runners c ++ [{| r_store := a1; r_visits := a2; r_vsnap := a3; r_cur := start |}];
     snaps := snaps c |}.

(* executeSetStatement: the storer's Set* (in place) *)
Definition op_set (c : config) (i : nat) (x : str) (v : value) : config :=
  match nth_error (runners c) i with
  | Some r => {| hp := hset (hp c) (r_store r) (OStore (st_set (store_of (hp c) (r_store r)) x v));
                 runners := runners c; snaps := snaps c |}
  | None => c
  end.

(* executeJumpStatement: visitedNodes[currentNode]++ in place (when tracked), variableSnapshot =
   GetValues() (a fresh map), currentNode *)
Definition op_jump (c : config) (i : nat) (tracked : bool) (target : str) : config :=
  match nth_error (runners c) i with
  | Some r =>
      let h1 := if tracked then hset (hp c) (r_visits r) (OVisits (bump (visits_of (hp c) (r_visits r)) (r_cur r)))
                else hp c in
      let '(a, h2) := alloc h1 (OVars (st_values (store_of h1 (r_store r)))) in
      {| hp := h2;
         runners := set_runner (runners c) i {| r_store := r_store r; r_visits := r_visits r; r_vsnap := a; r_cur := target |};
         snaps := snaps c |}
  | None => c
  end.

(* Snapshot(): two fresh maps filled by copy loops *)
Definition op_snapshot (c : config) (i : nat) : config :=
  match nth_error (runners c) i with
  | Some r =>
      let '(a1, h1) := alloc (hp c) (OVars (vars_of (hp c) (r_vsnap r))) in
      let '(a2, h2) := alloc h1 (OVisits (visits_of h1 (r_visits r))) in
      {| hp := h2; runners := runners c;
         snaps := snaps c ++ [{| s_vars := a1; s_node := r_cur r; s_visits := a2 |}] |}
  | None => c
  end.

(* RestoreAt(snapshot) when the node exists: fresh visit map, fresh variable snapshot, the storer is
   cleared and refilled (its own maps are replaced; the storer stays the same object) *)
Definition op_restore (c : config) (i j : nat) : config :=
  match nth_error (runners c) i, nth_error (snaps c) j with
  | Some r, Some s =>
      let '(a1, h1) := alloc (hp c) (OVisits (visits_of (hp c) (s_visits s))) in
      let '(a2, h2) := alloc h1 (OVars (vars_of h1 (s_vars s))) in
      let h3 := hset h2 (r_store r)
                     (OStore (fold_left (fun st kv => st_set st (fst kv) (snd kv)) (vars_of h2 (s_vars s)) empty_store)) in
      {| hp := h3;
         runners := set_runner (runners c) i {| r_store := r_store r; r_visits := a1; r_vsnap := a2; r_cur := s_node s |};
         snaps := snaps c |}
  | _, _ => c
  end.

(* the host owns the snapshot value it was given and may write into its maps *)
Definition op_host_edit_vars (c : config) (j : nat) (m : alist value) : config :=
  match nth_error (snaps c) j with
  | Some s => {| hp := hset (hp c) (s_vars s) (OVars m); runners := runners c; snaps := snaps c |}
  | None => c
  end.
Definition op_host_edit_visits (c : config) (j : nat) (m : alist Z) : config :=
  match nth_error (snaps c) j with
  | Some s => {| hp := hset (hp c) (s_visits s) (OVisits m); runners := runners c; snaps := snaps c |}
  | None => c
  end.

Inductive op :=
| ONew (start : str) | OSet (i : nat) (x : str) (v : value) | OJump (i : nat) (tracked : bool) (target : str)
| OSnapshot (i : nat) | ORestore (i j : nat) | OEditVars (j : nat) (m : alist value) | OEditVisits (j : nat) (m : alist Z).

Definition step (c : config) (o : op) : config :=
  match o with
  | ONew s => op_new c s
  | OSet i x v => op_set c i x v
  | OJump i t n => op_jump c i t n
  | OSnapshot i => op_snapshot c i
  | ORestore i j => op_restore c i j
  | OEditVars j m => op_host_edit_vars c j m
  | OEditVisits j m => op_host_edit_visits c j m
  end.

Definition init_config : config := {| hp := []; runners := []; snaps := [] |}.

(* what an observer reads *)
Definition snap_content (c : config) (s : hsnap) : snapshot :=
  {| svars := vars_of (hp c) (s_vars s); snode := s_node s; svisits := visits_of (hp c) (s_visits s) |}.

Record runner_content := { rc_store : store; rc_visits : alist Z; rc_vsnap : alist value; rc_cur : str }.
Definition runner_view (c : config) (r : hrunner) : runner_content :=
  {| rc_store := store_of (hp c) (r_store r); rc_visits := visits_of (hp c) (r_visits r);
     rc_vsnap := vars_of (hp c) (r_vsnap r); rc_cur := r_cur r |}.
