(* function_storer.go / command_storer.go (after the repair of D18): the reflect-based bridge from
   Go functions to script functions and commands, over a universe of Go types described by the
   attributes the code looks at. *)
From Coq Require Import List ZArith NArith Bool.
From Flocq Require BinarySingleNaN.
From YS Require Import Base.Sexp Num.F64 Yarn.Ast Yarn.Value Yarn.Eval.
Import ListNotations.

Inductive kind := KInt | KInt8 | KInt16 | KInt32 | KInt64 | KUint | KFloat32 | KFloat64 | KBool | KString
                | KStruct | KSlice | KPtr | KIface | KChan | KFunc.

Inductive chandir := DBoth | DRecv | DSend.

(* what reflect reports about a type *)
Record gotype := {
  gk : kind;
  gname : N;                        (* identity of a defined type (type Level int); 0 for an unnamed / predeclared type *)
  gerr : bool;                      (* ConvertibleTo(error): implements the error interface *)
  gdir : chandir;                   (* for channels *)
  gelem_err : bool;                 (* channel element ConvertibleTo(error) *)
  gplain_err_chan : bool            (* exactly the unnamed type chan error or <-chan error *)
}.

Definition gnamed (t : gotype) : bool := negb (N.eqb (gname t) 0).

Definition gotype_eqb (a b : gotype) : bool :=
  match gk a, gk b with
  | KInt, KInt | KInt8, KInt8 | KInt16, KInt16 | KInt32, KInt32 | KInt64, KInt64 | KUint, KUint
  | KFloat32, KFloat32 | KFloat64, KFloat64 | KBool, KBool | KString, KString | KStruct, KStruct
  | KSlice, KSlice | KPtr, KPtr | KIface, KIface | KChan, KChan | KFunc, KFunc => N.eqb (gname a) (gname b)
  | _, _ => false
  end.

(* isTypeConvertibleToValue / the keys of argConverterByGoalKind *)
Definition value_kind (k : kind) : bool :=
  match k with
  | KInt | KInt8 | KInt16 | KInt32 | KInt64 | KFloat32 | KFloat64 | KBool | KString => true
  | _ => false
  end.

Record signature := { params : list gotype;          (* without the variadic tail *)
                      variadic : option gotype;      (* element type of the ...T parameter *)
                      results : list gotype }.

(* what is handed to ConvertAndAdd* *)
Inductive registrand := RNilInterface | RNotAFunction | RNilFunction (s : signature) | RFunction (s : signature).

Inductive retsig := NoReturn | ValueReturn | ErrorReturn | ErrorChanReturn | ValueErrorReturn.

(* checkFunctionOutputParameters *)
Definition check_function_outputs (outs : list gotype) : option retsig :=
  match outs with
  | [] => Some NoReturn
  | [o] => if value_kind (gk o) then Some ValueReturn else if gerr o then Some ErrorReturn else None
  | [o1; o2] => if value_kind (gk o1) && gerr o2 then Some ValueErrorReturn else None
  | _ => None
  end.

(* checkCommandOutputParameters *)
Definition check_command_outputs (outs : list gotype) : option retsig :=
  match outs with
  | [] => Some NoReturn
  | [o] => if gerr o then Some ErrorReturn
           else match gk o with KChan => if gelem_err o then Some ErrorChanReturn else None | _ => None end
  | _ => None
  end.

(* createInputConverter / createVariadicInputConverter: every parameter kind needs a converter *)
Definition inputs_ok (s : signature) : bool :=
  forallb (fun t => value_kind (gk t)) (params s) &&
  match variadic s with Some t => value_kind (gk t) | None => true end.

Record bridged := { bsig : signature; bret : retsig }.

(* newYarnSpinnerFunction / newYarnSpinnerCommand: None = an error; there is no panic outcome *)
Definition register (outputs : list gotype -> option retsig) (r : registrand) : option bridged :=
  match r with
  | RNilInterface | RNotAFunction | RNilFunction _ => None
  | RFunction s =>
      match outputs (results s) with
      | Some rs => if inputs_ok s then Some {| bsig := s; bret := rs |} else None
      | None => None
      end
  end.

Definition register_function := register check_function_outputs.
Definition register_command := register check_command_outputs.

(* ---- values crossing the bridge ---- *)
Inductive payload := PInt (z : Z) | PFloat (f : f64) | PBool (b : bool) | PStr (s : str).
Record goval := { vtype : gotype; vpay : payload }.

(* Go's conversion of a float64 to an integer kind as the amd64 compiler does it: int and int64 through
   CVTTSD2SQ (-2^63 when out of range or NaN), the narrower kinds through CVTTSD2SL (-2^31 when out of
   range or NaN) followed by truncation to the kind's width.  Inside the kind's range this is the
   truncation toward zero the language specifies; outside it the language leaves the result open. *)
Definition to_int32 (x : f64) : Z :=
  let t := to_int64 x in
  match x with
  | BinarySingleNaN.B754_finite _ _ _ _ | BinarySingleNaN.B754_zero _ =>
      if ((-2147483648 <=? t) && (t <? 2147483648))%Z then t else (-2147483648)%Z
  | _ => (-2147483648)%Z
  end.

Definition int_conv (k : kind) (x : f64) : Z :=
  match k with
  | KInt8 => ((to_int32 x + 128) mod 256) - 128
  | KInt16 => ((to_int32 x + 32768) mod 65536) - 32768
  | KInt32 => to_int32 x
  | _ => to_int64 x
  end%Z.

(* argConverterByGoalKind[kind], then Convert(parameter type) *)
Definition convert_arg (t : gotype) (v : value) : option goval :=
  match gk t, v with
  | (KInt | KInt8 | KInt16 | KInt32 | KInt64), VNum x => Some {| vtype := t; vpay := PInt (int_conv (gk t) x) |}
  | KFloat32, VNum x => Some {| vtype := t; vpay := PFloat (to_f32 x) |}
  | KFloat64, VNum x => Some {| vtype := t; vpay := PFloat x |}
  | KBool, VBool b => Some {| vtype := t; vpay := PBool b |}
  | KString, VStr s => Some {| vtype := t; vpay := PStr s |}
  | _, _ => None
  end.

Fixpoint convert_fixed (ps : list gotype) (args : list value) : option (list goval * list value) :=
  match ps, args with
  | [], rest => Some ([], rest)
  | p :: ps', a :: args' =>
      match convert_arg p a with
      | Some g => match convert_fixed ps' args' with
                  | Some (gs, rest) => Some (g :: gs, rest)
                  | None => None
                  end
      | None => None
      end
  | _ :: _, [] => None                                   (* too few arguments *)
  end.

Fixpoint convert_tail (t : gotype) (args : list value) : option (list goval) :=
  match args with
  | [] => Some []
  | a :: r => match convert_arg t a, convert_tail t r with
              | Some g, Some gs => Some (g :: gs)
              | _, _ => None
              end
  end.

(* the input converter: None = "too few / too many arguments" or a wrongly typed argument *)
Definition convert_args (s : signature) (args : list value) : option (list goval) :=
  match convert_fixed (params s) args with
  | None => None
  | Some (gs, rest) =>
      match variadic s with
      | None => match rest with [] => Some gs | _ => None end
      | Some t => option_map (app gs) (convert_tail t rest)
      end
  end.

(* reflect.Value.Call's precondition: the right number of arguments, each of exactly the
   parameter's type (the variadic ones of the element type) *)
Fixpoint call_ok_fixed (ps : list gotype) (gs : list goval) : option (list goval) :=
  match ps, gs with
  | [], rest => Some rest
  | p :: ps', g :: gs' => if gotype_eqb (vtype g) p then call_ok_fixed ps' gs' else None
  | _ :: _, [] => None
  end.

Definition call_ok (s : signature) (gs : list goval) : bool :=
  match call_ok_fixed (params s) gs with
  | None => false
  | Some rest => match variadic s with
                 | None => match rest with [] => true | _ => false end
                 | Some t => forallb (fun g => gotype_eqb (vtype g) t) rest
                 end
  end.

(* getTreeValue *)
Definition tree_value (g : goval) : option value :=
  match gk (vtype g), vpay g with
  | (KFloat32 | KFloat64), PFloat f => Some (VNum f)
  | (KInt | KInt8 | KInt16 | KInt32 | KInt64), PInt z => Some (VNum (of_Z z))
  | KBool, PBool b => Some (VBool b)
  | KString, PStr s => Some (VStr s)
  | _, _ => None
  end.

(* what a host function returns: its results, an error result being nil or not *)
Inductive hostret := HRet (vals : list goval) (err_is_nil : bool).

(* the wrapper built by newYarnSpinnerFunction *)
Definition call_function_bridge (b : bridged) (host : list goval -> hostret) (args : list value)
  : outcome (option value) :=
  match convert_args (bsig b) args with
  | None => Fail
  | Some gs =>
      if negb (call_ok (bsig b) gs) then Crash               (* reflect.Call would panic *)
      else
        match host gs with
        | HRet vals enil =>
            match bret b with
            | NoReturn => Val None
            | ValueReturn => match vals with
                             | v :: _ => match tree_value v with Some x => Val (Some x) | None => Fail end
                             | [] => Crash
                             end
            | ErrorReturn => if enil then Val None else Fail
            | ValueErrorReturn => if enil then
                                    match vals with
                                    | v :: _ => match tree_value v with Some x => Val (Some x) | None => Fail end
                                    | [] => Crash
                                    end
                                  else Fail
            | ErrorChanReturn => Val None
            end
        end
  end.

(* the wrapper built by newYarnSpinnerCommand; what the returned channel eventually delivers:
   true = nil (done), false = an error.  [chan_nil]: the handler returned a nil channel. *)
Definition call_command_bridge (b : bridged) (host : list goval -> hostret) (chan_nil : bool) (args : list value)
  : outcome bool :=
  match convert_args (bsig b) args with
  | None => Val false
  | Some gs =>
      if negb (call_ok (bsig b) gs) then Crash
      else
        match host gs with
        | HRet vals enil =>
            match bret b with
            | NoReturn => Val true
            | ErrorReturn => Val enil
            | ErrorChanReturn =>
                if chan_nil then Val false
                else match results (bsig b) with
                     | [o] => if gplain_err_chan o then Val enil else Val false
                     | _ => Crash
                     end
            | _ => Crash
            end
        end
  end.

(* ---- the catalogue of Go types the harness can build signatures from ---- *)
Definition mk_t (k : kind) (name : N) (err : bool) : gotype :=
  {| gk := k; gname := name; gerr := err; gdir := DBoth; gelem_err := false; gplain_err_chan := false |}.
Definition mk_chan (name : N) (d : chandir) (elem_err plain : bool) : gotype :=
  {| gk := KChan; gname := name; gerr := false; gdir := d; gelem_err := elem_err; gplain_err_chan := plain |}.

Definition type_of_id (s : str) : option gotype :=
  if str_eqb s (STR "int") then Some (mk_t KInt 0%N false) else if str_eqb s (STR "int8") then Some (mk_t KInt8 0%N false)
  else if str_eqb s (STR "int16") then Some (mk_t KInt16 0%N false) else if str_eqb s (STR "int32") then Some (mk_t KInt32 0%N false)
  else if str_eqb s (STR "int64") then Some (mk_t KInt64 0%N false) else if str_eqb s (STR "uint") then Some (mk_t KUint 0%N false)
  else if str_eqb s (STR "float32") then Some (mk_t KFloat32 0%N false) else if str_eqb s (STR "float64") then Some (mk_t KFloat64 0%N false)
  else if str_eqb s (STR "bool") then Some (mk_t KBool 0%N false) else if str_eqb s (STR "string") then Some (mk_t KString 0%N false)
  else if str_eqb s (STR "error") then Some (mk_t KIface 0%N true) else if str_eqb s (STR "any") then Some (mk_t KIface 0%N false)
  else if str_eqb s (STR "MyInt") then Some (mk_t KInt 1%N false) else if str_eqb s (STR "MyInt8") then Some (mk_t KInt8 2%N false)
  else if str_eqb s (STR "MyInt16") then Some (mk_t KInt16 3%N false) else if str_eqb s (STR "MyInt32") then Some (mk_t KInt32 4%N false)
  else if str_eqb s (STR "MyInt64") then Some (mk_t KInt64 5%N false) else if str_eqb s (STR "MyFloat32") then Some (mk_t KFloat32 6%N false)
  else if str_eqb s (STR "MyFloat64") then Some (mk_t KFloat64 7%N false) else if str_eqb s (STR "MyBool") then Some (mk_t KBool 8%N false)
  else if str_eqb s (STR "MyString") then Some (mk_t KString 9%N false)
  else if str_eqb s (STR "MyIntB") then Some (mk_t KInt 13%N false) else if str_eqb s (STR "MyInt64B") then Some (mk_t KInt64 14%N false)
  else if str_eqb s (STR "MyFloat64B") then Some (mk_t KFloat64 15%N false) else if str_eqb s (STR "MyBoolB") then Some (mk_t KBool 16%N false)
  else if str_eqb s (STR "MyStringB") then Some (mk_t KString 17%N false)
  (* defined types of a value kind that also implement error (they have an Error() method) *)
  else if str_eqb s (STR "MyErrInt") then Some (mk_t KInt 18%N true) else if str_eqb s (STR "MyErrString") then Some (mk_t KString 19%N true)
  else if str_eqb s (STR "MyErrFloat64") then Some (mk_t KFloat64 20%N true) else if str_eqb s (STR "MyErrBool") then Some (mk_t KBool 21%N true)
  else if str_eqb s (STR "MyErr") then Some (mk_t KStruct 10%N true) else if str_eqb s (STR "MyStruct") then Some (mk_t KStruct 11%N false)
  else if str_eqb s (STR "[]int") then Some (mk_t KSlice 0%N false) else if str_eqb s (STR "*int") then Some (mk_t KPtr 0%N false)
  else if str_eqb s (STR "chan error") then Some (mk_chan 0%N DBoth true true)
  else if str_eqb s (STR "<-chan error") then Some (mk_chan 0%N DRecv true true)
  else if str_eqb s (STR "chan<- error") then Some (mk_chan 0%N DSend true false)
  else if str_eqb s (STR "MyChan") then Some (mk_chan 12%N DBoth true false)
  else if str_eqb s (STR "chan int") then Some (mk_chan 0%N DBoth false false)
  else if str_eqb s (STR "chan MyErr") then Some (mk_chan 0%N DBoth true false)
  else None.
