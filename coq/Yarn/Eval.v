(* evaluator.go, base_functions.go, function_storer.go (call path and the converters of the built-in
   signatures), internal/rng/rng.go over a raw Int63 stream.  Host (probe) functions are the fixed
   library the harness registers on the Go side; every call is logged. *)
From Coq Require Import List ZArith NArith Bool.
From YS Require Import Base.Sexp Num.F64 Num.Decimal Yarn.Ast Yarn.Value.
Import ListNotations.

(* Go: a value, an error, or a panic *)
Inductive outcome (A : Type) := Val (a : A) | Fail | Crash.
Arguments Val {A}. Arguments Fail {A}. Arguments Crash {A}.

Inductive hevent :=
| HCall (f : str) (args : list value)            (* a host function ran *)
| HCmd (name : str) (args : list value).         (* a host command handler ran *)

(* the part of the runner state function calls can change *)
Record fenv := { rng : list Z;                   (* remaining raw Int63 values of the runner's source *)
                 hlog : list hevent }.           (* newest first *)

(* what evaluation reads *)
Record renv := { rvars : store; rvisits : alist Z }.

Definition log_call (e : fenv) (f : str) (args : list value) : fenv :=
  {| rng := rng e; hlog := HCall f args :: hlog e |}.

(* ---- math/rand over the raw stream (Rand.Intn / Int31n / Int63n / Float64) ---- *)
Definition draw (e : fenv) : Z * fenv :=
  match rng e with
  | [] => (0%Z, e)                                (* stream exhausted: the harness supplies enough *)
  | v :: r => (v, {| rng := r; hlog := hlog e |})
  end.

Local Open Scope Z_scope.

Fixpoint int31n_loop (fuel : nat) (n max : Z) (e : fenv) : Z * fenv :=
  let '(v63, e1) := draw e in
  let v := v63 / 2 ^ 32 in
  match fuel with
  | O => (v mod n, e1)
  | S f => if max <? v then int31n_loop f n max e1 else (v mod n, e1)
  end.

Fixpoint int63n_loop (fuel : nat) (n max : Z) (e : fenv) : Z * fenv :=
  let '(v, e1) := draw e in
  match fuel with
  | O => (v mod n, e1)
  | S f => if max <? v then int63n_loop f n max e1 else (v mod n, e1)
  end.

Definition is_pow2 (n : Z) : bool := Z.land n (n - 1) =? 0.

(* rand.Intn for n > 0 *)
Definition intn (n : Z) (e : fenv) : Z * fenv :=
  if n <=? 2 ^ 31 - 1 then
    if is_pow2 n then let '(v63, e1) := draw e in (Z.land (v63 / 2 ^ 32) (n - 1), e1)
    else int31n_loop 64 n (2 ^ 31 - 1 - (2 ^ 31) mod n) e
  else
    if is_pow2 n then let '(v, e1) := draw e in (Z.land v (n - 1), e1)
    else int63n_loop 64 n (2 ^ 63 - 1 - (2 ^ 63) mod n) e.

(* rand.Float64 *)
Fixpoint float64_loop (fuel : nat) (e : fenv) : f64 * fenv :=
  let '(v, e1) := draw e in
  let f := fdiv (of_Z v) (of_Z (2 ^ 63)) in        (* float64(r.Int63()) / (1 << 63) *)
  match fuel with
  | O => (f, e1)
  | S k => if feqb f fone then float64_loop k e1 else (f, e1)
  end.

(* ---- math.Pow10 ---- *)
Definition lit10 (k : Z) : f64 :=                 (* the correctly rounded literal 1e<k> *)
  if 0 <=? k then round_ratio false (10 ^ k) 1 else round_ratio false 1 (10 ^ (- k)).

Definition pow10 (n : Z) : f64 :=
  if (0 <=? n) && (n <=? 308) then fmul (lit10 (32 * (n / 32))) (lit10 (n mod 32))
  else if (-323 <=? n) && (n <? 0) then fdiv (lit10 (- (32 * ((- n) / 32)))) (lit10 ((- n) mod 32))
  else if 0 <? n then finf false
  else fzero.

(* ---- the built-in library (base_functions.go, after the repair of D6) ---- *)
Definition as_num (v : value) : option f64 := match v with VNum n => Some n | _ => None end.

Definition parse_bool (s : str) : option bool :=
  if str_eqb s (STR "1") || str_eqb s (STR "t") || str_eqb s (STR "T") || str_eqb s (STR "TRUE")
     || str_eqb s (STR "true") || str_eqb s (STR "True") then Some true
  else if str_eqb s (STR "0") || str_eqb s (STR "f") || str_eqb s (STR "F") || str_eqb s (STR "FALSE")
     || str_eqb s (STR "false") || str_eqb s (STR "False") then Some false
  else None.

Definition num1 (g : f64 -> f64) (args : list value) : outcome (option value) :=
  match args with
  | [VNum n] => Val (Some (VNum (g n)))
  | _ => Fail
  end.

Definition f_inc (f : f64) := fadd (ffloor f) fone.
Definition f_dec (f : f64) := fsub (fceil f) fone.
Definition f_decimal (f : f64) := fsub f (ftrunc f).
Definition f_round_places (f : f64) (places : Z) : f64 :=
  let t := pow10 places in fdiv (fround (fmul f t)) t.

(* result None = the Go function returned a nil *Value with a nil error *)
Definition call_builtin (v : renv) (f : str) (args : list value) (e : fenv)
  : option (outcome (option value) * fenv) :=
  let pure (o : outcome (option value)) := Some (o, e) in
  if str_eqb f (STR "string") then
    pure (match args with [a] => Val (Some (VStr (to_string a))) | _ => Fail end)
  else if str_eqb f (STR "bool") then
    pure (match args with
          | [VNum n] => Val (Some (VBool (negb (feqb n fzero))))
          | [VBool b] => Val (Some (VBool b))
          | [VStr s] => match parse_bool s with Some b => Val (Some (VBool b)) | None => Fail end
          | _ => Fail
          end)
  else if str_eqb f (STR "number") then
    pure (match args with
          | [VNum n] => Val (Some (VNum n))
          | [VBool b] => Val (Some (VNum (if b then fone else fzero)))
          | [VStr s] => match parse_float s with Some n => Val (Some (VNum n)) | None => Fail end
          | _ => Fail
          end)
  else if str_eqb f (STR "dice") then
    match args with
    | [VNum n] => let sides := to_int64 n in
                  if sides <? 1 then pure Fail
                  else let '(r, e1) := intn (wrap64 (sides - 1 + 1)) e in
                       Some (Val (Some (VNum (of_Z (wrap64 (1 + r))))), e1)
    | _ => pure Fail
    end
  else if str_eqb f (STR "random_range") then
    match args with
    | [VNum a; VNum b] =>
        let lo := to_int64 a in let hi := to_int64 b in
        if hi <? lo then pure Fail
        else let n := wrap64 (wrap64 (hi - lo) + 1) in
             if n <=? 0 then pure Fail
             else let '(r, e1) := intn n e in
                  Some (Val (Some (VNum (of_Z (wrap64 (lo + r))))), e1)
    | _ => pure Fail
    end
  else if str_eqb f (STR "random") then
    match args with
    | [] => let '(x, e1) := float64_loop 16 e in Some (Val (Some (VNum x)), e1)
    | _ => pure Fail
    end
  else if str_eqb f (STR "round") then pure (num1 fround args)
  else if str_eqb f (STR "round_places") then
    pure (match args with
          | [VNum x; VNum p] => Val (Some (VNum (f_round_places x (to_int64 p))))
          | _ => Fail
          end)
  else if str_eqb f (STR "floor") then pure (num1 ffloor args)
  else if str_eqb f (STR "ceil") then pure (num1 fceil args)
  else if str_eqb f (STR "inc") then pure (num1 f_inc args)
  else if str_eqb f (STR "dec") then pure (num1 f_dec args)
  else if str_eqb f (STR "decimal") then pure (num1 f_decimal args)
  else if str_eqb f (STR "integer") then pure (num1 ftrunc args)
  else if str_eqb f (STR "visited") then
    pure (match args with
          | [VStr n] => Val (Some (VBool (match aget (rvisits v) n with Some c => 0 <? c | None => false end)))
          | _ => Fail
          end)
  else if str_eqb f (STR "visited_count") then
    pure (match args with
          | [VStr n] => Val (Some (VNum (of_Z (match aget (rvisits v) n with Some c => c | None => 0 end))))
          | _ => Fail
          end)
  else None.

(* ---- the probe library registered by the harness with AddFunction (raw functions) ----
   p(args...)     logs, returns its last argument (an error without arguments)
   noret(args...) logs, returns nothing (nil value, nil error)
   fail(args...)  logs, returns an error *)
Definition call_probe (f : str) (args : list value) (e : fenv)
  : option (outcome (option value) * fenv) :=
  if str_eqb f (STR "p") then
    Some (match rev args with v :: _ => Val (Some v) | [] => Fail end, log_call e f args)
  else if str_eqb f (STR "noret") then Some (Val None, log_call e f args)
  else if str_eqb f (STR "fail") then Some (Fail, log_call e f args)
  else None.

(* functionStorer.call: unknown function -> error *)
Definition call_function (v : renv) (f : str) (args : list value) (e : fenv)
  : outcome (option value) * fenv :=
  match call_probe f args e with
  | Some r => r
  | None => match call_builtin v f args e with
            | Some r => r
            | None => (Fail, e)
            end
  end.

(* ---- evaluateExpression / evaluateBinaryOperation / evaluateFunctionCall ---- *)
Definition same_type (a b : value) : bool :=
  match a, b with
  | VNum _, VNum _ | VBool _, VBool _ | VStr _, VStr _ => true
  | _, _ => false
  end.

(* the operator switch, once both operands have the same type *)
Definition apply_binop (o : binop) (a b : value) : outcome value :=
  match o, a, b with
  | OMul, VNum x, VNum y => Val (VNum (fmul x y))
  | ODiv, VNum x, VNum y => Val (VNum (fdiv x y))
  | OMod, VNum x, VNum y => Val (VNum (fmod x y))
  | OAdd, VNum x, VNum y => Val (VNum (fadd x y))
  | OAdd, VStr x, VStr y => Val (VStr (x ++ y))
  | OSub, VNum x, VNum y => Val (VNum (fsub x y))
  | OLe, VNum x, VNum y => Val (VBool (fleb x y))
  | OGe, VNum x, VNum y => Val (VBool (fleb y x))
  | OLt, VNum x, VNum y => Val (VBool (fltb x y))
  | OGt, VNum x, VNum y => Val (VBool (fltb y x))
  | OEq, VNum x, VNum y => Val (VBool (feqb x y))
  | OEq, VBool x, VBool y => Val (VBool (Bool.eqb x y))
  | OEq, VStr x, VStr y => Val (VBool (str_eqb x y))
  | ONe, VNum x, VNum y => Val (VBool (negb (feqb x y)))
  | ONe, VBool x, VBool y => Val (VBool (negb (Bool.eqb x y)))
  | ONe, VStr x, VStr y => Val (VBool (negb (str_eqb x y)))
  | OAnd, VBool _, VBool y => Val (VBool y)
  | OOr, VBool _, VBool y => Val (VBool y)
  | OXor, VBool x, VBool y => Val (VBool (xorb x y))
  | _, _, _ => Fail
  end.

Fixpoint eval (v : renv) (x : expr) (e : fenv) : outcome value * fenv :=
  match x with
  | EVar id => (match st_get (rvars v) id with Some a => Val a | None => Fail end, e)
  | ECall f args =>
      let fix eval_args (l : list expr) (e : fenv) : outcome (list value) * fenv :=
        match l with
        | [] => (Val [], e)
        | a :: r => match eval v a e with
                    | (Val va, e1) => match eval_args r e1 with
                                      | (Val vr, e2) => (Val (va :: vr), e2)
                                      | (Fail, e2) => (Fail, e2)
                                      | (Crash, e2) => (Crash, e2)
                                      end
                    | (Fail, e1) => (Fail, e1)
                    | (Crash, e1) => (Crash, e1)
                    end
        end in
      match eval_args args e with
      | (Val vs, e1) => match call_function v f vs e1 with
                        | (Val (Some r), e2) => (Val r, e2)
                        | (Val None, e2) => (Fail, e2)        (* D5: no value in value position *)
                        | (Fail, e2) => (Fail, e2)
                        | (Crash, e2) => (Crash, e2)
                        end
      | (Fail, e1) => (Fail, e1)
      | (Crash, e1) => (Crash, e1)
      end
  | EVal a => (Val a, e)
  | ENeg a => match eval v a e with
              | (Val (VNum n), e1) => (Val (VNum (fneg n)), e1)
              | (Val _, e1) => (Fail, e1)
              | r => r
              end
  | ENot a => match eval v a e with
              | (Val (VBool b), e1) => (Val (VBool (negb b)), e1)
              | (Val _, e1) => (Fail, e1)
              | r => r
              end
  | EBin o l r =>
      match eval v l e with
      | (Val lv, e1) =>
          let lazy_stop :=
            match o, lv with
            | OAnd, VBool false => Some (Val lv)
            | OAnd, VBool true => None
            | OAnd, _ => Some Fail
            | OOr, VBool true => Some (Val lv)
            | OOr, VBool false => None
            | OOr, _ => Some Fail
            | _, _ => None
            end in
          match lazy_stop with
          | Some res => (res, e1)
          | None =>
              match eval v r e1 with
              | (Val rv, e2) => (if same_type lv rv then apply_binop o lv rv else Fail, e2)
              | res => res
              end
          end
      | res => res
      end
  | ENull => (Fail, e)                                         (* D4 *)
  end.

(* arguments of call statements / command elements: left to right, stop at the first failure *)
Fixpoint eval_list (v : renv) (l : list expr) (e : fenv) : outcome (list value) * fenv :=
  match l with
  | [] => (Val [], e)
  | a :: r => match eval v a e with
              | (Val va, e1) => match eval_list v r e1 with
                                | (Val vr, e2) => (Val (va :: vr), e2)
                                | (Fail, e2) => (Fail, e2)
                                | (Crash, e2) => (Crash, e2)
                                end
              | (Fail, e1) => (Fail, e1)
              | (Crash, e1) => (Crash, e1)
              end
  end.
