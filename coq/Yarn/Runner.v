(* runner.go (after the repairs D1, D8, D12, D13, D26): the dialogue runner.
   Same control structure as the Go code: Next re-applies the choice and polls the pending command
   on every recursive call, exhausted queues are popped one recursive call at a time, one Set* call
   at the end of a set statement, jump = find node, count the node being left, checkpoint the
   variables, clear and push.  The recursion of Next (unbounded through jump cycles) runs on fuel. *)
From Coq Require Import List ZArith NArith Bool.
From YS Require Import Base.Sexp Num.F64 Yarn.Ast Yarn.Value Yarn.Eval Markup.LineParser.
Import ListNotations.

Inductive cresult := CNil | CErr.                 (* what a command reports on its channel *)

Inductive sevent := SetN (k : str) (n : f64) | SetB (k : str) (b : bool) | SetS (k : str) (x : str)
                  | SClearAll.

(* everything but the continuation *)
Record dstate := {
  vars : store;                                   (* the storer's contents *)
  slog : list sevent;                             (* Set*/Clear calls received by the storer, newest first *)
  pending : option (nat * cresult);               (* commandErrChan: polls still to fail, then the result *)
  cur : str;                                      (* currentNode *)
  visits : alist Z;                               (* visitedNodes *)
  vsnap : alist value;                            (* variableSnapshot *)
  fe : fenv;                                      (* RNG stream and host log *)
  sched : list (nat * cresult);                   (* completion schedule of the host commands to come *)
  hcmds : list str;                               (* names registered with AddCommand by the host *)
  (* ghost history, not in the Go code: the nodes left by successful jumps since the last restore
     (newest first) and the visit counts at that restore; used to state C11 *)
  jlog : list str;
  vbase : alist Z
}.

Record rstate := {
  stack : list (list stmt);                       (* statementsToRun, top first; remaining statements *)
  last_opts : option (list (line * list stmt));   (* lastStatement when it is an option group *)
  dat : dstate
}.

Definition upd_fe (s : dstate) (e : fenv) : dstate :=
  {| vars := vars s; slog := slog s; pending := pending s;
     cur := cur s; visits := visits s; vsnap := vsnap s; fe := e; sched := sched s; hcmds := hcmds s; jlog := jlog s; vbase := vbase s |}.

Definition upd_pending (s : dstate) (p : option (nat * cresult)) : dstate :=
  {| vars := vars s; slog := slog s; pending := p;
     cur := cur s; visits := visits s; vsnap := vsnap s; fe := fe s; sched := sched s; hcmds := hcmds s; jlog := jlog s; vbase := vbase s |}.

Definition upd_vars (s : dstate) (v : store) (ev : sevent) : dstate :=
  {| vars := v; slog := ev :: slog s; pending := pending s;
     cur := cur s; visits := visits s; vsnap := vsnap s; fe := fe s; sched := sched s; hcmds := hcmds s; jlog := jlog s; vbase := vbase s |}.

Definition renv_of (s : dstate) : renv := {| rvars := vars s; rvisits := visits s |}.

Definition eval_in (s : dstate) (x : expr) : outcome value * dstate :=
  let '(o, e) := eval (renv_of s) x (fe s) in (o, upd_fe s e).

(* ---- what Next returns ---- *)
Record rline := { rtext : str; rattrs : list attribute; rtags : list str }.
Inductive elem := ELine (n : str) (l : rline) | EOpts (n : str) (os : list (rline * bool)).
Inductive nres := NElem (e : elem) | NEnd | NErr | NWait | NPanic | NFuel.

(* textElementsToMarkup *)
Fixpoint render_parts (s : dstate) (ps : list telem) (acc : str) : outcome str * dstate :=
  match ps with
  | [] => (Val acc, s)
  | TText t :: r => render_parts s r (acc ++ t)
  | TExpr x :: r => match eval_in s x with
                    | (Val v, s1) => render_parts s1 r (acc ++ to_string v)
                    | (Fail, s1) => (Fail, s1)
                    | (Crash, s1) => (Crash, s1)
                    end
  end.

Definition render_line (s : dstate) (l : line) : outcome rline * dstate :=
  match render_parts s (ltext l) [] with
  | (Val txt, s1) => match parse_markup txt with
                     | Some (t, attrs) => (Val {| rtext := t; rattrs := attrs; rtags := ltags l |}, s1)
                     | None => (Fail, s1)
                     end
  | (Fail, s1) => (Fail, s1)
  | (Crash, s1) => (Crash, s1)
  end.

Fixpoint render_options (s : dstate) (os : list (line * list stmt)) : outcome (list (rline * bool)) * dstate :=
  match os with
  | [] => (Val [], s)
  | (l, _) :: r =>
      match render_line s l with
      | (Val rl, s1) =>
          let '(dis, s2) := match lcond l with
                            | None => (Val false, s1)
                            | Some c => match eval_in s1 c with
                                        | (Val (VBool b), s2) => (Val (negb b), s2)
                                        | (Val _, s2) => (Fail, s2)
                                        | (Fail, s2) => (Fail, s2)
                                        | (Crash, s2) => (Crash, s2)
                                        end
                            end in
          match dis with
          | Val d => match render_options s2 r with
                     | (Val rest, s3) => (Val ((rl, d) :: rest), s3)
                     | (Fail, s3) => (Fail, s3)
                     | (Crash, s3) => (Crash, s3)
                     end
          | Fail => (Fail, s2)
          | Crash => (Crash, s2)
          end
      | (Fail, s1) => (Fail, s1)
      | (Crash, s1) => (Crash, s1)
      end
  end.

(* executeSetStatement *)
Definition exec_set (x : str) (op : setop) (e : expr) (s : dstate) : bool * dstate :=
  match eval_in s e with
  | (Val v, s1) =>
      let prev := st_get (vars s1) x in
      let type_ok := match prev with
                     | Some p => same_type v p
                     | None => match op with SAssign => true | _ => false end
                     end in
      if negb type_ok then (false, s1) else
      match v with
      | VNum n =>
          let pn := match prev with Some (VNum p) => p | _ => fzero end in
          let r := match op with
                   | SAssign => n
                   | SMulEq => fmul pn n
                   | SDivEq => fdiv pn n
                   | SModEq => fmod pn n
                   | SAddEq => fadd pn n
                   | SSubEq => fsub pn n
                   end in
          (true, upd_vars s1 (st_set_num (vars s1) x r) (SetN x r))
      | VBool b =>
          match op with
          | SAssign => (true, upd_vars s1 (st_set_bool (vars s1) x b) (SetB x b))
          | _ => (false, s1)
          end
      | VStr t =>
          let ps := match prev with Some (VStr p) => p | _ => [] end in
          match op with
          | SAssign => (true, upd_vars s1 (st_set_str (vars s1) x t) (SetS x t))
          | SAddEq => (true, upd_vars s1 (st_set_str (vars s1) x (ps ++ t)) (SetS x (ps ++ t)))
          | _ => (false, s1)
          end
      end
  | (_, s1) => (false, s1)
  end.

(* incrementNodeTrackingIfAllowed *)
Definition tracked (d : dialogue) (t : str) : bool :=
  match find_node d t with
  | Some n => match last_header (headers n) (STR "tracking") with
              | Some v => negb (str_eqb v (STR "never"))
              | None => true
              end
  | None => false
  end.

Definition bump (m : alist Z) (k : str) : alist Z :=
  aset m k (match aget m k with Some c => c + 1 | None => 1 end)%Z.

(* executeJumpStatement: Some body = the statements of the target node *)
Definition exec_jump (d : dialogue) (e : expr) (s : dstate) : option (list stmt) * dstate :=
  match eval_in s e with
  | (Val (VStr t), s1) =>
      match find_node d t with
      | Some n =>
          (Some (body n),
           {| vars := vars s1; slog := slog s1; pending := pending s1; cur := title n;
              visits := if tracked d (cur s1) then bump (visits s1) (cur s1) else visits s1;
              vsnap := st_values (vars s1); fe := fe s1; sched := sched s1; hcmds := hcmds s1;
              jlog := cur s1 :: jlog s1; vbase := vbase s1 |})
      | None => (None, s1)
      end
  | (_, s1) => (None, s1)
  end.

(* executeIfStatement: Some body = the first true clause; None = no clause *)
Fixpoint exec_if (cs : list (expr * list stmt)) (s : dstate) : outcome (option (list stmt)) * dstate :=
  match cs with
  | [] => (Val None, s)
  | (c, b) :: r => match eval_in s c with
                   | (Val (VBool true), s1) => (Val (Some b), s1)
                   | (Val (VBool false), s1) => exec_if r s1
                   | (Val _, s1) => (Fail, s1)
                   | (Fail, s1) => (Fail, s1)
                   | (Crash, s1) => (Crash, s1)
                   end
  end.

Inductive cmd_result := CmdStop | CmdDone | CmdWait | CmdErr.

Definition mem_str (x : str) (l : list str) : bool := existsb (str_eqb x) l.

(* executeCommandStatement + commandStorer.call + the host's raw handlers + waitCommand *)
Definition exec_command (es : list expr) (s : dstate) : cmd_result * dstate :=
  match es with
  | [] => (CmdErr, s)
  | _ =>
    let '(o, e1) := eval_list (renv_of s) es (fe s) in
    let s1 := upd_fe s e1 in
    match o with
    | Val (VStr name :: args) =>
        if str_eqb name (STR "stop") then (CmdStop, s1)
        else if mem_str name (hcmds s1) then
          let e2 := {| rng := rng (fe s1); hlog := HCmd name args :: hlog (fe s1) |} in
          let '(polls, r) := match sched s1 with [] => (O, CNil) | x :: _ => x end in
          let s2 := {| vars := vars s1; slog := slog s1;
                       pending := match polls with O => None | S k => Some (k, r) end;
                       cur := cur s1; visits := visits s1; vsnap := vsnap s1; fe := e2;
                       sched := tl (sched s1); hcmds := hcmds s1; jlog := jlog s1; vbase := vbase s1 |} in
          match polls, r with
          | O, CNil => (CmdDone, s2)
          | O, CErr => (CmdErr, s2)
          | S _, _ => (CmdWait, s2)
          end
        else if str_eqb name (STR "wait") then
          match args with
          | [VNum _] => (CmdWait, upd_pending s1 (Some (O, CNil)))
          | _ => (CmdErr, s1)
          end
        else (CmdErr, s1)                              (* unknown command *)
    | Val _ => (CmdErr, s1)                            (* first element is not a string *)
    | _ => (CmdErr, s1)
    end
  end.

(* executeCallStatement *)
Definition exec_call (f : str) (args : list expr) (s : dstate) : bool * dstate :=
  let '(o, e1) := eval_list (renv_of s) args (fe s) in
  match o with
  | Val vs => let '(r, e2) := call_function (renv_of s) f vs e1 in
              (match r with Val _ => true | _ => false end, upd_fe s e2)
  | _ => (false, upd_fe s e1)
  end.

Definition is_nil {A} (l : list A) : bool := match l with [] => true | _ => false end.

(* the poll of the pending command at the top of Next *)
Definition poll (s : dstate) : option nres * dstate :=
  match pending s with
  | None => (None, s)
  | Some (S k, r) => (Some NWait, upd_pending s (Some (k, r)))
  | Some (O, CNil) => (None, upd_pending s None)
  | Some (O, CErr) => (Some NErr, upd_pending s None)
  end.

(* the body the choice selects when the last element was an option group; None = index out of range *)
Definition chosen_body (lo : option (list (line * list stmt))) (choice : Z) : option (list stmt) :=
  match lo with
  | None => Some []
  | Some os =>
      if ((choice <? 0) || (Z.of_nat (length os) <=? choice))%Z then None
      else option_map snd (nth_error os (Z.to_nat choice))
  end.

Definition mk (st : list (list stmt)) (lo : option (list (line * list stmt))) (s : dstate) : rstate :=
  {| stack := st; last_opts := lo; dat := s |}.

(* DialogueRunner.Next *)
Fixpoint next (d : dialogue) (fuel : nat) (s : rstate) (choice : Z) : nres * rstate :=
  match fuel with
  | O => (NFuel, s)
  | S f =>
    match poll (dat s) with
    | (Some r, s0) => (r, mk (stack s) (last_opts s) s0)
    | (None, s0) =>
      match chosen_body (last_opts s) choice with
      | None => (NPanic, mk (stack s) (last_opts s) s0)
      | Some b =>
        let st1 := if is_nil b then stack s else b :: stack s in
        match st1 with
        | [] => (NEnd, mk [] None s0)
        | [] :: rest => next d f (mk rest (last_opts s) s0) choice
        | (st :: q) :: rest =>
            let stk := q :: rest in
            match st with
            | SLine l =>
                match render_line s0 l with
                | (Val rl, s3) => (NElem (ELine (cur s3) rl), mk stk None s3)
                | (Fail, s3) => (NErr, mk stk None s3)
                | (Crash, s3) => (NPanic, mk stk None s3)
                end
            | SOpts os =>
                match render_options s0 os with
                | (Val ros, s3) => (NElem (EOpts (cur s3) ros), mk stk (Some os) s3)
                | (Fail, s3) => (NErr, mk stk None s3)
                | (Crash, s3) => (NPanic, mk stk None s3)
                end
            | SSet x op e =>
                match exec_set x op e s0 with
                | (true, s3) => next d f (mk stk None s3) choice
                | (false, s3) => (NErr, mk stk None s3)
                end
            | SDeclare x e =>
                match exec_set x SAssign e s0 with
                | (true, s3) => next d f (mk stk None s3) choice
                | (false, s3) => (NErr, mk stk None s3)
                end
            | SJump e =>
                match exec_jump d e s0 with
                | (Some b', s3) => next d f (mk [b'] None s3) choice
                | (None, s3) => (NErr, mk stk None s3)
                end
            | SIf cs =>
                match exec_if cs s0 with
                | (Val (Some b'), s3) => next d f (mk (b' :: stk) None s3) choice
                | (Val None, s3) => next d f (mk stk None s3) choice
                | (Fail, s3) => (NErr, mk stk None s3)
                | (Crash, s3) => (NPanic, mk stk None s3)
                end
            | SCmd es =>
                match exec_command es s0 with
                | (CmdStop, s3) => (NEnd, mk [] None s3)
                | (CmdDone, s3) => next d f (mk stk None s3) choice
                | (CmdWait, s3) => (NWait, mk stk None s3)
                | (CmdErr, s3) => (NErr, mk stk None s3)
                end
            | SCall fn args =>
                match exec_call fn args s0 with
                | (true, s3) => next d f (mk stk None s3) choice
                | (false, s3) => (NErr, mk stk None s3)
                end
            end
        end
      end
    end
  end.

(* ---- snapshots (after the repair of D8: values, no sharing) ---- *)
Record snapshot := { svars : alist value; snode : str; svisits : alist Z }.

Definition take_snapshot (s : dstate) : snapshot :=
  {| svars := vsnap s; snode := cur s; svisits := visits s |}.

Definition restore_sets (m : alist value) : list sevent :=
  map (fun kv => match snd kv with
                 | VNum n => SetN (fst kv) n | VBool b => SetB (fst kv) b | VStr x => SetS (fst kv) x
                 end) (sort_alist m).

Definition restore_at (d : dialogue) (s : rstate) (sn : snapshot) : bool * rstate :=
  match find_node d (snode sn) with
  | None => (false, s)
  | Some n =>
      let ds := dat s in
      (true, mk [body n] None
                {| vars := fold_left (fun st kv => st_set st (fst kv) (snd kv)) (svars sn) empty_store;
                   slog := rev (restore_sets (svars sn)) ++ SClearAll :: slog ds;
                   pending := None; cur := title n; visits := svisits sn; vsnap := svars sn;
                   fe := fe ds; sched := sched ds; hcmds := hcmds ds; jlog := []; vbase := svisits sn |})
  end.

(* NewDialogueRunner on an already parsed dialogue *)
Definition new_runner (d : dialogue) (init : store) (stream : list Z) (sc : list (nat * cresult))
           (cmds : list str) : option rstate :=
  match d with
  | [] => None
  | n :: _ => Some (mk [body n] None
                       {| vars := init; slog := []; pending := None;
                          cur := title n; visits := []; vsnap := st_values init;
                          fe := {| rng := stream; hlog := [] |}; sched := sc; hcmds := cmds;
                          jlog := []; vbase := [] |})
  end.
