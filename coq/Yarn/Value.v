(* variable/value.go (ToString), variable/in_memory_storer.go, and the few strings/unicode helpers
   the runner relies on. *)
From Coq Require Import List ZArith NArith Bool.
From YS Require Import Base.Sexp Num.F64 Num.Decimal Yarn.Ast.
Import ListNotations.

(* Value.ToString (after the repair of D22) *)
Definition num_to_string (n : f64) : str :=
  let i := to_int64 n in
  if feqb n (of_Z i) then z_to_str i                       (* n == float64(int(n)) -> Itoa *)
  else if is_integral n then fmt_f n                       (* integral, outside the int range *)
  else fmt_g n.                                            (* fmt.Sprint *)

Definition s_True : str := [84; 114; 117; 101]%N.
Definition s_False : str := [70; 97; 108; 115; 101]%N.

Definition to_string (v : value) : str :=
  match v with
  | VNum n => num_to_string n
  | VBool b => if b then s_True else s_False
  | VStr s => s
  end.

(* unicode.IsSpace *)
Definition is_space (c : N) : bool :=
  ((9 <=? c) && (c <=? 13) || (c =? 32) || (c =? 133) || (c =? 160) || (c =? 5760)
   || (8192 <=? c) && (c <=? 8202) || (c =? 8232) || (c =? 8233) || (c =? 8239) || (c =? 8287)
   || (c =? 12288))%N.

Fixpoint trim_left (s : str) : str :=
  match s with
  | c :: r => if is_space c then trim_left r else s
  | [] => []
  end.

(* strings.TrimSpace *)
Definition trim_space (s : str) : str := rev (trim_left (rev (trim_left s))).

(* ---- InMemoryStorer (after the repair of D2): three maps, a name lives in at most one ---- *)
Record store := { nums : alist f64; bools : alist bool; strs : alist str }.

Definition empty_store : store := {| nums := []; bools := []; strs := [] |}.

Definition st_get (s : store) (k : str) : option value :=
  match aget (nums s) k with
  | Some n => Some (VNum n)
  | None => match aget (bools s) k with
            | Some b => Some (VBool b)
            | None => match aget (strs s) k with
                      | Some x => Some (VStr x)
                      | None => None
                      end
            end
  end.

Definition st_set_num (s : store) (k : str) (n : f64) : store :=
  {| nums := aset (nums s) k n; bools := adel (bools s) k; strs := adel (strs s) k |}.
Definition st_set_bool (s : store) (k : str) (b : bool) : store :=
  {| nums := adel (nums s) k; bools := aset (bools s) k b; strs := adel (strs s) k |}.
Definition st_set_str (s : store) (k : str) (x : str) : store :=
  {| nums := adel (nums s) k; bools := adel (bools s) k; strs := aset (strs s) k x |}.

Definition st_set (s : store) (k : str) (v : value) : store :=
  match v with
  | VNum n => st_set_num s k n
  | VBool b => st_set_bool s k b
  | VStr x => st_set_str s k x
  end.

(* GetValues: booleans, then numbers, then strings written into one map (later writes win) *)
Definition st_values (s : store) : alist value :=
  let m1 := fold_left (fun m kv => aset m (fst kv) (VBool (snd kv))) (bools s) [] in
  let m2 := fold_left (fun m kv => aset m (fst kv) (VNum (snd kv))) (nums s) m1 in
  fold_left (fun m kv => aset m (fst kv) (VStr (snd kv))) (strs s) m2.
