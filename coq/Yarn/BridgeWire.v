(* Wire format of the bridge family (C16). *)
From Coq Require Import List ZArith NArith Bool.
From YS Require Import Base.Sexp Num.F64 Yarn.Ast Yarn.Value Yarn.Eval Yarn.Bridge Yarn.RunnerWire.
Import ListNotations.

Definition dec_types (e : sexp) : option (list gotype) :=
  match e with
  | SL l => map_opt (fun x => match x with SS s => type_of_id s | _ => None end) l
  | _ => None
  end.

Definition dec_sig (e : sexp) : option signature :=
  match e with
  | SL [ps; vs; rs] =>
      match dec_types ps, dec_types vs, dec_types rs with
      | Some p, Some v, Some r =>
          Some {| params := p; variadic := match v with t :: _ => Some t | [] => None end; results := r |}
      | _, _, _ => None
      end
  | _ => None
  end.

Definition dec_registrand (e : sexp) : option registrand :=
  match e with
  | SL [SS t] => if tag_is t "nil" then Some RNilInterface
                 else if tag_is t "nonfunc" then Some RNotAFunction else None
  | SL [SS t; sg] => if tag_is t "nilfunc" then option_map RNilFunction (dec_sig sg)
                     else if tag_is t "func" then option_map RFunction (dec_sig sg) else None
  | _ => None
  end.

Local Open Scope string_scope.
Definition kind_name (k : kind) : String.string :=
  match k with
  | KInt => "int" | KInt8 => "int8" | KInt16 => "int16" | KInt32 => "int32" | KInt64 => "int64"
  | KUint => "uint" | KFloat32 => "float32" | KFloat64 => "float64" | KBool => "bool" | KString => "string"
  | KStruct => "struct" | KSlice => "slice" | KPtr => "ptr" | KIface => "interface" | KChan => "chan" | KFunc => "func"
  end.

Definition enc_goval (g : goval) : sexp :=
  SL [ssym (kind_name (gk (vtype g))); sbool (gnamed (vtype g));
      match vpay g with
      | PInt z => SZ z
      | PFloat f => SZ (to_bits f)
      | PBool b => sbool b
      | PStr s => SS s
      end].

(* what the probe returns for a result type *)
Definition canned (t : gotype) : goval :=
  {| vtype := t;
     vpay := match gk t with
             | KFloat32 | KFloat64 => PFloat (fdiv (of_Z 5) (of_Z 2))
             | KBool => PBool true
             | KString => PStr (STR "r")
             | _ => PInt 7%Z
             end |}.

Definition run_bridge_case (args : list sexp) : sexp :=
  match args with
  | [SS which; reg; SZ errnil; SZ channil; SL calls] =>
      match dec_registrand reg, map_opt (fun c => match c with SL vs => map_opt dec_value vs | _ => None end) calls with
      | Some r, Some calls' =>
          let enil := negb (Z.eqb errnil 0) in
          let cnil := negb (Z.eqb channil 0) in
          let is_fn := tag_is which "fn" in
          match (if is_fn then register_function r else register_command r) with
          | None => tagged "reg" [ssym "err"]
          | Some b =>
              (* a result of a concrete type implementing error (a struct) is never nil *)
              let err_is_iface := match rev (results (bsig b)) with
                                  | t :: _ => match gk t with KIface | KChan => true | _ => false end
                                  | [] => true
                                  end in
              let host := fun gs => HRet (map canned (results (bsig b))) (enil && err_is_iface) in
              let one (a : list value) : sexp :=
                let got := match convert_args (bsig b) a with
                           | Some gs => if call_ok (bsig b) gs then [tagged "got" (map enc_goval gs)] else []
                           | None => []
                           end in
                if is_fn then
                  match call_function_bridge b host a with
                  | Val (Some v) => SL (tagged "val" [enc_value v] :: got)
                  | Val None => SL (tagged "nil" [] :: got)
                  | Fail => SL (tagged "err" [] :: got)
                  | Crash => SL [tagged "panic" []]
                  end
                else
                  match call_command_bridge b host cnil a with
                  | Val true => SL (tagged "done" [] :: got)
                  | Val false => SL (tagged "err" [] :: got)
                  | Fail => SL (tagged "err" [] :: got)
                  | Crash => SL [tagged "panic" []]
                  end in
              tagged "reg" [ssym "ok"; SL (map one calls')]
          end
      | _, _ => bad "bridge: decode"
      end
  | _ => bad "bridge: shape"
  end.
