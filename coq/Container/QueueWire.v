(* Wire format for queue / stack operation sequences (payloads are Go ints). *)
From Coq Require Import List ZArith Bool.
From Coq Require String.
Import String.StringSyntax.
From YS Require Import Base.Sexp Container.Queue.
Import ListNotations.
Local Open Scope string_scope.

Definition dec_qop (e : sexp) : option (qop Z) :=
  match untag e with
  | Some (t, [SZ x]) => if tag_is t "enq" then Some (QEnq x) else None
  | Some (t, []) => if tag_is t "deq" then Some QDeq
                    else if tag_is t "peek" then Some QPeek
                    else if tag_is t "size" then Some QSize else None
  | _ => None
  end.

Definition dec_sop (e : sexp) : option (sop Z) :=
  match untag e with
  | Some (t, args) =>
      if tag_is t "pushall" then option_map SPushAll (map_opt as_z args)
      else match args with
           | [SZ x] => if tag_is t "push" then Some (SPush x) else None
           | [] => if tag_is t "pop" then Some SPop
                   else if tag_is t "peek" then Some SPeek
                   else if tag_is t "size" then Some SSize
                   else if tag_is t "clear" then Some SClear else None
           | _ => None
           end
  | None => None
  end.

Definition enc_qres (r : qres Z) : sexp :=
  match r with
  | RNone => tagged "n" []
  | RVal x => tagged "v" [SZ x]
  | RPanic => tagged "panic" []
  | RSize n => tagged "size" [SZ n]
  end.

Definition run_queue_case (args : list sexp) : sexp :=
  match map_opt dec_qop args with
  | Some ops => tagged "res" (map enc_qres (q_run 0%Z empty_q ops))
  | None => bad "queue: decode"
  end.

Definition run_stack_case (args : list sexp) : sexp :=
  match map_opt dec_sop args with
  | Some ops => tagged "res" (map enc_qres (s_run [] ops))
  | None => bad "stack: decode"
  end.
