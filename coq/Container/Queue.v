(* Model of internal/container/queue.go (ring buffer) and stack.go, on an arbitrary element type
   with Go's zero value [d].  Same fields, same branches, same arithmetic; the panics of Dequeue/Peek
   on an empty queue are the [None] results.  No proofs here (see Proofs/QueueProofs.v). *)
From Coq Require Import List ZArith Bool.
Import ListNotations.
Local Open Scope Z_scope.

Section Queue.
  Context {A : Type} (d : A).

  Record queue := { base : list A; first : Z; next : Z }.

  Definition cap (q : queue) : Z := Z.of_nat (length (base q)).

  (* Go zero value of Queue[T] *)
  Definition empty_q : queue := {| base := []; first := 0; next := 0 |}.

  Fixpoint set_nth (l : list A) (n : nat) (x : A) : list A :=
    match l, n with
    | [], _ => []
    | _ :: t, O => x :: t
    | h :: t, S k => h :: set_nth t k x
    end.

  (* queue.go:11-32 *)
  Definition enqueue (q : queue) (x : A) : queue :=
    let q1 := if Nat.eqb (length (base q)) 0
              then {| base := repeat d 8; first := -1; next := next q |} else q in
    if negb (next q1 =? first q1) then
      let f := if first q1 =? -1 then next q1 else first q1 in
      {| base := set_nth (base q1) (Z.to_nat (next q1)) x;
         first := f;
         next := (next q1 + 1) mod cap q1 |}
    else
      let ps := length (base q1) in
      let fi := Z.to_nat (first q1) in
      let bigger := skipn fi (base q1) ++ firstn fi (base q1) ++ repeat d ps in
      {| base := set_nth bigger ps x; first := 0; next := Z.of_nat ps + 1 |}.

  (* queue.go:59-67 *)
  Definition size (q : queue) : Z :=
    if Nat.eqb (length (base q)) 0 || (first q =? -1) then 0
    else if next q =? first q then cap q
    else (next q - first q + cap q) mod cap q.

  (* queue.go:35-47; None = panic("cannot dequeue from empty queue") *)
  Definition dequeue (q : queue) : option (A * queue) :=
    if size q =? 0 then None else
    let r := nth (Z.to_nat (first q)) (base q) d in
    let f := (first q + 1) mod cap q in
    if f =? next q then Some (r, {| base := base q; first := -1; next := 0 |})
    else Some (r, {| base := base q; first := f; next := next q |}).

  (* queue.go:50-56 *)
  Definition peek (q : queue) : option A :=
    if size q =? 0 then None else Some (nth (Z.to_nat (first q)) (base q) d).

  (* ---- stack.go: a slice ---- *)
  Definition stack := list A.            (* bottom first, as the Go slice *)
  Definition s_push (s : stack) (x : A) : stack := s ++ [x].
  Definition s_push_all (s : stack) (xs : list A) : stack := s ++ xs.
  Definition s_pop (s : stack) : option (A * stack) :=
    match rev s with
    | [] => None                                     (* panic("cannot pop from empty stack") *)
    | x :: r => Some (x, rev r)
    end.
  Definition s_peek (s : stack) : option A :=
    match rev s with [] => None | x :: _ => Some x end.
  Definition s_size (s : stack) : nat := length s.
  Definition s_clear (s : stack) : stack := [].

  (* ---- operation sequences and their results ---- *)
  Inductive qop := QEnq (x : A) | QDeq | QPeek | QSize.
  Inductive qres := RNone | RVal (x : A) | RPanic | RSize (n : Z).

  Fixpoint q_run (q : queue) (ops : list qop) : list qres :=
    match ops with
    | [] => []
    | QEnq x :: t => RNone :: q_run (enqueue q x) t
    | QDeq :: t => match dequeue q with
                   | None => RPanic :: q_run q t
                   | Some (r, q') => RVal r :: q_run q' t
                   end
    | QPeek :: t => match peek q with
                    | None => RPanic :: q_run q t
                    | Some r => RVal r :: q_run q t
                    end
    | QSize :: t => RSize (size q) :: q_run q t
    end.

  (* the specification: a list, oldest first *)
  Fixpoint fifo_run (l : list A) (ops : list qop) : list qres :=
    match ops with
    | [] => []
    | QEnq x :: t => RNone :: fifo_run (l ++ [x]) t
    | QDeq :: t => match l with
                   | [] => RPanic :: fifo_run l t
                   | h :: l' => RVal h :: fifo_run l' t
                   end
    | QPeek :: t => match l with
                    | [] => RPanic :: fifo_run l t
                    | h :: _ => RVal h :: fifo_run l t
                    end
    | QSize :: t => RSize (Z.of_nat (length l)) :: fifo_run l t
    end.

  Inductive sop := SPush (x : A) | SPushAll (xs : list A) | SPop | SPeek | SSize | SClear.

  Fixpoint s_run (s : stack) (ops : list sop) : list qres :=
    match ops with
    | [] => []
    | SPush x :: t => RNone :: s_run (s_push s x) t
    | SPushAll xs :: t => RNone :: s_run (s_push_all s xs) t
    | SPop :: t => match s_pop s with
                   | None => RPanic :: s_run s t
                   | Some (x, s') => RVal x :: s_run s' t
                   end
    | SPeek :: t => match s_peek s with
                    | None => RPanic :: s_run s t
                    | Some x => RVal x :: s_run s t
                    end
    | SSize :: t => RSize (Z.of_nat (s_size s)) :: s_run s t
    | SClear :: t => RNone :: s_run (s_clear s) t
    end.

  (* the specification: a list, newest first *)
  Fixpoint lifo_run (l : list A) (ops : list sop) : list qres :=
    match ops with
    | [] => []
    | SPush x :: t => RNone :: lifo_run (x :: l) t
    | SPushAll xs :: t => RNone :: lifo_run (rev xs ++ l) t
    | SPop :: t => match l with
                   | [] => RPanic :: lifo_run l t
                   | x :: l' => RVal x :: lifo_run l' t
                   end
    | SPeek :: t => match l with
                    | [] => RPanic :: lifo_run l t
                    | x :: _ => RVal x :: lifo_run l t
                    end
    | SSize :: t => RSize (Z.of_nat (length l)) :: lifo_run l t
    | SClear :: t => RNone :: lifo_run [] t
    end.
End Queue.

Arguments queue : clear implicits.
Arguments qop : clear implicits.
Arguments sop : clear implicits.
Arguments qres : clear implicits.
