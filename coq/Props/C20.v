(* C20 - internal queue/stack are exact FIFO/LIFO; indentation tokens are balanced.
   Property theorems only: each is closed by [exact] of a lemma proved elsewhere. *)
From Coq Require Import List ZArith.
From YS Require Import Base.Sexp Container.Queue Syntax.Indent Proofs.QueueProofs Proofs.IndentProofs.
Import ListNotations.

(* every operation sequence on the ring buffer - any length, hence any number of growths with the
   head anywhere - returns what a list returns; Dequeue/Peek on empty panic on both sides *)
Theorem C20_queue_refines_fifo : forall (ops : list (qop Z)),
  q_run 0%Z empty_q ops = fifo_run [] ops.
Proof. exact (queue_refines_fifo 0%Z). Qed.
Print Assumptions C20_queue_refines_fifo.

Theorem C20_stack_refines_lifo : forall (ops : list (sop Z)),
  s_run [] ops = lifo_run [] ops.
Proof. exact stack_refines_lifo. Qed.
Print Assumptions C20_stack_refines_lifo.

(* the NextToken protocol (one base token pulled, one queued token returned per call, ring buffer
   in between) hands the parser exactly the list-level stream [wrap], for every base stream *)
Theorem C20_next_token_protocol : forall ts fuel out,
  pull fuel (linit false ts) = Some out -> wrap ts [] = Some out.
Proof. exact pull_sound. Qed.
Print Assumptions C20_next_token_protocol.

(* as many DEDENT as INDENT, never more closed than opened, exactly one EOF, at the end *)
Theorem C20_token_stream_balanced : forall ts fuel out,
  pull fuel (linit false ts) = Some out ->
  count is_indent out = count is_dedent out /\ never_overclosed 0 out = true /\
  exists pre, out = pre ++ [TEOF] /\ ~ In TEOF pre.
Proof. exact token_stream_balanced. Qed.
Print Assumptions C20_token_stream_balanced.

(* and the stream exists for every input whose indentation never mixes tabs and spaces *)
Theorem C20_token_stream_total : forall ts, Forall clean_btok ts ->
  exists out, wrap ts [] = Some out /\
              forall fuel, length out <= fuel -> pull fuel (linit false ts) = Some out.
Proof. exact token_stream_total. Qed.
Print Assumptions C20_token_stream_total.

Theorem C20_empty_input_single_eof : forall ts fuel, pull (S fuel) (linit true ts) = Some [TEOF].
Proof. exact pull_empty_input. Qed.
Print Assumptions C20_empty_input_single_eof.

(* non-vacuity: a wrapped ring buffer across two growths, and a nested indentation stream *)
Example C20_queue_example :
  let ops := [QEnq 1; QEnq 2; QEnq 3; QDeq; QDeq] ++ map QEnq [4;5;6;7;8;9;10;11;12;13;14;15;16;17;18;19;20;21]
             ++ [QSize; QDeq; QPeek] in
  q_run 0 empty_q ops = fifo_run [] ops /\ nth 23 (q_run 0 empty_q ops) RPanic = RSize 19.
Proof. vm_compute. split; reflexivity. Qed.

Example C20_indent_example :
  pull 20 (linit false [BOther 20; BNL [10;32;32]%N false; BOther 20; BNL [10;32;32;32;32]%N false;
                        BOther 20; BNL [10]%N true; BNL [10]%N false; BOther 13])
  = Some [TOther 20; TNL; TIndent; TOther 20; TNL; TIndent; TOther 20; TNL; TNL; TDedent; TDedent;
          TOther 13; TEOF].
Proof. vm_compute. reflexivity. Qed.
