(* C18 - independent runners can be created and driven concurrently.
   Partial: data-race freedom and the synchronisation inside the ANTLR runtime are properties of the
   Go memory model and runtime that no executable Gallina model expresses; they are observed by the
   correspondence family 'concurrent' (goroutines under the race detector).  What is proved is the
   logical half: the model of a runner owns all of its state, so under ANY interleaving of the
   operations of any number of runners each runner ends in the state - and produces the trace - of
   being driven alone. *)
From Coq Require Import List ZArith.
From YS Require Import Base.Sexp Yarn.Ast Yarn.Runner Proofs.ConcurrencyProofs.
Import ListNotations.

(* one operation of one runner: a Next call with an argument *)
Definition rstep (d : dialogue) (fuel : nat) (m : rstate) (c : Z) : rstate := snd (next d fuel m c).

Theorem C18_interleaving_projection : forall d fuel (sched : list (nat * Z)) (sys : list rstate) i m,
  nth_error sys i = Some m ->
  nth_error (fold_left (sys_step rstate Z (rstep d fuel)) sched sys) i
  = Some (solo rstate Z (rstep d fuel) m i sched).
Proof. intros d fuel. exact (interleaving_projection rstate Z (rstep d fuel)). Qed.
Print Assumptions C18_interleaving_projection.
