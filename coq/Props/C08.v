(* C08 - layout never changes meaning.
   Partial: proved for the hand-written indentation wrapper (the only hand-written code between the
   text and the parse tree that looks at layout): the token stream depends only on the order type of
   the indentation widths, and blank / whitespace-only / comment-only lines are transparent.  That
   the generated lexer and parser treat CRLF, redundant parentheses, operator spellings and blanks
   inside commands alike is observed by the correspondence family 'layout' (every program under 11
   renderings, parsed dialogues and traces compared); known finding D10 (several blanks after
   <<jump) is in the lexer grammar. *)
From Coq Require Import List ZArith NArith Arith.
From YS Require Import Base.Sexp Syntax.Indent Proofs.IndentProofs.
Import ListNotations.

(* the protocol delivers the list-level stream (C20), so statements about [wrap] are statements
   about what the parser receives *)
Theorem C08_parser_receives_wrap : forall ts fuel out,
  pull fuel (linit false ts) = Some out -> wrap ts [] = Some out.
Proof. exact pull_sound. Qed.
Print Assumptions C08_parser_receives_wrap.

(* indentation width and kind: two base streams whose NEWLINE widths differ by a strictly monotone
   re-labelling (1 blank / 8 blanks / tabs per level, any unit) give the same token stream *)
Theorem C08_only_the_order_of_widths_matters : forall (phi : nat -> nat),
  phi 0 = 0 -> (forall a b, a < b <-> phi a < phi b) ->
  forall ts1 ts2, Forall2 (rel_btok phi) ts1 ts2 -> forall st, wrap ts2 (map phi st) = wrap ts1 st.
Proof. intros phi H0 Hm. exact (wrap_order_type phi H0 Hm). Qed.
Print Assumptions C08_only_the_order_of_widths_matters.

(* blank, whitespace-only and comment-only lines, at any indentation, anywhere: only a NEWLINE
   token (hidden channel in the body of a node) is added *)
Theorem C08_blank_and_comment_lines_are_transparent : forall pre post st text,
  option_map (filter visible) (wrap (pre ++ BNL text true :: post) st) =
  option_map (filter visible) (wrap (pre ++ post) st).
Proof. exact skip_transparent. Qed.
Print Assumptions C08_blank_and_comment_lines_are_transparent.

(* non-vacuity: 2 blanks per level with a blank line inside the block vs one tab per level *)
Example C08_example :
  option_map (filter visible)
    (wrap [BOther 20; BNL [10;32;32]%N false; BOther 20; BNL [10]%N true; BNL [10;32;32]%N false; BOther 20;
           BNL [10]%N false; BOther 13] []) =
  option_map (filter visible)
    (wrap [BOther 20; BNL [10;9]%N false; BOther 20; BNL [10;9]%N false; BOther 20; BNL [10]%N false; BOther 13] []).
Proof. vm_compute. reflexivity. Qed.
