(* C08 - layout never changes meaning.
   Partial: proved for the hand-written indentation wrapper (the only hand-written code between the
   text and the parse tree that looks at layout): the token stream depends only on the order type of
   the indentation widths, and blank / whitespace-only / comment-only lines are transparent.  That
   the generated lexer and parser treat CRLF, redundant parentheses, operator spellings and blanks
   inside commands alike is observed by the correspondence family 'layout' (every program under 11
   renderings, parsed dialogues and traces compared); known finding D10 (several blanks after
   <<jump) is in the lexer grammar. *)
From Coq Require Import List ZArith NArith Arith.
From YS Require Import Base.Sexp Syntax.Indent Proofs.IndentProofs.
Import ListNotations.

(* the protocol delivers the list-level stream (C20), so statements about [wrap] are statements
   about what the parser receives *)
Theorem C08_parser_receives_wrap : forall ts fuel out,
  pull fuel (linit false ts) = Some out -> wrap ts [] = Some out.
Proof. exact pull_sound. Qed.
Print Assumptions C08_parser_receives_wrap.

(* indentation width and kind: two base streams whose NEWLINE widths differ by a strictly monotone
   re-labelling (1 blank / 8 blanks / tabs per level, any unit) give the same token stream *)
Theorem C08_only_the_order_of_widths_matters : forall (phi : nat -> nat),
  phi 0 = 0 -> (forall a b, a < b <-> phi a < phi b) ->
  forall ts1 ts2, Forall2 (rel_btok phi) ts1 ts2 -> forall st, wrap ts2 (map phi st) = wrap ts1 st.
Proof. intros phi H0 Hm. exact (wrap_order_type phi H0 Hm). Qed.
Print Assumptions C08_only_the_order_of_widths_matters.

(* blank, whitespace-only and comment-only lines, at any indentation, anywhere: only a NEWLINE
   token (hidden channel in the body of a node) is added *)
Theorem C08_blank_and_comment_lines_are_transparent : forall pre post st text,
  option_map (filter visible) (wrap (pre ++ BNL text true :: post) st) =
  option_map (filter visible) (wrap (pre ++ post) st).
Proof. exact skip_transparent. Qed.
Print Assumptions C08_blank_and_comment_lines_are_transparent.

(* non-vacuity: 2 blanks per level with a blank line inside the block vs one tab per level *)
Example C08_example :
  option_map (filter visible)
    (wrap [BOther 20; BNL [10;32;32]%N false; BOther 20; BNL [10]%N true; BNL [10;32;32]%N false; BOther 20;
           BNL [10]%N false; BOther 13] []) =
  option_map (filter visible)
    (wrap [BOther 20; BNL [10;9]%N false; BOther 20; BNL [10;9]%N false; BOther 20; BNL [10]%N false; BOther 13] []).
Proof. vm_compute. reflexivity. Qed.

(* redundant parentheses: the expression rule of the generated parser (Syntax/ExprParser.v, over the
   precedence table extracted from the Go source by tools/gen_exprtable.py) reads every admissible
   way of writing an expression - parentheses where the table requires them, and anywhere else - as
   the same tree; in particular minimal and maximal parenthesisation agree.  (Operator spellings are
   the lexer's: one token type per operator, observed by families layout and exprparse.) *)
From YS Require Import Yarn.Ast Generated.ExprTable Syntax.ExprParser Proofs.ExprParserProofs.

Theorem C08_redundant_parentheses_never_matter : forall e ts1 ts2 k1 k2,
  Prints level right_prec neg_operand_prec not_operand_prec 0 e ts1 k1 ->
  Prints level right_prec neg_operand_prec not_operand_prec 0 e ts2 k2 ->
  eventually (fun fuel => ys_parse_expr fuel 0 ts1) (e, []) /\
  eventually (fun fuel => ys_parse_expr fuel 0 ts2) (e, []).
Proof.
  intros e ts1 ts2 k1 k2 H1 H2.
  split; [exact (prints_parse _ _ _ _ generated_table_wf e ts1 k1 H1)|exact (prints_parse _ _ _ _ generated_table_wf e ts2 k2 H2)].
Qed.
Print Assumptions C08_redundant_parentheses_never_matter.

Theorem C08_minimal_and_maximal_parentheses_agree : forall e,
  eventually (fun fuel => ys_parse_expr fuel 0 (print_min level right_prec neg_operand_prec not_operand_prec 0 e)) (e, []) /\
  eventually (fun fuel => ys_parse_expr fuel 0 (paren (print_full e))) (e, []).
Proof.
  intros e. split; [exact (parse_print_min _ _ _ _ generated_table_wf e)|exact (parse_print_full _ _ _ _ generated_table_wf e)].
Qed.
Print Assumptions C08_minimal_and_maximal_parentheses_agree.
