(* C08 - layout never changes meaning.
   Partial: proved for the hand-written indentation wrapper (the only hand-written code between the
   text and the parse tree that looks at layout): the token stream depends only on the order type of
   the indentation widths, and blank / whitespace-only / comment-only lines are transparent.  That
   the generated lexer and parser treat CRLF, redundant parentheses, operator spellings and blanks
   inside commands alike is observed by the correspondence family 'layout' (every program under 11
   renderings, parsed dialogues and traces compared); known finding D10 (several blanks after
   <<jump) is in the lexer grammar. *)
From Coq Require Import List ZArith NArith Arith.
From YS Require Import Base.Sexp Syntax.Indent Proofs.IndentProofs.
Import ListNotations.

(* the protocol delivers the list-level stream (C20), so statements about [wrap] are statements
   about what the parser receives *)
Theorem C08_parser_receives_wrap : forall ts fuel out,
  pull fuel (linit false ts) = Some out -> wrap ts [] = Some out.
Proof. exact pull_sound. Qed.
Print Assumptions C08_parser_receives_wrap.

(* indentation width and kind: two base streams whose NEWLINE widths differ by a strictly monotone
   re-labelling (1 blank / 8 blanks / tabs per level, any unit) give the same token stream *)
Theorem C08_only_the_order_of_widths_matters : forall (phi : nat -> nat),
  phi 0 = 0 -> (forall a b, a < b <-> phi a < phi b) ->
  forall ts1 ts2, Forall2 (rel_btok phi) ts1 ts2 -> forall st, wrap ts2 (map phi st) = wrap ts1 st.
Proof. intros phi H0 Hm. exact (wrap_order_type phi H0 Hm). Qed.
Print Assumptions C08_only_the_order_of_widths_matters.

(* blank, whitespace-only and comment-only lines, at any indentation, anywhere: only a NEWLINE
   token (hidden channel in the body of a node) is added *)
Theorem C08_blank_and_comment_lines_are_transparent : forall pre post st text,
  option_map (filter visible) (wrap (pre ++ BNL text true :: post) st) =
  option_map (filter visible) (wrap (pre ++ post) st).
Proof. exact skip_transparent. Qed.
Print Assumptions C08_blank_and_comment_lines_are_transparent.

(* non-vacuity: 2 blanks per level with a blank line inside the block vs one tab per level *)
Example C08_example :
  option_map (filter visible)
    (wrap [BOther 20; BNL [10;32;32]%N false; BOther 20; BNL [10]%N true; BNL [10;32;32]%N false; BOther 20;
           BNL [10]%N false; BOther 13] []) =
  option_map (filter visible)
    (wrap [BOther 20; BNL [10;9]%N false; BOther 20; BNL [10;9]%N false; BOther 20; BNL [10]%N false; BOther 13] []).
Proof. vm_compute. reflexivity. Qed.

(* redundant parentheses: the expression rule of the generated parser (Syntax/ExprParser.v, over the
   precedence table extracted from the Go source by tools/gen_exprtable.py) reads every admissible
   way of writing an expression - parentheses where the table requires them, and anywhere else - as
   the same tree; in particular minimal and maximal parenthesisation agree.  (Operator spellings are
   the lexer's: one token type per operator, observed by families layout and exprparse.) *)
From YS Require Import Yarn.Ast Generated.ExprTable Syntax.ExprParser Proofs.ExprParserProofs.

Theorem C08_redundant_parentheses_never_matter : forall e ts1 ts2 k1 k2,
  Prints level right_prec neg_operand_prec not_operand_prec 0 e ts1 k1 ->
  Prints level right_prec neg_operand_prec not_operand_prec 0 e ts2 k2 ->
  eventually (fun fuel => ys_parse_expr fuel 0 ts1) (e, []) /\
  eventually (fun fuel => ys_parse_expr fuel 0 ts2) (e, []).
Proof.
  intros e ts1 ts2 k1 k2 H1 H2.
  split; [exact (prints_parse _ _ _ _ generated_table_wf e ts1 k1 H1)|exact (prints_parse _ _ _ _ generated_table_wf e ts2 k2 H2)].
Qed.
Print Assumptions C08_redundant_parentheses_never_matter.

Theorem C08_minimal_and_maximal_parentheses_agree : forall e,
  eventually (fun fuel => ys_parse_expr fuel 0 (print_min level right_prec neg_operand_prec not_operand_prec 0 e)) (e, []) /\
  eventually (fun fuel => ys_parse_expr fuel 0 (paren (print_full e))) (e, []).
Proof.
  intros e. split; [exact (parse_print_min _ _ _ _ generated_table_wf e)|exact (parse_print_full _ _ _ _ generated_table_wf e)].
Qed.
Print Assumptions C08_minimal_and_maximal_parentheses_agree.

(* indentation, statement level: the statement rules of the generated parser together with the listener
   (Syntax/StmtParser.v, over the token table extracted from the Go source by tools/gen_tokentable.py)
   read every written program back as the dialogue it stands for - and an INDENT ... DEDENT block
   around ANY run of statements, at any depth, changes nothing ([meaning] of a block is the meaning of
   the statements in it): the width of an indentation never reaches the parser, and whether a body is
   indented at all does not matter to it.  [er] is any way of writing expressions that the expression
   parser reads back (redundant parentheses and operator spellings: the theorems above and C02).
   Hypotheses on the written program ([wfs]): texts of a line are non-empty and not adjacent (the
   listener merges adjacent TEXT tokens); an option group not followed by its blank-line token is not
   directly followed by another option, by that token, or - when its last option has no body - by an
   indented block (each of these would be read as part of the group: that is the grammar, not a
   defect); a generic command is not directly followed by a hashtag. *)
From YS Require Import Generated.TokenTable Syntax.StmtParser Proofs.StmtParserProofs.

Theorem C08_written_statements_are_read_back_whatever_is_indented :
  forall (er : expr -> list (kind * str)) (ewf : expr -> Prop),
  (forall e, Forall is_etok (er e)) ->
  (forall e, ewf e -> parse_expression (fst (take_etoks (er e))) = Some e) ->
  (forall f args, ewf (ECall f args) -> parse_call_toks (fst (take_etoks (er (ECall f args)))) = Some (f, args)) ->
  (forall v, ewf v -> (exists a, v = expr_of_atom a) \/ (exists f args, v = ECall f args) ->
             parse_value_toks (fst (take_etoks (er v))) = Some v) ->
  forall ws rest fuel,
    wfs er ewf ws (hd_kind rest) -> starts_statement rest = false -> wssize ws <= fuel ->
    parse_stmts fuel (pws er ws ++ rest) = Some (meaning ws, rest).
Proof. exact parse_written. Qed.
Print Assumptions C08_written_statements_are_read_back_whatever_is_indented.

Theorem C08_an_indented_block_is_the_statements_in_it : forall ws, meaning [WBlock ws] = meaning ws.
Proof. intros ws. cbn [meaning]. rewrite meaning1_block. apply app_nil_r. Qed.

(* non-vacuity 1: the hypotheses on [er] are satisfiable for a whole class of programs - those whose
   expressions are variables *)
Definition er_var (e : expr) : list (kind * str) := match e with EVar x => [(K_VAR_ID, 36%N :: x)] | _ => [] end.
Definition ewf_var (e : expr) : Prop := exists x, e = EVar x.
Example C08_expression_writer_exists :
  (forall e, Forall is_etok (er_var e)) /\
  (forall e, ewf_var e -> parse_expression (fst (take_etoks (er_var e))) = Some e) /\
  (forall f args, ewf_var (ECall f args) -> parse_call_toks (fst (take_etoks (er_var (ECall f args)))) = Some (f, args)) /\
  (forall v, ewf_var v -> (exists a, v = expr_of_atom a) \/ (exists f args, v = ECall f args) ->
             parse_value_toks (fst (take_etoks (er_var v))) = Some v).
Proof.
  Local Transparent take_etoks parse_expression.
  repeat split.
  - intros e. destruct e; cbn; repeat constructor. unfold is_etok. cbn. discriminate.
  - intros e [x ->]. reflexivity.
  - intros f args [x H]. discriminate H.
  - intros v [x ->] _. reflexivity.
Qed.

(* non-vacuity 2: a concrete program - an option group inside an if inside an indented block, an
   elseif and an else, a declaration with a type, a command with an inline expression - as the tokens
   of the real lexer's vocabulary; the model reads the dialogue off it *)
Definition ex_tokens : list (kind * str) :=
  [(K_ID, STR "title"); (K_HEADER_DELIMITER, STR ": "); (K_REST_OF_LINE, STR "Start"); (K_BODY_START, STR "---");
   (K_INDENT, []);
   (K_COMMAND_START, []); (K_COMMAND_IF, []); (K_VAR_ID, STR "$a"); (K_OPERATOR_LOGICAL_AND, []); (K_KEYWORD_TRUE, []); (K_COMMAND_END, []);
   (K_INDENT, []);
   (K_SHORTCUT_ARROW, []); (K_TEXT, STR "O"); (K_TEXT, STR "ne"); (K_NEWLINE, []);
   (K_INDENT, []); (K_TEXT, STR "inner "); (K_EXPRESSION_START, []); (K_VAR_ID, STR "$a"); (K_EXPRESSION_END, []); (K_NEWLINE, []); (K_DEDENT, []);
   (K_SHORTCUT_ARROW, []); (K_TEXT, STR "Two"); (K_HASHTAG, []); (K_HASHTAG_TEXT, STR "t"); (K_NEWLINE, []);
   (K_DEDENT, []);
   (K_COMMAND_START, []); (K_COMMAND_ELSEIF, []); (K_VAR_ID, STR "$b"); (K_COMMAND_END, []);
   (K_COMMAND_START, []); (K_COMMAND_JUMP, []); (K_ID, STR "Start"); (K_COMMAND_END, []);
   (K_COMMAND_START, []); (K_COMMAND_ELSE, []); (K_COMMAND_END, []);
   (K_COMMAND_START, []); (K_COMMAND_TEXT, STR "walk left "); (K_COMMAND_EXPRESSION_START, []); (K_VAR_ID, STR "$a"); (K_EXPRESSION_END, []);
   (K_COMMAND_TEXT_END, []);
   (K_COMMAND_START, []); (K_COMMAND_ENDIF, []); (K_COMMAND_END, []);
   (K_DEDENT, []);
   (K_COMMAND_START, []); (K_COMMAND_DECLARE, []); (K_VAR_ID, STR "$z"); (K_OPERATOR_ASSIGNMENT, []); (K_KEYWORD_FALSE, []);
   (K_EXPRESSION_AS, []); (K_FUNC_ID, STR "bool"); (K_COMMAND_END, []);
   (K_BODY_END, STR "==="); (K_EOF, [])].

Example C08_example_program_is_read :
  parse_dialogue ex_tokens =
  Some [{| headers := [(STR "title", STR "Start")];
           body := [SIf [(EBin OAnd (EVar (STR "a")) (EVal (VBool true)),
                          [SOpts [({| ltext := [TText (STR "One")]; lcond := None; ltags := [] |},
                                   [SLine {| ltext := [TText (STR "inner "); TExpr (EVar (STR "a"))]; lcond := None; ltags := [] |}]);
                                  ({| ltext := [TText (STR "Two")]; lcond := None; ltags := [STR "t"] |}, [])]]);
                         (EVar (STR "b"), [SJump (EVal (VStr (STR "Start")))]);
                         (EVal (VBool true), [SCmd [EVal (VStr (STR "walk")); EVal (VStr (STR "left")); EVar (STR "a")]])];
                    SDeclare (STR "z") (EVal (VBool false))] |}].
Proof. vm_compute. reflexivity. Qed.

(* whole scripts: file-level hashtags, one or more nodes (each with at least one header - a key with or
   without a value - and a well-formed written body), end of input.  The model of tree.FromReader accepts
   every such token sequence and returns the dialogue it stands for: headers as a map (last value of a key,
   in key order), bodies by [meaning].  No fuel appears: the fuel the model gives its parsers
   (2 * tokens + 4 per body, tokens + 1 for the node list) is proved sufficient (size_tokens). *)
From YS Require Import Syntax.CommandText Proofs.StmtParserTop.

Theorem C08_every_written_script_is_loaded :
  forall (er : expr -> list (kind * str)) (ewf : expr -> Prop),
  (forall e, Forall is_etok (er e)) ->
  (forall e, ewf e -> parse_expression (fst (take_etoks (er e))) = Some e) ->
  (forall f args, ewf (ECall f args) -> parse_call_toks (fst (take_etoks (er (ECall f args)))) = Some (f, args)) ->
  (forall v, ewf v -> (exists a, v = expr_of_atom a) \/ (exists f args, v = ECall f args) ->
             parse_value_toks (fst (take_etoks (er v))) = Some v) ->
  forall tags ns, ns <> [] -> Forall (node_ok er ewf) ns ->
    from_reader 0 (p_script er tags ns) = Some (map mean_node ns).
Proof. exact written_script_is_loaded. Qed.
Print Assumptions C08_every_written_script_is_loaded.

(* non-vacuity: a two-node script over the variable-only expression writer meets the hypotheses, and the
   theorem's conclusion computes *)
Definition ex_line (t : str) : line := {| ltext := [TText t]; lcond := None; ltags := [] |}.
Definition ex_nodes : list wnode :=
  [{| wheaders := [(STR "title", Some (STR "Start")); (STR "tags", None)];
      wbody := [WLine (ex_line (STR "hi"));
                WBlock [WOpts [(ex_line (STR "a"), [WSet (STR "x") SAssign (EVar (STR "y"))]); (ex_line (STR "b"), [])] true;
                        WBlock [WJumpName (STR "Other")]]] |};
   {| wheaders := [(STR "title", Some (STR "Other"))];
      wbody := [WIf (EVar (STR "c")) [WLine (ex_line (STR "then"))] [(EVar (STR "d"), [])] (Some [WCmd [RText (STR "stop")]])] |}].
Example C08_example_script_hypotheses : Forall (node_ok er_var ewf_var) ex_nodes.
Proof.
  assert (Hl : forall t, t <> [] -> line_ok ewf_var (ex_line t)).
  { intros t Ht. repeat split; cbn; try exact I; [discriminate|]. repeat constructor. exact Ht. }
  repeat (constructor; try discriminate);
    repeat first [ apply Hl; discriminate | exact I | discriminate | eexists; reflexivity | constructor
                 | split | intros ? H; inversion H; subst | left; reflexivity | cbn; discriminate ].
Qed.
Example C08_example_script_is_loaded :
  from_reader 0 (p_script er_var [STR "filetag"] ex_nodes) = Some (map mean_node ex_nodes).
Proof. vm_compute. reflexivity. Qed.

(* ... and with the expressions written as tokens of the real lexer's vocabulary (Proofs/ExprTokens.v:
   minimal parentheses over the generated precedence table, `$x`, `"s"`, digits, true / false / null),
   nothing is left as a parameter.  Proofs/ExprFuelProofs.v makes the fuel of the expression parser
   explicit (2 * tokens + 1 suffice; the model gives 4 * tokens + 4).  The one condition on expressions:
   the text written for a number is read back as that number ([ewf_min]: num_ok on every numeral -
   number(string(x)) = x is not proved in general, it is checked per literal by computation). *)
From YS Require Import Proofs.ExprTokens Proofs.ScriptTokens.

Theorem C08_every_written_script_is_loaded_real_tokens : forall tags ns,
  ns <> [] -> Forall (node_ok er_min ewf_min) ns ->
  from_reader 0 (p_script er_min tags ns) = Some (map mean_node ns).
Proof. exact written_script_tokens_are_loaded. Qed.
Print Assumptions C08_every_written_script_is_loaded_real_tokens.

(* non-vacuity: a node whose line interpolates a variable and whose option is guarded by a call meets the
   hypotheses (no numerals: nothing is asked of the expressions) *)
Definition ex_nodes3 : list wnode :=
  [{| wheaders := [(STR "title", Some (STR "Start"))];
      wbody := [WLine {| ltext := [TText (STR "hi "); TExpr (EVar (STR "x"))]; lcond := Some (ENot (EVar (STR "b"))); ltags := [] |};
                WSet (STR "x") SAssign (EBin OAdd (EVar (STR "x")) (EVal (VStr (STR "!"))))] |}].
Example C08_example_script3_hypotheses : Forall (node_ok er_min ewf_min) ex_nodes3.
Proof.
  assert (H1 : ewf_min (EVar (STR "x"))) by (unfold ewf_min; cbn [print_min]; constructor; [exact I|constructor]).
  assert (H2 : ewf_min (ENot (EVar (STR "b")))) by (unfold ewf_min; cbn [print_min]; constructor; [exact I|constructor; [exact I|constructor]]).
  assert (H3 : ewf_min (EBin OAdd (EVar (STR "x")) (EVal (VStr (STR "!"))))).
  { unfold ewf_min. apply Forall_forall. intros t Ht. destruct t as [| | | |o|a|f]; try exact I.
    destruct a as [v|y|]; try exact I. destruct v as [n|bb|ss]; try exact I.
    exfalso. vm_compute in Ht. repeat (destruct Ht as [Ht|Ht]; [discriminate Ht|]). exact Ht. }
  constructor; [|constructor]. split; [discriminate|]. cbn [wbody].
  apply wfs_cons; [apply wf_line|apply wfs_cons; [apply wf_set; exact H3|apply wfs_nil]].
  split; [discriminate|]. split; [constructor; [discriminate|constructor; [exact H1|constructor]]|]. split; [exact I|exact H2].
Qed.
Example C08_example_script3_is_loaded :
  from_reader 0 (p_script er_min [] ex_nodes3) = Some (map mean_node ex_nodes3).
Proof. apply C08_every_written_script_is_loaded_real_tokens; [discriminate|exact C08_example_script3_hypotheses]. Qed.
