(* C19 - numeric and conversion built-ins satisfy their contracts for all numbers.
   Real-number statements through Flocq's B2R; [R_of x] is the real value of the double x.
   Partial: round_places and number(string(x)) = x are not proved
   (the last rests on strconv's shortest round-trip formatter, modelled in Num/Decimal.v and
   validated against Go by the 'fmt'/'parse'/'builtins' families); round_places' strict half-unit
   bound is false of binary64 evaluation (known finding D23). *)
From Coq Require Import ZArith Reals List Bool.
From Flocq Require Import Core BinarySingleNaN.
From YS Require Import Base.Sexp Num.F64 Num.Decimal Yarn.Ast Yarn.Value Yarn.Eval Proofs.BuiltinProofs Proofs.DecimalPartProofs.
Import ListNotations.
Local Open Scope R_scope.

(* for EVERY double (no magnitude bound): *)
Theorem C19_floor : forall x, R_of (ffloor x) <= R_of x < R_of (ffloor x) + 1.
Proof. exact floor_spec. Qed.
Theorem C19_ceil : forall x, R_of (fceil x) - 1 < R_of x <= R_of (fceil x).
Proof. exact ceil_spec. Qed.
Theorem C19_integer_truncates_toward_zero : forall x,
  (0 <= R_of x -> R_of (ftrunc x) <= R_of x < R_of (ftrunc x) + 1) /\
  (R_of x <= 0 -> R_of (ftrunc x) - 1 < R_of x <= R_of (ftrunc x)).
Proof. exact integer_spec. Qed.
Theorem C19_round_within_half : forall x, Rabs (R_of (fround x) - R_of x) <= / 2.
Proof. exact round_spec. Qed.
Theorem C19_results_are_integers : forall x,
  exists a b c d : Z, R_of (ffloor x) = IZR a /\ R_of (fceil x) = IZR b /\ R_of (ftrunc x) = IZR c /\ R_of (fround x) = IZR d.
Proof. exact rounding_results_are_integers. Qed.
Print Assumptions C19_results_are_integers.

(* integer(x) + decimal(x) = x, exactly, for EVERY finite double: the fractional part x - trunc(x) is
   itself a double (the subtraction does not round), it has the sign of x and magnitude below 1 *)
Theorem C19_decimal_exact : forall x, is_finite x = true ->
  is_finite (f_decimal x) = true /\ B2R (f_decimal x) = B2R x - IZR (Ztrunc (B2R x)).
Proof. exact decimal_exact. Qed.
Theorem C19_integer_plus_decimal : forall x, is_finite x = true ->
  is_finite (fadd (ftrunc x) (f_decimal x)) = true /\ B2R (fadd (ftrunc x) (f_decimal x)) = B2R x.
Proof. exact integer_plus_decimal. Qed.
Theorem C19_decimal_range : forall x, is_finite x = true ->
  Rabs (B2R (f_decimal x)) < 1 /\ (0 <= B2R x -> 0 <= B2R (f_decimal x)) /\ (B2R x <= 0 -> B2R (f_decimal x) <= 0).
Proof. exact decimal_range. Qed.
Print Assumptions C19_integer_plus_decimal.

(* for finite |x| < 2^52: inc(x) is the least integer greater than x, dec(x) the greatest less *)
Theorem C19_inc : forall x, is_finite x = true -> Rabs (R_of x) < IZR (2 ^ 52) ->
  R_of (f_inc x) = IZR (Zfloor (R_of x) + 1) /\ R_of x < R_of (f_inc x) <= R_of x + 1.
Proof. exact inc_spec. Qed.
Theorem C19_dec : forall x, is_finite x = true -> Rabs (R_of x) < IZR (2 ^ 52) ->
  R_of (f_dec x) = IZR (Zceil (R_of x) - 1) /\ R_of x - 1 <= R_of (f_dec x) < R_of x.
Proof. exact dec_spec. Qed.
Print Assumptions C19_dec.

(* conversions *)
Theorem C19_bool_string_roundtrip : forall v b e,
  call_builtin v (STR "bool") [VStr (to_string (VBool b))] e = Some (Val (Some (VBool b)), e).
Proof. exact bool_string_roundtrip. Qed.
Theorem C19_same_type_identity : forall v e s n b,
  call_builtin v (STR "string") [VStr s] e = Some (Val (Some (VStr s)), e) /\
  call_builtin v (STR "number") [VNum n] e = Some (Val (Some (VNum n)), e) /\
  call_builtin v (STR "bool") [VBool b] e = Some (Val (Some (VBool b)), e).
Proof. exact same_type_identity. Qed.
Theorem C19_bad_bool_string_is_error : forall v s e, parse_bool s = None ->
  call_builtin v (STR "bool") [VStr s] e = Some (Fail, e).
Proof. exact bad_bool_string_is_error. Qed.
Theorem C19_bad_number_string_is_error : forall v s e, parse_float s = None ->
  call_builtin v (STR "number") [VStr s] e = Some (Fail, e).
Proof. exact bad_number_string_is_error. Qed.
Print Assumptions C19_bad_number_string_is_error.

(* known finding D23: the strict half-unit bound of round_places fails in binary64:
   round_places(-3592583614394696, 8) = -3592583614394696.5 *)
Example C19_round_places_strict_refuted :
  to_bits (f_round_places (fneg (of_Z 3592583614394696)) 8) = to_bits (fneg (fadd (of_Z 3592583614394696) (fdiv fone (of_Z 2)))).
Proof. vm_compute. reflexivity. Qed.

(* round_places: what does hold for every finite x and every scale 10^n exact in binary64
   (0 <= n <= 22, x * 10^n below 2^1000): half a unit of the n-th place, plus the two roundings of the
   product and the quotient (u = 2^-53 relative each) and of subnormal results (eta = 2^-1075).
   The strict bound without the rounding terms is false (D23, refuted above). *)
From YS Require Import Proofs.RoundPlacesProofs.
Local Open Scope R_scope.
Theorem C19_round_places_envelope : forall (x : f64) (n : Z),
  is_finite x = true -> (0 <= n <= 22)%Z -> Rabs (B2R x) * IZR (10 ^ n) <= bpow radix2 1000 ->
  is_finite (f_round_places x n) = true /\
  Rabs (B2R (f_round_places x n) - B2R x)
    <= / 2 / IZR (10 ^ n) * (1 + u) + Rabs (B2R x) * (2 * u + u * u) + 3 * eta.
Proof. exact round_places_envelope. Qed.
Print Assumptions C19_round_places_envelope.
