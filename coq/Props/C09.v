(* C09 - same script, seed and choices give the same run; random built-ins stay in range.
   Partial: "the same run in every process, whatever ran before" is a statement about the Go runtime
   (clock, global math/rand source, map iteration order).  The model is a function of (dialogue, raw
   stream derived from the seed, choices, host behaviour) and consults nothing else; the
   correspondence family feeds it the stream of an independent rand.NewSource(seed integer) and
   compares with repeated executions of the implementation, in process and in child processes. *)
From Coq Require Import List ZArith NArith Bool Reals.
From YS Require Import Base.Sexp Num.F64 Yarn.Ast Yarn.Value Yarn.Eval Yarn.RunnerWire Proofs.RngProofs Proofs.RandomProofs Yarn.Runner Proofs.FlowProofs Proofs.SimProofs.
Import ListNotations.
Local Open Scope Z_scope.

(* determinism, the logic half: a run - the elements returned for any sequence of choices - is a
   function of the script, the runner's dialogue state (continuation, variables as a map, pending
   command, current node, visit counts), the host's command behaviour and the random stream derived
   from the seed.  Two runners equal in these give the same run; nothing else (logs, checkpoints,
   internal layout of maps) can influence it. *)
Theorem C09_same_state_same_run : forall d f cs m1 m2, rsim m1 m2 ->
  fst (iter_next d f m1 cs) = fst (iter_next d f m2 cs) /\ rsim (snd (iter_next d f m1 cs)) (snd (iter_next d f m2 cs)).
Proof. exact iter_next_sim. Qed.
Print Assumptions C09_same_state_same_run.

Theorem C09_intn_range : forall n e, 0 < n -> 0 <= fst (intn n e) < n.
Proof. exact intn_range. Qed.
Print Assumptions C09_intn_range.

Theorem C09_dice_range : forall v x e, 1 <= to_int64 x ->
  exists r e', call_builtin v (STR "dice") [VNum x] e = Some (Val (Some (VNum (of_Z r))), e') /\
               1 <= r <= to_int64 x.
Proof. exact dice_range. Qed.
Print Assumptions C09_dice_range.

Theorem C09_random_range_range : forall v a b e,
  to_int64 a <= to_int64 b -> to_int64 b - to_int64 a + 1 < two63 ->
  exists r e', call_builtin v (STR "random_range") [VNum a; VNum b] e = Some (Val (Some (VNum (of_Z r))), e') /\
               to_int64 a <= r <= to_int64 b.
Proof. exact random_range_range. Qed.
Print Assumptions C09_random_range_range.

Theorem C09_random_range_too_wide_is_error : forall v a b e,
  to_int64 a <= to_int64 b -> two63 <= to_int64 b - to_int64 a + 1 ->
  call_builtin v (STR "random_range") [VNum a; VNum b] e = Some (Fail, e).
Proof. exact random_range_too_wide_is_error. Qed.
Print Assumptions C09_random_range_too_wide_is_error.

(* random(): for every stream of Int63 values a finite number in [0, 1], and below 1 unless 17
   candidates in a row rounded to 1 (the real code keeps drawing; 16 is the model's redraw budget).
   B2R is Flocq's real value of a double. *)
Theorem C09_random_range : forall v e, int63_stream (rng e) ->
  exists x e', call_builtin v (STR "random") [] e = Some (Val (Some (VNum x)), e') /\
               Flocq.IEEE754.BinarySingleNaN.is_finite x = true /\
               (0 <= Flocq.IEEE754.BinarySingleNaN.B2R x <= 1)%R /\
               ((Flocq.IEEE754.BinarySingleNaN.B2R x < 1)%R \/ (length (rng e) - length (rng e') = 17)%nat).
Proof. exact random_builtin_range. Qed.
Print Assumptions C09_random_range.

Theorem C09_seed_alphabet_accepted : forall s acc,
  (forall c, In c s -> ((48 <=? c) && (c <=? 57) || (97 <=? c) && (c <=? 122))%N = true) ->
  seed_to_int64 s acc <> None.
Proof. exact seed_alphabet. Qed.
Print Assumptions C09_seed_alphabet_accepted.

(* non-vacuity: a seed that wraps int64 *)
Example C09_seed_wraps : seed_to_int64 (STR "zzzzzzzzzzzzzz") 0 = Some (-1823562080465190913).
Proof. vm_compute. reflexivity. Qed.
