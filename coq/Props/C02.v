(* C02 - expressions follow Yarn's operator table, precedence and short-circuiting.
   Grouping by precedence/associativity: the expression rule of the generated parser is modelled as
   the precedence-climbing loop its Go code spells out (Syntax/ExprParser.v), with the levels taken
   from Generated/ExprTable.v, which tools/gen_exprtable.py extracts from
   internal/parser/yarnspinner_parser.go on every run; the theorems at the end of this file are
   re-checked against that table. Modelled, not proved: that AdaptivePredict takes the decision the
   precedence predicates prescribe, the lexer (operator spellings, literals), and the listener's
   callback stack - family 'exprparse' compares the model parser with the implementation's on token
   sequences, family 'exprs' requires the AST round trip before comparing values. *)
From Coq Require Import List ZArith Bool.
From YS Require Import Base.Sexp Num.F64 Yarn.Ast Yarn.Value Yarn.Eval Proofs.EvalProofs.
From YS Require Import Generated.ExprTable Syntax.ExprParser Proofs.ExprParserProofs.
From Coq Require String.
Import ListNotations.

Theorem C02_binary_operation_is_the_table : forall v o a b e,
  eval v (EBin o (EVal a) (EVal b)) e = (if decided o a then Val a else of_opt (table o a b), e).
Proof. exact binop_on_values. Qed.
Print Assumptions C02_binary_operation_is_the_table.

Theorem C02_ill_typed_is_error : forall o a b, same_type a b = false -> table o a b = None.
Proof. exact ill_typed_is_error. Qed.
Print Assumptions C02_ill_typed_is_error.

Theorem C02_unary_table : forall v a e,
  eval v (ENeg (EVal a)) e = (match a with VNum n => Val (VNum (fneg n)) | _ => Fail end, e) /\
  eval v (ENot (EVal a)) e = (match a with VBool b => Val (VBool (negb b)) | _ => Fail end, e).
Proof. exact unary_table. Qed.
Print Assumptions C02_unary_table.

Theorem C02_general_operands : forall o a b, same_type a b = true -> decided o a = false ->
  apply_binop o a b = of_opt (table o a b).
Proof. exact apply_binop_is_table. Qed.
Print Assumptions C02_general_operands.

Theorem C02_and_short_circuit : forall v l r e e1, eval v l e = (Val (VBool false), e1) ->
  eval v (EBin OAnd l r) e = (Val (VBool false), e1).
Proof. exact and_short_circuit. Qed.
Theorem C02_or_short_circuit : forall v l r e e1, eval v l e = (Val (VBool true), e1) ->
  eval v (EBin OOr l r) e = (Val (VBool true), e1).
Proof. exact or_short_circuit. Qed.
Print Assumptions C02_or_short_circuit.

Theorem C02_arguments_left_to_right_then_call : forall v f args e,
  eval v (ECall f args) e =
  match eval_list v args e with
  | (Val vs, e1) => match call_function v f vs e1 with
                    | (Val (Some r), e2) => (Val r, e2)
                    | (Val None, e2) => (Fail, e2)
                    | (Fail, e2) => (Fail, e2)
                    | (Crash, e2) => (Crash, e2)
                    end
  | (Fail, e1) => (Fail, e1)
  | (Crash, e1) => (Crash, e1)
  end.
Proof. exact eval_call_args. Qed.
Print Assumptions C02_arguments_left_to_right_then_call.

Theorem C02_probe_called_exactly_once : forall v args e vs e1, eval_list v args e = (Val vs, e1) ->
  hlog (snd (eval v (ECall (STR "p") args) e)) = HCall (STR "p") vs :: hlog e1.
Proof. exact probe_logs_once. Qed.
Print Assumptions C02_probe_called_exactly_once.

(* non-vacuity: 7 % 4 = 3, "a" + "b", false and <failing call> does not call *)
Example C02_examples : forall v e,
  eval v (EBin OMod (EVal (VNum (of_Z 7))) (EVal (VNum (of_Z 4)))) e = (Val (VNum (fmod (of_Z 7) (of_Z 4))), e) /\
  eval v (EBin OAnd (EVal (VBool false)) (ECall (STR "fail") [])) e = (Val (VBool false), e) /\
  eval v (EBin OAdd (EVal (VNum (of_Z 1))) (EVal (VStr (STR "x")))) e = (Fail, e).
Proof. intros. repeat split; reflexivity. Qed.

(* ---------- grouping: precedence, associativity, parentheses ---------- *)
Notation YPrints := (Prints level right_prec neg_operand_prec not_operand_prec).

(* the table extracted from the Go source is the one the property states *)
Theorem C02_precedence_table :
  level OAnd = level OOr /\ level OOr = level OXor /\
  level OXor < level OEq /\ level OEq = level ONe /\
  level ONe < level OLe /\ level OLe = level OGe /\ level OGe = level OLt /\ level OLt = level OGt /\
  level OGt < level OAdd /\ level OAdd = level OSub /\
  level OSub < level OMul /\ level OMul = level ODiv /\ level ODiv = level OMod /\
  level OMod < not_operand_prec /\ level OMod < neg_operand_prec.
Proof. exact generated_table_order. Qed.
Print Assumptions C02_precedence_table.

Theorem C02_table_well_formed : wf_table level right_prec neg_operand_prec not_operand_prec.
Proof. exact generated_table_wf. Qed.

(* every expression tree, written down with parentheses wherever the table requires them and
   anywhere else (YPrints: left operand at the operator's level, right operand one level tighter,
   operand of a prefix operator tighter than every binary operator, arguments at level 0, parentheses
   around anything), is read back as that tree, for all sufficient fuel *)
Theorem C02_written_expression_is_read_back : forall e ts k,
  YPrints 0 e ts k -> eventually (fun fuel => ys_parse_expr fuel 0 ts) (e, []).
Proof. exact (prints_parse _ _ _ _ generated_table_wf). Qed.
Print Assumptions C02_written_expression_is_read_back.

Theorem C02_minimal_parentheses_suffice : forall e,
  eventually (fun fuel => ys_parse_expr fuel 0 (print_min level right_prec neg_operand_prec not_operand_prec 0 e)) (e, []).
Proof. exact (parse_print_min _ _ _ _ generated_table_wf). Qed.

Theorem C02_full_parentheses_agree : forall e,
  eventually (fun fuel => ys_parse_expr fuel 0 (paren (print_full e))) (e, []).
Proof. exact (parse_print_full _ _ _ _ generated_table_wf). Qed.

Theorem C02_written_form_determines_tree : forall e1 e2 ts k1 k2,
  YPrints 0 e1 ts k1 -> YPrints 0 e2 ts k2 -> e1 = e2.
Proof. exact (written_form_determines_tree _ _ _ _ generated_table_wf). Qed.

(* the rules in the words of the property, on  a o1 b o2 c *)
Theorem C02_tighter_operator_groups_first : forall a b c o1 o2, level o1 < level o2 ->
  eventually (fun fuel => ys_parse_expr fuel 0 [TAtom a; TOp o1; TAtom b; TOp o2; TAtom c])
             (EBin o1 (expr_of_atom a) (EBin o2 (expr_of_atom b) (expr_of_atom c)), []).
Proof. exact (group_right_when_tighter _ _ _ _ generated_table_wf). Qed.

Theorem C02_left_associative_otherwise : forall a b c o1 o2, level o2 <= level o1 ->
  eventually (fun fuel => ys_parse_expr fuel 0 [TAtom a; TOp o1; TAtom b; TOp o2; TAtom c])
             (EBin o2 (EBin o1 (expr_of_atom a) (expr_of_atom b)) (expr_of_atom c), []).
Proof. exact (group_left_otherwise _ _ _ _ generated_table_wf). Qed.

Theorem C02_prefix_operators_bind_tightest : forall a b o,
  eventually (fun fuel => ys_parse_expr fuel 0 [TOp OSub; TAtom a; TOp o; TAtom b])
             (EBin o (ENeg (expr_of_atom a)) (expr_of_atom b), []) /\
  eventually (fun fuel => ys_parse_expr fuel 0 [TNot; TAtom a; TOp o; TAtom b])
             (EBin o (ENot (expr_of_atom a)) (expr_of_atom b), []).
Proof. intros; split; [exact (neg_binds_tightest _ _ _ _ generated_table_wf a b o)|exact (not_binds_tightest _ _ _ _ generated_table_wf a b o)]. Qed.

Theorem C02_parentheses_override : forall a b c o1 o2,
  eventually (fun fuel => ys_parse_expr fuel 0 [TLP; TAtom a; TOp o1; TAtom b; TRP; TOp o2; TAtom c])
             (EBin o2 (EBin o1 (expr_of_atom a) (expr_of_atom b)) (expr_of_atom c), []) /\
  eventually (fun fuel => ys_parse_expr fuel 0 [TAtom a; TOp o1; TLP; TAtom b; TOp o2; TAtom c; TRP])
             (EBin o1 (expr_of_atom a) (EBin o2 (expr_of_atom b) (expr_of_atom c)), []).
Proof. intros; split; [exact (parens_override_left _ _ _ _ generated_table_wf a b c o1 o2)|exact (parens_override_right _ _ _ _ generated_table_wf a b c o1 o2)]. Qed.
Print Assumptions C02_parentheses_override.

(* non-vacuity, with the fuel the wire layer uses: a + b * c == d and not false;  - a - b;  f(a, (b));
   a dangling operator is refused *)
Local Open Scope string_scope.
Example C02_grouping_examples :
  let v (x : String.string) := TAtom (AVar (str_of_string x)) in let ev (x : String.string) := EVar (str_of_string x) in
  parse_expression [v "a"; TOp OAdd; v "b"; TOp OMul; v "c"; TOp OEq; v "d"; TOp OAnd; TNot; TAtom (AVal (VBool false))]
    = Some (EBin OAnd (EBin OEq (EBin OAdd (ev "a") (EBin OMul (ev "b") (ev "c"))) (ev "d")) (ENot (EVal (VBool false)))) /\
  parse_expression [TOp OSub; v "a"; TOp OSub; v "b"] = Some (EBin OSub (ENeg (ev "a")) (ev "b")) /\
  parse_expression [TFunc (str_of_string "f"); TLP; v "a"; TComma; TLP; v "b"; TRP; TRP] = Some (ECall (str_of_string "f") [ev "a"; ev "b"]) /\
  parse_expression [v "a"; TOp OAdd] = None.
Proof. vm_compute. repeat split. Qed.
