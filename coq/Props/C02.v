(* C02 - expressions follow Yarn's operator table, precedence and short-circuiting.
   Partial: grouping by precedence/associativity is decided by the ANTLR grammar and the listener's
   callback stack, which are not verified here; the correspondence family 'exprs' prints every
   generated tree with minimal / redundant parentheses and all operator spellings and requires the
   implementation's parser to give the tree back (AST round trip) before comparing values. *)
From Coq Require Import List ZArith Bool.
From YS Require Import Base.Sexp Num.F64 Yarn.Ast Yarn.Value Yarn.Eval Proofs.EvalProofs.
Import ListNotations.

Theorem C02_binary_operation_is_the_table : forall v o a b e,
  eval v (EBin o (EVal a) (EVal b)) e = (if decided o a then Val a else of_opt (table o a b), e).
Proof. exact binop_on_values. Qed.
Print Assumptions C02_binary_operation_is_the_table.

Theorem C02_ill_typed_is_error : forall o a b, same_type a b = false -> table o a b = None.
Proof. exact ill_typed_is_error. Qed.
Print Assumptions C02_ill_typed_is_error.

Theorem C02_unary_table : forall v a e,
  eval v (ENeg (EVal a)) e = (match a with VNum n => Val (VNum (fneg n)) | _ => Fail end, e) /\
  eval v (ENot (EVal a)) e = (match a with VBool b => Val (VBool (negb b)) | _ => Fail end, e).
Proof. exact unary_table. Qed.
Print Assumptions C02_unary_table.

Theorem C02_general_operands : forall o a b, same_type a b = true -> decided o a = false ->
  apply_binop o a b = of_opt (table o a b).
Proof. exact apply_binop_is_table. Qed.
Print Assumptions C02_general_operands.

Theorem C02_and_short_circuit : forall v l r e e1, eval v l e = (Val (VBool false), e1) ->
  eval v (EBin OAnd l r) e = (Val (VBool false), e1).
Proof. exact and_short_circuit. Qed.
Theorem C02_or_short_circuit : forall v l r e e1, eval v l e = (Val (VBool true), e1) ->
  eval v (EBin OOr l r) e = (Val (VBool true), e1).
Proof. exact or_short_circuit. Qed.
Print Assumptions C02_or_short_circuit.

Theorem C02_arguments_left_to_right_then_call : forall v f args e,
  eval v (ECall f args) e =
  match eval_list v args e with
  | (Val vs, e1) => match call_function v f vs e1 with
                    | (Val (Some r), e2) => (Val r, e2)
                    | (Val None, e2) => (Fail, e2)
                    | (Fail, e2) => (Fail, e2)
                    | (Crash, e2) => (Crash, e2)
                    end
  | (Fail, e1) => (Fail, e1)
  | (Crash, e1) => (Crash, e1)
  end.
Proof. exact eval_call_args. Qed.
Print Assumptions C02_arguments_left_to_right_then_call.

Theorem C02_probe_called_exactly_once : forall v args e vs e1, eval_list v args e = (Val vs, e1) ->
  hlog (snd (eval v (ECall (STR "p") args) e)) = HCall (STR "p") vs :: hlog e1.
Proof. exact probe_logs_once. Qed.
Print Assumptions C02_probe_called_exactly_once.

(* non-vacuity: 7 % 4 = 3, "a" + "b", false and <failing call> does not call *)
Example C02_examples : forall v e,
  eval v (EBin OMod (EVal (VNum (of_Z 7))) (EVal (VNum (of_Z 4)))) e = (Val (VNum (fmod (of_Z 7) (of_Z 4))), e) /\
  eval v (EBin OAnd (EVal (VBool false)) (ECall (STR "fail") [])) e = (Val (VBool false), e) /\
  eval v (EBin OAdd (EVal (VNum (of_Z 1))) (EVal (VStr (STR "x")))) e = (Fail, e).
Proof. intros. repeat split; reflexivity. Qed.
