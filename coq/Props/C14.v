(* C14 - markup parsing is a pure function of the line. *)
From Coq Require Import List ZArith.
From YS Require Import Base.Sexp Markup.LineParser Proofs.MarkupProofs.
Import ListNotations.

(* the persistent fields of a LineParser value (input, reader, sourcePosition, position) are all
   written before they are read: two parser values in ANY states give the same result *)
Theorem C14_state_independent : forall st1 st2 input,
  snd (parse_markup_on st1 input) = snd (parse_markup_on st2 input).
Proof. exact parse_markup_state_independent. Qed.
Print Assumptions C14_state_independent.

(* after any history of parsed lines, failing ones included, the result is that of the line alone *)
Theorem C14_result_after_any_history : forall hist st input,
  snd (parse_markup_on (fold_left (fun s h => fst (parse_markup_on s h)) hist st) input) = parse_markup input.
Proof. exact result_after_any_history. Qed.
Print Assumptions C14_result_after_any_history.
