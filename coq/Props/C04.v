(* C04 - line/option rendering: literal text, escapes, interpolation, tags, Disabled.
   Partial: the lexing theorems are about a transcription of the TextMode part of
   YarnSpinnerLexer.g4 (Syntax/TextLine.v; the generated lexer itself is not verified - the
   correspondence family 'textline' compares the transcription with the implementation's parser on
   every run); number display rests on the strconv models of Num/Decimal.v. *)
From Coq Require Import List ZArith NArith Bool.
From YS Require Import Base.Sexp Num.F64 Yarn.Ast Yarn.Value Yarn.Eval Markup.LineParser Yarn.Runner
     Syntax.TextLine Syntax.TextLineWire Proofs.TextLineProofs Proofs.RenderProofs Proofs.LiteralProofs.
Import ListNotations.
Local Open Scope N_scope.

(* every character of a literal text - escaped by the printer or not, first in the line or later -
   reaches the line's text; nothing else does *)
Theorem C04_text_roundtrip : forall t, line_text_ok t -> lex_line (escape t) = Some (t, []).
Proof. exact text_roundtrip. Qed.
Print Assumptions C04_text_roundtrip.

(* trailing #hashtags: returned in order, without '#', never in the text *)
Theorem C04_tags_roundtrip : forall t t0 tags, line_text_ok t -> good_tag t0 -> Forall good_tag tags ->
  lex_line (escape t ++ 35 :: t0 ++ render_tags tags) = Some (t, t0 :: tags).
Proof. exact text_tags_roundtrip. Qed.
Print Assumptions C04_tags_roundtrip.

(* comments never appear *)
Theorem C04_comment_removed : forall t cm, line_text_ok t -> no_newline cm ->
  lex_line (escape t ++ 47 :: 47 :: cm) = Some (t, []).
Proof. exact comment_removed. Qed.
Print Assumptions C04_comment_removed.

(* characters that may be written with or without a backslash *)
Theorem C04_optional_escape : forall c rest_ acc, (c =? 62) || (c =? 125) = true ->
  lex_text (92 :: c :: rest_) acc = lex_text (c :: rest_) acc.
Proof. exact optional_escape_same. Qed.

(* end to end for literal text (lexer transcription, then the markup phase): a line written as any
   sequence of characters - each escapable one with or without its backslash, '<' and '/' single, ']'
   plain, brackets escaped - is returned with every escape resolved, trimmed; with hashtags the tags
   are returned in order; a comment never appears.  Excluded: an escaped bracket as the very first
   character (finding D21) and an escaped backslash directly before a plain ']' (finding D27). *)
Theorem C04_literal_text_resolved : forall t ts,
  first_ok t = true -> lex_ok None (t :: ts) = true -> mk_ok (t :: ts) = true ->
  literal_pipeline (write (t :: ts)) = Some (trim_space (meaning (t :: ts)), []).
Proof. exact literal_text_resolved. Qed.
Print Assumptions C04_literal_text_resolved.

Theorem C04_literal_text_resolved_tags : forall t ts t0 tags,
  first_ok t = true -> lex_ok (Some 35) (t :: ts) = true -> mk_ok (t :: ts) = true ->
  good_tag t0 -> Forall good_tag tags ->
  literal_pipeline (write (t :: ts) ++ 35 :: t0 ++ render_tags tags)
    = Some (trim_space (meaning (t :: ts)), t0 :: tags).
Proof. exact literal_text_resolved_tags. Qed.

Theorem C04_literal_text_resolved_comment : forall t ts cm,
  first_ok t = true -> lex_ok (Some 47) (t :: ts) = true -> mk_ok (t :: ts) = true ->
  literal_pipeline (write (t :: ts) ++ 47 :: 47 :: cm) = Some (trim_space (meaning (t :: ts)), []).
Proof. exact literal_text_resolved_comment. Qed.

(* known finding D27: the excluded shape really fails - the source a\\]b means a\]b, the runner
   returns a]b (the lexer resolves the escaped backslash, the markup phase resolves it again) *)
Theorem C04_escaped_backslash_before_bracket_refuted :
  let ts := [TChar 97; TEsc 92; TChar 93; TChar 98] in
  first_ok (TChar 97) = true /\ lex_ok None ts = true /\ mk_ok ts = false /\
  meaning ts = [97; 92; 93; 98] /\
  literal_pipeline (write ts) = Some ([97; 93; 98], []).
Proof. exact escaped_backslash_before_bracket_refuted. Qed.
Print Assumptions C04_escaped_backslash_before_bracket_refuted.

(* known finding D21: "\[" is text inside a line and a syntax error at its start *)
Theorem C04_first_char_bracket_refuted :
  lex_line [97; 92; 91; 98; 92; 93] = Some ([97; 92; 91; 98; 92; 93], []) /\ lex_line [92; 91; 98; 92; 93] = None.
Proof. exact first_char_bracket_refuted. Qed.
Print Assumptions C04_first_char_bracket_refuted.

(* option groups: one rendered option per option, in order, same tags; Disabled is false without a
   condition and the negation of the condition's boolean value otherwise *)
Theorem C04_options_preserved : forall os s ros s', render_options s os = (Val ros, s') ->
  Forall2 (option_rendered s) os ros.
Proof. exact options_preserved. Qed.
Theorem C04_options_same_length : forall os s ros s', render_options s os = (Val ros, s') ->
  length ros = length os.
Proof. exact options_same_length. Qed.
Print Assumptions C04_options_same_length.

(* interpolation: literal parts and display forms of values, concatenated in order *)
Theorem C04_values_concatenated_in_order : forall s vs acc,
  render_parts s (map (fun v => TExpr (EVal v)) vs) acc = (Val (acc ++ flat_map to_string vs), s).
Proof. exact render_parts_concat_values. Qed.
Print Assumptions C04_values_concatenated_in_order.

(* display forms: True/False, strings verbatim, integral numbers without a decimal point *)
Example C04_display_examples :
  map to_string [VBool true; VBool false; VStr (STR "x y"); VNum (of_Z 3); VNum (fneg (of_Z 7));
                 VNum (fdiv (of_Z 5) (of_Z 2)); VNum (fdiv (of_Z 1) (of_Z 3)); VNum (of_Z (10 ^ 20))]
  = [STR "True"; STR "False"; STR "x y"; STR "3"; STR "-7"; STR "2.5"; STR "0.3333333333333333";
     STR "100000000000000000000"].
Proof. vm_compute. reflexivity. Qed.

(* ---------- display forms of interpolated values ---------- *)
From Coq Require Import Reals.
From Flocq Require Import Core BinarySingleNaN.
From YS Require Import Num.F64 Proofs.DisplayProofs.

(* integral numbers (in the int64 range) are shown as an optional minus sign and decimal digits:
   no decimal point, no exponent *)
Theorem C04_integral_numbers_without_decimal_point : forall n : f64,
  is_finite n = true -> B2R n = IZR (Btrunc n) -> (- two63 <= Btrunc n < two63)%Z ->
  num_to_string n = z_to_str (Btrunc n) /\
  exists ds, ds <> [] /\ Forall (fun c => is_digit c = true) ds /\
             (num_to_string n = ds \/ num_to_string n = 45%N :: ds).
Proof.
  intros n F I R. split; [exact (integral_number_displayed_as_integer n F I R)|exact (integral_number_has_no_decimal_point n F I R)].
Qed.
Print Assumptions C04_integral_numbers_without_decimal_point.

Theorem C04_booleans_and_strings_display : forall (b : bool) (s : str),
  to_string (VBool b) = (if b then STR "True" else STR "False") /\ to_string (VStr s) = s.
Proof. exact booleans_and_strings_display. Qed.
