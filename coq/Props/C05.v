(* C05 - loading any input yields a runner or an error; bad syntax is an error.
   Partial: which byte strings are valid scripts is decided by the generated ANTLR lexer and parser,
   which are not modelled; the correspondence family 'load' judges the implementation against an
   independent run of that same generated code with its own error listeners.  Proved here are the
   hand-written parts between the bytes and the runner: the indentation-aware lexer wrapper (never
   panics except on indentation mixing tabs and blanks, which FromReader recovers into an error),
   the seed rule, and the choice of the start node. *)
From Coq Require Import List ZArith NArith Bool.
From YS Require Import Base.Sexp Yarn.Ast Yarn.Value Yarn.Eval Yarn.Runner Yarn.RunnerWire Syntax.Indent
     Proofs.IndentProofs Proofs.RngProofs.
Import ListNotations.

(* the wrapper hands the parser a complete stream (no nil token, ends in EOF) for every base stream
   whose indentation never mixes tabs and blanks ... *)
Theorem C05_lexer_wrapper_total : forall ts, Forall clean_btok ts ->
  exists out, wrap ts [] = Some out /\
              forall fuel, length out <= fuel -> pull fuel (linit false ts) = Some out.
Proof. exact token_stream_total. Qed.
Print Assumptions C05_lexer_wrapper_total.

(* ... on the empty input it returns EOF at once ... *)
Theorem C05_empty_input : forall ts fuel, pull (S fuel) (linit true ts) = Some [TEOF].
Proof. exact pull_empty_input. Qed.

(* ... and the only other outcome is the (recovered) panic on mixed indentation *)
Theorem C05_only_mixed_indentation_panics : forall ts fuel,
  wrap ts [] = None -> pull fuel (linit false ts) = None.
Proof. exact pull_panics_iff_wrap. Qed.
Print Assumptions C05_only_mixed_indentation_panics.

(* seeds: every string over [0-9a-z] is accepted *)
Theorem C05_seed_alphabet_accepted : forall s acc,
  (forall c, In c s -> ((48 <=? c) && (c <=? 57) || (97 <=? c) && (c <=? 122))%N = true) ->
  seed_to_int64 s acc <> None.
Proof. exact seed_alphabet. Qed.
Print Assumptions C05_seed_alphabet_accepted.

(* a runner exists exactly when the dialogue has a node, and starts at the first one *)
Theorem C05_runner_iff_a_node : forall d init stream sc cmds,
  (new_runner d init stream sc cmds = None <-> d = []) /\
  (forall n rest_, d = n :: rest_ -> exists m, new_runner d init stream sc cmds = Some m /\
                                               stack m = [body n] /\ cur (dat m) = title n).
Proof.
  intros d init stream sc cmds. split.
  - destruct d; cbn; split; intros H; try reflexivity; discriminate.
  - intros n r E. subst. eexists. split; [reflexivity|]. split; reflexivity.
Qed.
Print Assumptions C05_runner_iff_a_node.

(* the statement rules of the generated parser + the listener, as modelled in Syntax/StmtParser.v over
   the token table extracted from the Go source (family stmtparse compares the model with
   tree.FromReader on every run, on printed programs, mutated programs, soups and cut scripts):
   errors reported by the lexer refuse the input whatever the tokens are, input left after the last
   node is refused, and a dialogue without a node is refused *)
From YS Require Import Yarn.Ast Generated.ExprTable Syntax.ExprParser Generated.TokenTable Syntax.StmtParser Proofs.StmtParserProofs.

Theorem C05_lexer_errors_refuse_the_input : forall n ts, n <> 0%Z -> from_reader n ts = None.
Proof. intros n ts H. unfold from_reader. destruct (Z.eqb_spec n 0); [contradiction|reflexivity]. Qed.
Print Assumptions C05_lexer_errors_refuse_the_input.

Theorem C05_accepted_means_nodes_then_end_of_input : forall n ts d,
  from_reader n ts = Some d -> n = 0%Z /\ d <> [] /\ exists ts', parse_nodes (S (length ts)) (skip_file_hashtags ts) = Some (d, [(K_EOF, ts')]).
Proof.
  intros n ts d. unfold from_reader. destruct (Z.eqb_spec n 0) as [->|]; [|discriminate].
  unfold parse_dialogue. destruct (parse_nodes _ _) as [[ns r]|]; [|discriminate].
  destruct ns as [|nd ns]; [discriminate|]. destruct r as [|[k s] r]; [discriminate|].
  destruct k; try discriminate. destruct r; [|discriminate].
  intros H. inversion H; subst. split; [reflexivity|]. split; [discriminate|]. exists s. reflexivity.
Qed.
Print Assumptions C05_accepted_means_nodes_then_end_of_input.

(* every written statement sequence is accepted and read as what it stands for (C08 states it in full) *)
Theorem C05_written_statements_are_accepted :
  forall (er : expr -> list (kind * str)) (ewf : expr -> Prop),
  (forall e, Forall is_etok (er e)) ->
  (forall e, ewf e -> parse_expression (fst (take_etoks (er e))) = Some e) ->
  (forall f args, ewf (ECall f args) -> parse_call_toks (fst (take_etoks (er (ECall f args)))) = Some (f, args)) ->
  (forall v, ewf v -> (exists a, v = expr_of_atom a) \/ (exists f args, v = ECall f args) ->
             parse_value_toks (fst (take_etoks (er v))) = Some v) ->
  forall ws rest fuel,
    wfs er ewf ws (hd_kind rest) -> starts_statement rest = false -> wssize ws <= fuel ->
    parse_stmts fuel (pws er ws ++ rest) <> None.
Proof. intros er ewf H1 H2 H3 H4 ws rest fuel Hw Hs Hf. rewrite (parse_written er ewf H1 H2 H3 H4 ws rest fuel Hw Hs Hf). discriminate. Qed.
Print Assumptions C05_written_statements_are_accepted.

(* whole scripts: file-level hashtags, one or more nodes (each with at least one header - a key with or
   without a value - and a well-formed written body), end of input.  The model of tree.FromReader accepts
   every such token sequence and returns the dialogue it stands for: headers as a map (last value of a key,
   in key order), bodies by [meaning].  No fuel appears: the fuel the model gives its parsers
   (2 * tokens + 4 per body, tokens + 1 for the node list) is proved sufficient (size_tokens). *)
From YS Require Import Proofs.StmtParserTop.

Theorem C05_every_written_script_is_loaded :
  forall (er : expr -> list (kind * str)) (ewf : expr -> Prop),
  (forall e, Forall is_etok (er e)) ->
  (forall e, ewf e -> parse_expression (fst (take_etoks (er e))) = Some e) ->
  (forall f args, ewf (ECall f args) -> parse_call_toks (fst (take_etoks (er (ECall f args)))) = Some (f, args)) ->
  (forall v, ewf v -> (exists a, v = expr_of_atom a) \/ (exists f args, v = ECall f args) ->
             parse_value_toks (fst (take_etoks (er v))) = Some v) ->
  forall tags ns, ns <> [] -> Forall (node_ok er ewf) ns ->
    from_reader 0 (p_script er tags ns) = Some (map mean_node ns).
Proof. exact written_script_is_loaded. Qed.
Print Assumptions C05_every_written_script_is_loaded.

(* ... and with the expressions written as tokens of the real lexer's vocabulary (Proofs/ExprTokens.v:
   minimal parentheses over the generated precedence table, `$x`, `"s"`, digits, true / false / null),
   nothing is left as a parameter.  Proofs/ExprFuelProofs.v makes the fuel of the expression parser
   explicit (2 * tokens + 1 suffice; the model gives 4 * tokens + 4).  The one condition on expressions:
   the text written for a number is read back as that number ([ewf_min]: num_ok on every numeral -
   number(string(x)) = x is not proved in general, it is checked per literal by computation). *)
From YS Require Import Proofs.ExprTokens Proofs.ScriptTokens.

Theorem C05_every_written_script_is_loaded_real_tokens : forall tags ns,
  ns <> [] -> Forall (node_ok er_min ewf_min) ns ->
  from_reader 0 (p_script er_min tags ns) = Some (map mean_node ns).
Proof. exact written_script_tokens_are_loaded. Qed.
Print Assumptions C05_every_written_script_is_loaded_real_tokens.
