(* C05 - loading any input yields a runner or an error; bad syntax is an error.
   Partial: which byte strings are valid scripts is decided by the generated ANTLR lexer and parser,
   which are not modelled; the correspondence family 'load' judges the implementation against an
   independent run of that same generated code with its own error listeners.  Proved here are the
   hand-written parts between the bytes and the runner: the indentation-aware lexer wrapper (never
   panics except on indentation mixing tabs and blanks, which FromReader recovers into an error),
   the seed rule, and the choice of the start node. *)
From Coq Require Import List ZArith NArith Bool.
From YS Require Import Base.Sexp Yarn.Ast Yarn.Value Yarn.Eval Yarn.Runner Yarn.RunnerWire Syntax.Indent
     Proofs.IndentProofs Proofs.RngProofs.
Import ListNotations.

(* the wrapper hands the parser a complete stream (no nil token, ends in EOF) for every base stream
   whose indentation never mixes tabs and blanks ... *)
Theorem C05_lexer_wrapper_total : forall ts, Forall clean_btok ts ->
  exists out, wrap ts [] = Some out /\
              forall fuel, length out <= fuel -> pull fuel (linit false ts) = Some out.
Proof. exact token_stream_total. Qed.
Print Assumptions C05_lexer_wrapper_total.

(* ... on the empty input it returns EOF at once ... *)
Theorem C05_empty_input : forall ts fuel, pull (S fuel) (linit true ts) = Some [TEOF].
Proof. exact pull_empty_input. Qed.

(* ... and the only other outcome is the (recovered) panic on mixed indentation *)
Theorem C05_only_mixed_indentation_panics : forall ts fuel,
  wrap ts [] = None -> pull fuel (linit false ts) = None.
Proof. exact pull_panics_iff_wrap. Qed.
Print Assumptions C05_only_mixed_indentation_panics.

(* seeds: every string over [0-9a-z] is accepted *)
Theorem C05_seed_alphabet_accepted : forall s acc,
  (forall c, In c s -> ((48 <=? c) && (c <=? 57) || (97 <=? c) && (c <=? 122))%N = true) ->
  seed_to_int64 s acc <> None.
Proof. exact seed_alphabet. Qed.
Print Assumptions C05_seed_alphabet_accepted.

(* a runner exists exactly when the dialogue has a node, and starts at the first one *)
Theorem C05_runner_iff_a_node : forall d init stream sc cmds,
  (new_runner d init stream sc cmds = None <-> d = []) /\
  (forall n rest_, d = n :: rest_ -> exists m, new_runner d init stream sc cmds = Some m /\
                                               stack m = [body n] /\ cur (dat m) = title n).
Proof.
  intros d init stream sc cmds. split.
  - destruct d; cbn; split; intros H; try reflexivity; discriminate.
  - intros n r E. subst. eexists. split; [reflexivity|]. split; reflexivity.
Qed.
Print Assumptions C05_runner_iff_a_node.
