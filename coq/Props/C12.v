(* C12 - the end of the dialogue is absorbing.  Property theorems only. *)
From Coq Require Import List ZArith Bool.
From YS Require Import Base.Sexp Yarn.Ast Yarn.Value Yarn.Eval Yarn.Runner Proofs.FlowProofs.
Import ListNotations.

(* whichever way the end was reached (empty continuation, or <<stop>> at any depth with statements
   remaining), the next call - any argument, any fuel - reports the end again and returns the
   SAME state: no variable, host log, storer log, visit count, RNG or command changes *)
Theorem C12_end_absorbing : forall d fm m c m', next d fm m c = (NEnd, m') ->
  forall fm' c', next d (S fm') m' c' = (NEnd, m').
Proof. exact end_absorbing. Qed.
Print Assumptions C12_end_absorbing.

(* any number of further calls *)
Theorem C12_end_forever : forall d fm m c m', next d fm m c = (NEnd, m') ->
  forall fm' cs, iter_next d (S fm') m' cs = (map (fun _ => NEnd) cs, m').
Proof. exact end_forever. Qed.
Print Assumptions C12_end_forever.

(* the state in which the end is reported has nothing pending at all *)
Theorem C12_end_state : forall d fm m c m', next d fm m c = (NEnd, m') ->
  stack m' = [] /\ last_opts m' = None /\ pending (dat m') = None.
Proof. exact next_end_state. Qed.
Print Assumptions C12_end_state.

(* non-vacuity: <<stop>> inside an option body with statements after it *)
Local Open Scope string_scope.
Definition ln (t : String.string) : stmt :=
  SLine {| ltext := [TText (str_of_string t)]; lcond := None; ltags := [] |}.
Definition stop_dialogue : dialogue :=
  [ {| headers := [(STR "title", STR "A")];
       body := [SOpts [({| ltext := [TText (STR "o")]; lcond := None; ltags := [] |},
                        [ln "x"; SCmd [EVal (VStr (STR "stop"))]; ln "y"])];
                ln "z"] |} ].
Example C12_example :
  match new_runner stop_dialogue empty_store [] [] [] with
  | Some m => match fst (iter_next stop_dialogue 50 m [0; 0; 0; 3; -1; 0]%Z) with
              | [NElem (EOpts _ _); NElem (ELine _ _); NEnd; NEnd; NEnd; NEnd] => true
              | _ => false
              end
  | None => false
  end = true.
Proof. vm_compute. reflexivity. Qed.
