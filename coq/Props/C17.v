(* C17 - custom commands receive exactly the arguments written in the script.
   Partial: that a generic command's text reaches the listener as COMMAND_TEXT tokens and inline
   expressions (for names that merely begin with a keyword too) is a fact about the generated ANTLR
   lexer, observed by the correspondence family 'cmdargs'; names beginning with else / endif /
   endenum are the known finding D20.  Dispatch (once, stop never dispatched, unknown names are
   errors) is C10's/C06's theorems. *)
From Coq Require Import List ZArith NArith Bool.
From YS Require Import Base.Sexp Num.F64 Num.Decimal Yarn.Ast Yarn.Value Yarn.Eval Yarn.Runner
     Syntax.CommandText Proofs.CommandProofs Proofs.SafetyProofs.
Import ListNotations.

(* classification of a word *)
Theorem C17_true_false_are_booleans :
  value_from_command_text (STR "true") = VBool true /\ value_from_command_text (STR "false") = VBool false.
Proof. exact (conj classify_true classify_false). Qed.
Theorem C17_decimal_literals_are_numbers : forall w n,
  str_eqb w (STR "true") = false -> str_eqb w (STR "false") = false ->
  is_decimal_literal w = true -> parse_float w = Some n -> value_from_command_text w = VNum n.
Proof. exact classify_number. Qed.
Theorem C17_every_other_word_is_a_string : forall w,
  str_eqb w (STR "true") = false -> str_eqb w (STR "false") = false ->
  is_decimal_literal w = false -> value_from_command_text w = VStr w.
Proof. exact classify_string. Qed.
Print Assumptions C17_every_other_word_is_a_string.

(* words separated by any non-empty whitespace, with any whitespace around, are the arguments, in order *)
Theorem C17_words_are_the_arguments : forall ws seps lead trail,
  Forall (fun w => no_space w /\ w <> []) ws -> Forall (fun s => all_space s /\ s <> []) seps ->
  length seps = pred (length ws) -> all_space lead -> all_space trail ->
  rearrange [RText (lead ++ join ws seps trail)] [] = map (fun w => EVal (value_from_command_text w)) ws.
Proof. exact command_words. Qed.
Print Assumptions C17_words_are_the_arguments.

(* how the lexer cuts the text into tokens does not matter; an inline expression is an argument of
   its own, in place *)
Theorem C17_token_boundaries_irrelevant : forall a b r acc,
  rearrange (RText a :: RText b :: r) acc = rearrange (RText (a ++ b) :: r) acc.
Proof. exact rearrange_text_tokens. Qed.
Theorem C17_expression_in_place : forall t e r,
  rearrange (RText t :: RExpr e :: r) [] = split_words t ++ e :: rearrange r [].
Proof. exact rearrange_expr_in_place. Qed.
Print Assumptions C17_expression_in_place.

(* dispatch *)
Theorem C17_handler_once_with_arguments : forall s name args,
  str_eqb name (STR "stop") = false -> mem_str name (hcmds s) = true ->
  hlog (fe (snd (exec_command (EVal (VStr name) :: map EVal args) s))) = HCmd name args :: hlog (fe s).
Proof. exact handler_exactly_once. Qed.
Theorem C17_stop_never_dispatched : forall s args,
  exec_command (EVal (VStr (STR "stop")) :: map EVal args) s = (CmdStop, s).
Proof. exact stop_never_dispatched. Qed.
Theorem C17_unregistered_is_error : forall s name args,
  str_eqb name (STR "stop") = false -> mem_str name (hcmds s) = false -> str_eqb name (STR "wait") = false ->
  fst (exec_command (EVal (VStr name) :: map EVal args) s) = CmdErr.
Proof. exact unknown_command_is_error. Qed.
Print Assumptions C17_unregistered_is_error.

Definition show_arg (e : expr) : option (sum (sum Z bool) str) :=
  match e with
  | EVal (VNum n) => Some (inl (inl (to_bits n)))
  | EVal (VBool b) => Some (inl (inr b))
  | EVal (VStr s) => Some (inr s)
  | _ => None
  end.

Example C17_example :
  map show_arg (rearrange [RText (STR "walk"); RText (STR "  3 "); RExpr (EVar (STR "x")); RText (STR "true"); RText (STR " inf ")] [])
  = [Some (inr (STR "walk")); Some (inl (inl (to_bits (of_Z 3)))); None; Some (inl (inr true)); Some (inr (STR "inf"))].
Proof. vm_compute. reflexivity. Qed.
