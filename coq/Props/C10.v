(* C10 - pending commands: Next never blocks, resumes once, handlers run exactly once.
   Partial: data races between the runner and handler goroutines and the real elapsed time of
   <<wait>> are observed by the correspondence harness only (race detector, timers). *)
From Coq Require Import List ZArith Bool.
From YS Require Import Base.Sexp Yarn.Ast Yarn.Value Yarn.Eval Yarn.Runner Proofs.FlowProofs Proofs.SafetyProofs.
Import ListNotations.

(* whatever the schedule: while the command has not completed, Next answers "waiting", changes
   nothing but the poll count and starts nothing *)
Theorem C10_pending_is_inert : forall d fm m c k r, pending (dat m) = Some (S k, r) ->
  next d (S fm) m c = (NWait, mk (stack m) (last_opts m) (upd_pending (dat m) (Some (k, r)))).
Proof. exact pending_is_inert. Qed.
Print Assumptions C10_pending_is_inert.

Theorem C10_pending_frame : forall s k r, pending s = Some (S k, r) ->
  let s' := snd (poll s) in
  vars s' = vars s /\ slog s' = slog s /\ fe s' = fe s /\ visits s' = visits s /\ cur s' = cur s /\
  sched s' = sched s.
Proof. exact pending_inert_frame. Qed.
Print Assumptions C10_pending_frame.

(* completion: the dialogue resumes at the statement after the command, exactly as if the command
   had completed at once (C01's theorem applies to the right-hand side) *)
Theorem C10_resume_after_completion : forall d fm m c, pending (dat m) = Some (O, CNil) ->
  next d (S fm) m c = next d (S fm) (mk (stack m) (last_opts m) (upd_pending (dat m) None)) c.
Proof. exact resume_after_completion. Qed.
Print Assumptions C10_resume_after_completion.

Theorem C10_error_surfaced_once : forall d fm m c, pending (dat m) = Some (O, CErr) ->
  next d (S fm) m c = (NErr, mk (stack m) (last_opts m) (upd_pending (dat m) None)).
Proof. exact error_surfaced_once. Qed.
Print Assumptions C10_error_surfaced_once.

Theorem C10_handler_exactly_once : forall s name args,
  str_eqb name (STR "stop") = false -> mem_str name (hcmds s) = true ->
  hlog (fe (snd (exec_command (EVal (VStr name) :: map EVal args) s))) = HCmd name args :: hlog (fe s).
Proof. exact handler_exactly_once. Qed.
Print Assumptions C10_handler_exactly_once.

Theorem C10_stop_never_dispatched : forall s args,
  exec_command (EVal (VStr (STR "stop")) :: map EVal args) s = (CmdStop, s).
Proof. exact stop_never_dispatched. Qed.
Print Assumptions C10_stop_never_dispatched.
