(* C10 - pending commands: Next never blocks, resumes once, handlers run exactly once.
   Partial: data races between the runner and handler goroutines are observed by the correspondence
   harness only (race detector). For <<wait n>> the duration handed to time.Sleep is modelled and
   bounded below (end of this file); that time.Sleep(d) returns no earlier than d later is the Go
   runtime's contract, observed on real timers by family waits. *)
From Coq Require Import List ZArith Bool.
From YS Require Import Base.Sexp Yarn.Ast Yarn.Value Yarn.Eval Yarn.Runner Proofs.FlowProofs Proofs.SafetyProofs.
Import ListNotations.

(* whatever the schedule: while the command has not completed, Next answers "waiting", changes
   nothing but the poll count and starts nothing *)
Theorem C10_pending_is_inert : forall d fm m c k r, pending (dat m) = Some (S k, r) ->
  next d (S fm) m c = (NWait, mk (stack m) (last_opts m) (upd_pending (dat m) (Some (k, r)))).
Proof. exact pending_is_inert. Qed.
Print Assumptions C10_pending_is_inert.

Theorem C10_pending_frame : forall s k r, pending s = Some (S k, r) ->
  let s' := snd (poll s) in
  vars s' = vars s /\ slog s' = slog s /\ fe s' = fe s /\ visits s' = visits s /\ cur s' = cur s /\
  sched s' = sched s.
Proof. exact pending_inert_frame. Qed.
Print Assumptions C10_pending_frame.

(* completion: the dialogue resumes at the statement after the command, exactly as if the command
   had completed at once (C01's theorem applies to the right-hand side) *)
Theorem C10_resume_after_completion : forall d fm m c, pending (dat m) = Some (O, CNil) ->
  next d (S fm) m c = next d (S fm) (mk (stack m) (last_opts m) (upd_pending (dat m) None)) c.
Proof. exact resume_after_completion. Qed.
Print Assumptions C10_resume_after_completion.

Theorem C10_error_surfaced_once : forall d fm m c, pending (dat m) = Some (O, CErr) ->
  next d (S fm) m c = (NErr, mk (stack m) (last_opts m) (upd_pending (dat m) None)).
Proof. exact error_surfaced_once. Qed.
Print Assumptions C10_error_surfaced_once.

Theorem C10_handler_exactly_once : forall s name args,
  str_eqb name (STR "stop") = false -> mem_str name (hcmds s) = true ->
  hlog (fe (snd (exec_command (EVal (VStr name) :: map EVal args) s))) = HCmd name args :: hlog (fe s).
Proof. exact handler_exactly_once. Qed.
Print Assumptions C10_handler_exactly_once.

Theorem C10_stop_never_dispatched : forall s args,
  exec_command (EVal (VStr (STR "stop")) :: map EVal args) s = (CmdStop, s).
Proof. exact stop_never_dispatched. Qed.
Print Assumptions C10_stop_never_dispatched.

(* ---------- <<wait n>>: the duration handed to time.Sleep ---------- *)
From Coq Require Import Reals.
From Flocq Require Import Core BinarySingleNaN.
From YS Require Import Num.F64 Yarn.Timed Proofs.WaitProofs.

(* for every finite n >= 0 (up to 2^62 ns) the sleep lasts at least n seconds, up to the rounding of
   the one binary64 multiplication and the truncation to whole nanoseconds: fractional n included *)
Theorem C10_wait_duration_at_least_n_seconds : forall n : f64,
  is_finite n = true -> (0 <= B2R n)%R -> (B2R n * 1000000000 <= bpow radix2 62)%R ->
  (0 <= wait_nanos n)%Z /\
  (B2R n * 1000000000 * (1 - bpow radix2 (-53)) - 1 < IZR (wait_nanos n))%R.
Proof. exact wait_nanos_lower_bound. Qed.
Print Assumptions C10_wait_duration_at_least_n_seconds.

(* a poll at instant t of a wait started at t0 answers "completed" only that much later *)
Theorem C10_wait_not_reported_early : forall (n : f64) (t0 t : Z),
  is_finite n = true -> (0 <= B2R n)%R -> (B2R n * 1000000000 <= bpow radix2 62)%R ->
  wait_may_complete t0 n t = true ->
  (B2R n * 1000000000 * (1 - bpow radix2 (-53)) - 1 < IZR (t - t0))%R.
Proof. exact wait_not_reported_early. Qed.

(* non-vacuity (and D11): 0.9 s, 0.0009 s and 2.01 s keep their fractions *)
Example C10_wait_examples :
  wait_nanos (of_bits 4606281698874543309) = 900000000%Z /\
  wait_nanos (of_bits 4561440258104740754) = 900000%Z /\
  wait_nanos (of_bits 4611708536425524756) = 2009999999%Z  (* 2.01: the product rounds just below, hence the "- 1" *).
Proof. vm_compute. repeat split. Qed.
