(* C06 - running a valid script never panics: script-level faults surface as errors. *)
From Coq Require Import List ZArith Bool.
From YS Require Import Base.Sexp Num.F64 Yarn.Ast Yarn.Value Yarn.Eval Yarn.Runner Proofs.FlowProofs Proofs.SafetyProofs.
Import ListNotations.

(* for every dialogue (null literals, value-less functions, ill-typed operations, any argument
   values included), state, fuel and every choice that is in range when an option group is
   waiting: Next does not panic *)
Theorem C06_next_no_panic : forall d fm m c, choice_ok m c -> fst (next d fm m c) <> NPanic.
Proof. exact next_no_panic. Qed.
Print Assumptions C06_next_no_panic.

Theorem C06_any_argument_when_not_waiting : forall m c, last_opts m = None -> choice_ok m c.
Proof. exact choice_ok_none. Qed.
Print Assumptions C06_any_argument_when_not_waiting.

(* expression evaluation has no panic outcome at all *)
Theorem C06_eval_no_panic : forall v x e, fst (eval v x e) <> Crash.
Proof. exact eval_no_crash. Qed.
Print Assumptions C06_eval_no_panic.

(* after an error the runner waits for no choice: any further call is within C06_next_no_panic *)
Theorem C06_usable_after_error : forall d fm m c m',
  pending (dat m) = None -> next d fm m c = (NErr, m') -> last_opts m' = None.
Proof. exact after_error_no_choice_pending. Qed.
Print Assumptions C06_usable_after_error.

(* the fault classes are errors *)
Theorem C06_null_is_error : forall v e, eval v ENull e = (Fail, e).
Proof. exact null_is_error. Qed.
Theorem C06_unknown_variable_is_error : forall v x e, st_get (rvars v) x = None -> eval v (EVar x) e = (Fail, e).
Proof. exact unknown_variable_is_error. Qed.
Theorem C06_unknown_function_is_error : forall v f args e,
  call_probe f args e = None -> call_builtin v f args e = None -> call_function v f args e = (Fail, e).
Proof. exact unknown_function_is_error. Qed.
Theorem C06_valueless_function_is_error : forall v args e,
  fst (eval v (ECall (STR "noret") (map EVal args)) e) = Fail.
Proof. exact no_value_function_is_error. Qed.
Theorem C06_dice_out_of_domain_is_error : forall v n e, (to_int64 n <? 1)%Z = true ->
  call_builtin v (STR "dice") [VNum n] e = Some (Fail, e).
Proof. exact dice_out_of_domain_is_error. Qed.
Theorem C06_random_range_empty_is_error : forall v a b e, (to_int64 b <? to_int64 a)%Z = true ->
  call_builtin v (STR "random_range") [VNum a; VNum b] e = Some (Fail, e).
Proof. exact random_range_empty_is_error. Qed.
Theorem C06_unknown_node_is_error : forall d s x, find_node d x = None ->
  fst (exec_jump d (EVal (VStr x)) s) = None.
Proof. exact unknown_node_is_error. Qed.
Theorem C06_unknown_command_is_error : forall s name args,
  str_eqb name (STR "stop") = false -> mem_str name (hcmds s) = false -> str_eqb name (STR "wait") = false ->
  fst (exec_command (EVal (VStr name) :: map EVal args) s) = CmdErr.
Proof. exact unknown_command_is_error. Qed.
Print Assumptions C06_unknown_command_is_error.

(* known finding D7: termination fails on a cycle of jumps that never yields *)
Theorem C06_jump_cycle_diverges_refuted : forall fuel s, pending s = None ->
  fst (next self_jump_dialogue fuel (mk [[SJump (EVal (VStr (STR "A")))]] None s) 0) = NFuel.
Proof. exact jump_cycle_diverges. Qed.
Print Assumptions C06_jump_cycle_diverges_refuted.

(* non-vacuity: dice(0), dice(1e30), dice(NaN) are errors in the model *)
Example C06_dice_examples :
  forall v e, map (fun b => call_builtin v (STR "dice") [VNum (of_bits b)] e)
                  [0; 0x46293E5939A08CEA; 0x7FF8000000000001; 0xC008000000000000]%Z
              = [Some (Fail, e); Some (Fail, e); Some (Fail, e); Some (Fail, e)].
Proof. intros. vm_compute. reflexivity. Qed.
