(* C01 - dialogue flow follows Yarn's sequential semantics for every script and path.
   Property theorems only. *)
From Coq Require Import List ZArith Bool.
From YS Require Import Base.Sexp Yarn.Ast Yarn.Value Yarn.Eval Yarn.Runner Spec.FlowSpec Proofs.FlowProofs Proofs.FuelProofs.
Import ListNotations.

(* one call of Next, from any state related to a specification state, for every dialogue, choice
   and fuel (an exhausted fuel is the only excluded outcome): same element, related states *)
Theorem C01_next_refines_flow : forall d fm m s c r m',
  R m s -> next d fm m c = (r, m') -> r <> NFuel ->
  exists fs s', snext d fs s c = (r, s') /\ R m' s'.
Proof. exact next_refines_flow. Qed.
Print Assumptions C01_next_refines_flow.

(* every sequence of Next calls: the elements are those of the flat-continuation semantics *)
Theorem C01_run_refines_flow : forall d fm cs m s outs m',
  R m s -> iter_next d fm m cs = (outs, m') -> ~ In NFuel outs ->
  exists s', sruns d s cs outs s' /\ R m' s'.
Proof. exact run_refines_flow. Qed.
Print Assumptions C01_run_refines_flow.

(* a fresh runner starts related to the specification's initial state: the body of the first node
   of the (concatenated) dialogue *)
Theorem C01_initial_state : forall d init stream sc cmds m,
  new_runner d init stream sc cmds = Some m -> exists s, sinit d (dat m) = Some s /\ R m s.
Proof. exact R_new_runner. Qed.
Print Assumptions C01_initial_state.

(* the argument of Next has no effect unless the previous element was an option group *)
Theorem C01_choice_irrelevant : forall d fm m c1 c2, last_opts m = None ->
  next d fm m c1 = next d fm m c2.
Proof. exact next_choice_irrelevant. Qed.
Print Assumptions C01_choice_irrelevant.

(* fuel is a proof device: an answer given with some fuel is the answer with any larger fuel, so
   "unless OutOfFuel" in the theorems above and below excludes only executions that never yield
   (finding D7), and the fuel the wire layer passes cannot influence an observation *)
Theorem C01_fuel_monotone : forall d f m c r m', next d f m c = (r, m') -> r <> NFuel ->
  forall f', (f <= f')%nat -> next d f' m c = (r, m').
Proof. exact next_fuel_mono. Qed.
Print Assumptions C01_fuel_monotone.

Theorem C01_fuel_irrelevant : forall d f1 f2 m c,
  fst (next d f1 m c) <> NFuel -> fst (next d f2 m c) <> NFuel -> next d f1 m c = next d f2 m c.
Proof. exact next_fuel_irrelevant. Qed.

(* non-vacuity: options nested in an if nested in an option, a jump out of the nested body, an
   if-body ending in an option group; the machine and the specification agree on a full path *)
Local Open Scope string_scope.
Definition ex_line (t : String.string) : stmt :=
  SLine {| ltext := [TText (str_of_string t)]; lcond := None; ltags := [] |}.
Definition ex_opt (t : String.string) (b : list stmt) : line * list stmt :=
  ({| ltext := [TText (str_of_string t)]; lcond := None; ltags := [] |}, b).
Definition ex_dialogue : dialogue :=
  [ {| headers := [(STR "title", STR "A")];
       body := [ex_line "a1";
                SOpts [ex_opt "o1" [SIf [(EVal (VBool true),
                                          [ex_line "in if"; SOpts [ex_opt "p1" [ex_line "deep"; SJump (EVal (VStr (STR "B")))];
                                                                   ex_opt "p2" []]])];
                                     ex_line "after if"];
                       ex_opt "o2" []];
                ex_line "a2"] |};
    {| headers := [(STR "title", STR "B")]; body := [ex_line "b1"; SCmd [EVal (VStr (STR "stop"))]; ex_line "never"] |} ].

Definition ex_outs (cs : list Z) : option (list nres) :=
  match new_runner ex_dialogue empty_store [] [] [] with
  | Some m => Some (fst (iter_next ex_dialogue 100 m cs))
  | None => None
  end.

Definition is_line (r : nres) (n t : String.string) : bool :=
  match r with
  | NElem (ELine nd l) => str_eqb nd (str_of_string n) && str_eqb (rtext l) (str_of_string t)
  | _ => false
  end.

Example C01_example_path :
  match ex_outs [7; 0; 0; 0; 1; 0; 0; 0; 5]%Z with
  | Some [r1; NElem (EOpts _ _); r3; NElem (EOpts _ _); r5; r6; NEnd; NEnd; NEnd] =>
      is_line r1 "A" "a1" && is_line r3 "A" "in if" && is_line r5 "A" "after if" && is_line r6 "A" "a2"
  | _ => false
  end = true.
Proof. vm_compute. reflexivity. Qed.

Example C01_example_jump :
  match ex_outs [0; 0; 0; 0; 0; 0; 0]%Z with
  | Some [_; _; _; _; r5; r6; NEnd] => is_line r5 "A" "deep" && is_line r6 "B" "b1"
  | _ => false
  end = true.
Proof. vm_compute. reflexivity. Qed.
