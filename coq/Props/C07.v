(* C07 - snapshots are self-contained checkpoints; restore resumes from node entry.
   The runner model (Yarn/Runner.v) is purely functional: a snapshot is a value there.  Sharing of
   Go maps (the defect D8) is treated on a second, heap-explicit model of the same functions
   (Yarn/SnapHeap.v, theorems at the end of this file): no map is ever shared, so nothing a runner
   does changes a snapshot or another runner.  That the Go code allocates where the heap model
   allocates is what the correspondence family observes (old snapshots are re-read after further
   steps, two runners are restored from one snapshot, restores into any state).
   "Continues exactly as the original" is proved as a simulation (Proofs/SimProofs.v). *)
From Coq Require Import List ZArith Bool.
From YS Require Import Base.Sexp Yarn.Ast Yarn.Value Yarn.Eval Yarn.Runner Proofs.SafetyProofs Proofs.FlowProofs Proofs.StorerProofs Proofs.SimProofs.
Import ListNotations.

Theorem C07_restore_resumes_from_node_entry : forall d m sn m', restore_at d m sn = (true, m') ->
  exists n, find_node d (snode sn) = Some n /\
    stack m' = [body n] /\ last_opts m' = None /\ pending (dat m') = None /\
    cur (dat m') = snode sn /\ visits (dat m') = svisits sn /\ vsnap (dat m') = svars sn /\
    vars (dat m') = fold_left (fun st kv => st_set st (fst kv) (snd kv)) (svars sn) empty_store.
Proof. exact restore_resumes. Qed.
Print Assumptions C07_restore_resumes_from_node_entry.

Theorem C07_restore_independent_of_receiver : forall d m1 m2 sn m1' m2',
  restore_at d m1 sn = (true, m1') -> restore_at d m2 sn = (true, m2') ->
  stack m1' = stack m2' /\ last_opts m1' = last_opts m2' /\ pending (dat m1') = pending (dat m2') /\
  vars (dat m1') = vars (dat m2') /\ cur (dat m1') = cur (dat m2') /\ visits (dat m1') = visits (dat m2') /\
  vsnap (dat m1') = vsnap (dat m2').
Proof. exact restore_receiver_independent. Qed.
Print Assumptions C07_restore_independent_of_receiver.

(* "makes that runner continue exactly as the original did from that node entry": for a runner m0
   standing at a node entry (what NewDialogueRunner and every jump produce), restoring its snapshot
   into ANY runner m gives a runner that returns, for every subsequent choice sequence and fuel, the
   same elements as m0 does - provided the host behaves the same from there on (same completion
   schedule and commands) and the random stream to come is the same (irrelevant for scripts that
   draw no random numbers).  [iter_next] = successive Next calls. *)
Theorem C07_restore_continues_as_original : forall d m0 m m',
  at_node_entry d m0 -> store_ok (vars (dat m0)) ->
  restore_at d m (take_snapshot (dat m0)) = (true, m') -> same_env (dat m) (dat m0) ->
  forall f cs, fst (iter_next d f m' cs) = fst (iter_next d f m0 cs).
Proof. exact restore_continues_as_original. Qed.
Print Assumptions C07_restore_continues_as_original.

(* "runners restored from the same snapshot do not influence one another": whatever states the two
   receivers were in, they continue identically *)
Theorem C07_restored_runners_agree : forall d m1 m2 sn m1' m2',
  restore_at d m1 sn = (true, m1') -> restore_at d m2 sn = (true, m2') -> same_env (dat m1) (dat m2) ->
  forall f cs, fst (iter_next d f m1' cs) = fst (iter_next d f m2' cs).
Proof. exact restored_runners_agree. Qed.

(* underneath both: what a runner does next depends on its continuation, the storer's contents as a
   map, the pending command, the current node, the visit counts, the host's command behaviour and
   the random stream - not on logs, the checkpoint, or the internal layout of the store *)
Theorem C07_next_depends_on_core_state_only : forall d f m1 m2 c, rsim m1 m2 ->
  fst (next d f m1 c) = fst (next d f m2 c) /\ rsim (snd (next d f m1 c)) (snd (next d f m2 c)).
Proof. exact next_sim. Qed.

Theorem C07_snapshot_after_restore : forall d m sn m', restore_at d m sn = (true, m') ->
  take_snapshot (dat m') = sn.
Proof. exact snapshot_after_restore. Qed.
Print Assumptions C07_snapshot_after_restore.

Theorem C07_restore_unknown_node_changes_nothing : forall d m sn, find_node d (snode sn) = None ->
  restore_at d m sn = (false, m).
Proof. exact restore_unknown_node. Qed.
Print Assumptions C07_restore_unknown_node_changes_nothing.

Theorem C07_checkpoint_taken_at_node_entry : forall d e s b s', exec_jump d e s = (Some b, s') ->
  vsnap s' = st_values (vars s') /\ exists n, find_node d (cur s') = Some n /\ b = body n.
Proof. exact jump_takes_checkpoint. Qed.
Print Assumptions C07_checkpoint_taken_at_node_entry.

Theorem C07_assignments_do_not_touch_the_checkpoint : forall x op e s,
  snap_fields (snd (exec_set x op e s)) = snap_fields s.
Proof. exact snapshot_only_changes_at_jumps_set. Qed.
Print Assumptions C07_assignments_do_not_touch_the_checkpoint.

(* ---------- self-containment, on the heap-explicit model (Yarn/SnapHeap.v) ----------
   Go maps are references; here every map is an object in a heap, runners and snapshots hold
   addresses, every make+copy loop of Snapshot / RestoreAt / GetValues is an allocation. *)
From YS Require Import Yarn.SnapHeap Proofs.SnapHeapProofs.

(* in every configuration reachable by any history of runner creations, assignments, jumps,
   snapshots, restores and host edits of snapshots, no map is shared: by two runners, two
   snapshots, a runner and a snapshot *)
Theorem C07_no_map_is_ever_shared : forall ops, Inv (fold_left step ops init_config).
Proof. exact inv_reachable. Qed.
Print Assumptions C07_no_map_is_ever_shared.

(* nothing any runner does afterwards (and no edit of another snapshot) changes a snapshot *)
Theorem C07_snapshot_is_self_contained : forall ops c k s,
  Inv c -> nth_error (snaps c) k = Some s -> Forall (fun o => edited o <> Some k) ops ->
  nth_error (snaps (fold_left step ops c)) k = Some s /\
  snap_content (fold_left step ops c) s = snap_content c s.
Proof. exact snapshot_never_changes. Qed.
Print Assumptions C07_snapshot_is_self_contained.

(* nothing other runners do, and nothing the host does to a snapshot (also the one a runner was
   restored from), changes a runner: runners restored from the same snapshot do not influence one
   another *)
Theorem C07_runners_do_not_influence_one_another : forall ops c k r,
  Inv c -> nth_error (runners c) k = Some r -> Forall (fun o => actor o <> Some k) ops ->
  nth_error (runners (fold_left step ops c)) k = Some r /\
  runner_view (fold_left step ops c) r = runner_view c r.
Proof. exact runner_never_changed_by_others. Qed.
Print Assumptions C07_runners_do_not_influence_one_another.

(* RestoreAt installs exactly the snapshot's contents (the expressions of the value-based
   restore_at), and a snapshot taken immediately afterwards equals the restored one *)
Theorem C07_restore_installs_the_snapshot : forall c i j r s,
  Inv c -> nth_error (runners c) i = Some r -> nth_error (snaps c) j = Some s ->
  exists r', nth_error (runners (op_restore c i j)) i = Some r' /\
    runner_view (op_restore c i j) r' =
      {| rc_store := fold_left (fun st kv => st_set st (fst kv) (snd kv)) (svars (snap_content c s)) empty_store;
         rc_visits := svisits (snap_content c s); rc_vsnap := svars (snap_content c s); rc_cur := snode (snap_content c s) |}.
Proof. exact restore_installs_snapshot. Qed.

Theorem C07_snapshot_taken_after_restore_equals_it : forall c i j r s,
  Inv c -> nth_error (runners c) i = Some r -> nth_error (snaps c) j = Some s ->
  let c' := op_snapshot (op_restore c i j) i in
  exists s', nth_error (snaps c') (length (snaps c)) = Some s' /\ snap_content c' s' = snap_content c s.
Proof. exact snapshot_after_restore_equals. Qed.
Print Assumptions C07_snapshot_taken_after_restore_equals_it.
