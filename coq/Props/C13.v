(* C13 - markup parsing recovers the plain text and exactly the enclosed ranges.
   Proved: the round trip for documents built from plain text, escaped brackets and open / close /
   close-all markers (any nesting, overlap and repetition, multi-byte text): the text comes back
   and every closed marker yields one attribute whose range delimits exactly the text it enclosed,
   "enclosed" being defined on the document (Proofs/MarkupDocProofs.v).
   Further down: the same with typed properties and self-closing markers, the implicit character
   attribute (alone, with edge blanks, inside marker documents), the trimming rule of a self-closing marker.
   Partial: the replacement markers, blanks at the edges of marker documents and the trimming rule
   inside the document round trip are outside these theorems; the correspondence family
   'markupdoc' compares the implementation both with the model and - for structured documents - with
   the meaning the generator knows by construction. *)
From Coq Require Import List ZArith NArith Bool.
From YS Require Import Base.Sexp Yarn.Value Markup.LineParser Proofs.MarkupProofs Proofs.MarkupDocProofs.
Import ListNotations.

(* the round trip.  [render] writes the document, [text] is its plain text, [enclosed] computes -
   on the document, without positions - the (name, enclosed text) of every closed marker (None: a
   close marker without an open one, which must be an error). Hypotheses: names are identifiers that
   are not replacement markers, text chunks contain neither '[' nor a backslash, the text has no
   colon (no implicit character attribute) and no blank at either end (nothing to trim). *)
Theorem C13_document_roundtrip : forall its,
  Forall item_ok its ->
  forallb (fun c => negb (N.eqb c 58)) (text its) = true ->
  no_edge_space (text its) ->
  match enclosed its [] [] with
  | Some encl =>
      exists attrs, parse_markup (render its) = Some (text its, attrs) /\
        length attrs = length encl /\
        (forall e, In e encl -> exists a, In a attrs /\ aname a = fst e /\ aprops a = [] /\
                                          text_for_attribute (text its) a = Some (snd e)) /\
        (forall a, In a attrs -> exists e, In e encl /\ aname a = fst e /\ aprops a = [] /\
                                           text_for_attribute (text its) a = Some (snd e))
  | None => parse_markup (render its) = None
  end.
Proof. exact markup_document_roundtrip. Qed.
Print Assumptions C13_document_roundtrip.

(* non-vacuity: nested, overlapping and repeated markers, a multi-byte character, an escaped
   bracket, a close-all marker: the hypotheses hold and the enclosures are what one reads off *)
Definition ex_doc : list item :=
  [IText (STR "Start"); IOpen (STR "a"); IText (STR "x"); IOpen (STR "b"); IText [26085%N]; IBr 91%N;
   IClose (STR "a"); IText (STR "z"); IOpen (STR "a"); IText (STR "w"); ICloseAll; IText (STR "End")].
Example C13_example_hypotheses :
  Forall item_ok ex_doc /\ forallb (fun c => negb (N.eqb c 58)) (text ex_doc) = true /\ no_edge_space (text ex_doc) /\
  enclosed ex_doc [] [] = Some [(STR "a", STR "x" ++ [26085%N; 91%N]); (STR "b", [26085%N; 91%N] ++ STR "zw"); (STR "a", STR "w")].
Proof.
  split; [|split; [vm_compute; reflexivity|split; [split; vm_compute; reflexivity|vm_compute; reflexivity]]].
  repeat constructor; try (vm_compute; (reflexivity || discriminate || (left; reflexivity))).
Qed.

(* text without markup, escapes or a character prefix is returned as it is, trimmed *)
Theorem C13_plain_text_identity_partial : forall t, forallb plain_rune t = true ->
  forallb (fun c => negb (N.eqb c 58)) t = true -> parse_markup t = Some (trim_space t, []).
Proof. exact plain_text_identity. Qed.
Print Assumptions C13_plain_text_identity_partial.

(* whatever is returned: TextForAttribute gives exactly [length] characters of the text, starting
   at [position] (ranges are in characters; no byte length is involved anywhere in the model) *)
Theorem C13_text_for_attribute_is_the_range : forall input text attrs a x,
  parse_markup input = Some (text, attrs) -> In a attrs -> text_for_attribute text a = Some x ->
  Z.of_nat (length x) = alen a.
Proof. exact text_for_attribute_length. Qed.
Print Assumptions C13_text_for_attribute_is_the_range.

(* non-vacuity / regression examples: nested same-name markers (D25), decimal fractions (D15),
   leading whitespace and multi-byte character prefix (D14), nomarkup closed by name (D16) *)
Definition show (r : option (str * list attribute)) : option (str * list (str * Z * Z)) :=
  option_map (fun p => (fst p, map (fun a => (aname a, apos a, alen a)) (snd p))) r.

Example C13_nested_same_name :
  show (parse_markup (STR "[a]x[a]y[/a]z[/a]")) = Some (STR "xyz", [(STR "a", 0, 3); (STR "a", 1, 1)]%Z).
Proof. vm_compute. reflexivity. Qed.
Example C13_leading_whitespace :
  show (parse_markup (STR "  [a]hello[/a]")) = Some (STR "hello", [(STR "a", 0, 5)]%Z).
Proof. vm_compute. reflexivity. Qed.
Example C13_nomarkup_by_name :
  show (parse_markup (STR "[nomarkup][b]x[/b][/nomarkup] y")) = Some (STR "[b]x[/b] y", [(STR "nomarkup", 0, 8)]%Z).
Proof. vm_compute. reflexivity. Qed.

(* ---- markers with properties (Proofs/MarkupPropsProofs.v) ----
   The round trip above, generalised: an open marker carries properties.  Written forms:
   [name k=v k=v ...] and the shorthand [name=v k=v ...] (one blank between properties), values being
   decimal integers below 2^63, decimals d.d (the value is strconv.ParseFloat of the text, as modelled in
   Num/Decimal.v), true / false, quoted strings without quote or backslash, bare words.
   [open_plain] / [open_short] are such markers as document items; the enclosure specification carries
   the written properties of every marker; the theorem: parsing returns the text, one attribute per
   closed marker with its name, with exactly the typed properties written on its open marker (as the
   property map of the attribute: a later value of a key replaces an earlier one) and the range of the
   text it enclosed.  Excluded by hypothesis: a property named trimwhitespace (it changes the text).
   Self-closing markers [name k=v .../] are items too ([P.self_marker]): each yields one attribute of
   length 0 at its position, with its properties; hypothesis [P.selfs_ok]: no blank directly after a
   self-closing marker (a self-closing marker standing at the start or after a blank trims one following
   blank - that rule changes the text and is left to family markupdoc).
   Still outside: replacement markers, the character prefix, edge blanks, the trimming rule. *)
Require YS.Proofs.MarkupPropsProofs.
Module P := YS.Proofs.MarkupPropsProofs.

Theorem C13_document_with_properties_roundtrip : forall its,
  Forall P.item_ok its -> P.selfs_ok its [] ->
  forallb (fun c => negb (N.eqb c 58)) (P.text its) = true ->
  P.no_edge_space (P.text its) ->
  match P.enclosed its [] [] with
  | Some encl =>
      exists attrs, parse_markup (P.render its) = Some (P.text its, attrs) /\
        length attrs = length encl /\
        (forall e, In e encl -> exists a, In a attrs /\ aname a = P.ename e /\ aprops a = props_map (P.eprops e) /\
                                          text_for_attribute (P.text its) a = Some (snd e)) /\
        (forall a, In a attrs -> exists e, In e encl /\ aname a = P.ename e /\ aprops a = props_map (P.eprops e) /\
                                           text_for_attribute (P.text its) a = Some (snd e))
  | None => parse_markup (P.render its) = None
  end.
Proof. exact P.markup_document_roundtrip. Qed.
Print Assumptions C13_document_with_properties_roundtrip.

(* the written forms meet the theorem's hypothesis on items *)
Theorem C13_written_properties_are_read : forall n ps, P.name_ok n -> Forall P.prop_ok ps ->
  get_prop (P.pvalues ps) (STR "trimwhitespace") = None -> P.item_ok (P.open_plain n ps).
Proof. exact P.open_plain_ok. Qed.
Theorem C13_shorthand_property_is_read : forall n v ps, P.name_ok n -> P.pv_ok v -> Forall P.prop_ok ps ->
  get_prop ((n, P.pv_value v) :: P.pvalues ps) (STR "trimwhitespace") = None -> P.item_ok (P.open_short n v ps).
Proof. exact P.open_short_ok. Qed.
Theorem C13_self_closing_marker_is_read : forall n ps, P.name_ok n -> Forall P.prop_ok ps ->
  get_prop (P.pvalues ps) (STR "trimwhitespace") = None -> P.item_ok (P.self_marker n ps).
Proof. exact P.self_marker_ok. Qed.
Print Assumptions C13_written_properties_are_read.

(* non-vacuity: [wave=3 loud=true who="Zoé" kind=big]x[b n=12]y[/wave]z[/b] - the written values come
   back typed, on the right ranges *)
Definition ex_pdoc : list P.item :=
  [P.open_short (STR "wave") (P.PVInt (STR "3")) [(STR "loud", P.PVBool true); (STR "who", P.PVQuoted [90; 111; 233]%N); (STR "kind", P.PVBare (STR "big"))];
   P.IText (STR "x"); P.open_plain (STR "b") [(STR "n", P.PVInt (STR "12"))]; P.IText (STR "y");
   P.IClose (STR "wave"); P.IText (STR "z"); P.IClose (STR "b")].
Example C13_properties_example :
  parse_markup (P.render ex_pdoc) =
  Some (STR "xyz",
        [{| aname := STR "wave"; apos := 0; alen := 2; asrc := 0;
            aprops := [(STR "wave", MInt 3); (STR "loud", MBool true); (STR "who", MStr [90; 111; 233]%N); (STR "kind", MStr (STR "big"))] |};
         {| aname := STR "b"; apos := 1; alen := 2; asrc := 38; aprops := [(STR "n", MInt 12)] |}]%Z)
  /\ P.enclosed ex_pdoc [] [] =
     Some [(STR "wave", [(STR "wave", MInt 3); (STR "loud", MBool true); (STR "who", MStr [90; 111; 233]%N); (STR "kind", MStr (STR "big"))], STR "xy");
           (STR "b", [(STR "n", MInt 12)], STR "yz")]%Z.
Proof. split; vm_compute; reflexivity. Qed.

(* a decimal value meets the hypothesis on values (D15: p=1.05 is 1.05, not 1.5) *)
Example C13_decimal_value_ok : P.pv_ok (P.PVDec (STR "1") (STR "05")).
Proof. cbn [P.pv_ok]. repeat split; try discriminate; try reflexivity. Qed.

(* a self-closing marker between texts: one attribute of length 0 where it stands *)
Definition ex_sdoc : list P.item :=
  [P.IText (STR "ab"); P.self_marker (STR "pause") [(STR "ms", P.PVInt (STR "250"))]; P.IText (STR "cd")].
Example C13_self_closing_example :
  P.selfs_ok ex_sdoc [] /\
  option_map (fun r => (fst r, map (fun a => (aname a, apos a, alen a, aprops a)) (snd r))) (parse_markup (P.render ex_sdoc))
  = Some (STR "abcd", [(STR "pause", 2, 0, [(STR "ms", MInt 250)])]%Z).
Proof. split; [split; [reflexivity|exact I]|vm_compute; reflexivity]. Qed.

(* the implicit character attribute (Proofs/MarkupCharacterProofs.v): a line `Name: rest` without
   markup - Name without colon, both parts without '[' or a backslash, no blank at either end of the
   line - comes back unchanged with exactly one attribute "character" at 0 whose length covers the
   name, the colon and every blank (regexp \s: tab, newline, form feed, carriage return, space)
   after it, and whose property "name" is the name (trimmed).  Multi-byte names included: lengths are
   counted in characters (finding D14 was the byte count). *)
Require YS.Proofs.MarkupCharacterProofs.
Module CP := YS.Proofs.MarkupCharacterProofs.

Theorem C13_character_prefix_partial : forall n t,
  forallb plain_rune n = true -> forallb CP.no_colon n = true -> forallb plain_rune t = true ->
  no_edge_space (n ++ 58%N :: t) ->
  parse_markup (n ++ 58%N :: t) =
  Some (n ++ 58%N :: t,
        [{| aname := STR "character"; apos := 0; alen := Z.of_nat (S (length n) + count_re_space t); asrc := 0;
            aprops := [(STR "name", MStr (trim_space n))] |}]).
Proof. exact CP.character_prefix. Qed.
Print Assumptions C13_character_prefix_partial.

(* and TextForAttribute on it returns exactly that prefix *)
Theorem C13_character_prefix_text : forall n t a text attrs,
  forallb plain_rune n = true -> forallb CP.no_colon n = true -> forallb plain_rune t = true ->
  no_edge_space (n ++ 58%N :: t) ->
  parse_markup (n ++ 58%N :: t) = Some (text, attrs) -> In a attrs ->
  text_for_attribute text a = Some (n ++ 58%N :: firstn (count_re_space t) t).
Proof. exact CP.character_prefix_text. Qed.
Print Assumptions C13_character_prefix_text.

Example C13_character_prefix_example :
  let n := [26085%N; 26412%N] in let t := STR "  hi there" in
  forallb plain_rune n = true /\ forallb CP.no_colon n = true /\ forallb plain_rune t = true /\ no_edge_space (n ++ 58%N :: t) /\
  count_re_space t = 2%nat.
Proof. vm_compute. repeat split; reflexivity. Qed.

(* the same without the edge hypothesis: blanks at either end of the line are trimmed from the text,
   the character attribute starts at 0 and ends where the prefix ends in the trimmed text *)
Theorem C13_character_prefix_with_edge_blanks : forall n t,
  forallb plain_rune n = true -> forallb CP.no_colon n = true -> forallb plain_rune t = true ->
  let T := n ++ 58%N :: t in
  let L := (Z.of_nat (length T) - Z.of_nat (length (trim_left T)))%Z in
  parse_markup T =
  Some (trim_space T,
        [{| aname := STR "character"; apos := 0;
            alen := Z.max 0 (Z.min (Z.of_nat (S (length n) + count_re_space t) - L) (Z.of_nat (length (trim_space T))));
            asrc := 0; aprops := [(STR "name", MStr (trim_space n))] |}]).
Proof. exact CP.character_prefix_general. Qed.
Print Assumptions C13_character_prefix_with_edge_blanks.

Example C13_character_prefix_edge_example :
  option_map (fun r => (fst r, map (fun a => (aname a, apos a, alen a, aprops a)) (snd r)))
    (parse_markup (STR "  Bob:  hi  ")) =
  Some (STR "Bob:  hi", [(STR "character", 0, 6, [(STR "name", MStr (STR "Bob"))])]%Z).
Proof. vm_compute. reflexivity. Qed.

(* the prefix combined with markers: a document (plain text, escaped brackets, open / close /
   close-all markers, any nesting) whose text reads `name: rest` yields the attributes of
   C13_document_roundtrip followed by the character attribute over the prefix - markers inside the
   name or around the colon included; hypothesis: no closed marker is itself called "character"
   (then the implementation adds none) *)
Theorem C13_document_with_character_prefix : forall its n t,
  Forall item_ok its ->
  text its = n ++ 58%N :: t -> forallb CP.no_colon n = true ->
  no_edge_space (text its) ->
  (forall encl e, enclosed its [] [] = Some encl -> In e encl -> str_eqb (fst e) (STR "character") = false) ->
  match enclosed its [] [] with
  | Some encl =>
      exists attrs, parse_markup (render its) =
          Some (text its, attrs ++ [{| aname := STR "character"; apos := 0;
                                       alen := Z.of_nat (S (length n) + count_re_space t); asrc := 0;
                                       aprops := [(STR "name", MStr (trim_space n))] |}]) /\
        length attrs = length encl /\
        (forall e, In e encl -> exists a, In a attrs /\ aname a = fst e /\ aprops a = [] /\
                                          text_for_attribute (text its) a = Some (snd e)) /\
        (forall a, In a attrs -> exists e, In e encl /\ aname a = fst e /\ aprops a = [] /\
                                           text_for_attribute (text its) a = Some (snd e))
  | None => parse_markup (render its) = None
  end.
Proof. exact CP.document_with_character_prefix. Qed.
Print Assumptions C13_document_with_character_prefix.

Definition ex_cdoc : list item :=
  [IOpen (STR "b"); IText (STR "Bo"); IText [26085%N]; IClose (STR "b"); IText (STR ": "); IOpen (STR "a");
   IText (STR "hi"); ICloseAll].
Example C13_character_document_example :
  Forall item_ok ex_cdoc /\ text ex_cdoc = (STR "Bo" ++ [26085%N]) ++ 58%N :: STR " hi" /\ no_edge_space (text ex_cdoc) /\
  enclosed ex_cdoc [] [] = Some [(STR "b", STR "Bo" ++ [26085%N]); (STR "a", STR "hi")] /\
  option_map (fun r => map (fun a => (aname a, apos a, alen a)) (snd r)) (parse_markup (render ex_cdoc)) =
  Some [(STR "b", 0, 3); (STR "a", 5, 2); (STR "character", 0, 5)]%Z.
Proof.
  split; [|split; [vm_compute; reflexivity|split; [split; vm_compute; reflexivity|split; vm_compute; reflexivity]]].
  repeat constructor; try (vm_compute; (reflexivity || discriminate || (left; reflexivity))).
Qed.

(* the same for the documents with typed properties and self-closing markers *)
Require YS.Proofs.MarkupPropsCharacterProofs.
Module PC := YS.Proofs.MarkupPropsCharacterProofs.
Theorem C13_document_with_properties_and_character_prefix : forall its n t,
  Forall P.item_ok its -> P.selfs_ok its [] ->
  P.text its = n ++ 58%N :: t -> forallb CP.no_colon n = true ->
  P.no_edge_space (P.text its) ->
  (forall encl e, P.enclosed its [] [] = Some encl -> In e encl -> str_eqb (P.ename e) (STR "character") = false) ->
  match P.enclosed its [] [] with
  | Some encl =>
      exists attrs, parse_markup (P.render its) =
          Some (P.text its, attrs ++ [{| aname := STR "character"; apos := 0;
                                         alen := Z.of_nat (S (length n) + count_re_space t); asrc := 0;
                                         aprops := [(STR "name", MStr (trim_space n))] |}]) /\
        length attrs = length encl /\
        (forall e, In e encl -> exists a, In a attrs /\ aname a = P.ename e /\ aprops a = props_map (P.eprops e) /\
                                          text_for_attribute (P.text its) a = Some (snd e)) /\
        (forall a, In a attrs -> exists e, In e encl /\ aname a = P.ename e /\ aprops a = props_map (P.eprops e) /\
                                           text_for_attribute (P.text its) a = Some (snd e))
  | None => parse_markup (P.render its) = None
  end.
Proof. exact PC.document_with_character_prefix. Qed.
Print Assumptions C13_document_with_properties_and_character_prefix.

Definition ex_pcdoc : list P.item :=
  [P.IText (STR "Zo:"); P.open_plain (STR "b") [(STR "n", P.PVInt (STR "12"))]; P.IText (STR " y");
   P.self_marker (STR "pause") [(STR "ms", P.PVInt (STR "250"))]; P.IText (STR "z"); P.IClose (STR "b")].
Example C13_properties_character_example :
  P.selfs_ok ex_pcdoc [] /\ P.text ex_pcdoc = STR "Zo" ++ 58%N :: STR " yz" /\
  option_map (fun r => (fst r, map (fun a => (aname a, apos a, alen a, aprops a)) (snd r))) (parse_markup (P.render ex_pcdoc))
  = Some (STR "Zo: yz", [(STR "b", 3, 3, [(STR "n", MInt 12)]); (STR "pause", 5, 0, [(STR "ms", MInt 250)]);
                         (STR "character", 0, 4, [(STR "name", MStr (STR "Zo"))])]%Z).
Proof. split; [vm_compute; auto|split; vm_compute; reflexivity]. Qed.

(* an explicit marker called "character" suppresses the implicit attribute: whatever colons the text
   holds, the attributes are exactly those of the closed markers *)
Theorem C13_explicit_character_marker : forall its,
  Forall item_ok its ->
  no_edge_space (text its) ->
  (forall encl, enclosed its [] [] = Some encl -> exists e, In e encl /\ str_eqb (fst e) (STR "character") = true) ->
  match enclosed its [] [] with
  | Some encl =>
      exists attrs, parse_markup (render its) = Some (text its, attrs) /\
        length attrs = length encl /\
        (forall e, In e encl -> exists a, In a attrs /\ aname a = fst e /\ aprops a = [] /\
                                          text_for_attribute (text its) a = Some (snd e)) /\
        (forall a, In a attrs -> exists e, In e encl /\ aname a = fst e /\ aprops a = [] /\
                                           text_for_attribute (text its) a = Some (snd e))
  | None => parse_markup (render its) = None
  end.
Proof. exact CP.explicit_character_marker. Qed.
Print Assumptions C13_explicit_character_marker.

Definition ex_xdoc : list item :=
  [IOpen (STR "character"); IText (STR "Bob"); IClose (STR "character"); IText (STR ": hi: there")].
Example C13_explicit_character_example :
  Forall item_ok ex_xdoc /\ no_edge_space (text ex_xdoc) /\
  enclosed ex_xdoc [] [] = Some [(STR "character", STR "Bob")] /\
  option_map (fun r => (fst r, map (fun a => (aname a, apos a, alen a)) (snd r))) (parse_markup (render ex_xdoc)) =
  Some (STR "Bob: hi: there", [(STR "character", 0, 3)]%Z).
Proof.
  split; [|split; [split; vm_compute; reflexivity|split; vm_compute; reflexivity]].
  repeat constructor; try (vm_compute; (reflexivity || discriminate || (left; reflexivity))).
Qed.

(* the whitespace-trimming rule of self-closing markers (Proofs/MarkupTrimProofs.v): a self-closing
   marker standing at the start of the text or directly after a blank swallows exactly ONE blank that
   directly follows it - the text is a ++ b, the attribute has length 0 at |a| - for every name, every
   written property list (no trimwhitespace property), every plain a and b without colon.
   [TR.lastr a 0] is the last character of a. *)
Require YS.Proofs.MarkupTrimProofs.
Module TR := YS.Proofs.MarkupTrimProofs.
Theorem C13_self_closing_trims_one_blank : forall n ps a ws b,
  P.name_ok n -> Forall P.prop_ok ps -> get_prop (P.pvalues ps) (STR "trimwhitespace") = None ->
  str_eqb n (STR "character") = false ->
  forallb plain_rune a = true -> forallb plain_rune b = true ->
  forallb CP.no_colon a = true -> forallb CP.no_colon b = true ->
  is_space ws = true ->
  (Z.of_nat (length a) =? 0)%Z || is_space (TR.lastr a 0%N) = true ->
  P.no_edge_space (a ++ b) ->
  exists src, parse_markup (a ++ 91%N :: P.w_self n ps ++ ws :: b) =
    Some (a ++ b, [{| aname := n; apos := Z.of_nat (length a); alen := 0; asrc := src;
                      aprops := props_map (P.pvalues ps) |}]).
Proof. exact TR.self_closing_trims_one_blank. Qed.
Print Assumptions C13_self_closing_trims_one_blank.

Example C13_self_closing_trim_example :
  option_map (fun r => (fst r, map (fun a => (aname a, apos a, alen a)) (snd r)))
    (parse_markup (STR "ab " ++ 91%N :: P.w_self (STR "pause") [(STR "ms", P.PVInt (STR "250"))] ++ STR "  cd")) =
  Some (STR "ab  cd", [(STR "pause", 3, 0)]%Z)
  /\ ((Z.of_nat (length (STR "ab ")) =? 0)%Z || is_space (TR.lastr (STR "ab ") 0%N) = true).
Proof. split; vm_compute; reflexivity. Qed.

(* the converse: a self-closing marker directly after a character that is not a blank swallows
   nothing, whatever follows it (b may begin with blanks) *)
Theorem C13_self_closing_after_nonblank_keeps : forall n ps a b,
  P.name_ok n -> Forall P.prop_ok ps -> get_prop (P.pvalues ps) (STR "trimwhitespace") = None ->
  str_eqb n (STR "character") = false ->
  forallb plain_rune a = true -> forallb plain_rune b = true ->
  forallb CP.no_colon a = true -> forallb CP.no_colon b = true ->
  (Z.of_nat (length a) =? 0)%Z || is_space (TR.lastr a 0%N) = false ->
  P.no_edge_space (a ++ b) ->
  exists src, parse_markup (a ++ 91%N :: P.w_self n ps ++ b) =
    Some (a ++ b, [{| aname := n; apos := Z.of_nat (length a); alen := 0; asrc := src;
                      aprops := props_map (P.pvalues ps) |}]).
Proof. exact TR.self_closing_after_nonblank_keeps. Qed.
Print Assumptions C13_self_closing_after_nonblank_keeps.

Example C13_self_closing_keep_example :
  option_map (fun r => (fst r, map (fun a => (aname a, apos a, alen a)) (snd r)))
    (parse_markup (STR "ab" ++ 91%N :: P.w_self (STR "pause") [(STR "ms", P.PVInt (STR "250"))] ++ STR "  cd")) =
  Some (STR "ab  cd", [(STR "pause", 2, 0)]%Z)
  /\ ((Z.of_nat (length (STR "ab")) =? 0)%Z || is_space (TR.lastr (STR "ab") 0%N) = false).
Proof. split; vm_compute; reflexivity. Qed.

(* a property trimwhitespace=false switches the rule off: nothing is swallowed, wherever the marker stands *)
Theorem C13_self_closing_trimwhitespace_false : forall n ps a b,
  P.name_ok n -> Forall P.prop_ok ps -> get_prop (P.pvalues ps) (STR "trimwhitespace") = Some (MBool false) ->
  str_eqb n (STR "character") = false ->
  forallb plain_rune a = true -> forallb plain_rune b = true ->
  forallb CP.no_colon a = true -> forallb CP.no_colon b = true ->
  P.no_edge_space (a ++ b) ->
  exists src, parse_markup (a ++ 91%N :: P.w_self n ps ++ b) =
    Some (a ++ b, [{| aname := n; apos := Z.of_nat (length a); alen := 0; asrc := src;
                      aprops := props_map (P.pvalues ps) |}]).
Proof. exact TR.self_closing_trimwhitespace_false. Qed.
Print Assumptions C13_self_closing_trimwhitespace_false.

Example C13_trimwhitespace_false_example :
  let ps := [(STR "trimwhitespace", P.PVBool false)] in
  get_prop (P.pvalues ps) (STR "trimwhitespace") = Some (MBool false) /\
  option_map (fun r => (fst r, map (fun a => (aname a, apos a, alen a)) (snd r)))
    (parse_markup (STR "ab " ++ 91%N :: P.w_self (STR "pause") ps ++ STR "  cd")) =
  Some (STR "ab   cd", [(STR "pause", 3, 0)]%Z).
Proof. split; vm_compute; reflexivity. Qed.
