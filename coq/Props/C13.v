(* C13 - markup parsing recovers the plain text and exactly the enclosed ranges.
   Proved: the round trip for documents built from plain text, escaped brackets and open / close /
   close-all markers (any nesting, overlap and repetition, multi-byte text): the text comes back
   and every closed marker yields one attribute whose range delimits exactly the text it enclosed,
   "enclosed" being defined on the document (Proofs/MarkupDocProofs.v).
   Partial: markers with properties, self-closing markers, the replacement markers, the character
   prefix and blanks at the edges of the text are outside that theorem; the correspondence family
   'markupdoc' compares the implementation both with the model and - for structured documents - with
   the meaning the generator knows by construction. *)
From Coq Require Import List ZArith NArith Bool.
From YS Require Import Base.Sexp Yarn.Value Markup.LineParser Proofs.MarkupProofs Proofs.MarkupDocProofs.
Import ListNotations.

(* the round trip.  [render] writes the document, [text] is its plain text, [enclosed] computes -
   on the document, without positions - the (name, enclosed text) of every closed marker (None: a
   close marker without an open one, which must be an error). Hypotheses: names are identifiers that
   are not replacement markers, text chunks contain neither '[' nor a backslash, the text has no
   colon (no implicit character attribute) and no blank at either end (nothing to trim). *)
Theorem C13_document_roundtrip : forall its,
  Forall item_ok its ->
  forallb (fun c => negb (N.eqb c 58)) (text its) = true ->
  no_edge_space (text its) ->
  match enclosed its [] [] with
  | Some encl =>
      exists attrs, parse_markup (render its) = Some (text its, attrs) /\
        length attrs = length encl /\
        (forall e, In e encl -> exists a, In a attrs /\ aname a = fst e /\ aprops a = [] /\
                                          text_for_attribute (text its) a = Some (snd e)) /\
        (forall a, In a attrs -> exists e, In e encl /\ aname a = fst e /\ aprops a = [] /\
                                           text_for_attribute (text its) a = Some (snd e))
  | None => parse_markup (render its) = None
  end.
Proof. exact markup_document_roundtrip. Qed.
Print Assumptions C13_document_roundtrip.

(* non-vacuity: nested, overlapping and repeated markers, a multi-byte character, an escaped
   bracket, a close-all marker: the hypotheses hold and the enclosures are what one reads off *)
Definition ex_doc : list item :=
  [IText (STR "Start"); IOpen (STR "a"); IText (STR "x"); IOpen (STR "b"); IText [26085%N]; IBr 91%N;
   IClose (STR "a"); IText (STR "z"); IOpen (STR "a"); IText (STR "w"); ICloseAll; IText (STR "End")].
Example C13_example_hypotheses :
  Forall item_ok ex_doc /\ forallb (fun c => negb (N.eqb c 58)) (text ex_doc) = true /\ no_edge_space (text ex_doc) /\
  enclosed ex_doc [] [] = Some [(STR "a", STR "x" ++ [26085%N; 91%N]); (STR "b", [26085%N; 91%N] ++ STR "zw"); (STR "a", STR "w")].
Proof.
  split; [|split; [vm_compute; reflexivity|split; [split; vm_compute; reflexivity|vm_compute; reflexivity]]].
  repeat constructor; try (vm_compute; (reflexivity || discriminate || (left; reflexivity))).
Qed.

(* text without markup, escapes or a character prefix is returned as it is, trimmed *)
Theorem C13_plain_text_identity_partial : forall t, forallb plain_rune t = true ->
  forallb (fun c => negb (N.eqb c 58)) t = true -> parse_markup t = Some (trim_space t, []).
Proof. exact plain_text_identity. Qed.
Print Assumptions C13_plain_text_identity_partial.

(* whatever is returned: TextForAttribute gives exactly [length] characters of the text, starting
   at [position] (ranges are in characters; no byte length is involved anywhere in the model) *)
Theorem C13_text_for_attribute_is_the_range : forall input text attrs a x,
  parse_markup input = Some (text, attrs) -> In a attrs -> text_for_attribute text a = Some x ->
  Z.of_nat (length x) = alen a.
Proof. exact text_for_attribute_length. Qed.
Print Assumptions C13_text_for_attribute_is_the_range.

(* non-vacuity / regression examples: nested same-name markers (D25), decimal fractions (D15),
   leading whitespace and multi-byte character prefix (D14), nomarkup closed by name (D16) *)
Definition show (r : option (str * list attribute)) : option (str * list (str * Z * Z)) :=
  option_map (fun p => (fst p, map (fun a => (aname a, apos a, alen a)) (snd p))) r.

Example C13_nested_same_name :
  show (parse_markup (STR "[a]x[a]y[/a]z[/a]")) = Some (STR "xyz", [(STR "a", 0, 3); (STR "a", 1, 1)]%Z).
Proof. vm_compute. reflexivity. Qed.
Example C13_leading_whitespace :
  show (parse_markup (STR "  [a]hello[/a]")) = Some (STR "hello", [(STR "a", 0, 5)]%Z).
Proof. vm_compute. reflexivity. Qed.
Example C13_nomarkup_by_name :
  show (parse_markup (STR "[nomarkup][b]x[/b][/nomarkup] y")) = Some (STR "[b]x[/b] y", [(STR "nomarkup", 0, 8)]%Z).
Proof. vm_compute. reflexivity. Qed.
