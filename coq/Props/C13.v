(* C13 - markup parsing recovers the plain text and exactly the enclosed ranges.
   Partial: the full round trip [parse_markup (render d) = meaning d] over marked-up documents is
   not proved; what is proved is listed below, and the correspondence family 'markupdoc' compares the
   implementation both with the model and - for structured documents - with the meaning the
   generator knows by construction. *)
From Coq Require Import List ZArith NArith Bool.
From YS Require Import Base.Sexp Yarn.Value Markup.LineParser Proofs.MarkupProofs.
Import ListNotations.

(* text without markup, escapes or a character prefix is returned as it is, trimmed *)
Theorem C13_plain_text_identity_partial : forall t, forallb plain_rune t = true ->
  forallb (fun c => negb (N.eqb c 58)) t = true -> parse_markup t = Some (trim_space t, []).
Proof. exact plain_text_identity. Qed.
Print Assumptions C13_plain_text_identity_partial.

(* whatever is returned: TextForAttribute gives exactly [length] characters of the text, starting
   at [position] (ranges are in characters; no byte length is involved anywhere in the model) *)
Theorem C13_text_for_attribute_is_the_range : forall input text attrs a x,
  parse_markup input = Some (text, attrs) -> In a attrs -> text_for_attribute text a = Some x ->
  Z.of_nat (length x) = alen a.
Proof. exact text_for_attribute_length. Qed.
Print Assumptions C13_text_for_attribute_is_the_range.

(* non-vacuity / regression examples: nested same-name markers (D25), decimal fractions (D15),
   leading whitespace and multi-byte character prefix (D14), nomarkup closed by name (D16) *)
Definition show (r : option (str * list attribute)) : option (str * list (str * Z * Z)) :=
  option_map (fun p => (fst p, map (fun a => (aname a, apos a, alen a)) (snd p))) r.

Example C13_nested_same_name :
  show (parse_markup (STR "[a]x[a]y[/a]z[/a]")) = Some (STR "xyz", [(STR "a", 0, 3); (STR "a", 1, 1)]%Z).
Proof. vm_compute. reflexivity. Qed.
Example C13_leading_whitespace :
  show (parse_markup (STR "  [a]hello[/a]")) = Some (STR "hello", [(STR "a", 0, 5)]%Z).
Proof. vm_compute. reflexivity. Qed.
Example C13_nomarkup_by_name :
  show (parse_markup (STR "[nomarkup][b]x[/b][/nomarkup] y")) = Some (STR "[b]x[/b] y", [(STR "nomarkup", 0, 8)]%Z).
Proof. vm_compute. reflexivity. Qed.
