(* C15 - markup parsing is total and its results are safe to use. *)
From Coq Require Import List ZArith NArith.
From YS Require Import Base.Sexp Markup.LineParser Proofs.MarkupProofs.
Import ListNotations.

(* totality: the model's loops run on fuel computed from the input (one unit per rune, plus one);
   more fuel never changes the answer, so the loops never stop for lack of it and [None] is always
   an error value of the Go code (the parser has no panic site: every Go error path is a None) *)
Theorem C15_fuel_is_sufficient : forall input extra,
  main_loop (S (length input) + extra) {| rest := input; sp := 0 |} [] 0 [] 0%N =
  main_loop (S (length input)) {| rest := input; sp := 0 |} [] 0 [] 0%N.
Proof. exact parse_markup_fuel_irrelevant. Qed.
Print Assumptions C15_fuel_is_sufficient.

Theorem C15_property_loop_fuel_is_sufficient : forall f1 f2 r name props pos src,
  length (rest r) < f1 -> length (rest r) < f2 ->
  parse_props f1 r name props pos src = parse_props f2 r name props pos src.
Proof. exact parse_props_fuel. Qed.
Print Assumptions C15_property_loop_fuel_is_sufficient.

(* every returned attribute: position and length non-negative, range inside the text, in characters *)
Theorem C15_attribute_ranges_inside : forall input text attrs, parse_markup input = Some (text, attrs) ->
  Forall (range_ok text) attrs.
Proof. exact attribute_ranges_inside. Qed.
Print Assumptions C15_attribute_ranges_inside.

(* asking for the text of any returned attribute does not panic *)
Theorem C15_text_for_attribute_safe : forall input text attrs, parse_markup input = Some (text, attrs) ->
  forall a, In a attrs -> text_for_attribute text a <> None.
Proof. exact text_for_attribute_safe. Qed.
Print Assumptions C15_text_for_attribute_safe.

(* for byte strings: decoding (Go's conversion, invalid bytes become U+FFFD) then parsing *)
Corollary C15_bytes : forall bs text attrs, parse_markup (decode bs) = Some (text, attrs) ->
  Forall (range_ok text) attrs /\ forall a, In a attrs -> text_for_attribute text a <> None.
Proof. intros bs text attrs H. split; [exact (attribute_ranges_inside _ _ _ H)|exact (text_for_attribute_safe _ _ _ H)]. Qed.
Print Assumptions C15_bytes.

Example C15_trailing_space_in_marker :
  option_map (fun p => map (fun a => (apos a, alen a)) (snd p)) (parse_markup (STR "hello [a]world  [/a]"))
  = Some [(6, 5)]%Z.
Proof. vm_compute. reflexivity. Qed.
