(* C11 - visited / visited_count count completed visits of tracked nodes only. *)
From Coq Require Import List ZArith Bool.
From YS Require Import Base.Sexp Num.F64 Yarn.Ast Yarn.Value Yarn.Eval Yarn.Runner Proofs.VisitProofs.
Import ListNotations.
Local Open Scope Z_scope.

(* the invariant: for every name n,
     count(n) = (count at the last restore) + #{successful jumps since then that left n}   if n is a tracked node
     count(n) = (count at the last restore)                                              otherwise
   [jlog] is the (ghost) list of nodes left by successful jumps; failed jumps are not in it *)
Theorem C11_invariant_across_next : forall d fm m c, VInv d (dat m) -> VInv d (dat (snd (next d fm m c))).
Proof. exact next_vinv. Qed.
Print Assumptions C11_invariant_across_next.

Theorem C11_invariant_initially : forall d init stream sc cmds m,
  new_runner d init stream sc cmds = Some m -> VInv d (dat m).
Proof. exact new_runner_vinv. Qed.
Print Assumptions C11_invariant_initially.

(* every history of Next calls and restores (successful or not) *)
Theorem C11_invariant_across_histories : forall d fuel ops m,
  VInv d (dat m) -> VInv d (dat (fold_left (hstep d fuel) ops m)).
Proof. exact history_vinv. Qed.
Print Assumptions C11_invariant_across_histories.

(* what scripts read *)
Theorem C11_visited_count_reads_the_counter : forall v n e,
  call_builtin v (STR "visited_count") [VStr n] e = Some (Val (Some (VNum (of_Z (vget (rvisits v) n)))), e).
Proof. exact visited_count_reads. Qed.
Theorem C11_visited_iff_positive : forall v n e,
  call_builtin v (STR "visited") [VStr n] e = Some (Val (Some (VBool (0 <? vget (rvisits v) n))), e).
Proof. exact visited_iff_positive. Qed.
Print Assumptions C11_visited_iff_positive.

Theorem C11_untracked_never_counts : forall d s n, VInv d s -> tracked d n = false ->
  vget (visits s) n = vget (vbase s) n.
Proof. exact untracked_never_counts. Qed.
Theorem C11_non_node_never_counts : forall d s n, VInv d s -> find_node d n = None ->
  vget (visits s) n = vget (vbase s) n.
Proof. exact non_node_never_counts. Qed.
Theorem C11_counts_never_decrease : forall d fm m c n, VInv d (dat m) ->
  vget (visits (dat m)) n <= vget (visits (dat (snd (next d fm m c)))) n.
Proof. exact counts_monotone. Qed.
Print Assumptions C11_counts_never_decrease.
