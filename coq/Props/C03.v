(* C03 - variables: (compound) assignment, type stability, storer is the source of truth. *)
From Coq Require Import List ZArith Bool.
From YS Require Import Base.Sexp Num.F64 Yarn.Ast Yarn.Value Yarn.Eval Yarn.Runner Spec.SetSpec Proofs.SetProofs Proofs.StorerProofs.
Import ListNotations.

(* set / declare store what the table SetSpec.set_spec says, with exactly one write *)
Theorem C03_set_matches_spec : forall x op e s,
  let '(o, s1) := eval_in s e in
  match o with
  | Val v =>
      match set_spec (st_get (vars s1) x) op v with
      | Some r => exec_set x op e s = (true, upd_vars s1 (st_set (vars s1) x r) (sevent_of x r))
      | None => exec_set x op e s = (false, s1)
      end
  | _ => exec_set x op e s = (false, s1)
  end.
Proof. exact exec_set_spec. Qed.
Print Assumptions C03_set_matches_spec.

Theorem C03_failed_statement_changes_nothing : forall x op e s s', exec_set x op e s = (false, s') ->
  vars s' = vars s /\ slog s' = slog s.
Proof. exact failed_set_frame. Qed.
Print Assumptions C03_failed_statement_changes_nothing.

Theorem C03_one_write_per_statement : forall x op e s s', exec_set x op e s = (true, s') ->
  exists r, slog s' = sevent_of x r :: slog s /\ vars s' = st_set (vars s) x r.
Proof. exact ok_set_one_write. Qed.
Print Assumptions C03_one_write_per_statement.

Theorem C03_type_stable : forall p op v r, set_spec (Some p) op v = Some r -> same_type p r = true.
Proof. exact set_spec_type_stable. Qed.
Print Assumptions C03_type_stable.

Theorem C03_compound_on_unknown_is_error : forall op v, op <> SAssign -> set_spec None op v = None.
Proof. exact compound_unknown_is_error. Qed.
Print Assumptions C03_compound_on_unknown_is_error.

(* the default storer never holds a name under two types: after any sequence of writes ... *)
Theorem C03_single_type_after_any_writes : forall ws,
  single (fold_left (fun st kv => st_set st (fst kv) (snd kv)) ws empty_store).
Proof. exact single_after_writes. Qed.
Print Assumptions C03_single_type_after_any_writes.

(* ... and across anything a runner does *)
Theorem C03_single_type_across_next : forall d fm m c,
  single (vars (dat m)) -> single (vars (dat (snd (next d fm m c)))).
Proof. exact next_single. Qed.
Print Assumptions C03_single_type_across_next.

(* GetValue and GetValues agree on every name, present or absent: for every store built by writes
   (scripts, host, RestoreAt all write through the Set calls), and across anything a runner does *)
Theorem C03_reads_agree_after_any_writes : forall ws k,
  let st := fold_left (fun st kv => st_set st (fst kv) (snd kv)) ws empty_store in
  aget (st_values st) k = st_get st k.
Proof. exact get_values_agrees_after_writes. Qed.
Print Assumptions C03_reads_agree_after_any_writes.

Theorem C03_reads_agree_across_next : forall d fm m c k, store_ok (vars (dat m)) ->
  let st := vars (dat (snd (next d fm m c))) in aget (st_values st) k = st_get st k.
Proof. exact get_values_agrees_across_next. Qed.
Print Assumptions C03_reads_agree_across_next.

(* ... and the invariant is needed: a name under two types (the defect D2 of the pinned tree) makes
   the two reads disagree *)
Example C03_reads_disagree_without_invariant :
  let st := {| nums := [(STR "x", of_Z 1)]; bools := []; strs := [(STR "x", STR "s")] |} in
  st_get st (STR "x") = Some (VNum (of_Z 1)) /\ aget (st_values st) (STR "x") = Some (VStr (STR "s")).
Proof. exact get_values_needs_single. Qed.

(* reads go through the storer: what the host wrote last is what the script reads next *)
Theorem C03_host_write_visible : forall s k v, fst (eval_in (host_write s k v) (EVar k)) = Val v.
Proof. exact host_write_visible. Qed.
Print Assumptions C03_host_write_visible.

Theorem C03_write_then_read : forall st k v, st_get (st_set st k v) k = Some v.
Proof. exact st_get_set. Qed.
Print Assumptions C03_write_then_read.

(* non-vacuity: string += appends on the right; %= is the floating remainder *)
Example C03_string_append :
  set_spec (Some (VStr (STR "ab"))) SAddEq (VStr (STR "cd")) = Some (VStr (STR "abcd")).
Proof. reflexivity. Qed.
Example C03_modulo :
  option_map (fun v => match v with VNum n => to_bits n | _ => 0%Z end)
             (set_spec (Some (VNum (of_Z 7))) SModEq (VNum (of_Z 4))) = Some (to_bits (of_Z 3)).
Proof. vm_compute. reflexivity. Qed.
