(* C16 - converted host functions/commands: accepted means callable without panics. *)
From Coq Require Import List ZArith Bool.
From YS Require Import Base.Sexp Num.F64 Yarn.Ast Yarn.Value Yarn.Eval Yarn.Bridge Proofs.BridgeProofs.
Import ListNotations.

(* for every signature - any number of parameters of any types, an optional variadic tail, any
   results - and every argument list: what the input converter lets through satisfies the
   precondition of reflect.Value.Call (count, and the exact parameter type for each argument, named
   types included) *)
Theorem C16_converted_arguments_are_callable : forall s args gs,
  convert_args s args = Some gs -> call_ok s gs = true.
Proof. exact converted_arguments_are_callable. Qed.
Print Assumptions C16_converted_arguments_are_callable.

(* hence a successfully registered function / command never panics in the bridge, whatever the
   script passes (the host function itself returning as many results as its type says) *)
Theorem C16_accepted_function_never_panics : forall r b host args,
  register_function r = Some b -> host_ok (bsig b) host -> call_function_bridge b host args <> Crash.
Proof. exact accepted_function_never_panics. Qed.
Print Assumptions C16_accepted_function_never_panics.

Theorem C16_accepted_command_never_panics : forall r b host chan_nil args,
  register_command r = Some b -> host_ok (bsig b) host -> call_command_bridge b host chan_nil args <> Crash.
Proof. exact accepted_command_never_panics. Qed.
Print Assumptions C16_accepted_command_never_panics.

Theorem C16_nil_and_non_functions_are_refused :
  register_function RNilInterface = None /\ register_function RNotAFunction = None /\
  (forall s, register_function (RNilFunction s) = None) /\
  register_command RNilInterface = None /\ register_command RNotAFunction = None /\
  (forall s, register_command (RNilFunction s) = None).
Proof. exact nil_and_non_functions_are_refused. Qed.

Theorem C16_registration_characterised : forall s,
  (exists b, register_function (RFunction s) = Some b) <-> bridgeable_function s = true.
Proof. exact function_registration_characterised. Qed.
Print Assumptions C16_registration_characterised.

Theorem C16_conversion_faithful : forall t v g, convert_arg t v = Some g ->
  vtype g = t /\
  match v, vpay g with
  | VBool b, PBool b' => b = b'
  | VStr s, PStr s' => s = s'
  | VNum x, PInt z => z = int_conv (gk t) x
  | VNum x, PFloat f => f = x \/ f = to_f32 x
  | _, _ => False
  end.
Proof. exact conversion_faithful. Qed.
Print Assumptions C16_conversion_faithful.

(* non-vacuity: func(MyInt, MyIntB, ...MyString) (float64, error) - two defined types of one kind -
   is bridgeable and every argument arrives with exactly its parameter's type *)
Example C16_example :
  let s := {| params := [mk_t KInt 1 false; mk_t KInt 13 false]; variadic := Some (mk_t KString 9 false);
              results := [mk_t KFloat64 0 false; mk_t KIface 0 true] |} in
  bridgeable_function s = true /\
  option_map (map (fun g => gname (vtype g))) (convert_args s [VNum (of_Z 3); VNum (of_Z 4); VStr (STR "a"); VStr (STR "b")])
    = Some [1; 13; 9; 9]%N.
Proof. vm_compute. split; reflexivity. Qed.
