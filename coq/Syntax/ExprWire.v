(* (exprparse (tok ...) [expected tree]) -> (ast <expr>) | (reject): the expression rule of the
   parser model on a token sequence, for comparison with the implementation's parser + listener.
   Tokens: (lp) (rp) (comma) (not) (op "+") (num bits) (bool b) (str "s") (var "x") (null) (fn "f"). *)
From Coq Require Import List ZArith Bool.
From YS Require Import Base.Sexp Num.F64 Yarn.Ast Yarn.RunnerWire Syntax.ExprParser.
Import ListNotations.

Definition enc_binop (o : binop) : sexp :=
  SS (match o with
      | OMul => STR "*" | ODiv => STR "/" | OMod => STR "%" | OAdd => STR "+" | OSub => STR "-"
      | OLe => STR "<=" | OGe => STR ">=" | OLt => STR "<" | OGt => STR ">" | OEq => STR "==" | ONe => STR "!="
      | OAnd => STR "and" | OOr => STR "or" | OXor => STR "xor"
      end).

Fixpoint enc_expr (e : expr) : sexp :=
  match e with
  | EVal v => enc_value v
  | EVar x => tagged "var" [SS x]
  | ENull => tagged "null" []
  | ECall f args => tagged "fn" [SS f; SL (map enc_expr args)]
  | ENeg x => tagged "neg" [enc_expr x]
  | ENot x => tagged "not" [enc_expr x]
  | EBin o l r => tagged "bin" [enc_binop o; enc_expr l; enc_expr r]
  end.

Definition dec_tok (e : sexp) : option tok :=
  match e with
  | SL [SS t] => if tag_is t "lp" then Some TLP else if tag_is t "rp" then Some TRP
                 else if tag_is t "comma" then Some TComma else if tag_is t "not" then Some TNot
                 else if tag_is t "null" then Some (TAtom ANull) else None
  | SL [SS t; SS s] => if tag_is t "op" then option_map TOp (dec_binop s)
                       else if tag_is t "var" then Some (TAtom (AVar s))
                       else if tag_is t "fn" then Some (TFunc s)
                       else option_map (fun v => TAtom (AVal v)) (dec_value e)
  | SL [SS t; SZ _] => option_map (fun v => TAtom (AVal v)) (dec_value e)
  | _ => None
  end.

Definition run_exprparse_case (args : list sexp) : sexp :=
  match args with
  | SL ts :: _ =>
      match map_opt dec_tok ts with
      | Some toks => match parse_expression toks with
                     | Some e => tagged "ast" [enc_expr e]
                     | None => tagged "reject" []
                     end
      | None => bad "exprparse: token"
      end
  | _ => bad "exprparse: shape"
  end.
