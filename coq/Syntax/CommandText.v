(* internal/tree/tree.go: CommandStatement.rearrange / split / valueFromCommandText (after the repair
   of D19).  A generic command is collected by the listener as a list of raw elements - runs of
   COMMAND_TEXT and inline expressions - and rearranged into one expression per argument. *)
From Coq Require Import List ZArith NArith Bool.
From YS Require Import Base.Sexp Num.F64 Num.Decimal Yarn.Ast Yarn.Value.
Import ListNotations.

Inductive relem := RText (s : str) | RExpr (e : expr).

(* strings.Fields: maximal runs of non-space runes *)
Fixpoint fields (s : str) (cur : str) : list str :=
  match s with
  | [] => match cur with [] => [] | _ => [rev cur] end
  | c :: r => if is_space c then match cur with [] => fields r [] | _ => rev cur :: fields r [] end
              else fields r (c :: cur)
  end.

Definition all_digits (s : str) : bool := match s with [] => false | _ => forallb is_digit s end.

Fixpoint cut_dot (s : str) (acc : str) : str * option str :=
  match s with
  | [] => (rev acc, None)
  | c :: r => if N.eqb c 46 then (rev acc, Some r) else cut_dot r (c :: acc)
  end.

(* isDecimalLiteral: -?[0-9]+(\.[0-9]+)? *)
Definition is_decimal_literal (s : str) : bool :=
  let s1 := match s with 45%N :: r => r | _ => s end in
  match cut_dot s1 [] with
  | (ip, None) => all_digits ip
  | (ip, Some fp) => all_digits ip && all_digits fp
  end.

(* valueFromCommandText *)
Definition value_from_command_text (w : str) : value :=
  if str_eqb w (STR "true") then VBool true
  else if str_eqb w (STR "false") then VBool false
  else if is_decimal_literal w then
    match parse_float w with
    | Some n => VNum n
    | None => VStr w
    end
  else VStr w.

Definition split_words (s : str) : list expr := map (fun w => EVal (value_from_command_text w)) (fields s []).

(* rearrange *)
Fixpoint rearrange (els : list relem) (acc : str) : list expr :=
  match els with
  | [] => split_words acc
  | RText t :: r => rearrange r (acc ++ t)
  | RExpr e :: r => split_words acc ++ e :: rearrange r []
  end.
