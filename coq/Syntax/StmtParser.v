(* The statement part of the ANTLR-generated parser (internal/parser/yarnspinner_parser.go, rules
   dialogue, node, header, body, statement, line_statement, line_formatted_text, hashtag,
   line_condition, if_statement and its clauses, set_statement, call_statement, command_statement,
   shortcut_option_statement, shortcut_option, declare_statement, jump_statement) together with the
   dialogue the listener of internal/tree/parser_listener.go builds for each rule, as one recursive
   descent over the tokens the lexer (indentation wrapper included) hands to the parser.

   Tokens are (kind, text) pairs; `kind` and the numbering of the real lexer come from
   Generated/TokenTable.v, which tools/gen_tokentable.py extracts from the Go source on every run,
   as do the listener's two operator maps. Expressions are parsed by Syntax/ExprParser.v over the
   generated precedence table: an expression is the maximal run of expression tokens, which must be
   one complete expression (every context of the grammar delimits an expression by a token that is
   not an expression token: EXPRESSION_END, COMMAND_END, an assignment operator, `as`).

   What the listener does with token texts is part of the model: `$name` loses its sigil, a string
   literal its quotes, a NUMBER goes through strconv.ParseFloat (error ignored: overflow is +Inf),
   consecutive TEXT tokens of a line are one text element, a hashtag loses its '#' (the HASHTAG_TEXT
   token is the text), <<else>> is a clause whose condition is the literal true, <<jump Name>> is a
   jump to the string "Name", a generic command is its COMMAND_TEXT pieces and expressions put through
   rearrange() (Syntax/CommandText.v), headers are a map (last value of a key wins; dumped in key
   order), `as <type>` of declare is ignored, file-level hashtags are ignored.

   ANTLR decides alternatives by adaptive prediction; the model takes the decision the grammar's
   FIRST sets prescribe (two tokens of look-ahead at COMMAND_START), loops and optional parts greedily.
   That the generated parser accepts exactly this language and the listener builds exactly this
   dialogue is compared with the implementation on every run (family stmtparse). *)
From Coq Require Import List Arith Bool ZArith NArith.
From Flocq Require Import Core BinarySingleNaN.
From YS Require Import Base.Sexp Num.F64 Num.Decimal Yarn.Ast Generated.ExprTable Generated.TokenTable
  Syntax.ExprParser Syntax.CommandText.
Import ListNotations.

Notation T := (kind * str)%type (only parsing).

(* ---- expression tokens ---- *)
Definition number_of_text (s : str) : f64 :=
  match parse_float s with Some f => f | None => (B754_infinity false : f64) end.

(* text[1 : len(text)-1] *)
Definition strip_quotes (s : str) : str := removelast (tl s).

Definition etok_of (t : T) : option tok :=
  let '(k, s) := t in
  match k with
  | K_LPAREN => Some TLP
  | K_RPAREN => Some TRP
  | K_COMMA => Some TComma
  | K_OPERATOR_LOGICAL_NOT => Some TNot
  | K_KEYWORD_TRUE => Some (TAtom (AVal (VBool true)))
  | K_KEYWORD_FALSE => Some (TAtom (AVal (VBool false)))
  | K_KEYWORD_NULL => Some (TAtom ANull)
  | K_NUMBER => Some (TAtom (AVal (VNum (number_of_text s))))
  | K_STRING => Some (TAtom (AVal (VStr (strip_quotes s))))
  | K_VAR_ID => Some (TAtom (AVar (tl s)))
  | K_FUNC_ID => Some (TFunc s)
  | _ => option_map TOp (binop_of_kind k)
  end.

Fixpoint take_etoks (ts : list T) : list tok * list T :=
  match ts with
  | t :: r => match etok_of t with
              | Some e => let '(a, b) := take_etoks r in (e :: a, b)
              | None => ([], ts)
              end
  | [] => ([], [])
  end.

(* `expression` in a context that delimits it *)
Definition parse_expr_span (ts : list T) : option (expr * list T) :=
  let '(es, r) := take_etoks ts in
  match parse_expression es with
  | Some e => Some (e, r)
  | None => None
  end.

(* function_call alone (call_statement, value of declare): FUNC_ID '(' args ')' and nothing else *)
Definition parse_call_toks (es : list tok) : option (str * list expr) :=
  match es with
  | TFunc f :: TLP :: r =>
      match parse_args level right_prec neg_operand_prec not_operand_prec (4 * length es + 4) true r with
      | Some (args, []) => Some (f, args)
      | _ => None
      end
  | _ => None
  end.

(* `value` (declare): one literal / variable / null, or a function call *)
Definition parse_value_toks (es : list tok) : option expr :=
  match es with
  | [TAtom a] => Some (expr_of_atom a)
  | _ => match parse_call_toks es with
         | Some (f, args) => Some (ECall f args)
         | None => None
         end
  end.

(* ---- line_statement ---- *)
(* hashtag* : HASHTAG HASHTAG_TEXT pairs *)
Fixpoint parse_hashtags (ts : list T) : list str * list T :=
  match ts with
  | (K_HASHTAG, _) :: (K_HASHTAG_TEXT, s) :: r => let '(a, b) := parse_hashtags r in (s :: a, b)
  | _ => ([], ts)
  end.

(* the listener's textCallback: a TEXT token is appended to the last element when that is a text *)
Definition add_text (els : list telem) (s : str) : list telem :=
  match rev els with
  | TText t :: r => if match t with [] => true | _ => false end then els ++ [TText s]
                    else rev r ++ [TText (t ++ s)]
  | _ => els ++ [TText s]
  end.

(* line_formatted_text: ( TEXT+ | EXPRESSION_START expression EXPRESSION_END )+ ; fuel: one unit per token *)
Fixpoint parse_ftext (fuel : nat) (ts : list T) (acc : list telem) : option (list telem * list T) :=
  match fuel with
  | O => None
  | S f =>
      match ts with
      | (K_TEXT, s) :: r => parse_ftext f r (add_text acc s)
      | (K_EXPRESSION_START, _) :: r =>
          match parse_expr_span r with
          | Some (e, (K_EXPRESSION_END, _) :: r2) => parse_ftext f r2 (acc ++ [TExpr e])
          | _ => None
          end
      | _ => match acc with [] => None | _ => Some (acc, ts) end
      end
  end.

(* line_statement: line_formatted_text line_condition? hashtag* NEWLINE *)
Definition parse_line (ts : list T) : option (line * list T) :=
  match parse_ftext (S (length ts)) ts [] with
  | None => None
  | Some (els, r) =>
      let after_cond (c : option expr) (r1 : list T) :=
        let '(tags, r2) := parse_hashtags r1 in
        match r2 with
        | (K_NEWLINE, _) :: r3 => Some ({| ltext := els; lcond := c; ltags := tags |}, r3)
        | _ => None
        end in
      match r with
      | (K_COMMAND_START, _) :: (K_COMMAND_IF, _) :: r0 =>
          match parse_expr_span r0 with
          | Some (c, (K_COMMAND_END, _) :: r1) => after_cond (Some c) r1
          | _ => None
          end
      | _ => after_cond None r
      end
  end.

(* ---- command_formatted_text: (COMMAND_TEXT | COMMAND_EXPRESSION_START expression EXPRESSION_END)* ---- *)
Fixpoint parse_ctext (fuel : nat) (ts : list T) (acc : list relem) : option (list relem * list T) :=
  match fuel with
  | O => None
  | S f =>
      match ts with
      | (K_COMMAND_TEXT, s) :: r => parse_ctext f r (acc ++ [RText s])
      | (K_COMMAND_EXPRESSION_START, _) :: r =>
          match parse_expr_span r with
          | Some (e, (K_EXPRESSION_END, _) :: r2) => parse_ctext f r2 (acc ++ [RExpr e])
          | _ => None
          end
      | _ => Some (acc, ts)
      end
  end.

(* the statements that are one command: after COMMAND_START, by the keyword that follows *)
Definition parse_simple_command (ts : list T) : option (stmt * list T) :=
  match ts with
  | (K_COMMAND_SET, _) :: (K_VAR_ID, x) :: (ko, _) :: r =>
      match setop_of_kind ko, parse_expr_span r with
      | Some op, Some (e, (K_COMMAND_END, _) :: r2) => Some (SSet (tl x) op e, r2)
      | _, _ => None
      end
  | (K_COMMAND_CALL, _) :: r =>
      let '(es, r1) := take_etoks r in
      match parse_call_toks es, r1 with
      | Some (f, args), (K_COMMAND_END, _) :: r2 => Some (SCall f args, r2)
      | _, _ => None
      end
  | (K_COMMAND_DECLARE, _) :: (K_VAR_ID, x) :: (K_OPERATOR_ASSIGNMENT, _) :: r =>
      let '(es, r1) := take_etoks r in
      match parse_value_toks es with
      | None => None
      | Some v =>
          match r1 with
          | (K_COMMAND_END, _) :: r2 => Some (SDeclare (tl x) v, r2)
          | (K_EXPRESSION_AS, _) :: (K_FUNC_ID, _) :: (K_COMMAND_END, _) :: r2 => Some (SDeclare (tl x) v, r2)
          | _ => None
          end
      end
  | (K_COMMAND_JUMP, _) :: (K_ID, d) :: (K_COMMAND_END, _) :: r => Some (SJump (EVal (VStr d)), r)
  | (K_COMMAND_JUMP, _) :: (K_EXPRESSION_START, _) :: r =>
      match parse_expr_span r with
      | Some (e, (K_EXPRESSION_END, _) :: (K_COMMAND_END, _) :: r2) => Some (SJump e, r2)
      | _ => None
      end
  | _ =>
      (* command_statement: command_formatted_text COMMAND_TEXT_END hashtag* ; a hashtag here reaches
         the listener's nil hashtagCallback - the walk panics, FromReader reports an error *)
      match parse_ctext (S (length ts)) ts [] with
      | Some (els, (K_COMMAND_TEXT_END, _) :: r) =>
          match r with
          | (K_HASHTAG, _) :: (K_HASHTAG_TEXT, _) :: _ => None
          | _ => Some (SCmd (rearrange els []), r)
          end
      | _ => None
      end
  end.

(* does a statement start here?  FIRST(statement), with the second token after COMMAND_START: the
   keywords that continue or end an enclosing if_statement do not start a statement *)
Definition starts_statement (ts : list T) : bool :=
  match ts with
  | (K_TEXT, _) :: _ | (K_EXPRESSION_START, _) :: _ | (K_SHORTCUT_ARROW, _) :: _ | (K_INDENT, _) :: _ => true
  | (K_COMMAND_START, _) :: (k, _) :: _ =>
      match k with
      | K_COMMAND_ELSEIF | K_COMMAND_ELSE | K_COMMAND_ENDIF => false
      | _ => true
      end
  | _ => false
  end.

(* statement*, if_statement, shortcut_option_statement: mutually recursive, on fuel *)
Fixpoint parse_stmts (fuel : nat) (ts : list T) {struct fuel} : option (list stmt * list T) :=
  match fuel with
  | O => None
  | S f =>
      if starts_statement ts then
        match ts with
        | (K_INDENT, _) :: r =>
            (* statement: INDENT statement* DEDENT - the listener has no callback for it: the inner
               statements are appended where they stand *)
            match parse_stmts f r with
            | Some (inner, (K_DEDENT, _) :: r2) =>
                match parse_stmts f r2 with
                | Some (rest, r3) => Some (inner ++ rest, r3)
                | None => None
                end
            | _ => None
            end
        | _ =>
            match parse_stmt f ts with
            | Some (s, r) => match parse_stmts f r with
                             | Some (rest, r2) => Some (s :: rest, r2)
                             | None => None
                             end
            | None => None
            end
        end
      else Some ([], ts)
  end
with parse_stmt (fuel : nat) (ts : list T) {struct fuel} : option (stmt * list T) :=
  match fuel with
  | O => None
  | S f =>
      match ts with
      | (K_SHORTCUT_ARROW, _) :: _ =>
          match parse_options f ts with
          | Some (os, r) =>
              match r with
              | (K_BLANK_LINE_FOLLOWING_OPTION, _) :: r2 => Some (SOpts os, r2)
              | _ => Some (SOpts os, r)
              end
          | None => None
          end
      | (K_COMMAND_START, _) :: (K_COMMAND_IF, _) :: r =>
          match parse_expr_span r with
          | Some (c, (K_COMMAND_END, _) :: r1) =>
              match parse_stmts f r1 with
              | Some (b, r2) =>
                  match parse_clauses f r2 with
                  | Some (cs, r3) => Some (SIf ((c, b) :: cs), r3)
                  | None => None
                  end
              | None => None
              end
          | _ => None
          end
      | (K_COMMAND_START, _) :: r => parse_simple_command r
      | _ => match parse_line ts with
             | Some (l, r) => Some (SLine l, r)
             | None => None
             end
      end
  end
(* else_if_clause* else_clause? COMMAND_START COMMAND_ENDIF COMMAND_END *)
with parse_clauses (fuel : nat) (ts : list T) {struct fuel} : option (list (expr * list stmt) * list T) :=
  match fuel with
  | O => None
  | S f =>
      match ts with
      | (K_COMMAND_START, _) :: (K_COMMAND_ELSEIF, _) :: r =>
          match parse_expr_span r with
          | Some (c, (K_COMMAND_END, _) :: r1) =>
              match parse_stmts f r1 with
              | Some (b, r2) =>
                  match parse_clauses f r2 with
                  | Some (cs, r3) => Some ((c, b) :: cs, r3)
                  | None => None
                  end
              | None => None
              end
          | _ => None
          end
      | (K_COMMAND_START, _) :: (K_COMMAND_ELSE, _) :: (K_COMMAND_END, _) :: r =>
          match parse_stmts f r with
          | Some (b, (K_COMMAND_START, _) :: (K_COMMAND_ENDIF, _) :: (K_COMMAND_END, _) :: r2) =>
              Some ([(EVal (VBool true), b)], r2)
          | _ => None
          end
      | (K_COMMAND_START, _) :: (K_COMMAND_ENDIF, _) :: (K_COMMAND_END, _) :: r => Some ([], r)
      | _ => None
      end
  end
(* shortcut_option+ : '->' line_statement (INDENT statement* DEDENT)? *)
with parse_options (fuel : nat) (ts : list T) {struct fuel} : option (list (line * list stmt) * list T) :=
  match fuel with
  | O => None
  | S f =>
      match ts with
      | (K_SHORTCUT_ARROW, _) :: r =>
          match parse_line r with
          | Some (l, r1) =>
              let body :=
                match r1 with
                | (K_INDENT, _) :: r2 =>
                    match parse_stmts f r2 with
                    | Some (b, (K_DEDENT, _) :: r3) => Some (b, r3)
                    | _ => None
                    end
                | _ => Some ([], r1)
                end in
              match body with
              | Some (b, r4) =>
                  match r4 with
                  | (K_SHORTCUT_ARROW, _) :: _ =>
                      match parse_options f r4 with
                      | Some (os, r5) => Some ((l, b) :: os, r5)
                      | None => None
                      end
                  | _ => Some ([(l, b)], r4)
                  end
              | None => None
              end
          | None => None
          end
      | _ => None
      end
  end.

(* ---- node, dialogue ---- *)
(* header+ : ID HEADER_DELIMITER REST_OF_LINE? ; Headers is a Go map: the last value of a key stays *)
Fixpoint parse_headers (ts : list T) (acc : alist str) : alist str * list T :=
  match ts with
  | (K_ID, k) :: (K_HEADER_DELIMITER, _) :: (K_REST_OF_LINE, v) :: r => parse_headers r (aset acc k v)
  | (K_ID, k) :: (K_HEADER_DELIMITER, _) :: r => parse_headers r (aset acc k [])
  | _ => (acc, ts)
  end.

Definition stmt_fuel (ts : list T) : nat := 2 * length ts + 4.

(* node: header+ BODY_START body BODY_END *)
Definition parse_node (ts : list T) : option (node * list T) :=
  match ts with
  | (K_ID, _) :: (K_HEADER_DELIMITER, _) :: _ =>
      let '(hs, r) := parse_headers ts [] in
      match r with
      | (K_BODY_START, _) :: r1 =>
          match parse_stmts (stmt_fuel r1) r1 with
          | Some (b, (K_BODY_END, _) :: r2) => Some ({| headers := sort_alist hs; body := b |}, r2)
          | _ => None
          end
      | _ => None
      end
  | _ => None
  end.

Fixpoint parse_nodes (fuel : nat) (ts : list T) : option (list node * list T) :=
  match fuel with
  | O => None
  | S f =>
      match ts with
      | (K_ID, _) :: _ =>
          match parse_node ts with
          | Some (n, r) => match parse_nodes f r with
                           | Some (ns, r2) => Some (n :: ns, r2)
                           | None => None
                           end
          | None => None
          end
      | _ => Some ([], ts)
      end
  end.

(* file_hashtag* *)
Fixpoint skip_file_hashtags (ts : list T) : list T :=
  match ts with
  | (K_HASHTAG, _) :: (K_HASHTAG_TEXT, _) :: r => skip_file_hashtags r
  | _ => ts
  end.

(* dialogue: file_hashtag* node+ ; FromReader also refuses input left after the last node *)
Definition parse_dialogue (ts : list T) : option dialogue :=
  match parse_nodes (S (length ts)) (skip_file_hashtags ts) with
  | Some (n :: ns, [(K_EOF, _)]) => Some (n :: ns)
  | _ => None
  end.

(* tree.FromReader: errors of the lexer refuse the input whatever the parser makes of the tokens *)
Definition from_reader (lexer_errors : Z) (ts : list T) : option dialogue :=
  if Z.eqb lexer_errors 0 then parse_dialogue ts else None.
