From Coq Require Import List NArith ZArith Bool.
From YS Require Import Base.Sexp Syntax.TextLine.
Import ListNotations.

(* (textline "source") -> (line "text" ("tag" ...)) | (none) *)
Definition run_textline_case (args : list sexp) : sexp :=
  match args with
  | [SS src] => match lex_line src with
                | Some (t, tags) => tagged "line" [SS t; SL (map SS tags)]
                | None => tagged "none" []
                end
  | _ => bad "textline: shape"
  end.

(* (esc kind ("tok" ...) "expected" ("tag" ...)) -> (text "rendered text" ("tag" ...)) | (none):
   the whole path of a literal line: TextMode lexing, then the markup phase of the text. *)
From YS Require Import Markup.LineParser.

Definition literal_pipeline (src : str) : option (str * list str) :=
  match lex_line src with
  | Some (t, tags) => match parse_markup t with
                      | Some (txt, _) => Some (txt, tags)
                      | None => None
                      end
  | None => None
  end.

Definition run_esc_case (args : list sexp) : sexp :=
  match args with
  | [_; SL toks; _; _] =>
      match map_opt (fun x => match x with SS s => Some s | _ => None end) toks with
      | Some ts => match literal_pipeline (concat ts) with
                   | Some (t, tags) => tagged "text" [SS t; SL (map SS tags)]
                   | None => tagged "none" []
                   end
      | None => bad "esc: tokens"
      end
  | _ => bad "esc: shape"
  end.
