From Coq Require Import List NArith ZArith Bool.
From YS Require Import Base.Sexp Syntax.TextLine.
Import ListNotations.

(* (textline "source") -> (line "text" ("tag" ...)) | (none) *)
Definition run_textline_case (args : list sexp) : sexp :=
  match args with
  | [SS src] => match lex_line src with
                | Some (t, tags) => tagged "line" [SS t; SL (map SS tags)]
                | None => tagged "none" []
                end
  | _ => bad "textline: shape"
  end.
