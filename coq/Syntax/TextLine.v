(* The generated lexer's treatment of a plain text line of a node body (YarnSpinnerLexer.g4: BodyMode,
   TextMode, TextEscapedMode, TextCommandOrHashtagMode, HashtagMode) together with the listener's
   joining of adjacent TEXT tokens and EnterHashtag.  This is a transcription of the grammar (the
   generated lexer is not verified); scope: lines made of literal text with escapes, trailing
   #hashtags and a trailing comment.  Lines with inline expressions, conditions or commands are out
   of scope (None), like everything that is a syntax error. *)
From Coq Require Import List NArith Bool.
From YS Require Import Base.Sexp.
Import ListNotations.
Local Open Scope N_scope.

Definition is_ws (c : N) : bool := (c =? 32) || (c =? 9).
(* TEXT_ESCAPED_CHARACTER: [\\<>{}#/] *)
Definition escapable (c : N) : bool :=
  (c =? 92) || (c =? 60) || (c =? 62) || (c =? 123) || (c =? 125) || (c =? 35) || (c =? 47).
(* HASHTAG_TEXT: ~[ \t\r\n#$<]+ *)
Definition tag_char (c : N) : bool :=
  negb ((c =? 32) || (c =? 9) || (c =? 13) || (c =? 10) || (c =? 35) || (c =? 36) || (c =? 60)).

Fixpoint skip_ws (s : str) : str :=
  match s with c :: r => if is_ws c then skip_ws r else s | [] => [] end.

Fixpoint take_tag (s : str) (acc : str) : str * str :=
  match s with
  | c :: r => if tag_char c then take_tag r (c :: acc) else (rev acc, s)
  | [] => (rev acc, [])
  end.

(* TextCommandOrHashtagMode / HashtagMode, positioned just after a '#' *)
Fixpoint lex_tags (fuel : nat) (s : str) (tags : list str) : option (list str) :=
  match fuel with
  | O => None
  | S f =>
    match take_tag (skip_ws s) [] with
    | ([], _) => None                                  (* '#' not followed by a tag text *)
    | (tg, r) =>
        match skip_ws r with
        | [] => Some (tags ++ [tg])
        | 35 :: r' => lex_tags f r' (tags ++ [tg])
        | 47 :: 47 :: _ => Some (tags ++ [tg])         (* trailing comment *)
        | _ => None                                    (* TEXT_COMMANDHASHTAG_ERROR, or a command *)
        end
    end
  end.

(* TextMode *)
Fixpoint lex_text (s : str) (acc : str) : option (str * list str) :=
  match s with
  | [] => Some (rev acc, [])
  | c :: r =>
      if c =? 92 then
        match r with
        | [] => None                                              (* a backslash before the line end *)
        | e :: r' =>
            if (e =? 91) || (e =? 93) then lex_text r' (e :: 92 :: acc)   (* TEXT_ESCAPED_MARKUP_BRACKET keeps both *)
            else if escapable e then lex_text r' (e :: acc)               (* TEXT_ESCAPE + TEXT_ESCAPED_CHARACTER *)
            else None                                                      (* UNESCAPABLE_CHARACTER *)
        end
      else if c =? 35 then
        match lex_tags (S (length r)) r [] with
        | Some tags => Some (rev acc, tags)
        | None => None
        end
      else if c =? 123 then None                                  (* an inline expression: out of scope *)
      else if (c =? 60) && match r with e :: _ => e =? 60 | [] => false end then None   (* << : out of scope *)
      else if (c =? 47) && match r with e :: _ => e =? 47 | [] => false end then Some (rev acc, [])  (* TEXT_COMMENT *)
      else if (c =? 13) || (c =? 10) then None
      else lex_text r (c :: acc)
  end.

Fixpoint prefix_b (p s : str) : bool :=
  match p, s with
  | [], _ => true
  | x :: p', y :: s' => (x =? y) && prefix_b p' s'
  | _ :: _, [] => false
  end.

(* BodyMode at the start of a line, then TextMode.  None: not a plain text line (another kind of
   statement, a blank or comment-only line, an inline expression) or a syntax error *)
Fixpoint leading_ws (s : str) (sp tb : bool) : bool * bool :=
  match s with
  | c :: r => if c =? 32 then leading_ws r true tb else if c =? 9 then leading_ws r sp true else (sp, tb)
  | [] => (sp, tb)
  end.

Definition lex_line (src : str) : option (str * list str) :=
  let s := skip_ws src in
  (* the indentation of the line is measured by the indentation-aware wrapper, which refuses a mix
     of tabs and blanks (Syntax/Indent.v) *)
  match leading_ws src false false with
  | (true, true) => None
  | _ =>
  match s with
  | [] => None
  | c :: r =>
      if prefix_b [47; 47] s || prefix_b [61; 61; 61] s || prefix_b [45; 62] s || prefix_b [60; 60] s
         || (c =? 35) || (c =? 123) || (c =? 13) || (c =? 10) then None
      else if c =? 92 then                                        (* ESCAPED_ANY, then TextEscapedMode *)
        match r with
        | e :: r' => if escapable e then lex_text r' [e] else None
        | [] => None
        end
      else lex_text r [c]                                         (* ANY *)
  end
  end.

(* ---- the printer's side: how a literal text is written ---- *)
Definition special (c : N) : bool :=
  (c =? 92) || (c =? 35) || (c =? 123) || (c =? 125) || (c =? 60) || (c =? 47).
Definition esc1 (c : N) : str := if special c then [92; c] else [c].
Definition escape (t : str) : str := flat_map esc1 t.

Fixpoint render_tags (tags : list str) : str :=
  match tags with
  | [] => []
  | t :: r => 32 :: 35 :: t ++ render_tags r
  end.
