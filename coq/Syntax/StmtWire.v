(* (stmtparse "text" (toks <lexer errors> ((type "text") ...)))  ->  (ok <dialogue>) | (err):
   the statement parser model on the tokens the implementation's lexer produced, for comparison with
   tree.FromReader (generated parser + listener). The dialogue is written in the encoding of the
   implementation's dump hook (Yarn/RunnerWire.v reads the same encoding). *)
From Coq Require Import List ZArith Bool.
From YS Require Import Base.Sexp Num.F64 Yarn.Ast Yarn.RunnerWire Syntax.ExprParser Syntax.ExprWire
  Generated.TokenTable Syntax.StmtParser.
Import ListNotations.

Definition enc_setop (o : setop) : sexp :=
  SS (match o with
      | SAssign => STR "=" | SMulEq => STR "*=" | SDivEq => STR "/=" | SModEq => STR "%="
      | SAddEq => STR "+=" | SSubEq => STR "-="
      end).

Definition enc_telem (t : telem) : sexp :=
  match t with
  | TText s => tagged "t" [SS s]
  | TExpr e => tagged "e" [enc_expr e]
  end.

Definition enc_line (l : line) : sexp :=
  tagged "line" [SL (map enc_telem (ltext l));
                 match lcond l with Some c => enc_expr c | None => SL [] end;
                 SL (map SS (ltags l))].

Fixpoint enc_stmt (s : stmt) : sexp :=
  match s with
  | SLine l => enc_line l
  | SOpts os => tagged "opts" (map (fun o => tagged "opt" [enc_line (fst o); SL (map enc_stmt (snd o))]) os)
  | SSet x op e => tagged "set" [SS x; enc_setop op; enc_expr e]
  | SJump e => tagged "jump" [enc_expr e]
  | SIf cs => tagged "if" (map (fun c => tagged "clause" [enc_expr (fst c); SL (map enc_stmt (snd c))]) cs)
  | SCmd es => tagged "cmd" (map enc_expr es)
  | SCall f args => tagged "call" [SS f; SL (map enc_expr args)]
  | SDeclare x e => tagged "declare" [SS x; enc_expr e]
  end.

Definition enc_node (n : node) : sexp :=
  tagged "node" [SL (map (fun h => SL [SS (fst h); SS (snd h)]) (headers n)); SL (map enc_stmt (body n))].

Definition enc_dialogue (d : dialogue) : sexp := SL (map enc_node d).

Definition dec_stok (e : sexp) : option T :=
  match e with
  | SL [SZ n; SS s] => Some (kind_of_type n, s)
  | _ => None
  end.

Definition run_stmtparse_case (args : list sexp) : sexp :=
  match args with
  | _ :: SL [SS t] :: _ => if tag_is t "lexer-panic" then tagged "err" [] else bad "stmtparse: shape"
  | _ :: SL [SS t; SZ lexerrs; SL ts] :: _ =>
      if tag_is t "toks" then
        match map_opt dec_stok ts with
        | Some toks => match from_reader lexerrs toks with
                       | Some d => tagged "ok" [enc_dialogue d]
                       | None => tagged "err" []
                       end
        | None => bad "stmtparse: token"
        end
      else bad "stmtparse: shape"
  | _ => bad "stmtparse: shape"
  end.
