(* The expression rule of the ANTLR-generated parser (internal/parser/yarnspinner_parser.go,
   func (p *YarnSpinnerParser) expression(_p int)) as a function on token lists, together with the
   tree the listener builds for each alternative (internal/tree/parser_listener.go: parentheses
   leave no node; '-' e is NegativeExpression; not e is NotExpression; a binary alternative is
   LeftOperand/Operator/RightOperand; null is the empty expression).

   ANTLR rewrites the left-recursive rule into  primary (op expression[k'])*  guarded by precedence
   predicates p.Precpred(ctx, k), i.e. k >= _p; the generated code is exactly that loop, with the
   decision "continue or leave the loop" taken by AdaptivePredict, which evaluates the predicates.
   The model takes the decision the predicates prescribe (precedence climbing): continue with
   alternative `op` iff the next token is an operator of that alternative and its level is >= _p.
   That AdaptivePredict decides so is the modelled part (family exprparse compares this parser with
   the implementation's on every run); the levels themselves are not written here - they come from
   Generated/ExprTable.v, which tools/gen_exprtable.py extracts from the Go source on every run.

   Tokens are those of the expression mode after the lexer: operators are identified with the tree
   operator they denote (the '-' token is TOp OSub in both of its roles), literals and variables are
   atoms carrying their value (spelling of literals is the lexer's business, not modelled here). *)
From Coq Require Import List Arith Bool.
From YS Require Import Base.Sexp Num.F64 Yarn.Ast Generated.ExprTable.
Import ListNotations.

Inductive atom := AVal (v : value) | AVar (x : str) | ANull.
Inductive tok := TLP | TRP | TComma | TNot | TOp (o : binop) | TAtom (a : atom) | TFunc (f : str).

Definition expr_of_atom (a : atom) : expr :=
  match a with AVal v => EVal v | AVar x => EVar x | ANull => ENull end.

Section Parser.
  (* level of the precedence predicate of an operator's alternative, precedence of its right operand,
     operand precedence of '-' and of not *)
  Variables (lvl rprec : binop -> nat) (negp notp : nat).

  Fixpoint parse_expr (fuel p : nat) (ts : list tok) {struct fuel} : option (expr * list tok) :=
    match fuel with
    | O => None
    | S f => match parse_primary f ts with
             | Some (lhs, r) => parse_loop f p lhs r
             | None => None
             end
    end
  (* the switch on LA(1) before the loop *)
  with parse_primary (fuel : nat) (ts : list tok) {struct fuel} : option (expr * list tok) :=
    match fuel with
    | O => None
    | S f =>
        match ts with
        | TLP :: r => match parse_expr f 0 r with
                      | Some (e, TRP :: r2) => Some (e, r2)
                      | _ => None
                      end
        | TOp OSub :: r => match parse_expr f negp r with
                           | Some (e, r2) => Some (ENeg e, r2)
                           | None => None
                           end
        | TNot :: r => match parse_expr f notp r with
                       | Some (e, r2) => Some (ENot e, r2)
                       | None => None
                       end
        | TAtom a :: r => Some (expr_of_atom a, r)
        | TFunc fn :: TLP :: r => match parse_args f true r with
                                  | Some (args, r2) => Some (ECall fn args, r2)
                                  | None => None
                                  end
        | _ => None
        end
    end
  (* the (op expression)* loop: alternative of `o` iff Precpred(level o), i.e. p <= level o *)
  with parse_loop (fuel p : nat) (lhs : expr) (ts : list tok) {struct fuel} : option (expr * list tok) :=
    match fuel with
    | O => None
    | S f =>
        match ts with
        | TOp o :: r =>
            if p <=? lvl o then
              match parse_expr f (rprec o) r with
              | Some (rhs, r2) => parse_loop f p (EBin o lhs rhs) r2
              | None => None
              end
            else Some (lhs, ts)
        | _ => Some (lhs, ts)
        end
    end
  (* function_call after FUNC_ID '(' :  expression? (COMMA expression)* ')' *)
  with parse_args (fuel : nat) (first : bool) (ts : list tok) {struct fuel} : option (list expr * list tok) :=
    match fuel with
    | O => None
    | S f =>
        match ts with
        | TRP :: r => Some ([], r)
        | TComma :: r => match parse_expr f 0 r with
                         | Some (e, r2) => match parse_args f false r2 with
                                           | Some (es, r3) => Some (e :: es, r3)
                                           | None => None
                                           end
                         | None => None
                         end
        | _ => if first then
                 match parse_expr f 0 ts with
                 | Some (e, r2) => match parse_args f false r2 with
                                   | Some (es, r3) => Some (e :: es, r3)
                                   | None => None
                                   end
                 | None => None
                 end
               else None
        end
    end.
End Parser.

(* ---- the instance for the generated table ---- *)
Definition binop_eqb (a b : binop) : bool :=
  match a, b with
  | OMul, OMul | ODiv, ODiv | OMod, OMod | OAdd, OAdd | OSub, OSub | OLe, OLe | OGe, OGe | OLt, OLt
  | OGt, OGt | OEq, OEq | ONe, ONe | OAnd, OAnd | OOr, OOr | OXor, OXor => true
  | _, _ => false
  end.

Fixpoint row_of (o : binop) (rows : list (binop * nat * nat)) : nat * nat :=
  match rows with
  | [] => (0, 0)
  | (o', l, r) :: rest => if binop_eqb o o' then (l, r) else row_of o rest
  end.

Definition level (o : binop) : nat := fst (row_of o binop_rows).
Definition right_prec (o : binop) : nat := snd (row_of o binop_rows).

Definition ys_parse_expr := parse_expr level right_prec neg_operand_prec not_operand_prec.

(* a whole expression: everything must be consumed; fuel 2n+2 suffices for n tokens (every call
   consumes a token or is followed by one that does) - the theorems are stated for all sufficient fuel *)
Definition parse_expression (ts : list tok) : option expr :=
  match ys_parse_expr (4 * length ts + 4) 0 ts with
  | Some (e, []) => Some e
  | _ => None
  end.
