(* Model of internal/parser/indent_aware_lexer.go: the NextToken protocol with its pendingTokens ring
   buffer and indents stack, over an abstract base-token stream.

   Base tokens as the wrapper sees them:
     BNL text skip  a NEWLINE-typed token with its text; [skip] = the characters that follow it in
                    the input start a blank or comment-only line (or the end of input) - after the
                    repair of D9 such a newline never changes the indentation level;
     BOther ty      any other token (only its type matters to the wrapper);
   after the listed tokens the base lexer returns EOF, again on every later call.
   The model keeps token types only; INDENT/DEDENT carry no payload the parser looks at. *)
From Coq Require Import List NArith ZArith Arith Bool.
From Coq Require String.
Import String.StringSyntax.
From YS Require Import Base.Sexp Container.Queue.
Import ListNotations.

Inductive btok := BNL (text : str) (skip : bool) | BOther (ty : N).
Inductive tok := TNL | TIndent | TDedent | TOther (ty : N) | TEOF.

(* getLengthOfNewlineToken: None = panic("Indentation contains tabs and spaces") *)
Fixpoint nl_scan (text : str) (len : nat) (spaces tabs : bool) : nat * bool * bool :=
  match text with
  | [] => (len, spaces, tabs)
  | c :: r => if N.eqb c 32 then nl_scan r (len + 1) true tabs
              else if N.eqb c 9 then nl_scan r (len + 8) spaces true
              else nl_scan r len spaces tabs
  end.

Definition nl_length (text : str) : option nat :=
  match nl_scan text 0 false false with
  | (len, true, true) => None
  | (len, _, _) => Some len
  end.

(* the dedent loop of handleNewLineToken; [st] has the innermost indentation first *)
Fixpoint dedents (cur : nat) (st : list nat) : list tok * list nat :=
  match st with
  | [] => ([], [])
  | top :: rest => if cur <? top
                   then let (ts, st') := dedents cur rest in (TDedent :: ts, st')
                   else ([], st)
  end.

Definition on_newline (cur : nat) (st : list nat) : list tok * list nat :=
  let prev := hd 0 st in
  if prev <? cur then ([TIndent], cur :: st)
  else if cur <? prev then dedents cur st
  else ([], st).

(* handleEndOfFileToken *)
Definition handle_eof (st : list nat) : list tok * list nat :=
  (map (fun _ => TDedent) st ++ [TEOF], []).

(* tokens enqueued for one base token, and the new indents; None = panic *)
Definition handle (b : btok) (st : list nat) : option (list tok * list nat) :=
  match b with
  | BNL text skip =>
      if skip then Some ([TNL], st)
      else match nl_length text with
           | None => None
           | Some cur => let (out, st') := on_newline cur st in Some (TNL :: out, st')
           end
  | BOther ty => Some ([TOther ty], st)
  end.

(* ---- the NextToken protocol ---- *)
Record lstate := { lbase : list btok; pending : queue tok; indents : list nat;
                   empty_input : bool; hit_eof : bool }.

Definition linit (empty : bool) (ts : list btok) : lstate :=
  {| lbase := ts; pending := empty_q; indents := []; empty_input := empty; hit_eof := false |}.

Inductive lres := LTok (t : tok) | LNil | LPanic.

Definition enqueue_all (q : queue tok) (ts : list tok) : queue tok :=
  fold_left (enqueue TEOF) ts q.

Definition next_token (s : lstate) : lres * lstate :=
  let deq (s : lstate) :=
    match dequeue TEOF (pending s) with
    | Some (t, q') => (LTok t, {| lbase := lbase s; pending := q'; indents := indents s;
                                  empty_input := empty_input s; hit_eof := hit_eof s |})
    | None => (LPanic, s)
    end in
  if hit_eof s && (Z.ltb 0 (size (pending s))) then deq s
  else if empty_input s then
    (LTok TEOF, {| lbase := lbase s; pending := pending s; indents := indents s;
                   empty_input := true; hit_eof := true |})
  else
    let (h, rest) := match lbase s with
                     | [] => (Some (handle_eof (indents s)), [])
                     | b :: r => (handle b (indents s), r)
                     end in
    match h with
    | None => (LPanic, s)
    | Some (out, st') =>
        let s1 := {| lbase := rest; pending := enqueue_all (pending s) out; indents := st';
                     empty_input := false; hit_eof := hit_eof s |} in
        if (Z.ltb 0 (size (pending s1))) then deq s1 else (LNil, s1)
    end.

(* what a token stream (antlr.CommonTokenStream) pulls: tokens up to and including the first EOF.
   None = panic, nil token or fuel exhausted *)
Fixpoint pull (fuel : nat) (s : lstate) : option (list tok) :=
  match fuel with
  | O => None
  | S f => match next_token s with
           | (LTok TEOF, _) => Some [TEOF]
           | (LTok t, s') => option_map (cons t) (pull f s')
           | (_, _) => None
           end
  end.

(* ---- list-level description of the same stream ---- *)
Fixpoint wrap (ts : list btok) (st : list nat) : option (list tok) :=
  match ts with
  | [] => Some (fst (handle_eof st))
  | b :: r => match handle b st with
              | None => None
              | Some (out, st') => option_map (app out) (wrap r st')
              end
  end.

Definition is_indent t := match t with TIndent => true | _ => false end.
Definition is_dedent t := match t with TDedent => true | _ => false end.
Definition is_eof t := match t with TEOF => true | _ => false end.
Definition count (k : tok -> bool) (l : list tok) : nat := length (filter k l).

(* prefix-wise: never more DEDENT than INDENT *)
Fixpoint never_overclosed (depth : nat) (l : list tok) : bool :=
  match l with
  | [] => true
  | TIndent :: r => never_overclosed (S depth) r
  | TDedent :: r => match depth with O => false | S d => never_overclosed d r end
  | _ :: r => never_overclosed depth r
  end.

(* ---- wire format ---- *)
Local Open Scope string_scope.
Definition tok_code (t : tok) : sexp :=
  match t with
  | TNL => SZ 6%Z | TIndent => SZ 1 | TDedent => SZ 2 | TOther ty => SZ (Z.of_N ty) | TEOF => SZ (-1)
  end.

Definition dec_btok (e : sexp) : option btok :=
  match e with
  | SL [SS t; SS text; sk] => if tag_is t "nl" then option_map (BNL text) (as_bool sk) else None
  | SL [SS t; SZ ty] => if tag_is t "t" then Some (BOther (Z.to_N ty)) else None
  | _ => None
  end.

(* case: (indent <empty-input 0|1> (btok ...))  ->  (toks code ...) | (PANIC) *)
Definition run_indent_case (args : list sexp) : sexp :=
  match args with
  | em :: SL bs :: _ =>
      match as_bool em, map_opt dec_btok bs with
      | Some em, Some bs =>
          match pull (3 * length bs + 3) (linit em bs) with
          | Some out => tagged "toks" (map tok_code out)
          | None => tagged "PANIC" []
          end
      | _, _ => bad "indent: decode"
      end
  | _ => bad "indent: shape"
  end.
