(* C04 (lexing part): a literal text written with the printer's escapes is read back exactly,
   whatever its characters and wherever they stand in the line; tags are returned in order, without
   the '#', and never appear in the text; a trailing comment disappears. *)
From Coq Require Import List NArith Bool Lia.
From YS Require Import Base.Sexp Syntax.TextLine.
Import ListNotations.
Local Open Scope N_scope.

Definition no_newline (t : str) : Prop := forallb (fun c => negb ((c =? 13) || (c =? 10))) t = true.

Lemma special_escapable c : special c = true -> escapable c = true.
Proof.
  unfold special, escapable. intros H. repeat (apply orb_true_iff in H; destruct H as [H|H]);
    rewrite H; repeat rewrite orb_true_r; reflexivity.
Qed.

Lemma special_not_bracket c : special c = true -> (c =? 91) || (c =? 93) = false.
Proof.
  unfold special. intros H. repeat (apply orb_true_iff in H; destruct H as [H|H]);
    apply N.eqb_eq in H; subst; reflexivity.
Qed.

(* one character of the text, escaped or not, is one character of the result *)
Lemma lex_text_step c rest_ acc : (c =? 13) || (c =? 10) = false ->
  lex_text (esc1 c ++ rest_) acc = lex_text rest_ (c :: acc).
Proof.
  intros Hn. unfold esc1. destruct (special c) eqn:Es.
  - cbn [app lex_text]. rewrite N.eqb_refl. rewrite (special_not_bracket c Es), (special_escapable c Es). reflexivity.
  - cbn [app lex_text]. unfold special in Es.
    repeat (apply orb_false_iff in Es; destruct Es as [Es ?]).
    repeat match goal with H : (_ =? _) = false |- _ => rewrite H; clear H end.
    rewrite Hn. cbn [andb]. reflexivity.
Qed.

Lemma lex_text_escape t : forall rest_ acc, no_newline t ->
  lex_text (escape t ++ rest_) acc = lex_text rest_ (rev t ++ acc).
Proof.
  unfold escape. induction t as [|c t IH]; intros rest_ acc Hn; [reflexivity|].
  unfold no_newline in Hn. cbn [forallb] in Hn. apply andb_true_iff in Hn as [Hc Ht]. apply negb_true_iff in Hc.
  cbn [flat_map]. rewrite <- app_assoc. rewrite (lex_text_step c _ acc Hc).
  rewrite (IH rest_ (c :: acc) Ht). cbn [rev]. rewrite <- app_assoc. reflexivity.
Qed.

(* ---- tags ---- *)
Definition good_tag (t : str) : Prop := t <> [] /\ forallb tag_char t = true.

Lemma take_tag_good t : forall rest_ acc, forallb tag_char t = true ->
  (match rest_ with c :: _ => tag_char c = false | [] => True end) ->
  take_tag (t ++ rest_) acc = (rev acc ++ t, rest_).
Proof.
  induction t as [|c t IH]; intros rest_ acc Ht Hr.
  - cbn [app]. destruct rest_ as [|c r]; cbn [take_tag]; [rewrite app_nil_r; reflexivity|].
    rewrite Hr. rewrite app_nil_r. reflexivity.
  - cbn [forallb] in Ht. apply andb_true_iff in Ht as [Hc Ht]. cbn [app take_tag]. rewrite Hc.
    rewrite (IH rest_ (c :: acc) Ht Hr). cbn [rev]. rewrite <- app_assoc. reflexivity.
Qed.

Lemma tag_char_not_ws c : tag_char c = true -> is_ws c = false.
Proof.
  unfold tag_char, is_ws. intros H. apply negb_true_iff in H.
  repeat (apply orb_false_iff in H; destruct H as [H ?]).
  repeat match goal with H : (_ =? _) = false |- _ => rewrite H; clear H end. reflexivity.
Qed.

Lemma skip_ws_good t rest_ : good_tag t -> skip_ws (t ++ rest_) = t ++ rest_.
Proof.
  intros [Hne Ht]. destruct t as [|c t]; [contradiction|]. cbn [forallb] in Ht.
  apply andb_true_iff in Ht as [Hc _]. cbn [app skip_ws]. rewrite (tag_char_not_ws c Hc). reflexivity.
Qed.

Lemma lex_tags_render : forall tags fuel t0 done_,
  good_tag t0 -> Forall good_tag tags -> (length tags < fuel)%nat ->
  lex_tags fuel (t0 ++ render_tags tags) done_ = Some (done_ ++ t0 :: tags).
Proof.
  induction tags as [|t1 tags IH]; intros fuel t0 done_ H0 Hts Hf.
  - destruct fuel; [lia|]. cbn [render_tags lex_tags]. rewrite app_nil_r.
    pose proof (skip_ws_good t0 [] H0) as Hs. rewrite app_nil_r in Hs. rewrite Hs.
    pose proof (take_tag_good t0 [] [] (proj2 H0) I) as Ht. rewrite app_nil_r in Ht. rewrite Ht. cbn [rev app].
    destruct t0 as [|c t0']; [destruct H0; contradiction|]. cbn [skip_ws]. reflexivity.
  - destruct fuel; [cbn in Hf; lia|]. inversion Hts as [|? ? H1 Hts']; subst.
    cbn [render_tags lex_tags]. rewrite (skip_ws_good t0 _ H0).
    rewrite (take_tag_good t0 (32 :: 35 :: t1 ++ render_tags tags) [] (proj2 H0)) by reflexivity.
    cbn [rev app]. destruct t0 as [|c t0']; [destruct H0; contradiction|].
    cbn [skip_ws]. change (is_ws 32) with true. cbn iota. cbn [skip_ws]. change (is_ws 35) with false. cbn iota.
    rewrite (IH fuel t1 (done_ ++ [c :: t0']) H1 Hts') by (cbn in Hf; lia).
    rewrite <- app_assoc. reflexivity.
Qed.

(* ---- whole lines ---- *)
(* texts that can be the literal part of a line: something to show, no line break, and a first
   character that is not a blank (leading blanks are skipped by the lexer) and cannot start another
   kind of statement.  For simplicity every text starting with '-' or '=' is excluded here, although
   only "->" and "===" start something else; the correspondence family covers those. *)
Definition line_text_ok (t : str) : Prop :=
  no_newline t /\
  match t with
  | [] => False
  | c :: _ => is_ws c = false /\ (c =? 45) = false /\ (c =? 61) = false
  end.

Lemma lex_line_backslash e r : escapable e = true -> lex_line (92 :: e :: r) = lex_text r [e].
Proof.
  intros H. unfold lex_line. change (leading_ws (92 :: e :: r) false false) with (false, false).
  change (skip_ws (92 :: e :: r)) with (92 :: e :: r). cbv beta iota.
  change (prefix_b [47; 47] (92 :: e :: r)) with false.
  change (prefix_b [61; 61; 61] (92 :: e :: r)) with false.
  change (prefix_b [45; 62] (92 :: e :: r)) with false.
  change (prefix_b [60; 60] (92 :: e :: r)) with false.
  change (92 =? 35) with false. change (92 =? 123) with false. change (92 =? 13) with false.
  change (92 =? 10) with false. change (92 =? 92) with true. cbn [orb]. rewrite H. reflexivity.
Qed.

Lemma lex_line_escape t rest_ : line_text_ok t ->
  lex_line (escape t ++ rest_) = lex_text rest_ (rev t).
Proof.
  intros (Hn & Hc). destruct t as [|c t]; [contradiction|]. destruct Hc as (Hc & Hm & He).
  unfold no_newline in Hn. cbn [forallb] in Hn. apply andb_true_iff in Hn as [Hcn Htn]. apply negb_true_iff in Hcn.
  apply orb_false_iff in Hcn as [Hc13 Hc10].
  cbn [escape flat_map]. change (flat_map esc1 t) with (escape t). unfold esc1. destruct (special c) eqn:Es.
  - (* the first character is written escaped: ESCAPED_ANY *)
    cbn [app]. rewrite (lex_line_backslash c _ (special_escapable c Es)).
    rewrite (lex_text_escape t rest_ [c] Htn). cbn [rev]. reflexivity.
  - (* written as it is: ANY *)
    unfold lex_line. cbn [app skip_ws leading_ws]. rewrite Hc.
    assert (Hl : (c =? 32) = false /\ (c =? 9) = false) by (unfold is_ws in Hc; apply orb_false_iff in Hc; exact Hc).
    destruct Hl as [Hl1 Hl2]. rewrite Hl1, Hl2.
    unfold special in Es. repeat (apply orb_false_iff in Es; destruct Es as [Es ?]).
    cbn [prefix_b]. rewrite (N.eqb_sym 47 c), (N.eqb_sym 61 c), (N.eqb_sym 45 c), (N.eqb_sym 60 c).
    repeat match goal with H : (c =? _) = false |- _ => rewrite H; clear H end.
    cbn [andb orb].
    rewrite (lex_text_escape t rest_ [c] Htn). cbn [rev]. reflexivity.
Qed.

(* ---- the theorems ---- *)
(* literal text: every character, escaped by the printer or not, at the first position or later *)
Theorem text_roundtrip t : line_text_ok t -> lex_line (escape t) = Some (t, []).
Proof.
  intros H. rewrite <- (app_nil_r (escape t)). rewrite (lex_line_escape t [] H). cbn [lex_text].
  rewrite rev_involutive. reflexivity.
Qed.

(* text followed by tags: the tags come back in order, without '#', and are not in the text *)
Theorem text_tags_roundtrip t t0 tags : line_text_ok t -> good_tag t0 -> Forall good_tag tags ->
  lex_line (escape t ++ 35 :: t0 ++ render_tags tags) = Some (t, t0 :: tags).
Proof.
  intros H H0 Hts. rewrite (lex_line_escape t _ H). cbn [lex_text].
  change (35 =? 92) with false. change (35 =? 35) with true. cbv iota.
  rewrite (lex_tags_render tags _ t0 [] H0 Hts).
  - rewrite rev_involutive. reflexivity.
  - rewrite app_length. assert (L : forall l, (length l <= length (render_tags l))%nat).
    { induction l as [|x l IHl]; cbn [render_tags length]; [lia|]. rewrite app_length. lia. }
    specialize (L tags). lia.
Qed.

(* a trailing comment never reaches the text *)
Theorem comment_removed t cm : line_text_ok t -> no_newline cm ->
  lex_line (escape t ++ 47 :: 47 :: cm) = Some (t, []).
Proof.
  intros H _. rewrite (lex_line_escape t _ H). cbn [lex_text].
  change (47 =? 92) with false. change (47 =? 35) with false. change (47 =? 123) with false.
  change (47 =? 60) with false. change (47 =? 47) with true. cbn [andb]. rewrite rev_involutive. reflexivity.
Qed.

(* optional escapes give the same text: '>' and '}' may be written with or without a backslash *)
Theorem optional_escape_same c rest_ acc : (c =? 62) || (c =? 125) = true ->
  lex_text (92 :: c :: rest_) acc = lex_text (c :: rest_) acc.
Proof.
  intros H. apply orb_true_iff in H as [H|H]; apply N.eqb_eq in H; subst; reflexivity.
Qed.

(* known finding D21: an escaped markup bracket is fine inside a line, a syntax error at its start *)
Example first_char_bracket_refuted :
  lex_line [97; 92; 91; 98; 92; 93] = Some ([97; 92; 91; 98; 92; 93], []) /\ lex_line [92; 91; 98; 92; 93] = None.
Proof. split; reflexivity. Qed.
