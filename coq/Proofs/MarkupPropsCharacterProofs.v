(* C13: the implicit character attribute in documents with typed properties and self-closing markers
   (the documents of Proofs/MarkupPropsProofs.v). *)
From Coq Require Import List ZArith NArith Lia Bool.
From YS Require Import Base.Sexp Yarn.Value Markup.LineParser Proofs.MarkupProofs Proofs.MarkupPropsProofs.
Require YS.Proofs.MarkupCharacterProofs.
Module CP := YS.Proofs.MarkupCharacterProofs.
Import ListNotations.
Local Open Scope Z_scope.

Theorem document_with_character_prefix its n t :
  Forall item_ok its -> selfs_ok its [] ->
  text its = n ++ 58%N :: t -> forallb CP.no_colon n = true ->
  no_edge_space (text its) ->
  (forall encl e, enclosed its [] [] = Some encl -> In e encl -> str_eqb (ename e) (STR "character") = false) ->
  match enclosed its [] [] with
  | Some encl =>
      exists attrs, parse_markup (render its) =
          Some (text its, attrs ++ [{| aname := STR "character"; apos := 0;
                                       alen := Z.of_nat (S (length n) + count_re_space t); asrc := 0;
                                       aprops := [(STR "name", MStr (trim_space n))] |}]) /\
        length attrs = length encl /\
        (forall e, In e encl -> exists a, In a attrs /\ aname a = ename e /\ aprops a = props_map (eprops e) /\
                                          text_for_attribute (text its) a = Some (snd e)) /\
        (forall a, In a attrs -> exists e, In e encl /\ aname a = ename e /\ aprops a = props_map (eprops e) /\
                                           text_for_attribute (text its) a = Some (snd e))
  | None => parse_markup (render its) = None
  end.
Proof.
  intros Hok Hso HT Hcolon (Ht1 & Ht2) Hnochar. set (T := text its) in *.
  destruct (main_loop_items its [] (S (length (render its))) 0 [] 0 [] 0%N Hok Hso) as (p' & last' & ms' & Hms & Eml).
  { rewrite app_nil_r. lia. }
  rewrite app_nil_r in Eml.
  assert (Eml' : main_loop (S (length (render its))) {| rest := render its; sp := 0 |} [] 0 [] 0%N = Some (text its, ms')).
  { rewrite Eml. cbn [length main_loop rest app]. rewrite app_nil_r, rev_involutive. reflexivity. }
  clear Eml. rename Eml' into Eml.
  pose proof (build_attrs_enclosed its [] ms' [] [] [] [] Hok Hms (Forall2_nil _) (Forall2_nil _)) as Hb.
  cbn [app] in Hb. fold T in Hb.
  unfold parse_markup. rewrite Eml.
  destruct (enclosed its [] []) as [encl|]; [|rewrite Hb; reflexivity].
  specialize (Hnochar encl).
  destruct Hb as (attrs0 & Eb & Frel). rewrite Eb. cbv zeta.
  assert (Hex : existsb (fun a => str_eqb (aname a) (STR "character")) (sort_attrs attrs0) = false).
  { apply not_true_is_false. intro H. apply existsb_exists in H as (a & Ha & Hn).
    apply (proj1 (In_sort _ _)) in Ha. destruct (Forall2_In_l _ _ _ _ Frel Ha) as (e & He & (N1 & _)).
    rewrite N1, (Hnochar e eq_refl He) in Hn. discriminate. }
  rewrite Hex. fold T.
  assert (Hfc : find_colon T 0 = Some (length n, (S (length n) + count_re_space t)%nat)).
  { rewrite HT. rewrite CP.find_colon_first by exact Hcolon. reflexivity. }
  rewrite Hfc.
  assert (Etrim : trim_space T = T) by (unfold trim_space; rewrite Ht1, Ht2; apply rev_involutive).
  rewrite Etrim, Ht1.
  match goal with |- exists attrs, Some (T, map ?adj _) = _ /\ _ => set (adjust := adj) end.
  assert (Hadj : forall a e, arel T a e -> adjust a = a).
  { intros a e (_ & _ & q & Hp & Hl & Hbd & _). unfold adjust, clampz. destruct a as [nm ps ln sr pr]. cbn [apos alen aname asrc aprops] in *.
    f_equal; lia. }
  assert (Hmap : map adjust (sort_attrs attrs0) = sort_attrs attrs0).
  { rewrite <- (map_id (sort_attrs attrs0)) at 2. apply map_ext_in. intros a Ha. apply (proj1 (In_sort _ _)) in Ha.
    destruct (Forall2_In_l _ _ _ _ Frel Ha) as (e & _ & Hr). exact (Hadj a e Hr). }
  rewrite map_app, Hmap. exists (sort_attrs attrs0). split.
  { f_equal. f_equal. f_equal. cbn [map]. f_equal. unfold adjust, clampz. cbn [aname apos alen asrc aprops].
    assert (Hfn : firstn (length n) T = n).
    { rewrite HT. rewrite firstn_app, firstn_all, Nat.sub_diag. cbn [firstn]. apply app_nil_r. }
    rewrite Hfn.
    pose proof (CP.count_re_space_le t) as Hle.
    assert (HL : length T = (length n + S (length t))%nat) by (rewrite HT, app_length; reflexivity).
    rewrite HL. f_equal; lia. }
  split.
  - rewrite sort_length. exact (Forall2_len _ _ _ Frel).
  - split.
    + intros e He. destruct (Forall2_In_r _ _ _ _ Frel He) as (a & Ha & Hr). exists a. split; [apply (proj2 (In_sort _ _)); exact Ha|].
      destruct Hr as (N1 & N2 & Hq). split; [exact N1|]. split; [exact N2|]. apply arel_text_for. exact (conj N1 (conj N2 Hq)).
    + intros a Ha. apply (proj1 (In_sort _ _)) in Ha. destruct (Forall2_In_l _ _ _ _ Frel Ha) as (e & He & Hr). exists e. split; [exact He|].
      destruct Hr as (N1 & N2 & Hq). split; [exact N1|]. split; [exact N2|]. apply arel_text_for. exact (conj N1 (conj N2 Hq)).
Qed.
