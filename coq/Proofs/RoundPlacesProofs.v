(* C19, round_places(x, n) = math.Round(x * 10^n) / 10^n in binary64 (base_functions.go, roundPlaces).
   The strict contract "within half a unit of the n-th decimal place" is false in binary64 (known
   finding D23); what holds for every finite x and every scale 10^n that is exact in binary64
   (0 <= n <= 22) is the envelope
        |round_places(x, n) - x|  <=  (1/2) 10^-n (1 + u)  +  |x| (2u + u^2)  +  3 eta,
   u = 2^-53 (one rounding of the product, one of the quotient), eta = 2^-1075 (subnormal results). *)
From Coq Require Import ZArith Reals Lia Lra List Bool Psatz.
From Flocq Require Import Core Relative BinarySingleNaN.
From YS Require Import Base.Sexp Num.F64 Num.Decimal Yarn.Ast Yarn.Value Yarn.Eval Proofs.BuiltinProofs Proofs.DecimalPartProofs Proofs.WaitProofs.
Import ListNotations.
Local Open Scope R_scope.

Local Notation fexp := (FLT_exp (3 - emax - prec) prec).
Local Notation rnd := (round radix2 fexp (round_mode mode_NE)).

Definition u : R := / 2 * bpow radix2 (- prec + 1).
Definition eta : R := / 2 * bpow radix2 (3 - emax - prec).

Lemma u_pos : 0 < u.
Proof. unfold u. apply Rmult_lt_0_compat; [lra|apply bpow_gt_0]. Qed.
Lemma u_lt_1 : u < 1.
Proof.
  unfold u. assert (bpow radix2 (- prec + 1) < 1) by (change 1 with (bpow radix2 0); apply bpow_lt; unfold prec; lia).
  pose proof (bpow_gt_0 radix2 (- prec + 1)). lra.
Qed.
Lemma eta_pos : 0 < eta.
Proof. unfold eta. apply Rmult_lt_0_compat; [lra|apply bpow_gt_0]. Qed.
Lemma eta_lt_1 : eta < 1.
Proof.
  unfold eta. assert (bpow radix2 (3 - emax - prec) < 1) by (change 1 with (bpow radix2 0); apply bpow_lt; unfold emax, prec; lia).
  pose proof (bpow_gt_0 radix2 (3 - emax - prec)). lra.
Qed.

(* one rounding: r(1+e) + h *)
Lemma rnd_error (r : R) : Rabs (rnd r - r) <= Rabs r * u + eta.
Proof.
  destruct (error_N_FLT radix2 (3 - emax - prec) prec Hprec (fun z => negb (Z.even z)) r) as (e & h & He & Hh & _ & E).
  unfold round_mode. rewrite E. replace (r * (1 + e) + h - r) with (r * e + h) by ring.
  apply Rle_trans with (1 := Rabs_triang _ _). rewrite Rabs_mult. fold u in He. fold eta in Hh.
  pose proof (Rabs_pos r). nra.
Qed.

Lemma rnd_bpow k : (3 - emax - prec <= k)%Z -> rnd (bpow radix2 k) = bpow radix2 k.
Proof.
  intros H. apply round_generic; [apply valid_rnd_N|]. apply generic_format_bpow. unfold FLT_exp. unfold emax, prec in *. lia.
Qed.

Lemma rnd_abs_le r k : (3 - emax - prec <= k)%Z -> Rabs r <= bpow radix2 k -> Rabs (rnd r) <= bpow radix2 k.
Proof.
  intros Hk H. apply Rabs_le. apply Rabs_le_inv in H. destruct H as [H1 H2]. split.
  - rewrite <- (rnd_bpow k Hk). rewrite <- round_NE_opp. apply rnd_mono. exact H1.
  - rewrite <- (rnd_bpow k Hk). apply rnd_mono. exact H2.
Qed.

(* the general statement: any scale t holding a positive integer p exactly *)
Theorem scaled_round_envelope (x t : f64) (p : Z) :
  is_finite x = true -> is_finite t = true -> B2R t = IZR p -> (1 <= p)%Z ->
  Rabs (B2R x) * IZR p <= bpow radix2 1000 ->
  let q := fdiv (fround (fmul x t)) t in
  is_finite q = true /\
  Rabs (B2R q - B2R x) <= / 2 / IZR p * (1 + u) + Rabs (B2R x) * (2 * u + u * u) + 3 * eta.
Proof.
  intros Fx Ft Et Hp Hb q.
  set (X := B2R x) in *. set (P := IZR p) in *.
  assert (P1 : 1 <= P) by (unfold P; apply IZR_le; exact Hp).
  assert (Ppos : 0 < P) by lra.
  (* the product *)
  pose proof (Bmult_correct prec emax Hprec Hmax mode_NE x t) as HM. rewrite Et in HM. fold X P in HM.
  assert (Bm : Rabs (rnd (X * P)) <= bpow radix2 1000).
  { apply rnd_abs_le; [unfold emax, prec; lia|]. rewrite Rabs_mult, (Rabs_pos_eq P) by lra. exact Hb. }
  rewrite Rlt_bool_true in HM by (apply Rle_lt_trans with (1 := Bm); apply bpow_lt; unfold emax; lia).
  destruct HM as (Mv0 & Mf & _). rewrite Fx, Ft in Mf. cbn [andb] in Mf.
  assert (Mv : B2R (fmul x t) = rnd (X * P)) by exact Mv0. clear Mv0.
  fold (fmul x t) in Mf. set (m := fmul x t) in *.
  pose proof (rnd_error (X * P)) as Em. rewrite <- Mv in Em.
  rewrite Rabs_mult, (Rabs_pos_eq P) in Em by lra.
  (* math.Round *)
  pose proof (round_spec m) as Er. unfold R_of in Er.
  assert (Rf : is_finite (fround m) = true) by (unfold fround; rewrite nearbyint_finite; exact Mf).
  set (r := fround m) in *.
  assert (Rm : Rabs (B2R r) <= bpow radix2 1000 + / 2).
  { replace (B2R r) with ((B2R r - B2R m) + B2R m) by ring. apply Rle_trans with (1 := Rabs_triang _ _).
    rewrite <- Mv in Bm. lra. }
  (* the quotient *)
  assert (Tz : B2R t <> 0) by (rewrite Et; fold P; lra).
  pose proof (Bdiv_correct prec emax Hprec Hmax mode_NE r t Tz) as HD. rewrite Et in HD. fold P in HD.
  assert (Bq : Rabs (B2R r / P) <= bpow radix2 1001).
  { unfold Rdiv. rewrite Rabs_mult, Rabs_inv, (Rabs_pos_eq P) by lra.
    apply Rle_trans with (Rabs (B2R r) * 1).
    - apply Rmult_le_compat_l; [apply Rabs_pos|]. rewrite <- Rinv_1. apply Rinv_le; lra.
    - rewrite Rmult_1_r. apply Rle_trans with (1 := Rm).
      replace (bpow radix2 1001) with (2 * bpow radix2 1000) by (change 1001%Z with (1 + 1000)%Z; rewrite bpow_plus; reflexivity).
      assert (1 <= bpow radix2 1000) by (change 1 with (bpow radix2 0); apply bpow_le; lia). lra. }
  assert (Bq' : Rabs (rnd (B2R r / P)) <= bpow radix2 1001) by (apply rnd_abs_le; [unfold emax, prec; lia|exact Bq]).
  rewrite Rlt_bool_true in HD by (apply Rle_lt_trans with (1 := Bq'); apply bpow_lt; unfold emax; lia).
  destruct HD as (Dv0 & Df & _). rewrite Rf in Df.
  assert (Dv : B2R q = rnd (B2R r / P)) by exact Dv0. clear Dv0.
  fold (fdiv r t) in Df. fold q in Df.
  split; [exact Df|].
  pose proof (rnd_error (B2R r / P)) as Eq. rewrite <- Dv in Eq.
  (* assemble *)
  set (R := B2R r) in *. set (M := B2R m) in *. set (Q := B2R q) in *.
  assert (D1 : Rabs (R / P - X) <= / 2 / P + Rabs X * u + eta).
  { replace (R / P - X) with ((R - M) / P + (M - X * P) / P) by (field; lra).
    apply Rle_trans with (1 := Rabs_triang _ _).
    unfold Rdiv at 1 2. rewrite !Rabs_mult, Rabs_inv, (Rabs_pos_eq P) by lra.
    assert (I1 : / P <= 1) by (rewrite <- Rinv_1; apply Rinv_le; lra).
    assert (I0 : 0 < / P) by (apply Rinv_0_lt_compat; lra).
    assert (A1 : Rabs (R - M) * / P <= / 2 * / P) by (apply Rmult_le_compat_r; lra).
    assert (A2 : Rabs (M - X * P) * / P <= (Rabs X * P * u + eta) * / P) by (apply Rmult_le_compat_r; lra).
    assert (A3 : (Rabs X * P * u + eta) * / P = Rabs X * u + eta * / P) by (field; lra).
    pose proof eta_pos. unfold Rdiv. nra. }
  assert (D2 : Rabs (R / P) <= Rabs X + / 2 / P + Rabs X * u + eta).
  { replace (R / P) with ((R / P - X) + X) by ring. apply Rle_trans with (1 := Rabs_triang _ _). lra. }
  replace (Q - X) with ((Q - R / P) + (R / P - X)) by ring.
  apply Rle_trans with (1 := Rabs_triang _ _).
  pose proof u_pos. pose proof u_lt_1. pose proof eta_pos. pose proof (Rabs_pos X).
  assert (HP : 0 < / 2 / P) by (unfold Rdiv; apply Rmult_lt_0_compat; [lra|apply Rinv_0_lt_compat; lra]).
  nra.
Qed.

(* ---- the scales 10^0 .. 10^22 are exact ---- *)
Lemma integral_B2R (x : f64) : is_finite x = true -> feqb x (ftrunc x) = true -> B2R x = IZR (Btrunc x).
Proof.
  intros F E. unfold feqb in E.
  assert (Ft : is_finite (ftrunc x) = true) by (unfold ftrunc; rewrite nearbyint_finite; exact F).
  rewrite (Beqb_correct prec emax x (ftrunc x) F Ft) in E.
  apply Req_bool_true_iff in E || (destruct (Req_bool_spec (B2R x) (B2R (ftrunc x))) as [E'|E']; [|discriminate]).
  all: try (rewrite E' at 1).
  all: pose proof (trunc_value x) as T; unfold R_of in T.
  all: rewrite trunc_R; congruence.
Qed.

Definition scale_ok (k : nat) : bool :=
  let x := pow10 (Z.of_nat k) in
  is_finite x && feqb x (ftrunc x) && (Btrunc x =? 10 ^ Z.of_nat k)%Z.

Lemma scales_ok : forallb scale_ok (seq 0 23) = true.
Proof. vm_compute. reflexivity. Qed.

Lemma pow10_exact (n : Z) : (0 <= n <= 22)%Z ->
  is_finite (pow10 n) = true /\ B2R (pow10 n) = IZR (10 ^ n).
Proof.
  intros Hn.
  assert (I : In (Z.to_nat n) (seq 0 23)) by (apply in_seq; lia).
  pose proof (proj1 (forallb_forall scale_ok (seq 0 23)) scales_ok _ I) as H.
  unfold scale_ok in H. rewrite Z2Nat.id in H by lia.
  apply andb_true_iff in H. destruct H as [H H3]. apply andb_true_iff in H. destruct H as [H1 H2].
  apply Z.eqb_eq in H3. split; [exact H1|]. rewrite (integral_B2R _ H1 H2), H3. reflexivity.
Qed.

(* round_places(x, n) for 0 <= n <= 22 *)
Theorem round_places_envelope (x : f64) (n : Z) :
  is_finite x = true -> (0 <= n <= 22)%Z -> Rabs (B2R x) * IZR (10 ^ n) <= bpow radix2 1000 ->
  is_finite (f_round_places x n) = true /\
  Rabs (B2R (f_round_places x n) - B2R x)
    <= / 2 / IZR (10 ^ n) * (1 + u) + Rabs (B2R x) * (2 * u + u * u) + 3 * eta.
Proof.
  intros Fx Hn Hb. destruct (pow10_exact n Hn) as [Ft Et].
  unfold f_round_places.
  apply (scaled_round_envelope x (pow10 n) (10 ^ n) Fx Ft Et); [|exact Hb].
  assert (0 < 10 ^ n)%Z by (apply Z.pow_pos_nonneg; lia). lia.
Qed.
