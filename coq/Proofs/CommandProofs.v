(* C17: words of a generic command - classification and separation. *)
From Coq Require Import List ZArith NArith Bool Lia.
From YS Require Import Base.Sexp Num.F64 Num.Decimal Yarn.Ast Yarn.Value Syntax.CommandText.
Import ListNotations.

(* ---- classification ---- *)
Theorem classify_true : value_from_command_text (STR "true") = VBool true.
Proof. reflexivity. Qed.
Theorem classify_false : value_from_command_text (STR "false") = VBool false.
Proof. reflexivity. Qed.

Theorem classify_number w n : str_eqb w (STR "true") = false -> str_eqb w (STR "false") = false ->
  is_decimal_literal w = true -> parse_float w = Some n -> value_from_command_text w = VNum n.
Proof. intros H1 H2 H3 H4. unfold value_from_command_text. rewrite H1, H2, H3, H4. reflexivity. Qed.

Theorem classify_string w : str_eqb w (STR "true") = false -> str_eqb w (STR "false") = false ->
  is_decimal_literal w = false -> value_from_command_text w = VStr w.
Proof. intros H1 H2 H3. unfold value_from_command_text. rewrite H1, H2, H3. reflexivity. Qed.

(* what is NOT a number although Go's ParseFloat accepts it *)
Example not_numbers : map value_from_command_text [STR "inf"; STR "NaN"; STR "1e3"; STR ".5"; STR "5."; STR "+5"; STR "0x10"; STR "-"]
  = map VStr [STR "inf"; STR "NaN"; STR "1e3"; STR ".5"; STR "5."; STR "+5"; STR "0x10"; STR "-"].
Proof. vm_compute. reflexivity. Qed.

Example numbers : map (fun w => match value_from_command_text w with VNum n => Some (to_bits n) | _ => None end)
                      [STR "3"; STR "-3"; STR "0.5"; STR "-12.25"; STR "007"]
  = map (fun z => Some (to_bits z)) [of_Z 3; fneg (of_Z 3); fdiv (of_Z 1) (of_Z 2); fneg (fdiv (of_Z 49) (of_Z 4)); of_Z 7].
Proof. vm_compute. reflexivity. Qed.

(* ---- separation: words are the maximal runs of non-whitespace ---- *)
Definition no_space (w : str) : Prop := forallb (fun c => negb (is_space c)) w = true.
Definition all_space (s : str) : Prop := forallb is_space s = true.

Lemma fields_word_acc w : no_space w -> forall cur rest_, 
  fields (w ++ rest_) cur = fields rest_ (rev w ++ cur).
Proof.
  induction w as [|c w IH]; intros Hw cur rest_; [reflexivity|].
  unfold no_space in Hw. cbn [forallb] in Hw. apply andb_true_iff in Hw as [Hc Hw].
  apply negb_true_iff in Hc. cbn [app fields]. rewrite Hc. rewrite (IH Hw). cbn [rev]. rewrite <- app_assoc. reflexivity.
Qed.

Lemma fields_leading_space s : all_space s -> forall rest_, fields (s ++ rest_) [] = fields rest_ [].
Proof.
  induction s as [|c s IH]; intros Hs rest_; [reflexivity|].
  unfold all_space in Hs. cbn [forallb] in Hs. apply andb_true_iff in Hs as [H1 H2].
  cbn [app fields]. rewrite H1. apply IH. exact H2.
Qed.

Lemma fields_sep s : all_space s -> s <> [] -> forall cur rest_, cur <> [] ->
  fields (s ++ rest_) cur = rev cur :: fields rest_ [].
Proof.
  intros Hs Hne cur rest_ Hc. destruct s as [|c s]; [contradiction|].
  unfold all_space in Hs. cbn [forallb] in Hs. apply andb_true_iff in Hs as [H1 H2].
  cbn [app fields]. rewrite H1. destruct cur as [|x cur']; [contradiction|].
  f_equal. apply fields_leading_space. exact H2.
Qed.

Lemma fields_all_space s : all_space s -> fields s [] = [].
Proof.
  induction s as [|c s IH]; intros Hs; [reflexivity|].
  unfold all_space in Hs. cbn [forallb] in Hs. apply andb_true_iff in Hs as [H1 H2].
  cbn [fields]. rewrite H1. apply IH. exact H2.
Qed.

Lemma fields_end trail : all_space trail -> forall cur, cur <> [] -> fields trail cur = [rev cur].
Proof.
  intros Hs cur Hc. destruct trail as [|c t].
  - cbn. destruct cur; [contradiction|reflexivity].
  - unfold all_space in Hs. cbn [forallb] in Hs. apply andb_true_iff in Hs as [H1 H2].
    cbn [fields]. rewrite H1. destruct cur; [contradiction|]. rewrite (fields_all_space t H2). reflexivity.
Qed.

Lemma rev_nonempty (w : str) : w <> [] -> rev w <> [].
Proof. destruct w as [|c w]; [contradiction|]. intros _ E. apply (f_equal (@length _)) in E.
  rewrite rev_length in E. discriminate. Qed.

(* words written with ANY non-empty whitespace between them (blanks, tabs, ...), any whitespace
   before the first and after the last, are recovered exactly *)
Fixpoint join (ws : list str) (seps : list str) (trail : str) : str :=
  match ws with
  | [] => trail
  | [w] => w ++ trail
  | w :: ws' => match seps with
                | s :: seps' => w ++ s ++ join ws' seps' trail
                | [] => w ++ join ws' [] trail
                end
  end.

Theorem fields_join : forall ws seps lead trail,
  Forall (fun w => no_space w /\ w <> []) ws -> Forall (fun s => all_space s /\ s <> []) seps ->
  length seps = pred (length ws) -> all_space lead -> all_space trail ->
  fields (lead ++ join ws seps trail) [] = ws.
Proof.
  intros ws seps lead trail Hw Hs Hl Hlead Htrail. rewrite (fields_leading_space lead Hlead).
  clear lead Hlead. revert seps Hs Hl. induction Hw as [|w ws' [Hw1 Hw2] Hws IH]; intros seps Hs Hl.
  - cbn [join]. apply fields_all_space. exact Htrail.
  - destruct ws' as [|w2 ws''].
    + cbn [join]. rewrite (fields_word_acc w Hw1). rewrite app_nil_r.
      rewrite (fields_end trail Htrail _ (rev_nonempty w Hw2)), rev_involutive. reflexivity.
    + destruct seps as [|s seps']; [cbn in Hl; discriminate|].
      inversion Hs as [|? ? [Hs1 Hs2] Hs']; subst.
      cbn [join]. rewrite (fields_word_acc w Hw1). rewrite app_nil_r.
      rewrite (fields_sep s Hs1 Hs2 _ _ (rev_nonempty w Hw2)), rev_involutive. f_equal.
      apply IH; [exact Hs'|cbn in Hl; cbn; lia].
Qed.

(* ---- rearrange: token boundaries inside text do not matter, expressions stay in place ---- *)
Theorem rearrange_text_tokens a b r acc :
  rearrange (RText a :: RText b :: r) acc = rearrange (RText (a ++ b) :: r) acc.
Proof. cbn [rearrange]. rewrite app_assoc. reflexivity. Qed.

Theorem rearrange_expr_in_place t e r :
  rearrange (RText t :: RExpr e :: r) [] = split_words t ++ e :: rearrange r [].
Proof. reflexivity. Qed.

Theorem rearrange_only_text t : rearrange [RText t] [] = split_words t.
Proof. reflexivity. Qed.

(* the arguments of  name sep w1 sep w2 ...  are name, w1, w2, ... each classified on its own *)
Theorem command_words ws seps lead trail :
  Forall (fun w => no_space w /\ w <> []) ws -> Forall (fun s => all_space s /\ s <> []) seps ->
  length seps = pred (length ws) -> all_space lead -> all_space trail ->
  rearrange [RText (lead ++ join ws seps trail)] [] = map (fun w => EVal (value_from_command_text w)) ws.
Proof.
  intros. cbn [rearrange app]. unfold split_words. rewrite fields_join by assumption. reflexivity.
Qed.
