(* C09: dice(n) is an integer in [1, n], random_range(a, b) an integer in [a, b], for every raw
   stream of the runner's source (the stream itself is an oracle: math/rand's generator). *)
From Coq Require Import List ZArith NArith Bool Lia.
From YS Require Import Base.Sexp Num.F64 Yarn.Ast Yarn.Value Yarn.Eval Yarn.RunnerWire.
Import ListNotations.
Local Open Scope Z_scope.

Lemma land_bounds v m : 0 <= m -> 0 <= Z.land v m <= m.
Proof.
  intros Hm. split; [apply Z.land_nonneg; right; exact Hm|].
  assert (H : Z.lor (Z.ldiff m v) (Z.land m v) = m) by apply Z.lor_ldiff_and.
  assert (D : Z.land (Z.ldiff m v) (Z.land m v) = 0).
  { apply Z.bits_inj'. intros n Hn. rewrite !Z.land_spec, Z.ldiff_spec, Z.bits_0.
    destruct (Z.testbit m n), (Z.testbit v n); reflexivity. }
  rewrite <- Z.lxor_lor, <- Z.add_nocarry_lxor in H by exact D.
  assert (0 <= Z.ldiff m v) by (apply Z.ldiff_nonneg; left; exact Hm).
  rewrite (Z.land_comm v m). lia.
Qed.

Lemma int31n_loop_range fuel : forall n mx e, 0 < n -> 0 <= fst (int31n_loop fuel n mx e) < n.
Proof.
  induction fuel as [|f IH]; intros n mx e Hn; cbn [int31n_loop]; destruct (draw e) as [v63 e1].
  - cbn [fst]. apply Z.mod_pos_bound. exact Hn.
  - destruct (mx <? v63 / 2 ^ 32); [apply IH; exact Hn|cbn [fst]; apply Z.mod_pos_bound; exact Hn].
Qed.

Lemma int63n_loop_range fuel : forall n mx e, 0 < n -> 0 <= fst (int63n_loop fuel n mx e) < n.
Proof.
  induction fuel as [|f IH]; intros n mx e Hn; cbn [int63n_loop]; destruct (draw e) as [v e1].
  - cbn [fst]. apply Z.mod_pos_bound. exact Hn.
  - destruct (mx <? v); [apply IH; exact Hn|cbn [fst]; apply Z.mod_pos_bound; exact Hn].
Qed.

(* rand.Intn(n) for n > 0 is in [0, n), whatever the source produces *)
Theorem intn_range n e : 0 < n -> 0 <= fst (intn n e) < n.
Proof.
  intros Hn. unfold intn. destruct (n <=? 2 ^ 31 - 1).
  - destruct (is_pow2 n).
    + destruct (draw e) as [v63 e1]. cbn [fst]. pose proof (land_bounds (v63 / 2 ^ 32) (n - 1)). lia.
    + apply int31n_loop_range. exact Hn.
  - destruct (is_pow2 n).
    + destruct (draw e) as [v e1]. cbn [fst]. pose proof (land_bounds v (n - 1)). lia.
    + apply int63n_loop_range. exact Hn.
Qed.

Local Arguments Z.add : simpl never.
Local Arguments Z.sub : simpl never.
Local Arguments Z.mul : simpl never.
Local Arguments Z.ltb : simpl never.
Local Arguments Z.leb : simpl never.
Local Arguments wrap64 : simpl never.
Local Arguments to_int64 : simpl never.
Local Arguments intn : simpl never.
Local Arguments of_Z : simpl never.

Lemma to_int64_range x : - two63 <= to_int64 x < two63.
Proof.
  unfold to_int64, two63. destruct x; try lia.
  match goal with |- context [if ?c then _ else _] => destruct c eqn:E end; [|lia].
  apply andb_true_iff in E as [E1 E2]. apply Z.leb_le in E1. apply Z.ltb_lt in E2. unfold two63 in *. lia.
Qed.

Lemma wrap64_small z : - two63 <= z < two63 -> wrap64 z = z.
Proof. intros H. unfold wrap64, two64, two63 in *. rewrite Z.mod_small; lia. Qed.

(* dice(n): an integer r with 1 <= r <= n, for every n >= 1 (as converted to int) *)
Theorem dice_range v x e : 1 <= to_int64 x ->
  exists r e', call_builtin v (STR "dice") [VNum x] e = Some (Val (Some (VNum (of_Z r))), e') /\
               1 <= r <= to_int64 x.
Proof.
  intros H. pose proof (to_int64_range x) as Hr. cbn.
  destruct (to_int64 x <? 1) eqn:E; [apply Z.ltb_lt in E; lia|].
  replace (to_int64 x - 1 + 1) with (to_int64 x) by lia. rewrite (wrap64_small _ Hr).
  pose proof (intn_range (to_int64 x) e ltac:(lia)) as Hi.
  destruct (intn (to_int64 x) e) as [r e1]. cbn [fst] in Hi.
  exists (1 + r), e1. rewrite wrap64_small by (unfold two63 in *; lia). split; [reflexivity|lia].
Qed.

(* random_range(a, b): an integer r with a <= r <= b whenever a <= b and the range fits an int *)
Theorem random_range_range v a b e :
  to_int64 a <= to_int64 b -> to_int64 b - to_int64 a + 1 < two63 ->
  exists r e', call_builtin v (STR "random_range") [VNum a; VNum b] e = Some (Val (Some (VNum (of_Z r))), e') /\
               to_int64 a <= r <= to_int64 b.
Proof.
  intros Hle Hfit. pose proof (to_int64_range a) as Ha. pose proof (to_int64_range b) as Hb. cbn.
  destruct (to_int64 b <? to_int64 a) eqn:E; [apply Z.ltb_lt in E; lia|].
  rewrite (wrap64_small (to_int64 b - to_int64 a)) by (unfold two63 in *; lia).
  rewrite (wrap64_small (to_int64 b - to_int64 a + 1)) by (unfold two63 in *; lia).
  destruct (to_int64 b - to_int64 a + 1 <=? 0) eqn:E2; [apply Z.leb_le in E2; lia|].
  pose proof (intn_range (to_int64 b - to_int64 a + 1) e ltac:(lia)) as Hi.
  destruct (intn (to_int64 b - to_int64 a + 1) e) as [r e1]. cbn [fst] in Hi.
  exists (to_int64 a + r), e1. rewrite wrap64_small by (unfold two63 in *; lia). split; [reflexivity|lia].
Qed.

(* out of domain: errors, never a panic (see also Props/C06.v) *)
Theorem random_range_too_wide_is_error v a b e :
  to_int64 a <= to_int64 b -> two63 <= to_int64 b - to_int64 a + 1 ->
  call_builtin v (STR "random_range") [VNum a; VNum b] e = Some (Fail, e).
Proof.
  intros Hle Hw. pose proof (to_int64_range a) as Ha. pose proof (to_int64_range b) as Hb. cbn.
  destruct (to_int64 b <? to_int64 a) eqn:E; [apply Z.ltb_lt in E; lia|].
  assert (Hn : wrap64 (wrap64 (to_int64 b - to_int64 a) + 1) <= 0).
  { unfold wrap64, two64, two63 in *.
    destruct (Z.eq_dec (to_int64 b - to_int64 a + 1) 9223372036854775808).
    - assert (E1 : to_int64 b - to_int64 a = 9223372036854775807) by lia. rewrite E1.
      rewrite (Z.mod_small (9223372036854775807 + 9223372036854775808)) by lia.
      replace (9223372036854775807 + 9223372036854775808 - 9223372036854775808 + 1 + 9223372036854775808) with (0 + 1 * 18446744073709551616) by lia.
      rewrite Z_mod_plus_full. rewrite Z.mod_small; lia.
    - assert (E1 : 9223372036854775808 <= to_int64 b - to_int64 a) by lia.
      replace (to_int64 b - to_int64 a + 9223372036854775808) with ((to_int64 b - to_int64 a - 9223372036854775808) + 1 * 18446744073709551616) by lia.
      rewrite Z_mod_plus_full. rewrite (Z.mod_small (to_int64 b - to_int64 a - 9223372036854775808)) by lia.
      rewrite Z.mod_small; lia. }
  destruct (wrap64 (wrap64 (to_int64 b - to_int64 a) + 1) <=? 0) eqn:E2; [reflexivity|].
  apply Z.leb_gt in E2. lia.
Qed.

(* the seed: base 36 over [0-9a-z], anything else is rejected *)
Theorem seed_alphabet s acc : (forall c, In c s -> ((48 <=? c) && (c <=? 57) || (97 <=? c) && (c <=? 122))%N = true) ->
  seed_to_int64 s acc <> None.
Proof.
  revert acc. induction s as [|c r IH]; intros acc H; [discriminate|].
  cbn [seed_to_int64].
  pose proof (H c (or_introl eq_refl)) as Hc.
  destruct ((48 <=? c)%N && (c <=? 57)%N) eqn:E1.
  - apply IH. intros c' Hc'. apply H. right. exact Hc'.
  - cbn [orb] in Hc. rewrite Hc. apply IH. intros c' Hc'. apply H. right. exact Hc'.
Qed.
