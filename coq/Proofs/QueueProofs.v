(* The ring buffer refines a FIFO list, the slice stack refines a LIFO list: for every operation
   sequence, of any length (hence across any number of growths, with head and tail anywhere). *)
From Coq Require Import List ZArith Bool Lia Arith.
From YS Require Import Container.Queue.
Import ListNotations.
Local Open Scope Z_scope.

Section QueueProofs.
  Context {A : Type} (d : A).
  Notation queue := (queue A).
  Notation enqueue := (enqueue d).
  Notation dequeue := (dequeue d).
  Notation peek := (peek d).

  Lemma mod_wrap x c : 0 < c -> 0 <= x < 2 * c -> x mod c = if x <? c then x else x - c.
  Proof.
    intros Hc Hx. destruct (Z.ltb_spec x c).
    - apply Z.mod_small. lia.
    - replace x with ((x - c) + 1 * c) by lia. rewrite Z_mod_plus_full.
      rewrite Z.mod_small by lia. lia.
  Qed.

  Lemma set_nth_length (l : list A) n x : length (set_nth l n x) = length l.
  Proof. revert n; induction l as [|h t IH]; intros [|n]; simpl; auto. Qed.

  Lemma nth_set_nth_eq (l : list A) n x : (n < length l)%nat -> nth n (set_nth l n x) d = x.
  Proof. revert n; induction l as [|h t IH]; intros [|n] H; simpl in *; try lia; auto. apply IH. lia. Qed.

  Lemma nth_set_nth_neq (l : list A) n m x : n <> m -> nth m (set_nth l n x) d = nth m l d.
  Proof.
    revert n m; induction l as [|h t IH]; intros [|n] [|m] H; simpl; auto; try lia.
  Qed.

  Lemma nth_skipn' (l : list A) n i : nth i (skipn n l) d = nth (n + i) l d.
  Proof. revert l; induction n as [|n IH]; intros [|h t]; simpl; auto. destruct i; reflexivity. Qed.

  Lemma nth_firstn' (l : list A) n i : (i < n)%nat -> nth i (firstn n l) d = nth i l d.
  Proof.
    revert l i; induction n as [|n IH]; intros [|h t] [|i] H; simpl; auto; try lia. apply IH. lia.
  Qed.

  Lemma cap_set_nth (q : queue) k x f n :
    cap {| base := set_nth (base q) k x; first := f; next := n |} = cap q.
  Proof. unfold cap. cbn [base]. rewrite set_nth_length. reflexivity. Qed.

  (* the abstraction: elements from [first], cyclically, [size] of them *)
  Definition abs (q : queue) : list A :=
    map (fun i => nth (Z.to_nat ((first q + Z.of_nat i) mod cap q)) (base q) d)
        (seq 0 (Z.to_nat (size q))).

  Definition Inv (q : queue) : Prop :=
    (base q = [] /\ first q = 0 /\ next q = 0) \/
    (2 <= cap q /\ 0 <= next q < cap q /\ (first q = -1 \/ 0 <= first q < cap q)).

  Lemma inv_empty : Inv empty_q.
  Proof. left. auto. Qed.

  Lemma abs_empty : abs empty_q = [].
  Proof. reflexivity. Qed.

  Lemma size_range q : Inv q -> 0 <= size q <= cap q.
  Proof.
    intros [(Hb & Hf & Hn) | (Hc & Hn & Hf)]; unfold size, cap in *.
    - rewrite Hb. simpl. lia.
    - destruct (length (base q)) eqn:El; [simpl in Hc; lia|]. cbn [Nat.eqb orb].
      destruct (first q =? -1) eqn:E1; [lia|]. apply Z.eqb_neq in E1.
      destruct (next q =? first q) eqn:E2; [lia|]. apply Z.eqb_neq in E2.
      rewrite mod_wrap by lia. destruct (Z.ltb_spec (next q - first q + Z.of_nat (S n)) (Z.of_nat (S n))); lia.
  Qed.

  Lemma size_abs q : Inv q -> size q = Z.of_nat (length (abs q)).
  Proof.
    intros H. unfold abs. rewrite map_length, seq_length. pose proof (size_range q H). lia.
  Qed.

  Lemma seq_snoc n : seq 0 (S n) = seq 0 n ++ [n].
  Proof. rewrite seq_S. reflexivity. Qed.

  Lemma length_zero_eqb (l : list A) : Nat.eqb (length l) 0 = true -> l = [].
  Proof. destruct l; simpl; [auto|discriminate]. Qed.

  (* ---- enqueue ---- *)
  Lemma enqueue_spec q x : Inv q -> Inv (enqueue q x) /\ abs (enqueue q x) = abs q ++ [x].
  Proof.
    intros HI. destruct HI as [(Hb & Hf & Hn) | (Hc & Hn & Hf)].
    - (* zero value: lazy allocation of 8 *)
      destruct q as [b f n]. cbn [base first next] in *. subst. split.
      + right. unfold cap. cbn. lia.
      + reflexivity.
    - unfold enqueue.
      assert (Hl : Nat.eqb (length (base q)) 0 = false).
      { apply Nat.eqb_neq. unfold cap in Hc. lia. }
      rewrite Hl.
      destruct (next q =? first q) eqn:Enf; cbn [negb].
      + (* full: grow *)
        apply Z.eqb_eq in Enf.
        destruct Hf as [Hf|Hf]; [lia|].
        set (ps := length (base q)). set (fi := Z.to_nat (first q)).
        assert (Hps : Z.of_nat ps = cap q) by reflexivity.
        assert (Hfi : (fi < ps)%nat) by (unfold fi; lia).
        set (bigger := skipn fi (base q) ++ firstn fi (base q) ++ repeat d ps).
        assert (Hbl : length bigger = (2 * ps)%nat).
        { unfold bigger. rewrite !app_length, skipn_length, firstn_length, repeat_length. fold ps. lia. }
        split.
        * right. unfold cap. cbn [base first next]. rewrite set_nth_length, Hbl. lia.
        * assert (Hs : size q = cap q).
          { unfold size. rewrite Hl. cbn [orb].
            destruct (first q =? -1) eqn:E1; [apply Z.eqb_eq in E1; lia|].
            rewrite Enf, Z.eqb_refl. reflexivity. }
          unfold abs at 1. unfold size, cap. cbn [base first next].
          rewrite set_nth_length, Hbl.
          destruct (Nat.eqb (2 * ps) 0) eqn:E0; [apply Nat.eqb_eq in E0; lia|]. cbn [orb].
          replace (0 =? -1) with false by reflexivity.
          destruct (Z.of_nat ps + 1 =? 0) eqn:E1; [apply Z.eqb_eq in E1; lia|].
          rewrite mod_wrap by lia.
          destruct (Z.ltb_spec (Z.of_nat ps + 1 - 0 + Z.of_nat (2 * ps)) (Z.of_nat (2 * ps))); [lia|].
          replace (Z.to_nat (Z.of_nat ps + 1 - 0 + Z.of_nat (2 * ps) - Z.of_nat (2 * ps))) with (S ps) by lia.
          rewrite seq_snoc, map_app. f_equal.
          -- unfold abs. rewrite Hs, <- Hps, Nat2Z.id.
             apply map_ext_in. intros i Hi. apply in_seq in Hi.
             rewrite (mod_wrap (0 + Z.of_nat i)) by lia.
             destruct (Z.ltb_spec (0 + Z.of_nat i) (Z.of_nat (2 * ps))); [|lia].
             rewrite nth_set_nth_neq by lia.
             replace (Z.to_nat (0 + Z.of_nat i)) with i by lia.
             rewrite mod_wrap by lia. unfold bigger.
             match goal with |- context [?a <? ?b] => destruct (Z.ltb_spec a b) end.
             ++ rewrite app_nth1 by (rewrite skipn_length; fold ps; lia).
                rewrite nth_skipn'. f_equal. unfold fi. lia.
             ++ rewrite app_nth2 by (rewrite skipn_length; fold ps; lia).
                rewrite skipn_length. fold ps.
                rewrite app_nth1 by (rewrite firstn_length; fold ps; lia).
                rewrite nth_firstn' by lia.
                f_equal. unfold fi. lia.
          -- cbn [map]. f_equal.
             rewrite (mod_wrap (0 + Z.of_nat ps)) by lia.
             destruct (Z.ltb_spec (0 + Z.of_nat ps) (Z.of_nat (2 * ps))); [|lia].
             replace (Z.to_nat (0 + Z.of_nat ps)) with ps by lia.
             apply nth_set_nth_eq. lia.
      + (* room left *)
        apply Z.eqb_neq in Enf.
        assert (Hnl : (Z.to_nat (next q) < length (base q))%nat) by (unfold cap in *; lia).
        split.
        * right. unfold cap. cbn [base first next]. rewrite set_nth_length. fold (cap q).
          split; [lia|]. split.
          -- rewrite mod_wrap by lia. destruct (Z.ltb_spec (next q + 1) (cap q)); lia.
          -- right. destruct (first q =? -1) eqn:E1; [lia|]. apply Z.eqb_neq in E1. lia.
        * destruct (first q =? -1) eqn:E1.
          -- (* empty *)
             apply Z.eqb_eq in E1.
             assert (Hs : size q = 0). { unfold size. rewrite Hl, E1. reflexivity. }
             unfold abs at 2. rewrite Hs. cbn [Z.to_nat seq map app].
             unfold abs, size, cap. cbn [base first next]. rewrite set_nth_length, Hl. cbn [orb].
             fold (cap q).
             destruct (next q =? -1) eqn:E2; [apply Z.eqb_eq in E2; lia|].
             rewrite (mod_wrap (next q + 1)) by lia.
             destruct (Z.ltb_spec (next q + 1) (cap q)).
             ++ destruct (next q + 1 =? next q) eqn:E3; [apply Z.eqb_eq in E3; lia|].
                rewrite mod_wrap by lia.
                destruct (Z.ltb_spec (next q + 1 - next q + cap q) (cap q)); [lia|].
                replace (Z.to_nat (next q + 1 - next q + cap q - cap q)) with 1%nat by lia.
                cbn [seq map]. f_equal. rewrite mod_wrap by lia.
                destruct (Z.ltb_spec (next q + Z.of_nat 0) (cap q)); [|lia].
                replace (Z.to_nat (next q + Z.of_nat 0)) with (Z.to_nat (next q)) by lia.
                apply nth_set_nth_eq. exact Hnl.
             ++ destruct (next q + 1 - cap q =? next q) eqn:E3; [apply Z.eqb_eq in E3; lia|].
                rewrite mod_wrap by lia.
                destruct (Z.ltb_spec (next q + 1 - cap q - next q + cap q) (cap q)); [|lia].
                replace (Z.to_nat (next q + 1 - cap q - next q + cap q)) with 1%nat by lia.
                cbn [seq map]. f_equal. rewrite mod_wrap by lia.
                destruct (Z.ltb_spec (next q + Z.of_nat 0) (cap q)); [|lia].
                replace (Z.to_nat (next q + Z.of_nat 0)) with (Z.to_nat (next q)) by lia.
                apply nth_set_nth_eq. exact Hnl.
          -- (* non-empty, not full *)
             apply Z.eqb_neq in E1. destruct Hf as [Hf|Hf]; [lia|].
             assert (Hs : size q = if next q - first q + cap q <? cap q
                                   then next q - first q + cap q else next q - first q).
             { unfold size. rewrite Hl. cbn [orb].
               destruct (first q =? -1) eqn:E2; [apply Z.eqb_eq in E2; lia|].
               destruct (next q =? first q) eqn:E3; [apply Z.eqb_eq in E3; lia|].
               rewrite mod_wrap by lia.
               destruct (Z.ltb_spec (next q - first q + cap q) (cap q)); lia. }
             assert (Hs1 : 1 <= size q < cap q).
             { rewrite Hs. destruct (Z.ltb_spec (next q - first q + cap q) (cap q)); lia. }
             assert (Hs' : size {| base := set_nth (base q) (Z.to_nat (next q)) x; first := first q;
                                   next := (next q + 1) mod cap q |} = size q + 1).
             { unfold size at 1. unfold cap. cbn [base first next]. rewrite set_nth_length, Hl. cbn [orb].
               fold (cap q).
               destruct (first q =? -1) eqn:E2; [apply Z.eqb_eq in E2; lia|].
               rewrite (mod_wrap (next q + 1)) by lia.
               rewrite Hs in *.
               destruct (Z.ltb_spec (next q + 1) (cap q)).
               - destruct (next q + 1 =? first q) eqn:E3.
                 + apply Z.eqb_eq in E3.
                   destruct (Z.ltb_spec (next q - first q + cap q) (cap q)); lia.
                 + apply Z.eqb_neq in E3. rewrite mod_wrap by lia.
                   destruct (Z.ltb_spec (next q - first q + cap q) (cap q));
                     destruct (Z.ltb_spec (next q + 1 - first q + cap q) (cap q)); lia.
               - destruct (next q + 1 - cap q =? first q) eqn:E3.
                 + apply Z.eqb_eq in E3.
                   destruct (Z.ltb_spec (next q - first q + cap q) (cap q)); lia.
                 + apply Z.eqb_neq in E3. rewrite mod_wrap by lia.
                   destruct (Z.ltb_spec (next q - first q + cap q) (cap q));
                     destruct (Z.ltb_spec (next q + 1 - cap q - first q + cap q) (cap q)); lia. }
             unfold abs at 1. rewrite Hs', cap_set_nth. cbn [base first next].
             replace (Z.to_nat (size q + 1)) with (S (Z.to_nat (size q))) by lia.
             rewrite seq_snoc, map_app. f_equal.
             ++ unfold abs. apply map_ext_in. intros i Hi. apply in_seq in Hi.
                apply nth_set_nth_neq.
                rewrite mod_wrap by lia. rewrite Hs in *.
                destruct (Z.ltb_spec (first q + Z.of_nat i) (cap q));
                  destruct (Z.ltb_spec (next q - first q + cap q) (cap q)); lia.
             ++ cbn [map]. f_equal.
                assert (E : (first q + Z.of_nat (Z.to_nat (size q))) mod cap q = next q).
                { rewrite mod_wrap by lia. rewrite Hs in *.
                  destruct (Z.ltb_spec (next q - first q + cap q) (cap q));
                    match goal with |- context [?a <? ?b] => destruct (Z.ltb_spec a b) end; lia. }
                rewrite E. apply nth_set_nth_eq. exact Hnl.
  Qed.

  Ltac dz := repeat match goal with
    | H : context [?a <? ?b] |- _ => destruct (Z.ltb_spec a b)
    | |- context [?a <? ?b] => destruct (Z.ltb_spec a b)
    | H : context [?a =? ?b] |- _ => destruct (Z.eqb_spec a b)
    | |- context [?a =? ?b] => destruct (Z.eqb_spec a b)
    end.

  Lemma abs_reset (b : list A) : abs {| base := b; first := -1; next := 0 |} = [].
  Proof. unfold abs, size. cbn [base first next]. rewrite orb_true_r. reflexivity. Qed.

  (* ---- dequeue / peek ---- *)
  Lemma abs_nil_size q : Inv q -> (abs q = [] <-> size q = 0).
  Proof.
    intros H. rewrite (size_abs q H). destruct (abs q); simpl; split; intro; try reflexivity; try lia; discriminate.
  Qed.

  Lemma abs_head q : Inv q -> size q <> 0 ->
    exists t, abs q = nth (Z.to_nat (first q)) (base q) d :: t /\ 0 <= first q < cap q.
  Proof.
    intros HI Hs. pose proof (size_range q HI) as Hr.
    destruct HI as [(Hb & Hf & Hn) | (Hc & Hn & Hf)].
    - unfold size in Hs. rewrite Hb in Hs. simpl in Hs. lia.
    - assert (Hf' : 0 <= first q < cap q).
      { destruct Hf as [Hf|Hf]; [|exact Hf]. unfold size in Hs. rewrite Hf in Hs.
        rewrite orb_true_r in Hs. lia. }
      unfold abs. destruct (Z.to_nat (size q)) eqn:E; [lia|].
      cbn [seq map]. eexists. split; [|exact Hf']. f_equal.
      rewrite mod_wrap by lia. destruct (Z.ltb_spec (first q + Z.of_nat 0) (cap q)); [|lia].
      f_equal. lia.
  Qed.

  Lemma peek_spec q : Inv q -> peek q = hd_error (abs q).
  Proof.
    intros HI. unfold peek. destruct (size q =? 0) eqn:E.
    - apply Z.eqb_eq in E. apply (abs_nil_size q HI) in E. rewrite E. reflexivity.
    - apply Z.eqb_neq in E. destruct (abs_head q HI E) as (t & Ht & _). rewrite Ht. reflexivity.
  Qed.

  Lemma dequeue_spec q : Inv q ->
    match abs q with
    | [] => dequeue q = None
    | h :: t => exists q', dequeue q = Some (h, q') /\ Inv q' /\ abs q' = t
    end.
  Proof.
    intros HI. unfold dequeue. destruct (size q =? 0) eqn:E.
    - apply Z.eqb_eq in E. apply (abs_nil_size q HI) in E. rewrite E. reflexivity.
    - apply Z.eqb_neq in E. destruct (abs_head q HI E) as (t & Ht & Hf). rewrite Ht.
      pose proof (size_range q HI) as Hr.
      destruct HI as [(Hb & _) | (Hc & Hn & _)]; [unfold cap in Hf; rewrite Hb in Hf; simpl in Hf; lia|].
      assert (Hl : Nat.eqb (length (base q)) 0 = false).
      { apply Nat.eqb_neq. unfold cap in Hc. lia. }
      assert (Hsz : size q = if next q =? first q then cap q
                             else if next q - first q + cap q <? cap q
                                  then next q - first q + cap q else next q - first q).
      { unfold size. rewrite Hl. cbn [orb].
        destruct (first q =? -1) eqn:E2; [apply Z.eqb_eq in E2; lia|].
        destruct (next q =? first q); [reflexivity|].
        rewrite mod_wrap by lia. destruct (Z.ltb_spec (next q - first q + cap q) (cap q)); lia. }
      rewrite (mod_wrap (first q + 1)) by lia.
      (* the tail of abs *)
      assert (Ht' : t = map (fun i => nth (Z.to_nat ((first q + Z.of_nat (S i)) mod cap q)) (base q) d)
                            (seq 0 (Z.to_nat (size q) - 1))).
      { unfold abs in Ht. destruct (Z.to_nat (size q)) eqn:Es; [lia|].
        cbn [seq map] in Ht. inversion Ht as [Hh]. rewrite <- seq_shift, map_map.
        replace (S n - 1)%nat with n by lia. reflexivity. }
      destruct (Z.ltb_spec (first q + 1) (cap q)) as [Hlt|Hge].
      + destruct (first q + 1 =? next q) eqn:E3.
        * apply Z.eqb_eq in E3. eexists. split; [reflexivity|]. split.
          -- right. cbn [base first next]. unfold cap in *. cbn [base]. lia.
          -- rewrite abs_reset, Ht'.
             replace (Z.to_nat (size q) - 1)%nat with 0%nat; [reflexivity|].
             rewrite Hsz. dz; lia.
        * apply Z.eqb_neq in E3. eexists. split; [reflexivity|]. split.
          -- right. unfold cap in *. cbn [base first next]. lia.
          -- rewrite Ht'. unfold abs.
             assert (Hs2 : size {| base := base q; first := first q + 1; next := next q |} = size q - 1).
             { unfold size at 1. unfold cap. cbn [base first next]. rewrite Hl. cbn [orb]. fold (cap q).
               destruct (first q + 1 =? -1) eqn:E5; [apply Z.eqb_eq in E5; lia|].
               destruct (next q =? first q + 1) eqn:E6; [apply Z.eqb_eq in E6; lia|].
               rewrite mod_wrap by lia. rewrite Hsz.
               destruct (next q =? first q) eqn:E7.
               - apply Z.eqb_eq in E7.
                 destruct (Z.ltb_spec (next q - (first q + 1) + cap q) (cap q)); lia.
               - apply Z.eqb_neq in E7.
                 destruct (Z.ltb_spec (next q - (first q + 1) + cap q) (cap q));
                   destruct (Z.ltb_spec (next q - first q + cap q) (cap q)); lia. }
             rewrite Hs2. unfold cap. cbn [base first next]. fold (cap q).
             replace (Z.to_nat (size q - 1)) with (Z.to_nat (size q) - 1)%nat by lia.
             apply map_ext. intros i.
             replace (first q + 1 + Z.of_nat i) with (first q + Z.of_nat (S i)) by lia. reflexivity.
      + (* head wraps to 0 *)
        assert (Hfc : first q = cap q - 1) by lia.
        replace (first q + 1 - cap q) with 0 by lia.
        destruct (0 =? next q) eqn:E3.
        * apply Z.eqb_eq in E3. eexists. split; [reflexivity|]. split.
          -- right. unfold cap in *. cbn [base first next]. lia.
          -- rewrite abs_reset, Ht'.
             replace (Z.to_nat (size q) - 1)%nat with 0%nat; [reflexivity|].
             rewrite Hsz. dz; lia.
        * apply Z.eqb_neq in E3. eexists. split; [reflexivity|]. split.
          -- right. unfold cap in *. cbn [base first next]. lia.
          -- rewrite Ht'. unfold abs.
             assert (Hs2 : size {| base := base q; first := 0; next := next q |} = size q - 1).
             { unfold size at 1. unfold cap. cbn [base first next]. rewrite Hl. cbn [orb]. fold (cap q).
               replace (0 =? -1) with false by reflexivity.
               destruct (next q =? 0) eqn:E6; [apply Z.eqb_eq in E6; lia|].
               rewrite mod_wrap by lia. rewrite Hsz.
               destruct (next q =? first q) eqn:E7.
               - apply Z.eqb_eq in E7.
                 destruct (Z.ltb_spec (next q - 0 + cap q) (cap q)); lia.
               - apply Z.eqb_neq in E7.
                 destruct (Z.ltb_spec (next q - 0 + cap q) (cap q));
                   destruct (Z.ltb_spec (next q - first q + cap q) (cap q)); lia. }
             rewrite Hs2. unfold cap. cbn [base first next]. fold (cap q).
             replace (Z.to_nat (size q - 1)) with (Z.to_nat (size q) - 1)%nat by lia.
             apply map_ext_in. intros i Hi. apply in_seq in Hi. do 2 f_equal.
             rewrite (mod_wrap (first q + Z.of_nat (S i))) by lia.
             destruct (Z.ltb_spec (first q + Z.of_nat (S i)) (cap q)); [lia|].
             rewrite mod_wrap by lia.
             destruct (Z.ltb_spec (0 + Z.of_nat i) (cap q)); lia.
  Qed.

  (* ---- the refinement theorem ---- *)
  Theorem queue_refines_fifo_from q l ops :
    Inv q -> abs q = l -> q_run d q ops = fifo_run l ops.
  Proof.
    revert q l. induction ops as [|o ops IH]; intros q l HI Ha; [reflexivity|].
    destruct o as [x| | |]; cbn [q_run fifo_run].
    - destruct (enqueue_spec q x HI) as [HI' Ha']. f_equal. apply IH; [exact HI'|]. rewrite Ha', Ha. reflexivity.
    - pose proof (dequeue_spec q HI) as Hd. rewrite Ha in Hd. destruct l as [|h t].
      + rewrite Hd. f_equal. apply IH; assumption.
      + destruct Hd as (q' & Hd & HI' & Ha'). rewrite Hd. f_equal. apply IH; assumption.
    - rewrite (peek_spec q HI), Ha. destruct l as [|h t]; cbn [hd_error]; f_equal; apply IH; assumption.
    - rewrite (size_abs q HI), Ha. f_equal. apply IH; assumption.
  Qed.

  Theorem queue_refines_fifo ops : q_run d empty_q ops = fifo_run [] ops.
  Proof. apply queue_refines_fifo_from; [apply inv_empty | apply abs_empty]. Qed.

  (* ---- stack ---- *)
  Theorem stack_refines_lifo_from (s : list A) ops : s_run s ops = lifo_run (rev s) ops.
  Proof.
    revert s. induction ops as [|o ops IH]; intros s; [reflexivity|].
    destruct o as [x|xs| | | |]; cbn [s_run lifo_run].
    - f_equal. rewrite IH. unfold s_push. rewrite rev_app_distr. reflexivity.
    - f_equal. rewrite IH. unfold s_push_all. rewrite rev_app_distr. reflexivity.
    - unfold s_pop. destruct (rev s) as [|x r] eqn:E.
      + f_equal. rewrite IH, E. reflexivity.
      + f_equal. rewrite IH, rev_involutive. reflexivity.
    - unfold s_peek. destruct (rev s) as [|x r] eqn:E; f_equal; rewrite IH, E; reflexivity.
    - unfold s_size. rewrite rev_length. f_equal. apply IH.
    - f_equal. apply IH.
  Qed.

  Theorem stack_refines_lifo ops : s_run (A:=A) [] ops = lifo_run [] ops.
  Proof. apply (stack_refines_lifo_from []). Qed.
End QueueProofs.
