(* The statement parser model reads every written program back.

   [wstmt] is what can be written: lines, option groups (with or without the blank-line token after
   them), set / declare (with or without `as type`) / call / jump by name or by expression /
   generic commands as their text pieces and inline expressions, if / elseif / else chains, and
   INDENT ... DEDENT blocks around any run of statements, at any depth.  [meaning] is the dialogue the
   listener is meant to build for it (a block is the statements in it, <<else>> is the clause `true`,
   <<jump Name>> is the jump to the string "Name", a command is its pieces put through rearrange, the
   type of a declaration is dropped).  [pws] writes the token sequence.

   Theorem parse_written: for every written statement sequence that is well formed (texts of a line
   non-empty and not adjacent, an option group that is not followed by its blank-line token is not
   directly followed by another option nor - when its last option has no body - by an indented block),
   for every way of writing its expressions that the expression parser reads back ([er], a parameter),
   and for all sufficient fuel, parse_stmts (pws ws ++ rest) = (meaning ws, rest) whenever no statement
   starts at [rest].  Lifted to nodes and whole dialogues at the end (with the fuel of the model). *)
From Coq Require Import List Arith Bool ZArith NArith Lia.
From YS Require Import Base.Sexp Num.F64 Yarn.Ast Generated.ExprTable Generated.TokenTable
  Syntax.ExprParser Syntax.CommandText Syntax.StmtParser.
Import ListNotations.

(* ---------- one-step equations of the four mutually recursive parsers ---------- *)
Lemma parse_stmts_eq f ts :
  parse_stmts (S f) ts =
  if starts_statement ts then
    match ts with
    | (K_INDENT, _) :: r =>
        match parse_stmts f r with
        | Some (inner, (K_DEDENT, _) :: r2) =>
            match parse_stmts f r2 with
            | Some (rest, r3) => Some (inner ++ rest, r3)
            | None => None
            end
        | _ => None
        end
    | _ =>
        match parse_stmt f ts with
        | Some (s, r) => match parse_stmts f r with
                         | Some (rest, r2) => Some (s :: rest, r2)
                         | None => None
                         end
        | None => None
        end
    end
  else Some ([], ts).
Proof. reflexivity. Qed.

Lemma parse_stmts_stop f ts : starts_statement ts = false -> parse_stmts (S f) ts = Some ([], ts).
Proof. intros H. rewrite parse_stmts_eq, H. reflexivity. Qed.

Global Opaque parse_line parse_expr_span parse_hashtags take_etoks parse_expression rearrange parse_ctext.

(* ---------- written programs ---------- *)
Inductive wstmt :=
| WLine (l : line)
| WOpts (os : list (line * list wstmt)) (blank : bool)
| WSet (x : str) (op : setop) (e : expr)
| WJumpName (d : str)
| WJumpExpr (e : expr)
| WIf (c : expr) (b : list wstmt) (elifs : list (expr * list wstmt)) (els : option (list wstmt))
| WCmd (els : list relem)
| WCall (f : str) (args : list expr)
| WDeclare (x : str) (v : expr) (ty : option str)
| WBlock (ws : list wstmt).

Fixpoint meaning1 (w : wstmt) : list stmt :=
  let ms := fix ms (ws : list wstmt) : list stmt :=
              match ws with [] => [] | w :: r => meaning1 w ++ ms r end in
  match w with
  | WLine l => [SLine l]
  | WOpts os _ => [SOpts ((fix go (os : list (line * list wstmt)) :=
                             match os with [] => [] | (l, b) :: r => (l, ms b) :: go r end) os)]
  | WSet x op e => [SSet x op e]
  | WJumpName d => [SJump (EVal (VStr d))]
  | WJumpExpr e => [SJump e]
  | WIf c b elifs els =>
      [SIf ((c, ms b) ::
            (fix go (cs : list (expr * list wstmt)) :=
               match cs with [] => [] | (c', b') :: r => (c', ms b') :: go r end) elifs ++
            match els with Some b' => [(EVal (VBool true), ms b')] | None => [] end)]
  | WCmd els => [SCmd (rearrange els [])]
  | WCall f args => [SCall f args]
  | WDeclare x v _ => [SDeclare x v]
  | WBlock ws => ms ws
  end.

Fixpoint meaning (ws : list wstmt) : list stmt :=
  match ws with [] => [] | w :: r => meaning1 w ++ meaning r end.

Fixpoint mopts (os : list (line * list wstmt)) : list (line * list stmt) :=
  match os with [] => [] | (l, b) :: r => (l, meaning b) :: mopts r end.
Fixpoint mclauses (cs : list (expr * list wstmt)) : list (expr * list stmt) :=
  match cs with [] => [] | (c, b) :: r => (c, meaning b) :: mclauses r end.

Lemma meaning1_opts os bl : meaning1 (WOpts os bl) = [SOpts (mopts os)].
Proof. reflexivity. Qed.
Lemma meaning1_if c b elifs els :
  meaning1 (WIf c b elifs els) =
  [SIf ((c, meaning b) :: mclauses elifs ++ match els with Some b' => [(EVal (VBool true), meaning b')] | None => [] end)].
Proof. reflexivity. Qed.
Lemma meaning1_block ws : meaning1 (WBlock ws) = meaning ws.
Proof. reflexivity. Qed.

Notation tk k := (k, @nil N) (only parsing).

Definition kind_of_setop (o : setop) : kind :=
  match o with
  | SAssign => K_OPERATOR_ASSIGNMENT | SMulEq => K_OPERATOR_MATHS_MULTIPLICATION_EQUALS
  | SDivEq => K_OPERATOR_MATHS_DIVISION_EQUALS | SModEq => K_OPERATOR_MATHS_MODULUS_EQUALS
  | SAddEq => K_OPERATOR_MATHS_ADDITION_EQUALS | SSubEq => K_OPERATOR_MATHS_SUBTRACTION_EQUALS
  end.

(* the generated listener map reads the assignment tokens back (re-checked against the table the
   translator extracts from the Go source) *)
Lemma setop_roundtrip o : setop_of_kind (kind_of_setop o) = Some o.
Proof. destruct o; reflexivity. Qed.
Lemma setop_not_etok o s : etok_of (kind_of_setop o, s) = None.
Proof. destruct o; reflexivity. Qed.

Ltac norm := cbn [app]; repeat (rewrite <- app_assoc; cbn [app]).
Ltac norm_in H := cbn [app] in H; repeat (rewrite <- app_assoc in H; cbn [app] in H).

Section Written.
  (* how expressions are written: any token sequence the expression parser reads back *)
  Variable er : expr -> list T.
  Variable ewf : expr -> Prop.
  Definition is_etok (t : T) : Prop := etok_of t <> None.
  Hypothesis er_toks : forall e, Forall is_etok (er e).
  Hypothesis er_parse : forall e, ewf e -> parse_expression (fst (take_etoks (er e))) = Some e.
  Hypothesis er_call : forall f args, ewf (ECall f args) ->
    parse_call_toks (fst (take_etoks (er (ECall f args)))) = Some (f, args).
  Hypothesis er_value : forall v, ewf v -> (exists a, v = expr_of_atom a) \/ (exists f args, v = ECall f args) ->
    parse_value_toks (fst (take_etoks (er v))) = Some v.

  Definition p_hashtags (tags : list str) : list T :=
    flat_map (fun s => [tk K_HASHTAG; (K_HASHTAG_TEXT, s)]) tags.
  Definition p_telem (t : telem) : list T :=
    match t with
    | TText s => [(K_TEXT, s)]
    | TExpr e => tk K_EXPRESSION_START :: er e ++ [tk K_EXPRESSION_END]
    end.
  Definition p_cond (c : option expr) : list T :=
    match c with
    | Some e => tk K_COMMAND_START :: tk K_COMMAND_IF :: er e ++ [tk K_COMMAND_END]
    | None => []
    end.
  Definition p_line (l : line) : list T :=
    flat_map p_telem (ltext l) ++ p_cond (lcond l) ++ p_hashtags (ltags l) ++ [tk K_NEWLINE].
  Definition p_relem (r : relem) : list T :=
    match r with
    | RText s => [(K_COMMAND_TEXT, s)]
    | RExpr e => tk K_COMMAND_EXPRESSION_START :: er e ++ [tk K_EXPRESSION_END]
    end.

  Fixpoint pw (w : wstmt) : list T :=
    let ps := fix ps (ws : list wstmt) : list T :=
                match ws with [] => [] | w :: r => pw w ++ ps r end in
    match w with
    | WLine l => p_line l
    | WOpts os blank =>
        (fix go (os : list (line * list wstmt)) :=
           match os with
           | [] => []
           | (l, b) :: r =>
               tk K_SHORTCUT_ARROW :: p_line l ++
               match b with [] => [] | _ => tk K_INDENT :: ps b ++ [tk K_DEDENT] end ++ go r
           end) os ++ (if blank then [tk K_BLANK_LINE_FOLLOWING_OPTION] else [])
    | WSet x op e =>
        tk K_COMMAND_START :: tk K_COMMAND_SET :: (K_VAR_ID, 36%N :: x) :: tk (kind_of_setop op) :: er e ++ [tk K_COMMAND_END]
    | WJumpName d => [tk K_COMMAND_START; tk K_COMMAND_JUMP; (K_ID, d); tk K_COMMAND_END]
    | WJumpExpr e =>
        tk K_COMMAND_START :: tk K_COMMAND_JUMP :: tk K_EXPRESSION_START :: er e ++ [tk K_EXPRESSION_END; tk K_COMMAND_END]
    | WIf c b elifs els =>
        tk K_COMMAND_START :: tk K_COMMAND_IF :: er c ++ tk K_COMMAND_END :: ps b ++
        (fix go (cs : list (expr * list wstmt)) :=
           match cs with
           | [] => []
           | (c', b') :: r => tk K_COMMAND_START :: tk K_COMMAND_ELSEIF :: er c' ++ tk K_COMMAND_END :: ps b' ++ go r
           end) elifs ++
        match els with
        | Some b' => tk K_COMMAND_START :: tk K_COMMAND_ELSE :: tk K_COMMAND_END :: ps b'
        | None => []
        end ++ [tk K_COMMAND_START; tk K_COMMAND_ENDIF; tk K_COMMAND_END]
    | WCmd els => tk K_COMMAND_START :: flat_map p_relem els ++ [tk K_COMMAND_TEXT_END]
    | WCall f args => tk K_COMMAND_START :: tk K_COMMAND_CALL :: er (ECall f args) ++ [tk K_COMMAND_END]
    | WDeclare x v ty =>
        tk K_COMMAND_START :: tk K_COMMAND_DECLARE :: (K_VAR_ID, 36%N :: x) :: tk K_OPERATOR_ASSIGNMENT :: er v ++
        match ty with Some t => [tk K_EXPRESSION_AS; (K_FUNC_ID, t)] | None => [] end ++ [tk K_COMMAND_END]
    | WBlock ws => tk K_INDENT :: ps ws ++ [tk K_DEDENT]
    end.

  Fixpoint pws (ws : list wstmt) : list T :=
    match ws with [] => [] | w :: r => pw w ++ pws r end.

  Definition p_body (b : list wstmt) : list T :=
    match b with [] => [] | _ => tk K_INDENT :: pws b ++ [tk K_DEDENT] end.
  Fixpoint p_opts (os : list (line * list wstmt)) : list T :=
    match os with
    | [] => []
    | (l, b) :: r => tk K_SHORTCUT_ARROW :: p_line l ++ p_body b ++ p_opts r
    end.
  Fixpoint p_elifs (cs : list (expr * list wstmt)) : list T :=
    match cs with
    | [] => []
    | (c', b') :: r => tk K_COMMAND_START :: tk K_COMMAND_ELSEIF :: er c' ++ tk K_COMMAND_END :: pws b' ++ p_elifs r
    end.
  Definition p_else (els : option (list wstmt)) : list T :=
    match els with
    | Some b' => tk K_COMMAND_START :: tk K_COMMAND_ELSE :: tk K_COMMAND_END :: pws b'
    | None => []
    end.
  Definition endif_toks : list T := [tk K_COMMAND_START; tk K_COMMAND_ENDIF; tk K_COMMAND_END].

  Lemma pw_opts os blank :
    pw (WOpts os blank) = p_opts os ++ (if blank then [tk K_BLANK_LINE_FOLLOWING_OPTION] else []).
  Proof. reflexivity. Qed.
  Lemma pw_if c b elifs els :
    pw (WIf c b elifs els) =
    tk K_COMMAND_START :: tk K_COMMAND_IF :: er c ++ tk K_COMMAND_END :: pws b ++ p_elifs elifs ++ p_else els ++ endif_toks.
  Proof. reflexivity. Qed.
  Lemma pw_block ws : pw (WBlock ws) = tk K_INDENT :: pws ws ++ [tk K_DEDENT].
  Proof. reflexivity. Qed.

  (* ---------- expressions in their contexts ---------- *)
  Lemma take_etoks_app es d rest : Forall is_etok es -> etok_of d = None ->
    take_etoks (es ++ d :: rest) = (fst (take_etoks es), d :: rest).
  Proof.
    Local Transparent take_etoks.
    intros H Hd. induction H as [|t es Ht _ IH]; cbn [app take_etoks fst].
    - rewrite Hd. reflexivity.
    - unfold is_etok in Ht. destruct (etok_of t) as [e|]; [|congruence].
      rewrite IH. destruct (take_etoks es) as [a b]. reflexivity.
    Local Opaque take_etoks.
  Qed.

  Lemma span_ok e d rest : ewf e -> etok_of d = None ->
    parse_expr_span (er e ++ d :: rest) = Some (e, d :: rest).
  Proof.
    Local Transparent parse_expr_span.
    intros He Hd. unfold parse_expr_span. rewrite (take_etoks_app _ _ _ (er_toks e) Hd), (er_parse e He). reflexivity.
    Local Opaque parse_expr_span.
  Qed.

  (* ---------- lines ---------- *)
  Definition text_ok (t : telem) : Prop := match t with TText s => s <> [] | TExpr e => ewf e end.
  Fixpoint no_adjacent_text (ts : list telem) : Prop :=
    match ts with
    | TText _ :: ((TText _ :: _) as r) => False
    | _ :: r => no_adjacent_text r
    | [] => True
    end.
  Definition line_ok (l : line) : Prop :=
    ltext l <> [] /\ Forall text_ok (ltext l) /\ no_adjacent_text (ltext l) /\
    match lcond l with Some c => ewf c | None => True end.

  Lemma no_adj_tail t els : no_adjacent_text (t :: els) -> no_adjacent_text els.
  Proof. destruct t; destruct els as [|[?|?] ?]; cbn; tauto. Qed.
  Lemma no_adj_text_head s els : no_adjacent_text (TText s :: els) ->
    match els with TText _ :: _ => False | _ => True end.
  Proof. destruct els as [|[?|?] ?]; cbn; tauto. Qed.

  Definition ends_text (acc : list telem) : bool :=
    match rev acc with TText _ :: _ => true | _ => false end.

  Lemma add_text_fresh acc s : ends_text acc = false -> add_text acc s = acc ++ [TText s].
  Proof.
    unfold ends_text, add_text. destruct (rev acc) as [|[t|e] r]; intros H; try reflexivity. discriminate.
  Qed.

  Lemma ends_text_snoc_text acc s : ends_text (acc ++ [TText s]) = true.
  Proof. unfold ends_text. rewrite rev_app_distr. reflexivity. Qed.
  Lemma ends_text_snoc_expr acc e : ends_text (acc ++ [TExpr e]) = false.
  Proof. unfold ends_text. rewrite rev_app_distr. reflexivity. Qed.

  Definition stops_ftext (ts : list T) : Prop :=
    match ts with (K_TEXT, _) :: _ | (K_EXPRESSION_START, _) :: _ => False | _ => True end.

  Lemma parse_ftext_stop f ts acc : stops_ftext ts -> acc <> [] -> parse_ftext (S f) ts acc = Some (acc, ts).
  Proof.
    intros Hs Ha. cbn [parse_ftext]. destruct ts as [|[k s] r]; [destruct acc; [contradiction|reflexivity]|].
    destruct k; cbn in Hs; try contradiction; destruct acc; try contradiction; reflexivity.
  Qed.

  Lemma parse_ftext_ok : forall els acc rest fuel,
    Forall text_ok els -> no_adjacent_text els ->
    (match els with TText _ :: _ => ends_text acc = false | _ => True end) ->
    stops_ftext rest -> acc ++ els <> [] -> length els < fuel ->
    parse_ftext fuel (flat_map p_telem els ++ rest) acc = Some (acc ++ els, rest).
  Proof.
    induction els as [|t els IH]; intros acc rest fuel Hok Hadj Hacc Hstop Hne Hf.
    - cbn [flat_map app]. rewrite app_nil_r in *. destruct fuel; [cbn in Hf; lia|]. apply parse_ftext_stop; assumption.
    - destruct fuel as [|f]; [cbn in Hf; lia|]. cbn [length] in Hf.
      inversion Hok as [|? ? Ht Hok']; subst.
      destruct t as [s|e]; cbn [flat_map p_telem app].
      + cbn [parse_ftext]. rewrite add_text_fresh by exact Hacc.
        replace (acc ++ TText s :: els) with ((acc ++ [TText s]) ++ els) by (rewrite <- app_assoc; reflexivity).
        apply IH; [exact Hok'|exact (no_adj_tail _ _ Hadj)| |exact Hstop| |lia].
        * pose proof (no_adj_text_head _ _ Hadj) as Hh. destruct els as [|[s'|e'] els']; try exact I. contradiction.
        * destruct (acc ++ [TText s]) eqn:E; [destruct acc; discriminate|]. destruct els; discriminate.
      + cbn [parse_ftext]. norm.
        rewrite span_ok by (exact Ht || reflexivity).
        replace (acc ++ TExpr e :: els) with ((acc ++ [TExpr e]) ++ els) by (rewrite <- app_assoc; reflexivity).
        apply IH; [exact Hok'|exact (no_adj_tail _ _ Hadj)| |exact Hstop| |lia].
        * destruct els as [|[s'|e'] els']; try exact I. apply ends_text_snoc_expr.
        * destruct (acc ++ [TExpr e]) eqn:E; [destruct acc; discriminate|]. destruct els; discriminate.
  Qed.

  Lemma parse_hashtags_ok tags rest :
    (match rest with (K_HASHTAG, _) :: _ => False | _ => True end) ->
    parse_hashtags (p_hashtags tags ++ rest) = (tags, rest).
  Proof.
    Local Transparent parse_hashtags.
    intros Hr. induction tags as [|t tags IH]; cbn [p_hashtags flat_map app].
    - destruct rest as [|[k s] r]; [reflexivity|]. destruct k; try reflexivity. contradiction.
    - change (flat_map (fun s => [tk K_HASHTAG; (K_HASHTAG_TEXT, s)]) tags) with (p_hashtags tags).
      cbn [parse_hashtags]. rewrite IH. reflexivity.
    Local Opaque parse_hashtags.
  Qed.

  Lemma flat_len els : length els <= length (flat_map p_telem els).
  Proof.
    induction els as [|t r IH]; [cbn; lia|]. cbn [flat_map length]. rewrite app_length.
    destruct t; cbn [p_telem length]; lia.
  Qed.

  Lemma parse_line_ok l rest : line_ok l -> parse_line (p_line l ++ rest) = Some (l, rest).
  Proof.
    Local Transparent parse_line.
    intros (Hne & Hok & Hadj & Hc). unfold parse_line, p_line.
    rewrite <- !app_assoc.
    assert (Hft : forall tail, stops_ftext tail ->
              parse_ftext (S (length (flat_map p_telem (ltext l) ++ tail))) (flat_map p_telem (ltext l) ++ tail) []
              = Some (ltext l, tail)).
    { intros tail Ht. apply (parse_ftext_ok (ltext l) [] tail); [exact Hok|exact Hadj| |exact Ht|exact Hne| ].
      - destruct (ltext l) as [|[s|e] r]; try exact I. reflexivity.
      - rewrite app_length. pose proof (flat_len (ltext l)). lia. }
    destruct l as [txt cond tags]; cbn [ltext lcond ltags] in *.
    destruct cond as [c|]; cbn [p_cond app].
    - rewrite Hft by exact I.
      norm. rewrite span_ok by (exact Hc || reflexivity). cbv beta iota zeta.
      rewrite parse_hashtags_ok by exact I. reflexivity.
    - assert (Hs : stops_ftext (p_hashtags tags ++ [tk K_NEWLINE] ++ rest)).
      { destruct tags; cbn; exact I. }
      rewrite Hft by exact Hs.
      destruct tags as [|t tags].
      + cbn [p_hashtags flat_map app]. change (parse_hashtags ((K_NEWLINE, []) :: rest)) with (parse_hashtags (p_hashtags [] ++ (K_NEWLINE, []) :: rest)).
        rewrite parse_hashtags_ok by exact I. reflexivity.
      + cbn [p_hashtags flat_map app].
        change ((K_HASHTAG, []) :: (K_HASHTAG_TEXT, t) :: flat_map (fun s => [tk K_HASHTAG; (K_HASHTAG_TEXT, s)]) tags ++ (K_NEWLINE, []) :: rest)
          with (p_hashtags (t :: tags) ++ (K_NEWLINE, []) :: rest).
        rewrite parse_hashtags_ok by exact I. reflexivity.
    Local Opaque parse_line.
  Qed.

  (* ---------- generic commands ---------- *)
  Definition relem_ok (r : relem) : Prop := match r with RText _ => True | RExpr e => ewf e end.

  Lemma parse_ctext_ok : forall els acc rest fuel, Forall relem_ok els ->
    (match rest with (K_COMMAND_TEXT, _) :: _ | (K_COMMAND_EXPRESSION_START, _) :: _ => False | _ => True end) ->
    length els < fuel ->
    parse_ctext fuel (flat_map p_relem els ++ rest) acc = Some (acc ++ els, rest).
  Proof.
    Local Transparent parse_ctext.
    induction els as [|t els IH]; intros acc rest fuel Hok Hr Hf.
    - cbn [flat_map app]. rewrite app_nil_r. destruct fuel; [cbn in Hf; lia|]. cbn [parse_ctext].
      destruct rest as [|[k s] r]; [reflexivity|]. destruct k; try reflexivity; contradiction.
    - destruct fuel as [|f]; [cbn in Hf; lia|]. cbn [length] in Hf. inversion Hok as [|? ? Ht Hok']; subst.
      destruct t as [s|e]; cbn [flat_map p_relem app parse_ctext].
      + replace (acc ++ RText s :: els) with ((acc ++ [RText s]) ++ els) by (rewrite <- app_assoc; reflexivity).
        apply IH; try assumption. lia.
      + norm. rewrite span_ok by (exact Ht || reflexivity).
        replace (acc ++ RExpr e :: els) with ((acc ++ [RExpr e]) ++ els) by (rewrite <- app_assoc; reflexivity).
        apply IH; try assumption. lia.
    Local Opaque parse_ctext.
  Qed.

  (* ---------- well-formed written statements ---------- *)
  Definition hd_kind (ts : list T) : kind := match ts with (k, _) :: _ => k | [] => K_EOF end.

  Definition last_body_empty (os : list (line * list wstmt)) : bool :=
    match rev os with (_, []) :: _ => true | _ => false end.

  (* the kind of the first token of [pws ws] followed by a token of kind k *)
  Definition first_kind (ws : list wstmt) (k : kind) : kind := hd_kind (pws ws ++ [(k, [])]).

  (* [wf1 w k]: w may be written in front of a token of kind k *)
  Inductive wf1 : wstmt -> kind -> Prop :=
  | wf_line l k : line_ok l -> wf1 (WLine l) k
  | wf_opts os blank k :
      os <> [] ->
      Forall (fun o => line_ok (fst o) /\ wfs (snd o) K_DEDENT) os ->
      (blank = true \/ (k <> K_SHORTCUT_ARROW /\ k <> K_BLANK_LINE_FOLLOWING_OPTION /\ (last_body_empty os = true -> k <> K_INDENT))) ->
      wf1 (WOpts os blank) k
  | wf_set x op e k : ewf e -> wf1 (WSet x op e) k
  | wf_jump_name d k : wf1 (WJumpName d) k
  | wf_jump_expr e k : ewf e -> wf1 (WJumpExpr e) k
  | wf_if c b elifs els k :
      ewf c -> wfs b K_COMMAND_START ->
      Forall (fun cb => ewf (fst cb) /\ wfs (snd cb) K_COMMAND_START) elifs ->
      (forall b', els = Some b' -> wfs b' K_COMMAND_START) ->
      wf1 (WIf c b elifs els) k
  | wf_cmd els k : Forall relem_ok els -> k <> K_HASHTAG -> wf1 (WCmd els) k
  | wf_call f args k : ewf (ECall f args) -> wf1 (WCall f args) k
  | wf_declare x v ty k : ewf v -> (exists a, v = expr_of_atom a) \/ (exists f args, v = ECall f args) ->
      wf1 (WDeclare x v ty) k
  | wf_block ws k : wfs ws K_DEDENT -> wf1 (WBlock ws) k
  with wfs : list wstmt -> kind -> Prop :=
  | wfs_nil k : wfs [] k
  | wfs_cons w r k : wf1 w (first_kind r k) -> wfs r k -> wfs (w :: r) k.

  Lemma hd_kind_app l rest : hd_kind (l ++ rest) = hd_kind (l ++ [(hd_kind rest, [])]).
  Proof. destruct l as [|[k s] l]; [destruct rest as [|[k s] r]; reflexivity|reflexivity]. Qed.

  (* ---------- sizes (fuel) ---------- *)
  Fixpoint wsize (w : wstmt) : nat :=
    let ss := fix ss (ws : list wstmt) : nat := match ws with [] => 1 | w :: r => wsize w + ss r end in
    match w with
    | WOpts os _ => 3 + (fix go (os : list (line * list wstmt)) :=
                           match os with [] => 0 | (_, b) :: r => 2 + ss b + go r end) os
    | WIf _ b elifs els =>
        4 + ss b + (fix go (cs : list (expr * list wstmt)) :=
                      match cs with [] => 0 | (_, b') :: r => 2 + ss b' + go r end) elifs +
        match els with Some b' => 2 + ss b' | None => 0 end
    | WBlock ws => 2 + ss ws
    | _ => 2
    end.
  Fixpoint wssize (ws : list wstmt) : nat := match ws with [] => 1 | w :: r => wsize w + wssize r end.
  Fixpoint osize (os : list (line * list wstmt)) : nat :=
    match os with [] => 0 | (_, b) :: r => 2 + wssize b + osize r end.
  Fixpoint csize (cs : list (expr * list wstmt)) : nat :=
    match cs with [] => 0 | (_, b) :: r => 2 + wssize b + csize r end.
  Definition elsize (els : option (list wstmt)) : nat := match els with Some b' => 2 + wssize b' | None => 0 end.

  Lemma wsize_opts os bl : wsize (WOpts os bl) = 3 + osize os.
  Proof. reflexivity. Qed.
  Lemma wsize_if c b elifs els : wsize (WIf c b elifs els) = 4 + wssize b + csize elifs + elsize els.
  Proof. reflexivity. Qed.
  Lemma wsize_block ws : wsize (WBlock ws) = 2 + wssize ws.
  Proof. reflexivity. Qed.
  Lemma wsize_pos w : 2 <= wsize w.
  Proof. destruct w; rewrite ?wsize_opts, ?wsize_if, ?wsize_block; try lia; cbn; lia. Qed.
  Lemma wssize_pos ws : 1 <= wssize ws.
  Proof. destruct ws; cbn [wssize]; [lia|]. pose proof (wsize_pos w). lia. Qed.

  (* ---------- one step of the statement parsers on a known first token ---------- *)
  Lemma parse_stmts_step f ts : starts_statement ts = true -> hd_kind ts <> K_INDENT ->
    parse_stmts (S f) ts =
    match parse_stmt f ts with
    | Some (s, r) => match parse_stmts f r with
                     | Some (rest, r2) => Some (s :: rest, r2)
                     | None => None
                     end
    | None => None
    end.
  Proof.
    intros H Hk. rewrite parse_stmts_eq, H. destruct ts as [|[k s] r]; [reflexivity|].
    destruct k; try reflexivity. cbn in Hk. congruence.
  Qed.

  Lemma parse_stmt_line f ts : hd_kind ts = K_TEXT \/ hd_kind ts = K_EXPRESSION_START ->
    parse_stmt (S f) ts = match parse_line ts with Some (l, r) => Some (SLine l, r) | None => None end.
  Proof.
    intros H. destruct ts as [|[k s] r]; [cbn in H; destruct H; discriminate|].
    destruct k; cbn in H; destruct H; try discriminate; reflexivity.
  Qed.

  Lemma starts_line ts : hd_kind ts = K_TEXT \/ hd_kind ts = K_EXPRESSION_START -> starts_statement ts = true.
  Proof.
    intros H. destruct ts as [|[k s] r]; [cbn in H; destruct H; discriminate|].
    destruct k; cbn in H; destruct H; try discriminate; reflexivity.
  Qed.

  Lemma p_line_head l tail : line_ok l ->
    hd_kind (p_line l ++ tail) = K_TEXT \/ hd_kind (p_line l ++ tail) = K_EXPRESSION_START.
  Proof.
    intros (Hne & _). unfold p_line. destruct (ltext l) as [|[s|e] r]; [contradiction| |]; cbn; auto.
  Qed.

  (* what follows an if body / an elseif body: never the start of a statement *)
  Lemma clauses_stop elifs els tail : starts_statement (p_elifs elifs ++ p_else els ++ endif_toks ++ tail) = false.
  Proof. destruct elifs as [|[c b] r]; [destruct els|]; reflexivity. Qed.

  Definition mean_else (els : option (list wstmt)) : list (expr * list stmt) :=
    match els with Some b' => [(EVal (VBool true), meaning b')] | None => [] end.

  (* ---------- the main statement ---------- *)
  Definition stmts_ok (n : nat) : Prop :=
    forall ws rest fuel, wssize ws <= n -> wfs ws (hd_kind rest) -> starts_statement rest = false ->
      wssize ws <= fuel -> parse_stmts fuel (pws ws ++ rest) = Some (meaning ws, rest).

  Lemma parse_options_ok n : stmts_ok n ->
    forall os tail fuel, os <> [] -> osize os <= n ->
      Forall (fun o => line_ok (fst o) /\ wfs (snd o) K_DEDENT) os ->
      hd_kind tail <> K_SHORTCUT_ARROW -> (last_body_empty os = true -> hd_kind tail <> K_INDENT) ->
      osize os < fuel ->
      parse_options fuel (p_opts os ++ tail) = Some (mopts os, tail).
  Proof.
    intros IHn. induction os as [|[l b] r IH]; intros tail fuel Hne Hsz Hwf Harrow Hind Hf; [contradiction|].
    inversion Hwf as [|? ? [Hl Hb] Hwf']; subst. cbn [fst snd] in *.
    destruct fuel as [|f]; [lia|]. cbn [osize] in Hsz, Hf.
    cbn [p_opts mopts]. norm. cbn [parse_options].
    rewrite parse_line_ok by exact Hl.
    assert (Hlast : r <> [] -> last_body_empty ((l, b) :: r) = last_body_empty r).
    { intros Hr. unfold last_body_empty. cbn [rev]. destruct (rev r) eqn:E.
      - apply (f_equal (@rev _)) in E. rewrite rev_involutive in E. contradiction.
      - reflexivity. }
    (* the rest of the group, once the body of this option is read *)
    assert (Hrest : forall bm, (match p_opts r ++ tail with
                                | (K_SHORTCUT_ARROW, _) :: _ =>
                                    match parse_options f (p_opts r ++ tail) with
                                    | Some (os', r5) => Some ((l, bm) :: os', r5)
                                    | None => None
                                    end
                                | _ => Some ([(l, bm)], p_opts r ++ tail)
                                end) = Some ((l, bm) :: mopts r, tail)).
    { intros bm. destruct r as [|[l' b'] r'].
      - cbn [p_opts app mopts]. destruct tail as [|[k s] t]; [reflexivity|]. destruct k; try reflexivity. cbn in Harrow. congruence.
      - rewrite IH; [| discriminate | lia | exact Hwf' | exact Harrow | | lia].
        + cbn [p_opts app]. reflexivity.
        + intros E. apply Hind. rewrite Hlast by discriminate. exact E. }
    destruct b as [|w b'].
    - cbn [p_body app meaning].
      assert (Hni : hd_kind (p_opts r ++ tail) <> K_INDENT).
      { destruct r as [|[l' b''] r']; [|cbn; discriminate]. cbn [p_opts app]. apply Hind. reflexivity. }
      specialize (Hrest []). set (q := p_opts r ++ tail) in *. clearbody q.
      destruct q as [|[k s] t]; [exact Hrest|].
      destruct k; try exact Hrest. cbn in Hni. congruence.
    - cbn [p_body]. norm.
      pose proof (IHn (w :: b') ((K_DEDENT, []) :: p_opts r ++ tail) f) as X.
      rewrite X; [| lia | exact Hb | reflexivity | lia].
      exact (Hrest (meaning (w :: b'))).
  Qed.

  Lemma parse_clauses_ok n : stmts_ok n ->
    forall elifs els tail fuel, csize elifs + elsize els <= n ->
      Forall (fun cb => ewf (fst cb) /\ wfs (snd cb) K_COMMAND_START) elifs ->
      (forall b', els = Some b' -> wfs b' K_COMMAND_START) ->
      csize elifs + elsize els < fuel ->
      parse_clauses fuel (p_elifs elifs ++ p_else els ++ endif_toks ++ tail) = Some (mclauses elifs ++ mean_else els, tail).
  Proof.
    intros IHn. induction elifs as [|[c b] r IH]; intros els tail fuel Hsz Hwf Hels Hf.
    - cbn [p_elifs app mclauses csize] in *. destruct fuel as [|f]; [lia|].
      destruct els as [b'|]; cbn [p_else elsize mean_else] in *.
      + norm. cbn [parse_clauses].
        rewrite (IHn b' (endif_toks ++ tail) f); [reflexivity | lia | exact (Hels b' eq_refl) | reflexivity | lia].
      + reflexivity.
    - inversion Hwf as [|? ? [Hc Hb] Hwf']; subst. cbn [fst snd] in *.
      destruct fuel as [|f]; [lia|]. cbn [csize] in Hsz, Hf. cbn [p_elifs mclauses]. norm. cbn [parse_clauses].
      rewrite span_ok by (exact Hc || reflexivity).
      rewrite (IHn b (p_elifs r ++ p_else els ++ endif_toks ++ tail) f);
        [| lia | | apply clauses_stop | lia].
      + rewrite IH; [reflexivity | lia | exact Hwf' | exact Hels | lia].
      + destruct r as [|[c' b''] r']; [destruct els|]; exact Hb.
  Qed.

  Theorem parse_written_n : forall n, stmts_ok n.
  Proof.
    induction n as [n IHn] using lt_wf_ind.
    assert (IHlt : forall m, m < n -> stmts_ok m) by exact IHn.
    (* the induction hypothesis for everything strictly smaller, as one statement *)
    assert (IHs : forall ws rest fuel, wssize ws < n -> wfs ws (hd_kind rest) -> starts_statement rest = false ->
                    wssize ws <= fuel -> parse_stmts fuel (pws ws ++ rest) = Some (meaning ws, rest)).
    { intros ws rest fuel Hlt. apply (IHlt (wssize ws) Hlt). lia. }
    assert (IHok : forall m, m < n -> stmts_ok m).
    { intros m Hm ws rest fuel Hsz. apply IHs. lia. }
    intros ws rest fuel Hsz Hwf Hstop Hfuel.
    destruct ws as [|w r].
    - cbn [pws app meaning]. cbn [wssize] in Hfuel. destruct fuel as [|f]; [lia|]. apply parse_stmts_stop. exact Hstop.
    - inversion Hwf as [|? ? ? Hw Hr]; subst.
      cbn [wssize] in Hsz, Hfuel. pose proof (wsize_pos w) as Hwp. pose proof (wssize_pos r) as Hrp.
      destruct fuel as [|f]; [lia|].
      assert (Hk : first_kind r (hd_kind rest) = hd_kind (pws r ++ rest)).
      { unfold first_kind. symmetry. apply hd_kind_app. }
      rewrite Hk in Hw.
      (* the statements after w *)
      assert (Hnext : parse_stmts f (pws r ++ rest) = Some (meaning r, rest)).
      { apply IHs; [lia | exact Hr | exact Hstop | lia]. }
      cbn [pws meaning]. rewrite <- app_assoc.
      set (tail := pws r ++ rest) in *.
      destruct w as [l|os blank|x op e|d|e|c b elifs els|els|fn args|x v ty|ws'].
      + (* line *)
        inversion Hw as [? ? Hl| | | | | | | | |]; subst.
        pose proof (p_line_head l tail Hl) as Hh.
        change (pw (WLine l)) with (p_line l). change (meaning1 (WLine l)) with [SLine l].
        rewrite parse_stmts_step; [| apply starts_line; exact Hh | destruct Hh as [E|E]; rewrite E; discriminate].
        destruct f as [|f']; [lia|].
        rewrite parse_stmt_line by exact Hh.
        rewrite parse_line_ok by exact Hl.
        rewrite Hnext. reflexivity.
      + (* option group *)
        inversion Hw as [|? ? ? Hne Hos Hafter| | | | | | | |]; subst.
        rewrite wsize_opts in Hsz, Hfuel. rewrite pw_opts, meaning1_opts. rewrite <- app_assoc.
        destruct os as [|[l0 b0] os']; [contradiction|].
        rewrite parse_stmts_step; [| reflexivity | cbn; discriminate].
        destruct f as [|f']; [lia|].
        change (p_opts ((l0, b0) :: os')) with ((K_SHORTCUT_ARROW, []) :: p_line l0 ++ p_body b0 ++ p_opts os').
        cbn [app parse_stmt].
        change ((K_SHORTCUT_ARROW, []) :: (p_line l0 ++ p_body b0 ++ p_opts os') ++ (if blank then [(K_BLANK_LINE_FOLLOWING_OPTION, [])] else []) ++ tail)
          with (p_opts ((l0, b0) :: os') ++ ((if blank then [(K_BLANK_LINE_FOLLOWING_OPTION, [])] else []) ++ tail)).
        assert (Hlt : osize ((l0, b0) :: os') < n) by lia.
        rewrite (parse_options_ok (osize ((l0, b0) :: os')) (IHok _ Hlt));
          [| discriminate | lia | exact Hos | | | lia].
        * destruct blank; cbn [app].
          -- rewrite Hnext. reflexivity.
          -- destruct Hafter as [E|(Ha & Hbl & Hb)]; [discriminate|].
             destruct tail as [|[k s] t] eqn:Et; [rewrite Hnext; reflexivity|].
             destruct k; try (rewrite Hnext; reflexivity). cbn in Hbl. congruence.
        * destruct blank; cbn [app]; [cbn; discriminate|]. destruct Hafter as [E|(Ha & Hbl & Hb)]; [discriminate|exact Ha].
        * destruct blank; cbn [app]; [cbn; discriminate|]. destruct Hafter as [E|(Ha & Hbl & Hb)]; [discriminate|exact Hb].
      + (* set *)
        inversion Hw; subst. cbn [pw meaning1]. norm.
        rewrite parse_stmts_step; [| reflexivity | cbn; discriminate].
        destruct f as [|f']; [cbn in Hfuel; lia|].
        cbn [parse_stmt]. unfold parse_simple_command. rewrite setop_roundtrip.
        rewrite span_ok by (assumption || reflexivity). cbn [tl].
        change (parse_stmts (S f') tail) with (parse_stmts (S f') tail). rewrite Hnext. reflexivity.
      + (* jump by name *)
        cbn [pw meaning1 app]. rewrite parse_stmts_step; [| reflexivity | cbn; discriminate].
        destruct f as [|f']; [cbn in Hfuel; lia|].
        cbn [parse_stmt]. unfold parse_simple_command. rewrite Hnext. reflexivity.
      + (* jump by expression *)
        inversion Hw; subst. cbn [pw meaning1]. norm.
        rewrite parse_stmts_step; [| reflexivity | cbn; discriminate].
        destruct f as [|f']; [cbn in Hfuel; lia|].
        cbn [parse_stmt]. unfold parse_simple_command.
        rewrite span_ok by (assumption || reflexivity). rewrite Hnext. reflexivity.
      + (* if *)
        inversion Hw as [| | | | |? ? ? ? ? Hc Hb Helifs Hels| | | |]; subst.
        rewrite wsize_if in Hsz, Hfuel. rewrite pw_if, meaning1_if. norm.
        rewrite parse_stmts_step; [| reflexivity | cbn; discriminate].
        destruct f as [|f']; [lia|].
        cbn [parse_stmt]. rewrite span_ok by (assumption || reflexivity).
        rewrite (IHs b (p_elifs elifs ++ p_else els ++ endif_toks ++ tail) f');
          [| lia | | apply clauses_stop | lia].
        * assert (Hlt : csize elifs + elsize els < n) by lia.
          rewrite (parse_clauses_ok (csize elifs + elsize els) (IHok _ Hlt)); [| lia | exact Helifs | exact Hels | lia].
          rewrite Hnext. reflexivity.
        * destruct elifs as [|[c' b''] r']; [destruct els|]; exact Hb.
      + (* generic command *)
        inversion Hw as [| | | | | |? ? Hels Hnh| | |]; subst. cbn [pw meaning1]. norm.
        assert (Hct : forall fuel', length els < fuel' ->
                  parse_ctext fuel' (flat_map p_relem els ++ (K_COMMAND_TEXT_END, []) :: tail) [] = Some (els, (K_COMMAND_TEXT_END, []) :: tail)).
        { intros fuel' Hf'. apply (parse_ctext_ok els [] ((K_COMMAND_TEXT_END, []) :: tail)); [exact Hels | exact I | exact Hf']. }
        assert (Hlen : length els < S (length (flat_map p_relem els ++ (K_COMMAND_TEXT_END, []) :: tail))).
        { rewrite app_length. assert (length els <= length (flat_map p_relem els)).
          { clear. induction els as [|t r IH]; [cbn; lia|]. cbn [flat_map length]. rewrite app_length.
            destruct t; cbn [p_relem length]; lia. }
          lia. }
        assert (Htail : match tail with (K_HASHTAG, _) :: (K_HASHTAG_TEXT, _) :: _ => None
                                   | _ => Some (SCmd (rearrange els []), tail) end = Some (SCmd (rearrange els []), tail)).
        { destruct tail as [|[k s] t]; [reflexivity|]. destruct k; try reflexivity. cbn in Hnh. congruence. }
        rewrite parse_stmts_step; [| destruct els as [|[s|e] els']; reflexivity | cbn; discriminate].
        destruct f as [|f']; [cbn in Hfuel; lia|].
        assert (Hps : parse_stmt (S f') ((K_COMMAND_START, []) :: flat_map p_relem els ++ (K_COMMAND_TEXT_END, []) :: tail)
                      = Some (SCmd (rearrange els []), tail)).
        { specialize (Hct _ Hlen).
          destruct els as [|[s|e] els']; cbn [flat_map p_relem app] in *; norm; norm_in Hct;
            cbn [parse_stmt]; unfold parse_simple_command; rewrite Hct; exact Htail. }
        rewrite Hps, Hnext. reflexivity.
      + (* call *)
        inversion Hw; subst. cbn [pw meaning1]. norm.
        rewrite parse_stmts_step; [| reflexivity | cbn; discriminate].
        destruct f as [|f']; [cbn in Hfuel; lia|].
        cbn [parse_stmt]. unfold parse_simple_command.
        rewrite (take_etoks_app _ _ _ (er_toks _)) by reflexivity. rewrite er_call by assumption.
        rewrite Hnext. reflexivity.
      + (* declare *)
        inversion Hw as [| | | | | | | |? ? ? ? Hv Hshape|]; subst. cbn [pw meaning1]. norm.
        rewrite parse_stmts_step; [| reflexivity | cbn; discriminate].
        destruct f as [|f']; [cbn in Hfuel; lia|].
        cbn [parse_stmt]. unfold parse_simple_command.
        destruct ty as [t|]; norm;
          rewrite (take_etoks_app _ _ _ (er_toks _)) by reflexivity; rewrite er_value by assumption;
          cbn [tl]; rewrite Hnext; reflexivity.
      + (* INDENT ... DEDENT *)
        inversion Hw; subst. rewrite wsize_block in Hsz, Hfuel. rewrite pw_block, meaning1_block. norm.
        rewrite parse_stmts_eq. cbn [starts_statement].
        rewrite (IHs ws' ((K_DEDENT, []) :: tail) f); [| lia | assumption | reflexivity | lia].
        rewrite Hnext. reflexivity.
  Qed.

  Theorem parse_written : forall ws rest fuel,
    wfs ws (hd_kind rest) -> starts_statement rest = false -> wssize ws <= fuel ->
    parse_stmts fuel (pws ws ++ rest) = Some (meaning ws, rest).
  Proof. intros ws rest fuel. apply (parse_written_n (wssize ws)). lia. Qed.
End Written.

(* a node with one header around a written body (the fuel the model gives parse_stmts is
   2 * tokens + 4; that it always suffices is not proved here - it is a premise) *)
Theorem parse_written_node (er : expr -> list (kind * str)) (ewf : expr -> Prop) :
  (forall e, Forall is_etok (er e)) ->
  (forall e, ewf e -> parse_expression (fst (take_etoks (er e))) = Some e) ->
  (forall f args, ewf (ECall f args) -> parse_call_toks (fst (take_etoks (er (ECall f args)))) = Some (f, args)) ->
  (forall v, ewf v -> (exists a, v = expr_of_atom a) \/ (exists f args, v = ECall f args) ->
             parse_value_toks (fst (take_etoks (er v))) = Some v) ->
  forall k d v s ws e rest,
    wfs er ewf ws K_BODY_END ->
    wssize ws <= stmt_fuel (pws er ws ++ (K_BODY_END, e) :: rest) ->
    parse_node ((K_ID, k) :: (K_HEADER_DELIMITER, d) :: (K_REST_OF_LINE, v) :: (K_BODY_START, s) :: pws er ws ++ (K_BODY_END, e) :: rest)
    = Some ({| headers := [(k, v)]; body := meaning ws |}, rest).
Proof.
  intros H1 H2 H3 H4 k d v s ws e rest Hw Hf.
  unfold parse_node. cbn [parse_headers aset].
  rewrite (parse_written er ewf H1 H2 H3 H4 ws ((K_BODY_END, e) :: rest) _ Hw eq_refl Hf).
  reflexivity.
Qed.
