(* C16: a registration that succeeds yields a bridge that never reaches reflect.Call with arguments
   violating its precondition, for every signature and every argument list. *)
From Coq Require Import List ZArith NArith Bool Lia.
From YS Require Import Base.Sexp Num.F64 Yarn.Ast Yarn.Value Yarn.Eval Yarn.Bridge.
Import ListNotations.

Lemma gotype_eqb_refl t : gotype_eqb t t = true.
Proof. unfold gotype_eqb. destruct (gk t); apply N.eqb_refl. Qed.

Lemma convert_arg_type t v g : convert_arg t v = Some g -> vtype g = t.
Proof.
  unfold convert_arg. destruct (gk t), v; intros H; inversion H; reflexivity.
Qed.

Lemma convert_tail_types t : forall args gs, convert_tail t args = Some gs ->
  forallb (fun g => gotype_eqb (vtype g) t) gs = true.
Proof.
  induction args as [|a r IH]; intros gs H; cbn [convert_tail] in H.
  - inversion H. reflexivity.
  - destruct (convert_arg t a) as [g|] eqn:E; [|discriminate].
    destruct (convert_tail t r) as [gs'|] eqn:E2; [|discriminate]. inversion H; subst.
    cbn [forallb]. rewrite (convert_arg_type _ _ _ E), gotype_eqb_refl. apply IH. reflexivity.
Qed.

Lemma convert_fixed_ok ps : forall args gs rest tail_gs, convert_fixed ps args = Some (gs, rest) ->
  call_ok_fixed ps (gs ++ tail_gs) = Some tail_gs.
Proof.
  induction ps as [|p ps IH]; intros args gs rest tail_gs H; cbn [convert_fixed] in H.
  - inversion H; subst. reflexivity.
  - destruct args as [|a args']; [discriminate|].
    destruct (convert_arg p a) as [g|] eqn:E; [|discriminate].
    destruct (convert_fixed ps args') as [[gs' rest']|] eqn:E2; [|discriminate]. inversion H; subst.
    cbn [app call_ok_fixed]. rewrite (convert_arg_type _ _ _ E), gotype_eqb_refl. eapply IH. exact E2.
Qed.

(* whatever the converter lets through satisfies Call's precondition *)
Theorem converted_arguments_are_callable s args gs : convert_args s args = Some gs -> call_ok s gs = true.
Proof.
  unfold convert_args, call_ok.
  destruct (convert_fixed (params s) args) as [[fixed rest]|] eqn:E; [|discriminate].
  destruct (variadic s) as [t|].
  - destruct (convert_tail t rest) as [tl|] eqn:E2; [|discriminate]. cbn [option_map]. intros H. inversion H; subst.
    rewrite (convert_fixed_ok _ _ _ _ tl E). apply (convert_tail_types t rest tl E2).
  - destruct rest; [|discriminate]. intros H. inversion H; subst.
    rewrite <- (app_nil_r gs) at 1. rewrite (convert_fixed_ok _ _ _ _ [] E). reflexivity.
Qed.

(* a host function returns as many results as its type says *)
Definition host_ok (s : signature) (host : list goval -> hostret) : Prop :=
  forall gs, match host gs with HRet vals _ => length vals = length (results s) end.

Theorem accepted_function_never_panics r b host args :
  register_function r = Some b -> host_ok (bsig b) host -> call_function_bridge b host args <> Crash.
Proof.
  intros Hr Hh. unfold call_function_bridge.
  destruct (convert_args (bsig b) args) as [gs|] eqn:E; [|discriminate].
  rewrite (converted_arguments_are_callable _ _ _ E). cbn [negb].
  specialize (Hh gs). destruct (host gs) as [vals enil].
  unfold register_function, register in Hr. destruct r as [| |s|s]; try discriminate.
  destruct (check_function_outputs (results s)) as [rs|] eqn:Ec; [|discriminate].
  destruct (inputs_ok s); [|discriminate]. inversion Hr; subst. cbn [bret bsig] in *.
  unfold check_function_outputs in Ec.
  destruct (results s) as [|o1 [|o2 [|o3 rest]]]; cbn [length] in Hh.
  - inversion Ec; subst. discriminate.
  - destruct vals as [|v vs]; [discriminate|].
    destruct (value_kind (gk o1)); [inversion Ec; subst; destruct (tree_value v); discriminate|].
    destruct (gerr o1); [inversion Ec; subst; destruct enil; discriminate|discriminate].
  - destruct vals as [|v vs]; [discriminate|].
    destruct (value_kind (gk o1) && gerr o2); [|discriminate]. inversion Ec; subst.
    destruct enil; [destruct (tree_value v)|]; discriminate.
  - discriminate.
Qed.

Theorem accepted_command_never_panics r b host chan_nil args :
  register_command r = Some b -> host_ok (bsig b) host -> call_command_bridge b host chan_nil args <> Crash.
Proof.
  intros Hr Hh. unfold call_command_bridge.
  destruct (convert_args (bsig b) args) as [gs|] eqn:E; [|discriminate].
  rewrite (converted_arguments_are_callable _ _ _ E). cbn [negb].
  specialize (Hh gs). destruct (host gs) as [vals enil].
  unfold register_command, register in Hr. destruct r as [| |s|s]; try discriminate.
  destruct (check_command_outputs (results s)) as [rs|] eqn:Ec; [|discriminate].
  destruct (inputs_ok s); [|discriminate]. inversion Hr; subst. cbn [bret bsig] in *.
  unfold check_command_outputs in Ec.
  destruct (results s) as [|o1 [|o2 rest]].
  - inversion Ec; subst. discriminate.
  - destruct (gerr o1); [inversion Ec; subst; discriminate|].
    destruct (gk o1); try discriminate. destruct (gelem_err o1); [|discriminate]. inversion Ec; subst.
    destruct chan_nil; [discriminate|]. destruct (gplain_err_chan o1); discriminate.
  - discriminate.
Qed.

(* nil and non-functions are refused *)
Theorem nil_and_non_functions_are_refused :
  register_function RNilInterface = None /\ register_function RNotAFunction = None /\
  (forall s, register_function (RNilFunction s) = None) /\
  register_command RNilInterface = None /\ register_command RNotAFunction = None /\
  (forall s, register_command (RNilFunction s) = None).
Proof. repeat split. Qed.

(* registration succeeds exactly for the bridgeable signatures *)
Definition bridgeable_function (s : signature) : bool :=
  inputs_ok s && match check_function_outputs (results s) with Some _ => true | None => false end.

Theorem function_registration_characterised s :
  (exists b, register_function (RFunction s) = Some b) <-> bridgeable_function s = true.
Proof.
  unfold register_function, register, bridgeable_function.
  destruct (check_function_outputs (results s)); destruct (inputs_ok s); cbn; split;
    try (intros [b H]; discriminate); try discriminate; try (intros _; eexists; reflexivity); auto.
Qed.

(* conversion is faithful: booleans and strings unchanged, numbers to the declared kind *)
Theorem conversion_faithful t v g : convert_arg t v = Some g ->
  vtype g = t /\
  match v, vpay g with
  | VBool b, PBool b' => b = b'
  | VStr s, PStr s' => s = s'
  | VNum x, PInt z => z = int_conv (gk t) x
  | VNum x, PFloat f => f = x \/ f = to_f32 x
  | _, _ => False
  end.
Proof.
  intros H. split; [exact (convert_arg_type _ _ _ H)|].
  unfold convert_arg in H. destruct (gk t), v; inversion H; subst; cbn; auto.
Qed.
