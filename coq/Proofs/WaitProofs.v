(* C10, the built-in <<wait n>>: the duration handed to time.Sleep is
   time.Duration(n * float64(time.Second)) (Yarn/Timed.v: wait_nanos).  For every finite n >= 0 up to
   2^62 ns (146 years) that duration is at least n seconds, up to the rounding of the one binary64
   multiplication (relative 2^-53) and the truncation to whole nanoseconds (less than 1 ns) - in
   particular the fractional part of n is kept (D11: it used to be truncated to whole seconds).
   That time.Sleep(d) returns no earlier than d later is the Go runtime's contract (observed by the
   waits family on real timers). *)
From Coq Require Import ZArith Reals Lia Lra Bool.
From Flocq Require Import Core Relative BinarySingleNaN.
From YS Require Import Num.F64 Yarn.Timed Proofs.BuiltinProofs.
Local Open Scope R_scope.

Local Notation fexp := (FLT_exp (3 - emax - prec) prec).
Local Notation rnd := (round radix2 fexp (round_mode mode_NE)).

Lemma billion_exact : is_finite (of_Z nanos_per_second) = true /\ B2R (of_Z nanos_per_second) = 1000000000.
Proof.
  unfold of_Z, nanos_per_second.
  pose proof (binary_normalize_correct prec emax Hprec Hmax mode_NE 1000000000 0 false) as H. cbv zeta in H.
  assert (E : F2R (Float radix2 1000000000 0) = IZR 1000000000) by (unfold F2R; simpl; ring).
  rewrite E in H.
  rewrite round_generic in H; [|apply valid_rnd_N|apply int_is_format; simpl; lia].
  rewrite Rlt_bool_true in H by (apply int_below_overflow; simpl; lia).
  destruct H as (H1 & H2 & _). split; [exact H2|exact H1].
Qed.

Lemma to_int64_trunc (x : f64) :
  is_finite x = true -> (- two63 <= Btrunc x < two63)%Z -> to_int64 x = Btrunc x.
Proof.
  intros F R. destruct x as [s| | |s m e B]; try discriminate.
  - reflexivity.
  - unfold to_int64.
    destruct (Z.leb_spec (- two63) (Btrunc (B754_finite s m e B))); [|lia].
    destruct (Z.ltb_spec (Btrunc (B754_finite s m e B)) two63); [|lia]. reflexivity.
Qed.

Lemma trunc_R (x : f64) : IZR (Btrunc x) = IZR (Ztrunc (B2R x)).
Proof. rewrite (Btrunc_correct prec emax Hmax x). apply round_FIX_IZR. Qed.

Lemma rnd_mono a b : a <= b -> rnd a <= rnd b.
Proof. apply round_le; [apply FLT_exp_valid; reflexivity|apply valid_rnd_N]. Qed.

Lemma rnd_zero : rnd 0 = 0.
Proof. apply round_0. apply valid_rnd_N. Qed.

Lemma rnd_pow62 : rnd (bpow radix2 62) = bpow radix2 62.
Proof.
  apply round_generic; [apply valid_rnd_N|]. apply generic_format_bpow. unfold FLT_exp, emax, prec. simpl. lia.
Qed.

Theorem wait_nanos_lower_bound (n : f64) :
  is_finite n = true -> 0 <= B2R n -> B2R n * 1000000000 <= bpow radix2 62 ->
  (0 <= wait_nanos n)%Z /\
  B2R n * 1000000000 * (1 - bpow radix2 (-53)) - 1 < IZR (wait_nanos n).
Proof.
  intros Fn Pos Up.
  destruct billion_exact as [Fb Eb].
  set (x := B2R n * 1000000000) in *.
  assert (Px : 0 <= x) by (unfold x; lra).
  pose proof (Bmult_correct prec emax Hprec Hmax mode_NE n (of_Z nanos_per_second)) as H.
  rewrite Eb in H. fold x in H.
  assert (Rb : 0 <= rnd x <= bpow radix2 62).
  { split; [rewrite <- rnd_zero; apply rnd_mono; exact Px|rewrite <- rnd_pow62; apply rnd_mono; exact Up]. }
  rewrite Rlt_bool_true in H.
  2:{ rewrite Rabs_pos_eq by apply Rb. apply Rle_lt_trans with (bpow radix2 62); [apply Rb|].
      apply bpow_lt. unfold emax. lia. }
  destruct H as (Hv & Hf & _). rewrite Fn, Fb in Hf. cbn [andb] in Hf.
  unfold wait_nanos. fold (fmul n (of_Z nanos_per_second)) in Hv, Hf.
  set (p := fmul n (of_Z nanos_per_second)) in *.
  (* the truncation of p *)
  assert (T : IZR (Btrunc p) = IZR (Ztrunc (rnd x))) by (rewrite trunc_R, Hv; reflexivity).
  assert (Tf : Ztrunc (rnd x) = Zfloor (rnd x)).
  { unfold Ztrunc. destruct (Rlt_bool_spec (rnd x) 0) as [Hn|_]; [lra|reflexivity]. }
  assert (Tb : (0 <= Btrunc p <= 2 ^ 62)%Z).
  { apply eq_IZR in T. rewrite T, Tf. split.
    - apply Zfloor_lub. simpl. apply Rb.
    - apply le_IZR. apply Rle_trans with (rnd x); [apply Zfloor_lb|].
      change (IZR (2 ^ 62)) with (bpow radix2 62). apply Rb. }
  rewrite to_int64_trunc; [|exact Hf|unfold two63; lia].
  split; [lia|].
  rewrite T, Tf.
  assert (L : rnd x - 1 < IZR (Zfloor (rnd x))) by (pose proof (Zfloor_ub (rnd x)); lra).
  destruct (Rlt_or_le x (bpow radix2 (3 - emax - prec + prec - 1))) as [Small|Normal].
  - (* below the normal range: x < 2^-1022 < 1, the left-hand side is negative *)
    assert (X1 : x < 1).
    { apply Rlt_trans with (1 := Small). change 1 with (bpow radix2 0). apply bpow_lt. unfold emax, prec. lia. }
    assert (0 < bpow radix2 (-53)) by apply bpow_gt_0.
    assert (bpow radix2 (-53) < 1) by (change 1 with (bpow radix2 0); apply bpow_lt; lia).
    assert (0 <= IZR (Zfloor (rnd x))) by (apply IZR_le; apply Zfloor_lub; simpl; apply Rb).
    nra.
  - (* rounding error of the product *)
    pose proof (relative_error_N_FLT radix2 (3 - emax - prec) prec Hprec (fun z => negb (Z.even z)) x) as R.
    rewrite Rabs_pos_eq in R by exact Px.
    specialize (R Normal).
    apply Rabs_le_inv in R. destruct R as [R _].
    assert (Hh : / 2 * bpow radix2 (- prec + 1) = bpow radix2 (-53)).
    { change (/ 2) with (/ bpow radix2 1). rewrite <- bpow_opp, <- bpow_plus. reflexivity. }
    rewrite Hh in R. unfold round_mode in L, R |- *. lra.
Qed.

(* a poll of the pending channel answers "completed" only when at least that long has passed *)
Theorem wait_not_reported_early (n : f64) (t0 t : Z) :
  is_finite n = true -> 0 <= B2R n -> B2R n * 1000000000 <= bpow radix2 62 ->
  wait_may_complete t0 n t = true ->
  B2R n * 1000000000 * (1 - bpow radix2 (-53)) - 1 < IZR (t - t0).
Proof.
  intros Fn Pos Up H. destruct (wait_nanos_lower_bound n Fn Pos Up) as [N0 L].
  unfold wait_may_complete, wait_ready_at in H. apply Z.leb_le in H.
  rewrite Z.max_r in H by exact N0.
  apply Rlt_le_trans with (1 := L). apply IZR_le. lia.
Qed.
