(* C09, random(): rand.Float64 over the raw stream is float64(Int63()) / 2^63, drawn again while the
   quotient rounds to 1.  For every stream of Int63 values the result lies in [0, 1], and it is 1
   only if every one of the draws taken rounded to 1 (the real code keeps drawing; the model's fuel
   is the number of redraws it allows). *)
From Coq Require Import ZArith Reals Lia Lra List Bool.
From Flocq Require Import Core BinarySingleNaN.
From YS Require Import Base.Sexp Num.F64 Yarn.Ast Yarn.Value Yarn.Eval Proofs.BuiltinProofs.
Import ListNotations.
Local Open Scope R_scope.

Local Notation fexp := (FLT_exp (3 - emax - prec) prec).
Local Notation rnd := (round radix2 fexp (round_mode mode_NE)).

Lemma bpow63 : IZR (2 ^ 63) = bpow radix2 63.
Proof. reflexivity. Qed.

Lemma format_bpow63 : generic_format radix2 fexp (bpow radix2 63).
Proof. apply generic_format_bpow. unfold FLT_exp, emax, prec. simpl. lia. Qed.

Lemma rnd_0 : rnd 0 = 0.
Proof. apply round_0. apply valid_rnd_N. Qed.

Lemma rnd_1 : rnd 1 = 1.
Proof.
  apply round_generic; [apply valid_rnd_N|]. change 1 with (bpow radix2 0).
  apply generic_format_bpow. unfold FLT_exp, emax, prec. simpl. lia.
Qed.

Lemma rnd_le a b : a <= b -> rnd a <= rnd b.
Proof. apply round_le; [apply FLT_exp_valid; reflexivity|apply valid_rnd_N]. Qed.

(* float64(v) for an Int63 value: finite, between 0 and 2^63 *)
Lemma of_Z_int63 (v : Z) : (0 <= v < 2 ^ 63)%Z ->
  is_finite (of_Z v) = true /\ 0 <= B2R (of_Z v) <= bpow radix2 63.
Proof.
  intros Hv. unfold of_Z.
  pose proof (binary_normalize_correct prec emax Hprec Hmax mode_NE v 0 false) as H. cbv zeta in H.
  assert (E : F2R (Float radix2 v 0) = IZR v) by (unfold F2R; simpl; ring).
  rewrite E in H.
  assert (B : 0 <= rnd (IZR v) <= bpow radix2 63).
  { split.
    - rewrite <- rnd_0. apply rnd_le. apply IZR_le. lia.
    - rewrite <- (round_generic radix2 fexp (round_mode mode_NE) (bpow radix2 63)) by exact format_bpow63.
      apply rnd_le. rewrite <- bpow63. apply IZR_le. lia. }
  rewrite Rlt_bool_true in H.
  - destruct H as (H1 & H2 & _). rewrite H1. split; [exact H2|exact B].
  - rewrite Rabs_pos_eq by apply B. apply Rle_lt_trans with (bpow radix2 63); [apply B|].
    apply bpow_lt. unfold emax. lia.
Qed.

Lemma of_Z_two63 : is_finite (of_Z (2 ^ 63)) = true /\ B2R (of_Z (2 ^ 63)) = bpow radix2 63.
Proof.
  unfold of_Z.
  pose proof (binary_normalize_correct prec emax Hprec Hmax mode_NE (2 ^ 63) 0 false) as H. cbv zeta in H.
  assert (E : F2R (Float radix2 (2 ^ 63) 0) = bpow radix2 63) by (unfold F2R; simpl; ring).
  rewrite E in H. rewrite round_generic in H by (apply valid_rnd_N || exact format_bpow63).
  rewrite Rlt_bool_true in H.
  - destruct H as (H1 & H2 & _). split; assumption.
  - rewrite Rabs_pos_eq by apply bpow_ge_0. apply bpow_lt. unfold emax. lia.
Qed.

(* one candidate: float64(v) / 2^63 *)
Definition candidate (v : Z) : f64 := fdiv (of_Z v) (of_Z (2 ^ 63)).

Lemma candidate_range v : (0 <= v < 2 ^ 63)%Z ->
  is_finite (candidate v) = true /\ 0 <= B2R (candidate v) <= 1.
Proof.
  intros Hv. destruct (of_Z_int63 v Hv) as (Fx & Bx). destruct of_Z_two63 as (Fy & Ey).
  unfold candidate, fdiv.
  assert (Ny : B2R (of_Z (2 ^ 63)) <> 0) by (rewrite Ey; apply Rgt_not_eq, bpow_gt_0).
  pose proof (Bdiv_correct prec emax Hprec Hmax mode_NE (of_Z v) (of_Z (2 ^ 63)) Ny) as H.
  rewrite Ey in H.
  set (q := B2R (of_Z v) / bpow radix2 63) in *.
  assert (Q : 0 <= q <= 1).
  { unfold q. pose proof (bpow_gt_0 radix2 63) as P. split.
    - apply Rmult_le_pos; [apply Bx|]. left. apply Rinv_0_lt_compat, P.
    - apply Rmult_le_reg_r with (bpow radix2 63); [exact P|].
      unfold Rdiv. rewrite Rmult_assoc, Rinv_l by (apply Rgt_not_eq, P). lra. }
  assert (B : 0 <= rnd q <= 1).
  { split; [rewrite <- rnd_0|rewrite <- rnd_1]; apply rnd_le; apply Q. }
  rewrite Rlt_bool_true in H.
  - destruct H as (H1 & H2 & _). rewrite H1, H2. split; [exact Fx|exact B].
  - rewrite Rabs_pos_eq by apply B. apply Rle_lt_trans with 1; [apply B|].
    change 1 with (bpow radix2 0). apply bpow_lt. unfold emax. lia.
Qed.

Lemma one_fin : is_finite fone = true.
Proof. exact (is_finite_Bone prec emax Hprec Hmax). Qed.
Lemma one_val : B2R fone = 1.
Proof. exact (Bone_correct prec emax Hprec Hmax). Qed.

Lemma candidate_below_one v : (0 <= v < 2 ^ 63)%Z -> feqb (candidate v) fone = false -> B2R (candidate v) < 1.
Proof.
  intros Hv Hne. destruct (candidate_range v Hv) as (F & B).
  unfold feqb in Hne. rewrite (Beqb_correct _ _ _ _ F one_fin), one_val in Hne.
  destruct (Req_bool_spec (B2R (candidate v)) 1) as [E|N]; [discriminate Hne|]. lra.
Qed.

Definition int63_stream (l : list Z) : Prop := Forall (fun v => (0 <= v < 2 ^ 63)%Z) l.

Lemma draw_stream e : int63_stream (rng e) ->
  (0 <= fst (draw e) < 2 ^ 63)%Z /\ int63_stream (rng (snd (draw e))).
Proof.
  intros H. unfold draw. destruct (rng e) as [|v r] eqn:E; cbn [fst snd].
  - split; [lia|]. rewrite E. constructor.
  - inversion H; subst. split; [assumption|]. cbn [rng]. assumption.
Qed.

(* rand.Float64: always finite and in [0, 1]; below 1 whenever the loop ended because a candidate
   differed from 1 *)
Theorem float64_range : forall fuel e, int63_stream (rng e) ->
  let x := fst (float64_loop fuel e) in
  is_finite x = true /\ 0 <= B2R x <= 1.
Proof.
  induction fuel as [|k IH]; intros e H; cbn [float64_loop]; destruct (draw_stream e H) as (Hv & Hs);
    destruct (draw e) as [v e1]; cbn [fst snd] in *.
  - apply (candidate_range v Hv).
  - fold (candidate v). destruct (feqb (candidate v) fone) eqn:E.
    + apply IH. exact Hs.
    + cbn [fst]. apply (candidate_range v Hv).
Qed.

Theorem float64_below_one : forall fuel e, int63_stream (rng e) ->
  let x := fst (float64_loop fuel e) in
  B2R x < 1 \/ (* every candidate rounded to 1 and the model ran out of redraws *)
  (feqb x fone = true /\ length (rng e) - length (rng (snd (float64_loop fuel e))) = S fuel)%nat.
Proof.
  induction fuel as [|k IH]; intros e H; cbn [float64_loop]; destruct (draw_stream e H) as (Hv & Hs);
    unfold draw in *; destruct (rng e) as [|v0 r] eqn:Er; cbn [fst snd rng] in *.
  - fold (candidate 0). destruct (feqb (candidate 0) fone) eqn:E.
    + exfalso. assert (B2R (candidate 0) = 0).
      { unfold candidate, fdiv, of_Z. vm_compute. reflexivity. }
      unfold feqb in E. destruct (candidate_range 0 ltac:(lia)) as (F & _).
      rewrite (Beqb_correct _ _ _ _ F one_fin), one_val, H0 in E.
      destruct (Req_bool_spec 0 1); [lra|discriminate E].
    + left. apply candidate_below_one; [lia|exact E].
  - fold (candidate v0). destruct (feqb (candidate v0) fone) eqn:E.
    + right. split; [first [exact E | reflexivity]|]. cbn [length]. lia.
    + left. apply candidate_below_one; assumption.
  - fold (candidate 0). destruct (feqb (candidate 0) fone) eqn:E.
    + exfalso. assert (B2R (candidate 0) = 0).
      { unfold candidate, fdiv, of_Z. vm_compute. reflexivity. }
      unfold feqb in E. destruct (candidate_range 0 ltac:(lia)) as (F & _).
      rewrite (Beqb_correct _ _ _ _ F one_fin), one_val, H0 in E.
      destruct (Req_bool_spec 0 1); [lra|discriminate E].
    + cbn [fst]. left. apply candidate_below_one; [lia|exact E].
  - fold (candidate v0). destruct (feqb (candidate v0) fone) eqn:E.
    + specialize (IH {| rng := r; hlog := hlog e |} Hs). cbn [rng] in IH.
      destruct IH as [L|(Eq1 & Len)]; [left; exact L|right]. split; [exact Eq1|].
      cbn [length]. lia.
    + cbn [fst]. left. apply candidate_below_one; assumption.
Qed.

(* the built-in: random() returns a number in [0, 1] for every Int63 stream, below 1 unless 17
   candidates in a row rounded to 1 (each needs an Int63 value above 2^63 - 513) *)
Theorem random_builtin_range v e : int63_stream (rng e) ->
  exists x e', call_builtin v (STR "random") [] e = Some (Val (Some (VNum x)), e') /\
               is_finite x = true /\ 0 <= B2R x <= 1 /\
               (B2R x < 1 \/ (length (rng e) - length (rng e') = 17)%nat).
Proof.
  intros H.
  assert (E : call_builtin v (STR "random") [] e
              = Some (Val (Some (VNum (fst (float64_loop 16 e)))), snd (float64_loop 16 e))).
  { change (call_builtin v (STR "random") [] e)
      with (let '(x, e1) := float64_loop 16 e in Some (Val (Some (VNum x)), e1)).
    destruct (float64_loop 16 e); reflexivity. }
  eexists _, _. split; [exact E|].
  destruct (float64_range 16 e H) as (F & B). split; [exact F|]. split; [exact B|].
  destruct (float64_below_one 16 e H) as [L|(_ & Len)]; [left; exact L|right; exact Len].
Qed.
