(* C18 (model part): runners share nothing.  A system of runner states driven by ANY interleaving of
   per-runner operations: each runner's state - hence its trace - is what it is when that runner is
   driven alone with its own operations. *)
From Coq Require Import List Arith Lia.
Import ListNotations.

Section Interleave.
  Variables (S Op : Type) (step : S -> Op -> S).

  Fixpoint upd (l : list S) (i : nat) (x : S) : list S :=
    match l, i with
    | [], _ => []
    | _ :: t, O => x :: t
    | h :: t, Datatypes.S k => h :: upd t k x
    end.

  Definition sys_step (sys : list S) (io : nat * Op) : list S :=
    match nth_error sys (fst io) with
    | Some s => upd sys (fst io) (step s (snd io))
    | None => sys
    end.

  Definition solo (s : S) (i : nat) (sched : list (nat * Op)) : S :=
    fold_left step (map snd (filter (fun io => Nat.eqb (fst io) i) sched)) s.

  Lemma nth_upd_same l i x s : nth_error l i = Some s -> nth_error (upd l i x) i = Some x.
  Proof. revert i; induction l as [|h t IH]; intros [|i] H; cbn in *; try discriminate; auto. Qed.

  Lemma nth_upd_other l i j x : i <> j -> nth_error (upd l i x) j = nth_error l j.
  Proof. revert i j; induction l as [|h t IH]; intros [|i] [|j] H; cbn; auto; try lia. Qed.

  Theorem interleaving_projection : forall sched sys i s,
    nth_error sys i = Some s ->
    nth_error (fold_left sys_step sched sys) i = Some (solo s i sched).
  Proof.
    induction sched as [|[j o] sched IH]; intros sys i s H; [exact H|].
    cbn [fold_left]. unfold solo. cbn [filter fst snd]. unfold sys_step at 2. cbn [fst snd].
    destruct (Nat.eqb_spec j i) as [E|E].
    - subst j. rewrite H. cbn [map fold_left].
      apply (IH _ i (step s o)). apply (nth_upd_same _ _ _ s H).
    - destruct (nth_error sys j) as [sj|] eqn:Ej.
      + apply (IH _ i s). rewrite nth_upd_other by exact E. exact H.
      + apply (IH _ i s). exact H.
  Qed.
End Interleave.
