(* C03, "the variable storer is the single source of truth": GetValue and GetValues of the in-memory
   storer agree on every name - for every store reachable by writes, and across everything a runner
   does.  Needs two invariants: a name lives in at most one of the three typed maps (single, D2),
   and each map holds a key once (a Go map does; an association list has to be told). *)
From Coq Require Import List ZArith NArith Bool.
From YS Require Import Base.Sexp Num.F64 Yarn.Ast Yarn.Value Yarn.Eval Markup.LineParser Yarn.Runner
     Spec.SetSpec Proofs.AListProofs Proofs.RunnerInv Proofs.SetProofs.
Import ListNotations.

Fixpoint wf {V} (m : alist V) : Prop :=
  match m with
  | [] => True
  | (k, _) :: r => aget r k = None /\ wf r
  end.

Lemma wf_aset {V} (m : alist V) k v : wf m -> wf (aset m k v).
Proof.
  induction m as [|[k' v'] r IH]; intros H; cbn [aset].
  - cbn. auto.
  - destruct H as [Hf Hr]. destruct (str_eqb k' k) eqn:E.
    + apply str_eqb_eq in E. subst k'. cbn [wf]. auto.
    + cbn [wf]. split; [|apply IH; exact Hr].
      rewrite aget_aset. rewrite str_eqb_sym, E. exact Hf.
Qed.

Lemma wf_adel {V} (m : alist V) k : wf m -> wf (adel m k).
Proof.
  induction m as [|[k' v'] r IH]; intros H; cbn [adel]; [exact I|].
  destruct H as [Hf Hr]. destruct (str_eqb k' k) eqn:E; [apply IH; exact Hr|].
  cbn [wf]. split; [|apply IH; exact Hr].
  rewrite aget_adel. rewrite str_eqb_sym, E. exact Hf.
Qed.

(* writing every entry of a well-formed list into a map: the list's entries win, the rest stays *)
Lemma aget_fold_aset {V W} (f : V -> W) (l : alist V) : wf l -> forall (m : alist W) k,
  aget (fold_left (fun m kv => aset m (fst kv) (f (snd kv))) l m) k
  = match aget l k with Some v => Some (f v) | None => aget m k end.
Proof.
  induction l as [|[k1 v1] r IH]; intros Hw m k; [reflexivity|].
  destruct Hw as [Hf Hr]. cbn [fold_left fst snd aget]. rewrite (IH Hr).
  destruct (str_eqb k1 k) eqn:E.
  - apply str_eqb_eq in E. subst k1. rewrite Hf. rewrite aget_aset_same. reflexivity.
  - destruct (aget r k); [reflexivity|]. rewrite aget_aset, E. reflexivity.
Qed.

Definition store_ok (st : store) : Prop := single st /\ wf (nums st) /\ wf (bools st) /\ wf (strs st).

Lemma store_ok_empty : store_ok empty_store.
Proof. split; [exact single_empty|]. cbn. auto. Qed.

Lemma store_ok_set st k v : store_ok st -> store_ok (st_set st k v).
Proof.
  intros (Hs & Hn & Hb & Ht). split; [apply single_set; exact Hs|].
  destruct v; cbn [st_set st_set_num st_set_bool st_set_str nums bools strs];
    repeat split; first [apply wf_aset | apply wf_adel]; assumption.
Qed.

Theorem store_ok_after_writes ws :
  store_ok (fold_left (fun st kv => st_set st (fst kv) (snd kv)) ws empty_store).
Proof.
  assert (G : forall st, store_ok st -> store_ok (fold_left (fun st kv => st_set st (fst kv) (snd kv)) ws st)).
  { induction ws as [|[k v] ws IH]; intros st H; [exact H|]. cbn [fold_left fst snd]. apply IH, store_ok_set, H. }
  apply G, store_ok_empty.
Qed.

(* GetValues()[k] is GetValue(k), present or absent *)
Theorem get_values_agrees st k : store_ok st -> aget (st_values st) k = st_get st k.
Proof.
  intros (Hs & Hn & Hb & Ht). unfold st_values, st_get.
  rewrite (aget_fold_aset VStr (strs st) Ht), (aget_fold_aset VNum (nums st) Hn), (aget_fold_aset VBool (bools st) Hb).
  specialize (Hs k). cbn [aget].
  destruct (aget (nums st) k), (aget (bools st) k), (aget (strs st) k); try contradiction; reflexivity.
Qed.

(* without the invariant the two can disagree - the defect D2 of the pinned tree: a store holding
   x as a number and as a string answers GetValue with the number, GetValues with the string *)
Example get_values_needs_single :
  let st := {| nums := [(STR "x", of_Z 1)]; bools := []; strs := [(STR "x", STR "s")] |} in
  st_get st (STR "x") = Some (VNum (of_Z 1)) /\ aget (st_values st) (STR "x") = Some (VStr (STR "s")).
Proof. split; reflexivity. Qed.

(* any predicate on stores kept by a write is kept by everything a runner does *)
Lemma next_store_inv (Q : store -> Prop) (Hset : forall st k v, Q st -> Q (st_set st k v)) d fm m c :
  Q (vars (dat m)) -> Q (vars (dat (snd (next d fm m c)))).
Proof.
  apply (next_preserves d (fun s => Q (vars s))).
  - intros s H. unfold poll. destruct (pending s) as [[[|n] [|]]|]; exact H.
  - intros s l H. destruct (render_line_frame s l) as (E & _). rewrite E. exact H.
  - intros s os H. destruct (render_options_frame os s) as (E & _). rewrite E. exact H.
  - intros x op e s H. pose proof (exec_set_spec x op e s) as K.
    destruct (eval_in_frame s e) as (Ev & _).
    destruct (eval_in s e) as [[v| |] s1]; cbn [snd] in *.
    + destruct (set_spec (st_get (vars s1) x) op v) as [r|]; rewrite K; cbn [snd upd_vars vars].
      * apply Hset. rewrite Ev. exact H.
      * rewrite Ev. exact H.
    + rewrite K. cbn [snd]. rewrite Ev. exact H.
    + rewrite K. cbn [snd]. rewrite Ev. exact H.
  - intros e s H. unfold exec_jump. destruct (eval_in_frame s e) as (Ev & _).
    destruct (eval_in s e) as [[v| |] s1]; cbn [snd] in *; try (rewrite Ev; exact H).
    destruct v as [n0|b0|t]; cbn [snd]; try (rewrite Ev; exact H).
    destruct (find_node d t); cbn [snd vars]; rewrite Ev; exact H.
  - intros cs s H. destruct (exec_if_frame cs s) as (E & _). rewrite E. exact H.
  - intros es s H. unfold exec_command.
    repeat match goal with
           | |- context [match ?x with _ => _ end] => destruct x
           | |- context [if ?x then _ else _] => destruct x
           end; cbn; exact H.
  - intros f a s H. destruct (exec_call_frame f a s) as (E & _). rewrite E. exact H.
Qed.

Theorem next_store_ok d fm m c : store_ok (vars (dat m)) -> store_ok (vars (dat (snd (next d fm m c)))).
Proof. apply next_store_inv. exact store_ok_set. Qed.

(* so after any Next, from a good store, the two reads agree on every name *)
Theorem get_values_agrees_across_next d fm m c k : store_ok (vars (dat m)) ->
  let st := vars (dat (snd (next d fm m c))) in aget (st_values st) k = st_get st k.
Proof. intros H. apply get_values_agrees, next_store_ok, H. Qed.

Theorem get_values_agrees_after_writes ws k :
  let st := fold_left (fun st kv => st_set st (fst kv) (snd kv)) ws empty_store in
  aget (st_values st) k = st_get st k.
Proof. apply get_values_agrees, store_ok_after_writes. Qed.
