(* Association lists standing for Go maps: lookup after update / delete. *)
From Coq Require Import List ZArith NArith Bool.
From YS Require Import Base.Sexp Yarn.Ast.
Import ListNotations.

Lemma aget_aset {V} (m : alist V) k v n :
  aget (aset m k v) n = if str_eqb k n then Some v else aget m n.
Proof.
  induction m as [|[k' v'] m IH]; cbn [aset aget].
  - destruct (str_eqb k n); reflexivity.
  - destruct (str_eqb k' k) eqn:E; cbn [aget].
    + apply str_eqb_eq in E. subst k'. destruct (str_eqb k n); reflexivity.
    + rewrite IH. destruct (str_eqb k' n) eqn:E2; [|reflexivity].
      apply str_eqb_eq in E2. subst k'. rewrite str_eqb_sym, E. reflexivity.
Qed.

Lemma aget_adel {V} (m : alist V) k n :
  aget (adel m k) n = if str_eqb k n then None else aget m n.
Proof.
  induction m as [|[k' v'] m IH]; cbn [adel aget].
  - destruct (str_eqb k n); reflexivity.
  - destruct (str_eqb k' k) eqn:E.
    + rewrite IH. apply str_eqb_eq in E. subst k'. destruct (str_eqb k n); reflexivity.
    + cbn [aget]. rewrite IH. destruct (str_eqb k' n) eqn:E2; [|reflexivity].
      apply str_eqb_eq in E2. subst k'. rewrite str_eqb_sym, E. reflexivity.
Qed.

Lemma aget_aset_same {V} (m : alist V) k v : aget (aset m k v) k = Some v.
Proof. rewrite aget_aset, str_eqb_refl. reflexivity. Qed.

Lemma aget_adel_same {V} (m : alist V) k : aget (adel m k) k = None.
Proof. rewrite aget_adel, str_eqb_refl. reflexivity. Qed.
