(* C04, literal text end to end: a line written as a sequence of characters, each escapable one with
   or without its backslash, goes through the TextMode lexer (Syntax/TextLine.v) and then through the
   markup phase (Markup/LineParser.v); what the runner returns is the characters with every escape
   resolved, trimmed.  The two excluded shapes are the recorded findings D21 (an escaped bracket as
   the first character) and D27 (an escaped backslash directly before an unescaped ']'). *)
From Coq Require Import List NArith ZArith Bool Lia.
From YS Require Import Base.Sexp Yarn.Value Markup.LineParser Syntax.TextLine Syntax.TextLineWire
     Proofs.TextLineProofs Proofs.MarkupProofs.
Import ListNotations.
Local Open Scope N_scope.

Inductive tok := TChar (c : N) (* written as it is *) | TEsc (c : N) (* written with a backslash *).

Definition tchar (t : tok) : N := match t with TChar c | TEsc c => c end.
Definition is_bracket (c : N) : bool := (c =? 91) || (c =? 93).
Definition write1 (t : tok) : str := match t with TChar c => [c] | TEsc c => [92; c] end.
Definition write (ts : list tok) : str := flat_map write1 ts.
(* the property's reading: a backslash makes the next character literal *)
Definition meaning (ts : list tok) : str := map tchar ts.
(* what the lexer hands to the markup phase: escaped brackets keep their backslash *)
Definition lexed1 (t : tok) : str :=
  match t with TChar c => [c] | TEsc c => if is_bracket c then [92; c] else [c] end.
Definition lexed (ts : list tok) : str := flat_map lexed1 ts.

Definition first_written (ts : list tok) (nx : option N) : option N :=
  match ts with TChar c :: _ => Some c | TEsc _ :: _ => Some 92 | [] => nx end.
Definition opt_is (o : option N) (x : N) : bool := match o with Some c => c =? x | None => false end.

(* the lexer's side: characters that are text when written plainly ('<' and '/' only when they do
   not pair up with the next written character), and the characters that can be escaped *)
Definition lex_plain (c : N) : bool :=
  negb ((c =? 13) || (c =? 10) || (c =? 92) || (c =? 35) || (c =? 123)).
Fixpoint lex_ok (nx : option N) (ts : list tok) : bool :=
  match ts with
  | [] => true
  | TChar c :: r => lex_plain c && negb ((c =? 60) && opt_is (first_written r nx) 60)
                    && negb ((c =? 47) && opt_is (first_written r nx) 47) && lex_ok nx r
  | TEsc c :: r => (escapable c || is_bracket c) && lex_ok nx r
  end.

(* the markup phase's side: no unescaped '[' (that is a marker, not text), and - finding D27 - no
   escaped backslash directly before an unescaped ']' *)
Definition next_is_close (ts : list tok) : bool := match ts with TChar c :: _ => c =? 93 | _ => false end.
Fixpoint mk_ok (ts : list tok) : bool :=
  match ts with
  | [] => true
  | TChar c :: r => negb (c =? 91) && negb (c =? 92) && mk_ok r
  | TEsc c :: r => (escapable c || is_bracket c) && negb ((c =? 92) && next_is_close r) && mk_ok r
  end.

(* the first token of a line: not a blank, not the start of another statement; an escaped bracket
   cannot come first (finding D21) *)
Definition first_ok (t : tok) : bool :=
  match t with
  | TChar c => negb (is_ws c) && negb (c =? 45) && negb (c =? 61)
  | TEsc c => escapable c
  end.

(* ---------- lexer ---------- *)
Lemma hd_write ts rest_ : hd_error (write ts ++ rest_) = first_written ts (hd_error rest_).
Proof. destruct ts as [|[c|c] r]; reflexivity. Qed.

Lemma hd_match (s : str) x : match s with e :: _ => e =? x | [] => false end = opt_is (hd_error s) x.
Proof. destruct s; reflexivity. Qed.

Lemma lex_text_toks : forall ts rest_ acc, lex_ok (hd_error rest_) ts = true ->
  lex_text (write ts ++ rest_) acc = lex_text rest_ (rev (lexed ts) ++ acc).
Proof.
  induction ts as [|[c|c] r IH]; intros rest_ acc H.
  - reflexivity.
  - cbn [lex_ok] in H. apply andb_true_iff in H as [H Hr]. apply andb_true_iff in H as [H H47].
    apply andb_true_iff in H as [Hp H60]. unfold lex_plain in Hp. apply negb_true_iff in Hp.
    repeat (apply orb_false_iff in Hp; destruct Hp as [Hp ?]).
    apply negb_true_iff in H60, H47.
    change (write (TChar c :: r) ++ rest_) with (c :: (write r ++ rest_)). cbn [lex_text].
    rewrite !hd_match, hd_write.
    repeat match goal with E : (c =? _) = false |- _ => rewrite E; clear E end.
    rewrite H60, H47. cbn [orb].
    rewrite IH by exact Hr. cbn [lexed flat_map lexed1]. change (flat_map lexed1 r) with (lexed r).
    cbn [app rev]. rewrite <- app_assoc. reflexivity.
  - cbn [lex_ok] in H. apply andb_true_iff in H as [He Hr].
    change (write (TEsc c :: r) ++ rest_) with (92 :: c :: (write r ++ rest_)). cbn [lex_text].
    change (92 =? 92) with true. cbv beta iota.
    cbn [lexed flat_map lexed1]. change (flat_map lexed1 r) with (lexed r). unfold is_bracket in *.
    destruct ((c =? 91) || (c =? 93)) eqn:Eb.
    + rewrite IH by exact Hr. cbn [app rev]. rewrite <- !app_assoc. reflexivity.
    + rewrite orb_false_r in He. rewrite He. rewrite IH by exact Hr. cbn [app rev]. rewrite <- app_assoc. reflexivity.
Qed.

Lemma lex_line_first t ts rest_ : first_ok t = true -> lex_ok (hd_error rest_) (t :: ts) = true ->
  lex_line (write (t :: ts) ++ rest_) = lex_text (write ts ++ rest_) (rev (lexed1 t)).
Proof.
  intros Hf H. destruct t as [c|c].
  - cbn [lex_ok] in H. apply andb_true_iff in H as [H Hr]. apply andb_true_iff in H as [H H47].
    apply andb_true_iff in H as [Hp H60]. unfold lex_plain in Hp. apply negb_true_iff in Hp.
    repeat (apply orb_false_iff in Hp; destruct Hp as [Hp ?]).
    apply negb_true_iff in H60, H47.
    cbn [first_ok] in Hf. apply andb_true_iff in Hf as [Hf H61]. apply andb_true_iff in Hf as [Hw H45].
    apply negb_true_iff in Hw, H45, H61.
    assert (Hl : (c =? 32) = false /\ (c =? 9) = false) by (unfold is_ws in Hw; apply orb_false_iff in Hw; exact Hw).
    destruct Hl as [Hl1 Hl2].
    change (write (TChar c :: ts) ++ rest_) with (c :: (write ts ++ rest_)).
    unfold lex_line. cbn [skip_ws leading_ws]. rewrite Hw, Hl1, Hl2.
    cbn [prefix_b]. rewrite (N.eqb_sym 47 c), (N.eqb_sym 61 c), (N.eqb_sym 45 c), (N.eqb_sym 60 c).
    rewrite H45, H61. cbn [andb orb].
    assert (E47 : (c =? 47) && match write ts ++ rest_ with [] => false | y :: s' => (47 =? y) && true end = false).
    { destruct (c =? 47) eqn:E; [|reflexivity]. cbn [andb] in *.
      rewrite <- hd_write in H47. destruct (write ts ++ rest_) as [|y s']; [reflexivity|].
      cbn [hd_error opt_is] in H47. rewrite N.eqb_sym, H47. reflexivity. }
    assert (E60 : (c =? 60) && match write ts ++ rest_ with [] => false | y :: s' => (60 =? y) && true end = false).
    { destruct (c =? 60) eqn:E; [|reflexivity]. cbn [andb] in *.
      rewrite <- hd_write in H60. destruct (write ts ++ rest_) as [|y s']; [reflexivity|].
      cbn [hd_error opt_is] in H60. rewrite N.eqb_sym, H60. reflexivity. }
    rewrite E47, E60.
    repeat match goal with E : (c =? _) = false |- _ => rewrite E; clear E end.
    cbn [orb]. reflexivity.
  - cbn [first_ok] in Hf. change (write (TEsc c :: ts) ++ rest_) with (92 :: c :: (write ts ++ rest_)).
    rewrite (lex_line_backslash c _ Hf). cbn [lexed1].
    assert (Hb : is_bracket c = false).
    { unfold escapable in Hf. unfold is_bracket. destruct (c =? 91) eqn:E1; [apply N.eqb_eq in E1; subst c; discriminate Hf|].
      destruct (c =? 93) eqn:E2; [apply N.eqb_eq in E2; subst c; discriminate Hf|]. reflexivity. }
    rewrite Hb. reflexivity.
Qed.

(* ---------- markup phase ---------- *)
Lemma lexed_head_not_bracket r : mk_ok r = true -> next_is_close r = false ->
  match lexed r with x :: _ => (x =? 91) || (x =? 93) | [] => false end = false.
Proof.
  destruct r as [|[c|c] r]; intros H Hn; [reflexivity| |].
  - cbn [mk_ok] in H. apply andb_true_iff in H as [H _]. apply andb_true_iff in H as [H91 _].
    apply negb_true_iff in H91. cbn [next_is_close] in Hn. cbn [lexed flat_map lexed1 app]. rewrite H91, Hn. reflexivity.
  - cbn [mk_ok] in H. apply andb_true_iff in H as [H _]. apply andb_true_iff in H as [He _].
    cbn [lexed flat_map lexed1]. destruct (is_bracket c) eqn:Eb; [reflexivity|].
    cbn [app]. exact Eb.
Qed.

Lemma main_loop_toks : forall ts f r0 bld blen ms last, mk_ok ts = true -> (length (lexed ts) < f)%nat ->
  main_loop f {| rest := lexed ts; sp := r0 |} bld blen ms last = Some (rev bld ++ meaning ts, ms).
Proof.
  induction ts as [|[c|c] r IH]; intros f r0 bld blen ms last H Hf.
  - destruct f; [cbn in Hf; lia|]. cbn. rewrite app_nil_r. reflexivity.
  - cbn [mk_ok] in H. apply andb_true_iff in H as [H Hr]. apply andb_true_iff in H as [H91 H92].
    apply negb_true_iff in H91, H92.
    cbn [lexed flat_map lexed1] in *. change (flat_map lexed1 r) with (lexed r) in *. cbn [app] in *.
    destruct f; [cbn in Hf; lia|]. cbn [main_loop rest]. rewrite H92, H91. cbn [andb].
    rewrite IH; [|exact Hr|cbn [length] in Hf; lia].
    cbn [rev meaning map]. rewrite <- app_assoc. reflexivity.
  - cbn [mk_ok] in H. apply andb_true_iff in H as [H Hr]. apply andb_true_iff in H as [He Hd].
    apply negb_true_iff in Hd.
    cbn [lexed flat_map lexed1] in *. change (flat_map lexed1 r) with (lexed r) in *.
    destruct (is_bracket c) eqn:Eb.
    + (* an escaped bracket: the backslash is dropped here *)
      cbn [app] in *. destruct f; [cbn in Hf; lia|]. cbn [main_loop rest]. change (92 =? 92) with true.
      unfold is_bracket in Eb. rewrite Eb. cbn [andb].
      rewrite IH; [|exact Hr|cbn [length] in Hf; lia].
      cbn [rev meaning map tchar]. rewrite <- app_assoc. reflexivity.
    + (* a character the lexer has already unescaped *)
      cbn [app] in *. rewrite orb_false_r in He.
      destruct f; [cbn in Hf; lia|]. cbn [main_loop rest].
      assert (Esc : (c =? 92) && match lexed r with x :: _ => (x =? 91) || (x =? 93) | [] => false end = false).
      { destruct (c =? 92) eqn:E92; [|reflexivity]. cbn [andb] in *.
        apply lexed_head_not_bracket; assumption. }
      rewrite Esc.
      assert (E91 : (c =? 91) = false) by (unfold is_bracket in Eb; apply orb_false_iff in Eb; tauto).
      rewrite E91.
      rewrite IH; [|exact Hr|cbn [length] in Hf; lia].
      cbn [rev meaning map tchar]. rewrite <- app_assoc. reflexivity.
Qed.

Lemma parse_markup_toks ts : mk_ok ts = true ->
  exists attrs, parse_markup (lexed ts) = Some (trim_space (meaning ts), attrs).
Proof.
  intros H. unfold parse_markup. rewrite main_loop_toks by (auto; lia).
  cbn [rev app build_attrs]. eexists. reflexivity.
Qed.

(* ---------- end to end ---------- *)
Theorem literal_text_resolved t ts :
  first_ok t = true -> lex_ok None (t :: ts) = true -> mk_ok (t :: ts) = true ->
  literal_pipeline (write (t :: ts)) = Some (trim_space (meaning (t :: ts)), []).
Proof.
  intros Hf Hl Hm. unfold literal_pipeline.
  rewrite <- (app_nil_r (write (t :: ts))). rewrite (lex_line_first t ts [] Hf Hl).
  assert (Hl' : lex_ok None ts = true).
  { destruct t; cbn [lex_ok] in Hl; apply andb_true_iff in Hl as [_ Hl]; exact Hl. }
  rewrite (lex_text_toks ts [] _ Hl'). cbn [lex_text].
  rewrite rev_app_distr, !rev_involutive.
  change (lexed1 t ++ lexed ts) with (lexed (t :: ts)).
  destruct (parse_markup_toks (t :: ts) Hm) as [attrs E]. rewrite E. reflexivity.
Qed.

(* with trailing hashtags: the text is the same, the tags are returned in order *)
Theorem literal_text_resolved_tags t ts t0 tags :
  first_ok t = true -> lex_ok (Some 35) (t :: ts) = true -> mk_ok (t :: ts) = true ->
  good_tag t0 -> Forall good_tag tags ->
  literal_pipeline (write (t :: ts) ++ 35 :: t0 ++ render_tags tags)
    = Some (trim_space (meaning (t :: ts)), t0 :: tags).
Proof.
  intros Hf Hl Hm Ht0 Htags. unfold literal_pipeline.
  rewrite (lex_line_first t ts (35 :: t0 ++ render_tags tags) Hf Hl).
  assert (Hl' : lex_ok (Some 35) ts = true).
  { destruct t; cbn [lex_ok] in Hl; apply andb_true_iff in Hl as [_ Hl]; exact Hl. }
  rewrite (lex_text_toks ts (35 :: t0 ++ render_tags tags) _ Hl').
  cbn [lex_text]. change (35 =? 92) with false. change (35 =? 35) with true. cbv beta iota.
  rewrite (lex_tags_render tags _ t0 [] Ht0 Htags).
  2:{ rewrite app_length. assert (L : forall l, (length l <= length (render_tags l))%nat).
      { induction l as [|x l IHl]; cbn [render_tags length]; [lia|]. rewrite app_length. lia. }
      specialize (L tags). lia. }
  rewrite rev_app_distr, !rev_involutive.
  change (lexed1 t ++ lexed ts) with (lexed (t :: ts)).
  destruct (parse_markup_toks (t :: ts) Hm) as [attrs E]. rewrite E. reflexivity.
Qed.

(* with a trailing comment: it never appears *)
Theorem literal_text_resolved_comment t ts cm :
  first_ok t = true -> lex_ok (Some 47) (t :: ts) = true -> mk_ok (t :: ts) = true ->
  literal_pipeline (write (t :: ts) ++ 47 :: 47 :: cm) = Some (trim_space (meaning (t :: ts)), []).
Proof.
  intros Hf Hl Hm. unfold literal_pipeline.
  rewrite (lex_line_first t ts (47 :: 47 :: cm) Hf Hl).
  assert (Hl' : lex_ok (Some 47) ts = true).
  { destruct t; cbn [lex_ok] in Hl; apply andb_true_iff in Hl as [_ Hl]; exact Hl. }
  rewrite (lex_text_toks ts (47 :: 47 :: cm) _ Hl').
  cbn [lex_text]. change (47 =? 92) with false. change (47 =? 35) with false. change (47 =? 123) with false.
  change (47 =? 60) with false. change (47 =? 47) with true. cbn [andb orb].
  rewrite rev_app_distr, !rev_involutive.
  change (lexed1 t ++ lexed ts) with (lexed (t :: ts)).
  destruct (parse_markup_toks (t :: ts) Hm) as [attrs E]. rewrite E. reflexivity.
Qed.

(* finding D27: the one excluded shape really fails - a\\]b means a\]b and comes out as a]b *)
Theorem escaped_backslash_before_bracket_refuted :
  let ts := [TChar 97; TEsc 92; TChar 93; TChar 98] in
  first_ok (TChar 97) = true /\ lex_ok None ts = true /\ mk_ok ts = false /\
  meaning ts = [97; 92; 93; 98] /\
  literal_pipeline (write ts) = Some ([97; 93; 98], []).
Proof. vm_compute. repeat split; reflexivity. Qed.

(* non-vacuity: every escapable character, escaped and plain forms, brackets, multi-byte text *)
Example literal_example :
  let ts := [TChar 32; TEsc 92; TEsc 91; TChar 97; TEsc 93; TChar 93; TChar 60; TChar 98; TChar 47; TEsc 47; TEsc 47;
             TEsc 35; TEsc 123; TChar 125; TEsc 62; TChar 62; TChar 26085; TEsc 60; TEsc 60; TChar 32] in
  first_ok (TChar 120) = true /\ lex_ok None (TChar 120 :: ts) = true /\ mk_ok (TChar 120 :: ts) = true /\
  literal_pipeline (write (TChar 120 :: ts)) = Some (trim_space (meaning (TChar 120 :: ts)), []).
Proof. vm_compute. repeat split; reflexivity. Qed.
