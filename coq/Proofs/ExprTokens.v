(* Expressions as the tokens of the real lexer's vocabulary: the instance of the "expression writer" that
   the statement-level theorems take as a parameter.  An expression is written with minimal parentheses
   (print_min over the generated precedence table), each token as the (kind, text) pair the lexer would
   deliver: `$x`, `"s"`, the digits of a number, true / false / null, operator and punctuation kinds.
   The only condition is on numerals: the text chosen for a number must be read back as that number
   (num_ok; number(string(x)) = x is not proved in general - it is checked per literal, by computation). *)
From Coq Require Import List Arith Bool ZArith NArith Lia.
From Flocq Require Import Core BinarySingleNaN.
From YS Require Import Base.Sexp Num.F64 Num.Decimal Yarn.Ast Generated.ExprTable Generated.TokenTable
  Syntax.ExprParser Syntax.StmtParser Proofs.ExprParserProofs Proofs.ExprFuelProofs Proofs.StmtParserProofs.
Import ListNotations.

Definition kind_of_binop (o : binop) : kind :=
  match o with
  | OMul => K_OPERATOR_MATHS_MULTIPLICATION | ODiv => K_OPERATOR_MATHS_DIVISION | OMod => K_OPERATOR_MATHS_MODULUS
  | OAdd => K_OPERATOR_MATHS_ADDITION | OSub => K_OPERATOR_MATHS_SUBTRACTION
  | OLe => K_OPERATOR_LOGICAL_LESS_THAN_EQUALS | OGe => K_OPERATOR_LOGICAL_GREATER_THAN_EQUALS
  | OLt => K_OPERATOR_LOGICAL_LESS | OGt => K_OPERATOR_LOGICAL_GREATER
  | OEq => K_OPERATOR_LOGICAL_EQUALS | ONe => K_OPERATOR_LOGICAL_NOT_EQUALS
  | OAnd => K_OPERATOR_LOGICAL_AND | OOr => K_OPERATOR_LOGICAL_OR | OXor => K_OPERATOR_LOGICAL_XOR
  end.

(* the listener's operator map, as regenerated from the Go source, reads these kinds back *)
Lemma binop_kind_roundtrip o : binop_of_kind (kind_of_binop o) = Some o.
Proof. destruct o; reflexivity. Qed.

Definition T_of_tok (t : tok) : kind * str :=
  match t with
  | TLP => (K_LPAREN, STR "(")
  | TRP => (K_RPAREN, STR ")")
  | TComma => (K_COMMA, STR ",")
  | TNot => (K_OPERATOR_LOGICAL_NOT, STR "!")
  | TOp o => (kind_of_binop o, [])
  | TAtom (AVal (VBool true)) => (K_KEYWORD_TRUE, STR "true")
  | TAtom (AVal (VBool false)) => (K_KEYWORD_FALSE, STR "false")
  | TAtom (AVal (VStr s)) => (K_STRING, 34%N :: s ++ [34%N])
  | TAtom (AVal (VNum f)) => (K_NUMBER, fmt_f f)
  | TAtom (AVar x) => (K_VAR_ID, 36%N :: x)
  | TAtom ANull => (K_KEYWORD_NULL, STR "null")
  | TFunc f => (K_FUNC_ID, f)
  end.

(* sameness of two doubles, decidable by computation (the record carries a proof that the mantissa fits;
   two such proofs are equal because equality on bool is decidable - no axiom) *)
Definition f64_same (x y : f64) : bool :=
  match x, y with
  | B754_zero a, B754_zero b => Bool.eqb a b
  | B754_infinity a, B754_infinity b => Bool.eqb a b
  | B754_nan, B754_nan => true
  | B754_finite s m e _, B754_finite s' m' e' _ => Bool.eqb s s' && Pos.eqb m m' && Z.eqb e e'
  | _, _ => false
  end.

Lemma f64_same_eq x y : f64_same x y = true -> x = y.
Proof.
  destruct x as [a|a| |s m e H]; destruct y as [b|b| |s' m' e' H']; cbn [f64_same]; try discriminate; intros E.
  - apply Bool.eqb_prop in E. subst. reflexivity.
  - apply Bool.eqb_prop in E. subst. reflexivity.
  - reflexivity.
  - apply andb_true_iff in E as [E E3]. apply andb_true_iff in E as [E1 E2].
    apply Bool.eqb_prop in E1. apply Pos.eqb_eq in E2. apply Z.eqb_eq in E3. subst.
    f_equal. apply Eqdep_dec.UIP_dec. apply Bool.bool_dec.
Qed.

Definition num_ok (f : f64) : Prop := f64_same (number_of_text (fmt_f f)) f = true.
Definition tok_ok (t : tok) : Prop := match t with TAtom (AVal (VNum f)) => num_ok f | _ => True end.

Lemma etok_roundtrip t : tok_ok t -> etok_of (T_of_tok t) = Some t.
Proof.
  destruct t as [| | | |o|a|f]; try reflexivity.
  - intros _. cbn [T_of_tok etok_of]. destruct o; reflexivity.
  - destruct a as [v|x|]; try reflexivity. destruct v as [n|b|s]; cbn [tok_ok T_of_tok].
    + intros H. cbn [etok_of]. unfold num_ok in H. rewrite (f64_same_eq _ _ H). reflexivity.
    + intros _. destruct b; reflexivity.
    + intros _. cbn [etok_of]. unfold strip_quotes. cbn [tl]. rewrite removelast_last. reflexivity.
Qed.

Lemma take_etoks_map ts : Forall tok_ok ts -> take_etoks (map T_of_tok ts) = (ts, []).
Proof.
  Local Transparent take_etoks.
  induction 1 as [|t ts Ht _ IH]; [reflexivity|]. cbn [map take_etoks]. rewrite (etok_roundtrip t Ht), IH. reflexivity.
  Local Opaque take_etoks.
Qed.

Notation pmin := (print_min level right_prec neg_operand_prec not_operand_prec).

(* the writer, and the expressions it is good for: every numeral is read back *)
Definition er_min (e : expr) : list (kind * str) := map T_of_tok (pmin 0 e).
Definition ewf_min (e : expr) : Prop := Forall tok_ok (pmin 0 e).

Lemma er_min_toks e : ewf_min e -> Forall is_etok (er_min e).
Proof.
  unfold er_min, ewf_min. induction 1 as [|t ts Ht _ IH]; cbn [map]; constructor; [|exact IH].
  unfold is_etok. rewrite (etok_roundtrip t Ht). discriminate.
Qed.

Lemma er_min_parse e : ewf_min e -> parse_expression (fst (take_etoks (er_min e))) = Some e.
Proof.
  intros H. unfold er_min. rewrite (take_etoks_map _ H). cbn [fst].
  destruct (print_min_prints level right_prec neg_operand_prec not_operand_prec e 0) as (k & Hp).
  exact (written_expression_parses e _ k Hp).
Qed.

Lemma er_min_call f args : ewf_min (ECall f args) ->
  parse_call_toks (fst (take_etoks (er_min (ECall f args)))) = Some (f, args).
Proof.
  intros H. unfold er_min. rewrite (take_etoks_map _ H). cbn [fst].
  destruct (print_min_prints level right_prec neg_operand_prec not_operand_prec (ECall f args) 0) as (k & Hp).
  inversion Hp as [q a Ea| | | |q fn a tss Hargs|]; subst.
  { destruct a; discriminate. }
  unfold parse_call_toks.
  cbn [print_min]. match goal with H : _ = _ :> list tok |- _ => rewrite <- H end.
  pose proof (proj1 (proj2 (prints_parse_fuel level right_prec neg_operand_prec not_operand_prec generated_table_wf)) args tss Hargs []) as Hb.
  rewrite Hb; [reflexivity|]. cbn [length]. rewrite app_length. cbn [length]. lia.
Qed.

Lemma er_min_value v : ewf_min v -> (exists a, v = expr_of_atom a) \/ (exists f args, v = ECall f args) ->
  parse_value_toks (fst (take_etoks (er_min v))) = Some v.
Proof.
  intros H [[a ->]|(f & args & ->)].
  - unfold er_min. rewrite (take_etoks_map _ H). cbn [fst]. destruct a as [w|x|]; reflexivity.
  - pose proof (er_min_call f args H) as Hc. unfold parse_value_toks. rewrite Hc.
    unfold er_min in *. rewrite (take_etoks_map _ H) in *. cbn [fst] in *.
    cbn [print_min]. reflexivity.
Qed.

(* a dialogue may also be empty of numerals altogether: then nothing is asked *)
Lemma ewf_min_no_numbers e : (forall f, ~ In (TAtom (AVal (VNum f))) (pmin 0 e)) -> ewf_min e.
Proof.
  intros H. unfold ewf_min. apply Forall_forall. intros t Ht. destruct t as [| | | |o|a|f]; try exact I.
  destruct a as [v|x|]; try exact I. destruct v as [n|b|s]; try exact I. exfalso. exact (H n Ht).
Qed.
