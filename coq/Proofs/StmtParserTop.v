(* From written statements to written dialogues: the fuel the model gives its statement parser
   (2 * tokens + 4) always suffices for a written body, so a whole written script - file-level
   hashtags, nodes with their headers, bodies - is accepted by the model of tree.FromReader and read
   as the dialogue it stands for. *)
From Coq Require Import List Arith Bool ZArith NArith Lia.
From YS Require Import Base.Sexp Num.F64 Yarn.Ast Generated.ExprTable Generated.TokenTable
  Syntax.ExprParser Syntax.CommandText Syntax.StmtParser Proofs.StmtParserProofs.
Import ListNotations.

Section Top.
  Variable er : expr -> list (kind * str).
  Variable ewf : expr -> Prop.
  Hypothesis er_toks : forall e, Forall is_etok (er e).
  Hypothesis er_parse : forall e, ewf e -> parse_expression (fst (take_etoks (er e))) = Some e.
  Hypothesis er_call : forall f args, ewf (ECall f args) ->
    parse_call_toks (fst (take_etoks (er (ECall f args)))) = Some (f, args).
  Hypothesis er_value : forall v, ewf v -> (exists a, v = expr_of_atom a) \/ (exists f args, v = ECall f args) ->
    parse_value_toks (fst (take_etoks (er v))) = Some v.

  Notation pws := (pws er).
  Notation pw := (pw er).
  Notation p_line := (p_line er).
  Notation p_opts := (p_opts er).
  Notation p_elifs := (p_elifs er).
  Notation p_else := (p_else er).
  Notation wfs := (wfs er ewf).
  Notation wf1 := (wf1 er ewf).

  (* ---------- tokens bound sizes ---------- *)
  Lemma p_line_len l : line_ok ewf l -> 2 <= length (p_line l).
  Proof.
    intros (Hne & _). unfold StmtParserProofs.p_line. rewrite !app_length. cbn [length].
    pose proof (flat_len er (ltext l)). destruct (ltext l); [contradiction|]. cbn [length] in *. lia.
  Qed.

  Definition size_ok (n : nat) : Prop :=
    forall ws k, wssize ws <= n -> wfs ws k -> wssize ws <= 2 * length (pws ws) + 1.

  Lemma osize_tokens n : size_ok n -> forall os, osize os <= n ->
    Forall (fun o => line_ok ewf (fst o) /\ wfs (snd o) K_DEDENT) os ->
    osize os + 3 * length os <= 2 * length (p_opts os).
  Proof.
    intros IH. induction os as [|[l b] r IHr]; intros Hsz Hwf; [cbn; lia|].
    inversion Hwf as [|? ? [Hl Hb] Hwf']; subst. cbn [fst snd] in *.
    cbn [osize] in Hsz. cbn [osize length StmtParserProofs.p_opts]. rewrite !app_length.
    pose proof (p_line_len l Hl). specialize (IHr ltac:(lia) Hwf').
    destruct b as [|w b'].
    - cbn [p_body wssize length]. lia.
    - pose proof (IH (w :: b') K_DEDENT ltac:(lia) Hb).
      cbn [p_body length]. rewrite app_length. cbn [length]. lia.
  Qed.

  Lemma csize_tokens n : size_ok n -> forall cs, csize cs <= n ->
    Forall (fun cb => ewf (fst cb) /\ wfs (snd cb) K_COMMAND_START) cs ->
    csize cs <= 2 * length (p_elifs cs).
  Proof.
    intros IH. induction cs as [|[c b] r IHr]; intros Hsz Hwf; [cbn; lia|].
    inversion Hwf as [|? ? [Hc Hb] Hwf']; subst. cbn [fst snd] in *.
    cbn [csize] in Hsz. cbn [csize StmtParserProofs.p_elifs length]. rewrite !app_length. cbn [length]. rewrite app_length.
    specialize (IHr ltac:(lia) Hwf'). pose proof (IH b K_COMMAND_START ltac:(lia) Hb). lia.
  Qed.

  Lemma size_tokens_n : forall n, size_ok n.
  Proof.
    induction n as [n IHn] using lt_wf_ind.
    assert (IHlt : forall m, m < n -> size_ok m) by exact IHn.
    assert (IHs : forall ws k, wssize ws < n -> wfs ws k -> wssize ws <= 2 * length (pws ws) + 1).
    { intros ws k Hlt. apply (IHlt (wssize ws) Hlt). lia. }
    assert (IHok : forall m, m < n -> size_ok m).
    { intros m Hm ws k Hsz. apply IHs. lia. }
    intros ws k Hsz Hwf. destruct ws as [|w r]; [cbn; lia|].
    inversion Hwf as [|? ? ? Hw Hr]; subst.
    cbn [wssize] in *. pose proof (wsize_pos w) as Hwp. pose proof (wssize_pos r) as Hrp.
    assert (Hltr : wssize r < n) by lia. pose proof (IHs r k Hltr Hr) as Hrs.
    change (pws (w :: r)) with (pw w ++ pws r). rewrite app_length.
    assert (Hw2 : wsize w <= 2 * length (pw w)); [|clear - Hrs Hw2; lia].
    destruct w as [l|os blank|x op e|d|e|c b elifs els|els|fn args|x v ty|ws'].
    - cbn [wsize StmtParserProofs.pw]. inversion Hw as [? ? Hl| | | | | | | | |]; subst. pose proof (p_line_len l Hl). lia.
    - inversion Hw as [|? ? ? Hne Hos Hafter| | | | | | | |]; subst.
      rewrite wsize_opts in *. rewrite pw_opts, app_length.
      assert (Hlt : osize os < n) by lia.
      pose proof (osize_tokens (osize os) (IHok _ Hlt) os (le_n _) Hos).
      destruct os; [contradiction|]. cbn [length] in *. lia.
    - cbn [wsize StmtParserProofs.pw length]. lia.
    - cbn [wsize StmtParserProofs.pw length]. lia.
    - cbn [wsize StmtParserProofs.pw length]. lia.
    - inversion Hw as [| | | | |? ? ? ? ? Hc Hb Helifs Hels| | | |]; subst.
      rewrite wsize_if in *. rewrite pw_if. cbn [length]. rewrite !app_length. cbn [length]. rewrite !app_length.
      assert (Hltb : wssize b < n) by lia. pose proof (IHs b K_COMMAND_START Hltb Hb).
      assert (Hlt : csize elifs < n) by lia.
      pose proof (csize_tokens (csize elifs) (IHok _ Hlt) elifs (le_n _) Helifs).
      assert (elsize els <= 2 * length (p_else els)).
      { destruct els as [b'|]; [|cbn; lia]. cbn [elsize StmtParserProofs.p_else length] in *.
        assert (Hlt' : wssize b' < n) by lia. pose proof (IHs b' K_COMMAND_START Hlt' (Hels b' eq_refl)). lia. }
      cbn [endif_toks length]. lia.
    - cbn [wsize StmtParserProofs.pw length]. lia.
    - cbn [wsize StmtParserProofs.pw length]. lia.
    - cbn [wsize StmtParserProofs.pw length]. lia.
    - inversion Hw; subst. rewrite wsize_block in *. rewrite pw_block. cbn [length]. rewrite app_length. cbn [length].
      assert (Hlt : wssize ws' < n) by lia.
      match goal with H : wfs ws' _ |- _ => pose proof (IHs ws' _ Hlt H) end. lia.
  Qed.

  Lemma size_tokens ws k : wfs ws k -> wssize ws <= 2 * length (pws ws) + 1.
  Proof. apply (size_tokens_n (wssize ws)). lia. Qed.

  (* ---------- nodes ---------- *)
  Record wnode := { wheaders : list (str * option str); wbody : list wstmt }.

  Definition p_header (h : str * option str) : list (kind * str) :=
    match h with
    | (k, Some v) => [(K_ID, k); (K_HEADER_DELIMITER, []); (K_REST_OF_LINE, v)]
    | (k, None) => [(K_ID, k); (K_HEADER_DELIMITER, [])]
    end.
  Definition p_node (n : wnode) : list (kind * str) :=
    flat_map p_header (wheaders n) ++ (K_BODY_START, []) :: pws (wbody n) ++ [(K_BODY_END, [])].

  (* Headers is a Go map filled in order: the last value of a key stays; a header without a value is "" *)
  Definition hdr_val (h : str * option str) : str := match snd h with Some v => v | None => [] end.
  Definition hdr_map (hs : list (str * option str)) (acc : alist str) : alist str :=
    fold_left (fun acc h => aset acc (fst h) (hdr_val h)) hs acc.
  Definition mean_node (n : wnode) : node :=
    {| headers := sort_alist (hdr_map (wheaders n) []); body := meaning (wbody n) |}.

  Definition node_ok (n : wnode) : Prop := wheaders n <> [] /\ wfs (wbody n) K_BODY_END.

  Lemma parse_headers_ok : forall hs acc rest,
    (match rest with (K_ID, _) :: (K_HEADER_DELIMITER, _) :: _ => False | (K_REST_OF_LINE, _) :: _ => False | _ => True end) ->
    parse_headers (flat_map p_header hs ++ rest) acc = (hdr_map hs acc, rest).
  Proof.
    induction hs as [|[k [v|]] r IH]; intros acc rest Hr.
    - cbn [flat_map app hdr_map fold_left].
      destruct rest as [|[k1 s1] t]; [reflexivity|]. destruct k1; try reflexivity; try contradiction.
      destruct t as [|[k2 s2] t']; [reflexivity|]. destruct k2; try reflexivity. contradiction.
    - cbn [flat_map p_header app parse_headers]. rewrite IH by exact Hr. reflexivity.
    - cbn [flat_map p_header app].
      assert (Hnext : forall q, (match q with (K_REST_OF_LINE, _) :: _ => False | _ => True end) ->
                parse_headers ((K_ID, k) :: (K_HEADER_DELIMITER, []) :: q) acc = parse_headers q (aset acc k [])).
      { intros q Hq. destruct q as [|[k1 s1] t]; [reflexivity|]. destruct k1; try reflexivity. contradiction. }
      rewrite Hnext.
      + rewrite IH by exact Hr. reflexivity.
      + destruct r as [|[k' [v'|]] r']; cbn [flat_map p_header app]; try exact I.
        destruct rest as [|[k1 s1] t]; [exact I|]. destruct k1; try exact I. cbn in Hr. exact Hr.
  Qed.

  Lemma parse_node_unfold h r X :
    parse_node (flat_map p_header (h :: r) ++ X) =
    let '(hs, r0) := parse_headers (flat_map p_header (h :: r) ++ X) [] in
    match r0 with
    | (K_BODY_START, _) :: r1 =>
        match parse_stmts (stmt_fuel r1) r1 with
        | Some (b, (K_BODY_END, _) :: r2) => Some ({| headers := sort_alist hs; body := b |}, r2)
        | _ => None
        end
    | _ => None
    end.
  Proof. destruct h as [k [v|]]; reflexivity. Qed.

  Lemma parse_node_ok n rest : node_ok n ->
    parse_node (p_node n ++ rest) = Some (mean_node n, rest).
  Proof.
    intros (Hne & Hb). unfold p_node, mean_node. rewrite <- app_assoc. cbn [app]. rewrite <- app_assoc. cbn [app].
    destruct (wheaders n) as [|h r] eqn:E; [contradiction|].
    rewrite parse_node_unfold. rewrite parse_headers_ok by exact I.
    rewrite (parse_written er ewf er_toks er_parse er_call er_value (wbody n) ((K_BODY_END, []) :: rest)); [reflexivity|exact Hb|reflexivity|].
    pose proof (size_tokens _ _ Hb). unfold stmt_fuel. rewrite app_length. cbn [length]. lia.
  Qed.

  Lemma parse_nodes_ok : forall ns rest fuel, Forall node_ok ns ->
    (match rest with (K_ID, _) :: _ => False | _ => True end) -> length ns < fuel ->
    parse_nodes fuel (flat_map p_node ns ++ rest) = Some (map mean_node ns, rest).
  Proof.
    induction ns as [|n r IH]; intros rest fuel Hok Hr Hf.
    - cbn [flat_map app map]. destruct fuel as [|f]; [cbn in Hf; lia|]. cbn [parse_nodes].
      destruct rest as [|[k s] t]; [reflexivity|]. destruct k; try reflexivity. contradiction.
    - inversion Hok as [|? ? Hn Hok']; subst. destruct fuel as [|f]; [cbn in Hf; lia|]. cbn [length] in Hf.
      cbn [flat_map map]. rewrite <- app_assoc.
      assert (Hhead : exists k q, p_node n ++ flat_map p_node r ++ rest = (K_ID, k) :: q).
      { destruct Hn as (Hne & _). unfold p_node. destruct (wheaders n) as [|[k [v|]] r0]; [contradiction| |]; cbn [flat_map p_header app]; eauto. }
      destruct Hhead as (k & q & Eh). cbn [parse_nodes]. rewrite Eh. cbn iota. rewrite <- Eh.
      rewrite parse_node_ok by exact Hn. rewrite IH; [reflexivity|exact Hok'|exact Hr|lia].
  Qed.

  (* ---------- whole scripts ---------- *)
  Definition p_file_tags (tags : list str) : list (kind * str) :=
    flat_map (fun s => [(K_HASHTAG, []); (K_HASHTAG_TEXT, s)]) tags.
  Definition p_script (tags : list str) (ns : list wnode) : list (kind * str) :=
    p_file_tags tags ++ flat_map p_node ns ++ [(K_EOF, [])].

  Lemma skip_file_tags tags rest : (match rest with (K_HASHTAG, _) :: _ => False | _ => True end) ->
    skip_file_hashtags (p_file_tags tags ++ rest) = rest.
  Proof.
    intros Hr. induction tags as [|t r IH]; cbn [p_file_tags flat_map app].
    - destruct rest as [|[k s] q]; [reflexivity|]. destruct k; try reflexivity. contradiction.
    - cbn [skip_file_hashtags]. exact IH.
  Qed.

  Lemma length_nodes ns : length ns <= length (flat_map p_node ns).
  Proof.
    induction ns as [|n r IH]; [cbn; lia|]. cbn [flat_map length]. rewrite app_length.
    unfold p_node at 1. rewrite app_length. cbn [length]. lia.
  Qed.

  Theorem written_script_is_loaded tags ns : ns <> [] -> Forall node_ok ns ->
    from_reader 0 (p_script tags ns) = Some (map mean_node ns).
  Proof.
    intros Hne Hok. unfold from_reader, parse_dialogue, p_script. cbn [Z.eqb].
    assert (Hstart : match flat_map p_node ns ++ [(K_EOF, [])] with (K_HASHTAG, _) :: _ => False | _ => True end).
    { destruct ns as [|n r]; [contradiction|]. inversion Hok as [|? ? (Hh & _) _]; subst.
      cbn [flat_map]. unfold p_node. destruct (wheaders n) as [|[k [v|]] r0]; [contradiction| |]; exact I. }
    rewrite skip_file_tags by exact Hstart.
    rewrite parse_nodes_ok; [|exact Hok|exact I|].
    - destruct ns; [contradiction|]. reflexivity.
    - rewrite !app_length. pose proof (length_nodes ns). lia.
  Qed.
End Top.
