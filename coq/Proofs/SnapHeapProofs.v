(* C07 on the heap-explicit model (Yarn/SnapHeap.v): snapshots are self-contained.
   Invariant (every reachable configuration): no address is owned twice - by two runners, two
   snapshots, a runner and a snapshot, or twice by one object - and every owned address is
   allocated.  Frame: an operation of runner i writes only to objects owned by runner i (and to fresh
   ones); an edit of snapshot j by the host writes only to objects of snapshot j.  Together: nothing
   a runner does changes a snapshot or another runner, runners restored from the same snapshot do not
   influence one another, and a snapshot taken right after a restore equals the restored one. *)
From Coq Require Import List ZArith Bool Arith Lia.
From YS Require Import Base.Sexp Num.F64 Yarn.Ast Yarn.Value Yarn.Runner Yarn.SnapHeap.
Import ListNotations.

(* ---------- the heap ---------- *)
Lemma hset_length h a o : length (hset h a o) = length h.
Proof. revert a; induction h as [|x h IH]; intros [|a]; cbn; auto. Qed.

Lemma hget_hset_other h a o b : a <> b -> hget (hset h a o) b = hget h b.
Proof.
  unfold hget. revert a b; induction h as [|x h IH]; intros [|a] [|b] H; cbn; auto; try congruence.
  all: try (apply IH; congruence).
Qed.

Lemma hget_hset_same h a o : a < length h -> hget (hset h a o) a = Some o.
Proof. unfold hget. revert a; induction h as [|x h IH]; intros [|a] H; cbn in *; try lia; auto. apply IH. lia. Qed.

Lemma hget_alloc_old h o b : b < length h -> hget (h ++ [o]) b = hget h b.
Proof. intros H. unfold hget. apply nth_error_app1. exact H. Qed.

Lemma hget_alloc_new h o : hget (h ++ [o]) (length h) = Some o.
Proof. unfold hget. rewrite nth_error_app2 by lia. rewrite Nat.sub_diag. reflexivity. Qed.

(* ---------- ownership, counted ---------- *)
Definition cnt (l : list nat) (a : nat) : nat := count_occ Nat.eq_dec l a.

Lemma cnt_app l l' a : cnt (l ++ l') a = cnt l a + cnt l' a.
Proof. apply count_occ_app. Qed.

Lemma cnt_cons x l a : cnt (x :: l) a = (if Nat.eq_dec x a then 1 else 0) + cnt l a.
Proof. unfold cnt. cbn. destruct (Nat.eq_dec x a); reflexivity. Qed.

Lemma cnt_nil a : cnt [] a = 0.
Proof. reflexivity. Qed.

Lemma cnt_pos_in l a : 0 < cnt l a <-> In a l.
Proof. unfold cnt. split; intros H; [apply (count_occ_In Nat.eq_dec); lia|apply (count_occ_In Nat.eq_dec) in H; lia]. Qed.

Definition owned_r (r : hrunner) : list nat := [r_store r; r_visits r; r_vsnap r].
Definition owned_s (s : hsnap) : list nat := [s_vars s; s_visits s].
Definition owned_rs (l : list hrunner) : list nat := concat (map owned_r l).
Definition owned_ss (l : list hsnap) : list nat := concat (map owned_s l).
Definition all_owned (c : config) : list nat := owned_rs (runners c) ++ owned_ss (snaps c).

Definition Inv (c : config) : Prop :=
  forall a, cnt (all_owned c) a <= 1 /\ (0 < cnt (all_owned c) a -> a < length (hp c)).

Lemma owned_rs_app l l' : owned_rs (l ++ l') = owned_rs l ++ owned_rs l'.
Proof. unfold owned_rs. rewrite map_app, concat_app. reflexivity. Qed.
Lemma owned_ss_app l l' : owned_ss (l ++ l') = owned_ss l ++ owned_ss l'.
Proof. unfold owned_ss. rewrite map_app, concat_app. reflexivity. Qed.
Lemma owned_rs_cons r l : owned_rs (r :: l) = owned_r r ++ owned_rs l.
Proof. reflexivity. Qed.
Lemma owned_ss_cons s l : owned_ss (s :: l) = owned_s s ++ owned_ss l.
Proof. reflexivity. Qed.

Lemma split_at {A} (l : list A) i x : nth_error l i = Some x ->
  exists l1 l2, l = l1 ++ x :: l2 /\ length l1 = i /\ firstn i l = l1 /\ skipn (S i) l = l2.
Proof.
  intros H. destruct (nth_error_split l i H) as (l1 & l2 & -> & Hl). exists l1, l2. repeat split; auto.
  - rewrite <- Hl. rewrite firstn_app, Nat.sub_diag, firstn_all. cbn. apply app_nil_r.
  - rewrite <- Hl. replace (S (length l1)) with (length (l1 ++ [x])) by (rewrite app_length; cbn; lia).
    replace (l1 ++ x :: l2) with ((l1 ++ [x]) ++ l2) by (rewrite <- app_assoc; reflexivity).
    rewrite skipn_app, Nat.sub_diag, skipn_all. reflexivity.
Qed.

Lemma set_runner_split l i r0 : nth_error l i = Some r0 ->
  exists l1 l2, l = l1 ++ r0 :: l2 /\ forall r, set_runner l i r = l1 ++ r :: l2.
Proof.
  intros H. destruct (split_at l i r0 H) as (l1 & l2 & E & _ & F & S). exists l1, l2. split; [exact E|].
  intros r. unfold set_runner. rewrite F, S. reflexivity.
Qed.

Ltac cnt_norm :=
  unfold all_owned in *;
  repeat (rewrite ?owned_rs_app, ?owned_ss_app, ?owned_rs_cons, ?owned_ss_cons, ?cnt_app in * );
  unfold owned_r, owned_s in *; cbn [r_store r_visits r_vsnap s_vars s_visits] in *;
  repeat (rewrite ?cnt_cons, ?cnt_nil in * ).

Ltac eqdecs := repeat match goal with |- context [Nat.eq_dec ?x ?y] => destruct (Nat.eq_dec x y) end.
Ltac eqdecs_in H := repeat match type of H with context [Nat.eq_dec ?x ?y] => destruct (Nat.eq_dec x y) end.

(* ---------- the invariant holds in every reachable configuration ---------- *)
Lemma inv_init : Inv init_config.
Proof. intros a. cbn. split; [lia|intros H; cbn in H; lia]. Qed.

Lemma inv_hset c a o : Inv c -> Inv {| hp := hset (hp c) a o; runners := runners c; snaps := snaps c |}.
Proof. intros I b. destruct (I b) as [I1 I2]. cbn [hp]. rewrite hset_length. split; assumption. Qed.

Lemma inv_new c s : Inv c -> Inv (op_new c s).
Proof.
  intros I a. unfold op_new, alloc. cbn [hp runners snaps].
  destruct (I a) as [I1 I2]. unfold all_owned in *. cbn [runners snaps hp] in *.
  rewrite owned_rs_app, owned_rs_cons. cbn [owned_rs map concat]. rewrite ?app_length. cbn [length].
  rewrite !cnt_app in *. unfold owned_r. cbn [r_store r_visits r_vsnap]. rewrite ?app_length. cbn [length].
  rewrite !cnt_cons, !cnt_nil.
  set (n := length (hp c)) in *. set (x := cnt (owned_rs (runners c)) a) in *. set (y := cnt (owned_ss (snaps c)) a) in *.
  eqdecs; subst; split; try lia; intros; try lia.
  all: try (assert (n < n) by (apply I2; lia); lia).
  all: try (assert (n + 1 < n) by (apply I2; lia); lia).
  all: try (assert (n + 1 + 1 < n) by (apply I2; lia); lia).
  all: try (assert (a < n) by (apply I2; lia); lia).
Qed.

Lemma inv_jump c i t n : Inv c -> Inv (op_jump c i t n).
Proof.
  intros I. unfold op_jump. destruct (nth_error (runners c) i) as [r|] eqn:E; [|exact I].
  destruct (set_runner_split _ i r E) as (l1 & l2 & E1 & E2).
  unfold alloc. cbn [hp runners snaps]. rewrite E2.
  intros a. destruct (I a) as [I1 I2]. destruct (I (length (hp c))) as [J1 J2].
  unfold all_owned in *. cbn [hp runners snaps] in *. rewrite E1 in *.
  assert (G : forall h, length h = length (hp c) ->
    cnt (owned_rs (l1 ++ {| r_store := r_store r; r_visits := r_visits r; r_vsnap := length h; r_cur := n |} :: l2) ++ owned_ss (snaps c)) a <= 1 /\
    (0 < cnt (owned_rs (l1 ++ {| r_store := r_store r; r_visits := r_visits r; r_vsnap := length h; r_cur := n |} :: l2) ++ owned_ss (snaps c)) a ->
     a < length (h ++ [OVars (st_values (store_of h (r_store r)))]))).
  { intros h L. rewrite app_length, L. cbn [length].
    rewrite !owned_rs_app, !owned_rs_cons, !cnt_app in *. unfold owned_r in *. cbn [r_store r_visits r_vsnap] in *.
    rewrite !cnt_cons, !cnt_nil in *.
    set (m := length (hp c)) in *.
    eqdecs; subst; split; try lia; intros; try lia.
    all: try (eqdecs_in J2; try (assert (m < m) by (apply J2; lia); lia)).
    all: try (assert (a < m) by (apply I2; lia); lia). }
  destruct t; apply G; [apply hset_length|reflexivity].
Qed.

Lemma inv_snapshot c i : Inv c -> Inv (op_snapshot c i).
Proof.
  intros I. unfold op_snapshot. destruct (nth_error (runners c) i) as [r|] eqn:E; [|exact I].
  unfold alloc. cbn [hp runners snaps].
  intros a. destruct (I a) as [I1 I2]. destruct (I (length (hp c))) as [J1 J2]. destruct (I (S (length (hp c)))) as [K1 K2].
  unfold all_owned in *. cbn [hp runners snaps] in *.
  rewrite ?app_length. cbn [length].
  rewrite owned_ss_app, owned_ss_cons. cbn [owned_ss map concat]. rewrite !cnt_app in *.
  unfold owned_s. cbn [s_vars s_visits]. rewrite ?app_length. cbn [length]. rewrite !cnt_cons, !cnt_nil.
  set (m := length (hp c)) in *.
  eqdecs; subst; split; try lia; intros; try lia.
  all: try (assert (m < m) by (apply J2; lia); lia).
  all: try (replace (m + 1) with (S m) in * by lia; assert (S m < m) by (apply K2; lia); lia).
  all: try (assert (a < m) by (apply I2; lia); lia).
Qed.

Lemma inv_restore c i j : Inv c -> Inv (op_restore c i j).
Proof.
  intros I. unfold op_restore. destruct (nth_error (runners c) i) as [r|] eqn:E; [|exact I].
  destruct (nth_error (snaps c) j) as [s|] eqn:Es; [|exact I].
  destruct (set_runner_split _ i r E) as (l1 & l2 & E1 & E2).
  unfold alloc. cbn [hp runners snaps]. rewrite E2.
  intros a. destruct (I a) as [I1 I2]. destruct (I (length (hp c))) as [J1 J2]. destruct (I (S (length (hp c)))) as [K1 K2].
  unfold all_owned in *. cbn [hp runners snaps] in *. rewrite E1 in *.
  rewrite hset_length, ?app_length. cbn [length].
  rewrite !owned_rs_app, !owned_rs_cons, !cnt_app in *. unfold owned_r in *. cbn [r_store r_visits r_vsnap] in *.
  rewrite ?app_length in *. cbn [length] in *.
  rewrite !cnt_cons, !cnt_nil in *.
  set (m := length (hp c)) in *.
  eqdecs; subst; split; try lia; intros; try lia.
  all: try (eqdecs_in J2; try (assert (m < m) by (apply J2; lia); lia)).
  all: try (replace (m + 1) with (S m) in * by lia; eqdecs_in K2; try (assert (S m < m) by (apply K2; lia); lia)).
  all: try (assert (a < m) by (apply I2; lia); lia).
Qed.

Theorem inv_step c o : Inv c -> Inv (step c o).
Proof.
  intros I. destruct o; cbn [step].
  - apply inv_new; exact I.
  - unfold op_set. destruct (nth_error (runners c) i); [apply inv_hset|]; exact I.
  - apply inv_jump; exact I.
  - apply inv_snapshot; exact I.
  - apply inv_restore; exact I.
  - unfold op_host_edit_vars. destruct (nth_error (snaps c) j); [apply inv_hset|]; exact I.
  - unfold op_host_edit_visits. destruct (nth_error (snaps c) j); [apply inv_hset|]; exact I.
Qed.

Theorem inv_reachable ops : Inv (fold_left step ops init_config).
Proof.
  assert (G : forall c, Inv c -> Inv (fold_left step ops c)).
  { induction ops as [|o ops IH]; intros c I; cbn; [exact I|]. apply IH. apply inv_step. exact I. }
  apply G. exact inv_init.
Qed.

(* ---------- who owns what ---------- *)
Lemma cnt_rs_ge l i r a : nth_error l i = Some r -> cnt (owned_r r) a <= cnt (owned_rs l) a.
Proof.
  intros H. destruct (split_at l i r H) as (l1 & l2 & -> & _).
  rewrite owned_rs_app, owned_rs_cons, !cnt_app. lia.
Qed.

Lemma cnt_ss_ge l i s a : nth_error l i = Some s -> cnt (owned_s s) a <= cnt (owned_ss l) a.
Proof.
  intros H. destruct (split_at l i s H) as (l1 & l2 & -> & _).
  rewrite owned_ss_app, owned_ss_cons, !cnt_app. lia.
Qed.

Lemma cnt_rs_ge2 l j k rj rk a : j <> k -> nth_error l j = Some rj -> nth_error l k = Some rk ->
  cnt (owned_r rj) a + cnt (owned_r rk) a <= cnt (owned_rs l) a.
Proof.
  revert j k; induction l as [|x l IH]; intros [|j] [|k] N Hj Hk; cbn in Hj, Hk; try discriminate; try congruence.
  - injection Hj as ->. rewrite owned_rs_cons, cnt_app. pose proof (cnt_rs_ge l k rk a Hk). lia.
  - injection Hk as ->. rewrite owned_rs_cons, cnt_app. pose proof (cnt_rs_ge l j rj a Hj). lia.
  - rewrite owned_rs_cons, cnt_app. assert (j <> k) by congruence. pose proof (IH j k H Hj Hk). lia.
Qed.

Lemma cnt_ss_ge2 l j k sj sk a : j <> k -> nth_error l j = Some sj -> nth_error l k = Some sk ->
  cnt (owned_s sj) a + cnt (owned_s sk) a <= cnt (owned_ss l) a.
Proof.
  revert j k; induction l as [|x l IH]; intros [|j] [|k] N Hj Hk; cbn in Hj, Hk; try discriminate; try congruence.
  - injection Hj as ->. rewrite owned_ss_cons, cnt_app. pose proof (cnt_ss_ge l k sk a Hk). lia.
  - injection Hk as ->. rewrite owned_ss_cons, cnt_app. pose proof (cnt_ss_ge l j sj a Hj). lia.
  - rewrite owned_ss_cons, cnt_app. assert (j <> k) by congruence. pose proof (IH j k H Hj Hk). lia.
Qed.

Lemma own_r_cnt r a : In a (owned_r r) -> 1 <= cnt (owned_r r) a.
Proof. intros H. apply cnt_pos_in in H. lia. Qed.
Lemma own_s_cnt s a : In a (owned_s s) -> 1 <= cnt (owned_s s) a.
Proof. intros H. apply cnt_pos_in in H. lia. Qed.

(* a runner and a snapshot share nothing; two runners share nothing; two snapshots share nothing;
   everything owned is allocated *)
Lemma sep_runner_snap c i r k s a : Inv c -> nth_error (runners c) i = Some r -> nth_error (snaps c) k = Some s ->
  In a (owned_r r) -> In a (owned_s s) -> False.
Proof.
  intros I Hr Hs A B. destruct (I a) as [I1 _]. unfold all_owned in I1. rewrite cnt_app in I1.
  pose proof (cnt_rs_ge _ _ _ a Hr). pose proof (cnt_ss_ge _ _ _ a Hs).
  pose proof (own_r_cnt _ _ A). pose proof (own_s_cnt _ _ B). lia.
Qed.

Lemma sep_runner_runner c i k ri rk a : Inv c -> i <> k -> nth_error (runners c) i = Some ri -> nth_error (runners c) k = Some rk ->
  In a (owned_r ri) -> In a (owned_r rk) -> False.
Proof.
  intros I N Hi Hk A B. destruct (I a) as [I1 _]. unfold all_owned in I1. rewrite cnt_app in I1.
  pose proof (cnt_rs_ge2 _ _ _ _ _ a N Hi Hk). pose proof (own_r_cnt _ _ A). pose proof (own_r_cnt _ _ B). lia.
Qed.

Lemma sep_snap_snap c j k sj sk a : Inv c -> j <> k -> nth_error (snaps c) j = Some sj -> nth_error (snaps c) k = Some sk ->
  In a (owned_s sj) -> In a (owned_s sk) -> False.
Proof.
  intros I N Hj Hk A B. destruct (I a) as [I1 _]. unfold all_owned in I1. rewrite cnt_app in I1.
  pose proof (cnt_ss_ge2 _ _ _ _ _ a N Hj Hk). pose proof (own_s_cnt _ _ A). pose proof (own_s_cnt _ _ B). lia.
Qed.

Lemma owned_r_alloc c i r a : Inv c -> nth_error (runners c) i = Some r -> In a (owned_r r) -> a < length (hp c).
Proof.
  intros I Hr A. destruct (I a) as [_ I2]. apply I2. unfold all_owned. rewrite cnt_app.
  pose proof (cnt_rs_ge _ _ _ a Hr). pose proof (own_r_cnt _ _ A). lia.
Qed.
Lemma owned_s_alloc c k s a : Inv c -> nth_error (snaps c) k = Some s -> In a (owned_s s) -> a < length (hp c).
Proof.
  intros I Hs A. destruct (I a) as [_ I2]. apply I2. unfold all_owned. rewrite cnt_app.
  pose proof (cnt_ss_ge _ _ _ a Hs). pose proof (own_s_cnt _ _ A). lia.
Qed.

(* ---------- frame: what an operation writes ---------- *)
Definition actor (o : op) : option nat :=
  match o with OSet i _ _ | OJump i _ _ | OSnapshot i | ORestore i _ => Some i | _ => None end.
Definition edited (o : op) : option nat :=
  match o with OEditVars j _ | OEditVisits j _ => Some j | _ => None end.

(* addresses (already allocated) whose object the operation replaces *)
Definition written (c : config) (o : op) : list nat :=
  match o with
  | OSet i _ _ | ORestore i _ => match nth_error (runners c) i with Some r => [r_store r] | None => [] end
  | OJump i true _ => match nth_error (runners c) i with Some r => [r_visits r] | None => [] end
  | OEditVars j _ => match nth_error (snaps c) j with Some s => [s_vars s] | None => [] end
  | OEditVisits j _ => match nth_error (snaps c) j with Some s => [s_visits s] | None => [] end
  | _ => []
  end.

Lemma step_frame c o b : b < length (hp c) -> ~ In b (written c o) -> hget (hp (step c o)) b = hget (hp c) b.
Proof.
  intros Hb Nw. destruct o; cbn [step written] in *.
  - unfold op_new, alloc. cbn [hp]. rewrite !hget_alloc_old; rewrite ?app_length; cbn [length]; auto; lia.
  - unfold op_set. destruct (nth_error (runners c) i); [|reflexivity]. cbn [hp].
    apply hget_hset_other. cbn in Nw. intuition.
  - unfold op_jump. destruct (nth_error (runners c) i) as [r|]; [|reflexivity]. unfold alloc. cbn [hp].
    destruct tracked.
    + rewrite hget_alloc_old by (rewrite hset_length; exact Hb). apply hget_hset_other. cbn in Nw. intuition.
    + rewrite hget_alloc_old by exact Hb. reflexivity.
  - unfold op_snapshot. destruct (nth_error (runners c) i); [|reflexivity]. unfold alloc. cbn [hp].
    rewrite !hget_alloc_old; rewrite ?app_length; cbn [length]; auto; lia.
  - unfold op_restore. destruct (nth_error (runners c) i) as [r|]; [|reflexivity].
    destruct (nth_error (snaps c) j); [|reflexivity]. unfold alloc. cbn [hp].
    rewrite hget_hset_other by (cbn in Nw; intuition).
    rewrite !hget_alloc_old; rewrite ?app_length; cbn [length]; auto; lia.
  - unfold op_host_edit_vars. destruct (nth_error (snaps c) j); [|reflexivity]. cbn [hp].
    apply hget_hset_other. cbn in Nw. intuition.
  - unfold op_host_edit_visits. destruct (nth_error (snaps c) j); [|reflexivity]. cbn [hp].
    apply hget_hset_other. cbn in Nw. intuition.
Qed.

(* the written addresses belong to the acting runner, resp. to the edited snapshot *)
Lemma written_owner c o a : In a (written c o) ->
  (exists i r, actor o = Some i /\ nth_error (runners c) i = Some r /\ In a (owned_r r)) \/
  (exists j s, edited o = Some j /\ nth_error (snaps c) j = Some s /\ In a (owned_s s)).
Proof.
  destruct o; cbn [written actor edited]; try (intros []).
  - destruct (nth_error (runners c) i) as [r|] eqn:E; [|intros []]. intros [<-|[]]. left. exists i, r. cbn. auto.
  - destruct tracked; [|intros []]. destruct (nth_error (runners c) i) as [r|] eqn:E; [|intros []].
    intros [<-|[]]. left. exists i, r. cbn. auto.
  - destruct (nth_error (runners c) i) as [r|] eqn:E; [|intros []]. intros [<-|[]]. left. exists i, r. cbn. auto.
  - destruct (nth_error (snaps c) j) as [s|] eqn:E; [|intros []]. intros [<-|[]]. right. exists j, s. cbn. auto.
  - destruct (nth_error (snaps c) j) as [s|] eqn:E; [|intros []]. intros [<-|[]]. right. exists j, s. cbn. auto.
Qed.

(* snapshots already taken stay where they are in the host's hands *)
Lemma snaps_kept c o k s : nth_error (snaps c) k = Some s -> nth_error (snaps (step c o)) k = Some s.
Proof.
  intros H. destruct o; cbn [step]; auto.
  - unfold op_set. destruct (nth_error (runners c) i); auto.
  - unfold op_jump, alloc. destruct (nth_error (runners c) i); auto.
  - unfold op_snapshot, alloc. destruct (nth_error (runners c) i); auto. cbn [snaps].
    rewrite nth_error_app1; [exact H|]. apply nth_error_Some. congruence.
  - unfold op_restore, alloc. destruct (nth_error (runners c) i); auto. destruct (nth_error (snaps c) j); auto.
  - unfold op_host_edit_vars. destruct (nth_error (snaps c) j); auto.
  - unfold op_host_edit_visits. destruct (nth_error (snaps c) j); auto.
Qed.

Lemma nth_set_runner_other l i r0 r k : nth_error l i = Some r0 -> k <> i ->
  nth_error (set_runner l i r) k = nth_error l k.
Proof.
  intros E N. unfold set_runner.
  destruct (split_at l i r0 E) as (l1 & l2 & -> & Hl & F & S). rewrite F, S.
  destruct (Nat.lt_ge_cases k i) as [K|K].
  - rewrite !nth_error_app1 by lia. reflexivity.
  - rewrite !nth_error_app2 by lia. destruct (k - length l1) as [|d] eqn:D; [lia|]. reflexivity.
Qed.

Lemma runners_kept c o k r : actor o <> Some k -> nth_error (runners c) k = Some r ->
  nth_error (runners (step c o)) k = Some r.
Proof.
  intros A H. destruct o; cbn [step actor] in *; auto.
  - unfold op_new, alloc. cbn [runners]. rewrite nth_error_app1; [exact H|]. apply nth_error_Some. congruence.
  - unfold op_set. destruct (nth_error (runners c) i); auto.
  - unfold op_jump, alloc. destruct (nth_error (runners c) i) eqn:E; auto. cbn [runners].
    rewrite (nth_set_runner_other _ _ _ _ _ E) by congruence. exact H.
  - unfold op_snapshot, alloc. destruct (nth_error (runners c) i); auto.
  - unfold op_restore, alloc. destruct (nth_error (runners c) i) eqn:E; auto. destruct (nth_error (snaps c) j); auto.
    cbn [runners]. rewrite (nth_set_runner_other _ _ _ _ _ E) by congruence. exact H.
  - unfold op_host_edit_vars. destruct (nth_error (snaps c) j); auto.
  - unfold op_host_edit_visits. destruct (nth_error (snaps c) j); auto.
Qed.

(* ---------- the property ---------- *)
(* nothing any runner does, and no edit of another snapshot, changes a snapshot *)
Theorem snapshot_self_contained c o k s :
  Inv c -> nth_error (snaps c) k = Some s -> edited o <> Some k ->
  nth_error (snaps (step c o)) k = Some s /\ snap_content (step c o) s = snap_content c s.
Proof.
  intros I Hs Ne. split; [apply snaps_kept; exact Hs|].
  assert (F : forall a, In a (owned_s s) -> hget (hp (step c o)) a = hget (hp c) a).
  { intros a A. apply step_frame; [eapply owned_s_alloc; eassumption|].
    intros W. destruct (written_owner c o a W) as [(i & r & _ & Hr & B)|(j & sj & Ej & Hj & B)].
    - eapply sep_runner_snap; eassumption.
    - assert (j <> k) by congruence. eapply (sep_snap_snap c j k); eassumption. }
  unfold snap_content, vars_of, visits_of.
  rewrite (F (s_vars s)) by (cbn; auto). rewrite (F (s_visits s)) by (cbn; auto). reflexivity.
Qed.

(* nothing another runner does, and nothing the host does to a snapshot, changes a runner *)
Theorem runner_unaffected_by_others c o k r :
  Inv c -> nth_error (runners c) k = Some r -> actor o <> Some k ->
  nth_error (runners (step c o)) k = Some r /\ runner_view (step c o) r = runner_view c r.
Proof.
  intros I Hr Na. split; [apply runners_kept; assumption|].
  assert (F : forall a, In a (owned_r r) -> hget (hp (step c o)) a = hget (hp c) a).
  { intros a A. apply step_frame; [eapply owned_r_alloc; eassumption|].
    intros W. destruct (written_owner c o a W) as [(i & ri & Ei & Hi & B)|(j & sj & _ & Hj & B)].
    - assert (i <> k) by congruence. eapply (sep_runner_runner c i k); eassumption.
    - eapply sep_runner_snap; eassumption. }
  unfold runner_view, store_of, vars_of, visits_of.
  rewrite (F (r_store r)) by (cbn; auto). rewrite (F (r_visits r)) by (cbn; auto). rewrite (F (r_vsnap r)) by (cbn; auto).
  reflexivity.
Qed.

(* over whole histories *)
Theorem snapshot_never_changes ops : forall c k s,
  Inv c -> nth_error (snaps c) k = Some s -> Forall (fun o => edited o <> Some k) ops ->
  nth_error (snaps (fold_left step ops c)) k = Some s /\ snap_content (fold_left step ops c) s = snap_content c s.
Proof.
  induction ops as [|o ops IH]; intros c k s I Hs Hf; cbn [fold_left]; [auto|].
  inversion Hf as [|? ? Ho Hrest]; subst.
  destruct (snapshot_self_contained c o k s I Hs Ho) as [H1 H2].
  destruct (IH (step c o) k s (inv_step c o I) H1 Hrest) as [H3 H4]. split; [exact H3|congruence].
Qed.

Theorem runner_never_changed_by_others ops : forall c k r,
  Inv c -> nth_error (runners c) k = Some r -> Forall (fun o => actor o <> Some k) ops ->
  nth_error (runners (fold_left step ops c)) k = Some r /\ runner_view (fold_left step ops c) r = runner_view c r.
Proof.
  induction ops as [|o ops IH]; intros c k r I Hr Hf; cbn [fold_left]; [auto|].
  inversion Hf as [|? ? Ho Hrest]; subst.
  destruct (runner_unaffected_by_others c o k r I Hr Ho) as [H1 H2].
  destruct (IH (step c o) k r (inv_step c o I) H1 Hrest) as [H3 H4]. split; [exact H3|congruence].
Qed.

(* ---------- restoring ---------- *)
Lemma nth_set_runner_same l i r0 r : nth_error l i = Some r0 -> nth_error (set_runner l i r) i = Some r.
Proof.
  intros E. unfold set_runner. destruct (split_at l i r0 E) as (l1 & l2 & -> & Hl & F & S). rewrite F, S.
  rewrite nth_error_app2 by lia. rewrite Hl, Nat.sub_diag. reflexivity.
Qed.

(* RestoreAt gives the runner exactly the contents of the snapshot (the same expressions as
   Runner.restore_at of the value-based model), whatever state the runner was in *)
Theorem restore_installs_snapshot c i j r s :
  Inv c -> nth_error (runners c) i = Some r -> nth_error (snaps c) j = Some s ->
  exists r', nth_error (runners (op_restore c i j)) i = Some r' /\
    runner_view (op_restore c i j) r' =
      {| rc_store := fold_left (fun st kv => st_set st (fst kv) (snd kv)) (svars (snap_content c s)) empty_store;
         rc_visits := svisits (snap_content c s); rc_vsnap := svars (snap_content c s); rc_cur := snode (snap_content c s) |}.
Proof.
  intros I Hr Hs. unfold op_restore. rewrite Hr, Hs. unfold alloc. cbn [hp runners snaps].
  eexists. split; [apply (nth_set_runner_same _ _ _ _ Hr)|].
  assert (A1 : s_vars s < length (hp c)) by (eapply owned_s_alloc; [eassumption|eassumption|cbn; auto]).
  assert (A2 : s_visits s < length (hp c)) by (eapply owned_s_alloc; [eassumption|eassumption|cbn; auto]).
  assert (A3 : r_store r < length (hp c)) by (eapply owned_r_alloc; [eassumption|eassumption|cbn; auto]).
  unfold runner_view, snap_content. cbn [r_store r_visits r_vsnap r_cur hp svars svisits snode].
  set (V := visits_of (hp c) (s_visits s)).
  assert (EM : vars_of (hp c ++ [OVisits V]) (s_vars s) = vars_of (hp c) (s_vars s)).
  { unfold vars_of. rewrite hget_alloc_old by exact A1. reflexivity. }
  assert (EM2 : vars_of ((hp c ++ [OVisits V]) ++ [OVars (vars_of (hp c) (s_vars s))]) (s_vars s) = vars_of (hp c) (s_vars s)).
  { unfold vars_of. rewrite !hget_alloc_old; rewrite ?app_length; cbn [length]; auto; lia. }
  rewrite EM, EM2.
  f_equal.
  - unfold store_of. rewrite hget_hset_same; [reflexivity|]. rewrite !app_length. cbn [length]. lia.
  - unfold visits_of. rewrite hget_hset_other by lia.
    rewrite hget_alloc_old by (rewrite app_length; cbn [length]; lia). rewrite hget_alloc_new. reflexivity.
  - unfold vars_of at 1. rewrite hget_hset_other by (rewrite app_length; cbn [length]; lia).
    replace (length (hp c ++ [OVisits V])) with (length (hp c ++ [OVisits V])) by reflexivity.
    rewrite hget_alloc_new. reflexivity.
Qed.

(* a snapshot taken immediately after the restore equals the restored one *)
Theorem snapshot_after_restore_equals c i j r s :
  Inv c -> nth_error (runners c) i = Some r -> nth_error (snaps c) j = Some s ->
  let c' := op_snapshot (op_restore c i j) i in
  exists s', nth_error (snaps c') (length (snaps c)) = Some s' /\ snap_content c' s' = snap_content c s.
Proof.
  intros I Hr Hs c'.
  destruct (restore_installs_snapshot c i j r s I Hr Hs) as (r' & Hr' & V).
  subst c'. unfold op_snapshot. rewrite Hr'. unfold alloc. cbn [hp runners snaps].
  assert (SN : snaps (op_restore c i j) = snaps c) by (unfold op_restore; rewrite Hr, Hs; reflexivity).
  eexists. split.
  - rewrite SN. rewrite nth_error_app2 by lia. rewrite Nat.sub_diag. reflexivity.
  - unfold snap_content. cbn [s_vars s_node s_visits hp svars snode svisits].
    set (h := hp (op_restore c i j)) in *.
    unfold vars_of at 1. rewrite hget_alloc_old by (rewrite app_length; cbn [length]; lia). rewrite hget_alloc_new.
    unfold visits_of at 1. rewrite hget_alloc_new.
    assert (E1 : vars_of h (r_vsnap r') = rc_vsnap (runner_view (op_restore c i j) r')) by reflexivity.
    assert (E3 : r_cur r' = rc_cur (runner_view (op_restore c i j) r')) by reflexivity.
    assert (E2 : visits_of (h ++ [OVars (vars_of h (r_vsnap r'))]) (r_visits r') = rc_visits (runner_view (op_restore c i j) r')).
    { unfold runner_view, visits_of. cbn [rc_visits]. rewrite hget_alloc_old; [reflexivity|].
      eapply (owned_r_alloc (op_restore c i j) i r'); [apply (inv_restore c i j I)|exact Hr'|cbn; auto]. }
    rewrite E2, E1, E3, V. reflexivity.
Qed.

(* two runners restored from the same snapshot: what one does afterwards leaves the other as it is *)
Corollary restored_runners_do_not_influence_one_another c i1 i2 j ops r2 :
  Inv c -> i1 <> i2 ->
  let c' := op_restore (op_restore c i1 j) i2 j in
  nth_error (runners c') i2 = Some r2 ->
  Forall (fun o => actor o <> Some i2) ops ->
  runner_view (fold_left step ops c') r2 = runner_view c' r2.
Proof.
  intros I N c' H2 F.
  apply (runner_never_changed_by_others ops c' i2 r2); [|exact H2|exact F].
  apply inv_restore. apply inv_restore. exact I.
Qed.

(* ---------- the defect D8, for contrast: a Snapshot() that hands out the runner's own maps ---------- *)
Definition op_snapshot_shared (c : config) (i : nat) : config :=
  match nth_error (runners c) i with
  | Some r => {| hp := hp c; runners := runners c;
                 snaps := snaps c ++ [{| s_vars := r_vsnap r; s_node := r_cur r; s_visits := r_visits r |}] |}
  | None => c
  end.

(* ... is not self-contained: the next tracked jump of the runner changes the snapshot's visit counts *)
Example shared_snapshot_is_not_self_contained :
  let c0 := op_snapshot_shared (op_new init_config (STR "A")) 0 in
  let c1 := step c0 (OJump 0 true (STR "B")) in
  exists s, nth_error (snaps c0) 0 = Some s /\ snap_content c1 s <> snap_content c0 s.
Proof. eexists. split; [reflexivity|]. vm_compute. discriminate. Qed.

(* non-vacuity of the theorems: a reachable configuration with two runners and a snapshot, on which
   further operations of both runners leave the snapshot as it was *)
Example self_contained_example :
  let ops1 := [ONew (STR "A"); ONew (STR "A"); OSet 0 (STR "x") (VBool true); OJump 0 true (STR "B"); OSnapshot 0] in
  let ops2 := [OSet 0 (STR "x") (VBool false); OJump 0 true (STR "A"); ORestore 1 0; OSet 1 (STR "y") (VBool true);
               OJump 1 true (STR "B"); OSnapshot 1] in
  let c1 := fold_left step ops1 init_config in
  let c2 := fold_left step ops2 c1 in
  exists s, nth_error (snaps c1) 0 = Some s /\ nth_error (snaps c2) 0 = Some s /\
            snap_content c2 s = snap_content c1 s /\ svars (snap_content c1 s) = [(STR "x", VBool true)].
Proof. eexists. repeat split. Qed.
