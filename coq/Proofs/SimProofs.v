(* What a runner does next is a function of its continuation, the storer's contents (as a map), the
   pending command, the current node, the visit counts, the host's command behaviour and the
   remaining random stream - and of nothing else: not of the storer's call log, not of the host log,
   not of the variable checkpoint, not of how the store is laid out internally.
   Consequences (C07): two runners restored from one snapshot continue identically; a runner
   restored from a snapshot continues exactly as the original did from that node entry, for every
   choice sequence.  (C09: the run is a function of script, seed-derived stream, choices, host.) *)
From Coq Require Import List ZArith NArith Bool Lia.
From YS Require Import Base.Sexp Num.F64 Yarn.Ast Yarn.Value Yarn.Eval Markup.LineParser Yarn.Runner
     Spec.SetSpec Proofs.AListProofs Proofs.RunnerInv Proofs.FlowProofs Proofs.SetProofs Proofs.StorerProofs Proofs.SafetyProofs.
Import ListNotations.

Definition store_eq (a b : store) : Prop := forall k, st_get a k = st_get b k.

Lemma store_eq_set a b k v : store_eq a b -> store_eq (st_set a k v) (st_set b k v).
Proof.
  intros H n. destruct (str_eqb k n) eqn:E.
  - apply str_eqb_eq in E. subst n. rewrite !st_get_set. reflexivity.
  - rewrite !st_get_set_other by exact E. apply H.
Qed.

(* ---------- the random stream is the only part of the function environment that is read ---------- *)
Definition fe_sim (e1 e2 : fenv) : Prop := rng e1 = rng e2.

Lemma draw_sim e1 e2 : fe_sim e1 e2 -> fst (draw e1) = fst (draw e2) /\ fe_sim (snd (draw e1)) (snd (draw e2)).
Proof.
  unfold fe_sim, draw. intros H. rewrite H. destruct (rng e2) eqn:E; cbn [fst snd rng]; split; try reflexivity.
  rewrite H, E. reflexivity.
Qed.

Lemma int31n_sim fuel : forall n mx e1 e2, fe_sim e1 e2 ->
  fst (int31n_loop fuel n mx e1) = fst (int31n_loop fuel n mx e2) /\
  fe_sim (snd (int31n_loop fuel n mx e1)) (snd (int31n_loop fuel n mx e2)).
Proof.
  induction fuel as [|f IH]; intros n mx e1 e2 H; cbn [int31n_loop]; destruct (draw_sim e1 e2 H) as [Hv Hs];
    destruct (draw e1) as [v1 e1'], (draw e2) as [v2 e2']; cbn [fst snd] in *; subst v2.
  - cbn. auto.
  - destruct (mx <? v1 / 2 ^ 32)%Z; [apply IH; exact Hs|cbn; auto].
Qed.

Lemma int63n_sim fuel : forall n mx e1 e2, fe_sim e1 e2 ->
  fst (int63n_loop fuel n mx e1) = fst (int63n_loop fuel n mx e2) /\
  fe_sim (snd (int63n_loop fuel n mx e1)) (snd (int63n_loop fuel n mx e2)).
Proof.
  induction fuel as [|f IH]; intros n mx e1 e2 H; cbn [int63n_loop]; destruct (draw_sim e1 e2 H) as [Hv Hs];
    destruct (draw e1) as [v1 e1'], (draw e2) as [v2 e2']; cbn [fst snd] in *; subst v2.
  - cbn. auto.
  - destruct (mx <? v1)%Z; [apply IH; exact Hs|cbn; auto].
Qed.

Lemma intn_sim n e1 e2 : fe_sim e1 e2 ->
  fst (intn n e1) = fst (intn n e2) /\ fe_sim (snd (intn n e1)) (snd (intn n e2)).
Proof.
  intros H. unfold intn. destruct (n <=? 2 ^ 31 - 1)%Z, (is_pow2 n).
  - destruct (draw_sim e1 e2 H) as [Hv Hs]. destruct (draw e1), (draw e2); cbn [fst snd] in *; subst. auto.
  - apply int31n_sim. exact H.
  - destruct (draw_sim e1 e2 H) as [Hv Hs]. destruct (draw e1), (draw e2); cbn [fst snd] in *; subst. auto.
  - apply int63n_sim. exact H.
Qed.

Lemma float64_sim fuel : forall e1 e2, fe_sim e1 e2 ->
  fst (float64_loop fuel e1) = fst (float64_loop fuel e2) /\
  fe_sim (snd (float64_loop fuel e1)) (snd (float64_loop fuel e2)).
Proof.
  induction fuel as [|f IH]; intros e1 e2 H; cbn [float64_loop]; destruct (draw_sim e1 e2 H) as [Hv Hs];
    destruct (draw e1) as [v1 e1'], (draw e2) as [v2 e2']; cbn [fst snd] in *; subst v2.
  - cbn. auto.
  - destruct (feqb _ fone); [apply IH; exact Hs|cbn; auto].
Qed.

(* results of the form (outcome, fenv): same outcome, similar environments *)
Definition res_sim {A} (r1 r2 : A * fenv) : Prop := fst r1 = fst r2 /\ fe_sim (snd r1) (snd r2).

Lemma res_sim_pair {A} (a : A) e1 e2 : fe_sim e1 e2 -> res_sim (a, e1) (a, e2).
Proof. intros H. split; [reflexivity|exact H]. Qed.

Definition opt_res_sim {A} (r1 r2 : option (A * fenv)) : Prop :=
  match r1, r2 with
  | Some a, Some b => res_sim a b
  | None, None => True
  | _, _ => False
  end.

Lemma call_probe_sim f args e1 e2 : fe_sim e1 e2 -> opt_res_sim (call_probe f args e1) (call_probe f args e2).
Proof.
  intros H. unfold call_probe.
  repeat match goal with |- context [if ?c then _ else _] => destruct c end; cbn; try exact I;
    apply res_sim_pair; exact H.
Qed.

Lemma call_builtin_sim v1 v2 f args e1 e2 : rvisits v1 = rvisits v2 -> fe_sim e1 e2 ->
  opt_res_sim (call_builtin v1 f args e1) (call_builtin v2 f args e2).
Proof.
  intros Hv H. unfold call_builtin. rewrite Hv.
  repeat match goal with |- context [if str_eqb ?a ?b then _ else _] => destruct (str_eqb a b) end;
    try (cbn; apply res_sim_pair; exact H); try exact I.
  - (* dice *)
    destruct args as [|[n|b|s] [|? ?]]; try (cbn; apply res_sim_pair; exact H).
    destruct (to_int64 n <? 1)%Z; [cbn; apply res_sim_pair; exact H|].
    destruct (intn_sim (wrap64 (to_int64 n - 1 + 1)) e1 e2 H) as [Hr Hs].
    destruct (intn _ e1), (intn _ e2); cbn [fst snd] in *; subst. cbn. apply res_sim_pair. exact Hs.
  - (* random_range *)
    destruct args as [|[a|b|s] [|[a2|b2|s2] [|? ?]]]; try (cbn; apply res_sim_pair; exact H).
    destruct (to_int64 a2 <? to_int64 a)%Z; [cbn; apply res_sim_pair; exact H|].
    destruct (wrap64 (wrap64 (to_int64 a2 - to_int64 a) + 1) <=? 0)%Z; [cbn; apply res_sim_pair; exact H|].
    destruct (intn_sim (wrap64 (wrap64 (to_int64 a2 - to_int64 a) + 1)) e1 e2 H) as [Hr Hs].
    destruct (intn _ e1), (intn _ e2); cbn [fst snd] in *; subst. cbn. apply res_sim_pair. exact Hs.
  - (* random *)
    destruct args; [|cbn; apply res_sim_pair; exact H].
    destruct (float64_sim 16 e1 e2 H) as [Hr Hs].
    destruct (float64_loop 16 e1), (float64_loop 16 e2); cbn [fst snd] in *; subst. cbn. apply res_sim_pair. exact Hs.
Qed.

Lemma call_function_sim v1 v2 f args e1 e2 : rvisits v1 = rvisits v2 -> fe_sim e1 e2 ->
  res_sim (call_function v1 f args e1) (call_function v2 f args e2).
Proof.
  intros Hv H. unfold call_function.
  pose proof (call_probe_sim f args e1 e2 H) as P.
  destruct (call_probe f args e1), (call_probe f args e2); cbn in P; try contradiction; [exact P|].
  pose proof (call_builtin_sim v1 v2 f args e1 e2 Hv H) as B.
  destruct (call_builtin v1 f args e1), (call_builtin v2 f args e2); cbn in B; try contradiction; [exact B|].
  apply res_sim_pair. exact H.
Qed.

(* ---------- evaluation ---------- *)
Definition renv_sim (v1 v2 : renv) : Prop := store_eq (rvars v1) (rvars v2) /\ rvisits v1 = rvisits v2.

Lemma eval_sim v1 v2 : renv_sim v1 v2 -> forall x e1 e2, fe_sim e1 e2 -> res_sim (eval v1 x e1) (eval v2 x e2).
Proof.
  intros (Hs & Hv). fix IH 1. intros x e1 e2 H. destruct x as [a|id|f args|a|a|o l r|]; cbn [eval].
  - apply res_sim_pair. exact H.
  - rewrite (Hs id). apply res_sim_pair. exact H.
  - match goal with |- res_sim (match ?F1 args e1 with _ => _ end) (match ?F2 args e2 with _ => _ end) =>
      assert (HA : forall l0 a1 a2, fe_sim a1 a2 -> res_sim (F1 l0 a1) (F2 l0 a2));
      [ fix IHl 1; intros l0 a1 a2 Ha; destruct l0 as [|x0 r0]; [apply res_sim_pair; exact Ha|];
        destruct (IH x0 a1 a2 Ha) as [Ho He]; cbn;
        destruct (eval v1 x0 a1) as [o1 b1], (eval v2 x0 a2) as [o2 b2]; cbn [fst snd] in *; subst o2;
        destruct o1 as [va| |]; [|apply res_sim_pair; exact He|apply res_sim_pair; exact He];
        destruct (IHl r0 b1 b2 He) as [Ho2 He2];
        destruct (F1 r0 b1) as [p1 c1], (F2 r0 b2) as [p2 c2]; cbn [fst snd] in *; subst p2;
        destruct p1; apply res_sim_pair; exact He2
      | destruct (HA args e1 e2 H) as [Ho He];
        destruct (F1 args e1) as [o1 b1], (F2 args e2) as [o2 b2]; cbn [fst snd] in *; subst o2 ]
    end.
    destruct o1 as [vs| |]; [|apply res_sim_pair; exact He|apply res_sim_pair; exact He].
    destruct (call_function_sim v1 v2 f vs b1 b2 Hv He) as [Hc Hce].
    destruct (call_function v1 f vs b1) as [q1 c1], (call_function v2 f vs b2) as [q2 c2]; cbn [fst snd] in *; subst q2.
    destruct q1 as [[r0|]| |]; apply res_sim_pair; exact Hce.
  - destruct (IH a e1 e2 H) as [Ho He]. destruct (eval v1 a e1) as [o1 b1], (eval v2 a e2) as [o2 b2]; cbn [fst snd] in *; subst o2.
    destruct o1 as [[n|b|t]| |]; apply res_sim_pair; exact He.
  - destruct (IH a e1 e2 H) as [Ho He]. destruct (eval v1 a e1) as [o1 b1], (eval v2 a e2) as [o2 b2]; cbn [fst snd] in *; subst o2.
    destruct o1 as [[n|b|t]| |]; apply res_sim_pair; exact He.
  - destruct (IH l e1 e2 H) as [Ho He]. destruct (eval v1 l e1) as [o1 b1], (eval v2 l e2) as [o2 b2]; cbn [fst snd] in *; subst o2.
    destruct o1 as [lv| |]; [|apply res_sim_pair; exact He|apply res_sim_pair; exact He].
    match goal with |- context [match ?ls with Some _ => _ | None => _ end] => destruct ls as [res|] end;
      [apply res_sim_pair; exact He|].
    destruct (IH r b1 b2 He) as [Ho2 He2]. destruct (eval v1 r b1) as [p1 c1], (eval v2 r b2) as [p2 c2]; cbn [fst snd] in *; subst p2.
    destruct p1; apply res_sim_pair; exact He2.
  - apply res_sim_pair. exact H.
Qed.

Lemma eval_list_sim v1 v2 : renv_sim v1 v2 -> forall l e1 e2, fe_sim e1 e2 -> res_sim (eval_list v1 l e1) (eval_list v2 l e2).
Proof.
  intros Hr. induction l as [|x l IH]; intros e1 e2 H; cbn [eval_list]; [apply res_sim_pair; exact H|].
  destruct (eval_sim v1 v2 Hr x e1 e2 H) as [Ho He].
  destruct (eval v1 x e1) as [o1 b1], (eval v2 x e2) as [o2 b2]; cbn [fst snd] in *; subst o2.
  destruct o1 as [va| |]; [|apply res_sim_pair; exact He|apply res_sim_pair; exact He].
  destruct (IH b1 b2 He) as [Ho2 He2].
  destruct (eval_list v1 l b1) as [p1 c1], (eval_list v2 l b2) as [p2 c2]; cbn [fst snd] in *; subst p2.
  destruct p1; apply res_sim_pair; exact He2.
Qed.

(* ---------- data states ---------- *)
Definition sim (s1 s2 : dstate) : Prop :=
  store_eq (vars s1) (vars s2) /\ pending s1 = pending s2 /\ cur s1 = cur s2 /\ visits s1 = visits s2 /\
  sched s1 = sched s2 /\ hcmds s1 = hcmds s2 /\ fe_sim (fe s1) (fe s2).

Definition dres_sim {A} (r1 r2 : A * dstate) : Prop := fst r1 = fst r2 /\ sim (snd r1) (snd r2).

Lemma sim_renv s1 s2 : sim s1 s2 -> renv_sim (renv_of s1) (renv_of s2).
Proof. intros (H1 & _ & _ & H4 & _). split; [exact H1|exact H4]. Qed.

Lemma sim_upd_fe s1 s2 e1 e2 : sim s1 s2 -> fe_sim e1 e2 -> sim (upd_fe s1 e1) (upd_fe s2 e2).
Proof. intros (H1 & H2 & H3 & H4 & H5 & H6 & _) He. repeat split; assumption. Qed.

Lemma eval_in_sim s1 s2 x : sim s1 s2 -> dres_sim (eval_in s1 x) (eval_in s2 x).
Proof.
  intros H. unfold eval_in. pose proof H as (_ & _ & _ & _ & _ & _ & Hf).
  destruct (eval_sim _ _ (sim_renv _ _ H) x (fe s1) (fe s2) Hf) as [Ho He].
  destruct (eval (renv_of s1) x (fe s1)), (eval (renv_of s2) x (fe s2)); cbn [fst snd] in *; subst.
  split; [reflexivity|apply sim_upd_fe; assumption].
Qed.

Tactic Notation "use_sim" constr(L) "as" ident(o) ident(a) ident(b) ident(Hs) :=
  let Ho := fresh "Ho" in let o' := fresh "o'" in
  destruct L as [Ho Hs];
  match type of Ho with fst ?x = fst ?y =>
    destruct x as [o a], y as [o' b]; cbn [fst snd] in Ho, Hs; subst o'
  end.

Lemma render_parts_sim ps : forall s1 s2 acc, sim s1 s2 -> dres_sim (render_parts s1 ps acc) (render_parts s2 ps acc).
Proof.
  induction ps as [|[t|x] r IH]; intros s1 s2 acc H; cbn [render_parts].
  - split; [reflexivity|exact H].
  - apply IH. exact H.
  - use_sim (eval_in_sim s1 s2 x H) as o a b Hs. destruct o as [v| |]; [apply IH; exact Hs|split; [reflexivity|exact Hs]..].
Qed.

Lemma render_line_sim s1 s2 l : sim s1 s2 -> dres_sim (render_line s1 l) (render_line s2 l).
Proof.
  intros H. unfold render_line. use_sim (render_parts_sim (ltext l) s1 s2 [] H) as o a b Hs.
  destruct o as [txt| |]; [|split; [reflexivity|exact Hs]..].
  destruct (parse_markup txt) as [[t attrs]|]; split; try reflexivity; exact Hs.
Qed.

Lemma render_options_sim os : forall s1 s2, sim s1 s2 -> dres_sim (render_options s1 os) (render_options s2 os).
Proof.
  induction os as [|[l b] r IH]; intros s1 s2 H; cbn [render_options]; [split; [reflexivity|exact H]|].
  use_sim (render_line_sim s1 s2 l H) as o a1 a2 Hs. destruct o as [rl| |]; [|split; [reflexivity|exact Hs]..].
  destruct (lcond l) as [c|].
  - use_sim (eval_in_sim a1 a2 c Hs) as o2 b1 b2 Hs2. destruct o2 as [[n|bb|tx]| |]; try (split; [reflexivity|exact Hs2]).
    use_sim (IH b1 b2 Hs2) as o3 c1 c2 Hs3. destruct o3; split; try reflexivity; exact Hs3.
  - use_sim (IH a1 a2 Hs) as o3 c1 c2 Hs3. destruct o3; split; try reflexivity; exact Hs3.
Qed.

Lemma sim_upd_vars s1 s2 k v ev1 ev2 : sim s1 s2 ->
  sim (upd_vars s1 (st_set (vars s1) k v) ev1) (upd_vars s2 (st_set (vars s2) k v) ev2).
Proof. intros (H1 & H2 & H3 & H4 & H5 & H6 & H7). repeat split; try assumption. cbn [vars upd_vars]. apply store_eq_set. exact H1. Qed.

Lemma exec_set_sim x op e s1 s2 : sim s1 s2 -> dres_sim (exec_set x op e s1) (exec_set x op e s2).
Proof.
  intros H. unfold exec_set. use_sim (eval_in_sim s1 s2 e H) as o t t0 Hs.
  destruct o as [v| |]; [|split; [reflexivity|exact Hs]..].
  pose proof Hs as (Hst & _). rewrite (Hst x).
  destruct (negb _); [split; [reflexivity|exact Hs]|].
  destruct v as [n|b|tx].
  - split; [reflexivity|]. apply (sim_upd_vars t t0 x (VNum _)). exact Hs.
  - destruct op; try (split; [reflexivity|exact Hs]). split; [reflexivity|]. apply (sim_upd_vars t t0 x (VBool b)). exact Hs.
  - destruct op; try (split; [reflexivity|exact Hs]); (split; [reflexivity|]; apply (sim_upd_vars t t0 x (VStr _)); exact Hs).
Qed.

Lemma exec_jump_sim d e s1 s2 : sim s1 s2 -> dres_sim (exec_jump d e s1) (exec_jump d e s2).
Proof.
  intros H. unfold exec_jump. use_sim (eval_in_sim s1 s2 e H) as o t t0 Hs.
  destruct o as [[n|b|tx]| |]; try (split; [reflexivity|exact Hs]).
  destruct (find_node d tx) as [nd|]; [|split; [reflexivity|exact Hs]].
  destruct Hs as (H1 & H2 & H3 & H4 & H5 & H6 & H7). split; [reflexivity|]. cbn [snd].
  repeat split; cbn; try assumption. rewrite H3, H4. reflexivity.
Qed.

Lemma exec_if_sim cs : forall s1 s2, sim s1 s2 -> dres_sim (exec_if cs s1) (exec_if cs s2).
Proof.
  induction cs as [|[c b] r IH]; intros s1 s2 H; cbn [exec_if]; [split; [reflexivity|exact H]|].
  use_sim (eval_in_sim s1 s2 c H) as o t t0 Hs. destruct o as [[n|[|]|tx]| |]; try (split; [reflexivity|exact Hs]).
  apply IH. exact Hs.
Qed.

Lemma eval_list_in_sim s1 s2 l : sim s1 s2 ->
  fst (eval_list (renv_of s1) l (fe s1)) = fst (eval_list (renv_of s2) l (fe s2)) /\
  fe_sim (snd (eval_list (renv_of s1) l (fe s1))) (snd (eval_list (renv_of s2) l (fe s2))).
Proof. intros H. pose proof H as (_ & _ & _ & _ & _ & _ & Hf). apply (eval_list_sim _ _ (sim_renv _ _ H) l _ _ Hf). Qed.

Lemma exec_command_sim es s1 s2 : sim s1 s2 -> dres_sim (exec_command es s1) (exec_command es s2).
Proof.
  intros H. unfold exec_command. destruct es as [|e0 es']; [split; [reflexivity|exact H]|].
  destruct (eval_list_in_sim s1 s2 (e0 :: es') H) as [Ho He].
  destruct (eval_list (renv_of s1) (e0 :: es') (fe s1)) as [o1 b1], (eval_list (renv_of s2) (e0 :: es') (fe s2)) as [o2 b2];
    cbn [fst snd] in *; subst o2.
  pose proof (sim_upd_fe s1 s2 b1 b2 H He) as Hs.
  destruct o1 as [[|[n|b|name] args]| |]; try (split; [reflexivity|exact Hs]).
  destruct (str_eqb name (STR "stop")); [split; [reflexivity|exact Hs]|].
  pose proof Hs as (S1 & S2 & S3 & S4 & S5 & S6 & S7). rewrite S6.
  destruct (mem_str name (hcmds (upd_fe s2 b2))).
  - rewrite S5. destruct (sched (upd_fe s2 b2)) as [|[polls r] rest]; cbn [tl].
    + split; [reflexivity|]. repeat split; cbn; assumption.
    + destruct polls as [|k]; [destruct r|]; (split; [reflexivity|]; repeat split; cbn; assumption).
  - destruct (str_eqb name (STR "wait")); [|split; [reflexivity|exact Hs]].
    destruct args as [|[n|b|tx] [|? ?]]; try (split; [reflexivity|exact Hs]).
    split; [reflexivity|]. repeat split; cbn; assumption.
Qed.

Lemma exec_call_sim f a s1 s2 : sim s1 s2 -> dres_sim (exec_call f a s1) (exec_call f a s2).
Proof.
  intros H. unfold exec_call. destruct (eval_list_in_sim s1 s2 a H) as [Ho He].
  destruct (eval_list (renv_of s1) a (fe s1)) as [o1 b1], (eval_list (renv_of s2) a (fe s2)) as [o2 b2];
    cbn [fst snd] in *; subst o2.
  destruct o1 as [vs| |]; try (split; [reflexivity|apply sim_upd_fe; assumption]).
  pose proof H as (_ & _ & _ & Hv & _).
  destruct (call_function_sim (renv_of s1) (renv_of s2) f vs b1 b2 Hv He) as [Hc Hce].
  destruct (call_function (renv_of s1) f vs b1) as [q1 c1], (call_function (renv_of s2) f vs b2) as [q2 c2];
    cbn [fst snd] in *; subst q2.
  split; [reflexivity|apply sim_upd_fe; assumption].
Qed.

Lemma sim_upd_pending s1 s2 p : sim s1 s2 -> sim (upd_pending s1 p) (upd_pending s2 p).
Proof. intros (H1 & H2 & H3 & H4 & H5 & H6 & H7). unfold sim. cbn [upd_pending vars pending cur visits sched hcmds fe]. tauto. Qed.

Lemma poll_sim s1 s2 : sim s1 s2 -> dres_sim (poll s1) (poll s2).
Proof.
  intros H. pose proof H as (_ & H2 & _). unfold poll. rewrite H2.
  destruct (pending s2) as [[[|k] [|]]|]; (split; [reflexivity|]); cbn [snd]; try exact H; apply sim_upd_pending; exact H.
Qed.

(* ---------- runners ---------- *)
Definition rsim (m1 m2 : rstate) : Prop :=
  stack m1 = stack m2 /\ last_opts m1 = last_opts m2 /\ sim (dat m1) (dat m2).

Lemma rsim_mk st lo s1 s2 : sim s1 s2 -> rsim (mk st lo s1) (mk st lo s2).
Proof. intros H. split; [reflexivity|]. split; [reflexivity|exact H]. Qed.

Theorem next_sim d : forall f m1 m2 c, rsim m1 m2 ->
  fst (next d f m1 c) = fst (next d f m2 c) /\ rsim (snd (next d f m1 c)) (snd (next d f m2 c)).
Proof.
  induction f as [|f IH]; intros m1 m2 c (Hst & Hlo & Hd); [cbn; split; [reflexivity|]; split; [assumption|]; split; assumption|].
  cbn [next]. rewrite Hst, Hlo.
  use_sim (poll_sim _ _ Hd) as o t t0 Hs. destruct o as [r0|]; [split; [reflexivity|apply rsim_mk; exact Hs]|].
  destruct (chosen_body (last_opts m2) c) as [b|]; [|split; [reflexivity|apply rsim_mk; exact Hs]].
  destruct (if is_nil b then stack m2 else b :: stack m2) as [|[|st q] rest];
    [split; [reflexivity|apply rsim_mk; exact Hs] | apply IH; apply rsim_mk; exact Hs |].
  destruct st as [l|os|x op e|e|cs|es|fn args|x e].
  - use_sim (render_line_sim t t0 l Hs) as o2 u1 u2 Hs2. pose proof Hs2 as (_ & _ & Hc & _). rewrite Hc.
    destruct o2; (split; [reflexivity|apply rsim_mk; assumption]).
  - use_sim (render_options_sim os t t0 Hs) as o2 u1 u2 Hs2. pose proof Hs2 as (_ & _ & Hc & _). rewrite Hc.
    destruct o2; (split; [reflexivity|apply rsim_mk; assumption]).
  - use_sim (exec_set_sim x op e t t0 Hs) as o2 u1 u2 Hs2. destruct o2; [apply IH; apply rsim_mk; assumption|split; [reflexivity|apply rsim_mk; assumption]].
  - use_sim (exec_jump_sim d e t t0 Hs) as o2 u1 u2 Hs2. destruct o2; [apply IH; apply rsim_mk; assumption|split; [reflexivity|apply rsim_mk; assumption]].
  - use_sim (exec_if_sim cs t t0 Hs) as o2 u1 u2 Hs2. destruct o2 as [[b'|]| |];
      first [apply IH; apply rsim_mk; assumption | split; [reflexivity|apply rsim_mk; assumption]].
  - use_sim (exec_command_sim es t t0 Hs) as o2 u1 u2 Hs2. destruct o2;
      first [apply IH; apply rsim_mk; assumption | split; [reflexivity|apply rsim_mk; assumption]].
  - use_sim (exec_call_sim fn args t t0 Hs) as o2 u1 u2 Hs2. destruct o2; [apply IH; apply rsim_mk; assumption|split; [reflexivity|apply rsim_mk; assumption]].
  - use_sim (exec_set_sim x SAssign e t t0 Hs) as o2 u1 u2 Hs2. destruct o2; [apply IH; apply rsim_mk; assumption|split; [reflexivity|apply rsim_mk; assumption]].
Qed.

Theorem iter_next_sim d f : forall cs m1 m2, rsim m1 m2 ->
  fst (iter_next d f m1 cs) = fst (iter_next d f m2 cs) /\ rsim (snd (iter_next d f m1 cs)) (snd (iter_next d f m2 cs)).
Proof.
  induction cs as [|c cs IH]; intros m1 m2 H; cbn [iter_next]; [split; [reflexivity|exact H]|].
  destruct (next_sim d f m1 m2 c H) as [Ho Hs].
  destruct (next d f m1 c) as [o1 n1], (next d f m2 c) as [o2 n2]; cbn [fst snd] in *; subst o2.
  destruct (IH n1 n2 Hs) as [Ho2 Hs2].
  destruct (iter_next d f n1 cs) as [p1 k1], (iter_next d f n2 cs) as [p2 k2]; cbn [fst snd] in *; subst p2.
  split; [reflexivity|exact Hs2].
Qed.

(* ---------- C07 ---------- *)
(* same host behaviour to come and same remaining random stream *)
Definition same_env (s1 s2 : dstate) : Prop :=
  sched s1 = sched s2 /\ hcmds s1 = hcmds s2 /\ rng (fe s1) = rng (fe s2).

Lemma store_eq_refl a : store_eq a a.
Proof. intros k. reflexivity. Qed.

(* runners restored from one snapshot - whatever states the receivers were in - continue identically,
   for every choice sequence: they do not influence one another and nothing of a receiver survives *)
Theorem restored_runners_agree d m1 m2 sn m1' m2' :
  restore_at d m1 sn = (true, m1') -> restore_at d m2 sn = (true, m2') -> same_env (dat m1) (dat m2) ->
  forall f cs, fst (iter_next d f m1' cs) = fst (iter_next d f m2' cs).
Proof.
  unfold restore_at. destruct (find_node d (snode sn)) as [n|]; [|discriminate].
  intros H1 H2 (E1 & E2 & E3) f cs. inversion H1; inversion H2; subst. apply iter_next_sim.
  split; [reflexivity|]. split; [reflexivity|]. unfold sim. cbn [dat mk vars pending cur visits sched hcmds fe].
  split; [apply store_eq_refl|]. repeat split; assumption.
Qed.

(* rebuilding a store from GetValues gives the same map *)
Lemma wf_fold_aset {V W} (f : V -> W) (l : alist V) : forall m : alist W, wf m ->
  wf (fold_left (fun m kv => aset m (fst kv) (f (snd kv))) l m).
Proof. induction l as [|[k v] r IH]; intros m H; [exact H|]. cbn [fold_left fst snd]. apply IH, wf_aset, H. Qed.

Lemma wf_st_values st : wf (st_values st).
Proof. unfold st_values. repeat apply wf_fold_aset. exact I. Qed.

Lemma st_get_rebuild k : forall l st0, wf l ->
  st_get (fold_left (fun st kv => st_set st (fst kv) (snd kv)) l st0) k
  = match aget l k with Some v => Some v | None => st_get st0 k end.
Proof.
  induction l as [|[k1 v1] r IH]; intros st0 Hw; [reflexivity|].
  destruct Hw as [Hf Hr]. cbn [fold_left fst snd aget]. rewrite (IH _ Hr).
  destruct (str_eqb k1 k) eqn:E.
  - apply str_eqb_eq in E. subst k1. rewrite Hf. apply st_get_set.
  - destruct (aget r k); [reflexivity|]. apply st_get_set_other. exact E.
Qed.

Lemma rebuild_store_eq st : store_ok st ->
  store_eq (fold_left (fun st kv => st_set st (fst kv) (snd kv)) (st_values st) empty_store) st.
Proof.
  intros H k. rewrite (st_get_rebuild k _ _ (wf_st_values st)). rewrite (get_values_agrees st k H).
  destruct (st_get st k); reflexivity.
Qed.

(* a runner standing at the entry of a node: what NewDialogueRunner and every jump produce *)
Definition at_node_entry (d : dialogue) (m : rstate) : Prop :=
  exists n, find_node d (cur (dat m)) = Some n /\ stack m = [body n] /\ last_opts m = None /\
            pending (dat m) = None /\ vsnap (dat m) = st_values (vars (dat m)).

(* restoring a snapshot taken at a node entry, into ANY runner of the script, makes that runner
   continue exactly as the original did from there: the same element for every subsequent choice
   sequence (same host behaviour and random stream to come; for scripts that draw no random numbers
   the stream is irrelevant) *)
Theorem restore_continues_as_original d m0 m m' :
  at_node_entry d m0 -> store_ok (vars (dat m0)) ->
  restore_at d m (take_snapshot (dat m0)) = (true, m') -> same_env (dat m) (dat m0) ->
  forall f cs, fst (iter_next d f m' cs) = fst (iter_next d f m0 cs).
Proof.
  intros (n & Hn & Hst & Hlo & Hp & Hv) Hok Hr (E1 & E2 & E3) f cs.
  unfold restore_at, take_snapshot in Hr. cbn [snode svars svisits] in Hr. rewrite Hn in Hr. inversion Hr; subst m'. clear Hr.
  apply iter_next_sim. split; [cbn [stack mk]; symmetry; exact Hst|]. split; [cbn [last_opts mk]; symmetry; exact Hlo|].
  unfold sim. cbn [dat mk vars pending cur visits sched hcmds fe].
  split; [rewrite Hv; apply rebuild_store_eq; exact Hok|].
  split; [symmetry; exact Hp|]. split; [apply (find_node_title _ _ _ Hn)|]. split; [reflexivity|].
  split; [exact E1|]. split; [exact E2|exact E3].
Qed.

(* the hypotheses are what the code establishes: a fresh runner stands at a node entry ... *)
Lemma new_runner_at_entry d init stream sc cmds m : new_runner d init stream sc cmds = Some m ->
  (forall n r, d = n :: r -> find_node d (title n) = Some n) -> at_node_entry d m.
Proof.
  unfold new_runner. destruct d as [|n r]; [discriminate|]. intros H Hf. inversion H; subst. clear H.
  exists n. cbn. repeat split. apply (Hf n r eq_refl).
Qed.

(* ... and so does a runner right after any jump *)
Lemma after_jump_at_entry d e s b s' : exec_jump d e s = (Some b, s') -> at_node_entry d (mk [b] None s') \/ pending s' <> None.
Proof.
  intros H. destruct (pending s') eqn:Ep; [right; discriminate|left].
  destruct (jump_takes_checkpoint d e s b s' H) as (Hv & n & Hn & Hb). exists n. cbn. subst b. repeat split; assumption.
Qed.
