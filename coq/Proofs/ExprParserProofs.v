(* C02 / C08, grouping of operators: the expression rule of the generated parser (Syntax/ExprParser.v)
   gives back every expression tree from every way of writing it down in which parentheses are
   placed where the precedence table requires them - and anywhere else one likes (redundant
   parentheses). Proved for any table satisfying `wf_table`; Props/C02.v instantiates it with the
   table extracted from the Go source. *)
From Coq Require Import List Arith Bool Lia.
From YS Require Import Base.Sexp Num.F64 Yarn.Ast Syntax.ExprParser.
Import ListNotations.

Section Proofs.
  Variables (lvl rprec : binop -> nat) (negp notp : nat).

  (* the right operand is parsed strictly tighter than the operator's own level (left associativity),
     the operand of a prefix operator tighter than every binary operator *)
  Definition wf_table : Prop :=
    (forall o, rprec o = S (lvl o)) /\ (forall o, lvl o < negp) /\ (forall o, lvl o < notp).

  Notation PE := (parse_expr lvl rprec negp notp).
  Notation PP := (parse_primary lvl rprec negp notp).
  Notation PL := (parse_loop lvl rprec negp notp).
  Notation PA := (parse_args lvl rprec negp notp).

  (* "for all sufficient fuel" *)
  Definition ev {A} (g : nat -> option A) (x : A) : Prop := exists n, forall f, n <= f -> g f = Some x.

  Lemma ev_PE p ts lhs r res :
    ev (fun f => PP f ts) (lhs, r) -> ev (fun f => PL f p lhs r) res -> ev (fun f => PE f p ts) res.
  Proof.
    intros [n1 H1] [n2 H2]. exists (S (Nat.max n1 n2)). intros f Hf.
    destruct f as [|f]; [lia|]. cbn [parse_expr]. rewrite H1 by lia. apply H2. lia.
  Qed.

  Lemma ev_PP_paren r e r2 :
    ev (fun f => PE f 0 r) (e, TRP :: r2) -> ev (fun f => PP f (TLP :: r)) (e, r2).
  Proof.
    intros [n H]. exists (S n). intros f Hf. destruct f as [|f]; [lia|].
    cbn [parse_primary]. rewrite H by lia. reflexivity.
  Qed.

  Lemma ev_PP_neg r e r2 :
    ev (fun f => PE f negp r) (e, r2) -> ev (fun f => PP f (TOp OSub :: r)) (ENeg e, r2).
  Proof.
    intros [n H]. exists (S n). intros f Hf. destruct f as [|f]; [lia|].
    cbn [parse_primary]. rewrite H by lia. reflexivity.
  Qed.

  Lemma ev_PP_not r e r2 :
    ev (fun f => PE f notp r) (e, r2) -> ev (fun f => PP f (TNot :: r)) (ENot e, r2).
  Proof.
    intros [n H]. exists (S n). intros f Hf. destruct f as [|f]; [lia|].
    cbn [parse_primary]. rewrite H by lia. reflexivity.
  Qed.

  Lemma ev_PP_atom a r : ev (fun f => PP f (TAtom a :: r)) (expr_of_atom a, r).
  Proof. exists 1. intros f Hf. destruct f as [|f]; [lia|]. reflexivity. Qed.

  Lemma ev_PP_call fn r args r2 :
    ev (fun f => PA f true r) (args, r2) -> ev (fun f => PP f (TFunc fn :: TLP :: r)) (ECall fn args, r2).
  Proof.
    intros [n H]. exists (S n). intros f Hf. destruct f as [|f]; [lia|].
    cbn [parse_primary]. rewrite H by lia. reflexivity.
  Qed.

  Definition stops (p : nat) (ts : list tok) : Prop :=
    match ts with TOp o :: _ => lvl o < p | _ => True end.

  Lemma ev_PL_stop p lhs ts : stops p ts -> ev (fun f => PL f p lhs ts) (lhs, ts).
  Proof.
    intros H. exists 1. intros f Hf. destruct f as [|f]; [lia|]. cbn [parse_loop].
    destruct ts as [|t r]; [reflexivity|]. destruct t; try reflexivity.
    cbn [stops] in H. destruct (Nat.leb_spec p (lvl o)); [lia|reflexivity].
  Qed.

  Lemma ev_PL_step p lhs o r rhs r2 res :
    p <= lvl o -> ev (fun f => PE f (rprec o) r) (rhs, r2) -> ev (fun f => PL f p (EBin o lhs rhs) r2) res ->
    ev (fun f => PL f p lhs (TOp o :: r)) res.
  Proof.
    intros Hp [n1 H1] [n2 H2]. exists (S (Nat.max n1 n2)). intros f Hf. destruct f as [|f]; [lia|].
    cbn [parse_loop]. destruct (Nat.leb_spec p (lvl o)); [|lia]. rewrite H1 by lia. apply H2. lia.
  Qed.

  Lemma ev_PA_close b r : ev (fun f => PA f b (TRP :: r)) ([], r).
  Proof. exists 1. intros f Hf. destruct f as [|f]; [lia|]. reflexivity. Qed.

  Lemma ev_PA_comma b r e r2 es r3 :
    ev (fun f => PE f 0 r) (e, r2) -> ev (fun f => PA f false r2) (es, r3) ->
    ev (fun f => PA f b (TComma :: r)) (e :: es, r3).
  Proof.
    intros [n1 H1] [n2 H2]. exists (S (Nat.max n1 n2)). intros f Hf. destruct f as [|f]; [lia|].
    cbn [parse_args]. rewrite H1 by lia. rewrite H2 by lia. reflexivity.
  Qed.

  Definition starts_expr (t : tok) : Prop := t <> TRP /\ t <> TComma.

  Lemma ev_PA_first t r e r2 es r3 :
    starts_expr t -> ev (fun f => PE f 0 (t :: r)) (e, r2) -> ev (fun f => PA f false r2) (es, r3) ->
    ev (fun f => PA f true (t :: r)) (e :: es, r3).
  Proof.
    intros [Ht1 Ht2] [n1 H1] [n2 H2]. exists (S (Nat.max n1 n2)). intros f Hf. destruct f as [|f]; [lia|].
    cbn [parse_args]. destruct t; try congruence; rewrite H1 by lia; rewrite H2 by lia; reflexivity.
  Qed.

  (* ---- writing an expression down ----
     Prints q e ts k: ts is a way of writing e in a position that demands level q; k is None when
     the written form is closed (atom, call, parenthesised, prefix operator) and Some l when it is a
     bare binary operation of level l. Parentheses may be added around anything (P_paren). *)
  Inductive Prints : nat -> expr -> list tok -> option nat -> Prop :=
  | P_atom q a : Prints q (expr_of_atom a) [TAtom a] None
  | P_paren q e ts k : Prints 0 e ts k -> Prints q e (TLP :: ts ++ [TRP]) None
  | P_neg q e ts k : Prints negp e ts k -> Prints q (ENeg e) (TOp OSub :: ts) None
  | P_not q e ts k : Prints notp e ts k -> Prints q (ENot e) (TNot :: ts) None
  | P_call q fn args tss : PrintsArgs args tss -> Prints q (ECall fn args) (TFunc fn :: TLP :: tss ++ [TRP]) None
  | P_bin q o l r tl tr kl kr :
      q <= lvl o -> Prints (lvl o) l tl kl -> Prints (rprec o) r tr kr ->
      Prints q (EBin o l r) (tl ++ TOp o :: tr) (Some (lvl o))
  with PrintsArgs : list expr -> list tok -> Prop :=
  | PA_nil : PrintsArgs [] []
  | PA_cons e ts k es tss : Prints 0 e ts k -> PrintsMore es tss -> PrintsArgs (e :: es) (ts ++ tss)
  with PrintsMore : list expr -> list tok -> Prop :=
  | PM_nil : PrintsMore [] []
  | PM_cons e ts k es tss : Prints 0 e ts k -> PrintsMore es tss -> PrintsMore (e :: es) (TComma :: ts ++ tss).

  Scheme Prints_mut := Minimality for Prints Sort Prop
    with PrintsArgs_mut := Minimality for PrintsArgs Sort Prop
    with PrintsMore_mut := Minimality for PrintsMore Sort Prop.
  Combined Scheme Prints_all from Prints_mut, PrintsArgs_mut, PrintsMore_mut.

  (* what may follow a written form for it to be read as written: after a bare binary operation of
     level k, no operator that binds tighter than k *)
  Definition follow_ok (k : option nat) (rest : list tok) : Prop :=
    match k, rest with
    | Some k, TOp o :: _ => lvl o <= k
    | _, _ => True
    end.

  Lemma prints_bare q e ts k : Prints q e ts (Some k) -> exists o, k = lvl o /\ q <= lvl o.
  Proof. intros H. inversion H; subst. eauto. Qed.

  Lemma prints_head q e ts k : Prints q e ts k -> exists t r, ts = t :: r /\ starts_expr t.
  Proof.
    induction 1 as [q a|q e ts k _ _|q e ts k _ _|q e ts k _ _|q fn args tss _|q o l r tl tr kl kr _ _ IHl _ _];
      try (eexists _, _; split; [reflexivity|split; discriminate]).
    destruct IHl as (t & r0 & -> & Ht). eexists _, _; split; [reflexivity|exact Ht].
  Qed.

  Hypothesis WF : wf_table.

  Theorem prints_parse_all :
    (forall q e ts k, Prints q e ts k ->
       forall p rest res, p <= q -> follow_ok k rest ->
         ev (fun f => PL f p e rest) res -> ev (fun f => PE f p (ts ++ rest)) res) /\
    (forall es tss, PrintsArgs es tss ->
       forall rest, ev (fun f => PA f true (tss ++ TRP :: rest)) (es, rest)) /\
    (forall es tss, PrintsMore es tss ->
       forall rest, ev (fun f => PA f false (tss ++ TRP :: rest)) (es, rest)).
  Proof.
    destruct WF as (Hr' & Hn & Ht).
    assert (Hr : forall o, lvl o < rprec o) by (intros o; rewrite Hr'; lia).
    apply Prints_all.
    - (* atom *) intros q a p rest res _ _ HL. cbn [app].
      eapply ev_PE; [apply ev_PP_atom|exact HL].
    - (* parentheses *) intros q e ts k _ IH p rest res _ _ HL.
      cbn [app]. rewrite <- app_assoc. cbn [app].
      eapply ev_PE; [|exact HL]. apply ev_PP_paren.
      apply IH; [lia|destruct k; exact I|]. apply ev_PL_stop. exact I.
    - (* unary minus *) intros q e ts k HP IH p rest res _ _ HL. cbn [app].
      eapply ev_PE; [|exact HL]. apply ev_PP_neg.
      apply IH; [lia| |].
      + destruct k as [k|]; [|exact I]. apply prints_bare in HP. destruct HP as (o & -> & Hle).
        specialize (Hn o). lia.
      + apply ev_PL_stop. destruct rest as [|[] ?]; cbn; auto.
    - (* not *) intros q e ts k HP IH p rest res _ _ HL. cbn [app].
      eapply ev_PE; [|exact HL]. apply ev_PP_not.
      apply IH; [lia| |].
      + destruct k as [k|]; [|exact I]. apply prints_bare in HP. destruct HP as (o & -> & Hle).
        specialize (Ht o). lia.
      + apply ev_PL_stop. destruct rest as [|[] ?]; cbn; auto.
    - (* call *) intros q fn args tss _ IH p rest res _ _ HL.
      cbn [app]. rewrite <- app_assoc. cbn [app].
      eapply ev_PE; [|exact HL]. apply ev_PP_call. apply IH.
    - (* binary operation *) intros q o l r tl tr kl kr Hq HPl IHl HPr IHr p rest res Hp Hf HL.
      rewrite <- app_assoc. cbn [app].
      apply IHl; [lia| |].
      + destruct kl as [kl|]; [|exact I]. cbn. apply prints_bare in HPl. destruct HPl as (o' & -> & Hle). exact Hle.
      + eapply ev_PL_step; [lia| |exact HL].
        apply IHr; [lia| |].
        * destruct kr as [kr|]; [|exact I]. destruct rest as [|[] ?]; try exact I. cbn. cbn in Hf.
          apply prints_bare in HPr. destruct HPr as (o' & -> & Hle). specialize (Hr o). lia.
        * apply ev_PL_stop. destruct rest as [|[] ?]; cbn; auto. cbn in Hf. specialize (Hr o). lia.
    - (* no arguments *) intros rest. cbn [app]. apply ev_PA_close.
    - (* first argument *) intros e ts k es tss HP IH HM IHm rest.
      destruct (prints_head _ _ _ _ HP) as (t & r0 & -> & Hst).
      rewrite <- app_assoc. cbn [app].
      eapply ev_PA_first; [exact Hst| |apply IHm].
      change (t :: r0 ++ tss ++ TRP :: rest) with ((t :: r0) ++ (tss ++ TRP :: rest)).
      apply IH; [lia| |].
      + destruct k; [|exact I]. inversion HM; cbn; auto.
      + apply ev_PL_stop. inversion HM; cbn; auto.
    - (* no further argument *) intros rest. cbn [app]. apply ev_PA_close.
    - (* further argument *) intros e ts k es tss _ IH HM IHm rest.
      cbn [app]. rewrite <- app_assoc.
      eapply ev_PA_comma; [|apply IHm].
      apply IH; [lia| |].
      + destruct k; [|exact I]. inversion HM; cbn; auto.
      + apply ev_PL_stop. inversion HM; cbn; auto.
  Qed.

  (* the statement for a whole expression: written down in any admissible way, it is read back *)
  Theorem prints_parse e ts k :
    Prints 0 e ts k -> ev (fun f => PE f 0 ts) (e, []).
  Proof.
    intros H. rewrite <- (app_nil_r ts).
    apply (proj1 prints_parse_all 0 e ts k H 0 [] (e, [])); [lia|destruct k; exact I|].
    apply ev_PL_stop. exact I.
  Qed.

  (* ---- two canonical ways of writing: minimal parentheses, and parentheses around everything ---- *)
  Definition paren (ts : list tok) : list tok := TLP :: ts ++ [TRP].

  Fixpoint print_min (q : nat) (e : expr) : list tok :=
    match e with
    | EVal v => [TAtom (AVal v)]
    | EVar x => [TAtom (AVar x)]
    | ENull => [TAtom ANull]
    | ECall fn args =>
        TFunc fn :: TLP ::
          (match args with
           | [] => []
           | a :: more => print_min 0 a ++ flat_map (fun x => TComma :: print_min 0 x) more
           end) ++ [TRP]
    | ENeg x => TOp OSub :: print_min negp x
    | ENot x => TNot :: print_min notp x
    | EBin o l r =>
        let body := print_min (lvl o) l ++ TOp o :: print_min (rprec o) r in
        if q <=? lvl o then body else paren body
    end.

  Fixpoint print_full (e : expr) : list tok :=
    match e with
    | EVal v => [TAtom (AVal v)]
    | EVar x => [TAtom (AVar x)]
    | ENull => [TAtom ANull]
    | ECall fn args =>
        TFunc fn :: TLP ::
          (match args with
           | [] => []
           | a :: more => paren (print_full a) ++ flat_map (fun x => TComma :: paren (print_full x)) more
           end) ++ [TRP]
    | ENeg x => TOp OSub :: paren (print_full x)
    | ENot x => TNot :: paren (print_full x)
    | EBin o l r => paren (print_full l) ++ TOp o :: paren (print_full r)
    end.

  (* induction on expressions with the nested list of arguments *)
  Fixpoint expr_ind' (P : expr -> Prop)
    (Hv : forall v, P (EVal v)) (Hx : forall x, P (EVar x)) (Hnull : P ENull)
    (Hc : forall fn args, Forall P args -> P (ECall fn args))
    (Hn : forall e, P e -> P (ENeg e)) (Ht : forall e, P e -> P (ENot e))
    (Hb : forall o l r, P l -> P r -> P (EBin o l r)) (e : expr) : P e :=
    match e with
    | EVal v => Hv v
    | EVar x => Hx x
    | ENull => Hnull
    | ECall fn args =>
        Hc fn args ((fix go (l : list expr) : Forall P l :=
                       match l with
                       | [] => Forall_nil P
                       | a :: r => Forall_cons a (expr_ind' P Hv Hx Hnull Hc Hn Ht Hb a) (go r)
                       end) args)
    | ENeg x => Hn x (expr_ind' P Hv Hx Hnull Hc Hn Ht Hb x)
    | ENot x => Ht x (expr_ind' P Hv Hx Hnull Hc Hn Ht Hb x)
    | EBin o l r => Hb o l r (expr_ind' P Hv Hx Hnull Hc Hn Ht Hb l) (expr_ind' P Hv Hx Hnull Hc Hn Ht Hb r)
    end.

  Lemma prints_more_flat (pr : expr -> list tok) more :
    Forall (fun x => exists k, Prints 0 x (pr x) k) more ->
    PrintsMore more (flat_map (fun x => TComma :: pr x) more).
  Proof.
    induction 1 as [|x more [k Hx] _ IH]; [constructor|]. cbn [flat_map app].
    econstructor; eassumption.
  Qed.

  Lemma print_min_prints e : forall q, exists k, Prints q e (print_min q e) k.
  Proof.
    induction e as [v|x| |fn args IH|e IH|e IH|o l r IHl IHr] using expr_ind'; intros q.
    - eexists. apply (P_atom q (AVal v)).
    - eexists. apply (P_atom q (AVar x)).
    - eexists. apply (P_atom q ANull).
    - eexists. cbn [print_min]. apply P_call.
      destruct args as [|a more]; [constructor|].
      inversion IH as [|? ? Ha Hm]; subst. destruct (Ha 0) as [k Hk].
      econstructor; [exact Hk|]. apply prints_more_flat.
      eapply Forall_impl; [|exact Hm]. intros x Hx. apply Hx.
    - destruct (IH negp) as [k Hk]. eexists. cbn [print_min]. eapply P_neg; exact Hk.
    - destruct (IH notp) as [k Hk]. eexists. cbn [print_min]. eapply P_not; exact Hk.
    - destruct (IHl (lvl o)) as [kl Hl]. destruct (IHr (rprec o)) as [kr Hr]. cbn [print_min].
      destruct (Nat.leb_spec q (lvl o)) as [Hq|Hq].
      + eexists. eapply P_bin; eassumption.
      + eexists. unfold paren. eapply P_paren. eapply P_bin; [apply Nat.le_0_l|eassumption|eassumption].
  Qed.

  Lemma print_full_prints e : forall q, exists k, Prints q (e) (paren (print_full e)) k.
  Proof.
    induction e as [v|x| |fn args IH|e IH|e IH|o l r IHl IHr] using expr_ind'; intros q;
      eexists; unfold paren at 1; eapply P_paren.
    - apply (P_atom 0 (AVal v)).
    - apply (P_atom 0 (AVar x)).
    - apply (P_atom 0 ANull).
    - cbn [print_full]. apply P_call.
      destruct args as [|a more]; [constructor|].
      inversion IH as [|? ? Ha Hm]; subst. destruct (Ha 0) as [k Hk].
      econstructor; [exact Hk|]. apply (prints_more_flat (fun x => paren (print_full x))).
      eapply Forall_impl; [|exact Hm]. intros x Hx. apply Hx.
    - destruct (IH negp) as [k Hk]. cbn [print_full]. eapply P_neg; exact Hk.
    - destruct (IH notp) as [k Hk]. cbn [print_full]. eapply P_not; exact Hk.
    - destruct (IHl (lvl o)) as [kl Hl]. destruct (IHr (rprec o)) as [kr Hr]. cbn [print_full].
      eapply P_bin; [apply Nat.le_0_l|eassumption|eassumption].
  Qed.

  Theorem parse_print_min e : ev (fun f => PE f 0 (print_min 0 e)) (e, []).
  Proof. destruct (print_min_prints e 0) as [k H]. eapply prints_parse; exact H. Qed.

  Theorem parse_print_full e : ev (fun f => PE f 0 (paren (print_full e))) (e, []).
  Proof. destruct (print_full_prints e 0) as [k H]. eapply prints_parse; exact H. Qed.

  (* redundant parentheses never matter: any two admissible ways of writing the same tree parse alike,
     and two trees with a common admissible written form are the same tree *)
  Corollary written_form_determines_tree e1 e2 ts k1 k2 :
    Prints 0 e1 ts k1 -> Prints 0 e2 ts k2 -> e1 = e2.
  Proof.
    intros H1 H2. destruct (prints_parse _ _ _ H1) as [n1 E1]. destruct (prints_parse _ _ _ H2) as [n2 E2].
    specialize (E1 (Nat.max n1 n2) (Nat.le_max_l _ _)). specialize (E2 (Nat.max n1 n2) (Nat.le_max_r _ _)).
    congruence.
  Qed.

  (* ---- the grouping rules in the words of the property ---- *)
  Definition A (a : atom) := TAtom a.

  (* a op1 b op2 c : the tighter operator groups first; otherwise (equal levels included) to the left *)
  Theorem group_right_when_tighter a b c o1 o2 :
    lvl o1 < lvl o2 ->
    ev (fun f => PE f 0 [A a; TOp o1; A b; TOp o2; A c])
       (EBin o1 (expr_of_atom a) (EBin o2 (expr_of_atom b) (expr_of_atom c)), []).
  Proof.
    intros H. destruct WF as (Hr & _).
    eapply (prints_parse _ ([A a] ++ TOp o1 :: ([A b] ++ TOp o2 :: [A c]))).
    eapply P_bin; [apply Nat.le_0_l|apply P_atom|].
    eapply P_bin; [rewrite Hr; lia|apply P_atom|apply P_atom].
  Qed.

  Theorem group_left_otherwise a b c o1 o2 :
    lvl o2 <= lvl o1 ->
    ev (fun f => PE f 0 [A a; TOp o1; A b; TOp o2; A c])
       (EBin o2 (EBin o1 (expr_of_atom a) (expr_of_atom b)) (expr_of_atom c), []).
  Proof.
    intros H.
    eapply (prints_parse _ (([A a] ++ TOp o1 :: [A b]) ++ TOp o2 :: [A c])).
    eapply P_bin; [apply Nat.le_0_l| |apply P_atom].
    eapply P_bin; [exact H|apply P_atom|apply P_atom].
  Qed.

  (* a prefix operator takes only the primary that follows it *)
  Theorem neg_binds_tightest a b o :
    ev (fun f => PE f 0 [TOp OSub; A a; TOp o; A b]) (EBin o (ENeg (expr_of_atom a)) (expr_of_atom b), []).
  Proof.
    eapply (prints_parse _ ((TOp OSub :: [A a]) ++ TOp o :: [A b])).
    eapply P_bin; [apply Nat.le_0_l| |apply P_atom]. eapply P_neg. apply P_atom.
  Qed.

  Theorem not_binds_tightest a b o :
    ev (fun f => PE f 0 [TNot; A a; TOp o; A b]) (EBin o (ENot (expr_of_atom a)) (expr_of_atom b), []).
  Proof.
    eapply (prints_parse _ ((TNot :: [A a]) ++ TOp o :: [A b])).
    eapply P_bin; [apply Nat.le_0_l| |apply P_atom]. eapply P_not. apply P_atom.
  Qed.

  (* parentheses override both rules *)
  Theorem parens_override_left a b c o1 o2 :
    ev (fun f => PE f 0 [TLP; A a; TOp o1; A b; TRP; TOp o2; A c])
       (EBin o2 (EBin o1 (expr_of_atom a) (expr_of_atom b)) (expr_of_atom c), []).
  Proof.
    eapply (prints_parse _ ((TLP :: ([A a] ++ TOp o1 :: [A b]) ++ [TRP]) ++ TOp o2 :: [A c])).
    eapply P_bin; [apply Nat.le_0_l| |apply P_atom].
    eapply P_paren. eapply P_bin; [apply Nat.le_0_l|apply P_atom|apply P_atom].
  Qed.

  Theorem parens_override_right a b c o1 o2 :
    ev (fun f => PE f 0 [A a; TOp o1; TLP; A b; TOp o2; A c; TRP])
       (EBin o1 (expr_of_atom a) (EBin o2 (expr_of_atom b) (expr_of_atom c)), []).
  Proof.
    eapply (prints_parse _ ([A a] ++ TOp o1 :: (TLP :: ([A b] ++ TOp o2 :: [A c]) ++ [TRP]))).
    eapply P_bin; [apply Nat.le_0_l|apply P_atom|].
    eapply P_paren. eapply P_bin; [apply Nat.le_0_l|apply P_atom|apply P_atom].
  Qed.

End Proofs.

(* ---- the table extracted from the Go source ---- *)
From YS Require Import Generated.ExprTable.

Lemma generated_table_wf : wf_table level right_prec neg_operand_prec not_operand_prec.
Proof. repeat split; intros o; destruct o; vm_compute; repeat constructor. Qed.

(* the order the property states: unary minus and not, then * / %, then + -, then < <= > >=, then == !=,
   then and / or / xor *)
Lemma generated_table_order :
  level OAnd = level OOr /\ level OOr = level OXor /\
  level OXor < level OEq /\ level OEq = level ONe /\
  level ONe < level OLe /\ level OLe = level OGe /\ level OGe = level OLt /\ level OLt = level OGt /\
  level OGt < level OAdd /\ level OAdd = level OSub /\
  level OSub < level OMul /\ level OMul = level ODiv /\ level ODiv = level OMod /\
  level OMod < not_operand_prec /\ level OMod < neg_operand_prec.
Proof. vm_compute. repeat split; repeat constructor. Qed.

Definition eventually {A} := @ev A.
