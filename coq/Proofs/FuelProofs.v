(* Fuel is a proof device: whenever Next answers with some fuel (anything but OutOfFuel), it gives
   the same answer and the same state with any larger fuel.  So the number the wire layer passes
   (fuel_per_next) cannot influence an observation, and every theorem stated "for all fuel, unless
   OutOfFuel" speaks about one well-defined result per state and choice. *)
From Coq Require Import List ZArith Bool Lia.
From YS Require Import Base.Sexp Yarn.Ast Yarn.Value Yarn.Eval Yarn.Runner.
Import ListNotations.

Theorem next_fuel_mono d : forall f m c r m', next d f m c = (r, m') -> r <> NFuel ->
  forall f', (f <= f')%nat -> next d f' m c = (r, m').
Proof.
  induction f as [|f IH]; intros m c r m' H Hr f' Hle.
  - cbn in H. inversion H; subst. contradiction.
  - destruct f' as [|f']; [lia|]. assert (Hle' : (f <= f')%nat) by lia.
    cbn [next] in *.
    destruct (poll (dat m)) as [[r0|] s0]; [exact H|].
    destruct (chosen_body (last_opts m) c) as [b|]; [|exact H].
    destruct (if is_nil b then stack m else b :: stack m) as [|[|st q] rest];
      [exact H|exact (IH _ _ _ _ H Hr _ Hle')|].
    destruct st as [l|os|x op e|e|cs|es|fn args|x e].
    + destruct (render_line s0 l) as [[rl| |] s3]; exact H.
    + destruct (render_options s0 os) as [[ros| |] s3]; exact H.
    + destruct (exec_set x op e s0) as [[|] s3]; [exact (IH _ _ _ _ H Hr _ Hle')|exact H].
    + destruct (exec_jump d e s0) as [[b'|] s3]; [exact (IH _ _ _ _ H Hr _ Hle')|exact H].
    + destruct (exec_if cs s0) as [[[b'|]| |] s3];
        [exact (IH _ _ _ _ H Hr _ Hle')|exact (IH _ _ _ _ H Hr _ Hle')|exact H|exact H].
    + destruct (exec_command es s0) as [[| | |] s3];
        first [exact H | exact (IH _ _ _ _ H Hr _ Hle')].
    + destruct (exec_call fn args s0) as [[|] s3]; [exact (IH _ _ _ _ H Hr _ Hle')|exact H].
    + destruct (exec_set x SAssign e s0) as [[|] s3]; [exact (IH _ _ _ _ H Hr _ Hle')|exact H].
Qed.

(* two fuels that both suffice agree *)
Corollary next_fuel_irrelevant d f1 f2 m c :
  fst (next d f1 m c) <> NFuel -> fst (next d f2 m c) <> NFuel -> next d f1 m c = next d f2 m c.
Proof.
  intros H1 H2. destruct (Nat.le_ge_cases f1 f2) as [L|L].
  - destruct (next d f1 m c) as [r m'] eqn:E. symmetry. exact (next_fuel_mono d f1 m c r m' E H1 f2 L).
  - destruct (next d f2 m c) as [r m'] eqn:E. exact (next_fuel_mono d f2 m c r m' E H2 f1 L).
Qed.

(* OutOfFuel is only ever reported for want of fuel: less fuel cannot do better *)
Corollary out_of_fuel_downward d f f' m c : (f' <= f)%nat ->
  fst (next d f m c) = NFuel -> fst (next d f' m c) = NFuel.
Proof.
  intros L H. destruct (next d f' m c) as [r m'] eqn:E. cbn [fst].
  destruct r; try reflexivity;
    (rewrite (next_fuel_mono d f' m c _ m' E (fun X => ltac:(discriminate X)) f L) in H; discriminate H).
Qed.
