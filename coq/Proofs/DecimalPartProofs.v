(* C19: integer(x) + decimal(x) = x exactly, for EVERY finite double: the fractional part x - trunc(x)
   is itself a double (no rounding in the subtraction), and adding it back to trunc(x) gives x. *)
From Coq Require Import ZArith Reals Lia Lra List Bool.
From Flocq Require Import Core BinarySingleNaN Sterbenz.
From YS Require Import Base.Sexp Num.F64 Yarn.Ast Yarn.Value Yarn.Eval Proofs.BuiltinProofs.
Local Open Scope R_scope.

Local Notation fexp := (FLT_exp (3 - emax - prec) prec).
Local Notation rnd := (round radix2 fexp (round_mode mode_NE)).

Lemma format_of (x : f64) : generic_format radix2 fexp (B2R x).
Proof. apply generic_format_B2R. Qed.

Lemma trunc_abs_le r : Rabs (IZR (Ztrunc r)) <= Rabs r.
Proof.
  destruct (Rle_or_lt 0 r) as [P|N].
  - rewrite Ztrunc_floor by exact P. pose proof (Zfloor_lb r) as L.
    assert (0 <= IZR (Zfloor r)) by (apply IZR_le, Zfloor_lub; simpl; exact P).
    rewrite !Rabs_pos_eq by assumption. exact L.
  - rewrite Ztrunc_ceil by lra. pose proof (Zceil_ub r) as U.
    assert (IZR (Zceil r) <= 0) by (apply IZR_le, Zceil_glb; simpl; lra).
    rewrite !Rabs_left1 by lra. lra.
Qed.

Lemma frac_abs_lt_1 r : Rabs (r - IZR (Ztrunc r)) < 1.
Proof.
  destruct (Rle_or_lt 0 r) as [P|N].
  - rewrite Ztrunc_floor by exact P. pose proof (Zfloor_lb r). pose proof (Zfloor_ub r).
    rewrite Rabs_pos_eq by lra. lra.
  - rewrite Ztrunc_ceil by lra. pose proof (Zceil_ub r). pose proof (Zceil_lb r).
    rewrite Rabs_left1 by lra. lra.
Qed.

(* the fractional part of a double is a double *)
Lemma frac_format (x : f64) : generic_format radix2 fexp (B2R x - IZR (Ztrunc (B2R x))).
Proof.
  set (X := B2R x). set (T := IZR (Ztrunc X)).
  destruct (Req_dec T 0) as [Z|NZ].
  - rewrite Z, Rminus_0_r. apply format_of.
  - assert (FT : generic_format radix2 fexp T).
    { unfold T, X. rewrite <- trunc_value. apply format_of. }
    replace (X - T) with (X + - T) by ring.
    apply generic_format_plus_weak.
    + apply FLT_exp_valid. reflexivity.
    + apply FLT_exp_monotone.
    + apply format_of.
    + apply generic_format_opp. exact FT.
    + replace (X + - T) with (X - T) by ring. rewrite Rabs_Ropp.
      assert (One : 1 <= Rabs T).
      { unfold T. rewrite <- abs_IZR. apply IZR_le.
        assert (Ztrunc X <> 0%Z) by (intro E; apply NZ; unfold T; rewrite E; reflexivity). lia. }
      pose proof (frac_abs_lt_1 X) as L. fold T in L.
      pose proof (trunc_abs_le X) as M. fold T in M.
      apply Rmin_glb; lra.
Qed.

Lemma finite_lt_emax (x : f64) : Rabs (B2R x) < bpow radix2 emax.
Proof. apply abs_B2R_lt_emax. Qed.

(* decimal(x) = x - trunc(x), exactly *)
Theorem decimal_exact (x : f64) : is_finite x = true ->
  is_finite (f_decimal x) = true /\ B2R (f_decimal x) = B2R x - IZR (Ztrunc (B2R x)).
Proof.
  intros Fx. unfold f_decimal, fsub.
  assert (Ft : is_finite (ftrunc x) = true) by (unfold ftrunc; rewrite nearbyint_finite; exact Fx).
  pose proof (Bminus_correct prec emax Hprec Hmax mode_NE x (ftrunc x) Fx Ft) as H.
  pose proof (trunc_value x) as Tv. unfold R_of in Tv. rewrite Tv in H.
  rewrite round_generic in H by (apply valid_rnd_N || apply frac_format).
  rewrite Rlt_bool_true in H.
  - destruct H as (H1 & H2 & _). split; assumption.
  - apply Rlt_trans with 1; [apply frac_abs_lt_1|]. change 1 with (bpow radix2 0). apply bpow_lt. unfold emax. lia.
Qed.

(* integer(x) + decimal(x) = x *)
Theorem integer_plus_decimal (x : f64) : is_finite x = true ->
  is_finite (fadd (ftrunc x) (f_decimal x)) = true /\ B2R (fadd (ftrunc x) (f_decimal x)) = B2R x.
Proof.
  intros Fx. destruct (decimal_exact x Fx) as (Fd & Vd).
  assert (Ft : is_finite (ftrunc x) = true) by (unfold ftrunc; rewrite nearbyint_finite; exact Fx).
  unfold fadd.
  pose proof (Bplus_correct prec emax Hprec Hmax mode_NE (ftrunc x) (f_decimal x) Ft Fd) as H.
  pose proof (trunc_value x) as Tv. unfold R_of in Tv. rewrite Tv, Vd in H.
  replace (IZR (Ztrunc (B2R x)) + (B2R x - IZR (Ztrunc (B2R x)))) with (B2R x) in H by ring.
  rewrite round_generic in H by (apply valid_rnd_N || apply format_of).
  rewrite Rlt_bool_true in H by apply finite_lt_emax.
  destruct H as (H1 & H2 & _). split; assumption.
Qed.

(* the fractional part has the sign of x (or is zero) and magnitude below 1 *)
Theorem decimal_range (x : f64) : is_finite x = true ->
  Rabs (B2R (f_decimal x)) < 1 /\ (0 <= B2R x -> 0 <= B2R (f_decimal x)) /\ (B2R x <= 0 -> B2R (f_decimal x) <= 0).
Proof.
  intros Fx. destruct (decimal_exact x Fx) as (_ & Vd). rewrite Vd. split; [apply frac_abs_lt_1|]. split; intros H.
  - rewrite Ztrunc_floor by exact H. pose proof (Zfloor_lb (B2R x)). lra.
  - rewrite Ztrunc_ceil by exact H. pose proof (Zceil_ub (B2R x)). lra.
Qed.
