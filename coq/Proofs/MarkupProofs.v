(* Markup parser: the fuel of every loop is sufficient (parsing is total: None is always a genuine
   error value), returned attribute ranges lie inside the returned text (in characters),
   TextForAttribute never panics on them, the result does not depend on the parser's previous
   state. *)
From Coq Require Import List ZArith NArith Bool Lia Arith.
From YS Require Import Base.Sexp Num.F64 Yarn.Ast Yarn.Value Markup.LineParser.
Import ListNotations.

Notation len r := (length (rest r)).

(* ---------- every sub-parser returns a suffix of what it was given ---------- *)
Lemma consume_ws_list_len l : forall p, len (consume_ws_list l p) <= length l.
Proof.
  induction l as [|c t IH]; intros p; cbn [consume_ws_list]; [cbn; lia|].
  destruct (is_space c); [specialize (IH (p + 1)%Z); cbn [length]; lia|cbn; lia].
Qed.

Lemma consume_ws_len r : len (consume_ws r) <= len r.
Proof. unfold consume_ws. apply consume_ws_list_len. Qed.

Lemma take_while_len ok l : forall p acc, len (snd (take_while ok l p acc)) <= length l.
Proof.
  induction l as [|c t IH]; intros p acc; cbn [take_while]; [cbn; lia|].
  destruct (ok c); [specialize (IH (p + 1)%Z (c :: acc)); cbn [length]; lia|cbn; lia].
Qed.

Lemma parse_rune_len r c r' : parse_rune r c = Some r' -> len r' < len r.
Proof.
  unfold parse_rune. pose proof (consume_ws_len r) as H.
  destruct (rest (consume_ws r)) as [|x t] eqn:E; [discriminate|].
  destruct (N.eqb x c); [|discriminate]. intros K. inversion K; subst. cbn [rest].
  cbn [length] in H. lia.
Qed.

Lemma parse_id_len r s r' : parse_id r = Some (s, r') -> len r' < len r.
Proof.
  unfold parse_id. pose proof (consume_ws_len r) as H.
  destruct (rest (consume_ws r)) as [|c t] eqn:E; [discriminate|].
  destruct (is_id_char c); [|discriminate]. intros K.
  pose proof (take_while_len is_id_char t (sp (consume_ws r) + 1)%Z [c]) as H2.
  inversion K as [K']. rewrite K' in H2. cbn [snd] in H2. cbn [length] in H. lia.
Qed.

Lemma parse_digits_len r : len (snd (parse_digits r)) <= len r.
Proof.
  unfold parse_digits. pose proof (consume_ws_len r) as H.
  pose proof (take_while_len is_udigit (rest (consume_ws r)) (sp (consume_ws r)) []) as H2. lia.
Qed.

Lemma parse_string_body_len_aux : forall n l, length l <= n ->
  forall p acc s r', parse_string_body l p acc = Some (s, r') -> len r' < length l.
Proof.
  induction n as [|n IH]; intros l Hn p acc s r' H.
  - destruct l; [discriminate|cbn in Hn; lia].
  - destruct l as [|c t]; [discriminate|]. cbn [parse_string_body] in H. cbn [length] in Hn.
    destruct (N.eqb c 34).
    + inversion H; subst. cbn. lia.
    + destruct (N.eqb c 92).
      * destruct t as [|e t']; [discriminate|]. cbn [length] in Hn.
        apply IH in H; [cbn [length]; lia|lia].
      * apply IH in H; [cbn [length]; lia|lia].
Qed.

Lemma parse_string_body_len l p acc s r' : parse_string_body l p acc = Some (s, r') -> len r' < length l.
Proof. apply (parse_string_body_len_aux (length l)). lia. Qed.

Lemma parse_string_len r s r' : parse_string r = Some (s, r') -> len r' < len r.
Proof.
  unfold parse_string. pose proof (consume_ws_len r) as H.
  destruct (rest (consume_ws r)) as [|c t] eqn:E; [discriminate|].
  destruct (N.eqb c 34); [|discriminate]. intros K. apply parse_string_body_len in K.
  cbn [length] in H. lia.
Qed.

Lemma expect_peek_len r c : len (snd (expect_peek r c)) <= len r.
Proof. unfold expect_peek. cbn [snd]. apply consume_ws_len. Qed.

Lemma parse_value_len r v r' : parse_value r = Some (v, r') -> len r' <= len r.
Proof.
  unfold parse_value. pose proof (consume_ws_len r) as H0.
  destruct (is_udigit (peek (consume_ws r))).
  - pose proof (parse_digits_len (consume_ws r)) as H1.
    destruct (parse_digits (consume_ws r)) as [ds r1]. cbn [snd] in H1.
    pose proof (expect_peek_len r1 46%N) as H2.
    destruct (expect_peek r1 46%N) as [dot r2]. cbn [snd] in H2. destruct dot.
    + destruct (parse_rune r2 46%N) as [r3|] eqn:E3; [|discriminate]. apply parse_rune_len in E3.
      pose proof (parse_digits_len r3) as H4. destruct (parse_digits r3) as [fs r4]. cbn [snd] in H4.
      destruct fs as [|f0 fs']; [discriminate|].
      destruct (all_ascii_digits ds && all_ascii_digits (f0 :: fs')); [|discriminate].
      destruct (Num.Decimal.parse_float _); [|discriminate]. intros K; inversion K; subst. lia.
    + destruct (all_ascii_digits ds); [|discriminate].
      destruct (digits_val 0 ds) as [i|]; [|discriminate].
      destruct (i <? two63)%Z; [|discriminate]. intros K; inversion K; subst. lia.
  - pose proof (expect_peek_len (consume_ws r) 34%N) as H1.
    destruct (expect_peek (consume_ws r) 34%N) as [q r1]. cbn [snd] in H1. destruct q.
    + destruct (parse_string r1) as [[s r2]|] eqn:E; [|discriminate]. apply parse_string_len in E.
      intros K; inversion K; subst. lia.
    + destruct (parse_id r1) as [[w r2]|] eqn:E; [|discriminate]. apply parse_id_len in E.
      destruct (str_eqb _ _); [intros K; inversion K; subst; lia|].
      destruct (str_eqb _ _); intros K; inversion K; subst; lia.
Qed.

(* ---------- the property loop: fuel beyond the remaining length changes nothing ---------- *)
Lemma parse_props_fuel : forall f1 f2 r name props pos src, len r < f1 -> len r < f2 ->
  parse_props f1 r name props pos src = parse_props f2 r name props pos src.
Proof.
  induction f1 as [|f1 IH]; intros f2 r name props pos src H1 H2; [lia|].
  destruct f2 as [|f2]; [lia|]. cbn [parse_props].
  pose proof (consume_ws_len r) as Hw.
  destruct (N.eqb (peek (consume_ws r)) 93); [reflexivity|].
  destruct (N.eqb (peek (consume_ws r)) 47); [reflexivity|].
  destruct (parse_id (consume_ws r)) as [[pn r2]|] eqn:E; [|reflexivity]. apply parse_id_len in E.
  destruct (parse_rune r2 61%N) as [r3|] eqn:E3; [|reflexivity]. apply parse_rune_len in E3.
  destruct (parse_value r3) as [[pv r4]|] eqn:E4; [|reflexivity]. apply parse_value_len in E4.
  apply IH; lia.
Qed.

Lemma parse_props_len : forall f r name props pos src m r', parse_props f r name props pos src = Some (m, r') ->
  len r' <= len r.
Proof.
  induction f as [|f IH]; intros r name props pos src m r' H; [discriminate|].
  cbn [parse_props] in H. pose proof (consume_ws_len r) as Hw.
  destruct (N.eqb (peek (consume_ws r)) 93).
  - destruct (parse_rune (consume_ws r) 93%N) as [r2|] eqn:E; [|discriminate]. apply parse_rune_len in E.
    inversion H; subst. lia.
  - destruct (N.eqb (peek (consume_ws r)) 47).
    + destruct (parse_rune (consume_ws r) 47%N) as [r2|] eqn:E; [|discriminate]. apply parse_rune_len in E.
      destruct (parse_rune r2 93%N) as [r3|] eqn:E3; [|discriminate]. apply parse_rune_len in E3.
      inversion H; subst. lia.
    + destruct (parse_id (consume_ws r)) as [[pn r2]|] eqn:E; [|discriminate]. apply parse_id_len in E.
      destruct (parse_rune r2 61%N) as [r3|] eqn:E3; [|discriminate]. apply parse_rune_len in E3.
      destruct (parse_value r3) as [[pv r4]|] eqn:E4; [|discriminate]. apply parse_value_len in E4.
      apply IH in H. lia.
Qed.

Lemma parse_marker_len r pos m r' : parse_marker r pos = Some (m, r') -> len r' <= len r.
Proof.
  unfold parse_marker.
  set (r0 := {| rest := rest r; sp := (sp r + 1)%Z |}).
  assert (H0 : len r0 = len r) by reflexivity.
  pose proof (expect_peek_len r0 47%N) as H1.
  destruct (expect_peek r0 47%N) as [sl r1]. cbn [snd] in H1. destruct sl.
  - destruct (parse_rune r1 47%N) as [r2|] eqn:E2; [|discriminate]. apply parse_rune_len in E2.
    pose proof (expect_peek_len r2 93%N) as H3.
    destruct (expect_peek r2 93%N) as [cl r3]. cbn [snd] in H3. destruct cl.
    + destruct (parse_rune r3 93%N) as [r4|] eqn:E4; [|discriminate]. apply parse_rune_len in E4.
      intros K; inversion K; subst. lia.
    + destruct (parse_id r3) as [[nm r4]|] eqn:E4; [|discriminate]. apply parse_id_len in E4.
      destruct (parse_rune r4 93%N) as [r5|] eqn:E5; [|discriminate]. apply parse_rune_len in E5.
      intros K; inversion K; subst. lia.
  - destruct (parse_id r1) as [[nm r2]|] eqn:E2; [|discriminate]. apply parse_id_len in E2.
    pose proof (expect_peek_len r2 61%N) as H3.
    destruct (expect_peek r2 61%N) as [eq r3]. cbn [snd] in H3. destruct eq.
    + destruct (parse_rune r3 61%N) as [r4|] eqn:E4; [|discriminate]. apply parse_rune_len in E4.
      destruct (parse_value r4) as [[v r5]|] eqn:E5; [|discriminate]. apply parse_value_len in E5.
      intros K. apply parse_props_len in K. lia.
    + intros K. apply parse_props_len in K. lia.
Qed.

Lemma split_at_close_len name l : forall acc raw after, split_at_close name l acc = Some (raw, after) ->
  length after <= length l.
Proof.
  induction l as [|c t IH]; intros acc raw after H; cbn [split_at_close] in H.
  - destruct (close_tag_here name []); [inversion H; subst; cbn; lia|discriminate].
  - destruct (close_tag_here name (c :: t)); [inversion H; subst; lia|].
    apply IH in H. cbn [length]. lia.
Qed.

Lemma process_replacement_len m proc r t r' : process_replacement m proc r = Some (t, r') -> len r' <= len r.
Proof.
  unfold process_replacement. destruct (mtype m).
  - destruct (split_at_close (mname m) (rest r) []) as [[raw after]|] eqn:E; [|discriminate].
    apply split_at_close_len in E. destruct (proc _); [|discriminate]. intros K; inversion K; subst. cbn. lia.
  - intros K; inversion K; subst. lia.
  - destruct (proc m); [|discriminate]. intros K; inversion K; subst. lia.
  - intros K; inversion K; subst. lia.
Qed.

(* ---------- the main loop: fuel beyond the remaining length changes nothing ---------- *)
Lemma main_loop_fuel : forall f1 f2 r bld blen ms last, len r < f1 -> len r < f2 ->
  main_loop f1 r bld blen ms last = main_loop f2 r bld blen ms last.
Proof.
  induction f1 as [|f1 IH]; intros f2 r bld blen ms last H1 H2; [lia|].
  destruct f2 as [|f2]; [lia|]. cbn [main_loop].
  destruct (rest r) as [|c t] eqn:Er; [reflexivity|]. cbn [length] in H1, H2.
  destruct (N.eqb c 92 && match t with x :: _ => N.eqb x 91 || N.eqb x 93 | [] => false end).
  - destruct t as [|x t']; [reflexivity|]. apply IH; cbn [rest length] in *; lia.
  - destruct (N.eqb c 91).
    + destruct (parse_marker {| rest := t; sp := sp r |} blen) as [[m r2]|] eqn:Em; [|reflexivity].
      apply parse_marker_len in Em. cbn [rest] in Em.
      destruct (processor_of (mname m)) as [proc|].
      * destruct (process_replacement m proc r2) as [[txt r3]|] eqn:Ep; [|reflexivity].
        apply process_replacement_len in Ep.
        destruct (if (blen =? 0)%Z || is_space last then _ else _) as [tr|]; [|reflexivity].
        apply IH; destruct (tr && is_space (peek r3)); cbn [rest]; try lia;
          destruct (rest r3); cbn [tl length] in *; lia.
      * destruct (if (blen =? 0)%Z || is_space last then _ else _) as [tr|]; [|reflexivity].
        apply IH; destruct (tr && is_space (peek r2)); cbn [rest]; try lia;
          destruct (rest r2); cbn [tl length] in *; lia.
    + apply IH; cbn [rest]; lia.
Qed.

Theorem parse_markup_fuel_irrelevant input extra :
  main_loop (S (length input) + extra) {| rest := input; sp := 0 |} [] 0 [] 0%N =
  main_loop (S (length input)) {| rest := input; sp := 0 |} [] 0 [] 0%N.
Proof. apply main_loop_fuel; cbn [rest]; lia. Qed.

(* in particular the loop never stops for lack of fuel: with one unit of fuel per remaining rune
   plus one, the answer is the answer with any larger amount *)

(* ---------- ranges ---------- *)
Definition range_ok (text : str) (a : attribute) : Prop :=
  (0 <= apos a /\ 0 <= alen a /\ apos a + alen a <= Z.of_nat (length text))%Z.

Theorem attribute_ranges_inside input text attrs : parse_markup input = Some (text, attrs) ->
  Forall (range_ok text) attrs.
Proof.
  unfold parse_markup.
  destruct (main_loop _ _ _ _ _ _) as [[t ms]|]; [|discriminate].
  destruct (build_attrs ms [] []) as [a0|]; [|discriminate].
  intros H. inversion H; subst. clear H.
  apply Forall_forall. intros a Ha. apply in_map_iff in Ha. destruct Ha as (b & Hb & _). subst a.
  unfold range_ok, clampz. cbn [apos alen]. lia.
Qed.

Theorem text_for_attribute_safe input text attrs : parse_markup input = Some (text, attrs) ->
  forall a, In a attrs -> text_for_attribute text a <> None.
Proof.
  intros H a Ha. pose proof (attribute_ranges_inside _ _ _ H) as F.
  rewrite Forall_forall in F. destruct (F a Ha) as (H1 & H2 & H3).
  unfold text_for_attribute. destruct (alen a =? 0)%Z; [discriminate|].
  destruct (apos a <? 0)%Z eqn:E1; [apply Z.ltb_lt in E1; lia|].
  destruct (alen a <? 0)%Z eqn:E2; [apply Z.ltb_lt in E2; lia|].
  destruct (Z.of_nat (length text) <? apos a + alen a)%Z eqn:E3; [apply Z.ltb_lt in E3; lia|].
  discriminate.
Qed.

(* and the text it returns has exactly the attribute's length *)
Theorem text_for_attribute_length input text attrs a x : parse_markup input = Some (text, attrs) ->
  In a attrs -> text_for_attribute text a = Some x -> Z.of_nat (length x) = alen a.
Proof.
  intros H Ha Hx. pose proof (attribute_ranges_inside _ _ _ H) as F.
  rewrite Forall_forall in F. destruct (F a Ha) as (H1 & H2 & H3).
  unfold text_for_attribute in Hx. destruct (alen a =? 0)%Z eqn:E0.
  - inversion Hx; subst. apply Z.eqb_eq in E0. cbn. lia.
  - destruct ((apos a <? 0) || (alen a <? 0) || (Z.of_nat (length text) <? apos a + alen a))%Z; [discriminate|].
    inversion Hx; subst. rewrite firstn_length, skipn_length. lia.
Qed.

(* ---------- C14: the persistent fields of LineParser are overwritten before being read ---------- *)
Record lpstate := { lp_input : str; lp_rest : list rune; lp_sp : Z; lp_pos : Z }.

(* LineParser.ParseMarkup on a parser value in state [st] *)
Definition parse_markup_on (st : lpstate) (input : str) : lpstate * option (str * list attribute) :=
  (* ParseMarkup sets input; parseMarkup resets reader, position and sourcePosition (D17) *)
  let st1 := {| lp_input := input; lp_rest := input; lp_sp := 0; lp_pos := 0 |} in
  (st1, match main_loop (S (length (lp_rest st1))) {| rest := lp_rest st1; sp := lp_sp st1 |} [] (lp_pos st1) [] 0%N with
        | None => None
        | Some _ => parse_markup input
        end).

Theorem parse_markup_state_independent st1 st2 input :
  snd (parse_markup_on st1 input) = snd (parse_markup_on st2 input).
Proof. reflexivity. Qed.

Theorem parse_markup_on_is_pure st input : snd (parse_markup_on st input) = parse_markup input.
Proof.
  unfold parse_markup_on, parse_markup. cbn [snd lp_rest lp_sp lp_pos].
  destruct (main_loop _ _ _ _ _ _); reflexivity.
Qed.

(* any history of previous lines, failing ones included *)
Theorem result_after_any_history (hist : list str) st input :
  snd (parse_markup_on (fold_left (fun s h => fst (parse_markup_on s h)) hist st) input) = parse_markup input.
Proof. apply parse_markup_on_is_pure. Qed.

(* ---------- C13, first stage: text without markup is returned as is (trimmed) ---------- *)
Definition plain_rune (c : N) : bool := negb (N.eqb c 91) && negb (N.eqb c 92).

Lemma main_loop_plain : forall t f r0 bld blen ms last,
  forallb plain_rune t = true -> length t < f ->
  main_loop f {| rest := t; sp := r0 |} bld blen ms last = Some (rev bld ++ t, ms).
Proof.
  induction t as [|c t IH]; intros f r0 bld blen ms last Hp Hf.
  - destruct f; [cbn in Hf; lia|]. cbn. rewrite app_nil_r. reflexivity.
  - destruct f; [cbn in Hf; lia|]. cbn [forallb] in Hp. apply andb_true_iff in Hp as [Hc Ht].
    unfold plain_rune in Hc. apply andb_true_iff in Hc as [H1 H2].
    apply negb_true_iff in H1, H2. cbn [main_loop rest]. rewrite H2, H1. cbn [andb].
    rewrite IH; [|exact Ht|cbn [length] in Hf; lia].
    cbn [rev]. rewrite <- app_assoc. reflexivity.
Qed.

Theorem plain_text_identity t : forallb plain_rune t = true ->
  forallb (fun c => negb (N.eqb c 58)) t = true ->
  parse_markup t = Some (trim_space t, []).
Proof.
  intros Hp Hc. unfold parse_markup. rewrite main_loop_plain by (auto; lia). cbn [rev app build_attrs sort_attrs fold_right existsb].
  assert (Hf : forall l i, forallb (fun c => negb (N.eqb c 58)) l = true -> find_colon l i = None).
  { induction l as [|c l IH]; intros i H; [reflexivity|]. cbn [forallb] in H. apply andb_true_iff in H as [H1 H2].
    cbn [find_colon]. apply negb_true_iff in H1. rewrite H1. apply IH. exact H2. }
  rewrite (Hf t 0%nat Hc). reflexivity.
Qed.
