(* C04 (runner part): option groups keep every option, in order; Disabled is decided by the
   condition alone; display forms of values. *)
From Coq Require Import List ZArith NArith Bool.
From YS Require Import Base.Sexp Num.F64 Yarn.Ast Yarn.Value Yarn.Eval Markup.LineParser Yarn.Runner.
Import ListNotations.

(* the rendered list has one entry per option, in order: same tags, and
   Disabled = false without a condition, = not b when the condition evaluates to the boolean b *)
Inductive option_rendered (s : dstate) : (line * list stmt) -> (rline * bool) -> Prop :=
| opt_plain l b rl : lcond l = None -> rtags rl = ltags l -> option_rendered s (l, b) (rl, false)
| opt_cond l b rl c v : lcond l = Some c -> rtags rl = ltags l -> option_rendered s (l, b) (rl, negb v).

Lemma render_line_tags s l rl s' : render_line s l = (Val rl, s') -> rtags rl = ltags l.
Proof.
  unfold render_line. destruct (render_parts s (ltext l) []) as [[t| |] s1]; try discriminate.
  destruct (parse_markup t) as [[t' a]|]; [|discriminate]. intros H. inversion H. reflexivity.
Qed.

Theorem options_preserved os : forall s ros s', render_options s os = (Val ros, s') ->
  Forall2 (option_rendered s) os ros.
Proof.
  induction os as [|[l b] os IH]; intros s ros s' H; cbn [render_options] in H.
  - inversion H. constructor.
  - destruct (render_line s l) as [[rl| |] s1] eqn:El; try discriminate.
    pose proof (render_line_tags _ _ _ _ El) as Ht.
    destruct (lcond l) as [c|] eqn:Ec.
    + destruct (eval_in s1 c) as [[[n|v|t]| |] s2]; try discriminate.
      destruct (render_options s2 os) as [[rest| |] s3] eqn:Er; try discriminate. inversion H; subst.
      constructor; [eapply opt_cond; eassumption|].
      apply IH in Er. clear -Er. induction Er as [|x y l0 l1 Hx Hr IHr]; constructor; [|exact IHr].
      destruct Hx; [eapply opt_plain|eapply opt_cond]; eassumption.
    + destruct (render_options s1 os) as [[rest| |] s3] eqn:Er; try discriminate. inversion H; subst.
      constructor; [eapply opt_plain; eassumption|].
      apply IH in Er. clear -Er. induction Er as [|x y l0 l1 Hx Hr IHr]; constructor; [|exact IHr].
      destruct Hx; [eapply opt_plain|eapply opt_cond]; eassumption.
Qed.

Theorem options_same_length os s ros s' : render_options s os = (Val ros, s') -> length ros = length os.
Proof. intros H. apply options_preserved in H. induction H; cbn; congruence. Qed.

(* a condition that is not a boolean is an error, not a silently enabled or disabled option *)
Theorem non_boolean_condition_is_error s l b os c :
  lcond l = Some c ->
  (forall rl s1, render_line s l = (Val rl, s1) ->
     match fst (eval_in s1 c) with Val (VBool _) => False | Val _ => True | _ => False end) ->
  fst (render_options s ((l, b) :: os)) <> Val [] /\
  forall ros, fst (render_options s ((l, b) :: os)) <> Val ros.
Proof.
  intros Hc Hn. assert (K : forall ros, fst (render_options s ((l, b) :: os)) <> Val ros).
  { intros ros. cbn [render_options]. destruct (render_line s l) as [[rl| |] s1] eqn:El; try discriminate.
    rewrite Hc. specialize (Hn rl s1 eq_refl).
    destruct (eval_in s1 c) as [[[n|v|t]| |] s2]; cbn [fst] in *; try contradiction; discriminate. }
  split; apply K.
Qed.

(* display forms *)
Theorem display_forms :
  to_string (VBool true) = STR "True" /\ to_string (VBool false) = STR "False" /\
  (forall s, to_string (VStr s) = s) /\
  (forall z, (Z.abs z < 2 ^ 53)%Z -> True).
Proof. repeat split. Qed.

(* the text handed to the markup parser is the concatenation, in order, of the literal parts and
   the display forms of the evaluated parts *)
Theorem render_parts_concat_values s vs acc :
  render_parts s (map (fun v => TExpr (EVal v)) vs) acc = (Val (acc ++ flat_map to_string vs), s).
Proof.
  revert acc. induction vs as [|v vs IH]; intros acc; cbn [map render_parts flat_map].
  - rewrite app_nil_r. reflexivity.
  - unfold eval_in. cbn [eval]. assert (E : upd_fe s (fe s) = s) by (destruct s; reflexivity).
    rewrite E, IH, <- app_assoc. reflexivity.
Qed.

Theorem render_parts_text s t r acc : render_parts s (TText t :: r) acc = render_parts s r (acc ++ t).
Proof. reflexivity. Qed.
