(* Indentation wrapper: the NextToken protocol (ring buffer, one base token pulled and one queued
   token returned per call) delivers exactly [wrap]; [wrap] is balanced, never over-closed, ends in a
   single EOF, is invariant under strictly monotone re-labelling of indentation widths, and blank /
   comment-only lines are transparent. *)
From Coq Require Import List NArith ZArith Arith Bool Lia.
From YS Require Import Base.Sexp Container.Queue Proofs.QueueProofs Syntax.Indent.
Import ListNotations.

(* ---------- list-level machine: pending tokens as a list ---------- *)
Record astate := { abase : list btok; apend : list tok; aind : list nat }.

Definition anext (s : astate) : option (tok * astate) :=
  let (h, rest) := match abase s with
                   | [] => (Some (handle_eof (aind s)), [])
                   | b :: r => (handle b (aind s), r)
                   end in
  match h with
  | None => None
  | Some (out, st') =>
      match apend s ++ out with
      | [] => None
      | t :: p => Some (t, {| abase := rest; apend := p; aind := st' |})
      end
  end.

Fixpoint apull (fuel : nat) (s : astate) : option (list tok) :=
  match fuel with
  | O => None
  | S f => match anext s with
           | Some (TEOF, _) => Some [TEOF]
           | Some (t, s') => option_map (cons t) (apull f s')
           | None => None
           end
  end.

(* ---------- refinement: ring buffer machine = list machine ---------- *)
Definition R (s : lstate) (a : astate) : Prop :=
  lbase s = abase a /\ Inv (pending s) /\ abs TEOF (pending s) = apend a /\ indents s = aind a /\
  empty_input s = false /\ hit_eof s = false.

Lemma enqueue_all_spec q ts :
  Inv q -> Inv (enqueue_all q ts) /\ abs TEOF (enqueue_all q ts) = abs TEOF q ++ ts.
Proof.
  revert q. induction ts as [|t ts IH]; intros q HI; simpl.
  - rewrite app_nil_r. auto.
  - destruct (enqueue_spec TEOF q t HI) as [HI' Ha]. destruct (IH _ HI') as [HI'' Ha'].
    split; [exact HI''|]. unfold enqueue_all in *. rewrite Ha', Ha, <- app_assoc. reflexivity.
Qed.

Lemma next_token_refines s a : R s a ->
  match anext a with
  | None => (fst (next_token s) = LPanic \/ fst (next_token s) = LNil)
  | Some (t, a') => exists s', next_token s = (LTok t, s') /\ R s' a'
  end.
Proof.
  intros (Hb & HI & Ha & Hi & He & Hh). unfold next_token, anext.
  rewrite Hh, He. cbn [andb]. rewrite <- Hb, <- Hi.
  set (h := match lbase s with [] => _ | _ => _ end).
  assert (Eh : h = match lbase s with
                   | [] => (Some (handle_eof (indents s)), [])
                   | b :: r => (handle b (indents s), r) end) by reflexivity.
  clearbody h. destruct h as [[ [out st'] |] rest].
  - destruct (enqueue_all_spec (pending s) out HI) as [HI' Ha'].
    cbn [pending].
    pose proof (size_abs TEOF _ HI') as Hs. rewrite Ha', Ha in Hs.
    pose proof (dequeue_spec TEOF _ HI') as Hd. rewrite Ha', Ha in Hd.
    destruct (apend a ++ out) as [|t p] eqn:Ep.
    + cbn [length] in Hs. rewrite Hs. cbn. right. reflexivity.
    + destruct Hd as (q' & Hd & HIq & Haq).
      replace (0 <? size (enqueue_all (pending s) out))%Z with true
        by (symmetry; apply Z.ltb_lt; rewrite Hs; cbn [length]; lia).
      rewrite Hd. eexists. split; [reflexivity|].
      repeat split; cbn; auto.
  - left. reflexivity.
Qed.

Lemma pull_refines fuel : forall s a, R s a -> pull fuel s = apull fuel a.
Proof.
  induction fuel as [|f IH]; intros s a HR; [reflexivity|].
  cbn [pull apull]. pose proof (next_token_refines s a HR) as H.
  destruct (anext a) as [[t a']|].
  - destruct H as (s' & Hn & HR'). rewrite Hn. destruct t; try (rewrite (IH _ _ HR'); reflexivity). reflexivity.
  - destruct (next_token s) as [r s']. cbn [fst] in H. destruct H as [H|H]; subst r; reflexivity.
Qed.

Lemma R_init ts : R (linit false ts) {| abase := ts; apend := []; aind := [] |}.
Proof. repeat split; try reflexivity. apply inv_empty. Qed.

(* ---------- the list machine delivers [wrap] ---------- *)
Fixpoint cut (l : list tok) : list tok :=
  match l with
  | [] => []
  | TEOF :: _ => [TEOF]
  | t :: r => t :: cut r
  end.

Definition no_eof (l : list tok) : Prop := ~ In TEOF l.

Lemma cut_app_in p q : In TEOF p -> cut (p ++ q) = cut p.
Proof.
  induction p as [|t p IH]; intros H; [destruct H|].
  destruct t; simpl; try reflexivity; f_equal; apply IH; destruct H as [H|H]; try discriminate; exact H.
Qed.

Lemma cut_no_eof p q : no_eof p -> cut (p ++ q) = p ++ cut q.
Proof.
  induction p as [|t p IH]; intros H; [reflexivity|].
  assert (Ht : t <> TEOF) by (intro E; apply H; left; exact E).
  assert (Hp : no_eof p) by (intro E; apply H; right; exact E).
  destruct t; simpl; try (f_equal; apply IH; exact Hp). contradiction.
Qed.

Lemma dedents_out cur st : forall out st', dedents cur st = (out, st') ->
  Forall (fun t => t = TDedent) out.
Proof.
  induction st as [|top rest IH]; intros out st' H; simpl in H.
  - inversion H. constructor.
  - destruct (cur <? top).
    + destruct (dedents cur rest) as [ts s2]. inversion H; subst. constructor; [reflexivity|]. eapply IH. reflexivity.
    + inversion H. constructor.
Qed.

Lemma forall_dedent_no_eof out : Forall (fun t => t = TDedent) out -> no_eof out.
Proof. intros H E. rewrite Forall_forall in H. apply H in E. discriminate. Qed.

Lemma handle_no_eof b st out st' : handle b st = Some (out, st') -> no_eof out /\ out <> [].
Proof.
  destruct b as [text skip|ty]; simpl.
  - destruct skip.
    + intros H; inversion H; subst. split; [intros [E|[]]; discriminate|discriminate].
    + destruct (nl_length text) as [cur|]; [|discriminate].
      destruct (on_newline cur st) as [o s2] eqn:Eo. intros H; inversion H; subst.
      split; [|discriminate]. intros [E|E]; [discriminate|].
      unfold on_newline in Eo. destruct (hd 0 st <? cur).
      * inversion Eo; subst. destruct E as [E|[]]; discriminate.
      * destruct (cur <? hd 0 st).
        -- apply dedents_out in Eo. apply (forall_dedent_no_eof _ Eo E).
        -- inversion Eo; subst. destruct E.
  - intros H; inversion H; subst. split; [intros [E|[]]; discriminate|discriminate].
Qed.

Lemma no_eof_app p q : no_eof p -> no_eof q -> no_eof (p ++ q).
Proof. intros Hp Hq E. apply in_app_or in E. destruct E; [apply Hp|apply Hq]; assumption. Qed.

Lemma map_dedent_no_eof (st : list nat) : no_eof (map (fun _ => TDedent) st).
Proof. intros E. apply in_map_iff in E. destruct E as (x & E & _). discriminate. Qed.

(* base exhausted: the queue drains in order up to its first EOF *)
Lemma apull_exhausted fuel : forall p st, In TEOF p -> length (cut p) <= fuel ->
  apull fuel {| abase := []; apend := p; aind := st |} = Some (cut p).
Proof.
  induction fuel as [|f IH]; intros p st Hin Hf.
  - destruct p as [|t p]; [destruct Hin|]. destruct t; simpl in Hf; lia.
  - destruct p as [|t p]; [destruct Hin|].
    cbn [apull anext abase apend aind handle_eof app].
    assert (Hcase : t = TEOF \/ (t <> TEOF /\ In TEOF p)).
    { destruct Hin as [E|Hin]; [left; auto|].
      destruct t; try (right; split; [discriminate|exact Hin]). left; reflexivity. }
    destruct Hcase as [->|[Ht Hin']]; [reflexivity|].
    assert (Hc : cut (t :: p) = t :: cut p) by (destruct t; try reflexivity; contradiction).
    rewrite Hc in *.
    rewrite IH; [ | apply in_or_app; left; exact Hin'
                  | rewrite cut_app_in by exact Hin'; simpl in Hf; lia].
    rewrite cut_app_in by exact Hin'. destruct t; try reflexivity; contradiction.
Qed.

Lemma wrap_shape ts : forall st w, wrap ts st = Some w -> exists pre, w = pre ++ [TEOF] /\ no_eof pre.
Proof.
  induction ts as [|b r IH]; intros st w H; cbn [wrap] in H.
  - inversion H; subst. eexists. split; [reflexivity|]. apply map_dedent_no_eof.
  - destruct (handle b st) as [[out st']|] eqn:Eh; [|discriminate].
    destruct (wrap r st') as [w'|] eqn:Ew; [|discriminate]. inversion H; subst.
    destruct (IH _ _ Ew) as (pre & -> & Hpre). exists (out ++ pre). rewrite app_assoc. split; [reflexivity|].
    apply no_eof_app; [apply (handle_no_eof _ _ _ _ Eh)|exact Hpre].
Qed.

Lemma cut_wrap ts st w p : wrap ts st = Some w -> no_eof p -> cut (p ++ w) = p ++ w.
Proof.
  intros H Hp. destruct (wrap_shape _ _ _ H) as (pre & -> & Hpre).
  rewrite app_assoc, cut_no_eof by (apply no_eof_app; assumption). reflexivity.
Qed.

Lemma apull_wrap ts : forall fuel p st w, wrap ts st = Some w -> no_eof p ->
  length (p ++ w) <= fuel ->
  apull fuel {| abase := ts; apend := p; aind := st |} = Some (p ++ w).
Proof.
  induction ts as [|b r IH]; intros fuel p st w Hw Hp Hf.
  - cbn [wrap] in Hw. inversion Hw; subst w. clear Hw.
    destruct fuel as [|f]; [rewrite app_length, app_length in Hf; simpl in Hf; lia|].
    cbn [apull anext abase apend aind]. cbn [handle_eof fst] in *.
    set (out := map (fun _ : nat => TDedent) st ++ [TEOF]) in *.
    assert (Hin : In TEOF (p ++ out)) by (apply in_or_app; right; apply in_or_app; right; left; reflexivity).
    assert (Hc : cut (p ++ out) = p ++ out).
    { unfold out. rewrite app_assoc, cut_no_eof; [reflexivity|].
      apply no_eof_app; [exact Hp|apply map_dedent_no_eof]. }
    destruct (p ++ out) as [|t q] eqn:E; [destruct Hin|].
    destruct t; try (cbn [cut] in Hc; inversion Hc as [Hc']; rewrite Hc';
      rewrite apull_exhausted;
      [rewrite Hc'; reflexivity
      | destruct Hin as [D|Hin]; [discriminate|exact Hin]
      | rewrite Hc'; simpl in Hf; lia]).
    cbn [cut] in Hc. inversion Hc. reflexivity.
  - cbn [wrap] in Hw. destruct (handle b st) as [[out st']|] eqn:Eh; [|discriminate].
    destruct (wrap r st') as [w'|] eqn:Ew; [|discriminate]. inversion Hw; subst w. clear Hw.
    destruct (handle_no_eof _ _ _ _ Eh) as [Ho Hne].
    destruct fuel as [|f]; [rewrite !app_length in Hf; destruct out; [contradiction|simpl in Hf; lia]|].
    cbn [apull anext abase apend aind]. rewrite Eh.
    assert (Hpo : no_eof (p ++ out)) by (apply no_eof_app; assumption).
    destruct (p ++ out) as [|t q] eqn:E.
    { apply app_eq_nil in E. destruct E; contradiction. }
    assert (Ht : t <> TEOF) by (intro D; apply Hpo; left; exact D).
    assert (Hq : no_eof q) by (intro D; apply Hpo; right; exact D).
    assert (Hl : length (q ++ w') <= f).
    { rewrite app_assoc, E in Hf. simpl in Hf. lia. }
    rewrite (IH f q st' w' Ew Hq Hl).
    rewrite app_assoc, E. destruct t; try reflexivity. contradiction.
Qed.

Lemma apull_panic ts : forall fuel p st, wrap ts st = None -> no_eof p ->
  apull fuel {| abase := ts; apend := p; aind := st |} = None.
Proof.
  induction ts as [|b r IH]; intros fuel p st Hw Hp; [discriminate|].
  destruct fuel as [|f]; [reflexivity|].
  cbn [wrap] in Hw. cbn [apull anext abase apend aind].
  destruct (handle b st) as [[out st']|] eqn:Eh; [|reflexivity].
  destruct (wrap r st') as [w'|] eqn:Ew; [discriminate|].
  destruct (handle_no_eof _ _ _ _ Eh) as [Ho Hne].
  assert (Hpo : no_eof (p ++ out)) by (apply no_eof_app; assumption).
  destruct (p ++ out) as [|t q] eqn:E; [reflexivity|].
  assert (Ht : t <> TEOF) by (intro D; apply Hpo; left; exact D).
  assert (Hq : no_eof q) by (intro D; apply Hpo; right; exact D).
  rewrite (IH f q st' Ew Hq). destruct t; try reflexivity. contradiction.
Qed.

(* ---------- the protocol theorem ---------- *)
Theorem pull_is_wrap ts w fuel : wrap ts [] = Some w -> length w <= fuel ->
  pull fuel (linit false ts) = Some w.
Proof.
  intros Hw Hf. rewrite (pull_refines fuel _ _ (R_init ts)).
  apply (apull_wrap ts fuel [] [] w Hw); [intros []|exact Hf].
Qed.

Theorem pull_panics_iff_wrap ts fuel : wrap ts [] = None -> pull fuel (linit false ts) = None.
Proof.
  intros Hw. rewrite (pull_refines fuel _ _ (R_init ts)). apply apull_panic; [exact Hw|intros []].
Qed.

Theorem pull_empty_input ts fuel : pull (S fuel) (linit true ts) = Some [TEOF].
Proof. reflexivity. Qed.

(* ---------- balance ---------- *)
Lemma count_app k a b : count k (a ++ b) = count k a + count k b.
Proof. unfold count. rewrite filter_app, app_length. reflexivity. Qed.

Lemma count_map_dedent (st : list nat) :
  count is_indent (map (fun _ => TDedent) st) = 0 /\ count is_dedent (map (fun _ => TDedent) st) = length st.
Proof. unfold count. induction st; simpl; [auto|]. destruct IHst. split; [assumption|lia]. Qed.

Lemma dedents_count cur st : forall out st', dedents cur st = (out, st') ->
  count is_indent out = 0 /\ count is_dedent out + length st' = length st.
Proof.
  induction st as [|top rest IH]; intros out st' H; simpl in H.
  - inversion H; subst. auto.
  - destruct (cur <? top).
    + destruct (dedents cur rest) as [ts s2] eqn:Ed. inversion H; subst.
      destruct (IH _ _ eq_refl) as [A B]. unfold count in *. simpl. split; [exact A|lia].
    + inversion H; subst. unfold count. simpl. auto.
Qed.

Lemma handle_count b st out st' : handle b st = Some (out, st') ->
  count is_indent out + length st = count is_dedent out + length st'.
Proof.
  destruct b as [text skip|ty]; simpl.
  - destruct skip; [intros H; inversion H; subst; reflexivity|].
    destruct (nl_length text) as [cur|]; [|discriminate].
    destruct (on_newline cur st) as [o s2] eqn:Eo. intros H; inversion H; subst. clear H.
    unfold on_newline in Eo. destruct (hd 0 st <? cur).
    + inversion Eo; subst. unfold count. simpl. lia.
    + destruct (cur <? hd 0 st).
      * destruct (dedents_count _ _ _ _ Eo) as [A B]. unfold count in *. simpl. lia.
      * inversion Eo; subst. reflexivity.
  - intros H; inversion H; subst. reflexivity.
Qed.

Theorem wrap_balanced ts : forall st w, wrap ts st = Some w ->
  count is_indent w + length st = count is_dedent w.
Proof.
  induction ts as [|b r IH]; intros st w H; cbn [wrap] in H.
  - inversion H; subst. cbn [handle_eof fst]. rewrite !count_app.
    destruct (count_map_dedent st) as [A B]. rewrite A, B. unfold count. simpl. lia.
  - destruct (handle b st) as [[out st']|] eqn:Eh; [|discriminate].
    destruct (wrap r st') as [w'|] eqn:Ew; [|discriminate]. inversion H; subst.
    rewrite !count_app. pose proof (IH _ _ Ew). pose proof (handle_count _ _ _ _ Eh). lia.
Qed.

Lemma never_overclosed_app a : forall depth b,
  (forall t, In t a -> t <> TIndent /\ t <> TDedent) ->
  never_overclosed depth (a ++ b) = never_overclosed depth b.
Proof.
  induction a as [|t a IH]; intros depth b H; [reflexivity|].
  destruct (H t (or_introl eq_refl)) as [H1 H2].
  assert (H' : forall t', In t' a -> t' <> TIndent /\ t' <> TDedent) by (intros; apply H; right; assumption).
  destruct t; simpl; try (apply IH; exact H'); contradiction.
Qed.

Lemma never_overclosed_dedents (n : nat) : forall depth b,
  n <= depth -> never_overclosed depth (repeat TDedent n ++ b) = never_overclosed (depth - n) b.
Proof.
  induction n as [|n IH]; intros depth b H; simpl; [rewrite Nat.sub_0_r; reflexivity|].
  destruct depth as [|dp]; [lia|]. rewrite IH by lia. reflexivity.
Qed.

Lemma map_dedent_repeat (st : list nat) : map (fun _ => TDedent) st = repeat TDedent (length st).
Proof. induction st; simpl; congruence. Qed.

Lemma dedents_repeat cur st : forall out st', dedents cur st = (out, st') ->
  out = repeat TDedent (length st - length st') /\ length st' <= length st.
Proof.
  induction st as [|top rest IH]; intros out st' H; simpl in H.
  - inversion H; subst. auto.
  - destruct (cur <? top).
    + destruct (dedents cur rest) as [ts s2] eqn:Ed. inversion H; subst.
      destruct (IH _ _ eq_refl) as [A B]. split; [|simpl; lia].
      simpl length. replace (S (length rest) - length st') with (S (length rest - length st')) by lia.
      simpl. f_equal. exact A.
    + inversion H; subst. rewrite Nat.sub_diag. auto.
Qed.

Theorem wrap_never_overclosed ts : forall st w, wrap ts st = Some w ->
  never_overclosed (length st) w = true.
Proof.
  induction ts as [|b r IH]; intros st w H; cbn [wrap] in H.
  - inversion H; subst. cbn [handle_eof fst]. rewrite map_dedent_repeat.
    rewrite never_overclosed_dedents by lia. reflexivity.
  - destruct (handle b st) as [[out st']|] eqn:Eh; [|discriminate].
    destruct (wrap r st') as [w'|] eqn:Ew; [|discriminate]. inversion H; subst. clear H.
    specialize (IH _ _ Ew).
    destruct b as [text skip|ty]; simpl in Eh.
    + destruct skip; [inversion Eh; subst; exact IH|].
      destruct (nl_length text) as [cur|]; [|discriminate].
      destruct (on_newline cur st) as [o s2] eqn:Eo. inversion Eh; subst. clear Eh.
      cbn [app never_overclosed]. unfold on_newline in Eo. destruct (hd 0 st <? cur).
      * inversion Eo; subst. exact IH.
      * destruct (cur <? hd 0 st).
        -- destruct (dedents_repeat _ _ _ _ Eo) as [-> Hle].
           rewrite never_overclosed_dedents by lia.
           replace (length st - (length st - length st')) with (length st') by lia. exact IH.
        -- inversion Eo; subst. exact IH.
    + inversion Eh; subst. exact IH.
Qed.

Theorem wrap_single_eof ts st w : wrap ts st = Some w ->
  exists pre, w = pre ++ [TEOF] /\ ~ In TEOF pre.
Proof. apply wrap_shape. Qed.

(* ---------- layout: order type of widths, blank lines ---------- *)
Section Relabel.
  Variable phi : nat -> nat.
  Hypothesis phi0 : phi 0 = 0.
  Hypothesis mono : forall a b, a < b <-> phi a < phi b.

  Lemma ltb_phi a b : (phi a <? phi b) = (a <? b).
  Proof.
    destruct (a <? b) eqn:E.
    - apply Nat.ltb_lt. apply (proj1 (mono a b)). apply Nat.ltb_lt. exact E.
    - apply Nat.ltb_ge. apply Nat.ltb_ge in E.
      destruct (Nat.lt_ge_cases (phi a) (phi b)) as [H|H]; [|exact H].
      apply (proj2 (mono a b)) in H. lia.
  Qed.

  Lemma dedents_phi cur st : dedents (phi cur) (map phi st) =
     (fst (dedents cur st), map phi (snd (dedents cur st))).
  Proof.
    induction st as [|top rest IH]; simpl; [reflexivity|].
    rewrite ltb_phi. destruct (cur <? top); [|reflexivity].
    rewrite IH. destruct (dedents cur rest). reflexivity.
  Qed.

  Lemma hd_phi st : hd 0 (map phi st) = phi (hd 0 st).
  Proof. destruct st; simpl; auto. Qed.

  Lemma on_newline_phi cur st : on_newline (phi cur) (map phi st) =
     (fst (on_newline cur st), map phi (snd (on_newline cur st))).
  Proof.
    unfold on_newline. rewrite hd_phi, !ltb_phi.
    destruct (hd 0 st <? cur); [reflexivity|].
    destruct (cur <? hd 0 st); [apply dedents_phi|reflexivity].
  Qed.

  (* two base streams related token by token: same tokens, newline widths re-labelled by phi *)
  Inductive rel_btok : btok -> btok -> Prop :=
  | rel_skip t1 t2 : rel_btok (BNL t1 true) (BNL t2 true)
  | rel_nl t1 t2 w : nl_length t1 = Some w -> nl_length t2 = Some (phi w) ->
                     rel_btok (BNL t1 false) (BNL t2 false)
  | rel_other ty : rel_btok (BOther ty) (BOther ty).

  Theorem wrap_order_type ts1 ts2 : Forall2 rel_btok ts1 ts2 ->
    forall st, wrap ts2 (map phi st) = wrap ts1 st.
  Proof.
    induction 1 as [|b1 b2 r1 r2 Hb Hr IH]; intros st.
    - cbn [wrap handle_eof fst]. rewrite map_map. reflexivity.
    - cbn [wrap]. destruct Hb as [t1 t2|t1 t2 w H1 H2|ty]; cbn [handle].
      + rewrite IH. reflexivity.
      + rewrite H1, H2, on_newline_phi. destruct (on_newline w st) as [o s2]. cbn [fst snd].
        rewrite IH. reflexivity.
      + rewrite IH. reflexivity.
  Qed.
End Relabel.

Definition visible (t : tok) : bool := match t with TNL => false | _ => true end.

(* a blank or comment-only line (skip = true) contributes only a NEWLINE token, which BodyMode
   sends to a hidden channel *)
Theorem skip_transparent pre : forall post st text,
  option_map (filter visible) (wrap (pre ++ BNL text true :: post) st) =
  option_map (filter visible) (wrap (pre ++ post) st).
Proof.
  induction pre as [|b r IH]; intros post st text.
  - cbn [app wrap handle]. destruct (wrap post st); reflexivity.
  - cbn [app wrap]. destruct (handle b st) as [[out st']|]; [|reflexivity].
    specialize (IH post st' text).
    destruct (wrap (r ++ BNL text true :: post) st'), (wrap (r ++ post) st'); cbn in *;
      try discriminate; try reflexivity.
    inversion IH as [E]. rewrite !filter_app, E. reflexivity.
Qed.

(* ---------- statements directly about the protocol ---------- *)
Lemma pull_mono fuel : forall s out k, pull fuel s = Some out -> pull (fuel + k) s = Some out.
Proof.
  induction fuel as [|f IH]; intros s out k H; [discriminate|].
  cbn [pull Nat.add] in *. destruct (next_token s) as [[t| |] s']; try discriminate.
  destruct t; try exact H;
    (destruct (pull f s') as [o|] eqn:E; [|discriminate]; rewrite (IH _ _ k E); exact H).
Qed.

Theorem pull_sound ts fuel out : pull fuel (linit false ts) = Some out -> wrap ts [] = Some out.
Proof.
  intros H. destruct (wrap ts []) as [w|] eqn:Ew.
  - pose proof (pull_mono _ _ _ (length w) H) as H1.
    rewrite (pull_is_wrap ts w (fuel + length w) Ew) in H1 by lia. exact H1.
  - rewrite (pull_panics_iff_wrap ts fuel Ew) in H. discriminate.
Qed.

Theorem token_stream_balanced ts fuel out : pull fuel (linit false ts) = Some out ->
  count is_indent out = count is_dedent out /\ never_overclosed 0 out = true /\
  exists pre, out = pre ++ [TEOF] /\ ~ In TEOF pre.
Proof.
  intros H. apply pull_sound in H. split; [|split].
  - pose proof (wrap_balanced ts [] out H). simpl in *. lia.
  - apply (wrap_never_overclosed ts [] out H).
  - apply (wrap_single_eof ts [] out H).
Qed.

(* the stream is produced (no nil token, no fuel problem) whenever no indentation mixes tabs and spaces *)
Definition clean_btok (b : btok) : Prop :=
  match b with BNL text false => nl_length text <> None | _ => True end.

Lemma wrap_total ts : Forall clean_btok ts -> forall st, wrap ts st <> None.
Proof.
  induction 1 as [|b r Hb Hr IH]; intros st; cbn [wrap]; [discriminate|].
  destruct b as [text skip|ty]; cbn [handle].
  - destruct skip.
    + specialize (IH st). destruct (wrap r st); [discriminate|contradiction].
    + simpl in Hb. destruct (nl_length text) as [cur|]; [|contradiction].
      destruct (on_newline cur st) as [o s2]. specialize (IH s2).
      destruct (wrap r s2); [discriminate|contradiction].
  - specialize (IH st). destruct (wrap r st); [discriminate|contradiction].
Qed.

Theorem token_stream_total ts : Forall clean_btok ts ->
  exists out, wrap ts [] = Some out /\ forall fuel, length out <= fuel -> pull fuel (linit false ts) = Some out.
Proof.
  intros H. destruct (wrap ts []) as [w|] eqn:E; [|exfalso; apply (wrap_total ts H [] E)].
  exists w. split; [reflexivity|]. intros fuel Hf. apply pull_is_wrap; assumption.
Qed.
