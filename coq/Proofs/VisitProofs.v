(* C11: visited_count(n) = (count at the last restore) + number of successful jumps since then that
   left n, for tracked nodes; untracked nodes and non-nodes never change; visited = count > 0. *)
From Coq Require Import List ZArith NArith Bool Lia.
From YS Require Import Base.Sexp Num.F64 Yarn.Ast Yarn.Value Yarn.Eval Markup.LineParser Yarn.Runner
     Proofs.AListProofs Proofs.RunnerInv.
Import ListNotations.
Local Open Scope Z_scope.

Definition vget (m : alist Z) (n : str) : Z := match aget m n with Some c => c | None => 0 end.

Fixpoint count_left (n : str) (jl : list str) : Z :=
  match jl with
  | [] => 0
  | x :: r => (if str_eqb x n then 1 else 0) + count_left n r
  end.

(* the specification of the counter *)
Definition visit_spec (d : dialogue) (s : dstate) (n : str) : Z :=
  vget (vbase s) n + (if tracked d n then count_left n (jlog s) else 0).

Definition VInv (d : dialogue) (s : dstate) : Prop := forall n, vget (visits s) n = visit_spec d s n.

Lemma vget_bump m k n : vget (bump m k) n = vget m n + (if str_eqb k n then 1 else 0).
Proof.
  unfold vget, bump. rewrite aget_aset. destruct (str_eqb k n) eqn:E.
  - apply str_eqb_eq in E. subst. destruct (aget m n); lia.
  - lia.
Qed.

Lemma tracked_eqb d a b : str_eqb a b = true -> tracked d a = tracked d b.
Proof. intros E. apply str_eqb_eq in E. subst. reflexivity. Qed.

Lemma vinv_frame d s s' : visits s' = visits s -> vbase s' = vbase s -> jlog s' = jlog s ->
  VInv d s -> VInv d s'.
Proof. intros Hv Hb Hj H n. unfold visit_spec. rewrite Hv, Hb, Hj. apply H. Qed.

Lemma vinv_same_but_fe d s s' : same_but_fe s s' -> VInv d s -> VInv d s'.
Proof. intros (_ & _ & _ & _ & Hv & _ & _ & _ & Hj & Hb). apply vinv_frame; assumption. Qed.

Lemma exec_set_vframe x op e s :
  visits (snd (exec_set x op e s)) = visits s /\ vbase (snd (exec_set x op e s)) = vbase s /\
  jlog (snd (exec_set x op e s)) = jlog s /\ cur (snd (exec_set x op e s)) = cur s.
Proof.
  unfold exec_set. pose proof (eval_in_frame s e) as (_ & _ & _ & Hc & Hv & _ & _ & _ & Hj & Hb).
  destruct (eval_in s e) as [[v| |] s1]; cbn [snd] in *; try (repeat split; assumption).
  destruct (negb _); [repeat split; assumption|].
  destruct v; [|destruct op|destruct op]; cbn [snd upd_vars visits vbase jlog cur]; repeat split; assumption.
Qed.

Ltac break_matches :=
  repeat match goal with
         | |- context [match ?x with _ => _ end] => destruct x
         | |- context [if ?x then _ else _] => destruct x
         end.

Lemma exec_command_vframe es s :
  visits (snd (exec_command es s)) = visits s /\ vbase (snd (exec_command es s)) = vbase s /\
  jlog (snd (exec_command es s)) = jlog s /\ cur (snd (exec_command es s)) = cur s.
Proof. unfold exec_command. break_matches; cbn; repeat split. Qed.

Lemma poll_vframe s :
  visits (snd (poll s)) = visits s /\ vbase (snd (poll s)) = vbase s /\
  jlog (snd (poll s)) = jlog s /\ cur (snd (poll s)) = cur s.
Proof. unfold poll. destruct (pending s) as [[[|n] [|]]|]; repeat split. Qed.

(* the only statement that changes the counters: a successful jump counts the node being left *)
Lemma exec_jump_vinv d e s : VInv d s -> VInv d (snd (exec_jump d e s)).
Proof.
  intros H. unfold exec_jump.
  pose proof (eval_in_frame s e) as F. pose proof (vinv_same_but_fe d _ _ F H) as H1.
  destruct F as (_ & _ & _ & Hc & _).
  destruct (eval_in s e) as [[v| |] s1]; cbn [snd] in *; try exact H1.
  destruct v as [n0|b0|t]; try exact H1.
  destruct (find_node d t) as [nd|]; [|exact H1].
  cbn [snd]. intros n. unfold visit_spec. cbn [visits vbase jlog count_left].
  specialize (H1 n). unfold visit_spec in H1.
  destruct (tracked d (cur s1)) eqn:Et.
  - rewrite vget_bump, H1. destruct (str_eqb (cur s1) n) eqn:E.
    + rewrite <- (tracked_eqb d _ _ E), Et. lia.
    + destruct (tracked d n); lia.
  - rewrite H1. destruct (str_eqb (cur s1) n) eqn:E.
    + rewrite <- (tracked_eqb d _ _ E), Et. lia.
    + destruct (tracked d n); lia.
Qed.

(* every call of Next keeps the invariant *)
Theorem next_vinv d fm m c : VInv d (dat m) -> VInv d (dat (snd (next d fm m c))).
Proof.
  apply (next_preserves d (VInv d)).
  - intros s H. destruct (poll_vframe s) as (A & B & C & _). apply (vinv_frame d s); assumption.
  - intros s l. apply vinv_same_but_fe, render_line_frame.
  - intros s os. apply vinv_same_but_fe, render_options_frame.
  - intros x op e s H. destruct (exec_set_vframe x op e s) as (A & B & C & _). apply (vinv_frame d s); assumption.
  - intros e s. apply exec_jump_vinv.
  - intros cs s. apply vinv_same_but_fe, exec_if_frame.
  - intros es s H. destruct (exec_command_vframe es s) as (A & B & C & _). apply (vinv_frame d s); assumption.
  - intros f a s. apply vinv_same_but_fe, exec_call_frame.
Qed.

Lemma new_runner_vinv d init stream sc cmds m :
  new_runner d init stream sc cmds = Some m -> VInv d (dat m).
Proof.
  unfold new_runner. destruct d as [|n rest]; [discriminate|]. intros H. inversion H; subst.
  intros k. unfold visit_spec. cbn. destruct (tracked (n :: rest) k); reflexivity.
Qed.

Lemma restore_vinv d m sn m' : restore_at d m sn = (true, m') -> VInv d (dat m').
Proof.
  unfold restore_at. destruct (find_node d (snode sn)) as [nd|]; [|discriminate].
  intros H. inversion H; subst. intros k. unfold visit_spec. cbn.
  destruct (tracked d k); lia.
Qed.

Lemma restore_fail_unchanged d m sn m' : restore_at d m sn = (false, m') -> m' = m.
Proof.
  unfold restore_at. destruct (find_node d (snode sn)); [discriminate|]. intros H. inversion H. reflexivity.
Qed.

(* histories: any interleaving of Next calls and restores *)
Inductive hop := HNext (c : Z) | HRestore (sn : snapshot).

Definition hstep (d : dialogue) (fuel : nat) (m : rstate) (o : hop) : rstate :=
  match o with
  | HNext c => snd (next d fuel m c)
  | HRestore sn => snd (restore_at d m sn)
  end.

Theorem history_vinv d fuel : forall ops m, VInv d (dat m) -> VInv d (dat (fold_left (hstep d fuel) ops m)).
Proof.
  induction ops as [|o ops IH]; intros m H; [exact H|].
  cbn [fold_left]. apply IH. destruct o as [c|sn]; cbn [hstep].
  - apply next_vinv. exact H.
  - destruct (restore_at d m sn) as [[|] m'] eqn:E; cbn [snd].
    + apply (restore_vinv d m sn m' E).
    + rewrite (restore_fail_unchanged d m sn m' E). exact H.
Qed.

(* what the script reads *)
Lemma visited_count_reads v n e :
  call_builtin v (STR "visited_count") [VStr n] e = Some (Val (Some (VNum (of_Z (vget (rvisits v) n)))), e).
Proof. reflexivity. Qed.

Lemma visited_iff_positive v n e :
  call_builtin v (STR "visited") [VStr n] e = Some (Val (Some (VBool (0 <? vget (rvisits v) n))), e).
Proof. unfold vget. cbn. destruct (aget (rvisits v) n); reflexivity. Qed.

(* consequences *)
Lemma count_left_nonneg n jl : 0 <= count_left n jl.
Proof. induction jl as [|x r IH]; cbn [count_left]; [lia|]. destruct (str_eqb x n); lia. Qed.

Theorem untracked_never_counts d s n : VInv d s -> tracked d n = false -> vget (visits s) n = vget (vbase s) n.
Proof. intros H Ht. rewrite (H n). unfold visit_spec. rewrite Ht. lia. Qed.

Theorem non_node_never_counts d s n : VInv d s -> find_node d n = None -> vget (visits s) n = vget (vbase s) n.
Proof. intros H Hf. apply (untracked_never_counts d s n H). unfold tracked. rewrite Hf. reflexivity. Qed.

(* counts never decrease within one call of Next (hence between restores) *)
Definition extends (s s' : dstate) : Prop := vbase s' = vbase s /\ exists pre, jlog s' = pre ++ jlog s.

Lemma extends_refl s : extends s s.
Proof. split; [reflexivity|exists []; reflexivity]. Qed.

Lemma extends_frame s0 s s' : vbase s' = vbase s -> jlog s' = jlog s -> extends s0 s -> extends s0 s'.
Proof. intros Hb Hj [A [pre B]]. split; [congruence|exists pre; congruence]. Qed.

Lemma extends_same_but_fe s0 s s' : same_but_fe s s' -> extends s0 s -> extends s0 s'.
Proof. intros (_ & _ & _ & _ & _ & _ & _ & _ & Hj & Hb). apply extends_frame; assumption. Qed.

Theorem next_extends d fm m c : extends (dat m) (dat (snd (next d fm m c))).
Proof.
  apply (next_preserves d (extends (dat m))); [..|apply extends_refl].
  - intros s H. destruct (poll_vframe s) as (_ & B & C & _). apply (extends_frame _ s); assumption.
  - intros s l. apply extends_same_but_fe, render_line_frame.
  - intros s os. apply extends_same_but_fe, render_options_frame.
  - intros x op e s H. destruct (exec_set_vframe x op e s) as (_ & B & C & _). apply (extends_frame _ s); assumption.
  - intros e s [A [pre B]]. unfold exec_jump.
    pose proof (eval_in_frame s e) as (_ & _ & _ & _ & _ & _ & _ & _ & Hj & Hb).
    assert (K : extends (dat m) (snd (eval_in s e))) by (split; [congruence|exists pre; congruence]).
    destruct (eval_in s e) as [[v| |] s1]; cbn [snd] in *; try exact K.
    destruct v as [n0|b0|t]; cbn [snd]; try exact K.
    destruct (find_node d t) as [nd|]; cbn [snd]; [|exact K].
    split; cbn [vbase jlog]; [congruence|]. exists (cur s1 :: pre). rewrite Hj, B. reflexivity.
  - intros cs s. apply extends_same_but_fe, exec_if_frame.
  - intros es s H. destruct (exec_command_vframe es s) as (_ & B & C & _). apply (extends_frame _ s); assumption.
  - intros f a s. apply extends_same_but_fe, exec_call_frame.
Qed.

Lemma count_left_app n a b : count_left n (a ++ b) = count_left n a + count_left n b.
Proof. induction a as [|x r IH]; cbn [app count_left]; [lia|]. rewrite IH. lia. Qed.

Theorem counts_monotone d fm m c n : VInv d (dat m) ->
  vget (visits (dat m)) n <= vget (visits (dat (snd (next d fm m c)))) n.
Proof.
  intros H. pose proof (next_vinv d fm m c H n) as H'. rewrite H', (H n).
  destruct (next_extends d fm m c) as [Hb [pre Hj]]. unfold visit_spec. rewrite Hb, Hj.
  destruct (tracked d n); [|lia]. rewrite count_left_app. pose proof (count_left_nonneg n pre). lia.
Qed.
