(* The fuel of the expression parser model.  Proofs/ExprParserProofs.v shows that every written form
   is read back "for all sufficient fuel"; here the same induction is carried out with the amount made
   explicit: fuel 2 * (number of tokens) + 1 suffices - so parse_expression, which the statement parser
   calls with 4 * tokens + 4, reads every written form back. *)
From Coq Require Import List Arith Bool Lia.
From YS Require Import Base.Sexp Num.F64 Yarn.Ast Generated.ExprTable Syntax.ExprParser Proofs.ExprParserProofs.
Import ListNotations.

Section Fuel.
  Variables (lvl rprec : binop -> nat) (negp notp : nat).
  Notation PE := (parse_expr lvl rprec negp notp).
  Notation PP := (parse_primary lvl rprec negp notp).
  Notation PL := (parse_loop lvl rprec negp notp).
  Notation PA := (parse_args lvl rprec negp notp).
  Notation Prints := (Prints lvl rprec negp notp).
  Notation PrintsArgs := (PrintsArgs lvl rprec negp notp).
  Notation PrintsMore := (PrintsMore lvl rprec negp notp).

  (* with fuel b or more *)
  Definition evb {A} (b : nat) (g : nat -> option A) (x : A) : Prop := forall f, b <= f -> g f = Some x.

  Lemma evb_mono {A} b b' (g : nat -> option A) x : b <= b' -> evb b g x -> evb b' g x.
  Proof. intros H E f Hf. apply E. lia. Qed.

  Lemma evb_PE p ts lhs r res b1 b2 :
    evb b1 (fun f => PP f ts) (lhs, r) -> evb b2 (fun f => PL f p lhs r) res -> evb (S (Nat.max b1 b2)) (fun f => PE f p ts) res.
  Proof. intros H1 H2 f Hf. destruct f as [|f]; [lia|]. cbn [parse_expr]. rewrite H1 by lia. apply H2. lia. Qed.

  Lemma evb_PP_paren r e r2 b : evb b (fun f => PE f 0 r) (e, TRP :: r2) -> evb (S b) (fun f => PP f (TLP :: r)) (e, r2).
  Proof. intros H f Hf. destruct f as [|f]; [lia|]. cbn [parse_primary]. rewrite H by lia. reflexivity. Qed.
  Lemma evb_PP_neg r e r2 b : evb b (fun f => PE f negp r) (e, r2) -> evb (S b) (fun f => PP f (TOp OSub :: r)) (ENeg e, r2).
  Proof. intros H f Hf. destruct f as [|f]; [lia|]. cbn [parse_primary]. rewrite H by lia. reflexivity. Qed.
  Lemma evb_PP_not r e r2 b : evb b (fun f => PE f notp r) (e, r2) -> evb (S b) (fun f => PP f (TNot :: r)) (ENot e, r2).
  Proof. intros H f Hf. destruct f as [|f]; [lia|]. cbn [parse_primary]. rewrite H by lia. reflexivity. Qed.
  Lemma evb_PP_atom a r : evb 1 (fun f => PP f (TAtom a :: r)) (expr_of_atom a, r).
  Proof. intros f Hf. destruct f as [|f]; [lia|]. reflexivity. Qed.
  Lemma evb_PP_call fn r args r2 b :
    evb b (fun f => PA f true r) (args, r2) -> evb (S b) (fun f => PP f (TFunc fn :: TLP :: r)) (ECall fn args, r2).
  Proof. intros H f Hf. destruct f as [|f]; [lia|]. cbn [parse_primary]. rewrite H by lia. reflexivity. Qed.

  Lemma evb_PL_stop p lhs ts : stops lvl p ts -> evb 1 (fun f => PL f p lhs ts) (lhs, ts).
  Proof.
    intros H f Hf. destruct f as [|f]; [lia|]. cbn [parse_loop].
    destruct ts as [|t r]; [reflexivity|]. destruct t; try reflexivity.
    cbn [stops] in H. destruct (Nat.leb_spec p (lvl o)); [lia|reflexivity].
  Qed.

  Lemma evb_PL_step p lhs o r rhs r2 res b1 b2 :
    p <= lvl o -> evb b1 (fun f => PE f (rprec o) r) (rhs, r2) -> evb b2 (fun f => PL f p (EBin o lhs rhs) r2) res ->
    evb (S (Nat.max b1 b2)) (fun f => PL f p lhs (TOp o :: r)) res.
  Proof.
    intros Hp H1 H2 f Hf. destruct f as [|f]; [lia|].
    cbn [parse_loop]. destruct (Nat.leb_spec p (lvl o)); [|lia]. rewrite H1 by lia. apply H2. lia.
  Qed.

  Lemma evb_PA_close b r : evb 1 (fun f => PA f b (TRP :: r)) ([], r).
  Proof. intros f Hf. destruct f as [|f]; [lia|]. reflexivity. Qed.

  Lemma evb_PA_comma b r e r2 es r3 b1 b2 :
    evb b1 (fun f => PE f 0 r) (e, r2) -> evb b2 (fun f => PA f false r2) (es, r3) ->
    evb (S (Nat.max b1 b2)) (fun f => PA f b (TComma :: r)) (e :: es, r3).
  Proof.
    intros H1 H2 f Hf. destruct f as [|f]; [lia|]. cbn [parse_args]. rewrite H1 by lia. rewrite H2 by lia. reflexivity.
  Qed.

  Lemma evb_PA_first t r e r2 es r3 b1 b2 :
    starts_expr t -> evb b1 (fun f => PE f 0 (t :: r)) (e, r2) -> evb b2 (fun f => PA f false r2) (es, r3) ->
    evb (S (Nat.max b1 b2)) (fun f => PA f true (t :: r)) (e :: es, r3).
  Proof.
    intros [Ht1 Ht2] H1 H2 f Hf. destruct f as [|f]; [lia|].
    cbn [parse_args]. destruct t; try congruence; rewrite H1 by lia; rewrite H2 by lia; reflexivity.
  Qed.

  Hypothesis WF : wf_table lvl rprec negp notp.

  (* reading a written form costs two units of fuel per token on top of what the continuation needs *)
  Theorem prints_parse_fuel :
    (forall q e ts k, Prints q e ts k ->
       forall p rest res b, p <= q -> follow_ok lvl k rest -> 1 <= b ->
         evb b (fun f => PL f p e rest) res -> evb (b + 2 * length ts) (fun f => PE f p (ts ++ rest)) res) /\
    (forall es tss, PrintsArgs es tss ->
       forall rest, evb (2 + 2 * length tss) (fun f => PA f true (tss ++ TRP :: rest)) (es, rest)) /\
    (forall es tss, PrintsMore es tss ->
       forall rest, evb (2 + 2 * length tss) (fun f => PA f false (tss ++ TRP :: rest)) (es, rest)).
  Proof.
    destruct WF as (Hr' & Hn & Ht).
    assert (Hr : forall o, lvl o < rprec o) by (intros o; rewrite Hr'; lia).
    apply Prints_all.
    - (* atom *) intros q a p rest res b _ _ Hb HL. cbn [app length].
      eapply evb_mono; [|eapply evb_PE; [apply evb_PP_atom|exact HL]]. lia.
    - (* parentheses *) intros q e ts k _ IH p rest res b _ _ Hb HL.
      cbn [app]. rewrite <- app_assoc. cbn [app].
      eapply evb_mono; [|eapply evb_PE; [|exact HL]].
      2:{ apply evb_PP_paren. apply (IH 0 (TRP :: rest) (e, TRP :: rest) 1); [lia|destruct k; exact I|lia|]. apply evb_PL_stop. exact I. }
      cbn [length]. rewrite app_length. cbn [length]. lia.
    - (* unary minus *) intros q e ts k HP IH p rest res b _ _ Hb HL. cbn [app].
      eapply evb_mono; [|eapply evb_PE; [|exact HL]].
      2:{ apply evb_PP_neg. apply (IH negp rest (e, rest) 1); [lia| |lia|].
          + destruct k as [k|]; [|exact I]. apply prints_bare in HP. destruct HP as (o & -> & Hle). specialize (Hn o).
            destruct rest as [|[] ?]; cbn; auto. lia.
          + apply evb_PL_stop. destruct rest as [|[] ?]; cbn; auto. }
      cbn [length]. lia.
    - (* not *) intros q e ts k HP IH p rest res b _ _ Hb HL. cbn [app].
      eapply evb_mono; [|eapply evb_PE; [|exact HL]].
      2:{ apply evb_PP_not. apply (IH notp rest (e, rest) 1); [lia| |lia|].
          + destruct k as [k|]; [|exact I]. apply prints_bare in HP. destruct HP as (o & -> & Hle). specialize (Ht o).
            destruct rest as [|[] ?]; cbn; auto. lia.
          + apply evb_PL_stop. destruct rest as [|[] ?]; cbn; auto. }
      cbn [length]. lia.
    - (* call *) intros q fn args tss _ IH p rest res b _ _ Hb HL.
      cbn [app]. rewrite <- app_assoc. cbn [app].
      eapply evb_mono; [|eapply evb_PE; [|exact HL]].
      2:{ apply evb_PP_call. apply IH. }
      cbn [length]. rewrite app_length. cbn [length]. lia.
    - (* binary operation *) intros q o l r tl tr kl kr Hq HPl IHl HPr IHr p rest res b Hp Hf Hb HL.
      rewrite <- app_assoc. cbn [app].
      eapply evb_mono; [|apply (IHl p (TOp o :: tr ++ rest) res (S (Nat.max (1 + 2 * length tr) b))); [lia| |lia|]].
      + rewrite app_length. cbn [length]. lia.
      + destruct kl as [kl|]; [|exact I]. cbn. apply prints_bare in HPl. destruct HPl as (o' & -> & Hle). exact Hle.
      + eapply evb_PL_step; [lia| |exact HL].
        apply (IHr (rprec o) rest (r, rest) 1); [lia| |lia|].
        * destruct kr as [kr|]; [|exact I]. destruct rest as [|[] ?]; try exact I. cbn. cbn in Hf.
          apply prints_bare in HPr. destruct HPr as (o' & -> & Hle). specialize (Hr o). lia.
        * apply evb_PL_stop. destruct rest as [|[] ?]; cbn; auto. cbn in Hf. specialize (Hr o). lia.
    - (* no arguments *) intros rest. cbn [app length]. eapply evb_mono; [|apply evb_PA_close]. lia.
    - (* first argument *) intros e ts k es tss HP IH HM IHm rest.
      destruct (prints_head _ _ _ _ _ _ _ _ HP) as (t & r0 & -> & Hst).
      rewrite <- app_assoc. cbn [app].
      eapply evb_mono; [|eapply evb_PA_first; [exact Hst| |apply IHm]].
      2:{ change (t :: r0 ++ tss ++ TRP :: rest) with ((t :: r0) ++ (tss ++ TRP :: rest)).
          apply (IH 0 (tss ++ TRP :: rest) (e, tss ++ TRP :: rest) 1); [lia| |lia|].
          + destruct k; [|exact I]. inversion HM; cbn; auto.
          + apply evb_PL_stop. inversion HM; cbn; auto. }
      cbn [length]. rewrite ?app_length. cbn [length]. lia.
    - (* no further argument *) intros rest. cbn [app length]. eapply evb_mono; [|apply evb_PA_close]. lia.
    - (* further argument *) intros e ts k es tss _ IH HM IHm rest.
      cbn [app]. rewrite <- app_assoc.
      eapply evb_mono; [|eapply evb_PA_comma; [|apply IHm]].
      2:{ apply (IH 0 (tss ++ TRP :: rest) (e, tss ++ TRP :: rest) 1); [lia| |lia|].
          + destruct k; [|exact I]. inversion HM; cbn; auto.
          + apply evb_PL_stop. inversion HM; cbn; auto. }
      cbn [length]. rewrite ?app_length. cbn [length]. lia.
  Qed.

  Theorem prints_parse_with_fuel e ts k fuel :
    Prints 0 e ts k -> 1 + 2 * length ts <= fuel -> PE fuel 0 ts = Some (e, []).
  Proof.
    intros H Hf. rewrite <- (app_nil_r ts).
    apply (proj1 prints_parse_fuel 0 e ts k H 0 [] (e, []) 1); [lia|destruct k; exact I|lia| |lia].
    apply evb_PL_stop. exact I.
  Qed.
End Fuel.

(* the model's own fuel suffices: every written form is read back by parse_expression *)
Theorem written_expression_parses e ts k :
  Prints level right_prec neg_operand_prec not_operand_prec 0 e ts k -> parse_expression ts = Some e.
Proof.
  intros H. unfold parse_expression, ys_parse_expr.
  rewrite (prints_parse_with_fuel _ _ _ _ generated_table_wf e ts k _ H); [reflexivity|lia].
Qed.
