(* The runner's continuation stack machine (Yarn/Runner.v: next) refines the flat-continuation
   semantics (Spec/FlowSpec.v: snext), for every dialogue, state, choice and fuel; the end of the
   dialogue is absorbing; the argument of Next is irrelevant unless an option group is waiting. *)
From Coq Require Import List ZArith NArith Bool Lia.
From YS Require Import Base.Sexp Num.F64 Yarn.Ast Yarn.Value Yarn.Eval Markup.LineParser Yarn.Runner
     Spec.FlowSpec.
Import ListNotations.

Ltac inv H := inversion H; subst; clear H.

(* ---------- the pending-command cell is only touched by poll and by command dispatch ---------- *)
Lemma eval_in_pending s x : pending (snd (eval_in s x)) = pending s.
Proof. unfold eval_in. destruct (eval (renv_of s) x (fe s)). reflexivity. Qed.

Lemma render_parts_pending ps : forall s acc, pending (snd (render_parts s ps acc)) = pending s.
Proof.
  induction ps as [|p ps IH]; intros s acc; cbn [render_parts]; [reflexivity|].
  destruct p as [t|x]; [apply IH|].
  pose proof (eval_in_pending s x) as E. destruct (eval_in s x) as [[v| |] s1]; cbn [snd] in *;
    try exact E. rewrite IH. exact E.
Qed.

Lemma render_line_pending s l : pending (snd (render_line s l)) = pending s.
Proof.
  unfold render_line. pose proof (render_parts_pending (ltext l) s []) as E.
  destruct (render_parts s (ltext l) []) as [[t| |] s1]; cbn [snd] in *.
  - destruct (parse_markup t) as [[t' a]|]; exact E.
  - exact E.
  - exact E.
Qed.

Lemma render_options_pending os : forall s, pending (snd (render_options s os)) = pending s.
Proof.
  induction os as [|[l b] os IH]; intros s; cbn [render_options]; [reflexivity|].
  pose proof (render_line_pending s l) as E.
  destruct (render_line s l) as [[rl| |] s1]; cbn [snd] in *; try exact E.
  destruct (lcond l) as [c|].
  - pose proof (eval_in_pending s1 c) as E2.
    destruct (eval_in s1 c) as [[v| |] s2]; cbn [snd] in *; try congruence.
    destruct v; cbn [snd]; try congruence.
    specialize (IH s2). destruct (render_options s2 os) as [[r| |] s3]; cbn [snd] in *; congruence.
  - specialize (IH s1). destruct (render_options s1 os) as [[r| |] s3]; cbn [snd] in *; congruence.
Qed.

Lemma exec_set_pending x op e s : pending (snd (exec_set x op e s)) = pending s.
Proof.
  unfold exec_set. pose proof (eval_in_pending s e) as E.
  destruct (eval_in s e) as [[v| |] s1]; cbn [snd] in *; try exact E.
  destruct (negb _); [exact E|].
  destruct v; [|destruct op|destruct op]; exact E.
Qed.

Lemma exec_jump_pending d e s : pending (snd (exec_jump d e s)) = pending s.
Proof.
  unfold exec_jump. pose proof (eval_in_pending s e) as E.
  destruct (eval_in s e) as [[v| |] s1]; cbn [snd] in *; try exact E.
  destruct v; try exact E. destruct (find_node d s0); exact E.
Qed.

Lemma exec_if_pending cs : forall s, pending (snd (exec_if cs s)) = pending s.
Proof.
  induction cs as [|[c b] cs IH]; intros s; cbn [exec_if]; [reflexivity|].
  pose proof (eval_in_pending s c) as E.
  destruct (eval_in s c) as [[v| |] s1]; cbn [snd] in *; try exact E.
  destruct v as [n|[|]|t]; cbn [snd]; try exact E. rewrite IH. exact E.
Qed.

Lemma exec_call_pending f args s : pending (snd (exec_call f args s)) = pending s.
Proof.
  unfold exec_call. destruct (eval_list (renv_of s) args (fe s)) as [[vs| |] e1]; try reflexivity.
  destruct (call_function (renv_of s) f vs e1). reflexivity.
Qed.

(* a command that lets the dialogue continue (done or stop) leaves no pending cell behind *)
Lemma exec_command_pending es s r s3 : pending s = None -> exec_command es s = (r, s3) ->
  r <> CmdWait -> pending s3 = None.
Proof.
  intros Hp H Hr. unfold exec_command in H. destruct es as [|e0 es']; [inv H; exact Hp|].
  destruct (eval_list (renv_of s) (e0 :: es') (fe s)) as [[vs| |] e1]; try (inv H; exact Hp).
  destruct vs as [|[n|b|name] args]; try (inv H; exact Hp).
  destruct (str_eqb name (STR "stop")); [inv H; exact Hp|].
  destruct (mem_str name (hcmds (upd_fe s e1))).
  - destruct (sched (upd_fe s e1)) as [|[polls r0] rest]; cbn [tl] in H.
    + inv H. reflexivity.
    + destruct polls as [|k0]; [destruct r0; inv H; reflexivity|]. inv H. contradiction.
  - destruct (str_eqb name (STR "wait")); [|inv H; exact Hp].
    destruct args as [|[n| |] [|]]; inv H; try exact Hp. contradiction.
Qed.

Lemma poll_none s : pending s = None -> poll s = (None, s).
Proof. intros H. unfold poll. rewrite H. reflexivity. Qed.

Lemma poll_idem s s0 : poll s = (None, s0) -> pending s0 = None.
Proof.
  unfold poll. destruct (pending s) as [[[|n] [|]]|] eqn:E; intros H; inv H; try reflexivity. exact E.
Qed.

(* ---------- refinement ---------- *)
Definition R (m : rstate) (s : sstate) : Prop :=
  concat (stack m) = k s /\ last_opts m = waiting s /\ dat m = sdat s.

Lemma R_mk st lo ds : R (mk st lo ds) (smk (concat st) lo ds).
Proof. repeat split. Qed.

Lemma chosen_none c : chosen_body None c = Some [].
Proof. reflexivity. Qed.

(* once the choice is consumed (or selects an empty body) the machine follows srun on the
   flattened stack *)
Lemma mnext_srun d : forall fm m c r m',
  pending (dat m) = None -> chosen_body (last_opts m) c = Some [] ->
  next d fm m c = (r, m') -> r <> NFuel ->
  exists fs s', srun d fs (dat m) (concat (stack m)) = (r, s') /\ R m' s'.
Proof.
  induction fm as [|fm IH]; intros m c r m' Hp Hc Hn Hr.
  - cbn [next] in Hn. inv Hn. congruence.
  - cbn [next] in Hn. rewrite (poll_none _ Hp), Hc in Hn. cbn [is_nil] in Hn.
    destruct m as [stk lo ds]. cbn [stack last_opts dat] in *.
    destruct stk as [|q0 rest].
    + inv Hn. exists 1%nat. eexists. split; [reflexivity|apply R_mk].
    + destruct q0 as [|st q].
      * (* an exhausted queue is popped: a stutter step *)
        apply IH in Hn; [exact Hn|exact Hp|exact Hc|exact Hr].
      * cbn [concat app]. destruct st as [l|os|x op e|e|cs|es|fn args|x e].
        -- (* line *)
           destruct (render_line ds l) as [[rl| |] s3] eqn:E; inv Hn;
             (exists 1%nat; eexists; cbn [srun]; rewrite E; split; [reflexivity|apply R_mk]).
        -- (* option group *)
           destruct (render_options ds os) as [[ros| |] s3] eqn:E; inv Hn;
             (exists 1%nat; eexists; cbn [srun]; rewrite E; split; [reflexivity|apply R_mk]).
        -- (* set *)
           destruct (exec_set x op e ds) as [[|] s3] eqn:E.
           ++ apply IH in Hn; [|cbn [dat]; rewrite <- Hp; change s3 with (snd (true, s3));
                                 rewrite <- E; apply exec_set_pending|reflexivity|exact Hr].
              destruct Hn as (fs & s' & Hs & HR). exists (S fs), s'. cbn [srun]. rewrite E.
              split; [exact Hs|exact HR].
           ++ inv Hn. exists 1%nat. eexists. cbn [srun]. rewrite E. split; [reflexivity|apply R_mk].
        -- (* jump *)
           destruct (exec_jump d e ds) as [[b'|] s3] eqn:E.
           ++ apply IH in Hn; [|cbn [dat]; rewrite <- Hp; change s3 with (snd (Some b', s3));
                                 rewrite <- E; apply exec_jump_pending|reflexivity|exact Hr].
              destruct Hn as (fs & s' & Hs & HR). exists (S fs), s'. cbn [srun]. rewrite E.
              cbn [mk stack dat concat] in Hs. rewrite app_nil_r in Hs. split; [exact Hs|exact HR].
           ++ inv Hn. exists 1%nat. eexists. cbn [srun]. rewrite E. split; [reflexivity|apply R_mk].
        -- (* if *)
           destruct (exec_if cs ds) as [[[b'|]| |] s3] eqn:E.
           ++ apply IH in Hn; [|cbn [dat]; rewrite <- Hp; change s3 with (snd (Val (Some b'), s3));
                                 rewrite <- E; apply exec_if_pending|reflexivity|exact Hr].
              destruct Hn as (fs & s' & Hs & HR). exists (S fs), s'. cbn [srun]. rewrite E.
              cbn [mk stack dat concat] in Hs. split; [exact Hs|exact HR].
           ++ apply IH in Hn; [|cbn [dat]; rewrite <- Hp; change s3 with (snd (@Val (option (list stmt)) None, s3));
                                 rewrite <- E; apply exec_if_pending|reflexivity|exact Hr].
              destruct Hn as (fs & s' & Hs & HR). exists (S fs), s'. cbn [srun]. rewrite E.
              split; [exact Hs|exact HR].
           ++ inv Hn. exists 1%nat. eexists. cbn [srun]. rewrite E. split; [reflexivity|apply R_mk].
           ++ inv Hn. exists 1%nat. eexists. cbn [srun]. rewrite E. split; [reflexivity|apply R_mk].
        -- (* command *)
           destruct (exec_command es ds) as [[| | |] s3] eqn:E.
           ++ inv Hn. exists 1%nat. eexists. cbn [srun]. rewrite E. split; [reflexivity|apply R_mk].
           ++ apply IH in Hn; [|cbn [dat]; apply (exec_command_pending _ _ _ _ Hp E); discriminate
                               |reflexivity|exact Hr].
              destruct Hn as (fs & s' & Hs & HR). exists (S fs), s'. cbn [srun]. rewrite E.
              split; [exact Hs|exact HR].
           ++ inv Hn. exists 1%nat. eexists. cbn [srun]. rewrite E. split; [reflexivity|apply R_mk].
           ++ inv Hn. exists 1%nat. eexists. cbn [srun]. rewrite E. split; [reflexivity|apply R_mk].
        -- (* call *)
           destruct (exec_call fn args ds) as [[|] s3] eqn:E.
           ++ apply IH in Hn; [|cbn [dat]; rewrite <- Hp; change s3 with (snd (true, s3));
                                 rewrite <- E; apply exec_call_pending|reflexivity|exact Hr].
              destruct Hn as (fs & s' & Hs & HR). exists (S fs), s'. cbn [srun]. rewrite E.
              split; [exact Hs|exact HR].
           ++ inv Hn. exists 1%nat. eexists. cbn [srun]. rewrite E. split; [reflexivity|apply R_mk].
        -- (* declare *)
           destruct (exec_set x SAssign e ds) as [[|] s3] eqn:E.
           ++ apply IH in Hn; [|cbn [dat]; rewrite <- Hp; change s3 with (snd (true, s3));
                                 rewrite <- E; apply exec_set_pending|reflexivity|exact Hr].
              destruct Hn as (fs & s' & Hs & HR). exists (S fs), s'. cbn [srun]. rewrite E.
              split; [exact Hs|exact HR].
           ++ inv Hn. exists 1%nat. eexists. cbn [srun]. rewrite E. split; [reflexivity|apply R_mk].
Qed.

(* pushing a non-empty chosen body and then fetching from it forgets the option group: the state
   with the body already pushed and nothing waiting behaves identically *)
Lemma next_push_eq d fm m c b : b <> [] -> pending (dat m) = None ->
  chosen_body (last_opts m) c = Some b ->
  next d (S fm) m c = next d (S fm) (mk (b :: stack m) None (dat m)) c.
Proof.
  intros Hb Hp Hc. cbn [next]. cbn [dat stack last_opts mk]. rewrite (poll_none _ Hp), Hc.
  cbn [chosen_body is_nil]. destruct b as [|st q]; [contradiction|]. reflexivity.
Qed.

(* the poll at the top of Next only looks at the pending cell *)
Lemma next_poll_eq d fm m c s0 : poll (dat m) = (None, s0) ->
  next d (S fm) m c = next d (S fm) (mk (stack m) (last_opts m) s0) c.
Proof.
  intros H. cbn [next]. cbn [dat stack last_opts mk]. rewrite H.
  rewrite (poll_none s0 (poll_idem _ _ H)). reflexivity.
Qed.

(* ---------- C01: the runner refines the flat-continuation semantics ---------- *)
Theorem next_refines_flow d : forall fm m s c r m',
  R m s -> next d fm m c = (r, m') -> r <> NFuel ->
  exists fs s', snext d fs s c = (r, s') /\ R m' s'.
Proof.
  intros fm m s c r m' (Hk & Hl & Hd) Hn Hr.
  destruct fm as [|fm]; [cbn [next] in Hn; inv Hn; congruence|].
  unfold snext. rewrite <- Hd, <- Hl, <- Hk.
  destruct (poll (dat m)) as [[r0|] s0] eqn:Ep.
  - (* still waiting for the command, or its error is surfaced *)
    cbn [next] in Hn. rewrite Ep in Hn. inv Hn. exists 1%nat. eexists. split; [reflexivity|].
    repeat split.
  - rewrite (next_poll_eq d fm m c s0 Ep) in Hn.
    pose proof (poll_idem _ _ Ep) as Hp0.
    set (m0 := mk (stack m) (last_opts m) s0) in *.
    destruct (chosen_body (last_opts m) c) as [b|] eqn:Ec.
    + destruct b as [|st q].
      * (* no option group waiting, or an empty body: nothing is pushed *)
        destruct (mnext_srun d (S fm) m0 c r m' Hp0 Ec Hn Hr) as (fs & s' & Hs & HR).
        exists fs, s'. split; [exact Hs|exact HR].
      * (* the chosen body is pushed and the first statement is fetched from it *)
        rewrite (next_push_eq d fm m0 c (st :: q)) in Hn; [|discriminate|exact Hp0|exact Ec].
        destruct (mnext_srun d (S fm) (mk ((st :: q) :: stack m0) None (dat m0)) c r m'
                             Hp0 (chosen_none c) Hn Hr) as (fs & s' & Hs & HR).
        exists fs, s'. split; [exact Hs|exact HR].
    + (* choice out of range: Go panics on the index *)
      cbn [next] in Hn. unfold m0 in Hn. cbn [dat stack last_opts mk] in Hn.
      rewrite (poll_none s0 Hp0), Ec in Hn. inv Hn.
      exists 1%nat. eexists. split; [reflexivity|]. repeat split.
Qed.

(* ---------- the argument of Next only matters when an option group is waiting ---------- *)
Theorem next_choice_irrelevant d fm m c1 c2 : last_opts m = None ->
  next d fm m c1 = next d fm m c2.
Proof.
  revert m. induction fm as [|fm IH]; intros m Hl; [reflexivity|].
  cbn [next]. rewrite Hl. cbn [chosen_body is_nil].
  destruct (poll (dat m)) as [[r0|] s0]; [reflexivity|].
  destruct (stack m) as [|[|st q] rest]; [reflexivity|apply IH; reflexivity|].
  destruct st as [l|os|x op e|e|cs|es|fn args|x e]; try reflexivity.
  - destruct (exec_set x op e s0) as [[|] s3]; [apply IH|]; reflexivity.
  - destruct (exec_jump d e s0) as [[b'|] s3]; [apply IH|]; reflexivity.
  - destruct (exec_if cs s0) as [[[b'|]| |] s3]; try reflexivity; apply IH; reflexivity.
  - destruct (exec_command es s0) as [[| | |] s3]; try reflexivity; apply IH; reflexivity.
  - destruct (exec_call fn args s0) as [[|] s3]; [apply IH|]; reflexivity.
  - destruct (exec_set x SAssign e s0) as [[|] s3]; [apply IH|]; reflexivity.
Qed.

(* ---------- C12: the end of the dialogue is absorbing ---------- *)
Definition ended (m : rstate) : Prop :=
  stack m = [] /\ last_opts m = None /\ pending (dat m) = None.

Lemma next_end_state d : forall fm m c m', next d fm m c = (NEnd, m') -> ended m'.
Proof.
  induction fm as [|fm IH]; intros m c m' H; [cbn [next] in H; inv H|].
  cbn [next] in H. destruct (poll (dat m)) as [[r0|] s0] eqn:Ep.
  - inv H. unfold poll in Ep. destruct (pending (dat m)) as [[[|n] [|]]|]; inv Ep.
  - pose proof (poll_idem _ _ Ep) as Hp0.
    destruct (chosen_body (last_opts m) c) as [b|]; [|inv H].
    destruct (if is_nil b then stack m else b :: stack m) as [|[|st q] rest].
    + inv H. repeat split; exact Hp0.
    + apply IH in H. exact H.
    + destruct st as [l|os|x op e|e|cs|es|fn args|x e].
      * destruct (render_line s0 l) as [[rl| |] s3]; inv H.
      * destruct (render_options s0 os) as [[ros| |] s3]; inv H.
      * destruct (exec_set x op e s0) as [[|] s3]; [apply IH in H; exact H|inv H].
      * destruct (exec_jump d e s0) as [[b'|] s3]; [apply IH in H; exact H|inv H].
      * destruct (exec_if cs s0) as [[[b'|]| |] s3]; try (inv H; fail); apply IH in H; exact H.
      * destruct (exec_command es s0) as [[| | |] s3] eqn:E; try (inv H; fail).
        -- inv H. repeat split. apply (exec_command_pending _ _ _ _ Hp0 E). discriminate.
        -- apply IH in H. exact H.
      * destruct (exec_call fn args s0) as [[|] s3]; [apply IH in H; exact H|inv H].
      * destruct (exec_set x SAssign e s0) as [[|] s3]; [apply IH in H; exact H|inv H].
Qed.

Lemma next_on_ended d fm m c : ended m -> next d (S fm) m c = (NEnd, m).
Proof.
  intros (Hs & Hl & Hp). destruct m as [stk lo ds]. cbn [stack last_opts dat] in *. subst.
  cbn [next]. cbn [dat stack last_opts]. rewrite (poll_none _ Hp). reflexivity.
Qed.

(* once the end has been reported, every later call - any argument, any fuel - reports it again
   and leaves the whole state (variables, host log, storer log, visits, ...) untouched *)
Theorem end_absorbing d fm m c m' : next d fm m c = (NEnd, m') ->
  forall fm' c', next d (S fm') m' c' = (NEnd, m').
Proof. intros H fm' c'. apply next_on_ended. apply (next_end_state d fm m c m' H). Qed.

Fixpoint iter_next (d : dialogue) (fuel : nat) (m : rstate) (cs : list Z) : list nres * rstate :=
  match cs with
  | [] => ([], m)
  | c :: r => let '(o, m1) := next d fuel m c in
              let '(os, m2) := iter_next d fuel m1 r in (o :: os, m2)
  end.

Theorem end_forever d fm m c m' : next d fm m c = (NEnd, m') ->
  forall fm' cs, iter_next d (S fm') m' cs = (map (fun _ => NEnd) cs, m').
Proof.
  intros H fm' cs. induction cs as [|c0 cs IH]; [reflexivity|].
  cbn [iter_next map]. rewrite (end_absorbing d fm m c m' H fm' c0), IH. reflexivity.
Qed.

(* ---------- whole runs: any sequence of Next calls ---------- *)
Inductive sruns (d : dialogue) : sstate -> list Z -> list nres -> sstate -> Prop :=
| sruns_nil s : sruns d s [] [] s
| sruns_cons s c cs fs r s1 outs s2 :
    snext d fs s c = (r, s1) -> sruns d s1 cs outs s2 -> sruns d s (c :: cs) (r :: outs) s2.

Theorem run_refines_flow d fm : forall cs m s outs m',
  R m s -> iter_next d fm m cs = (outs, m') -> ~ In NFuel outs ->
  exists s', sruns d s cs outs s' /\ R m' s'.
Proof.
  induction cs as [|c cs IH]; intros m s outs m' HR Hi Hf.
  - cbn [iter_next] in Hi. inv Hi. exists s. split; [constructor|exact HR].
  - cbn [iter_next] in Hi. destruct (next d fm m c) as [o m1] eqn:En.
    destruct (iter_next d fm m1 cs) as [os m2] eqn:Ei. inv Hi.
    assert (Ho : o <> NFuel) by (intro E; apply Hf; left; exact E).
    destruct (next_refines_flow d fm m s c o m1 HR En Ho) as (fs & s1 & Hs & HR1).
    destruct (IH m1 s1 os m' HR1 Ei) as (s2 & Hr & HR2).
    { intro E. apply Hf. right. exact E. }
    exists s2. split; [econstructor; eassumption|exact HR2].
Qed.

Lemma R_new_runner d init stream sc cmds m :
  new_runner d init stream sc cmds = Some m ->
  exists s, sinit d (dat m) = Some s /\ R m s.
Proof.
  unfold new_runner, sinit. destruct d as [|n rest]; [discriminate|]. intros H. inv H.
  eexists. split; [reflexivity|]. unfold R, mk, smk. cbn. rewrite app_nil_r. auto.
Qed.
