(* C19: real-number contracts of the numeric built-ins (through Flocq's B2R), for every finite
   double; conversions. *)
From Coq Require Import ZArith Reals Lia Lra List Bool.
From Flocq Require Import Core BinarySingleNaN.
From YS Require Import Base.Sexp Num.F64 Num.Decimal Yarn.Ast Yarn.Value Yarn.Eval.
Import ListNotations.
Local Open Scope R_scope.

Definition R_of (x : f64) : R := B2R x.

(* math.Floor / Ceil / Trunc / Round return the integer the corresponding real rounding gives *)
Lemma nearbyint_value md (x : f64) : R_of (Bnearbyint md x) = IZR (round_mode md (R_of x)).
Proof.
  unfold R_of. destruct (Bnearbyint_correct prec emax Hmax md x) as [H _]. rewrite H.
  apply round_FIX_IZR.
Qed.

Theorem floor_value x : R_of (ffloor x) = IZR (Zfloor (R_of x)).
Proof. apply (nearbyint_value mode_DN). Qed.
Theorem ceil_value x : R_of (fceil x) = IZR (Zceil (R_of x)).
Proof. apply (nearbyint_value mode_UP). Qed.
Theorem trunc_value x : R_of (ftrunc x) = IZR (Ztrunc (R_of x)).
Proof. apply (nearbyint_value mode_ZR). Qed.
Theorem round_value x : R_of (fround x) = IZR (ZnearestA (R_of x)).
Proof. apply (nearbyint_value mode_NA). Qed.

Lemma nearbyint_finite md (x : f64) : is_finite (Bnearbyint md x) = is_finite x.
Proof. destruct (Bnearbyint_correct prec emax Hmax md x) as [_ [H _]]. exact H. Qed.

(* floor(x) <= x < floor(x) + 1, and floor(x) is an integer *)
Theorem floor_spec x : R_of (ffloor x) <= R_of x < R_of (ffloor x) + 1.
Proof. rewrite floor_value. split; [apply Zfloor_lb|apply Zfloor_ub]. Qed.

(* ceil(x) - 1 < x <= ceil(x) *)
Theorem ceil_spec x : R_of (fceil x) - 1 < R_of x <= R_of (fceil x).
Proof.
  rewrite ceil_value. split; [|apply Zceil_ub].
  pose proof (Zceil_lb (R_of x)) as H. lra.
Qed.

(* integer(x) truncates toward zero: same sign side, less than one away *)
Theorem integer_spec x :
  (0 <= R_of x -> R_of (ftrunc x) <= R_of x < R_of (ftrunc x) + 1) /\
  (R_of x <= 0 -> R_of (ftrunc x) - 1 < R_of x <= R_of (ftrunc x)).
Proof.
  rewrite trunc_value. split; intros H.
  - rewrite Ztrunc_floor by exact H. split; [apply Zfloor_lb|apply Zfloor_ub].
  - rewrite Ztrunc_ceil by exact H. split; [|apply Zceil_ub].
    pose proof (Zceil_lb (R_of x)) as K. lra.
Qed.

(* round(x) is an integer within 0.5 of x (half-way cases go away from zero: math.Round) *)
Theorem round_spec x : Rabs (R_of (fround x) - R_of x) <= / 2.
Proof. rewrite round_value, Rabs_minus_sym. apply Znearest_half. Qed.

(* all four are integers *)
Theorem rounding_results_are_integers x :
  exists a b c d : Z, R_of (ffloor x) = IZR a /\ R_of (fceil x) = IZR b /\ R_of (ftrunc x) = IZR c /\ R_of (fround x) = IZR d.
Proof.
  exists (Zfloor (R_of x)), (Zceil (R_of x)), (Ztrunc (R_of x)), (ZnearestA (R_of x)).
  repeat split; [apply floor_value|apply ceil_value|apply trunc_value|apply round_value].
Qed.

(* ---- conversions ---- *)
(* bool(string(b)) = b *)
Theorem bool_string_roundtrip v b e :
  call_builtin v (STR "bool") [VStr (to_string (VBool b))] e = Some (Val (Some (VBool b)), e).
Proof. destruct b; reflexivity. Qed.

(* string / number / bool of a value already of that type return it unchanged *)
Theorem same_type_identity v e s n b :
  call_builtin v (STR "string") [VStr s] e = Some (Val (Some (VStr s)), e) /\
  call_builtin v (STR "number") [VNum n] e = Some (Val (Some (VNum n)), e) /\
  call_builtin v (STR "bool") [VBool b] e = Some (Val (Some (VBool b)), e).
Proof. repeat split; reflexivity. Qed.

(* a string that is not a boolean is an error *)
Theorem bad_bool_string_is_error v s e : parse_bool s = None ->
  call_builtin v (STR "bool") [VStr s] e = Some (Fail, e).
Proof. intros H. cbn. rewrite H. reflexivity. Qed.

Theorem bad_number_string_is_error v s e : parse_float s = None ->
  call_builtin v (STR "number") [VStr s] e = Some (Fail, e).
Proof. intros H. cbn. rewrite H. reflexivity. Qed.

(* ---- exact integer arithmetic below 2^53: inc, dec ---- *)
Definition fexp64 := FLT_exp (3 - emax - prec) prec.

Lemma int_is_format (z : Z) : (Z.abs z < 2 ^ 53)%Z -> generic_format radix2 fexp64 (IZR z).
Proof.
  intros Hz. apply generic_format_FLT. apply (FLT_spec radix2 (3 - emax - prec) prec (IZR z) (Float radix2 z 0)).
  - unfold F2R. simpl. ring.
  - simpl. exact Hz.
  - simpl. unfold emax, prec. lia.
Qed.

Lemma int_below_overflow (z : Z) : (Z.abs z < 2 ^ 53)%Z -> Rabs (IZR z) < bpow radix2 emax.
Proof.
  intros Hz. rewrite <- abs_IZR. apply Rlt_le_trans with (IZR (2 ^ 53)).
  - apply IZR_lt. exact Hz.
  - change (IZR (2 ^ 53)) with (bpow radix2 53). apply bpow_le. unfold emax. lia.
Qed.

(* x + y for floats holding integers whose sum stays below 2^53: exact *)
Lemma fadd_int_exact (x y : f64) (a b : Z) :
  is_finite x = true -> is_finite y = true -> R_of x = IZR a -> R_of y = IZR b ->
  (Z.abs (a + b) < 2 ^ 53)%Z -> R_of (fadd x y) = IZR (a + b).
Proof.
  intros Fx Fy Hx Hy Hs. unfold R_of, fadd in *.
  pose proof (Bplus_correct prec emax Hprec Hmax mode_NE x y Fx Fy) as H.
  rewrite Hx, Hy, <- plus_IZR in H.
  rewrite round_generic in H; [|apply valid_rnd_N|apply int_is_format; exact Hs].
  rewrite Rlt_bool_true in H by (apply int_below_overflow; exact Hs).
  destruct H as [H _]. exact H.
Qed.

Lemma fsub_int_exact (x y : f64) (a b : Z) :
  is_finite x = true -> is_finite y = true -> R_of x = IZR a -> R_of y = IZR b ->
  (Z.abs (a - b) < 2 ^ 53)%Z -> R_of (fsub x y) = IZR (a - b).
Proof.
  intros Fx Fy Hx Hy Hs. unfold R_of, fsub in *.
  pose proof (Bminus_correct prec emax Hprec Hmax mode_NE x y Fx Fy) as H.
  rewrite Hx, Hy, <- minus_IZR in H.
  rewrite round_generic in H; [|apply valid_rnd_N|apply int_is_format; exact Hs].
  rewrite Rlt_bool_true in H by (apply int_below_overflow; exact Hs).
  destruct H as [H _]. exact H.
Qed.

Lemma floor_abs_bound r : Rabs r < IZR (2 ^ 52) -> (Z.abs (Zfloor r) <= 2 ^ 52)%Z.
Proof.
  intros H. apply Rabs_def2 in H as [H1 H2].
  assert (A : (Zfloor r < 2 ^ 52)%Z) by (apply lt_IZR; apply Rle_lt_trans with r; [apply Zfloor_lb|exact H1]).
  assert (B : (- 2 ^ 52 <= Zfloor r)%Z).
  { apply Zfloor_lub. rewrite opp_IZR. lra. }
  lia.
Qed.

Lemma ceil_abs_bound r : Rabs r < IZR (2 ^ 52) -> (Z.abs (Zceil r) <= 2 ^ 52)%Z.
Proof.
  intros H. apply Rabs_def2 in H as [H1 H2].
  assert (A : (Zceil r <= 2 ^ 52)%Z) by (apply Zceil_glb; lra).
  assert (B : (- 2 ^ 52 < Zceil r)%Z).
  { apply lt_IZR. rewrite opp_IZR. apply Rlt_le_trans with r; [exact H2|apply Zceil_ub]. }
  lia.
Qed.

(* inc(x) = floor(x) + 1 exactly: the least integer greater than x *)
Theorem inc_spec x : is_finite x = true -> Rabs (R_of x) < IZR (2 ^ 52) ->
  R_of (f_inc x) = IZR (Zfloor (R_of x) + 1) /\ R_of x < R_of (f_inc x) <= R_of x + 1.
Proof.
  intros Fx Hb. pose proof (floor_abs_bound _ Hb) as Hf.
  assert (E : R_of (f_inc x) = IZR (Zfloor (R_of x) + 1)).
  { unfold f_inc. apply fadd_int_exact.
    - rewrite <- Fx. apply nearbyint_finite.
    - apply is_finite_Bone.
    - apply floor_value.
    - unfold R_of, fone. apply Bone_correct.
    - lia. }
  split; [exact E|]. rewrite E, plus_IZR.
  pose proof (Zfloor_lb (R_of x)). pose proof (Zfloor_ub (R_of x)). lra.
Qed.

(* dec(x) = ceil(x) - 1 exactly: the greatest integer less than x *)
Theorem dec_spec x : is_finite x = true -> Rabs (R_of x) < IZR (2 ^ 52) ->
  R_of (f_dec x) = IZR (Zceil (R_of x) - 1) /\ R_of x - 1 <= R_of (f_dec x) < R_of x.
Proof.
  intros Fx Hb. pose proof (ceil_abs_bound _ Hb) as Hf.
  assert (E : R_of (f_dec x) = IZR (Zceil (R_of x) - 1)).
  { unfold f_dec. apply fsub_int_exact.
    - rewrite <- Fx. apply nearbyint_finite.
    - apply is_finite_Bone.
    - apply ceil_value.
    - unfold R_of, fone. apply Bone_correct.
    - lia. }
  split; [exact E|]. rewrite E, minus_IZR.
  pose proof (Zceil_ub (R_of x)). pose proof (Zceil_lb (R_of x)). lra.
Qed.
