(* C03: assignment statements store what SetSpec says with exactly one Set* call, a failing
   statement leaves the store and the storer log untouched, types are stable, the in-memory storer
   never holds a name under two types, reads go through the storer. *)
From Coq Require Import List ZArith NArith Bool Lia.
From YS Require Import Base.Sexp Num.F64 Yarn.Ast Yarn.Value Yarn.Eval Markup.LineParser Yarn.Runner
     Spec.SetSpec Proofs.AListProofs Proofs.RunnerInv.
Import ListNotations.

Definition sevent_of (k : str) (v : value) : sevent :=
  match v with VNum n => SetN k n | VBool b => SetB k b | VStr x => SetS k x end.

(* the statement as a whole, in terms of the specification *)
Theorem exec_set_spec x op e s :
  let '(o, s1) := eval_in s e in
  match o with
  | Val v =>
      match set_spec (st_get (vars s1) x) op v with
      | Some r => exec_set x op e s = (true, upd_vars s1 (st_set (vars s1) x r) (sevent_of x r))
      | None => exec_set x op e s = (false, s1)
      end
  | _ => exec_set x op e s = (false, s1)
  end.
Proof.
  unfold exec_set. destruct (eval_in s e) as [[v| |] s1]; try reflexivity.
  destruct (st_get (vars s1) x) as [[p|p|p]|]; destruct op; destruct v as [n|b|t]; reflexivity.
Qed.

(* a failing statement leaves every variable (and the storer's call log) exactly as it was *)
Theorem failed_set_frame x op e s s' : exec_set x op e s = (false, s') ->
  vars s' = vars s /\ slog s' = slog s.
Proof.
  pose proof (exec_set_spec x op e s) as H. pose proof (eval_in_frame s e) as (Hv & Hl & _).
  destruct (eval_in s e) as [[v| |] s1]; cbn [snd] in *.
  - destruct (set_spec (st_get (vars s1) x) op v); rewrite H; intros E; inversion E; subst; auto.
  - rewrite H. intros E; inversion E; subst; auto.
  - rewrite H. intros E; inversion E; subst; auto.
Qed.

(* a successful statement performs exactly one write *)
Theorem ok_set_one_write x op e s s' : exec_set x op e s = (true, s') ->
  exists r, slog s' = sevent_of x r :: slog s /\ vars s' = st_set (vars s) x r.
Proof.
  pose proof (exec_set_spec x op e s) as H. pose proof (eval_in_frame s e) as (Hv & Hl & _).
  destruct (eval_in s e) as [[v| |] s1]; cbn [snd] in *.
  - destruct (set_spec (st_get (vars s1) x) op v) as [r|]; rewrite H; intros E; inversion E; subst.
    exists r. cbn [slog vars upd_vars]. rewrite Hl, Hv. auto.
  - rewrite H. discriminate.
  - rewrite H. discriminate.
Qed.

(* no script statement changes the type under which a name is stored *)
Theorem set_spec_type_stable p op v r : set_spec (Some p) op v = Some r -> same_type p r = true.
Proof. destruct p, op, v; cbn; intros H; inversion H; reflexivity. Qed.

Theorem compound_unknown_is_error op v : op <> SAssign -> set_spec None op v = None.
Proof. destruct op; [congruence|reflexivity..]. Qed.

(* ---- the in-memory storer: a name lives in at most one of the three maps ---- *)
Definition single (st : store) : Prop :=
  forall k, match aget (nums st) k, aget (bools st) k, aget (strs st) k with
            | Some _, None, None | None, Some _, None | None, None, Some _ | None, None, None => True
            | _, _, _ => False
            end.

Lemma single_empty : single empty_store.
Proof. intros k. exact I. Qed.

Lemma single_set st k v : single st -> single (st_set st k v).
Proof.
  intros H n. specialize (H n). destruct v; cbn [st_set st_set_num st_set_bool st_set_str nums bools strs];
    rewrite ?aget_aset, ?aget_adel; destruct (str_eqb k n); try exact I; exact H.
Qed.

(* any sequence of writes, by scripts or by the host, of any types *)
Theorem single_after_writes ws : single (fold_left (fun st kv => st_set st (fst kv) (snd kv)) ws empty_store).
Proof.
  assert (G : forall st, single st -> single (fold_left (fun st kv => st_set st (fst kv) (snd kv)) ws st)).
  { induction ws as [|[k v] ws IH]; intros st H; [exact H|]. cbn [fold_left fst snd]. apply IH, single_set, H. }
  apply G, single_empty.
Qed.

(* the value just written is the value read, whatever was stored before under any type *)
Theorem st_get_set st k v : st_get (st_set st k v) k = Some v.
Proof.
  destruct v; unfold st_get; cbn [st_set st_set_num st_set_bool st_set_str nums bools strs];
    rewrite ?aget_aset_same, ?aget_adel_same; reflexivity.
Qed.

Theorem st_get_set_other st k v n : str_eqb k n = false -> st_get (st_set st k v) n = st_get st n.
Proof.
  intros E. destruct v; unfold st_get; cbn [st_set st_set_num st_set_bool st_set_str nums bools strs];
    rewrite ?aget_aset, ?aget_adel, E; reflexivity.
Qed.

(* reads go through the storer: a variable evaluates to what the store holds now, so a value the
   host writes between two steps is what the script reads next *)
Theorem eval_var_reads_store v x e : eval v (EVar x) e = (match st_get (rvars v) x with Some a => Val a | None => Fail end, e).
Proof. reflexivity. Qed.

Definition host_write (s : dstate) (k : str) (v : value) : dstate :=
  upd_vars s (st_set (vars s) k v) (sevent_of k v).

Theorem host_write_visible s k v : fst (eval_in (host_write s k v) (EVar k)) = Val v.
Proof. unfold eval_in, host_write. cbn. rewrite st_get_set. reflexivity. Qed.

(* the storer invariant is kept by everything a runner does *)
Lemma single_restore (m : alist value) : single (fold_left (fun st kv => st_set st (fst kv) (snd kv)) m empty_store).
Proof. apply single_after_writes. Qed.

Theorem next_single d fm m c : single (vars (dat m)) -> single (vars (dat (snd (next d fm m c)))).
Proof.
  apply (next_preserves d (fun s => single (vars s))).
  - intros s H. unfold poll. destruct (pending s) as [[[|n] [|]]|]; exact H.
  - intros s l H. destruct (render_line_frame s l) as (E & _). rewrite E. exact H.
  - intros s os H. destruct (render_options_frame os s) as (E & _). rewrite E. exact H.
  - intros x op e s H. pose proof (exec_set_spec x op e s) as K.
    destruct (eval_in_frame s e) as (Ev & _).
    destruct (eval_in s e) as [[v| |] s1]; cbn [snd] in *.
    + destruct (set_spec (st_get (vars s1) x) op v) as [r|]; rewrite K; cbn [snd upd_vars vars].
      * apply single_set. rewrite Ev. exact H.
      * rewrite Ev. exact H.
    + rewrite K. cbn [snd]. rewrite Ev. exact H.
    + rewrite K. cbn [snd]. rewrite Ev. exact H.
  - intros e s H. unfold exec_jump. destruct (eval_in_frame s e) as (Ev & _).
    destruct (eval_in s e) as [[v| |] s1]; cbn [snd] in *; try (rewrite Ev; exact H).
    destruct v as [n0|b0|t]; cbn [snd]; try (rewrite Ev; exact H).
    destruct (find_node d t); cbn [snd vars]; rewrite Ev; exact H.
  - intros cs s H. destruct (exec_if_frame cs s) as (E & _). rewrite E. exact H.
  - intros es s H. unfold exec_command.
    repeat match goal with
           | |- context [match ?x with _ => _ end] => destruct x
           | |- context [if ?x then _ else _] => destruct x
           end; cbn; exact H.
  - intros f a s H. destruct (exec_call_frame f a s) as (E & _). rewrite E. exact H.
Qed.

