(* A generic induction principle for invariants of the data state across Next: a predicate kept by
   every statement-level primitive is kept by any call of Next (any dialogue, choice and fuel). *)
From Coq Require Import List ZArith NArith Bool.
From YS Require Import Base.Sexp Num.F64 Yarn.Ast Yarn.Value Yarn.Eval Markup.LineParser Yarn.Runner.
Import ListNotations.

Section Preserve.
  Variable d : dialogue.
  Variable P : dstate -> Prop.
  Hypothesis P_poll : forall s, P s -> P (snd (poll s)).
  Hypothesis P_line : forall s l, P s -> P (snd (render_line s l)).
  Hypothesis P_opts : forall s os, P s -> P (snd (render_options s os)).
  Hypothesis P_set : forall x op e s, P s -> P (snd (exec_set x op e s)).
  Hypothesis P_jump : forall e s, P s -> P (snd (exec_jump d e s)).
  Hypothesis P_if : forall cs s, P s -> P (snd (exec_if cs s)).
  Hypothesis P_cmd : forall es s, P s -> P (snd (exec_command es s)).
  Hypothesis P_call : forall f a s, P s -> P (snd (exec_call f a s)).

  Lemma next_preserves : forall fm m c, P (dat m) -> P (dat (snd (next d fm m c))).
  Proof.
    induction fm as [|fm IH]; intros m c HP; [exact HP|].
    cbn [next]. pose proof (P_poll _ HP) as H0.
    destruct (poll (dat m)) as [[r0|] s0]; cbn [snd] in H0; [exact H0|].
    destruct (chosen_body (last_opts m) c) as [b|]; [|exact H0].
    destruct (if is_nil b then stack m else b :: stack m) as [|[|st q] rest]; [exact H0|apply IH; exact H0|].
    destruct st as [l|os|x op e|e|cs|es|fn args|x e].
    - pose proof (P_line _ l H0) as H. destruct (render_line s0 l) as [[rl| |] s3]; exact H.
    - pose proof (P_opts _ os H0) as H. destruct (render_options s0 os) as [[ros| |] s3]; exact H.
    - pose proof (P_set x op e _ H0) as H. destruct (exec_set x op e s0) as [[|] s3]; [apply IH|]; exact H.
    - pose proof (P_jump e _ H0) as H. destruct (exec_jump d e s0) as [[b'|] s3]; [apply IH|]; exact H.
    - pose proof (P_if cs _ H0) as H. destruct (exec_if cs s0) as [[[b'|]| |] s3]; try exact H; apply IH; exact H.
    - pose proof (P_cmd es _ H0) as H. destruct (exec_command es s0) as [[| | |] s3]; try exact H; apply IH; exact H.
    - pose proof (P_call fn args _ H0) as H. destruct (exec_call fn args s0) as [[|] s3]; [apply IH|]; exact H.
    - pose proof (P_set x SAssign e _ H0) as H. destruct (exec_set x SAssign e s0) as [[|] s3]; [apply IH|]; exact H.
  Qed.
End Preserve.

(* ---- frames: which fields each primitive can touch ---- *)
(* everything except the function environment (RNG stream, host log) *)
Definition same_but_fe (s s' : dstate) : Prop :=
  vars s' = vars s /\ slog s' = slog s /\ pending s' = pending s /\ cur s' = cur s /\
  visits s' = visits s /\ vsnap s' = vsnap s /\ sched s' = sched s /\ hcmds s' = hcmds s /\
  jlog s' = jlog s /\ vbase s' = vbase s.

Lemma same_but_fe_refl s : same_but_fe s s.
Proof. repeat split. Qed.

Lemma same_but_fe_trans a b c : same_but_fe a b -> same_but_fe b c -> same_but_fe a c.
Proof. unfold same_but_fe. intuition congruence. Qed.

Lemma eval_in_frame s x : same_but_fe s (snd (eval_in s x)).
Proof. unfold eval_in. destruct (eval (renv_of s) x (fe s)). repeat split. Qed.

Lemma render_parts_frame ps : forall s acc, same_but_fe s (snd (render_parts s ps acc)).
Proof.
  induction ps as [|p ps IH]; intros s acc; cbn [render_parts]; [apply same_but_fe_refl|].
  destruct p as [t|x]; [apply IH|].
  pose proof (eval_in_frame s x) as E. destruct (eval_in s x) as [[v| |] s1]; cbn [snd] in *; try exact E.
  eapply same_but_fe_trans; [exact E|apply IH].
Qed.

Lemma render_line_frame s l : same_but_fe s (snd (render_line s l)).
Proof.
  unfold render_line. pose proof (render_parts_frame (ltext l) s []) as E.
  destruct (render_parts s (ltext l) []) as [[t| |] s1]; cbn [snd] in *.
  - destruct (parse_markup t) as [[t' a]|]; exact E.
  - exact E.
  - exact E.
Qed.

Lemma render_options_frame os : forall s, same_but_fe s (snd (render_options s os)).
Proof.
  induction os as [|[l b] os IH]; intros s; cbn [render_options]; [apply same_but_fe_refl|].
  pose proof (render_line_frame s l) as E.
  destruct (render_line s l) as [[rl| |] s1]; cbn [snd] in *; try exact E.
  destruct (lcond l) as [c|].
  - pose proof (eval_in_frame s1 c) as E2.
    destruct (eval_in s1 c) as [[v| |] s2]; cbn [snd] in *;
      try (eapply same_but_fe_trans; [exact E|exact E2]).
    destruct v; cbn [snd]; try (eapply same_but_fe_trans; [exact E|exact E2]).
    specialize (IH s2). destruct (render_options s2 os) as [[r| |] s3]; cbn [snd] in *;
      (eapply same_but_fe_trans; [exact E|]; eapply same_but_fe_trans; [exact E2|exact IH]).
  - specialize (IH s1). destruct (render_options s1 os) as [[r| |] s3]; cbn [snd] in *;
      (eapply same_but_fe_trans; [exact E|exact IH]).
Qed.

Lemma exec_if_frame cs : forall s, same_but_fe s (snd (exec_if cs s)).
Proof.
  induction cs as [|[c b] cs IH]; intros s; cbn [exec_if]; [apply same_but_fe_refl|].
  pose proof (eval_in_frame s c) as E.
  destruct (eval_in s c) as [[v| |] s1]; cbn [snd] in *; try exact E.
  destruct v as [n|[|]|t]; cbn [snd]; try exact E.
  eapply same_but_fe_trans; [exact E|apply IH].
Qed.

Lemma exec_call_frame f args s : same_but_fe s (snd (exec_call f args s)).
Proof.
  unfold exec_call. destruct (eval_list (renv_of s) args (fe s)) as [[vs| |] e1].
  - destruct (call_function (renv_of s) f vs e1). repeat split.
  - repeat split.
  - repeat split.
Qed.
