(* C02: the evaluator follows the operator table, and/or are lazy, arguments are evaluated left to
   right exactly once, every ill-typed operation is an error. *)
From Coq Require Import List ZArith NArith Bool.
From YS Require Import Base.Sexp Num.F64 Yarn.Ast Yarn.Value Yarn.Eval.
Import ListNotations.

(* ---- the operator table (Yarn): result of [a op b] for same-typed operands, None = error ---- *)
Definition table (o : binop) (a b : value) : option value :=
  match o, a, b with
  | OMul, VNum x, VNum y => Some (VNum (fmul x y))
  | ODiv, VNum x, VNum y => Some (VNum (fdiv x y))
  | OMod, VNum x, VNum y => Some (VNum (fmod x y))                  (* floating remainder *)
  | OAdd, VNum x, VNum y => Some (VNum (fadd x y))
  | OAdd, VStr x, VStr y => Some (VStr (x ++ y))                    (* + also concatenates strings *)
  | OSub, VNum x, VNum y => Some (VNum (fsub x y))
  | OLe, VNum x, VNum y => Some (VBool (fleb x y))
  | OGe, VNum x, VNum y => Some (VBool (fleb y x))
  | OLt, VNum x, VNum y => Some (VBool (fltb x y))
  | OGt, VNum x, VNum y => Some (VBool (fltb y x))
  | OEq, VNum x, VNum y => Some (VBool (feqb x y))
  | OEq, VBool x, VBool y => Some (VBool (Bool.eqb x y))
  | OEq, VStr x, VStr y => Some (VBool (str_eqb x y))
  | ONe, VNum x, VNum y => Some (VBool (negb (feqb x y)))
  | ONe, VBool x, VBool y => Some (VBool (negb (Bool.eqb x y)))
  | ONe, VStr x, VStr y => Some (VBool (negb (str_eqb x y)))
  | OAnd, VBool x, VBool y => Some (VBool (x && y))
  | OOr, VBool x, VBool y => Some (VBool (x || y))
  | OXor, VBool x, VBool y => Some (VBool (xorb x y))
  | _, _, _ => None
  end.

Definition of_opt (o : option value) : outcome value := match o with Some v => Val v | None => Fail end.

(* the left operand alone decides: false and _, true or _ *)
Definition decided (o : binop) (a : value) : bool :=
  match o, a with
  | OAnd, VBool false | OOr, VBool true => true
  | _, _ => false
  end.

(* a binary operation on two VALUES is exactly the table, unless the left operand already decides *)
Theorem binop_on_values v o a b e :
  eval v (EBin o (EVal a) (EVal b)) e = (if decided o a then Val a else of_opt (table o a b), e).
Proof. destruct o, a as [x|[|]|x], b as [y|[|]|y]; reflexivity. Qed.

(* for boolean operands the table gives that same value *)
Lemma decided_agrees_with_table o a y : decided o a = true -> table o a (VBool y) = Some a.
Proof. destruct o, a as [x|[|]|x]; cbn; intros H; try discriminate; reflexivity. Qed.

(* operands of different types: an error for every operator, except that a left operand which
   already decides and/or is returned without looking at the right one *)
Theorem ill_typed_is_error o a b : same_type a b = false -> table o a b = None.
Proof. destruct o, a, b; cbn; intros H; try reflexivity; discriminate. Qed.

Theorem unary_table v a e :
  eval v (ENeg (EVal a)) e = (match a with VNum n => Val (VNum (fneg n)) | _ => Fail end, e) /\
  eval v (ENot (EVal a)) e = (match a with VBool b => Val (VBool (negb b)) | _ => Fail end, e).
Proof. destruct a; split; reflexivity. Qed.

(* ---- general operands: left first, then (unless decided) right, then the table ---- *)
Theorem eval_bin_unfold v o l r e :
  eval v (EBin o l r) e =
  match eval v l e with
  | (Val lv, e1) =>
      match o, lv with
      | OAnd, VBool false => (Val lv, e1)                     (* right operand NOT evaluated *)
      | OOr, VBool true => (Val lv, e1)
      | OAnd, VBool true | OOr, VBool false | OAnd, _ | OOr, _ =>
          match lv with
          | VBool _ => match eval v r e1 with
                       | (Val rv, e2) => (if same_type lv rv then apply_binop o lv rv else Fail, e2)
                       | res => res
                       end
          | _ => (Fail, e1)                                   (* and/or on a non-boolean: error, right not evaluated *)
          end
      | _, _ => match eval v r e1 with
                | (Val rv, e2) => (if same_type lv rv then apply_binop o lv rv else Fail, e2)
                | res => res
                end
      end
  | res => res
  end.
Proof.
  cbn [eval]. destruct (eval v l e) as [[lv| |] e1]; try reflexivity.
  destruct o, lv as [x|[|]|x]; reflexivity.
Qed.

(* and the operator switch agrees with the table whenever it is reached with same-typed operands *)
Theorem apply_binop_is_table o a b : same_type a b = true -> decided o a = false ->
  apply_binop o a b = of_opt (table o a b).
Proof.
  destruct o, a as [x|[|]|x], b as [y|[|]|y]; cbn; intros H D; try reflexivity; discriminate.
Qed.

(* short-circuit: the host log (and the RNG) after [false and r] / [true or r] is the one after
   the left operand alone: nothing of r ran *)
Theorem and_short_circuit v l r e e1 : eval v l e = (Val (VBool false), e1) ->
  eval v (EBin OAnd l r) e = (Val (VBool false), e1).
Proof. intros H. rewrite eval_bin_unfold, H. reflexivity. Qed.

Theorem or_short_circuit v l r e e1 : eval v l e = (Val (VBool true), e1) ->
  eval v (EBin OOr l r) e = (Val (VBool true), e1).
Proof. intros H. rewrite eval_bin_unfold, H. reflexivity. Qed.

(* ---- function calls: arguments left to right, each once, then the call ---- *)
Lemma eval_call_args v f : forall args e,
  eval v (ECall f args) e =
  match eval_list v args e with
  | (Val vs, e1) => match call_function v f vs e1 with
                    | (Val (Some r), e2) => (Val r, e2)
                    | (Val None, e2) => (Fail, e2)
                    | (Fail, e2) => (Fail, e2)
                    | (Crash, e2) => (Crash, e2)
                    end
  | (Fail, e1) => (Fail, e1)
  | (Crash, e1) => (Crash, e1)
  end.
Proof.
  intros args e. cbn [eval].
  match goal with |- context [?F args e] =>
    assert (HA : forall l e0, F l e0 = eval_list v l e0)
  end.
  { induction l as [|a l IHl]; intros e0; [reflexivity|]. cbn [eval_list].
    destruct (eval v a e0) as [[va| |] e1]; try reflexivity. rewrite IHl. reflexivity. }
  rewrite HA. reflexivity.
Qed.

(* eval_list evaluates the head first, stops at the first failure (later arguments do not run) *)
Theorem eval_list_cons v a r e :
  eval_list v (a :: r) e =
  match eval v a e with
  | (Val va, e1) => match eval_list v r e1 with
                    | (Val vr, e2) => (Val (va :: vr), e2)
                    | (Fail, e2) => (Fail, e2)
                    | (Crash, e2) => (Crash, e2)
                    end
  | (Fail, e1) => (Fail, e1)
  | (Crash, e1) => (Crash, e1)
  end.
Proof. reflexivity. Qed.

(* the probe p logs exactly one call per evaluation, after its arguments *)
Theorem probe_logs_once v args e vs e1 : eval_list v args e = (Val vs, e1) ->
  hlog (snd (eval v (ECall (STR "p") args) e)) = HCall (STR "p") vs :: hlog e1.
Proof.
  intros H. rewrite eval_call_args, H. unfold call_function, call_probe.
  change (str_eqb (STR "p") (STR "p")) with true. cbn iota.
  destruct (rev vs); reflexivity.
Qed.
