(* C13: the whitespace-trimming rule of self-closing markers.  A self-closing marker that stands at the
   start of the text or after a blank swallows ONE blank that directly follows it. *)
From Coq Require Import List ZArith NArith Lia Bool.
From YS Require Import Base.Sexp Yarn.Value Markup.LineParser Proofs.MarkupProofs Proofs.MarkupPropsProofs.
Require YS.Proofs.MarkupCharacterProofs.
Module CP := YS.Proofs.MarkupCharacterProofs.
Import ListNotations.
Local Open Scope Z_scope.

(* the last rune of t, d when t is empty *)
Fixpoint lastr (t : str) (d : N) : N := match t with [] => d | c :: r => lastr r c end.

Lemma main_loop_plain_app_last : forall t R f p bld blen ms last,
  forallb plain_rune t = true -> (length (t ++ R) < f)%nat ->
  exists p', main_loop f {| rest := t ++ R; sp := p |} bld blen ms last
    = main_loop (f - length t) {| rest := R; sp := p' |} (rev t ++ bld) (blen + Z.of_nat (length t)) ms (lastr t last).
Proof.
  induction t as [|c t IH]; intros R f p bld blen ms last Hp Hf.
  - exists p. cbn [app length rev lastr]. rewrite Nat.sub_0_r, Z.add_0_r. reflexivity.
  - destruct f; [cbn in Hf; lia|]. cbn [forallb] in Hp. apply andb_true_iff in Hp as [Hc Ht].
    unfold plain_rune in Hc. apply andb_true_iff in Hc as [H1 H2]. apply negb_true_iff in H1, H2.
    cbn [app main_loop rest sp]. rewrite H2, H1. cbn [andb].
    destruct (IH R f (p + 1) (c :: bld) (blen + 1) ms c Ht) as (p' & E); [cbn [app length] in Hf; lia|].
    exists p'. rewrite E. cbn [length rev lastr]. rewrite <- app_assoc. cbn [app].
    replace (blen + 1 + Z.of_nat (length t)) with (blen + Z.of_nat (S (length t))) by lia. reflexivity.
Qed.

Lemma find_colon_none : forall l i, forallb CP.no_colon l = true -> find_colon l i = None.
Proof.
  induction l as [|c l IH]; intros i H; [reflexivity|]. cbn [forallb] in H. apply andb_true_iff in H as [H1 H2].
  cbn [find_colon]. unfold CP.no_colon in H1. apply negb_true_iff in H1. rewrite H1. apply IH. exact H2.
Qed.

Theorem self_closing_trims_one_blank n ps a ws b :
  name_ok n -> Forall prop_ok ps -> get_prop (pvalues ps) (STR "trimwhitespace") = None ->
  str_eqb n (STR "character") = false ->
  forallb plain_rune a = true -> forallb plain_rune b = true ->
  forallb CP.no_colon a = true -> forallb CP.no_colon b = true ->
  is_space ws = true ->
  (Z.of_nat (length a) =? 0) || is_space (lastr a 0%N) = true ->      (* at the start or after a blank *)
  no_edge_space (a ++ b) ->
  exists src, parse_markup (a ++ 91%N :: w_self n ps ++ ws :: b) =
    Some (a ++ b, [{| aname := n; apos := Z.of_nat (length a); alen := 0; asrc := src;
                      aprops := props_map (pvalues ps) |}]).
Proof.
  intros Hn Hps Htw Hnc Ha Hb Hca Hcb Hws Hhad (Ht1 & Ht2).
  pose proof (self_form_written n ps Hn Hps) as Hw.
  unfold parse_markup.
  set (R := 91%N :: w_self n ps ++ ws :: b).
  destruct (main_loop_plain_app_last a R (S (length (a ++ R))) 0 [] 0 [] 0%N Ha) as (p1 & E1); [lia|].
  rewrite E1. clear E1. rewrite app_nil_r.
  replace (S (length (a ++ R)) - length a)%nat with (S (S (length (w_self n ps ++ ws :: b)))).
  2:{ unfold R. rewrite !app_length. cbn [length]. rewrite !app_length. cbn [length]. lia. }
  set (f' := S (length (w_self n ps ++ ws :: b))). unfold R. cbn [main_loop rest sp]. change (91 =? 92)%N with false. cbn [andb].
  change (91 =? 91)%N with true. cbv iota.
  destruct (Hw (ws :: b) p1 (0 + Z.of_nat (length a))) as (src & p2 & Em).
  rewrite Em. destruct Hn as (Hne & Hid & Hproc). cbv beta iota. cbn [mname]. rewrite Hproc. cbv beta iota zeta.
  cbn [mprops mtype mname]. rewrite Htw.
  replace ((0 + Z.of_nat (length a) =? 0) || is_space (lastr a 0%N)) with true by (rewrite Z.add_0_l; symmetry; exact Hhad).
  cbn [negb andb peek rest]. rewrite Hws. cbn [tl rev app length]. rewrite Z.add_0_r.
  subst f'. rewrite main_loop_plain; [|exact Hb|rewrite app_length; cbn [length]; lia].
  rewrite rev_involutive. cbn [app build_attrs mtype attr_of mname mpos msrc mprops sort_attrs fold_right insert_attr existsb aname].
  rewrite Hnc. cbn [orb].
  assert (Hcab : forallb CP.no_colon (a ++ b) = true) by (rewrite forallb_app, Hca, Hcb; reflexivity).
  rewrite (find_colon_none _ 0%nat Hcab).
  assert (Etrim : trim_space (a ++ b) = a ++ b) by (unfold trim_space; rewrite Ht1, Ht2; apply rev_involutive).
  rewrite Etrim, Ht1. exists src. cbn [map aname apos alen asrc aprops]. f_equal. f_equal. f_equal.
  unfold clampz, attr_of. cbn [aname apos alen asrc aprops mname mpos msrc mprops]. rewrite !app_length. f_equal; lia.
Qed.

(* the converse: after a character that is not a blank nothing is swallowed, whatever follows *)
Theorem self_closing_after_nonblank_keeps n ps a b :
  name_ok n -> Forall prop_ok ps -> get_prop (pvalues ps) (STR "trimwhitespace") = None ->
  str_eqb n (STR "character") = false ->
  forallb plain_rune a = true -> forallb plain_rune b = true ->
  forallb CP.no_colon a = true -> forallb CP.no_colon b = true ->
  (Z.of_nat (length a) =? 0) || is_space (lastr a 0%N) = false ->      (* not at the start, not after a blank *)
  no_edge_space (a ++ b) ->
  exists src, parse_markup (a ++ 91%N :: w_self n ps ++ b) =
    Some (a ++ b, [{| aname := n; apos := Z.of_nat (length a); alen := 0; asrc := src;
                      aprops := props_map (pvalues ps) |}]).
Proof.
  intros Hn Hps Htw Hnc Ha Hb Hca Hcb Hhad (Ht1 & Ht2).
  pose proof (self_form_written n ps Hn Hps) as Hw.
  unfold parse_markup.
  set (R := 91%N :: w_self n ps ++ b).
  destruct (main_loop_plain_app_last a R (S (length (a ++ R))) 0 [] 0 [] 0%N Ha) as (p1 & E1); [lia|].
  rewrite E1. clear E1. rewrite app_nil_r.
  replace (S (length (a ++ R)) - length a)%nat with (S (S (length (w_self n ps ++ b)))).
  2:{ unfold R. rewrite !app_length. cbn [length]. rewrite !app_length. lia. }
  set (f' := S (length (w_self n ps ++ b))). unfold R. cbn [main_loop rest sp]. change (91 =? 92)%N with false. cbn [andb].
  change (91 =? 91)%N with true. cbv iota.
  destruct (Hw b p1 (0 + Z.of_nat (length a))) as (src & p2 & Em).
  rewrite Em. destruct Hn as (Hne & Hid & Hproc). cbv beta iota. cbn [mname]. rewrite Hproc. cbv beta iota zeta.
  cbn [mprops mtype mname].
  replace ((0 + Z.of_nat (length a) =? 0) || is_space (lastr a 0%N)) with false by (rewrite Z.add_0_l; symmetry; exact Hhad).
  cbn [andb rev app length]. rewrite Z.add_0_r.
  subst f'. rewrite main_loop_plain; [|exact Hb|rewrite app_length; lia].
  rewrite rev_involutive. cbn [app build_attrs mtype attr_of mname mpos msrc mprops sort_attrs fold_right insert_attr existsb aname].
  rewrite Hnc. cbn [orb].
  assert (Hcab : forallb CP.no_colon (a ++ b) = true) by (rewrite forallb_app, Hca, Hcb; reflexivity).
  rewrite (find_colon_none _ 0%nat Hcab).
  assert (Etrim : trim_space (a ++ b) = a ++ b) by (unfold trim_space; rewrite Ht1, Ht2; apply rev_involutive).
  rewrite Etrim, Ht1. exists src. cbn [map aname apos alen asrc aprops]. f_equal. f_equal. f_equal.
  unfold clampz, attr_of. cbn [aname apos alen asrc aprops mname mpos msrc mprops]. rewrite !app_length. f_equal; lia.
Qed.

(* a property trimwhitespace=false switches the rule off: nothing is swallowed wherever the marker stands *)
Theorem self_closing_trimwhitespace_false n ps a b :
  name_ok n -> Forall prop_ok ps -> get_prop (pvalues ps) (STR "trimwhitespace") = Some (MBool false) ->
  str_eqb n (STR "character") = false ->
  forallb plain_rune a = true -> forallb plain_rune b = true ->
  forallb CP.no_colon a = true -> forallb CP.no_colon b = true ->
  no_edge_space (a ++ b) ->
  exists src, parse_markup (a ++ 91%N :: w_self n ps ++ b) =
    Some (a ++ b, [{| aname := n; apos := Z.of_nat (length a); alen := 0; asrc := src;
                      aprops := props_map (pvalues ps) |}]).
Proof.
  intros Hn Hps Htw Hnc Ha Hb Hca Hcb (Ht1 & Ht2).
  pose proof (self_form_written n ps Hn Hps) as Hw.
  unfold parse_markup.
  set (R := 91%N :: w_self n ps ++ b).
  destruct (main_loop_plain_app_last a R (S (length (a ++ R))) 0 [] 0 [] 0%N Ha) as (p1 & E1); [lia|].
  rewrite E1. clear E1. rewrite app_nil_r.
  replace (S (length (a ++ R)) - length a)%nat with (S (S (length (w_self n ps ++ b)))).
  2:{ unfold R. rewrite !app_length. cbn [length]. rewrite !app_length. lia. }
  set (f' := S (length (w_self n ps ++ b))). unfold R. cbn [main_loop rest sp]. change (91 =? 92)%N with false. cbn [andb].
  change (91 =? 91)%N with true. cbv iota.
  destruct (Hw b p1 (0 + Z.of_nat (length a))) as (src & p2 & Em).
  rewrite Em. destruct Hn as (Hne & Hid & Hproc). cbv beta iota. cbn [mname]. rewrite Hproc. cbv beta iota zeta.
  cbn [mprops mtype mname]. rewrite Htw.
  assert (Etr : (if (0 + Z.of_nat (length a) =? 0) || is_space (lastr a 0%N) then Some false else Some false) = Some false)
    by (destruct ((0 + Z.of_nat (length a) =? 0) || is_space (lastr a 0%N)); reflexivity).
  rewrite Etr. cbn [andb rev app length]. rewrite Z.add_0_r.
  subst f'. rewrite main_loop_plain; [|exact Hb|rewrite app_length; lia].
  rewrite rev_involutive. cbn [app build_attrs mtype attr_of mname mpos msrc mprops sort_attrs fold_right insert_attr existsb aname].
  rewrite Hnc. cbn [orb].
  assert (Hcab : forallb CP.no_colon (a ++ b) = true) by (rewrite forallb_app, Hca, Hcb; reflexivity).
  rewrite (find_colon_none _ 0%nat Hcab).
  assert (Etrim : trim_space (a ++ b) = a ++ b) by (unfold trim_space; rewrite Ht1, Ht2; apply rev_involutive).
  rewrite Etrim, Ht1. exists src. cbn [map aname apos alen asrc aprops]. f_equal. f_equal. f_equal.
  unfold clampz, attr_of. cbn [aname apos alen asrc aprops mname mpos msrc mprops]. rewrite !app_length. f_equal; lia.
Qed.
