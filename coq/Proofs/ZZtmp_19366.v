(* C13, the main statement for documents built from plain text, escaped brackets and open / close /
   close-all markers: parsing gives back exactly the plain text, and one attribute per closed marker
   whose position and length delimit exactly the text the marker enclosed - nested, overlapping and
   repeated markers alike - so that TextForAttribute returns the enclosed text.
   "Enclosed text" is defined on the document itself (DocSpec below: a stack of open markers, each
   accumulating the text that follows it), independently of positions. *)
From Coq Require Import List ZArith NArith Bool Lia.
From YS Require Import Base.Sexp Yarn.Ast Yarn.Value Markup.LineParser Proofs.MarkupProofs.
Import ListNotations.
Local Open Scope Z_scope.

(* ---------- characters ---------- *)
Definition space_points : list N :=
  [9; 10; 11; 12; 13; 32; 133; 160; 5760; 8192; 8193; 8194; 8195; 8196; 8197; 8198; 8199; 8200; 8201; 8202;
   8232; 8233; 8239; 8287; 12288]%N.

Lemma is_space_points c : is_space c = true -> In c space_points.
Proof.
  unfold is_space. intros H.
  repeat match type of H with
         | (_ || _)%bool = true => apply orb_true_iff in H; destruct H as [H|H]
         end;
  repeat match goal with
         | H : (_ && _)%bool = true |- _ => apply andb_true_iff in H; destruct H
         | H : (_ =? _)%N = true |- _ => apply N.eqb_eq in H
         | H : (_ <=? _)%N = true |- _ => apply N.leb_le in H
         end; subst; unfold space_points; cbn [In].
  - assert (c = 9 \/ c = 10 \/ c = 11 \/ c = 12 \/ c = 13)%N by lia. intuition.
  - intuition.
  - intuition.
  - intuition.
  - intuition.
  - assert (c = 8192 \/ c = 8193 \/ c = 8194 \/ c = 8195 \/ c = 8196 \/ c = 8197 \/ c = 8198 \/ c = 8199
            \/ c = 8200 \/ c = 8201 \/ c = 8202)%N by lia. intuition.
  - intuition.
  - intuition.
  - intuition.
  - intuition.
  - intuition.
Qed.

Lemma space_points_not_id : forallb (fun c => negb (is_id_char c)) space_points = true.
Proof. vm_compute. reflexivity. Qed.

Lemma id_not_space c : is_id_char c = true -> is_space c = false.
Proof.
  intros H. destruct (is_space c) eqn:E; [|reflexivity].
  apply is_space_points in E. pose proof space_points_not_id as F. rewrite forallb_forall in F.
  specialize (F c E). rewrite H in F. discriminate F.
Qed.

Lemma id_not c x : is_id_char x = false -> is_id_char c = true -> (c =? x)%N = false.
Proof. intros Hx Hc. destruct (c =? x)%N eqn:E; [|reflexivity]. apply N.eqb_eq in E. subst. congruence. Qed.

Lemma not_id_47 : is_id_char 47 = false. Proof. vm_compute. reflexivity. Qed.
Lemma not_id_93 : is_id_char 93 = false. Proof. vm_compute. reflexivity. Qed.
Lemma not_id_61 : is_id_char 61 = false. Proof. vm_compute. reflexivity. Qed.
Lemma not_space_93 : is_space 93 = false. Proof. reflexivity. Qed.
Lemma not_space_47 : is_space 47 = false. Proof. reflexivity. Qed.

(* ---------- marker syntax ---------- *)
Definition name_ok (n : str) : Prop := n <> [] /\ forallb is_id_char n = true /\ processor_of n = None.

Lemma consume_ws_nonspace c t p : is_space c = false -> consume_ws {| rest := c :: t; sp := p |} = {| rest := c :: t; sp := p |}.
Proof. intros H. unfold consume_ws. cbn [rest sp consume_ws_list]. rewrite H. reflexivity. Qed.

Lemma take_while_app ok a : forall c t p acc, forallb ok a = true -> ok c = false ->
  take_while ok (a ++ c :: t) p acc = (rev acc ++ a, {| rest := c :: t; sp := p + Z.of_nat (length a) |}).
Proof.
  induction a as [|x a IH]; intros c t p acc Ha Hc.
  - cbn [app take_while length]. rewrite Hc, app_nil_r. f_equal. f_equal. cbn. lia.
  - cbn [forallb] in Ha. apply andb_true_iff in Ha as [Hx Ha]. cbn [app take_while]. rewrite Hx.
    rewrite IH by assumption. cbn [rev length]. rewrite <- app_assoc. cbn [app]. f_equal. f_equal. lia.
Qed.

(* parseID on "name]..." *)
Lemma parse_id_name n tl p : name_ok n ->
  exists p', parse_id {| rest := n ++ 93%N :: tl; sp := p |} = Some (n, {| rest := 93%N :: tl; sp := p' |}).
Proof.
  intros (Hne & Hid & _). destruct n as [|c n']; [contradiction|].
  cbn [forallb] in Hid. apply andb_true_iff in Hid as [Hc Hn].
  unfold parse_id. cbn [app]. rewrite consume_ws_nonspace by (apply id_not_space; exact Hc).
  cbn [rest sp]. rewrite Hc. rewrite take_while_app by (assumption || exact not_id_93).
  cbn [rev app]. eexists. reflexivity.
Qed.

Lemma parse_rune_here c t p : is_space c = false ->
  parse_rune {| rest := c :: t; sp := p |} c = Some {| rest := t; sp := p + 1 |}.
Proof.
  intros H. unfold parse_rune. rewrite consume_ws_nonspace by exact H. cbn [rest sp]. rewrite N.eqb_refl. reflexivity.
Qed.

Lemma expect_peek_other c x t p : is_space c = false -> (c =? x)%N = false ->
  expect_peek {| rest := c :: t; sp := p |} x = (false, {| rest := c :: t; sp := p |}).
Proof.
  intros Hs Hx. unfold expect_peek. rewrite consume_ws_nonspace by exact Hs. unfold peek. cbn [rest]. rewrite Hx. reflexivity.
Qed.

Lemma expect_peek_same c t p : is_space c = false ->
  expect_peek {| rest := c :: t; sp := p |} c = (true, {| rest := c :: t; sp := p |}).
Proof.
  intros Hs. unfold expect_peek. rewrite consume_ws_nonspace by exact Hs. unfold peek. cbn [rest]. rewrite N.eqb_refl. reflexivity.
Qed.

(* "[name]" *)
Lemma parse_marker_open n tl p pos : name_ok n ->
  exists src p', parse_marker {| rest := n ++ 93%N :: tl; sp := p |} pos
    = Some ({| mname := n; mpos := pos; msrc := src; mprops := []; mtype := TOpen |}, {| rest := tl; sp := p' |}).
Proof.
  intros Hn. pose proof Hn as (Hne & Hid & _). destruct n as [|c n'] eqn:En; [contradiction|]. rewrite <- En in *.
  assert (Hc : is_id_char c = true) by (rewrite En in Hid; cbn [forallb] in Hid; apply andb_true_iff in Hid; tauto).
  unfold parse_marker. cbn [rest sp].
  assert (E1 : expect_peek {| rest := n ++ 93%N :: tl; sp := p + 1 |} 47%N = (false, {| rest := n ++ 93%N :: tl; sp := p + 1 |})).
  { rewrite En. cbn [app]. apply expect_peek_other; [apply id_not_space; exact Hc|apply id_not; [exact not_id_47|exact Hc]]. }
  rewrite E1. destruct (parse_id_name n tl (p + 1) Hn) as (p1 & E2). rewrite E2.
  rewrite (expect_peek_other 93 61 tl p1) by reflexivity.
  cbn [rest length parse_props]. rewrite consume_ws_nonspace by reflexivity. unfold peek. cbn [rest].
  change (93 =? 93)%N with true. cbv iota. rewrite parse_rune_here by reflexivity.
  eexists _, _. reflexivity.
Qed.

(* "[/name]" *)
Lemma parse_marker_close n tl p pos : name_ok n ->
  exists src p', parse_marker {| rest := 47%N :: n ++ 93%N :: tl; sp := p |} pos
    = Some ({| mname := n; mpos := pos; msrc := src; mprops := []; mtype := TClose |}, {| rest := tl; sp := p' |}).
Proof.
  intros Hn. pose proof Hn as (Hne & Hid & _). destruct n as [|c n'] eqn:En; [contradiction|]. rewrite <- En in *.
  assert (Hc : is_id_char c = true) by (rewrite En in Hid; cbn [forallb] in Hid; apply andb_true_iff in Hid; tauto).
  unfold parse_marker. cbn [rest sp].
  rewrite expect_peek_same by reflexivity. rewrite parse_rune_here by reflexivity.
  assert (E1 : expect_peek {| rest := n ++ 93%N :: tl; sp := p + 1 + 1 |} 93%N = (false, {| rest := n ++ 93%N :: tl; sp := p + 1 + 1 |})).
  { rewrite En. cbn [app]. apply expect_peek_other; [apply id_not_space; exact Hc|apply id_not; [exact not_id_93|exact Hc]]. }
  rewrite E1. destruct (parse_id_name n tl (p + 1 + 1) Hn) as (p1 & E2). rewrite E2.
  rewrite parse_rune_here by reflexivity. eexists _, _. reflexivity.
Qed.

(* "[/]" *)
Lemma parse_marker_close_all tl p pos :
  exists src p', parse_marker {| rest := 47%N :: 93%N :: tl; sp := p |} pos
    = Some ({| mname := []; mpos := pos; msrc := src; mprops := []; mtype := TCloseAll |}, {| rest := tl; sp := p' |}).
Proof.
  unfold parse_marker. cbn [rest sp].
  rewrite expect_peek_same by reflexivity. rewrite parse_rune_here by reflexivity.
  rewrite expect_peek_same by reflexivity. rewrite parse_rune_here by reflexivity.
  eexists _, _. reflexivity.
Qed.

(* ---------- documents ---------- *)
Inductive item := IText (t : str) | IBr (c : N) | IOpen (n : str) | IClose (n : str) | ICloseAll.

Definition render1 (i : item) : str :=
  match i with
  | IText t => t
  | IBr c => [92%N; c]
  | IOpen n => 91%N :: n ++ [93%N]
  | IClose n => 91%N :: 47%N :: n ++ [93%N]
  | ICloseAll => [91%N; 47%N; 93%N]
  end.
Definition render (its : list item) : str := flat_map render1 its.
Definition text1 (i : item) : str := match i with IText t => t | IBr c => [c] | _ => [] end.
Definition text (its : list item) : str := flat_map text1 its.

Definition item_ok (i : item) : Prop :=
  match i with
  | IText t => forallb plain_rune t = true            (* neither '[' nor a backslash *)
  | IBr c => c = 91%N \/ c = 93%N
  | IOpen n | IClose n => name_ok n
  | ICloseAll => True
  end.

(* the markers of a document with the text position each one sits at *)
Definition amark := (str * Z * tagtype)%type.
Fixpoint amarks (its : list item) (p : Z) : list amark :=
  match its with
  | [] => []
  | IText t :: r => amarks r (p + Z.of_nat (length t))
  | IBr _ :: r => amarks r (p + 1)
  | IOpen n :: r => (n, p, TOpen) :: amarks r p
  | IClose n :: r => (n, p, TClose) :: amarks r p
  | ICloseAll :: r => ([], p, TCloseAll) :: amarks r p
  end.
Definition mrel (m : marker) (a : amark) : Prop :=
  mname m = fst (fst a) /\ mpos m = snd (fst a) /\ mtype m = snd a /\ mprops m = [].

Lemma main_loop_plain_app : forall t R f p bld blen ms last,
  forallb plain_rune t = true -> (length (t ++ R) < f)%nat ->
  exists p' last', main_loop f {| rest := t ++ R; sp := p |} bld blen ms last
    = main_loop (f - length t) {| rest := R; sp := p' |} (rev t ++ bld) (blen + Z.of_nat (length t)) ms last'.
Proof.
  induction t as [|c t IH]; intros R f p bld blen ms last Hp Hf.
  - exists p, last. cbn [app length rev]. rewrite Nat.sub_0_r, Z.add_0_r. reflexivity.
  - destruct f; [cbn in Hf; lia|]. cbn [forallb] in Hp. apply andb_true_iff in Hp as [Hc Ht].
    unfold plain_rune in Hc. apply andb_true_iff in Hc as [H1 H2]. apply negb_true_iff in H1, H2.
    cbn [app main_loop rest]. rewrite H2, H1. cbn [andb].
    destruct (IH R f (p + 1) (c :: bld) (blen + 1) ms c Ht) as (p' & last' & E); [cbn [app length] in Hf; lia|].
Show.
    exists p', last'. rewrite E. cbn [length rev]. rewrite <- app_assoc. cbn [app].
    replace (blen + 1 + Z.of_nat (length t)) with (blen + Z.of_nat (S (length t))) by lia. reflexivity.
Qed.

Lemma trim_none (had : bool) (m : marker) : mprops m = [] -> mtype m <> TSelfClosing ->
  (if had then
     match get_prop (mprops m) (STR "trimwhitespace") with
     | Some (MBool b) => Some b
     | Some _ => None
     | None => Some (match mtype m with TSelfClosing => negb false | _ => false end)
     end
   else Some false) = Some false.
Proof. intros Hp Ht. rewrite Hp. destruct had; [|reflexivity]. cbn [get_prop]. destruct (mtype m); try reflexivity. contradiction. Qed.

(* one marker at the head of the input, given what parse_marker answers *)
Lemma main_loop_marker f tl0 p bld blen ms last m tl p' :
  parse_marker {| rest := tl0; sp := p |} blen = Some (m, {| rest := tl; sp := p' |}) ->
  processor_of (mname m) = None -> mprops m = [] -> mtype m <> TSelfClosing ->
  main_loop (S f) {| rest := 91%N :: tl0; sp := p |} bld blen ms last
  = main_loop f {| rest := tl; sp := p' |} bld blen (ms ++ [m]) 91%N.
Proof.
  intros Hm Hproc Hp Ht. cbn [main_loop rest sp]. change (91 =? 92)%N with false. cbn [andb].
  change (91 =? 91)%N with true. cbv iota. rewrite Hm, Hproc. cbv beta iota zeta.
  rewrite (trim_none _ m Hp Ht). cbn [andb rev app length]. rewrite Z.add_0_r. reflexivity.
Qed.

Lemma main_loop_items : forall its R f p bld blen ms last,
  Forall item_ok its -> (length (render its ++ R) < f)%nat ->
  exists p' last' ms', Forall2 mrel ms' (amarks its blen) /\
    main_loop f {| rest := render its ++ R; sp := p |} bld blen ms last
    = main_loop (S (length R)) {| rest := R; sp := p' |} (rev (text its) ++ bld)
                (blen + Z.of_nat (length (text its))) (ms ++ ms') last'.
Proof.
  induction its as [|i its IH]; intros R f p bld blen ms last Hok Hf.
  - exists p, last, []. split; [constructor|]. cbn [render text flat_map app rev length].
    rewrite Z.add_0_r, app_nil_r. apply main_loop_fuel; cbn [rest app] in *; lia.
  - inversion Hok as [|? ? Hi Hr]; subst.
    cbn [render flat_map] in *. change (flat_map render1 its) with (render its) in *. rewrite <- app_assoc in *.
    cbn [text flat_map]. change (flat_map text1 its) with (text its).
    destruct i as [t|c|n|n|]; cbn [render1 text1 item_ok amarks] in *.
    + (* text *)
      destruct (main_loop_plain_app t (render its ++ R) f p bld blen ms last Hi Hf) as (p1 & l1 & E1).
      destruct (IH R (f - length t)%nat p1 (rev t ++ bld) (blen + Z.of_nat (length t)) ms l1 Hr) as (p2 & l2 & ms' & F & E2).
      { rewrite app_length in Hf. lia. }
      exists p2, l2, ms'. split; [exact F|]. rewrite E1, E2. rewrite rev_app_distr, app_length, <- app_assoc.
      replace (blen + Z.of_nat (length t) + Z.of_nat (length (text its))) with (blen + Z.of_nat (length t + length (text its))) by lia.
      reflexivity.
    + (* escaped bracket *)
      destruct f; [cbn in Hf; lia|]. cbn [app main_loop rest sp].
      change (92 =? 92)%N with true. assert (Eb : ((c =? 91) || (c =? 93))%N = true) by (destruct Hi; subst; reflexivity).
      rewrite Eb. cbn [andb].
      destruct (IH R f (p + 1) (c :: bld) (blen + 1) ms last Hr) as (p2 & l2 & ms' & F & E2).
      { cbn [app length] in Hf. lia. }
      exists p2, l2, ms'. split; [exact F|]. rewrite E2. cbn [rev app length]. rewrite <- app_assoc. cbn [app].
      replace (blen + 1 + Z.of_nat (length (text its))) with (blen + Z.of_nat (S (length (text its)))) by lia. reflexivity.
    + (* [name] *)
      destruct f; [cbn in Hf; lia|]. cbn [app]. rewrite <- app_assoc. cbn [app].
      destruct (parse_marker_open n (render its ++ R) p blen Hi) as (src & p1 & Em).
      rewrite (main_loop_marker f _ p bld blen ms last _ _ p1 Em); cbn [mname mprops mtype]; try (apply Hi || reflexivity || discriminate).
      destruct (IH R f p1 bld blen (ms ++ [{| mname := n; mpos := blen; msrc := src; mprops := []; mtype := TOpen |}]) 91%N Hr) as (p2 & l2 & ms' & F & E2).
      { cbn [app length] in Hf. rewrite !app_length in Hf. cbn [length] in Hf. rewrite app_length. lia. }
      eexists p2, l2, (_ :: ms'). split; [constructor; [|exact F]; repeat split|].
      rewrite E2, <- app_assoc. cbn [app length]. rewrite Z.add_0_r. reflexivity.
    + (* [/name] *)
      destruct f; [cbn in Hf; lia|]. cbn [app]. rewrite <- app_assoc. cbn [app].
      destruct (parse_marker_close n (render its ++ R) p blen Hi) as (src & p1 & Em).
      rewrite (main_loop_marker f _ p bld blen ms last _ _ p1 Em); cbn [mname mprops mtype]; try (apply Hi || reflexivity || discriminate).
      destruct (IH R f p1 bld blen (ms ++ [{| mname := n; mpos := blen; msrc := src; mprops := []; mtype := TClose |}]) 91%N Hr) as (p2 & l2 & ms' & F & E2).
      { cbn [app length] in Hf. rewrite !app_length in Hf. cbn [length] in Hf. rewrite app_length. lia. }
      eexists p2, l2, (_ :: ms'). split; [constructor; [|exact F]; repeat split|].
      rewrite E2, <- app_assoc. cbn [app length]. rewrite Z.add_0_r. reflexivity.
    + (* [/] *)
      destruct f; [cbn in Hf; lia|]. cbn [app].
      destruct (parse_marker_close_all (render its ++ R) p blen) as (src & p1 & Em).
      rewrite (main_loop_marker f _ p bld blen ms last _ _ p1 Em); cbn [mname mprops mtype]; try (reflexivity || discriminate).
      destruct (IH R f p1 bld blen (ms ++ [{| mname := []; mpos := blen; msrc := src; mprops := []; mtype := TCloseAll |}]) 91%N Hr) as (p2 & l2 & ms' & F & E2).
      { cbn [app length] in Hf. rewrite app_length. rewrite app_length in Hf. lia. }
      eexists p2, l2, (_ :: ms'). split; [constructor; [|exact F]; repeat split|].
      rewrite E2, <- app_assoc. cbn [app length]. rewrite Z.add_0_r. reflexivity.
Qed.
