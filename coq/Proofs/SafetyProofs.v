(* C06 (no panic, faults are errors), C10 (pending command automaton), C07 (snapshots) on the
   runner model. *)
From Coq Require Import List ZArith NArith Bool Lia.
From YS Require Import Base.Sexp Num.F64 Num.Decimal Yarn.Ast Yarn.Value Yarn.Eval Markup.LineParser Yarn.Runner
     Spec.SetSpec Proofs.AListProofs Proofs.RunnerInv Proofs.FlowProofs Proofs.SetProofs.
Import ListNotations.

(* ================= C06 ================= *)
(* evaluation never panics: every fault is an error value *)
Ltac hstep := match goal with
  | H : (if ?x then _ else _) = Some _ |- _ => destruct x
  | H : match ?x with _ => _ end = Some _ |- _ => destruct x
  | H : Some _ = Some _ |- _ => inversion H; subst; clear H
  | H : None = Some _ |- _ => discriminate H
  end.
Ltac gbreak := repeat match goal with
  | |- context [match ?x with _ => _ end] => destruct x
  | |- context [if ?x then _ else _] => destruct x
  end.

Lemma call_probe_no_crash f args e r : call_probe f args e = Some r -> fst r <> Crash.
Proof. unfold call_probe. intros H. repeat hstep; cbn; gbreak; discriminate. Qed.

Lemma call_builtin_no_crash v f args e r : call_builtin v f args e = Some r -> fst r <> Crash.
Proof. unfold call_builtin, num1. intros H. repeat hstep; cbn; gbreak; discriminate. Qed.

Lemma call_function_no_crash v f args e : fst (call_function v f args e) <> Crash.
Proof.
  unfold call_function.
  destruct (call_probe f args e) as [r|] eqn:E1; [apply (call_probe_no_crash _ _ _ _ E1)|].
  destruct (call_builtin v f args e) as [r|] eqn:E2; [apply (call_builtin_no_crash _ _ _ _ _ E2)|].
  discriminate.
Qed.

Lemma eval_no_crash v : forall x e, fst (eval v x e) <> Crash.
Proof.
  fix IH 1. intros x e. destruct x as [a|id|f args|a|a|o l r|]; cbn [eval].
  - discriminate.
  - destruct (st_get (rvars v) id); discriminate.
  - match goal with |- context [?F args e] =>
      assert (HA : forall l0 e0, fst (F l0 e0) <> Crash);
      [ fix IHl 1; intros l0 e0; destruct l0 as [|a0 r0]; [discriminate|];
        pose proof (IH a0 e0) as Ha; cbn; destruct (eval v a0 e0) as [[va| |] e1]; cbn [fst] in *;
        [|discriminate|congruence];
        pose proof (IHl r0 e1) as Hr; destruct (F r0 e1) as [[vr| |] e2]; cbn [fst] in *;
        [discriminate|discriminate|congruence]
      | pose proof (HA args e) as H; destruct (F args e) as [[vs| |] e1]; cbn [fst] in *;
        [|discriminate|congruence] ]
    end.
    pose proof (call_function_no_crash v f vs e1) as Hc.
    destruct (call_function v f vs e1) as [[[r0|]| |] e2]; cbn [fst] in *; try discriminate. congruence.
  - pose proof (IH a e) as H. destruct (eval v a e) as [[[n|b|t]| |] e1]; cbn [fst] in *; try discriminate. congruence.
  - pose proof (IH a e) as H. destruct (eval v a e) as [[[n|b|t]| |] e1]; cbn [fst] in *; try discriminate. congruence.
  - pose proof (IH l e) as Hl. destruct (eval v l e) as [[lv| |] e1]; cbn [fst] in *; [|discriminate|congruence].
    match goal with |- context [match ?ls with Some _ => _ | None => _ end] => destruct ls as [res|] eqn:El end.
    + destruct o, lv as [n|[|]|t]; inversion El; subst; discriminate.
    + pose proof (IH r e1) as Hr. destruct (eval v r e1) as [[rv| |] e2]; cbn [fst] in *; [|discriminate|congruence].
      destruct (same_type lv rv); [|discriminate].
      destruct o, lv, rv; discriminate.
  - discriminate.
Qed.

Lemma eval_in_no_crash s x : fst (eval_in s x) <> Crash.
Proof. unfold eval_in. pose proof (eval_no_crash (renv_of s) x (fe s)) as H.
  destruct (eval (renv_of s) x (fe s)). exact H. Qed.

Lemma render_parts_no_crash ps : forall s acc, fst (render_parts s ps acc) <> Crash.
Proof.
  induction ps as [|p ps IH]; intros s acc; cbn [render_parts]; [discriminate|].
  destruct p as [t|x]; [apply IH|].
  pose proof (eval_in_no_crash s x) as H. destruct (eval_in s x) as [[v| |] s1]; cbn [fst] in *;
    [apply IH|discriminate|congruence].
Qed.

Lemma render_line_no_crash s l : fst (render_line s l) <> Crash.
Proof.
  unfold render_line. pose proof (render_parts_no_crash (ltext l) s []) as H.
  destruct (render_parts s (ltext l) []) as [[t| |] s1]; cbn [fst] in *; [|discriminate|congruence].
  destruct (parse_markup t) as [[t' a]|]; discriminate.
Qed.

Lemma render_options_no_crash os : forall s, fst (render_options s os) <> Crash.
Proof.
  induction os as [|[l b] os IH]; intros s; cbn [render_options]; [discriminate|].
  pose proof (render_line_no_crash s l) as H.
  destruct (render_line s l) as [[rl| |] s1]; cbn [fst] in *; [|discriminate|congruence].
  destruct (lcond l) as [c|].
  - pose proof (eval_in_no_crash s1 c) as H2.
    destruct (eval_in s1 c) as [[[n|b0|t]| |] s2]; cbn [fst] in *; try discriminate; [|congruence].
    specialize (IH s2). destruct (render_options s2 os) as [[r| |] s3]; cbn [fst] in *; try discriminate. congruence.
  - specialize (IH s1). destruct (render_options s1 os) as [[r| |] s3]; cbn [fst] in *; try discriminate. congruence.
Qed.

Lemma exec_if_no_crash cs : forall s, fst (exec_if cs s) <> Crash.
Proof.
  induction cs as [|[c b] cs IH]; intros s; cbn [exec_if]; [discriminate|].
  pose proof (eval_in_no_crash s c) as H.
  destruct (eval_in s c) as [[[n|[|]|t]| |] s1]; cbn [fst] in *; try discriminate; [apply IH|congruence].
Qed.

(* the only panic left in Next: an out-of-range choice while an option group is waiting *)
Definition choice_ok (m : rstate) (c : Z) : Prop := chosen_body (last_opts m) c <> None.

Theorem next_no_panic d : forall fm m c, choice_ok m c -> fst (next d fm m c) <> NPanic.
Proof.
  induction fm as [|fm IH]; intros m c Hc; [discriminate|].
  cbn [next]. destruct (poll (dat m)) as [[r0|] s0] eqn:Ep.
  - unfold poll in Ep. destruct (pending (dat m)) as [[[|n] [|]]|]; inversion Ep; discriminate.
  - unfold choice_ok in Hc. destruct (chosen_body (last_opts m) c) as [b|] eqn:Ec; [|congruence].
    assert (Hnone : forall st lo ds c', last_opts (mk st lo ds) = None -> choice_ok (mk st lo ds) c')
      by (intros st lo ds c' E; unfold choice_ok; rewrite E; discriminate).
    destruct (if is_nil b then stack m else b :: stack m) as [|[|st q] rest] eqn:Es; [discriminate| |].
    + (* pop: the option group is still waiting and the same choice is re-applied *)
      apply IH. unfold choice_ok. cbn [last_opts mk]. rewrite Ec. discriminate.
    + destruct st as [l|os|x op e|e|cs|es|fn args|x e].
      * pose proof (render_line_no_crash s0 l) as H. destruct (render_line s0 l) as [[rl| |] s3]; cbn [fst] in *; try discriminate. congruence.
      * pose proof (render_options_no_crash os s0) as H. destruct (render_options s0 os) as [[ros| |] s3]; cbn [fst] in *; try discriminate. congruence.
      * destruct (exec_set x op e s0) as [[|] s3]; [apply IH, Hnone; reflexivity|discriminate].
      * destruct (exec_jump d e s0) as [[b'|] s3]; [apply IH, Hnone; reflexivity|discriminate].
      * pose proof (exec_if_no_crash cs s0) as H.
        destruct (exec_if cs s0) as [[[b'|]| |] s3]; cbn [fst] in *; try discriminate;
          try (apply IH, Hnone; reflexivity). congruence.
      * destruct (exec_command es s0) as [[| | |] s3]; try discriminate. apply IH, Hnone; reflexivity.
      * destruct (exec_call fn args s0) as [[|] s3]; [apply IH, Hnone; reflexivity|discriminate].
      * destruct (exec_set x SAssign e s0) as [[|] s3]; [apply IH, Hnone; reflexivity|discriminate].
Qed.

(* any argument is acceptable when no option group is waiting *)
Lemma choice_ok_none m c : last_opts m = None -> choice_ok m c.
Proof. intros H. unfold choice_ok. rewrite H. discriminate. Qed.

(* after an error or an end the runner is usable with ANY argument: it waits for no choice *)
Theorem after_error_no_choice_pending d : forall fm m c m',
  pending (dat m) = None -> next d fm m c = (NErr, m') -> last_opts m' = None.
Proof.
  induction fm as [|fm IH]; intros m c m' Hp H; [cbn [next] in H; inversion H|].
  cbn [next] in H. rewrite (poll_none _ Hp) in H.
  destruct (chosen_body (last_opts m) c) as [b|]; [|inversion H].
  destruct (if is_nil b then stack m else b :: stack m) as [|[|st q] rest]; [inversion H| |].
  - apply IH in H; [exact H|exact Hp].
  - destruct st as [l|os|x op e|e|cs|es|fn args|x e].
    + destruct (render_line (dat m) l) as [[rl| |] s3]; inversion H; reflexivity.
    + destruct (render_options (dat m) os) as [[ros| |] s3]; inversion H; reflexivity.
    + destruct (exec_set x op e (dat m)) as [[|] s3] eqn:E; [|inversion H; reflexivity].
      apply IH in H; [exact H|]. cbn [dat mk]. rewrite <- Hp. change s3 with (snd (true, s3)). rewrite <- E. apply exec_set_pending.
    + destruct (exec_jump d e (dat m)) as [[b'|] s3] eqn:E; [|inversion H; reflexivity].
      apply IH in H; [exact H|]. cbn [dat mk]. rewrite <- Hp. change s3 with (snd (Some b', s3)). rewrite <- E. apply exec_jump_pending.
    + destruct (exec_if cs (dat m)) as [[[b'|]| |] s3] eqn:E; try (inversion H; reflexivity).
      * apply IH in H; [exact H|]. cbn [dat mk]. rewrite <- Hp. change s3 with (snd (Val (Some b'), s3)). rewrite <- E. apply exec_if_pending.
      * apply IH in H; [exact H|]. cbn [dat mk]. rewrite <- Hp. change s3 with (snd (@Val (option (list stmt)) None, s3)). rewrite <- E. apply exec_if_pending.
    + destruct (exec_command es (dat m)) as [[| | |] s3] eqn:E; try (inversion H; reflexivity).
      apply IH in H; [exact H|]. cbn [dat mk]. apply (exec_command_pending _ _ _ _ Hp E). discriminate.
    + destruct (exec_call fn args (dat m)) as [[|] s3] eqn:E; [|inversion H; reflexivity].
      apply IH in H; [exact H|]. cbn [dat mk]. rewrite <- Hp. change s3 with (snd (true, s3)). rewrite <- E. apply exec_call_pending.
    + destruct (exec_set x SAssign e (dat m)) as [[|] s3] eqn:E; [|inversion H; reflexivity].
      apply IH in H; [exact H|]. cbn [dat mk]. rewrite <- Hp. change s3 with (snd (true, s3)). rewrite <- E. apply exec_set_pending.
Qed.

(* the fault classes of the property are errors *)
Lemma null_is_error v e : eval v ENull e = (Fail, e).
Proof. reflexivity. Qed.

Lemma unknown_variable_is_error v x e : st_get (rvars v) x = None -> eval v (EVar x) e = (Fail, e).
Proof. intros H. cbn. rewrite H. reflexivity. Qed.

Lemma unknown_function_is_error v f args e :
  call_probe f args e = None -> call_builtin v f args e = None -> call_function v f args e = (Fail, e).
Proof. intros H1 H2. unfold call_function. rewrite H1, H2. reflexivity. Qed.

Lemma no_value_function_is_error v args e :
  fst (eval v (ECall (STR "noret") (map EVal args)) e) = Fail.
Proof.
  cbn [eval].
  match goal with |- context [?F (map EVal args) e] =>
    assert (HA : forall l e0, F (map EVal l) e0 = (Val l, e0))
      by (induction l as [|a l IHl]; intros e0; [reflexivity|]; cbn; rewrite IHl; reflexivity);
    rewrite HA
  end.
  reflexivity.
Qed.

Lemma dice_out_of_domain_is_error v n e : (to_int64 n <? 1)%Z = true ->
  call_builtin v (STR "dice") [VNum n] e = Some (Fail, e).
Proof. intros H. cbn. rewrite H. reflexivity. Qed.

Lemma random_range_empty_is_error v a b e : (to_int64 b <? to_int64 a)%Z = true ->
  call_builtin v (STR "random_range") [VNum a; VNum b] e = Some (Fail, e).
Proof. intros H. cbn. rewrite H. reflexivity. Qed.

Lemma unknown_node_is_error d s x : find_node d x = None ->
  fst (exec_jump d (EVal (VStr x)) s) = None.
Proof. intros H. unfold exec_jump, eval_in. cbn. rewrite H. reflexivity. Qed.

Lemma unknown_command_is_error s name args :
  str_eqb name (STR "stop") = false -> mem_str name (hcmds s) = false -> str_eqb name (STR "wait") = false ->
  fst (exec_command (EVal (VStr name) :: map EVal args) s) = CmdErr.
Proof.
  intros H1 H2 H3. unfold exec_command.
  assert (HA : forall l e0, eval_list (renv_of s) (map EVal l) e0 = (Val l, e0))
    by (induction l as [|a l IHl]; intros e0; [reflexivity|]; cbn; rewrite IHl; reflexivity).
  cbn [eval_list eval]. rewrite HA. cbn [hcmds upd_fe]. rewrite H1, H2, H3. reflexivity.
Qed.

(* D7 (known finding): a node whose only path is a jump to itself never yields - the model runs out
   of any fuel, the Go code recurses without bound *)
Definition self_jump_dialogue : dialogue :=
  [ {| headers := [(STR "title", STR "A")]; body := [SJump (EVal (VStr (STR "A")))] |} ].

Theorem jump_cycle_diverges : forall fuel s,
  pending s = None ->
  fst (next self_jump_dialogue fuel (mk [[SJump (EVal (VStr (STR "A")))]] None s) 0) = NFuel.
Proof.
  induction fuel as [|f IH]; intros s Hp; [reflexivity|].
  cbn [next dat stack last_opts mk]. rewrite (poll_none _ Hp). cbn [chosen_body is_nil].
  unfold exec_jump, eval_in. cbn [eval]. cbn [find_node self_jump_dialogue].
  change (str_eqb (title {| headers := [(STR "title", STR "A")]; body := [SJump (EVal (VStr (STR "A")))] |}) (STR "A")) with true.
  cbn iota. apply IH. cbn. exact Hp.
Qed.

(* ================= C10 ================= *)
(* while the command has not completed: ErrWaiting, nothing changes but the poll count *)
Theorem pending_is_inert d fm m c k r : pending (dat m) = Some (S k, r) ->
  next d (S fm) m c = (NWait, mk (stack m) (last_opts m) (upd_pending (dat m) (Some (k, r)))).
Proof. intros H. cbn [next]. unfold poll. rewrite H. reflexivity. Qed.

Theorem pending_inert_frame s k r : pending s = Some (S k, r) ->
  let s' := snd (poll s) in
  vars s' = vars s /\ slog s' = slog s /\ fe s' = fe s /\ visits s' = visits s /\ cur s' = cur s /\
  sched s' = sched s.
Proof. intros H. unfold poll. rewrite H. cbn. repeat split. Qed.

(* completion with nil: the dialogue resumes exactly as if nothing had been pending *)
Theorem resume_after_completion d fm m c : pending (dat m) = Some (O, CNil) ->
  next d (S fm) m c = next d (S fm) (mk (stack m) (last_opts m) (upd_pending (dat m) None)) c.
Proof.
  intros H. apply next_poll_eq. unfold poll. rewrite H. reflexivity.
Qed.

(* completion with an error: surfaced once, then the cell is empty *)
Theorem error_surfaced_once d fm m c : pending (dat m) = Some (O, CErr) ->
  next d (S fm) m c = (NErr, mk (stack m) (last_opts m) (upd_pending (dat m) None)).
Proof. intros H. cbn [next]. unfold poll. rewrite H. reflexivity. Qed.

(* a registered host command: exactly one handler invocation, with the evaluated arguments *)
Theorem handler_exactly_once s name args :
  str_eqb name (STR "stop") = false -> mem_str name (hcmds s) = true ->
  hlog (fe (snd (exec_command (EVal (VStr name) :: map EVal args) s))) = HCmd name args :: hlog (fe s).
Proof.
  intros H1 H2. unfold exec_command.
  assert (HA : forall l e0, eval_list (renv_of s) (map EVal l) e0 = (Val l, e0))
    by (induction l as [|a l IHl]; intros e0; [reflexivity|]; cbn; rewrite IHl; reflexivity).
  cbn [eval_list eval]. rewrite HA. cbn [hcmds upd_fe sched]. rewrite H1, H2.
  destruct (sched s) as [|[polls r0] rest]; cbn.
  - reflexivity.
  - destruct polls; [destruct r0|]; reflexivity.
Qed.

(* <<stop>> never reaches a handler, whatever is registered under that name *)
Theorem stop_never_dispatched s args :
  exec_command (EVal (VStr (STR "stop")) :: map EVal args) s = (CmdStop, s).
Proof.
  unfold exec_command.
  assert (HA : forall l e0, eval_list (renv_of s) (map EVal l) e0 = (Val l, e0))
    by (induction l as [|a l IHl]; intros e0; [reflexivity|]; cbn; rewrite IHl; reflexivity).
  cbn [eval_list eval]. rewrite HA. destruct s; reflexivity.
Qed.

(* ================= C07 ================= *)
Lemma find_node_title d t n : find_node d t = Some n -> title n = t.
Proof.
  induction d as [|x r IH]; cbn [find_node]; [discriminate|].
  destruct (str_eqb (title x) t) eqn:E; [|exact IH]. intros H. inversion H; subst. apply str_eqb_eq. exact E.
Qed.

(* restoring into ANY receiver state gives the node-entry state recorded in the snapshot; nothing
   of the receiver's control state (stack, waiting choice, pending command) or variables survives *)
Theorem restore_resumes d m sn m' : restore_at d m sn = (true, m') ->
  exists n, find_node d (snode sn) = Some n /\
    stack m' = [body n] /\ last_opts m' = None /\ pending (dat m') = None /\
    cur (dat m') = snode sn /\ visits (dat m') = svisits sn /\ vsnap (dat m') = svars sn /\
    vars (dat m') = fold_left (fun st kv => st_set st (fst kv) (snd kv)) (svars sn) empty_store.
Proof.
  unfold restore_at. destruct (find_node d (snode sn)) as [n|] eqn:E; [|discriminate].
  intros H. inversion H; subst. exists n. cbn. rewrite (find_node_title _ _ _ E). repeat split.
Qed.

(* two receivers, in whatever states, restored from one snapshot: same dialogue state *)
Theorem restore_receiver_independent d m1 m2 sn m1' m2' :
  restore_at d m1 sn = (true, m1') -> restore_at d m2 sn = (true, m2') ->
  stack m1' = stack m2' /\ last_opts m1' = last_opts m2' /\ pending (dat m1') = pending (dat m2') /\
  vars (dat m1') = vars (dat m2') /\ cur (dat m1') = cur (dat m2') /\ visits (dat m1') = visits (dat m2') /\
  vsnap (dat m1') = vsnap (dat m2').
Proof.
  unfold restore_at. destruct (find_node d (snode sn)) as [n|]; [|discriminate].
  intros H1 H2. inversion H1; inversion H2; subst. cbn. repeat split.
Qed.

(* a snapshot taken right after a restore equals the restored one *)
Theorem snapshot_after_restore d m sn m' : restore_at d m sn = (true, m') -> take_snapshot (dat m') = sn.
Proof.
  intros H. destruct (restore_resumes d m sn m' H) as (n & _ & _ & _ & _ & Hc & Hv & Hs & _).
  unfold take_snapshot. rewrite Hc, Hv, Hs. destruct sn; reflexivity.
Qed.

(* an unknown node: error, nothing changes *)
Theorem restore_unknown_node d m sn : find_node d (snode sn) = None -> restore_at d m sn = (false, m).
Proof. intros H. unfold restore_at. rewrite H. reflexivity. Qed.

(* the snapshot's contents only change at node entries: every primitive but the jump keeps
   (checkpoint, current node, visit counts) *)
Definition snap_fields (s : dstate) := (vsnap s, cur s, visits s).

Theorem snapshot_only_changes_at_jumps_line s l : snap_fields (snd (render_line s l)) = snap_fields s.
Proof. destruct (render_line_frame s l) as (_ & _ & _ & Hc & Hv & Hs & _). unfold snap_fields. congruence. Qed.

Theorem snapshot_only_changes_at_jumps_set x op e s : snap_fields (snd (exec_set x op e s)) = snap_fields s.
Proof.
  pose proof (Proofs.SetProofs.exec_set_spec x op e s) as K.
  destruct (eval_in_frame s e) as (_ & _ & _ & Hc & Hv & Hs & _).
  destruct (eval_in s e) as [[v| |] s1]; cbn [snd] in *.
  - destruct (Spec.SetSpec.set_spec (st_get (vars s1) x) op v); rewrite K; unfold snap_fields; cbn; congruence.
  - rewrite K. unfold snap_fields. cbn. congruence.
  - rewrite K. unfold snap_fields. cbn. congruence.
Qed.

(* at a node entry the checkpoint is the store as it is then *)
Theorem jump_takes_checkpoint d e s b s' : exec_jump d e s = (Some b, s') ->
  vsnap s' = st_values (vars s') /\ exists n, find_node d (cur s') = Some n /\ b = body n.
Proof.
  unfold exec_jump. destruct (eval_in s e) as [[v| |] s1]; try discriminate.
  destruct v as [n0|b0|t]; try discriminate.
  destruct (find_node d t) as [n|] eqn:E; [|discriminate].
  intros H. inversion H; subst. cbn. split; [reflexivity|].
  exists n. rewrite (find_node_title _ _ _ E). auto.
Qed.
