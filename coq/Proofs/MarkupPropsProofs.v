(* C13 with properties: MarkupDocProofs generalised - an open marker carries the properties the parser
   reads off its written form.  Main statement for documents built from plain text, escaped brackets and open / close /
   close-all markers: parsing gives back exactly the plain text, and one attribute per closed marker
   whose position and length delimit exactly the text the marker enclosed - nested, overlapping and
   repeated markers alike - so that TextForAttribute returns the enclosed text.
   "Enclosed text" is defined on the document itself (DocSpec below: a stack of open markers, each
   accumulating the text that follows it), independently of positions. *)
From Coq Require Import List ZArith NArith Bool Lia.
From YS Require Import Base.Sexp Num.F64 Num.Decimal Yarn.Ast Yarn.Value Markup.LineParser Proofs.MarkupProofs.
(* generated from Proofs/MarkupDocProofs.v by generalising open markers; lemmas keep their names in this module *)
Import ListNotations.
Local Open Scope Z_scope.

(* ---------- characters ---------- *)
Definition space_points : list N :=
  [9; 10; 11; 12; 13; 32; 133; 160; 5760; 8192; 8193; 8194; 8195; 8196; 8197; 8198; 8199; 8200; 8201; 8202;
   8232; 8233; 8239; 8287; 12288]%N.

Lemma is_space_points c : is_space c = true -> In c space_points.
Proof.
  unfold is_space. intros H.
  repeat match type of H with
         | (_ || _)%bool = true => apply orb_true_iff in H; destruct H as [H|H]
         end;
  repeat match goal with
         | H : (_ && _)%bool = true |- _ => apply andb_true_iff in H; destruct H
         | H : (_ =? _)%N = true |- _ => apply N.eqb_eq in H
         | H : (_ <=? _)%N = true |- _ => apply N.leb_le in H
         end; subst; unfold space_points; cbn [In].
  - assert (c = 9 \/ c = 10 \/ c = 11 \/ c = 12 \/ c = 13)%N by lia. intuition.
  - intuition.
  - intuition.
  - intuition.
  - intuition.
  - assert (c = 8192 \/ c = 8193 \/ c = 8194 \/ c = 8195 \/ c = 8196 \/ c = 8197 \/ c = 8198 \/ c = 8199
            \/ c = 8200 \/ c = 8201 \/ c = 8202)%N by lia. intuition.
  - intuition.
  - intuition.
  - intuition.
  - intuition.
  - intuition.
Qed.

Lemma space_points_not_id : forallb (fun c => negb (is_id_char c)) space_points = true.
Proof. vm_compute. reflexivity. Qed.

Lemma id_not_space c : is_id_char c = true -> is_space c = false.
Proof.
  intros H. destruct (is_space c) eqn:E; [|reflexivity].
  apply is_space_points in E. pose proof space_points_not_id as F. rewrite forallb_forall in F.
  specialize (F c E). rewrite H in F. discriminate F.
Qed.

Lemma id_not c x : is_id_char x = false -> is_id_char c = true -> (c =? x)%N = false.
Proof. intros Hx Hc. destruct (c =? x)%N eqn:E; [|reflexivity]. apply N.eqb_eq in E. subst. congruence. Qed.

Lemma not_id_47 : is_id_char 47 = false. Proof. vm_compute. reflexivity. Qed.
Lemma not_id_93 : is_id_char 93 = false. Proof. vm_compute. reflexivity. Qed.
Lemma not_id_61 : is_id_char 61 = false. Proof. vm_compute. reflexivity. Qed.
Lemma not_space_93 : is_space 93 = false. Proof. reflexivity. Qed.
Lemma not_space_47 : is_space 47 = false. Proof. reflexivity. Qed.

(* ---------- marker syntax ---------- *)
Definition name_ok (n : str) : Prop := n <> [] /\ forallb is_id_char n = true /\ processor_of n = None.

Lemma consume_ws_nonspace c t p : is_space c = false -> consume_ws {| rest := c :: t; sp := p |} = {| rest := c :: t; sp := p |}.
Proof. intros H. unfold consume_ws. cbn [rest sp consume_ws_list]. rewrite H. reflexivity. Qed.

Lemma take_while_app ok a : forall c t p acc, forallb ok a = true -> ok c = false ->
  take_while ok (a ++ c :: t) p acc = (rev acc ++ a, {| rest := c :: t; sp := p + Z.of_nat (length a) |}).
Proof.
  induction a as [|x a IH]; intros c t p acc Ha Hc.
  - cbn [app take_while length]. rewrite Hc, app_nil_r. f_equal. f_equal. cbn. lia.
  - cbn [forallb] in Ha. apply andb_true_iff in Ha as [Hx Ha]. cbn [app take_while]. rewrite Hx.
    rewrite IH by assumption. cbn [rev length]. rewrite <- app_assoc. cbn [app]. f_equal. f_equal. lia.
Qed.

(* parseID on "name]..." *)
Lemma parse_id_name n tl p : name_ok n ->
  exists p', parse_id {| rest := n ++ 93%N :: tl; sp := p |} = Some (n, {| rest := 93%N :: tl; sp := p' |}).
Proof.
  intros (Hne & Hid & _). destruct n as [|c n']; [contradiction|].
  cbn [forallb] in Hid. apply andb_true_iff in Hid as [Hc Hn].
  unfold parse_id. cbn [app]. rewrite consume_ws_nonspace by (apply id_not_space; exact Hc).
  cbn [rest sp]. rewrite Hc. rewrite take_while_app by (assumption || exact not_id_93).
  cbn [rev app]. eexists. reflexivity.
Qed.

Lemma parse_rune_here c t p : is_space c = false ->
  parse_rune {| rest := c :: t; sp := p |} c = Some {| rest := t; sp := p + 1 |}.
Proof.
  intros H. unfold parse_rune. rewrite consume_ws_nonspace by exact H. cbn [rest sp]. rewrite N.eqb_refl. reflexivity.
Qed.

Lemma expect_peek_other c x t p : is_space c = false -> (c =? x)%N = false ->
  expect_peek {| rest := c :: t; sp := p |} x = (false, {| rest := c :: t; sp := p |}).
Proof.
  intros Hs Hx. unfold expect_peek. rewrite consume_ws_nonspace by exact Hs. unfold peek. cbn [rest]. rewrite Hx. reflexivity.
Qed.

Lemma expect_peek_same c t p : is_space c = false ->
  expect_peek {| rest := c :: t; sp := p |} c = (true, {| rest := c :: t; sp := p |}).
Proof.
  intros Hs. unfold expect_peek. rewrite consume_ws_nonspace by exact Hs. unfold peek. cbn [rest]. rewrite N.eqb_refl. reflexivity.
Qed.

(* "[name]" *)
Lemma parse_marker_open n tl p pos : name_ok n ->
  exists src p', parse_marker {| rest := n ++ 93%N :: tl; sp := p |} pos
    = Some ({| mname := n; mpos := pos; msrc := src; mprops := []; mtype := TOpen |}, {| rest := tl; sp := p' |}).
Proof.
  intros Hn. pose proof Hn as (Hne & Hid & _). destruct n as [|c n'] eqn:En; [contradiction|]. rewrite <- En in *.
  assert (Hc : is_id_char c = true) by (rewrite En in Hid; cbn [forallb] in Hid; apply andb_true_iff in Hid; tauto).
  unfold parse_marker. cbn [rest sp].
  assert (E1 : expect_peek {| rest := n ++ 93%N :: tl; sp := p + 1 |} 47%N = (false, {| rest := n ++ 93%N :: tl; sp := p + 1 |})).
  { rewrite En. cbn [app]. apply expect_peek_other; [apply id_not_space; exact Hc|apply id_not; [exact not_id_47|exact Hc]]. }
  rewrite E1. destruct (parse_id_name n tl (p + 1) Hn) as (p1 & E2). rewrite E2.
  rewrite (expect_peek_other 93 61 tl p1) by reflexivity.
  cbn [rest length parse_props]. rewrite consume_ws_nonspace by reflexivity. unfold peek. cbn [rest].
  change (93 =? 93)%N with true. cbv iota. rewrite parse_rune_here by reflexivity.
  eexists _, _. reflexivity.
Qed.

(* "[/name]" *)
Lemma parse_marker_close n tl p pos : name_ok n ->
  exists src p', parse_marker {| rest := 47%N :: n ++ 93%N :: tl; sp := p |} pos
    = Some ({| mname := n; mpos := pos; msrc := src; mprops := []; mtype := TClose |}, {| rest := tl; sp := p' |}).
Proof.
  intros Hn. pose proof Hn as (Hne & Hid & _). destruct n as [|c n'] eqn:En; [contradiction|]. rewrite <- En in *.
  assert (Hc : is_id_char c = true) by (rewrite En in Hid; cbn [forallb] in Hid; apply andb_true_iff in Hid; tauto).
  unfold parse_marker. cbn [rest sp].
  rewrite expect_peek_same by reflexivity. rewrite parse_rune_here by reflexivity.
  assert (E1 : expect_peek {| rest := n ++ 93%N :: tl; sp := p + 1 + 1 |} 93%N = (false, {| rest := n ++ 93%N :: tl; sp := p + 1 + 1 |})).
  { rewrite En. cbn [app]. apply expect_peek_other; [apply id_not_space; exact Hc|apply id_not; [exact not_id_93|exact Hc]]. }
  rewrite E1. destruct (parse_id_name n tl (p + 1 + 1) Hn) as (p1 & E2). rewrite E2.
  rewrite parse_rune_here by reflexivity. eexists _, _. reflexivity.
Qed.

(* "[/]" *)
Lemma parse_marker_close_all tl p pos :
  exists src p', parse_marker {| rest := 47%N :: 93%N :: tl; sp := p |} pos
    = Some ({| mname := []; mpos := pos; msrc := src; mprops := []; mtype := TCloseAll |}, {| rest := tl; sp := p' |}).
Proof.
  unfold parse_marker. cbn [rest sp].
  rewrite expect_peek_same by reflexivity. rewrite parse_rune_here by reflexivity.
  rewrite expect_peek_same by reflexivity. rewrite parse_rune_here by reflexivity.
  eexists _, _. reflexivity.
Qed.

(* ---------- documents ---------- *)
(* [IOpen n mp w]: an open marker named n, written as '[' followed by w, from which the parser reads the
   properties mp (in order of writing, the shorthand value first) *)
Inductive item := IText (t : str) | IBr (c : N) | IOpen (n : str) (mp : list (str * mvalue)) (w : str) | IClose (n : str) | ICloseAll
  | ISelf (n : str) (mp : list (str * mvalue)) (w : str).      (* a self-closing marker [name props/] *)

(* w is a way of writing the inside of the open marker n with properties mp (Part 2 gives the syntax) *)
Definition marker_written (ty : tagtype) (w : str) (n : str) (mp : list (str * mvalue)) : Prop :=
  forall tl p pos, exists src p', parse_marker {| rest := w ++ tl; sp := p |} pos
    = Some ({| mname := n; mpos := pos; msrc := src; mprops := mp; mtype := ty |}, {| rest := tl; sp := p' |}).
Definition open_written := marker_written TOpen.
Definition self_written := marker_written TSelfClosing.

Definition render1 (i : item) : str :=
  match i with
  | IText t => t
  | IBr c => [92%N; c]
  | IOpen n mp w => 91%N :: w
  | ISelf n mp w => 91%N :: w
  | IClose n => 91%N :: 47%N :: n ++ [93%N]
  | ICloseAll => [91%N; 47%N; 93%N]
  end.
Definition render (its : list item) : str := flat_map render1 its.
Definition text1 (i : item) : str := match i with IText t => t | IBr c => [c] | _ => [] end.
Definition text (its : list item) : str := flat_map text1 its.

Definition item_ok (i : item) : Prop :=
  match i with
  | IText t => forallb plain_rune t = true            (* neither '[' nor a backslash *)
  | IBr c => c = 91%N \/ c = 93%N
  | IOpen n mp w => name_ok n /\ get_prop mp (STR "trimwhitespace") = None /\ open_written w n mp
  | IClose n => name_ok n
  | ICloseAll => True
  | ISelf n mp w => name_ok n /\ get_prop mp (STR "trimwhitespace") = None /\ self_written w n mp
  end.

(* the markers of a document with the text position each one sits at *)
Definition amark := (str * Z * tagtype * list (str * mvalue))%type.
Fixpoint amarks (its : list item) (p : Z) : list amark :=
  match its with
  | [] => []
  | IText t :: r => amarks r (p + Z.of_nat (length t))
  | IBr _ :: r => amarks r (p + 1)
  | IOpen n mp _ :: r => (n, p, TOpen, mp) :: amarks r p
  | IClose n :: r => (n, p, TClose, []) :: amarks r p
  | ICloseAll :: r => ([], p, TCloseAll, []) :: amarks r p
  | ISelf n mp _ :: r => (n, p, TSelfClosing, mp) :: amarks r p
  end.
Definition mrel (m : marker) (a : amark) : Prop :=
  mname m = fst (fst (fst a)) /\ mpos m = snd (fst (fst a)) /\ mtype m = snd (fst a) /\ mprops m = snd a.

Lemma main_loop_plain_app : forall t R f p bld blen ms last,
  forallb plain_rune t = true -> (length (t ++ R) < f)%nat ->
  exists p' last', main_loop f {| rest := t ++ R; sp := p |} bld blen ms last
    = main_loop (f - length t) {| rest := R; sp := p' |} (rev t ++ bld) (blen + Z.of_nat (length t)) ms last'.
Proof.
  induction t as [|c t IH]; intros R f p bld blen ms last Hp Hf.
  - exists p, last. cbn [app length rev]. rewrite Nat.sub_0_r, Z.add_0_r. reflexivity.
  - destruct f; [cbn in Hf; lia|]. cbn [forallb] in Hp. apply andb_true_iff in Hp as [Hc Ht].
    unfold plain_rune in Hc. apply andb_true_iff in Hc as [H1 H2]. apply negb_true_iff in H1, H2.
    cbn [app main_loop rest sp]. rewrite H2, H1. cbn [andb].
    destruct (IH R f (p + 1) (c :: bld) (blen + 1) ms c Ht) as (p' & last' & E); [cbn [app length] in Hf; lia|].
    exists p', last'. rewrite E. cbn [length rev]. rewrite <- app_assoc. cbn [app].
    replace (blen + 1 + Z.of_nat (length t)) with (blen + Z.of_nat (S (length t))) by lia. reflexivity.
Qed.

Lemma trim_none (had : bool) (m : marker) : get_prop (mprops m) (STR "trimwhitespace") = None -> mtype m <> TSelfClosing ->
  (if had then
     match get_prop (mprops m) (STR "trimwhitespace") with
     | Some (MBool b) => Some b
     | Some _ => None
     | None => Some (match mtype m with TSelfClosing => negb false | _ => false end)
     end
   else Some false) = Some false.
Proof. intros Hp Ht. rewrite Hp. destruct had; [|reflexivity]. destruct (mtype m); try reflexivity. contradiction. Qed.

(* one marker at the head of the input, given what parse_marker answers *)
Lemma main_loop_marker f tl0 p bld blen ms last m tl p' :
  parse_marker {| rest := tl0; sp := p |} blen = Some (m, {| rest := tl; sp := p' |}) ->
  processor_of (mname m) = None -> get_prop (mprops m) (STR "trimwhitespace") = None -> mtype m <> TSelfClosing ->
  main_loop (S f) {| rest := 91%N :: tl0; sp := p |} bld blen ms last
  = main_loop f {| rest := tl; sp := p' |} bld blen (ms ++ [m]) 91%N.
Proof.
  intros Hm Hproc Hp Ht. cbn [main_loop rest sp]. change (91 =? 92)%N with false. cbn [andb].
  change (91 =? 91)%N with true. cbv iota. rewrite Hm, Hproc. cbv beta iota zeta.
  rewrite (trim_none _ m Hp Ht). cbn [andb rev app length]. rewrite Z.add_0_r. reflexivity.
Qed.

(* a self-closing marker trims one following blank when it stands at the start or after a blank; when no
   blank follows it, nothing is trimmed either way *)
Lemma main_loop_marker_self f tl0 p bld blen ms last m tl p' :
  parse_marker {| rest := tl0; sp := p |} blen = Some (m, {| rest := tl; sp := p' |}) ->
  processor_of (mname m) = None -> get_prop (mprops m) (STR "trimwhitespace") = None -> mtype m = TSelfClosing ->
  is_space (hd 0%N tl) = false ->
  main_loop (S f) {| rest := 91%N :: tl0; sp := p |} bld blen ms last
  = main_loop f {| rest := tl; sp := p' |} bld blen (ms ++ [m]) 91%N.
Proof.
  intros Hm Hproc Hp Ht Hs. cbn [main_loop rest sp]. change (91 =? 92)%N with false. cbn [andb].
  change (91 =? 91)%N with true. cbv iota. rewrite Hm, Hproc. cbv beta iota zeta. rewrite Hp, Ht.
  assert (Epk : is_space (peek {| rest := tl; sp := p' |}) = false) by (unfold peek; cbn [rest]; destruct tl; [reflexivity|exact Hs]).
  destruct ((blen =? 0) || is_space last); cbn [negb]; rewrite Epk; rewrite ?andb_false_r; cbn [rev app length]; rewrite Z.add_0_r; reflexivity.
Qed.

(* no blank directly after a self-closing marker *)
Fixpoint selfs_ok (its : list item) (R : str) : Prop :=
  match its with
  | [] => True
  | ISelf _ _ _ :: r => is_space (hd 0%N (render r ++ R)) = false /\ selfs_ok r R
  | _ :: r => selfs_ok r R
  end.

Lemma main_loop_items : forall its R f p bld blen ms last,
  Forall item_ok its -> selfs_ok its R -> (length (render its ++ R) < f)%nat ->
  exists p' last' ms', Forall2 mrel ms' (amarks its blen) /\
    main_loop f {| rest := render its ++ R; sp := p |} bld blen ms last
    = main_loop (S (length R)) {| rest := R; sp := p' |} (rev (text its) ++ bld)
                (blen + Z.of_nat (length (text its))) (ms ++ ms') last'.
Proof.
  induction its as [|i its IH]; intros R f p bld blen ms last Hok Hso Hf.
  - exists p, last, []. split; [constructor|]. cbn [render text flat_map app rev length Z.of_nat] in *.
    rewrite Z.add_0_r, app_nil_r. apply main_loop_fuel; cbn [rest]; lia.
  - inversion Hok as [|? ? Hi Hr]; subst.
    cbn [render flat_map] in *. change (flat_map render1 its) with (render its) in *. rewrite <- app_assoc in *.
    cbn [text flat_map]. change (flat_map text1 its) with (text its).
    destruct i as [t|c|n mp w|n| |n mp w]; cbn [render1 text1 item_ok amarks selfs_ok] in *.
    + (* text *)
      destruct (main_loop_plain_app t (render its ++ R) f p bld blen ms last Hi Hf) as (p1 & l1 & E1).
      destruct (IH R (f - length t)%nat p1 (rev t ++ bld) (blen + Z.of_nat (length t)) ms l1 Hr Hso) as (p2 & l2 & ms' & F & E2).
      { rewrite app_length in Hf. lia. }
      exists p2, l2, ms'. split; [exact F|]. rewrite E1, E2. rewrite rev_app_distr, app_length, <- app_assoc.
      replace (blen + Z.of_nat (length t) + Z.of_nat (length (text its))) with (blen + Z.of_nat (length t + length (text its))) by lia.
      reflexivity.
    + (* escaped bracket *)
      destruct f; [cbn in Hf; lia|]. cbn [app main_loop rest sp].
      change (92 =? 92)%N with true. assert (Eb : ((c =? 91) || (c =? 93))%N = true) by (destruct Hi; subst; reflexivity).
      rewrite Eb. cbn [andb].
      destruct (IH R f (p + 1) (c :: bld) (blen + 1) ms last Hr Hso) as (p2 & l2 & ms' & F & E2).
      { cbn [app length] in Hf. lia. }
      exists p2, l2, ms'. split; [exact F|]. rewrite E2. cbn [rev app length]. rewrite <- app_assoc. cbn [app].
      replace (blen + 1 + Z.of_nat (length (text its))) with (blen + Z.of_nat (S (length (text its)))) by lia. reflexivity.
    + (* [name props] *)
      destruct Hi as (Hn & Htw & Hw).
      destruct f; [cbn in Hf; lia|]. cbn [app].
      destruct (Hw (render its ++ R) p blen) as (src & p1 & Em).
      rewrite (main_loop_marker f _ p bld blen ms last _ _ p1 Em); cbn [mname mprops mtype]; try (apply Hn || exact Htw || discriminate).
      destruct (IH R f p1 bld blen (ms ++ [{| mname := n; mpos := blen; msrc := src; mprops := mp; mtype := TOpen |}]) 91%N Hr Hso) as (p2 & l2 & ms' & F & E2).
      { cbn [app length] in Hf. rewrite app_length in Hf. lia. }
      exists p2, l2, ({| mname := n; mpos := blen; msrc := src; mprops := mp; mtype := TOpen |} :: ms').
      split; [constructor; [repeat split; reflexivity|exact F]|].
      rewrite E2, <- app_assoc. cbn [app]. reflexivity.
    + (* [/name] *)
      destruct f; [cbn in Hf; lia|]. cbn [app]. rewrite <- app_assoc. cbn [app].
      destruct (parse_marker_close n (render its ++ R) p blen Hi) as (src & p1 & Em).
      rewrite (main_loop_marker f _ p bld blen ms last _ _ p1 Em); cbn [mname mprops mtype]; try (apply Hi || reflexivity || discriminate).
      destruct (IH R f p1 bld blen (ms ++ [{| mname := n; mpos := blen; msrc := src; mprops := []; mtype := TClose |}]) 91%N Hr Hso) as (p2 & l2 & ms' & F & E2).
      { cbn [app length] in Hf. rewrite !app_length in Hf. cbn [length] in Hf. rewrite app_length. lia. }
      exists p2, l2, ({| mname := n; mpos := blen; msrc := src; mprops := []; mtype := TClose |} :: ms').
      split; [constructor; [repeat split; reflexivity|exact F]|].
      rewrite E2, <- app_assoc. cbn [app]. reflexivity.
    + (* [/] *)
      destruct f; [cbn in Hf; lia|]. cbn [app].
      destruct (parse_marker_close_all (render its ++ R) p blen) as (src & p1 & Em).
      rewrite (main_loop_marker f _ p bld blen ms last _ _ p1 Em); cbn [mname mprops mtype]; try (reflexivity || discriminate).
      destruct (IH R f p1 bld blen (ms ++ [{| mname := []; mpos := blen; msrc := src; mprops := []; mtype := TCloseAll |}]) 91%N Hr Hso) as (p2 & l2 & ms' & F & E2).
      { cbn [app length] in Hf. rewrite app_length. rewrite app_length in Hf. lia. }
      exists p2, l2, ({| mname := []; mpos := blen; msrc := src; mprops := []; mtype := TCloseAll |} :: ms').
      split; [constructor; [repeat split; reflexivity|exact F]|].
      rewrite E2, <- app_assoc. cbn [app]. reflexivity.
    + (* [name props/] *)
      destruct Hi as (Hn & Htw & Hw). destruct Hso as (Hsp & Hso).
      destruct f; [cbn in Hf; lia|]. cbn [app].
      destruct (Hw (render its ++ R) p blen) as (src & p1 & Em).
      rewrite (main_loop_marker_self f _ p bld blen ms last _ _ p1 Em); cbn [mname mprops mtype]; try (apply Hn || exact Htw || reflexivity || exact Hsp).
      destruct (IH R f p1 bld blen (ms ++ [{| mname := n; mpos := blen; msrc := src; mprops := mp; mtype := TSelfClosing |}]) 91%N Hr Hso) as (p2 & l2 & ms' & F & E2).
      { cbn [app length] in Hf. rewrite app_length in Hf. lia. }
      exists p2, l2, ({| mname := n; mpos := blen; msrc := src; mprops := mp; mtype := TSelfClosing |} :: ms').
      split; [constructor; [repeat split; reflexivity|exact F]|].
      rewrite E2, <- app_assoc. cbn [app]. reflexivity.
Qed.

(* ---------- what a document means: the text each closed marker enclosed ---------- *)
(* [open]: the markers still open, oldest first, each with the text that has followed it so far;
   result: (name, enclosed text) of every closed marker, in closing order; None = a close marker
   without a matching open one *)
Definition entry := (str * list (str * mvalue) * str)%type.       (* name, properties as written, enclosed text *)
Definition ename (e : entry) : str := fst (fst e).
Definition eprops (e : entry) : list (str * mvalue) := snd (fst e).

Fixpoint find_last_e (name : str) (l : list entry) (i : nat) (best : option nat) : option nat :=
  match l with
  | [] => best
  | e :: r => find_last_e name r (S i) (if str_eqb (ename e) name then Some i else best)
  end.

Fixpoint enclosed (its : list item) (open : list entry) (done_ : list entry) : option (list entry) :=
  match its with
  | [] => Some done_
  | IOpen n mp _ :: r => enclosed r (open ++ [(n, mp, [])]) done_
  | IClose n :: r =>
      match find_last_e n open 0 None with
      | None => None
      | Some i => match nth_error open i with
                  | Some e => enclosed r (remove_nth open i) (done_ ++ [e])
                  | None => None
                  end
      end
  | ICloseAll :: r => enclosed r [] (done_ ++ open)
  | ISelf n mp _ :: r => enclosed r open (done_ ++ [(n, mp, [])])
  | i :: r => enclosed r (map (fun e : entry => (fst e, snd e ++ text1 i)) open) done_
  end.

Local Open Scope nat_scope.

(* an open marker and its entry, when the text so far is [pre] *)
Definition orel (pre : str) (m : marker) (e : entry) : Prop :=
  mname m = ename e /\ mprops m = eprops e /\ length (snd e) <= length pre /\
  mpos m = Z.of_nat (length pre - length (snd e)) /\ skipn (length pre - length (snd e)) pre = snd e.

(* a finished attribute and its entry *)
Definition arel (pre : str) (a : attribute) (e : entry) : Prop :=
  aname a = ename e /\ aprops a = props_map (eprops e) /\
  exists q, apos a = Z.of_nat q /\ alen a = Z.of_nat (length (snd e)) /\ q + length (snd e) <= length pre /\
            firstn (length (snd e)) (skipn q pre) = snd e.

Lemma orel_grow pre t m (e : entry) : orel pre m e -> orel (pre ++ t) m (fst e, snd e ++ t).
Proof.
  intros (H1 & H2 & H3 & H4 & H5). unfold orel. cbn [fst snd]. rewrite !app_length.
  replace (length pre + length t - (length (snd e) + length t)) with (length pre - length (snd e)) by lia.
  repeat split; try assumption; try lia.
  rewrite skipn_app, H5. replace (length pre - length (snd e) - length pre) with 0 by lia. reflexivity.
Qed.

Lemma arel_grow pre t a e : arel pre a e -> arel (pre ++ t) a e.
Proof.
  intros (H1 & H2 & q & H3 & H4 & H5 & H6). split; [exact H1|]. split; [exact H2|]. exists q.
  repeat split; try assumption; [rewrite app_length; lia|].
  rewrite skipn_app, firstn_app, skipn_length.
  replace (length (snd e) - (length pre - q)) with 0 by lia. cbn [firstn]. rewrite app_nil_r. exact H6.
Qed.

Lemma close_gives_arel pre m o e : orel pre o e -> mpos m = Z.of_nat (length pre) ->
  arel pre (attr_of o (mpos m - mpos o)%Z) e.
Proof.
  intros (H1 & H2 & H3 & H4 & H5) Hm. unfold arel, attr_of. cbn [aname aprops apos alen].
  split; [exact H1|]. split; [rewrite H2; reflexivity|]. exists (length pre - length (snd e)).
  repeat split; try lia. rewrite H5. apply firstn_all.
Qed.

Lemma find_last_agree name : forall us os i best, Forall2 (fun (m : marker) (e : entry) => mname m = ename e) us os ->
  find_last name us i best = find_last_e name os i best.
Proof.
  induction us as [|m us IH]; intros os i best F; inversion F; subst; [reflexivity|].
  cbn [find_last find_last_e]. match goal with H : mname m = _ |- _ => rewrite H end. apply IH. assumption.
Qed.

Lemma Forall2_nth_error {A B} (P : A -> B -> Prop) : forall l1 l2 i a, Forall2 P l1 l2 -> nth_error l1 i = Some a ->
  exists b, nth_error l2 i = Some b /\ P a b.
Proof.
  induction l1 as [|x l1 IH]; intros l2 i a F H; [destruct i; discriminate|].
  inversion F; subst. destruct i; cbn [nth_error] in *.
  - inversion H; subst. eexists. split; [reflexivity|assumption].
  - eapply IH; eassumption.
Qed.

Lemma Forall2_nth_error_none {A B} (P : A -> B -> Prop) : forall l1 l2 i, Forall2 P l1 l2 -> nth_error l1 i = None ->
  nth_error l2 i = None.
Proof.
  induction l1 as [|x l1 IH]; intros l2 i F H; inversion F; subst; [destruct i; reflexivity|].
  destruct i; cbn [nth_error] in *; [discriminate|]. eapply IH; eassumption.
Qed.

Lemma Forall2_remove_nth {A B} (P : A -> B -> Prop) : forall l1 l2 i, Forall2 P l1 l2 ->
  Forall2 P (remove_nth l1 i) (remove_nth l2 i).
Proof.
  induction l1 as [|x l1 IH]; intros l2 i F; inversion F; subst; [destruct i; constructor|].
  destruct i; cbn [remove_nth]; [assumption|]. constructor; [assumption|apply IH; assumption].
Qed.

Lemma Forall2_names pre us os : Forall2 (orel pre) us os -> Forall2 (fun (m : marker) (e : entry) => mname m = ename e) us os.
Proof. induction 1; constructor; [destruct H; assumption|assumption]. Qed.

(* buildAttributesFromMarkers computes exactly the enclosures of the document *)
Lemma build_attrs_enclosed : forall its pre ms unclosed acc open done_,
  Forall item_ok its ->
  Forall2 mrel ms (amarks its (Z.of_nat (length pre))) ->
  Forall2 (orel pre) unclosed open -> Forall2 (arel pre) acc done_ ->
  match enclosed its open done_ with
  | Some final => exists attrs, build_attrs ms unclosed acc = Some attrs /\ Forall2 (arel (pre ++ text its)) attrs final
  | None => build_attrs ms unclosed acc = None
  end.
Proof.
  induction its as [|i its IH]; intros pre ms unclosed acc open done_ Hok Hms Hun Hacc.
  - cbn [amarks] in Hms. inversion Hms; subst. cbn [enclosed build_attrs text flat_map]. rewrite app_nil_r.
    exists acc. split; [reflexivity|exact Hacc].
  - inversion Hok as [|? ? Hi Hr]; subst.
    cbn [text flat_map]. change (flat_map text1 its) with (text its).
    destruct i as [t|c|n mp w|n| |n mp w]; cbn [amarks enclosed text1] in *.
    + (* text *)
      rewrite app_assoc. apply IH; try assumption.
      * rewrite app_length, Nat2Z.inj_add. exact Hms.
      * clear - Hun. induction Hun; cbn [map]; constructor; [apply orel_grow; assumption|assumption].
      * clear - Hacc. induction Hacc; constructor; [apply arel_grow; assumption|assumption].
    + (* escaped bracket *)
      rewrite app_assoc. apply IH; try assumption.
      * rewrite app_length. cbn [length]. rewrite Nat2Z.inj_add. exact Hms.
      * clear - Hun. induction Hun; cbn [map]; constructor; [apply orel_grow; assumption|assumption].
      * clear - Hacc. induction Hacc; constructor; [apply arel_grow; assumption|assumption].
    + (* [name] *)
      inversion Hms as [|m ? ms' ? Hm Hms']; subst. destruct Hm as (M1 & M2 & M3 & M4). cbn [fst snd] in *.
      cbn [build_attrs]. rewrite M3. cbn [app]. apply IH; try assumption.
      apply Forall2_app; [exact Hun|]. constructor; [|constructor].
      unfold orel. cbn [fst snd length]. rewrite Nat.sub_0_r. repeat split; try assumption; try lia. apply skipn_all.
    + (* [/name] *)
      inversion Hms as [|m ? ms' ? Hm Hms']; subst. destruct Hm as (M1 & M2 & M3 & M4). cbn [fst snd] in *.
      cbn [build_attrs]. rewrite M3, M1. cbn [app].
      rewrite (find_last_agree n unclosed open 0 None (Forall2_names _ _ _ Hun)).
      destruct (find_last_e n open 0 None) as [idx|]; [|reflexivity].
      destruct (nth_error unclosed idx) as [o|] eqn:En.
      * destruct (Forall2_nth_error _ _ _ _ _ Hun En) as (e & Ee & Hoe). rewrite Ee.
        apply IH; try assumption.
        -- apply Forall2_remove_nth. exact Hun.
        -- apply Forall2_app; [exact Hacc|]. constructor; [|constructor]. apply close_gives_arel; assumption.
      * rewrite (Forall2_nth_error_none _ _ _ _ Hun En). reflexivity.
    + (* [/] *)
      inversion Hms as [|m ? ms' ? Hm Hms']; subst. destruct Hm as (M1 & M2 & M3 & M4). cbn [fst snd] in *.
      cbn [build_attrs]. rewrite M3. cbn [app]. apply IH; try assumption; [constructor|].
      apply Forall2_app; [exact Hacc|].
      clear - Hun M2. induction Hun; cbn [map]; constructor; [apply close_gives_arel; assumption|assumption].
    + (* [name props/] *)
      inversion Hms as [|m ? ms' ? Hm Hms']; subst. destruct Hm as (M1 & M2 & M3 & M4). cbn [fst snd] in *.
      cbn [build_attrs]. rewrite M3. cbn [app]. apply IH; try assumption.
      apply Forall2_app; [exact Hacc|]. constructor; [|constructor].
      unfold arel, attr_of, ename, eprops. cbn [aname aprops apos alen fst snd length].
      split; [exact M1|]. split; [rewrite M4; reflexivity|]. exists (length pre).
      split; [exact M2|]. split; [reflexivity|]. split; [lia|reflexivity].
Qed.

(* ---------- putting the phases together ---------- *)
Lemma In_insert a b l : In a (insert_attr b l) <-> a = b \/ In a l.
Proof.
  induction l as [|c l IH]; cbn [insert_attr In]; [intuition|].
  destruct (apos b <=? apos c)%Z; cbn [In]; [intuition|]. rewrite IH. intuition.
Qed.

Lemma In_sort a l : In a (sort_attrs l) <-> In a l.
Proof.
  induction l as [|b l IH]; cbn [sort_attrs fold_right In]; [reflexivity|].
  change (fold_right insert_attr [] l) with (sort_attrs l). rewrite In_insert, IH. intuition.
Qed.

Lemma insert_length b l : length (insert_attr b l) = S (length l).
Proof. induction l as [|c l IH]; cbn [insert_attr length]; [reflexivity|]. destruct (apos b <=? apos c)%Z; cbn [length]; congruence. Qed.

Lemma sort_length l : length (sort_attrs l) = length l.
Proof.
  induction l as [|b l IH]; [reflexivity|]. cbn [sort_attrs fold_right].
  change (fold_right insert_attr [] l) with (sort_attrs l). rewrite insert_length, IH. reflexivity.
Qed.

Definition no_edge_space (t : str) : Prop := trim_left t = t /\ trim_left (rev t) = rev t.

Lemma arel_text_for T a e : arel T a e -> text_for_attribute T a = Some (snd e).
Proof.
  intros (_ & _ & q & Hp & Hl & Hb & Hs). unfold text_for_attribute.
  destruct (alen a =? 0)%Z eqn:E0.
  - apply Z.eqb_eq in E0. assert (length (snd e) = 0) by lia. destruct (snd e); [reflexivity|discriminate].
  - assert (E1 : (apos a <? 0)%Z = false) by (apply Z.ltb_ge; lia).
    assert (E2 : (alen a <? 0)%Z = false) by (apply Z.ltb_ge; lia).
    assert (E3 : (Z.of_nat (length T) <? apos a + alen a)%Z = false) by (apply Z.ltb_ge; lia).
    rewrite E1, E2, E3. cbn [orb]. rewrite Hp, Hl, !Nat2Z.id. rewrite Hs. reflexivity.
Qed.

Lemma Forall2_In_l {A B} (P : A -> B -> Prop) l1 l2 a : Forall2 P l1 l2 -> In a l1 -> exists b, In b l2 /\ P a b.
Proof. induction 1; intros Hin; [contradiction|]. destruct Hin as [->|Hin]; [eexists; split; [left; reflexivity|assumption]|].
  destruct (IHForall2 Hin) as (b & Hb & Pb). exists b. split; [right; exact Hb|exact Pb]. Qed.

Lemma Forall2_In_r {A B} (P : A -> B -> Prop) l1 l2 b : Forall2 P l1 l2 -> In b l2 -> exists a, In a l1 /\ P a b.
Proof. induction 1; intros Hin; [contradiction|]. destruct Hin as [->|Hin]; [eexists; split; [left; reflexivity|assumption]|].
  destruct (IHForall2 Hin) as (a & Ha & Pa). exists a. split; [right; exact Ha|exact Pa]. Qed.

Lemma Forall2_len {A B} (P : A -> B -> Prop) l1 l2 : Forall2 P l1 l2 -> length l1 = length l2.
Proof. induction 1; cbn [length]; congruence. Qed.

Local Open Scope Z_scope.

Theorem markup_document_roundtrip its :
  Forall item_ok its -> selfs_ok its [] ->
  forallb (fun c => negb (N.eqb c 58)) (text its) = true ->
  no_edge_space (text its) ->
  match enclosed its [] [] with
  | Some encl =>
      exists attrs, parse_markup (render its) = Some (text its, attrs) /\
        length attrs = length encl /\
        (forall e, In e encl -> exists a, In a attrs /\ aname a = ename e /\ aprops a = props_map (eprops e) /\
                                          text_for_attribute (text its) a = Some (snd e)) /\
        (forall a, In a attrs -> exists e, In e encl /\ aname a = ename e /\ aprops a = props_map (eprops e) /\
                                           text_for_attribute (text its) a = Some (snd e))
  | None => parse_markup (render its) = None
  end.
Proof.
  intros Hok Hso Hcolon (Ht1 & Ht2). set (T := text its) in *.
  destruct (main_loop_items its [] (S (length (render its))) 0 [] 0 [] 0%N Hok Hso) as (p' & last' & ms' & Hms & Eml).
  { rewrite app_nil_r. lia. }
  rewrite app_nil_r in Eml.
  assert (Eml' : main_loop (S (length (render its))) {| rest := render its; sp := 0 |} [] 0 [] 0%N = Some (text its, ms')).
  { rewrite Eml. cbn [length main_loop rest app]. rewrite app_nil_r, rev_involutive. reflexivity. }
  clear Eml. rename Eml' into Eml.
  pose proof (build_attrs_enclosed its [] ms' [] [] [] [] Hok Hms (Forall2_nil _) (Forall2_nil _)) as Hb.
  cbn [app] in Hb. fold T in Hb.
  unfold parse_markup. rewrite Eml.
  destruct (enclosed its [] []) as [encl|]; [|rewrite Hb; reflexivity].
  destruct Hb as (attrs0 & Eb & Frel). rewrite Eb. cbv zeta.
  assert (Hf : forall l i, forallb (fun c => negb (N.eqb c 58)) l = true -> find_colon l i = None).
  { induction l as [|c l IH]; intros i H; [reflexivity|]. cbn [forallb] in H. apply andb_true_iff in H as [H1 H2].
    cbn [find_colon]. apply negb_true_iff in H1. rewrite H1. apply IH. exact H2. }
  fold T. rewrite (Hf T 0%nat Hcolon).
  assert (Etrim : trim_space T = T) by (unfold trim_space; rewrite Ht1, Ht2; apply rev_involutive).
  rewrite Etrim, Ht1.
  set (attrs2 := if existsb (fun a => str_eqb (aname a) (STR "character")) (sort_attrs attrs0) then sort_attrs attrs0 else sort_attrs attrs0).
  assert (E2 : attrs2 = sort_attrs attrs0) by (unfold attrs2; destruct (existsb _ _); reflexivity).
  match goal with |- exists attrs, Some (T, map ?adj ?l) = _ /\ _ => set (adjust := adj); replace l with attrs2 end.
  2:{ unfold attrs2. destruct (existsb _ _); reflexivity. }
  rewrite E2.
  (* adjusting an in-range attribute of an untrimmed text changes nothing *)
  assert (Hadj : forall a e, arel T a e -> adjust a = a).
  { intros a e (_ & _ & q & Hp & Hl & Hbd & _). unfold adjust, clampz. destruct a as [nm ps ln sr pr]. cbn [apos alen aname asrc aprops] in *.
    f_equal; lia. }
  assert (Hmap : map adjust (sort_attrs attrs0) = sort_attrs attrs0).
  { rewrite <- (map_id (sort_attrs attrs0)) at 2. apply map_ext_in. intros a Ha. apply (proj1 (In_sort _ _)) in Ha.
    destruct (Forall2_In_l _ _ _ _ Frel Ha) as (e & _ & Hr). exact (Hadj a e Hr). }
  rewrite Hmap. exists (sort_attrs attrs0). split; [reflexivity|]. split.
  - rewrite sort_length. exact (Forall2_len _ _ _ Frel).
  - split.
    + intros e He. destruct (Forall2_In_r _ _ _ _ Frel He) as (a & Ha & Hr). exists a. split; [apply (proj2 (In_sort _ _)); exact Ha|].
      destruct Hr as (N1 & N2 & Hq). split; [exact N1|]. split; [exact N2|]. apply arel_text_for. exact (conj N1 (conj N2 Hq)).
    + intros a Ha. apply (proj1 (In_sort _ _)) in Ha. destruct (Forall2_In_l _ _ _ _ Frel Ha) as (e & He & Hr). exists e. split; [exact He|].
      destruct Hr as (N1 & N2 & Hq). split; [exact N1|]. split; [exact N2|]. apply arel_text_for. exact (conj N1 (conj N2 Hq)).
Qed.

(* ====================================================================================================
   Part 2 - how properties are written: [name k=v k=v ...] and the shorthand [name=v k=v ...], values
   being integers (decimal digits), booleans, quoted strings and bare words, one blank between
   properties.  [open_written] holds for these written forms, so the round trip above applies to them. *)
Local Open Scope Z_scope.

Inductive pval := PVInt (ds : str) | PVDec (ds fs : str) | PVBool (b : bool) | PVQuoted (s : str) | PVBare (w : str).

Definition pv_text (v : pval) : str :=
  match v with
  | PVInt ds => ds
  | PVDec ds fs => ds ++ 46%N :: fs
  | PVBool true => STR "true"
  | PVBool false => STR "false"
  | PVQuoted s => 34%N :: s ++ [34%N]
  | PVBare w => w
  end.

(* the typed value a written value stands for *)
Definition pv_value (v : pval) : mvalue :=
  match v with
  | PVInt ds => MInt (match digits_val 0 ds with Some i => i | None => 0 end)
  | PVDec ds fs => MFloat (match parse_float (ds ++ 46%N :: fs) with Some f => f | None => F64.of_Z 0 end)   (* strconv.ParseFloat of the text *)
  | PVBool b => MBool b
  | PVQuoted s => MStr s
  | PVBare w => MStr w
  end.

Definition word_ok (w : str) : Prop :=
  match w with
  | [] => False
  | c :: _ => is_udigit c = false /\ forallb is_id_char w = true
  end.

Definition pv_ok (v : pval) : Prop :=
  match v with
  | PVInt ds => ds <> [] /\ forallb is_digit ds = true /\
                (match digits_val 0 ds with Some i => i <? two63 | None => false end) = true
  | PVDec ds fs => ds <> [] /\ fs <> [] /\ forallb is_digit ds = true /\ forallb is_digit fs = true /\
                   parse_float (ds ++ 46%N :: fs) <> None
  | PVBool _ => True
  | PVQuoted s => forallb (fun c => negb (N.eqb c 34) && negb (N.eqb c 92)) s = true
  | PVBare w => word_ok w /\ str_eqb (ascii_lower w) (STR "true") = false /\ str_eqb (ascii_lower w) (STR "false") = false
  end.

(* ascii digits are Unicode digits, are not blanks *)
Lemma digit_udigit c : is_digit c = true -> is_udigit c = true /\ is_space c = false /\ is_id_char c = true.
Proof.
  unfold is_digit. intros H. apply andb_true_iff in H as [H1 H2]. apply N.leb_le in H1, H2.
  assert (Hc : In c [48;49;50;51;52;53;54;55;56;57]%N).
  { cbn [In]. assert (c = 48 \/ c = 49 \/ c = 50 \/ c = 51 \/ c = 52 \/ c = 53 \/ c = 54 \/ c = 55 \/ c = 56 \/ c = 57)%N by lia. intuition. }
  assert (Hall : forallb (fun c => is_udigit c && negb (is_space c) && is_id_char c) [48;49;50;51;52;53;54;55;56;57]%N = true) by (vm_compute; reflexivity).
  rewrite forallb_forall in Hall. specialize (Hall c Hc). apply andb_true_iff in Hall as [Ha Hb]. apply andb_true_iff in Ha as [Ha Hs].
  apply negb_true_iff in Hs. auto.
Qed.

Lemma udigits_of_digits ds : forallb is_digit ds = true -> forallb is_udigit ds = true.
Proof. induction ds as [|c r IH]; [reflexivity|]. cbn [forallb]. intros H. apply andb_true_iff in H as [H1 H2].
  rewrite (proj1 (digit_udigit c H1)), IH by exact H2. reflexivity. Qed.

(* what may follow a value: one blank and then something that is not a blank, or directly a character
   that ends digits and words; never a '.' *)
Definition follows (sep : str) (y : N) : Prop :=
  is_space y = false /\ y <> 46%N /\
  ((sep = [32%N]) \/ (sep = [] /\ is_id_char y = false /\ is_udigit y = false)).

Lemma consume_ws_sep sep y tl p : follows sep y ->
  exists p', consume_ws {| rest := sep ++ y :: tl; sp := p |} = {| rest := y :: tl; sp := p' |}.
Proof.
  intros (Hy & _ & [->|(-> & _)]).
  - exists (p + 1). unfold consume_ws. cbn [rest sp app consume_ws_list]. change (is_space 32) with true. cbv iota.
    cbn [consume_ws_list]. rewrite Hy. reflexivity.
  - exists p. apply consume_ws_nonspace. exact Hy.
Qed.

Lemma sep_head_stops sep y tl : follows sep y ->
  exists c t, sep ++ y :: tl = c :: t /\ is_id_char c = false /\ is_udigit c = false.
Proof.
  intros (Hy & _ & [->|(-> & Hi & Hu)]).
  - exists 32%N, (y :: tl). split; [reflexivity|]. split; vm_compute; reflexivity.
  - exists y, tl. auto.
Qed.

Lemma parse_string_body_ok s : forall tl p acc,
  forallb (fun c => negb (N.eqb c 34) && negb (N.eqb c 92)) s = true ->
  exists p', parse_string_body (s ++ 34%N :: tl) p acc = Some (rev acc ++ s, {| rest := tl; sp := p' |}).
Proof.
  induction s as [|c s IH]; intros tl p acc H.
  - cbn [app parse_string_body]. change (34 =? 34)%N with true. cbv iota. rewrite app_nil_r. eexists. reflexivity.
  - cbn [forallb] in H. apply andb_true_iff in H as [Hc Hs]. apply andb_true_iff in Hc as [H1 H2].
    apply negb_true_iff in H1, H2. cbn [app parse_string_body]. rewrite H1, H2.
    destruct (IH tl (p + 1) (c :: acc) Hs) as (p' & E). exists p'. rewrite E. cbn [rev]. rewrite <- app_assoc. reflexivity.
Qed.

Definition word_value (w : str) : mvalue :=
  let lw := ascii_lower w in
  if str_eqb lw (STR "true") then MBool true else if str_eqb lw (STR "false") then MBool false else MStr w.

Lemma parse_value_word w sep y tl p : word_ok w -> follows sep y ->
  exists r' p', parse_value {| rest := w ++ sep ++ y :: tl; sp := p |} = Some (word_value w, r') /\
                consume_ws r' = {| rest := y :: tl; sp := p' |}.
Proof.
  intros Hw Hf. destruct (sep_head_stops sep y tl Hf) as (c0 & t0 & Esep & Hc0i & Hc0u).
  destruct w as [|c w']; [contradiction|]. destruct Hw as (Hcu & Hwi).
  pose proof Hwi as Hwi0. cbn [forallb] in Hwi0. apply andb_true_iff in Hwi0 as [Hci Hwi'].
  unfold parse_value. cbn [app]. rewrite consume_ws_nonspace by (apply id_not_space; exact Hci). unfold peek at 1. cbn [rest]. rewrite Hcu.
  rewrite expect_peek_other by (apply id_not_space; exact Hci) || (apply id_not; [vm_compute; reflexivity|exact Hci]).
  unfold parse_id. rewrite consume_ws_nonspace by (apply id_not_space; exact Hci). cbn [rest sp]. rewrite Hci. rewrite Esep.
  rewrite take_while_app by exact Hwi' || exact Hc0i. cbn [rev app]. rewrite <- Esep.
  destruct (consume_ws_sep sep y tl (p + 1 + Z.of_nat (length w')) Hf) as (p1 & Ec).
  unfold word_value. cbv zeta.
  destruct (str_eqb (ascii_lower (c :: w')) (STR "true")); [eexists _, p1; split; [reflexivity|exact Ec]|].
  destruct (str_eqb (ascii_lower (c :: w')) (STR "false")); eexists _, p1; (split; [reflexivity|exact Ec]).
Qed.

Lemma parse_value_written v sep y tl p : pv_ok v -> follows sep y ->
  exists r' p', parse_value {| rest := pv_text v ++ sep ++ y :: tl; sp := p |} = Some (pv_value v, r') /\
                consume_ws r' = {| rest := y :: tl; sp := p' |}.
Proof.
  intros Hv Hf. pose proof Hf as (Hy & Hdot & _).
  destruct (sep_head_stops sep y tl Hf) as (c0 & t0 & Esep & Hc0i & Hc0u).
  destruct v as [ds|ds fs|b|s|w]; cbn [pv_text pv_value pv_ok] in *.
  - (* integer *)
    destruct Hv as (Hne & Hd & Hr). destruct ds as [|d ds']; [contradiction|].
    pose proof Hd as Hd0. cbn [forallb] in Hd0. apply andb_true_iff in Hd0 as [Hd1 _].
    destruct (digit_udigit d Hd1) as (Hu & Hs & _).
    unfold parse_value. cbn [app]. rewrite consume_ws_nonspace by exact Hs. unfold peek. cbn [rest]. rewrite Hu.
    unfold parse_digits. rewrite consume_ws_nonspace by exact Hs. cbn [rest sp].
    change (d :: ds' ++ sep ++ y :: tl) with ((d :: ds') ++ sep ++ y :: tl). rewrite Esep.
    rewrite take_while_app by (apply udigits_of_digits; exact Hd) || exact Hc0u. cbn [rev app].
    rewrite <- Esep. unfold expect_peek.
    destruct (consume_ws_sep sep y tl (p + Z.of_nat (length (d :: ds'))) Hf) as (p1 & Ec). rewrite Ec.
    unfold peek. cbn [rest]. assert (E46 : (y =? 46)%N = false) by (apply N.eqb_neq; exact Hdot). rewrite E46.
    unfold all_ascii_digits. rewrite Hd.
    destruct (digits_val 0 (d :: ds')) as [i|]; [|discriminate]. rewrite Hr.
    eexists _, p1. split; [reflexivity|]. apply consume_ws_nonspace. exact Hy.
  - (* decimal *)
    destruct Hv as (Hne & Hnf & Hd & Hfd & Hpf). destruct ds as [|d ds']; [contradiction|].
    pose proof Hd as Hd0. cbn [forallb] in Hd0. apply andb_true_iff in Hd0 as [Hd1 _].
    destruct (digit_udigit d Hd1) as (Hu & Hs & _).
    unfold parse_value. cbn [app]. rewrite consume_ws_nonspace by exact Hs. unfold peek. cbn [rest]. rewrite Hu.
    unfold parse_digits at 1. rewrite consume_ws_nonspace by exact Hs. cbn [rest sp].
    replace (d :: (ds' ++ 46%N :: fs) ++ sep ++ y :: tl) with ((d :: ds') ++ 46%N :: fs ++ sep ++ y :: tl) by (cbn [app]; rewrite <- app_assoc; reflexivity).
    rewrite take_while_app by (apply udigits_of_digits; exact Hd) || (vm_compute; reflexivity). cbn [rev app].
    rewrite expect_peek_same by reflexivity. rewrite parse_rune_here by reflexivity.
    destruct fs as [|f0 fs']; [contradiction|].
    pose proof Hfd as Hf0. cbn [forallb] in Hf0. apply andb_true_iff in Hf0 as [Hf1 _].
    destruct (digit_udigit f0 Hf1) as (Hfu & Hfs & _).
    cbn [app]. unfold parse_digits. rewrite consume_ws_nonspace by exact Hfs. cbn [rest sp].
    change (f0 :: fs' ++ sep ++ y :: tl) with ((f0 :: fs') ++ sep ++ y :: tl). rewrite Esep.
    rewrite take_while_app by (apply udigits_of_digits; exact Hfd) || exact Hc0u. cbn [rev app]. rewrite <- Esep.
    unfold all_ascii_digits. rewrite Hd, Hfd. cbn [andb].
    cbn [app] in Hpf |- *. destruct (parse_float (d :: ds' ++ 46%N :: f0 :: fs')) as [fl|]; [|contradiction].
    match goal with |- context [{| rest := sep ++ y :: tl; sp := ?q |}] => destruct (consume_ws_sep sep y tl q Hf) as (p1 & Ec) end.
    eexists _, p1. split; [reflexivity|exact Ec].
  - (* boolean *)
    destruct b.
    + destruct (parse_value_word (STR "true") sep y tl p) as (r' & p' & E & Ec); [split; vm_compute; reflexivity|exact Hf|].
      exists r', p'. split; [exact E|exact Ec].
    + destruct (parse_value_word (STR "false") sep y tl p) as (r' & p' & E & Ec); [split; vm_compute; reflexivity|exact Hf|].
      exists r', p'. split; [exact E|exact Ec].
  - (* quoted string *)
    unfold parse_value. cbn [app]. rewrite consume_ws_nonspace by reflexivity. unfold peek at 1. cbn [rest].
    change (is_udigit 34) with false. cbv iota. rewrite expect_peek_same by reflexivity.
    unfold parse_string. rewrite consume_ws_nonspace by reflexivity. cbn [rest sp]. change (34 =? 34)%N with true. cbv iota.
    rewrite <- app_assoc. cbn [app].
    destruct (parse_string_body_ok s (sep ++ y :: tl) (p + 1) [] Hv) as (p0 & Es). rewrite Es. cbn [rev app].
    destruct (consume_ws_sep sep y tl p0 Hf) as (p1 & Ec).
    eexists _, p1. split; [reflexivity|exact Ec].
  - (* bare word *)
    destruct Hv as (Hw & Ht & Hfa).
    destruct (parse_value_word w sep y tl p Hw Hf) as (r' & p' & E & Ec).
    exists r', p'. split; [|exact Ec]. rewrite E. unfold word_value. cbv zeta. rewrite Ht, Hfa. reflexivity.
Qed.

(* ---------- the property list ---------- *)
Definition key_ok (k : str) : Prop := word_ok k.
Definition prop_ok (kv : str * pval) : Prop := key_ok (fst kv) /\ pv_ok (snd kv).

(* k=v k=v ... (one blank between properties, none before the first) *)
Fixpoint ptext (ps : list (str * pval)) : str :=
  match ps with
  | [] => []
  | (k, v) :: r => k ++ 61%N :: pv_text v ++ match r with [] => [] | _ => 32%N :: ptext r end
  end.

Definition pvalues (ps : list (str * pval)) : list (str * mvalue) := map (fun kv => (fst kv, pv_value (snd kv))) ps.

Lemma word_head k : word_ok k -> exists c k', k = c :: k' /\ is_id_char c = true /\ forallb is_id_char k' = true /\ is_udigit c = false.
Proof.
  destruct k as [|c k']; [contradiction|]. intros (Hu & Hi). cbn [forallb] in Hi. apply andb_true_iff in Hi as [H1 H2].
  exists c, k'. auto.
Qed.

Lemma ptext_head ps : ps <> [] -> Forall prop_ok ps -> exists c t, ptext ps = c :: t /\ is_id_char c = true.
Proof.
  destruct ps as [|[k v] r]; [contradiction|]. intros _ H. inversion H as [|? ? [Hk _] _]; subst. cbn [fst] in Hk.
  destruct (word_head k Hk) as (c & k' & -> & Hc & _). cbn [ptext app]. eauto.
Qed.

(* how a marker ends: "]" (open) or "/]" (self-closing) *)
Definition ending (self : bool) : str := if self then [47%N; 93%N] else [93%N].
Definition ending_type (self : bool) : tagtype := if self then TSelfClosing else TOpen.

Lemma parse_props_written : forall self ps f r p nm acc pos src tl,
  Forall prop_ok ps -> consume_ws r = {| rest := ptext ps ++ ending self ++ tl; sp := p |} -> (length ps < f)%nat ->
  exists p', parse_props f r nm acc pos src
    = Some ({| mname := nm; mpos := pos; msrc := src; mprops := acc ++ pvalues ps; mtype := ending_type self |}, {| rest := tl; sp := p' |}).
Proof.
  intros self. induction ps as [|[k v] ps IH]; intros f r p nm acc pos src tl Hok Hr Hf.
  - destruct f; [cbn in Hf; lia|]. cbn [parse_props]. rewrite Hr. cbn [ptext app]. unfold peek.
    destruct self; cbn [ending ending_type app rest].
    + change (47 =? 93)%N with false. change (47 =? 47)%N with true. cbv iota.
      rewrite parse_rune_here by reflexivity. rewrite parse_rune_here by reflexivity. cbn [pvalues map]. rewrite app_nil_r. eexists. reflexivity.
    + change (93 =? 93)%N with true. cbv iota. rewrite parse_rune_here by reflexivity. cbn [pvalues map]. rewrite app_nil_r. eexists. reflexivity.
  - destruct f; [cbn in Hf; lia|]. cbn [length] in Hf. inversion Hok as [|? ? [Hk Hv] Hok']; subst. cbn [fst snd] in *.
    destruct (word_head k Hk) as (c & k' & -> & Hc & Hk' & Hcu).
    cbn [parse_props]. rewrite Hr. cbn [ptext app]. unfold peek. cbn [rest].
    rewrite (id_not c 93 not_id_93 Hc), (id_not c 47 not_id_47 Hc).
    unfold parse_id. rewrite consume_ws_nonspace by (apply id_not_space; exact Hc). cbn [rest sp]. rewrite Hc.
    rewrite <- app_assoc. cbn [app]. rewrite take_while_app by exact Hk' || exact not_id_61. cbn [rev app].
    rewrite parse_rune_here by reflexivity.
    (* the value, followed by a blank and the next key, or by ']' *)
    destruct ps as [|kv2 ps'].
    + rewrite <- app_assoc. cbn [app].
      assert (Hend : exists y t, ending self ++ tl = y :: t /\ follows [] y).
      { destruct self; cbn [ending app]; eexists _, _; (split; [reflexivity|]);
          (split; [reflexivity|]); (split; [discriminate|]); right; (split; [reflexivity|]); split; vm_compute; reflexivity. }
      destruct Hend as (y & t & Ey & Hfy). rewrite Ey.
      destruct (parse_value_written v [] y t (p + 1 + Z.of_nat (length k') + 1) Hv Hfy) as (r' & p' & Ev & Ec).
      cbn [app] in Ev. rewrite Ev.
      destruct (IH f r' p' nm (acc ++ [(c :: k', pv_value v)]) pos src tl Hok') as (p2 & E2); [rewrite Ec, <- Ey; reflexivity|lia|].
      exists p2. rewrite E2. cbn [pvalues map fst snd]. rewrite <- app_assoc. reflexivity.
    + destruct (ptext_head (kv2 :: ps') ltac:(discriminate) Hok') as (y & t & Ey & Hy).
      rewrite <- app_assoc. rewrite Ey.
      replace ((32%N :: y :: t) ++ ending self ++ tl) with ([32%N] ++ y :: (t ++ ending self ++ tl)) by reflexivity.
      destruct (parse_value_written v [32%N] y (t ++ ending self ++ tl) (p + 1 + Z.of_nat (length k') + 1) Hv) as (r' & p' & Ev & Ec).
      { split; [apply id_not_space; exact Hy|]. split; [intros ->; vm_compute in Hy; discriminate|]. left. reflexivity. }
      rewrite Ev.
      destruct (IH f r' p' nm (acc ++ [(c :: k', pv_value v)]) pos src tl Hok') as (p2 & E2); [|lia|].
      { rewrite Ec, Ey. reflexivity. }
      exists p2. rewrite E2. cbn [pvalues map fst snd]. rewrite <- app_assoc. reflexivity.
Qed.

(* ---------- the two written forms of an open marker ---------- *)
(* name k=v ... ]      and      name=v k=v ... ] *)
Definition w_plain (n : str) (ps : list (str * pval)) : str :=
  n ++ match ps with [] => [] | _ => 32%N :: ptext ps end ++ [93%N].
Definition w_short (n : str) (v : pval) (ps : list (str * pval)) : str :=
  n ++ 61%N :: pv_text v ++ match ps with [] => [] | _ => 32%N :: ptext ps end ++ [93%N].

Lemma props_fuel ps X : (length ps < S (length (ptext ps ++ X)))%nat.
Proof.
  rewrite app_length. assert (length ps <= length (ptext ps))%nat; [|lia].
  induction ps as [|[k v] r IH]; [cbn; lia|]. cbn [ptext length]. rewrite !app_length. cbn [length]. rewrite app_length.
  destruct r; cbn [length] in *; lia.
Qed.

(* name k=v ... ]   or   name k=v ... /] *)
Definition w_plain_gen (self : bool) (n : str) (ps : list (str * pval)) : str :=
  n ++ match ps with [] => [] | _ => 32%N :: ptext ps end ++ ending self.

Lemma ending_head self tl : exists y t, ending self ++ tl = y :: t /\ is_space y = false /\ is_id_char y = false /\ (y =? 61)%N = false.
Proof. destruct self; cbn [ending app]; eexists _, _; (split; [reflexivity|]); repeat split; vm_compute; reflexivity. Qed.

Theorem plain_form_written_gen self n ps : name_ok n -> Forall prop_ok ps ->
  marker_written (ending_type self) (w_plain_gen self n ps) n (pvalues ps).
Proof.
  intros Hn Hps tl p pos. pose proof Hn as (Hne & Hid & _).
  destruct n as [|c n'] eqn:En; [contradiction|]. rewrite <- En in *.
  assert (Hc : is_id_char c = true) by (rewrite En in Hid; cbn [forallb] in Hid; apply andb_true_iff in Hid; tauto).
  assert (Hn' : forallb is_id_char n' = true) by (rewrite En in Hid; cbn [forallb] in Hid; apply andb_true_iff in Hid; tauto).
  unfold parse_marker, w_plain_gen. cbn [rest sp]. rewrite <- !app_assoc.
  assert (E1 : forall X, expect_peek {| rest := n ++ X; sp := p + 1 |} 47%N = (false, {| rest := n ++ X; sp := p + 1 |})).
  { intros X. rewrite En. cbn [app]. apply expect_peek_other; [apply id_not_space; exact Hc|apply id_not; [exact not_id_47|exact Hc]]. }
  rewrite E1.
  unfold parse_id. rewrite En. cbn [app]. rewrite consume_ws_nonspace by (apply id_not_space; exact Hc).
  cbn [rest sp]. rewrite Hc.
  destruct ps as [|kv ps'].
  - cbn [app]. destruct (ending_head self tl) as (y & t & Ey & Hys & Hyi & Hy61). rewrite Ey.
    rewrite take_while_app by exact Hn' || exact Hyi. cbn [rev app].
    rewrite (expect_peek_other y 61 t _ Hys Hy61).
    match goal with |- context [parse_props ?f ?r _ _ _ _] =>
      destruct (parse_props_written self [] f r (sp r) (c :: n') [] pos p tl (Forall_nil _)) as (p2 & E3) end.
    { cbn [sp]. rewrite consume_ws_nonspace by exact Hys. cbn [ptext app]. rewrite Ey. reflexivity. }
    { cbn; lia. }
    rewrite E3. exists p, p2. reflexivity.
  - destruct (ptext_head (kv :: ps') ltac:(discriminate) Hps) as (y & t & Ey & Hy).
    cbn [app]. rewrite take_while_app by exact Hn' || (vm_compute; reflexivity). cbn [rev app].
    assert (Ews : forall q X, consume_ws {| rest := 32%N :: y :: X; sp := q |} = {| rest := y :: X; sp := q + 1 |}).
    { intros q X. unfold consume_ws. cbn [rest sp consume_ws_list]. change (is_space 32) with true. cbv iota.
      cbn [consume_ws_list]. rewrite (id_not_space y Hy). reflexivity. }
    unfold expect_peek. rewrite Ey. cbn [app]. rewrite !Ews. unfold peek. cbn [rest].
    rewrite (id_not y 61 not_id_61 Hy). cbv iota. cbn [rest].
    match goal with |- context [parse_props ?f ?r _ _ _ _] =>
      destruct (parse_props_written self (kv :: ps') f r (sp r) (c :: n') [] pos p tl Hps) as (p2 & E3) end.
    { cbn [sp]. rewrite consume_ws_nonspace by (apply id_not_space; exact Hy). rewrite Ey. reflexivity. }
    { change (y :: t ++ ending self ++ tl) with ((y :: t) ++ ending self ++ tl). rewrite <- Ey. apply props_fuel. }
    rewrite E3. exists p, p2. reflexivity.
Qed.

Theorem plain_form_written n ps : name_ok n -> Forall prop_ok ps -> open_written (w_plain n ps) n (pvalues ps).
Proof. exact (plain_form_written_gen false n ps). Qed.

(* the self-closing form: name k=v ... /] *)
Definition w_self (n : str) (ps : list (str * pval)) : str := w_plain_gen true n ps.
Theorem self_form_written n ps : name_ok n -> Forall prop_ok ps -> self_written (w_self n ps) n (pvalues ps).
Proof. exact (plain_form_written_gen true n ps). Qed.

Theorem short_form_written n v ps : name_ok n -> pv_ok v -> Forall prop_ok ps ->
  open_written (w_short n v ps) n ((n, pv_value v) :: pvalues ps).
Proof.
  intros Hn Hv Hps tl p pos. pose proof Hn as (Hne & Hid & _).
  destruct n as [|c n'] eqn:En; [contradiction|]. rewrite <- En in *.
  assert (Hc : is_id_char c = true) by (rewrite En in Hid; cbn [forallb] in Hid; apply andb_true_iff in Hid; tauto).
  assert (Hn' : forallb is_id_char n' = true) by (rewrite En in Hid; cbn [forallb] in Hid; apply andb_true_iff in Hid; tauto).
  unfold parse_marker, w_short. cbn [rest sp]. rewrite <- !app_assoc. cbn [app].
  assert (E1 : forall X, expect_peek {| rest := n ++ X; sp := p + 1 |} 47%N = (false, {| rest := n ++ X; sp := p + 1 |})).
  { intros X. rewrite En. cbn [app]. apply expect_peek_other; [apply id_not_space; exact Hc|apply id_not; [exact not_id_47|exact Hc]]. }
  rewrite E1.
  unfold parse_id. rewrite En. cbn [app]. rewrite consume_ws_nonspace by (apply id_not_space; exact Hc).
  cbn [rest sp]. rewrite Hc. rewrite take_while_app by exact Hn' || exact not_id_61. cbn [rev app].
  rewrite expect_peek_same by reflexivity. rewrite parse_rune_here by reflexivity.
  destruct ps as [|kv ps'].
  - cbn [app].
    match goal with |- context [parse_value {| rest := _; sp := ?q |}] =>
      destruct (parse_value_written v [] 93%N tl q Hv) as (r' & p' & Ev & Ec) end.
    { split; [reflexivity|]. split; [discriminate|]. right. split; [reflexivity|]. split; vm_compute; reflexivity. }
    cbn [app] in Ev. rewrite <- ?app_assoc. cbn [app]. rewrite Ev.
    destruct (parse_props_written false [] (S (length (rest r'))) r' p' (c :: n') [(c :: n', pv_value v)] pos p tl (Forall_nil _)) as (p2 & E3); [exact Ec|cbn; lia|].
    rewrite E3. exists p, p2. reflexivity.
  - destruct (ptext_head (kv :: ps') ltac:(discriminate) Hps) as (y & t & Ey & Hy).
    rewrite Ey. cbn [app].
    replace (pv_text v ++ 32%N :: y :: t ++ 93%N :: tl) with (pv_text v ++ [32%N] ++ y :: (t ++ 93%N :: tl)) by reflexivity.
    match goal with |- context [parse_value {| rest := _; sp := ?q |}] =>
      destruct (parse_value_written v [32%N] y (t ++ 93%N :: tl) q Hv) as (r' & p' & Ev & Ec) end.
    { split; [apply id_not_space; exact Hy|]. split; [intros ->; vm_compute in Hy; discriminate|]. left. reflexivity. }
    cbn [app]; repeat (rewrite <- app_assoc; cbn [app]). cbn [app] in Ev; repeat (rewrite <- app_assoc in Ev; cbn [app] in Ev). rewrite Ev.
    destruct (parse_props_written false (kv :: ps') (S (length (rest r'))) r' p' (c :: n') [(c :: n', pv_value v)] pos p tl Hps) as (p2 & E3).
    { rewrite Ec, Ey. reflexivity. }
    { (* the fuel: what is left after the value still holds every remaining property *)
      assert (Hlen : (length (rest (consume_ws r')) <= length (rest r'))%nat).
      { clear. destruct r' as [l q]. unfold consume_ws. cbn [rest sp]. revert q. induction l as [|x l IH]; intros q; [cbn; lia|].
        cbn [consume_ws_list]. destruct (is_space x); [specialize (IH (q + 1)); cbn [length]; lia|cbn [rest length]; lia]. }
      rewrite Ec in Hlen. cbn [rest] in Hlen.
      pose proof (props_fuel (kv :: ps') (93%N :: tl)) as Hpf. rewrite Ey in Hpf. cbn [app] in Hpf. cbn [length] in *. lia. }
    rewrite E3. exists p, p2. reflexivity.
Qed.

(* ---------- items with written properties ---------- *)
Definition open_plain (n : str) (ps : list (str * pval)) : item := IOpen n (pvalues ps) (w_plain n ps).
Definition open_short (n : str) (v : pval) (ps : list (str * pval)) : item :=
  IOpen n ((n, pv_value v) :: pvalues ps) (w_short n v ps).

Lemma open_plain_ok n ps : name_ok n -> Forall prop_ok ps ->
  get_prop (pvalues ps) (STR "trimwhitespace") = None -> item_ok (open_plain n ps).
Proof. intros Hn Hps Ht. cbn [open_plain item_ok]. split; [exact Hn|]. split; [exact Ht|]. apply plain_form_written; assumption. Qed.

Lemma open_short_ok n v ps : name_ok n -> pv_ok v -> Forall prop_ok ps ->
  get_prop ((n, pv_value v) :: pvalues ps) (STR "trimwhitespace") = None -> item_ok (open_short n v ps).
Proof. intros Hn Hv Hps Ht. cbn [open_short item_ok]. split; [exact Hn|]. split; [exact Ht|]. apply short_form_written; assumption. Qed.

Definition self_marker (n : str) (ps : list (str * pval)) : item := ISelf n (pvalues ps) (w_self n ps).
Lemma self_marker_ok n ps : name_ok n -> Forall prop_ok ps ->
  get_prop (pvalues ps) (STR "trimwhitespace") = None -> item_ok (self_marker n ps).
Proof. intros Hn Hps Ht. cbn [self_marker item_ok]. split; [exact Hn|]. split; [exact Ht|]. apply self_form_written; assumption. Qed.
