(* C13: the implicit character attribute.  A line `Name: rest` without markup yields the text
   unchanged and one attribute "character" covering exactly the prefix - the name, the colon and
   the blanks after it - whose property "name" is the name. *)
From Coq Require Import List ZArith NArith Lia Bool.
From YS Require Import Base.Sexp Yarn.Value Markup.LineParser Proofs.MarkupProofs Proofs.MarkupDocProofs.
Import ListNotations.

Definition no_colon (c : N) : bool := negb (N.eqb c 58).

Lemma find_colon_first : forall n t i, forallb no_colon n = true ->
  find_colon (n ++ 58%N :: t) i = Some ((i + length n)%nat, (S (i + length n) + count_re_space t)%nat).
Proof.
  induction n as [|c n IH]; intros t i H.
  - cbn [app find_colon length]. rewrite N.eqb_refl. f_equal. f_equal; lia.
  - cbn [forallb] in H. apply andb_true_iff in H as [H1 H2]. unfold no_colon in H1. apply negb_true_iff in H1.
    cbn [app find_colon length]. rewrite H1. rewrite IH by exact H2. f_equal. f_equal; lia.
Qed.

Lemma count_re_space_le : forall t, (count_re_space t <= length t)%nat.
Proof. induction t as [|c t IH]; cbn [count_re_space length]; [lia|]. destruct (is_re_space c); lia. Qed.

Lemma forallb_app_true {A} (f : A -> bool) a b : forallb f a = true -> forallb f b = true -> forallb f (a ++ b) = true.
Proof. intros Ha Hb. rewrite forallb_app, Ha, Hb. reflexivity. Qed.

Theorem character_prefix n t :
  forallb plain_rune n = true -> forallb no_colon n = true -> forallb plain_rune t = true ->
  no_edge_space (n ++ 58%N :: t) ->
  parse_markup (n ++ 58%N :: t) =
  Some (n ++ 58%N :: t,
        [{| aname := STR "character"; apos := 0; alen := Z.of_nat (S (length n) + count_re_space t); asrc := 0;
            aprops := [(STR "name", MStr (trim_space n))] |}]).
Proof.
  intros Hn Hc Ht [He1 He2]. set (T := n ++ 58%N :: t) in *.
  assert (HpT : forallb plain_rune T = true).
  { unfold T. apply forallb_app_true; [exact Hn|]. cbn [forallb]. rewrite Ht. reflexivity. }
  unfold parse_markup. rewrite main_loop_plain by (auto; lia).
  cbn [rev app build_attrs sort_attrs fold_right existsb].
  assert (Hfc : find_colon T 0 = Some (length n, (S (length n) + count_re_space t)%nat)).
  { unfold T. rewrite find_colon_first by exact Hc. reflexivity. }
  rewrite Hfc.
  assert (Hts : trim_space T = T). { unfold trim_space. rewrite He1, He2. apply rev_involutive. }
  rewrite Hts, He1. cbn [app map aname apos alen asrc aprops]. f_equal. f_equal.
  assert (Hfn : firstn (length n) T = n).
  { unfold T. rewrite firstn_app, firstn_all, Nat.sub_diag. cbn [firstn]. apply app_nil_r. }
  rewrite Hfn.
  pose proof (count_re_space_le t) as Hle.
  assert (HL : length T = (length n + S (length t))%nat) by (unfold T; rewrite app_length; reflexivity).
  f_equal. unfold clampz. rewrite HL. f_equal; lia.
Qed.

Lemma text_for_prefix T a k : apos a = 0%Z -> alen a = Z.of_nat k -> (0 < k <= length T)%nat ->
  text_for_attribute T a = Some (firstn k T).
Proof.
  intros Hp Hl Hk. unfold text_for_attribute. rewrite Hp, Hl.
  destruct (Z.of_nat k =? 0)%Z eqn:E0; [apply Z.eqb_eq in E0; lia|].
  destruct (Z.of_nat k <? 0)%Z eqn:E2; [apply Z.ltb_lt in E2; lia|].
  destruct (Z.of_nat (length T) <? 0 + Z.of_nat k)%Z eqn:E3; [apply Z.ltb_lt in E3; lia|].
  cbn [orb Z.ltb Z.compare Z.to_nat skipn]. rewrite Nat2Z.id. reflexivity.
Qed.

(* the range is exactly the prefix: TextForAttribute returns name, colon and the blanks after it *)
Corollary character_prefix_text n t a text attrs :
  forallb plain_rune n = true -> forallb no_colon n = true -> forallb plain_rune t = true ->
  no_edge_space (n ++ 58%N :: t) ->
  parse_markup (n ++ 58%N :: t) = Some (text, attrs) -> In a attrs ->
  text_for_attribute text a = Some (n ++ 58%N :: firstn (count_re_space t) t).
Proof.
  intros Hn Hc Ht He H Ha. rewrite (character_prefix n t Hn Hc Ht He) in H. inversion H; subst. clear H.
  destruct Ha as [<-|[]].
  pose proof (count_re_space_le t) as Hle.
  rewrite (text_for_prefix _ _ (S (length n) + count_re_space t)); [|reflexivity|reflexivity|rewrite app_length; cbn [length]; lia].
  f_equal. replace (S (length n) + count_re_space t)%nat with (length n + S (count_re_space t))%nat by lia.
  rewrite firstn_app_2. reflexivity.
Qed.

(* without the edge hypothesis: whatever blanks stand at either end of the line, the text comes back
   trimmed and the character attribute starts at 0 and ends where the prefix ends in the trimmed text
   (L leading blanks are cut from it; it never reaches beyond the trimmed text) *)
Theorem character_prefix_general n t :
  forallb plain_rune n = true -> forallb no_colon n = true -> forallb plain_rune t = true ->
  let T := n ++ 58%N :: t in
  let L := (Z.of_nat (length T) - Z.of_nat (length (trim_left T)))%Z in
  parse_markup T =
  Some (trim_space T,
        [{| aname := STR "character"; apos := 0;
            alen := Z.max 0 (Z.min (Z.of_nat (S (length n) + count_re_space t) - L) (Z.of_nat (length (trim_space T))));
            asrc := 0; aprops := [(STR "name", MStr (trim_space n))] |}]).
Proof.
  intros Hn Hc Ht T L.
  assert (HpT : forallb plain_rune T = true).
  { unfold T. apply forallb_app_true; [exact Hn|]. cbn [forallb]. rewrite Ht. reflexivity. }
  unfold parse_markup. rewrite main_loop_plain by (auto; lia).
  cbn [rev app build_attrs sort_attrs fold_right existsb].
  assert (Hfc : find_colon T 0 = Some (length n, (S (length n) + count_re_space t)%nat)).
  { unfold T. rewrite find_colon_first by exact Hc. reflexivity. }
  rewrite Hfc. cbn [app map aname apos alen asrc aprops]. f_equal. f_equal.
  assert (Hfn : firstn (length n) T = n).
  { unfold T. rewrite firstn_app, firstn_all, Nat.sub_diag. cbn [firstn]. apply app_nil_r. }
  rewrite Hfn. fold L.
  assert (HL : (0 <= L)%Z).
  { unfold L. assert (forall s, (length (trim_left s) <= length s)%nat) as Hs.
    { induction s as [|c s IH]; cbn [trim_left length]; [lia|]. destruct (is_space c); cbn [length]; lia. }
    specialize (Hs T). lia. }
  f_equal. unfold clampz. f_equal; lia.
Qed.

(* ---------- the prefix combined with markers ---------- *)
(* a document (plain text, escaped brackets, open / close / close-all markers) whose text is
   `name: rest`: the attributes of the closed markers exactly as in markup_document_roundtrip, followed
   by the character attribute over the prefix - unless a marker is itself called "character" *)
Local Open Scope Z_scope.

Theorem document_with_character_prefix its n t :
  Forall item_ok its ->
  text its = n ++ 58%N :: t -> forallb no_colon n = true ->
  no_edge_space (text its) ->
  (forall encl e, enclosed its [] [] = Some encl -> In e encl -> str_eqb (fst e) (STR "character") = false) ->
  match enclosed its [] [] with
  | Some encl =>
      exists attrs, parse_markup (render its) =
          Some (text its, attrs ++ [{| aname := STR "character"; apos := 0;
                                       alen := Z.of_nat (S (length n) + count_re_space t); asrc := 0;
                                       aprops := [(STR "name", MStr (trim_space n))] |}]) /\
        length attrs = length encl /\
        (forall e, In e encl -> exists a, In a attrs /\ aname a = fst e /\ aprops a = [] /\
                                          text_for_attribute (text its) a = Some (snd e)) /\
        (forall a, In a attrs -> exists e, In e encl /\ aname a = fst e /\ aprops a = [] /\
                                           text_for_attribute (text its) a = Some (snd e))
  | None => parse_markup (render its) = None
  end.
Proof.
  intros Hok HT Hcolon (Ht1 & Ht2) Hnochar. set (T := text its) in *.
  destruct (main_loop_items its [] (S (length (render its))) 0 [] 0 [] 0%N Hok) as (p' & last' & ms' & Hms & Eml).
  { rewrite app_nil_r. lia. }
  rewrite app_nil_r in Eml.
  assert (Eml' : main_loop (S (length (render its))) {| rest := render its; sp := 0 |} [] 0 [] 0%N = Some (text its, ms')).
  { rewrite Eml. cbn [length main_loop rest app]. rewrite app_nil_r, rev_involutive. reflexivity. }
  clear Eml. rename Eml' into Eml.
  pose proof (build_attrs_enclosed its [] ms' [] [] [] [] Hok Hms (Forall2_nil _) (Forall2_nil _)) as Hb.
  cbn [app] in Hb. fold T in Hb.
  unfold parse_markup. rewrite Eml.
  destruct (enclosed its [] []) as [encl|]; [|rewrite Hb; reflexivity].
  specialize (Hnochar encl).
  destruct Hb as (attrs0 & Eb & Frel). rewrite Eb. cbv zeta.
  assert (Hex : existsb (fun a => str_eqb (aname a) (STR "character")) (sort_attrs attrs0) = false).
  { apply not_true_is_false. intro H. apply existsb_exists in H as (a & Ha & Hn).
    apply (proj1 (In_sort _ _)) in Ha. destruct (Forall2_In_l _ _ _ _ Frel Ha) as (e & He & (N1 & _)).
    rewrite N1, (Hnochar e eq_refl He) in Hn. discriminate. }
  rewrite Hex. fold T.
  assert (Hfc : find_colon T 0 = Some (length n, (S (length n) + count_re_space t)%nat)).
  { rewrite HT. rewrite find_colon_first by exact Hcolon. reflexivity. }
  rewrite Hfc.
  assert (Etrim : trim_space T = T) by (unfold trim_space; rewrite Ht1, Ht2; apply rev_involutive).
  rewrite Etrim, Ht1.
  match goal with |- exists attrs, Some (T, map ?adj _) = _ /\ _ => set (adjust := adj) end.
  assert (Hadj : forall a e, arel T a e -> adjust a = a).
  { intros a e (_ & _ & q & Hp & Hl & Hbd & _). unfold adjust, clampz. destruct a as [nm ps ln sr pr]. cbn [apos alen aname asrc aprops] in *.
    f_equal; lia. }
  assert (Hmap : map adjust (sort_attrs attrs0) = sort_attrs attrs0).
  { rewrite <- (map_id (sort_attrs attrs0)) at 2. apply map_ext_in. intros a Ha. apply (proj1 (In_sort _ _)) in Ha.
    destruct (Forall2_In_l _ _ _ _ Frel Ha) as (e & _ & Hr). exact (Hadj a e Hr). }
  rewrite map_app, Hmap. exists (sort_attrs attrs0). split.
  { f_equal. f_equal. f_equal. cbn [map]. f_equal. unfold adjust, clampz. cbn [aname apos alen asrc aprops].
    assert (Hfn : firstn (length n) T = n).
    { rewrite HT. rewrite firstn_app, firstn_all, Nat.sub_diag. cbn [firstn]. apply app_nil_r. }
    rewrite Hfn.
    pose proof (count_re_space_le t) as Hle.
    assert (HL : length T = (length n + S (length t))%nat) by (rewrite HT, app_length; reflexivity).
    rewrite HL. f_equal; lia. }
  split.
  - rewrite sort_length. exact (Forall2_len _ _ _ Frel).
  - split.
    + intros e He. destruct (Forall2_In_r _ _ _ _ Frel He) as (a & Ha & Hr). exists a. split; [apply (proj2 (In_sort _ _)); exact Ha|].
      destruct Hr as (N1 & N2 & Hq). split; [exact N1|]. split; [exact N2|]. apply arel_text_for. exact (conj N1 (conj N2 Hq)).
    + intros a Ha. apply (proj1 (In_sort _ _)) in Ha. destruct (Forall2_In_l _ _ _ _ Frel Ha) as (e & He & Hr). exists e. split; [exact He|].
      destruct Hr as (N1 & N2 & Hq). split; [exact N1|]. split; [exact N2|]. apply arel_text_for. exact (conj N1 (conj N2 Hq)).
Qed.

(* an explicit marker called "character" suppresses the implicit attribute: whatever colons the text
   holds, the result is that of markup_document_roundtrip *)
Theorem explicit_character_marker its :
  Forall item_ok its ->
  no_edge_space (text its) ->
  (forall encl, enclosed its [] [] = Some encl -> exists e, In e encl /\ str_eqb (fst e) (STR "character") = true) ->
  match enclosed its [] [] with
  | Some encl =>
      exists attrs, parse_markup (render its) = Some (text its, attrs) /\
        length attrs = length encl /\
        (forall e, In e encl -> exists a, In a attrs /\ aname a = fst e /\ aprops a = [] /\
                                          text_for_attribute (text its) a = Some (snd e)) /\
        (forall a, In a attrs -> exists e, In e encl /\ aname a = fst e /\ aprops a = [] /\
                                           text_for_attribute (text its) a = Some (snd e))
  | None => parse_markup (render its) = None
  end.
Proof.
  intros Hok (Ht1 & Ht2) Hchar. set (T := text its) in *.
  destruct (main_loop_items its [] (S (length (render its))) 0 [] 0 [] 0%N Hok) as (p' & last' & ms' & Hms & Eml).
  { rewrite app_nil_r. lia. }
  rewrite app_nil_r in Eml.
  assert (Eml' : main_loop (S (length (render its))) {| rest := render its; sp := 0 |} [] 0 [] 0%N = Some (text its, ms')).
  { rewrite Eml. cbn [length main_loop rest app]. rewrite app_nil_r, rev_involutive. reflexivity. }
  clear Eml. rename Eml' into Eml.
  pose proof (build_attrs_enclosed its [] ms' [] [] [] [] Hok Hms (Forall2_nil _) (Forall2_nil _)) as Hb.
  cbn [app] in Hb. fold T in Hb.
  unfold parse_markup. rewrite Eml.
  destruct (enclosed its [] []) as [encl|]; [|rewrite Hb; reflexivity].
  destruct (Hchar encl eq_refl) as (e0 & He0 & Hn0).
  destruct Hb as (attrs0 & Eb & Frel). rewrite Eb. cbv zeta.
  assert (Hex : existsb (fun a => str_eqb (aname a) (STR "character")) (sort_attrs attrs0) = true).
  { apply existsb_exists. destruct (Forall2_In_r _ _ _ _ Frel He0) as (a & Ha & (N1 & _)).
    exists a. split; [apply (proj2 (In_sort _ _)); exact Ha|]. rewrite N1. exact Hn0. }
  rewrite Hex. fold T.
  assert (Etrim : trim_space T = T) by (unfold trim_space; rewrite Ht1, Ht2; apply rev_involutive).
  rewrite Etrim, Ht1.
  match goal with |- exists attrs, Some (T, map ?adj _) = _ /\ _ => set (adjust := adj) end.
  assert (Hadj : forall a e, arel T a e -> adjust a = a).
  { intros a e (_ & _ & q & Hp & Hl & Hbd & _). unfold adjust, clampz. destruct a as [nm ps ln sr pr]. cbn [apos alen aname asrc aprops] in *.
    f_equal; lia. }
  assert (Hmap : map adjust (sort_attrs attrs0) = sort_attrs attrs0).
  { rewrite <- (map_id (sort_attrs attrs0)) at 2. apply map_ext_in. intros a Ha. apply (proj1 (In_sort _ _)) in Ha.
    destruct (Forall2_In_l _ _ _ _ Frel Ha) as (e & _ & Hr). exact (Hadj a e Hr). }
  rewrite Hmap. exists (sort_attrs attrs0). split; [reflexivity|]. split.
  - rewrite sort_length. exact (Forall2_len _ _ _ Frel).
  - split.
    + intros e He. destruct (Forall2_In_r _ _ _ _ Frel He) as (a & Ha & Hr). exists a. split; [apply (proj2 (In_sort _ _)); exact Ha|].
      destruct Hr as (N1 & N2 & Hq). split; [exact N1|]. split; [exact N2|]. apply arel_text_for. exact (conj N1 (conj N2 Hq)).
    + intros a Ha. apply (proj1 (In_sort _ _)) in Ha. destruct (Forall2_In_l _ _ _ _ Frel Ha) as (e & He & Hr). exists e. split; [exact He|].
      destruct Hr as (N1 & N2 & Hq). split; [exact N1|]. split; [exact N2|]. apply arel_text_for. exact (conj N1 (conj N2 Hq)).
Qed.
