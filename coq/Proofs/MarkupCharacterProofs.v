(* C13: the implicit character attribute.  A line `Name: rest` without markup yields the text
   unchanged and one attribute "character" covering exactly the prefix - the name, the colon and
   the blanks after it - whose property "name" is the name. *)
From Coq Require Import List ZArith NArith Lia Bool.
From YS Require Import Base.Sexp Yarn.Value Markup.LineParser Proofs.MarkupProofs Proofs.MarkupDocProofs.
Import ListNotations.

Definition no_colon (c : N) : bool := negb (N.eqb c 58).

Lemma find_colon_first : forall n t i, forallb no_colon n = true ->
  find_colon (n ++ 58%N :: t) i = Some ((i + length n)%nat, (S (i + length n) + count_re_space t)%nat).
Proof.
  induction n as [|c n IH]; intros t i H.
  - cbn [app find_colon length]. rewrite N.eqb_refl. f_equal. f_equal; lia.
  - cbn [forallb] in H. apply andb_true_iff in H as [H1 H2]. unfold no_colon in H1. apply negb_true_iff in H1.
    cbn [app find_colon length]. rewrite H1. rewrite IH by exact H2. f_equal. f_equal; lia.
Qed.

Lemma count_re_space_le : forall t, (count_re_space t <= length t)%nat.
Proof. induction t as [|c t IH]; cbn [count_re_space length]; [lia|]. destruct (is_re_space c); lia. Qed.

Lemma forallb_app_true {A} (f : A -> bool) a b : forallb f a = true -> forallb f b = true -> forallb f (a ++ b) = true.
Proof. intros Ha Hb. rewrite forallb_app, Ha, Hb. reflexivity. Qed.

Theorem character_prefix n t :
  forallb plain_rune n = true -> forallb no_colon n = true -> forallb plain_rune t = true ->
  no_edge_space (n ++ 58%N :: t) ->
  parse_markup (n ++ 58%N :: t) =
  Some (n ++ 58%N :: t,
        [{| aname := STR "character"; apos := 0; alen := Z.of_nat (S (length n) + count_re_space t); asrc := 0;
            aprops := [(STR "name", MStr (trim_space n))] |}]).
Proof.
  intros Hn Hc Ht [He1 He2]. set (T := n ++ 58%N :: t) in *.
  assert (HpT : forallb plain_rune T = true).
  { unfold T. apply forallb_app_true; [exact Hn|]. cbn [forallb]. rewrite Ht. reflexivity. }
  unfold parse_markup. rewrite main_loop_plain by (auto; lia).
  cbn [rev app build_attrs sort_attrs fold_right existsb].
  assert (Hfc : find_colon T 0 = Some (length n, (S (length n) + count_re_space t)%nat)).
  { unfold T. rewrite find_colon_first by exact Hc. reflexivity. }
  rewrite Hfc.
  assert (Hts : trim_space T = T). { unfold trim_space. rewrite He1, He2. apply rev_involutive. }
  rewrite Hts, He1. cbn [app map aname apos alen asrc aprops]. f_equal. f_equal.
  assert (Hfn : firstn (length n) T = n).
  { unfold T. rewrite firstn_app, firstn_all, Nat.sub_diag. cbn [firstn]. apply app_nil_r. }
  rewrite Hfn.
  pose proof (count_re_space_le t) as Hle.
  assert (HL : length T = (length n + S (length t))%nat) by (unfold T; rewrite app_length; reflexivity).
  f_equal. unfold clampz. rewrite HL. f_equal; lia.
Qed.

Lemma text_for_prefix T a k : apos a = 0%Z -> alen a = Z.of_nat k -> (0 < k <= length T)%nat ->
  text_for_attribute T a = Some (firstn k T).
Proof.
  intros Hp Hl Hk. unfold text_for_attribute. rewrite Hp, Hl.
  destruct (Z.of_nat k =? 0)%Z eqn:E0; [apply Z.eqb_eq in E0; lia|].
  destruct (Z.of_nat k <? 0)%Z eqn:E2; [apply Z.ltb_lt in E2; lia|].
  destruct (Z.of_nat (length T) <? 0 + Z.of_nat k)%Z eqn:E3; [apply Z.ltb_lt in E3; lia|].
  cbn [orb Z.ltb Z.compare Z.to_nat skipn]. rewrite Nat2Z.id. reflexivity.
Qed.

(* the range is exactly the prefix: TextForAttribute returns name, colon and the blanks after it *)
Corollary character_prefix_text n t a text attrs :
  forallb plain_rune n = true -> forallb no_colon n = true -> forallb plain_rune t = true ->
  no_edge_space (n ++ 58%N :: t) ->
  parse_markup (n ++ 58%N :: t) = Some (text, attrs) -> In a attrs ->
  text_for_attribute text a = Some (n ++ 58%N :: firstn (count_re_space t) t).
Proof.
  intros Hn Hc Ht He H Ha. rewrite (character_prefix n t Hn Hc Ht He) in H. inversion H; subst. clear H.
  destruct Ha as [<-|[]].
  pose proof (count_re_space_le t) as Hle.
  rewrite (text_for_prefix _ _ (S (length n) + count_re_space t)); [|reflexivity|reflexivity|rewrite app_length; cbn [length]; lia].
  f_equal. replace (S (length n) + count_re_space t)%nat with (length n + S (count_re_space t))%nat by lia.
  rewrite firstn_app_2. reflexivity.
Qed.

(* without the edge hypothesis: whatever blanks stand at either end of the line, the text comes back
   trimmed and the character attribute starts at 0 and ends where the prefix ends in the trimmed text
   (L leading blanks are cut from it; it never reaches beyond the trimmed text) *)
Theorem character_prefix_general n t :
  forallb plain_rune n = true -> forallb no_colon n = true -> forallb plain_rune t = true ->
  let T := n ++ 58%N :: t in
  let L := (Z.of_nat (length T) - Z.of_nat (length (trim_left T)))%Z in
  parse_markup T =
  Some (trim_space T,
        [{| aname := STR "character"; apos := 0;
            alen := Z.max 0 (Z.min (Z.of_nat (S (length n) + count_re_space t) - L) (Z.of_nat (length (trim_space T))));
            asrc := 0; aprops := [(STR "name", MStr (trim_space n))] |}]).
Proof.
  intros Hn Hc Ht T L.
  assert (HpT : forallb plain_rune T = true).
  { unfold T. apply forallb_app_true; [exact Hn|]. cbn [forallb]. rewrite Ht. reflexivity. }
  unfold parse_markup. rewrite main_loop_plain by (auto; lia).
  cbn [rev app build_attrs sort_attrs fold_right existsb].
  assert (Hfc : find_colon T 0 = Some (length n, (S (length n) + count_re_space t)%nat)).
  { unfold T. rewrite find_colon_first by exact Hc. reflexivity. }
  rewrite Hfc. cbn [app map aname apos alen asrc aprops]. f_equal. f_equal.
  assert (Hfn : firstn (length n) T = n).
  { unfold T. rewrite firstn_app, firstn_all, Nat.sub_diag. cbn [firstn]. apply app_nil_r. }
  rewrite Hfn. fold L.
  assert (HL : (0 <= L)%Z).
  { unfold L. assert (forall s, (length (trim_left s) <= length s)%nat) as Hs.
    { induction s as [|c s IH]; cbn [trim_left length]; [lia|]. destruct (is_space c); cbn [length]; lia. }
    specialize (Hs T). lia. }
  f_equal. unfold clampz. f_equal; lia.
Qed.
