(* C04, display forms (variable/value.go, Value.ToString after the repair of D22): a number whose
   value is an integer in the int64 range is displayed as that integer's decimal digits - no decimal
   point, no exponent; booleans as True / False; strings verbatim. *)
From Coq Require Import ZArith Reals Lia Lra List Bool.
From Flocq Require Import Core BinarySingleNaN.
From YS Require Import Base.Sexp Num.F64 Num.Decimal Yarn.Ast Yarn.Value Proofs.BuiltinProofs Proofs.DecimalPartProofs Proofs.WaitProofs.
Import ListNotations.
Local Open Scope R_scope.

Local Notation fexp := (FLT_exp (3 - emax - prec) prec).

(* float64(int64(n)) for a finite n whose truncation fits: the rounding of an integer that n itself
   represents, hence n again when n is integral *)
Lemma of_Z_trunc_integral (n : f64) :
  is_finite n = true -> B2R n = IZR (Btrunc n) -> B2R (of_Z (Btrunc n)) = B2R n /\ is_finite (of_Z (Btrunc n)) = true.
Proof.
  intros Fn Hi. unfold of_Z.
  pose proof (binary_normalize_correct prec emax Hprec Hmax mode_NE (Btrunc n) 0 false) as H. cbv zeta in H.
  assert (E : F2R (Float radix2 (Btrunc n) 0) = B2R n) by (unfold F2R; simpl; rewrite Hi; ring).
  rewrite E in H.
  rewrite round_generic in H; [|apply valid_rnd_N|apply format_of].
  rewrite Rlt_bool_true in H by apply finite_lt_emax.
  destruct H as (H1 & H2 & _). split; assumption.
Qed.

Theorem integral_number_displayed_as_integer (n : f64) :
  is_finite n = true -> B2R n = IZR (Btrunc n) -> (- two63 <= Btrunc n < two63)%Z ->
  num_to_string n = z_to_str (Btrunc n).
Proof.
  intros Fn Hi Hr. unfold num_to_string.
  rewrite (to_int64_trunc n Fn Hr).
  destruct (of_Z_trunc_integral n Fn Hi) as [E F].
  unfold feqb. rewrite (Beqb_correct prec emax n (of_Z (Btrunc n)) Fn F).
  rewrite E. rewrite Req_bool_true by reflexivity. reflexivity.
Qed.

Theorem booleans_and_strings_display (b : bool) (s : str) :
  to_string (VBool b) = (if b then STR "True" else STR "False") /\ to_string (VStr s) = s.
Proof. split; [destruct b; reflexivity|reflexivity]. Qed.

(* the digits: z_to_str never contains '.', 'e' or '+' *)
Lemma uint_digits_are_digits u : Forall (fun c => is_digit c = true) (uint_digits u).
Proof. induction u; cbn; constructor; auto. Qed.

Lemma z_to_str_shape z :
  exists ds, ds <> [] /\ Forall (fun c => is_digit c = true) ds /\ (z_to_str z = ds \/ z_to_str z = 45%N :: ds).
Proof.
  unfold z_to_str. destruct (Z.to_int z) as [u|u]; exists (nonempty0 (uint_digits u)).
  - repeat split; [|destruct (uint_digits u) eqn:E; cbn; [repeat constructor|rewrite <- E; apply uint_digits_are_digits]|left; reflexivity].
    destruct (uint_digits u); cbn; discriminate.
  - repeat split; [|destruct (uint_digits u) eqn:E; cbn; [repeat constructor|rewrite <- E; apply uint_digits_are_digits]|right; reflexivity].
    destruct (uint_digits u); cbn; discriminate.
Qed.

(* in the property's words: an integral number is shown as an optional minus sign and decimal digits *)
Theorem integral_number_has_no_decimal_point (n : f64) :
  is_finite n = true -> B2R n = IZR (Btrunc n) -> (- two63 <= Btrunc n < two63)%Z ->
  exists ds, ds <> [] /\ Forall (fun c => is_digit c = true) ds /\
             (num_to_string n = ds \/ num_to_string n = 45%N :: ds).
Proof.
  intros Fn Hi Hr. rewrite (integral_number_displayed_as_integer n Fn Hi Hr). apply z_to_str_shape.
Qed.

Example display_examples :
  num_to_string (of_Z 3) = STR "3" /\ num_to_string (of_Z (-12)) = STR "-12" /\
  num_to_string (of_bits 4609434218613702656) = STR "1.5" /\ num_to_string (of_Z 0) = STR "0".
Proof. vm_compute. repeat split. Qed.
