(* The script-level theorem with expressions written as real tokens (Proofs/ExprTokens.v): no parameter
   is left - every written script whose numerals are read back is loaded as the dialogue it stands for. *)
From Coq Require Import List Arith Bool ZArith NArith.
From YS Require Import Base.Sexp Num.F64 Yarn.Ast Generated.ExprTable Generated.TokenTable Syntax.ExprParser
  Syntax.StmtParser Proofs.StmtParserProofs Proofs.StmtParserTop Proofs.ExprTokens.
Import ListNotations.

Theorem written_script_tokens_are_loaded tags ns : ns <> [] -> Forall (node_ok er_min ewf_min) ns ->
  from_reader 0 (p_script er_min tags ns) = Some (map mean_node ns).
Proof.
  apply (written_script_is_loaded er_min ewf_min).
  - intros e. unfold er_min. apply Forall_forall. intros t Ht. apply in_map_iff in Ht as (x & <- & _).
    unfold is_etok. destruct x as [| | | |o|a|f]; try (cbn; discriminate).
    + cbn [T_of_tok etok_of]. destruct o; cbn; discriminate.
    + destruct a as [v|y|]; try (cbn; discriminate). destruct v as [n|b|s]; try (cbn; discriminate). destruct b; cbn; discriminate.
  - exact er_min_parse.
  - exact er_min_call.
  - exact er_min_value.
Qed.
