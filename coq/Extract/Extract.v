(* Extraction: ExtrOcamlBasic only (bool, option, unit, list, prod, sumbool, sumor, andb/orb).
   N, Z, positive, nat stay Coq datatypes.  No Extract Constant of our own. *)
From Coq Require Extraction ExtrOcamlBasic.
From YS Require Import Base.Sexp Extract.Dispatch.
Extraction Language OCaml.
Extraction "model.ml" run_line.
