(* Entry point of the extracted model: one request line in, one response line out. *)
From Coq Require Import List ZArith Bool.
From Coq Require String.
Import String.StringSyntax.
From YS Require Import Base.Sexp Container.QueueWire Syntax.Indent Yarn.RunnerWire Markup.MarkupWire Yarn.BuiltinWire Yarn.BridgeWire Syntax.TextLineWire Syntax.ExprWire Syntax.StmtWire.
Import ListNotations.
Local Open Scope string_scope.

Definition dispatch (e : sexp) : sexp :=
  match untag e with
  | Some (t, args) =>
      if tag_is t "queue" then run_queue_case args
      else if tag_is t "stack" then run_stack_case args
      else if tag_is t "indent" then run_indent_case args
      else if tag_is t "runner" then run_runner_case args
      else if tag_is t "markup" then run_markup_case args
      else if tag_is t "markuphist" then run_markuphist_case args
      else if tag_is t "unicode" then run_unicode_case args
      else if tag_is t "builtin" then run_builtin_case args
      else if tag_is t "bridge" then run_bridge_case args
      else if tag_is t "textline" then run_textline_case args
      else if tag_is t "esc" then run_esc_case args
      else if tag_is t "concurrent" then
        (* the model of a runner shares nothing: each case alone (Props/C18.v) *)
        tagged "all" (map (fun c => match untag c with
                                    | Some (_, a) => run_runner_case a
                                    | None => bad "concurrent: case"
                                    end) args)
      else if tag_is t "load" then tagged "nomodel" []      (* accept/reject of arbitrary bytes is the ANTLR parser's *)
      else if tag_is t "fmt" then run_fmt_case args
      else if tag_is t "parse" then run_parse_case args
      else if tag_is t "wait" then run_wait_case args
      else if tag_is t "exprparse" then run_exprparse_case args
      else if tag_is t "stmtparse" then run_stmtparse_case args
      else bad "unknown family"
  | None => bad "not a tagged list"
  end.

Definition run_line (line : str) : str :=
  match parse_sexp line with
  | Some e => print_sexp (dispatch e)
  | None => print_sexp (bad "unparsable line")
  end.
