(* Decimal <-> binary64 as Go's strconv does it (a model of the standard library, validated by the
   correspondence checks, not verified):
   - fmt_g: fmt.Sprint(float64) = %g with the shortest digit string that round-trips
     (Steele-White / Burger-Dybvig free-format algorithm in exact integer arithmetic),
     %e when the decimal exponent is < -4 or >= 6 (the threshold strconv uses with shortest %g);
   - fmt_f: strconv.FormatFloat(x, 'f', -1, 64);
   - parse_float: strconv.ParseFloat(s, 64) for decimal syntax (sign, digits, '.', exponent),
     inf/infinity/nan; correctly rounded through exact rational arithmetic.  Hexadecimal floats and
     digit-separating underscores are outside the modelled domain (reported as None = not modelled). *)
From Coq Require Import ZArith Bool List.
From Flocq Require Import Core BinarySingleNaN.
From YS Require Import Base.Sexp Num.F64.
Import ListNotations.
Local Open Scope Z_scope.

(* ---- shortest digits ---- *)
Section Shortest.
  Variable even : bool.      (* mantissa even: interval ends are inside *)

  Definition too_high (r s mp : Z) : bool := if even then s <=? r + mp else s <? r + mp.
  Definition too_low (r mm : Z) : bool := if even then r <=? mm else r <? mm.

  Fixpoint fix_up (fuel : nat) (r s mp mm k : Z) : Z * Z * Z * Z * Z :=
    match fuel with
    | O => (r, s, mp, mm, k)
    | S f => if too_high r s mp then fix_up f r (s * 10) mp mm (k + 1) else (r, s, mp, mm, k)
    end.

  Fixpoint fix_down (fuel : nat) (r s mp mm k : Z) : Z * Z * Z * Z * Z :=
    match fuel with
    | O => (r, s, mp, mm, k)
    | S f => if too_high (r * 10) s (mp * 10) then (r, s, mp, mm, k)
             else fix_down f (r * 10) s (mp * 10) (mm * 10) (k - 1)
    end.

  Fixpoint gen_digits (fuel : nat) (r s mp mm : Z) : list Z :=
    match fuel with
    | O => []
    | S f =>
        let d := (r * 10) / s in
        let r' := (r * 10) mod s in
        let mp' := mp * 10 in
        let mm' := mm * 10 in
        let tc1 := too_low r' mm' in
        let tc2 := too_high r' s mp' in
        match tc1, tc2 with
        | false, false => d :: gen_digits f r' s mp' mm'
        | true, false => [d]
        | false, true => [d + 1]
        | true, true => if r' * 2 <? s then [d]                      (* nearer below *)
                        else if r' * 2 =? s then (if Z.even d then [d] else [d + 1])   (* half-way: to even *)
                        else [d + 1]
        end
    end.
End Shortest.

(* digits d1..dn and the decimal point position k: value = 0.d1...dn * 10^k *)
(* 2^n by shifting (Z.pow multiplies n times) *)
Definition pow2 (n : Z) : Z := Z.shiftl 1 n.

Definition shortest_digits (m : positive) (e : Z) : list Z * Z :=
  let mz := Z.pos m in
  let even := Z.even mz in
  let boundary := (mz =? pow2 52) && negb (e =? -1074) in
  let '(r, s, mp, mm) :=
    if 0 <=? e then
      if boundary then (mz * pow2 (e + 1) * 2, 4, pow2 (e + 1), pow2 e)
      else (mz * pow2 e * 2, 2, pow2 e, pow2 e)
    else
      if boundary then (mz * 4, pow2 (- e + 1) * 2, 2, 1)
      else (mz * 2, pow2 (- e) * 2, 1, 1) in
  (* start from an estimate of the decimal exponent, the loops below make it exact *)
  let est := ((Z.log2 (r + mp) - Z.log2 s) * 30103) / 100000 - 1 in
  let '(r0, s0, mp0, mm0) :=
    if 0 <=? est then (r, s * 10 ^ est, mp, mm)
    else (r * 10 ^ (- est), s, mp * 10 ^ (- est), mm * 10 ^ (- est)) in
  let '(r1, s1, mp1, mm1, k1) := fix_up even 400 r0 s0 mp0 mm0 est in
  let '(r2, s2, mp2, mm2, k2) := fix_down even 400 r1 s1 mp1 mm1 k1 in
  (gen_digits even 25 r2 s2 mp2 mm2, k2).

Definition digit_chars (ds : list Z) : str := map (fun d => Z.to_N (48 + d)) ds.

Fixpoint zeros (n : nat) : str := match n with O => [] | S k => 48%N :: zeros k end.

(* %e with the shortest digits: d[.ddd]e+XX *)
Definition fmt_e (ds : list Z) (exp : Z) : str :=
  let mant := match digit_chars ds with
              | [] => [48%N]
              | [d] => [d]
              | d :: r => d :: 46%N :: r
              end in
  let ea := Z.abs exp in
  let es := z_to_str ea in
  mant ++ [101%N; if exp <? 0 then 45%N else 43%N] ++ (if ea <? 10 then 48%N :: es else es).

(* %f with exactly the digits needed *)
Definition fmt_fixed (ds : list Z) (dp : Z) : str :=
  let cs := digit_chars ds in
  let nd := Z.of_nat (length cs) in
  if dp <=? 0 then [48%N; 46%N] ++ zeros (Z.to_nat (- dp)) ++ cs
  else if nd <=? dp then cs ++ zeros (Z.to_nat (dp - nd))
  else firstn (Z.to_nat dp) cs ++ 46%N :: skipn (Z.to_nat dp) cs.

Definition s_nan : str := [78; 97; 78]%N.
Definition s_pinf : str := [43; 73; 110; 102]%N.
Definition s_minf : str := [45; 73; 110; 102]%N.

(* fmt.Sprint(x) *)
Definition fmt_g (x : f64) : str :=
  match x with
  | B754_nan => s_nan
  | B754_infinity s => if s then s_minf else s_pinf
  | B754_zero s => if s then [45; 48]%N else [48%N]
  | B754_finite s m e _ =>
      let '(ds, k) := shortest_digits m e in
      let exp := k - 1 in
      let body := if (exp <? -4) || (6 <=? exp) then fmt_e ds exp else fmt_fixed ds k in
      if s then 45%N :: body else body
  end.

(* strconv.FormatFloat(x, 'f', -1, 64) *)
Definition fmt_f (x : f64) : str :=
  match x with
  | B754_nan => s_nan
  | B754_infinity s => if s then s_minf else s_pinf
  | B754_zero s => if s then [45; 48]%N else [48%N]
  | B754_finite s m e _ =>
      let '(ds, k) := shortest_digits m e in
      let body := fmt_fixed ds k in
      if s then 45%N :: body else body
  end.

(* ---- parsing ---- *)
(* correctly rounded value of (if neg then -1 else 1) * p / q, p >= 0, q > 0: scale so that the
   quotient has at least 64 bits, keep a sticky bit, let binary_normalize round once *)
Definition round_ratio (neg : bool) (p q : Z) : f64 :=
  if p =? 0 then B754_zero neg else
  let shift := Z.max 0 (66 + Z.log2 q - Z.log2 p) in
  let num := Z.shiftl p shift in
  let quo := num / q in
  let sticky := if num mod q =? 0 then 0 else 1 in
  let m := quo * 2 + sticky in
  binary_normalize prec emax Hprec Hmax mode_NE (if neg then - m else m) (- shift - 1) neg.

Definition dec_value (neg : bool) (digits : Z) (exp10 : Z) : f64 :=
  if 400 <? exp10 then (if digits =? 0 then B754_zero neg else B754_infinity neg)
  else if exp10 <? -800 then B754_zero neg      (* far below the smallest subnormal *)
  else if 0 <=? exp10 then round_ratio neg (digits * 10 ^ exp10) 1
  else round_ratio neg digits (10 ^ (- exp10)).

Definition lower (c : N) : N := if (65 <=? c)%N && (c <=? 90)%N then (c + 32)%N else c.

Fixpoint take_digits (s : str) (acc : Z) (n : Z) : Z * Z * str :=
  match s with
  | c :: r => if is_digit c then take_digits r (acc * 10 + Z.of_N (c - 48)) (n + 1) else (acc, n, s)
  | [] => (acc, n, s)
  end.

Definition parse_float (s : str) : option f64 :=
  let '(neg, s1) := match s with
                    | 45%N :: r => (true, r)
                    | 43%N :: r => (false, r)
                    | _ => (false, s)
                    end in
  let low := map lower s1 in
  if str_eqb low [105;110;102]%N || str_eqb low [105;110;102;105;110;105;116;121]%N then Some (B754_infinity neg)
  else if str_eqb (map lower s) [110;97;110]%N then Some B754_nan
  else
    let '(ip, ni, s2) := take_digits s1 0 0 in
    let '(fp, nf, s3) := match s2 with
                         | 46%N :: r => take_digits r ip 0
                         | _ => (ip, 0, s2)
                         end in
    if (ni + nf =? 0) then None else
    let finite_only (x : f64) : option f64 :=       (* overflow is ErrRange *)
      match x with B754_infinity _ => None | _ => Some x end in
    match s3 with
    | [] => finite_only (dec_value neg fp (- nf))
    | c :: r =>
        if (lower c =? 101)%N then
          let '(eneg, r1) := match r with
                             | 45%N :: t => (true, t)
                             | 43%N :: t => (false, t)
                             | _ => (false, r)
                             end in
          let '(ev, ne, r2) := take_digits r1 0 0 in
          match r2 with
          | [] => if ne =? 0 then None
                  else let ev' := Z.min ev 100000 in
                       finite_only (dec_value neg fp ((if eneg then - ev' else ev') - nf))
          | _ => None
          end
        else None
    end.
