(* IEEE-754 binary64 as Go's float64: Flocq's binary_float 53 1024 with a single NaN (Go never
   exposes a payload), round-to-nearest-even arithmetic, math.Mod, math.Floor/Ceil/Trunc/Round,
   float<->int conversions as Go/amd64 performs them, bit patterns for the wire. *)
From Coq Require Import ZArith Bool List.
From Flocq Require Import Core Binary Bits.
From Flocq Require Import BinarySingleNaN.
Import ListNotations.
Local Open Scope Z_scope.

Definition prec := 53%Z.
Definition emax := 1024%Z.
Lemma Hprec : Prec_gt_0 prec. Proof. unfold Prec_gt_0, prec. reflexivity. Qed.
Lemma Hmax : Prec_lt_emax prec emax. Proof. unfold Prec_lt_emax, prec, emax. reflexivity. Qed.
#[global] Existing Instance Hprec.
#[global] Existing Instance Hmax.

Definition f64 := binary_float prec emax.

Definition fadd (x y : f64) : f64 := Bplus mode_NE x y.
Definition fsub (x y : f64) : f64 := Bminus mode_NE x y.
Definition fmul (x y : f64) : f64 := Bmult mode_NE x y.
Definition fdiv (x y : f64) : f64 := Bdiv mode_NE x y.
Definition fneg (x : f64) : f64 := Bopp x.
Definition fabs (x : f64) : f64 := Babs x.
Definition feqb (x y : f64) : bool := Beqb x y.          (* Go == : false on NaN, -0 == +0 *)
Definition fltb (x y : f64) : bool := Bltb x y.
Definition fleb (x y : f64) : bool := Bleb x y.
Definition ffloor (x : f64) : f64 := Bnearbyint mode_DN x.
Definition fceil (x : f64) : f64 := Bnearbyint mode_UP x.
Definition ftrunc (x : f64) : f64 := Bnearbyint mode_ZR x.
Definition fround (x : f64) : f64 := Bnearbyint mode_NA x.   (* math.Round: half away from zero *)

Definition fnan : f64 := B754_nan.
Definition finf (neg : bool) : f64 := B754_infinity neg.
Definition fzero : f64 := B754_zero false.
Definition fone : f64 := Bone.

(* integer -> float64, correctly rounded (exact below 2^53) *)
Definition of_Z (z : Z) : f64 := binary_normalize prec emax Hprec Hmax mode_NE z 0 false.

Definition two63 : Z := 9223372036854775808.
Definition two64 : Z := 18446744073709551616.

(* Go int(f) on amd64 (CVTTSD2SQ): truncation, and the "integer indefinite" value -2^63 for NaN,
   infinities and anything outside [-2^63, 2^63) *)
Definition to_int64 (x : f64) : Z :=
  match x with
  | B754_finite _ _ _ _ => let t := Btrunc x in
                           if (-two63 <=? t) && (t <? two63) then t else -two63
  | B754_zero _ => 0
  | _ => -two63
  end.

(* wrap an integer to int64, as Go's two's complement arithmetic does *)
Definition wrap64 (z : Z) : Z := ((z + two63) mod two64) - two63.

Definition is_finite64 (x : f64) : bool := is_finite x.

(* n == math.Trunc(n) && !IsInf *)
Definition is_integral (x : f64) : bool :=
  match x with
  | B754_finite _ _ _ _ => feqb x (ftrunc x)
  | B754_zero _ => true
  | _ => false
  end.

(* exact integer value of an integral finite float *)
Definition integral_value (x : f64) : Z := Btrunc x.

(* math.Mod *)
Definition fmod (x y : f64) : f64 :=
  match x, y with
  | B754_nan, _ | _, B754_nan => fnan
  | B754_infinity _, _ => fnan
  | _, B754_zero _ => fnan
  | _, B754_infinity _ => x
  | B754_zero _, _ => x
  | B754_finite sx mx ex _, B754_finite _ my ey _ =>
      let e0 := Z.min ex ey in
      let X := Z.pos mx * 2 ^ (ex - e0) in
      let Y := Z.pos my * 2 ^ (ey - e0) in
      let R := X mod Y in
      binary_normalize prec emax Hprec Hmax mode_NE (if sx then - R else R) e0 sx
  end.

(* ---- bit patterns ---- *)
Definition of_bits (z : Z) : f64 := Binary.B2BSN _ _ (b64_of_bits z).

Definition to_bits (x : f64) : Z :=
  match x with
  | B754_nan => 0x7FF8000000000001        (* Go's math.NaN() *)
  | B754_zero s => if s then 0x8000000000000000 else 0
  | B754_infinity s => if s then 0xFFF0000000000000 else 0x7FF0000000000000
  | B754_finite s m e _ =>
     let sb := if s then 0x8000000000000000 else 0 in
     if 2^52 <=? Z.pos m then sb + (e + 1075) * 2^52 + (Z.pos m - 2^52)
     else sb + Z.pos m
  end.

(* float32(x) then back: for the float32 argument converters *)
Definition to_f32 (x : f64) : f64 :=
  match x with
  | B754_finite s m e _ =>
      let r := binary_normalize 24 128 (eq_refl) (eq_refl) mode_NE (if s then Zneg m else Zpos m) e s in
      match r with
      | B754_finite s' m' e' _ => binary_normalize prec emax Hprec Hmax mode_NE (if s' then Zneg m' else Zpos m') e' s'
      | B754_zero s' => B754_zero s'
      | B754_infinity s' => B754_infinity s'
      | B754_nan => B754_nan
      end
  | _ => x
  end.
