(* Wire format of the markup families. *)
From Coq Require Import List ZArith NArith Bool.
From YS Require Import Base.Sexp Num.F64 Yarn.Ast Yarn.Value Markup.LineParser.
Import ListNotations.

Definition enc_mvalue (v : mvalue) : sexp :=
  match v with
  | MInt i => tagged "i" [SZ i]
  | MFloat f => tagged "f" [SZ (to_bits f)]
  | MStr s => tagged "s" [SS s]
  | MBool b => tagged "b" [sbool b]
  end.

Definition enc_attr (a : attribute) : sexp :=
  SL [SS (aname a); SZ (apos a); SZ (alen a); SZ (asrc a);
      SL (map (fun kv => SL [SS (fst kv); enc_mvalue (snd kv)]) (sort_alist (aprops a)))].

Definition enc_markup_result (r : option (str * list attribute)) : sexp :=
  match r with
  | None => tagged "err" []
  | Some (t, attrs) =>
      tagged "ok" [SS t; SL (map enc_attr attrs);
                   SL (map (fun a => match text_for_attribute t a with
                                     | Some x => tagged "s" [SS x]
                                     | None => tagged "panic" []
                                     end) attrs)]
  end.

Definition input_of (e : sexp) : option str :=
  match e with
  | SS s => Some s
  | SL bs => option_map (fun l => decode (map Z.to_N l)) (map_opt as_z bs)
  | _ => None
  end.

(* (markup <string | (byte ...)>) *)
Definition run_markup_case (args : list sexp) : sexp :=
  match args with
  | x :: _ => match input_of x with            (* a second argument is the generator's own expectation *)
              | Some s => enc_markup_result (parse_markup s)
              | None => bad "markup: decode"
              end
  | _ => bad "markup: shape"
  end.

(* (markuphist (line ...) line): the history is irrelevant to the model *)
Definition run_markuphist_case (args : list sexp) : sexp :=
  match args with
  | [SL _; x] => match input_of x with
                 | Some s => let r := enc_markup_result (parse_markup s) in tagged "hist" [r; r]
                 | None => bad "markuphist: decode"
                 end
  | _ => bad "markuphist: shape"
  end.

(* (unicode c ...) -> per rune: letter, digit, space *)
Definition run_unicode_case (args : list sexp) : sexp :=
  match map_opt as_n args with
  | Some cs => tagged "classes" (map (fun c => SZ ((if is_letter c then 4 else 0) + (if is_udigit c then 2 else 0)
                                                   + (if is_space c then 1 else 0))%Z) cs)
  | None => bad "unicode: decode"
  end.
