(* PLACEHOLDER until the full model of markup/line_parser.go lands: text without markup. *)
From Coq Require Import List ZArith NArith Bool.
From YS Require Import Base.Sexp Num.F64 Yarn.Ast Yarn.Value.
Import ListNotations.

Inductive mvalue := MInt (i : Z) | MFloat (f : f64) | MStr (s : str) | MBool (b : bool).
Record attribute := { aname : str; apos : Z; alen : Z; asrc : Z; aprops : list (str * mvalue) }.

Definition has_bracket (s : str) : bool := existsb (fun c => N.eqb c 91 || N.eqb c 93) s.

Definition parse_markup (s : str) : option (str * list attribute) :=
  Some (trim_space s, []).
