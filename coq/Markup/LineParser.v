(* markup/line_parser.go, processors.go, parse_result.go (after the repairs D14-D17, D25),
   function by function, over lists of runes.  The Go reader is the list of runes still to read;
   peekRune's convention "EOF is the rune 0 without error" is kept.  Every loop runs on fuel derived
   from the input; Proofs/MarkupProofs.v shows the fuel never runs out.
   Results: Some (text, attributes) | None (an error value; the parser has no panic site). *)
From Coq Require Import List ZArith NArith Bool.
From YS Require Import Base.Sexp Num.F64 Num.Decimal Yarn.Ast Yarn.Value Generated.UnicodeTables.
Import ListNotations.
Local Open Scope Z_scope.

Inductive mvalue := MInt (i : Z) | MFloat (f : f64) | MStr (s : str) | MBool (b : bool).
Record attribute := { aname : str; apos : Z; alen : Z; asrc : Z; aprops : list (str * mvalue) }.

Inductive tagtype := TOpen | TClose | TSelfClosing | TCloseAll.
Record marker := { mname : str; mpos : Z; msrc : Z; mprops : list (str * mvalue); mtype : tagtype }.

(* ---- character classes ---- *)
Fixpoint in_ranges (rs : list (N * N)) (c : N) : bool :=
  match rs with
  | [] => false
  | (lo, hi) :: r => if (c <? lo)%N then false else if (c <=? hi)%N then true else in_ranges r c
  end.
Definition is_letter (c : N) : bool := in_ranges letter_ranges c.
Definition is_udigit (c : N) : bool := in_ranges digit_ranges c.
Definition is_id_char (c : N) : bool := is_letter c || is_udigit c || (c =? 95)%N.
(* \s of Go's regexp package *)
Definition is_re_space (c : N) : bool := ((c =? 9) || (c =? 10) || (c =? 12) || (c =? 13) || (c =? 32))%N.

(* ---- the reader: runes still to read, and sourcePosition ---- *)
Record rd := { rest : list rune; sp : Z }.
Definition peek (r : rd) : rune := match rest r with [] => 0%N | c :: _ => c end.

(* consumeWhitespace (never fails: peekRune turns EOF into the rune 0) *)
Fixpoint consume_ws_list (l : list rune) (p : Z) : rd :=
  match l with
  | c :: t => if is_space c then consume_ws_list t (p + 1) else {| rest := l; sp := p |}
  | [] => {| rest := []; sp := p |}
  end.
Definition consume_ws (r : rd) : rd := consume_ws_list (rest r) (sp r).

(* expectPeek c, for c <> 0 *)
Definition expect_peek (r : rd) (c : rune) : bool * rd :=
  let r1 := consume_ws r in (N.eqb (peek r1) c, r1).

(* parseRune c *)
Definition parse_rune (r : rd) (c : rune) : option rd :=
  let r1 := consume_ws r in
  match rest r1 with
  | [] => None                                           (* unexpected end of line *)
  | x :: t => if N.eqb x c then Some {| rest := t; sp := sp r1 + 1 |} else None
  end.

(* the tail loop of parseID / parseDigits: take runes while [ok] *)
Fixpoint take_while (ok : N -> bool) (l : list rune) (p : Z) (acc : str) : str * rd :=
  match l with
  | c :: t => if ok c then take_while ok t (p + 1) (c :: acc) else (rev acc, {| rest := l; sp := p |})
  | [] => (rev acc, {| rest := []; sp := p |})
  end.

(* parseID (the surrogate branches are unreachable: decoding a Go string never yields one) *)
Definition parse_id (r : rd) : option (str * rd) :=
  let r1 := consume_ws r in
  match rest r1 with
  | [] => None
  | c :: t => if is_id_char c then Some (take_while is_id_char t (sp r1 + 1) [c]) else None
  end.

(* parseDigits *)
Definition parse_digits (r : rd) : str * rd :=
  let r1 := consume_ws r in take_while is_udigit (rest r1) (sp r1) [].

(* parseString *)
Fixpoint parse_string_body (l : list rune) (p : Z) (acc : str) : option (str * rd) :=
  match l with
  | [] => None
  | c :: t =>
      if N.eqb c 34 then Some (rev acc, {| rest := t; sp := p + 1 |})
      else if N.eqb c 92 then
        match t with
        | [] => None
        | e :: t' => parse_string_body t' (p + 2) (e :: acc)
        end
      else parse_string_body t (p + 1) (c :: acc)
  end.

Definition parse_string (r : rd) : option (str * rd) :=
  let r1 := consume_ws r in
  match rest r1 with
  | c :: t => if N.eqb c 34 then parse_string_body t (sp r1 + 1) [] else None
  | [] => None
  end.

Definition all_ascii_digits (s : str) : bool := forallb is_digit s.

Definition ascii_lower (s : str) : str := map lower s.

(* parseValue *)
Definition parse_value (r : rd) : option (mvalue * rd) :=
  let r0 := consume_ws r in
  if is_udigit (peek r0) then
    let '(ds, r1) := parse_digits r0 in
    let '(dot, r2) := expect_peek r1 46%N in
    if dot then
      match parse_rune r2 46%N with
      | None => None
      | Some r3 =>
          let '(fs, r4) := parse_digits r3 in
          match fs with
          | [] => None
          | _ => if all_ascii_digits ds && all_ascii_digits fs then
                   match parse_float (ds ++ 46%N :: fs) with
                   | Some f => Some (MFloat f, r4)
                   | None => None
                   end
                 else None
          end
      end
    else
      if all_ascii_digits ds then
        match digits_val 0 ds with
        | Some i => if i <? two63 then Some (MInt i, r2) else None      (* Atoi range *)
        | None => None
        end
      else None
  else
    let '(q, r1) := expect_peek r0 34%N in
    if q then
      match parse_string r1 with
      | Some (s, r2) => Some (MStr s, r2)
      | None => None
      end
    else
      match parse_id r1 with
      | Some (w, r2) =>
          let lw := ascii_lower w in
          if str_eqb lw (STR "true") then Some (MBool true, r2)
          else if str_eqb lw (STR "false") then Some (MBool false, r2)
          else Some (MStr w, r2)
      | None => None
      end.

(* the property loop of parseAttributeMarker *)
Fixpoint parse_props (fuel : nat) (r : rd) (name : str) (props : list (str * mvalue)) (pos src : Z)
  : option (marker * rd) :=
  match fuel with
  | O => None
  | S f =>
    let r1 := consume_ws r in
    let c := peek r1 in
    if N.eqb c 93 then
      match parse_rune r1 93%N with
      | Some r2 => Some ({| mname := name; mpos := pos; msrc := src; mprops := props; mtype := TOpen |}, r2)
      | None => None
      end
    else if N.eqb c 47 then
      match parse_rune r1 47%N with
      | Some r2 => match parse_rune r2 93%N with
                   | Some r3 => Some ({| mname := name; mpos := pos; msrc := src; mprops := props;
                                         mtype := TSelfClosing |}, r3)
                   | None => None
                   end
      | None => None
      end
    else
      match parse_id r1 with
      | Some (pn, r2) =>
          match parse_rune r2 61%N with
          | Some r3 => match parse_value r3 with
                       | Some (pv, r4) => parse_props f r4 name (props ++ [(pn, pv)]) pos src
                       | None => None
                       end
          | None => None
          end
      | None => None
      end
  end.

(* parseAttributeMarker; [r] is positioned after the '[' ; sourcePosition still counts before it *)
Definition parse_marker (r : rd) (pos : Z) : option (marker * rd) :=
  let src := sp r in
  let r0 := {| rest := rest r; sp := sp r + 1 |} in
  let '(sl, r1) := expect_peek r0 47%N in
  if sl then
    match parse_rune r1 47%N with
    | None => None
    | Some r2 =>
        let '(cl, r3) := expect_peek r2 93%N in
        if cl then
          match parse_rune r3 93%N with
          | Some r4 => Some ({| mname := []; mpos := pos; msrc := src; mprops := []; mtype := TCloseAll |}, r4)
          | None => None
          end
        else
          match parse_id r3 with
          | Some (nm, r4) => match parse_rune r4 93%N with
                             | Some r5 => Some ({| mname := nm; mpos := pos; msrc := src; mprops := [];
                                                   mtype := TClose |}, r5)
                             | None => None
                             end
          | None => None
          end
    end
  else
    match parse_id r1 with
    | None => None
    | Some (nm, r2) =>
        let '(eq, r3) := expect_peek r2 61%N in
        if eq then
          match parse_rune r3 61%N with
          | Some r4 => match parse_value r4 with
                       | Some (v, r5) => parse_props (S (length (rest r5))) r5 nm [(nm, v)] pos src
                       | None => None
                       end
          | None => None
          end
        else parse_props (S (length (rest r3))) r3 nm [] pos src
    end.

(* ---- processors.go ---- *)
Fixpoint get_prop (ps : list (str * mvalue)) (k : str) : option mvalue :=
  match ps with
  | [] => None
  | (k', v) :: r => if str_eqb k' k then Some v else get_prop r k
  end.

(* markup.Value.toString *)
Definition mvalue_to_string (v : mvalue) : str :=
  match v with
  | MInt i => z_to_str i
  | MFloat f => let i := to_int64 f in if feqb f (of_Z i) then z_to_str i else fmt_g f
  | MStr s => s
  | MBool b => if b then s_True else s_False
  end.

Fixpoint is_prefix (p l : str) : option str :=
  match p, l with
  | [], _ => Some l
  | x :: p', y :: l' => if N.eqb x y then is_prefix p' l' else None
  | _ :: _, [] => None
  end.

(* strings.ReplaceAll for a non-empty [old] *)
Fixpoint replace_all (fuel : nat) (s old new : str) : str :=
  match fuel with
  | O => s
  | S f =>
    match s with
    | [] => []
    | c :: t => match is_prefix old s with
                | Some after => new ++ replace_all f after old new
                | None => c :: replace_all f t old new
                end
    end
  end.

(* strings.ReplaceAll(s, "", new) inserts new before every rune and at the end; only reachable
   through replacePlaceholders with old = "\\" ++ value, which is never empty *)
Definition replace_placeholders (replacement value : str) : str :=
  if existsb (N.eqb 37) replacement then
    let r := replace_all (S (length replacement)) replacement [37%N] value in
    replace_all (S (length r)) r (92%N :: value) [37%N]
  else replacement.

Definition getm (m : marker) (k : str) : option mvalue := get_prop (mprops m) k.

Definition processor_of (name : str) : option (marker -> option str) :=
  if str_eqb name (STR "nomarkup") then
    Some (fun m => match getm m (STR "contents") with
                   | Some c => Some (mvalue_to_string c)
                   | None => Some []
                   end)
  else if str_eqb name (STR "select") then
    Some (fun m => match getm m (STR "value") with
                   | None => None
                   | Some v => let vs := mvalue_to_string v in
                               match getm m vs with
                               | None => None
                               | Some rp => Some (replace_placeholders (mvalue_to_string rp) vs)
                               end
                   end)
  else if str_eqb name (STR "plural") then
    Some (fun m => match getm m (STR "value") with
                   | None => None
                   | Some v =>
                       let case := match v with
                                   | MFloat _ => Some (STR "other")
                                   | MInt i => Some (if i =? 1 then STR "one" else STR "other")
                                   | _ => None
                                   end in
                       match case with
                       | None => None
                       | Some cs => match getm m cs with
                                    | None => None
                                    | Some rp => Some (replace_placeholders (mvalue_to_string rp) (mvalue_to_string v))
                                    end
                       end
                   end)
  else if str_eqb name (STR "ordinal") then
    Some (fun m => match getm m (STR "value") with
                   | Some (MInt n) =>
                       let cs := if (Z.rem n 10 =? 1) && negb (Z.rem n 100 =? 11) then STR "one"
                                 else if (Z.rem n 10 =? 2) && negb (Z.rem n 100 =? 12) then STR "two"
                                 else if (Z.rem n 10 =? 3) && negb (Z.rem n 100 =? 13) then STR "few"
                                 else STR "other" in
                       match getm m cs with
                       | None => None
                       | Some rp => Some (replace_placeholders (mvalue_to_string rp) (z_to_str n))
                       end
                   | _ => None
                   end)
  else None.

(* the regexp \[\s*\/\s*(name)?\s*\] anchored at the head of [l] *)
Fixpoint skip_re_space (l : list rune) : list rune :=
  match l with
  | c :: t => if is_re_space c then skip_re_space t else l
  | [] => []
  end.

Definition close_tag_here (name : str) (l : list rune) : bool :=
  match l with
  | 91%N :: t =>
      match skip_re_space t with
      | 47%N :: t1 =>
          let t2 := skip_re_space t1 in
          let direct := match t2 with 93%N :: _ => true | _ => false end in
          let named := match is_prefix name t2 with
                       | Some t3 => match skip_re_space t3 with 93%N :: _ => true | _ => false end
                       | None => false
                       end in
          direct || named
      | _ => false
      end
  | _ => false
  end.

(* parseRawTextUpToAttributeClose: raw text before the leftmost close tag, and the rest from it *)
Fixpoint split_at_close (name : str) (l : list rune) (acc : str) : option (str * list rune) :=
  if close_tag_here name l then Some (rev acc, l)
  else match l with
       | [] => None
       | c :: t => split_at_close name t (c :: acc)
       end.

(* processReplacementMarker *)
Definition process_replacement (m : marker) (proc : marker -> option str) (r : rd) : option (str * rd) :=
  match mtype m with
  | TOpen =>
      match split_at_close (mname m) (rest r) [] with
      | None => None
      | Some (raw, after) =>
          let m' := {| mname := mname m; mpos := mpos m; msrc := msrc m;
                       mprops := mprops m ++ [(STR "contents", MStr raw)]; mtype := mtype m |} in
          match proc m' with
          | Some t => Some (t, {| rest := after; sp := sp r |})
          | None => None
          end
      end
  | TSelfClosing => match proc m with Some t => Some (t, r) | None => None end
  | _ => Some ([], r)
  end.

(* ---- the main loop of parseMarkup ---- *)
(* builder: text so far, reversed; blen = its length in runes *)
Fixpoint main_loop (fuel : nat) (r : rd) (bld : str) (blen : Z) (markers : list marker) (last : rune)
  : option (str * list marker) :=
  match fuel with
  | O => None
  | S f =>
    match rest r with
    | [] => Some (rev bld, markers)
    | c :: t =>
        let r1 := {| rest := t; sp := sp r |} in
        let escaped := N.eqb c 92 && match t with x :: _ => N.eqb x 91 || N.eqb x 93 | [] => false end in
        if escaped then
          match t with
          | x :: t' => main_loop f {| rest := t'; sp := sp r + 1 |} (x :: bld) (blen + 1) markers last
          | [] => None
          end
        else if N.eqb c 91 then
          match parse_marker r1 blen with
          | None => None
          | Some (m, r2) =>
              let had_ws := (blen =? 0) || is_space last in
              let replaced :=
                match processor_of (mname m) with
                | Some proc => match process_replacement m proc r2 with
                               | Some (txt, r3) => Some (true, txt, r3)
                               | None => None
                               end
                | None => Some (false, [], r2)
                end in
              match replaced with
              | None => None
              | Some (was_repl, txt, r3) =>
                  let bld' := rev txt ++ bld in
                  let blen' := blen + Z.of_nat (length txt) in
                  let trim : option bool :=
                    if had_ws then
                      let t0 := match mtype m with TSelfClosing => negb was_repl | _ => false end in
                      match get_prop (mprops m) (STR "trimwhitespace") with
                      | Some (MBool b) => Some b
                      | Some _ => None
                      | None => Some t0
                      end
                    else Some false in
                  match trim with
                  | None => None
                  | Some tr =>
                      let r4 := if tr && is_space (peek r3)
                                then {| rest := tl (rest r3); sp := sp r3 + 1 |} else r3 in
                      main_loop f r4 bld' blen' (markers ++ [m]) c
                  end
              end
          end
        else main_loop f {| rest := t; sp := sp r + 1 |} (c :: bld) (blen + 1) markers c
    end
  end.

(* ---- buildAttributesFromMarkers ---- *)
Definition props_map (ps : list (str * mvalue)) : list (str * mvalue) :=
  fold_left (fun m kv => aset m (fst kv) (snd kv)) ps [].       (* toPropertyMap: later entries win *)

Definition attr_of (open_m : marker) (len : Z) : attribute :=
  {| aname := mname open_m; apos := mpos open_m; alen := len; asrc := msrc open_m;
     aprops := props_map (mprops open_m) |}.

(* index of the most recent unclosed marker with that name *)
Fixpoint find_last (name : str) (l : list marker) (i : nat) (best : option nat) : option nat :=
  match l with
  | [] => best
  | m :: r => find_last name r (S i) (if str_eqb (mname m) name then Some i else best)
  end.

Fixpoint remove_nth {A} (l : list A) (n : nat) : list A :=
  match l, n with
  | [], _ => []
  | _ :: t, O => t
  | h :: t, S k => h :: remove_nth t k
  end.

Fixpoint build_attrs (ms : list marker) (unclosed : list marker) (acc : list attribute)
  : option (list attribute) :=
  match ms with
  | [] => Some acc
  | m :: r =>
      match mtype m with
      | TOpen => build_attrs r (unclosed ++ [m]) acc
      | TClose =>
          match find_last (mname m) unclosed 0 None with
          | None => None                                      (* unexpected close marker *)
          | Some i =>
              match nth_error unclosed i with
              | Some o => build_attrs r (remove_nth unclosed i) (acc ++ [attr_of o (mpos m - mpos o)])
              | None => None
              end
          end
      | TSelfClosing => build_attrs r unclosed (acc ++ [attr_of m 0])
      | TCloseAll =>
          build_attrs r [] (acc ++ map (fun o => attr_of o (mpos m - mpos o)) unclosed)
      end
  end.

(* slices.SortStableFunc by Position: stable insertion sort (fold_right inserts each attribute
   in front of the later ones with the same position) *)
Fixpoint insert_attr (a : attribute) (l : list attribute) : list attribute :=
  match l with
  | [] => [a]
  | b :: r => if apos a <=? apos b then a :: l else b :: insert_attr a r
  end.
Definition sort_attrs (l : list attribute) : list attribute := fold_right insert_attr [] l.

(* regexp `:\s*` leftmost match on the text: (runes before the colon, runes up to the match end) *)
Fixpoint count_re_space (l : list rune) : nat :=
  match l with
  | c :: t => if is_re_space c then S (count_re_space t) else O
  | [] => O
  end.

Fixpoint find_colon (l : list rune) (i : nat) : option (nat * nat) :=
  match l with
  | [] => None
  | c :: t => if N.eqb c 58 then Some (i, S i + count_re_space t)%nat else find_colon t (S i)
  end.

Definition clampz (lo x hi : Z) : Z := Z.max lo (Z.min x hi).

(* parseMarkup *)
Definition parse_markup (input : str) : option (str * list attribute) :=
  match main_loop (S (length input)) {| rest := input; sp := 0 |} [] 0 [] 0%N with
  | None => None
  | Some (text, markers) =>
      match build_attrs markers [] [] with
      | None => None
      | Some attrs0 =>
          let attrs1 := sort_attrs attrs0 in
          let has_character := existsb (fun a => str_eqb (aname a) (STR "character")) attrs1 in
          let attrs2 :=
            if has_character then attrs1 else
            match find_colon text 0 with
            | Some (i, j) =>
                attrs1 ++ [{| aname := STR "character"; apos := 0; alen := Z.of_nat j; asrc := 0;
                              aprops := [(STR "name", MStr (trim_space (firstn i text)))] |}]
            | None => attrs1
            end in
          let trimmed := trim_space text in
          let at_start := Z.of_nat (length text) - Z.of_nat (length (trim_left text)) in
          let tlen := Z.of_nat (length trimmed) in
          let adjust (a : attribute) :=
            let start := clampz 0 (apos a - at_start) tlen in
            let stop := Z.max start (Z.min (apos a - at_start + alen a) tlen) in
            {| aname := aname a; apos := start; alen := stop - start; asrc := asrc a; aprops := aprops a |} in
          Some (trimmed, map adjust attrs2)
      end
  end.

(* ParseResult.TextForAttribute: None = panic *)
Definition text_for_attribute (text : str) (a : attribute) : option str :=
  if alen a =? 0 then Some []
  else if (apos a <? 0) || (alen a <? 0) || (Z.of_nat (length text) <? apos a + alen a) then None
  else Some (firstn (Z.to_nat (alen a)) (skipn (Z.to_nat (apos a)) text)).

(* ---- Go's UTF-8 decoding of a string into runes (invalid bytes become U+FFFD, one per byte) ---- *)
Definition cont (b : N) : bool := ((128 <=? b) && (b <? 192))%N.

Fixpoint utf8_decode (fuel : nat) (bs : list N) : list rune :=
  match fuel with
  | O => []
  | S f =>
    match bs with
    | [] => []
    | b0 :: t =>
        if (b0 <? 128)%N then b0 :: utf8_decode f t
        else if ((194 <=? b0) && (b0 <? 224))%N then
          match t with
          | b1 :: t1 => if cont b1 then ((b0 - 192) * 64 + (b1 - 128))%N :: utf8_decode f t1
                        else 65533%N :: utf8_decode f t
          | [] => [65533%N]
          end
        else if ((224 <=? b0) && (b0 <? 240))%N then
          match t with
          | b1 :: b2 :: t2 =>
              let lo := if (b0 =? 224)%N then 160%N else 128%N in
              let hi := if (b0 =? 237)%N then 160%N else 192%N in
              if ((lo <=? b1) && (b1 <? hi) && cont b2)%N
              then ((b0 - 224) * 4096 + (b1 - 128) * 64 + (b2 - 128))%N :: utf8_decode f t2
              else 65533%N :: utf8_decode f t
          | _ => 65533%N :: utf8_decode f t
          end
        else if ((240 <=? b0) && (b0 <? 245))%N then
          match t with
          | b1 :: b2 :: b3 :: t3 =>
              let lo := if (b0 =? 240)%N then 144%N else 128%N in
              let hi := if (b0 =? 244)%N then 144%N else 192%N in
              if ((lo <=? b1) && (b1 <? hi) && cont b2 && cont b3)%N
              then ((b0 - 240) * 262144 + (b1 - 128) * 4096 + (b2 - 128) * 64 + (b3 - 128))%N :: utf8_decode f t3
              else 65533%N :: utf8_decode f t
          | _ => 65533%N :: utf8_decode f t
          end
        else 65533%N :: utf8_decode f t
    end
  end.

Definition decode (bs : list N) : list rune := utf8_decode (S (length bs)) bs.
