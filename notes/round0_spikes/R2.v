From Coq Require Import List ZArith Lia Arith Bool.
Import ListNotations.

Inductive stmt :=
| Line (n : nat)
| Opts (os : list (list stmt))
| If (cs : list (bool * list stmt))
| Jump (n : nat)
| Stop.

Definition prog := list (list stmt).
Inductive out := OLine (n : nat) | OOpts (k : nat) | OEnd | OErr | OPanic | OFuel.

Record mstate := { stack : list (list stmt); last : option (list (list stmt)) }.

Fixpoint first_true (cs : list (bool * list stmt)) : option (list stmt) :=
  match cs with [] => None | (b, body) :: t => if b then Some body else first_true t end.

Definition is_nil {A} (l : list A) := match l with [] => true | _ => false end.

Definition apply_choice (s : mstate) (choice : nat) : option mstate :=
  match last s with
  | Some os => match nth_error os choice with
               | Some body => Some (if is_nil body then s else {| stack := body :: stack s; last := last s |})
               | None => None
               end
  | None => Some s
  end.

Fixpoint mnext (p : prog) (fuel : nat) (s : mstate) (choice : nat) : mstate * out :=
  match fuel with O => (s, OFuel) | S f =>
  match apply_choice s choice with None => (s, OPanic) | Some s1 =>
  match stack s1 with
  | [] => ({| stack := []; last := None |}, OEnd)
  | [] :: rest => mnext p f {| stack := rest; last := last s1 |} choice
  | (st :: q) :: rest =>
      let s2 := {| stack := q :: rest; last := None |} in
      match st with
      | Line n => (s2, OLine n)
      | Opts os => ({| stack := q :: rest; last := Some os |}, OOpts (length os))
      | If cs => match first_true cs with
                 | Some body => mnext p f {| stack := body :: q :: rest; last := None |} choice
                 | None => mnext p f s2 choice
                 end
      | Jump n => match nth_error p n with
                  | Some body => mnext p f {| stack := [body]; last := None |} choice
                  | None => (s2, OErr)
                  end
      | Stop => ({| stack := []; last := None |}, OEnd)
      end
  end end end.

Record sstate := { k : list stmt; waiting : option (list (list stmt)) }.

Definition chosen (s : sstate) (choice : nat) : option (list stmt) :=
  match waiting s with
  | Some os => match nth_error os choice with Some body => Some (body ++ k s) | None => None end
  | None => Some (k s)
  end.

(* srun: what happens once the continuation k1 has been determined *)
Fixpoint srun (p : prog) (fuel : nat) (k1 : list stmt) : sstate * out :=
  match fuel with O => ({| k := k1; waiting := None |}, OFuel) | S f =>
  match k1 with
  | [] => ({| k := []; waiting := None |}, OEnd)
  | st :: q =>
      match st with
      | Line n => ({| k := q; waiting := None |}, OLine n)
      | Opts os => ({| k := q; waiting := Some os |}, OOpts (length os))
      | If cs => match first_true cs with
                 | Some body => srun p f (body ++ q)
                 | None => srun p f q
                 end
      | Jump n => match nth_error p n with
                  | Some body => srun p f body
                  | None => ({| k := q; waiting := None |}, OErr)
                  end
      | Stop => ({| k := []; waiting := None |}, OEnd)
      end
  end end.

Definition snext (p : prog) (fuel : nat) (s : sstate) (choice : nat) : sstate * out :=
  match chosen s choice with
  | None => (s, OPanic)
  | Some k1 => srun p fuel k1
  end.

Definition R (m : mstate) (s : sstate) := concat (stack m) = k s /\ last m = waiting s.
Ltac inv H := inversion H; subst; clear H.

(* machine run from a state whose choice has been consumed (last = None) or is harmless *)
Lemma mnext_srun p : forall fm m c m' o,
  (last m = None \/ exists os, last m = Some os /\ nth_error os c = Some []) ->
  mnext p fm m c = (m', o) -> o <> OFuel ->
  exists fs s', srun p fs (concat (stack m)) = (s', o) /\ R m' s'.
Proof.
  induction fm as [|fm IH]; intros m c m' o Hl Hn Ho.
  - simpl in Hn. inv Hn. congruence.
  - cbn [mnext] in Hn.
    assert (Ea : apply_choice m c = Some m).
    { unfold apply_choice. destruct Hl as [Hl|(os & Hl & Hb)]; rewrite Hl; [reflexivity|].
      rewrite Hb. reflexivity. }
    rewrite Ea in Hn. destruct m as [stk lst]. cbn [stack last] in *.
    destruct stk as [|q0 rest].
    + inv Hn. exists 1. eexists. split; [reflexivity|split; reflexivity].
    + destruct q0 as [|st q].
      * apply IH in Hn; [|exact Hl|exact Ho]. exact Hn.
      * destruct st.
        -- inv Hn. exists 1. eexists. split; [reflexivity|split; reflexivity].
        -- inv Hn. exists 1. eexists. split; [reflexivity|split; reflexivity].
        -- destruct (first_true cs) as [body|] eqn:Ef.
           ++ apply IH in Hn; [|left; reflexivity|exact Ho].
              destruct Hn as (fs & s' & Hs & HR). exists (S fs), s'. split; [|exact HR].
              cbn [srun concat app]. cbn [concat stack] in Hs. rewrite Ef. rewrite <- ?app_assoc in *. exact Hs.
           ++ apply IH in Hn; [|left; reflexivity|exact Ho].
              destruct Hn as (fs & s' & Hs & HR). exists (S fs), s'. split; [|exact HR].
              cbn [srun concat app]. rewrite Ef. exact Hs.
        -- destruct (nth_error p n) as [body|] eqn:En.
           ++ apply IH in Hn; [|left; reflexivity|exact Ho].
              destruct Hn as (fs & s' & Hs & HR). exists (S fs), s'. split; [|exact HR].
              cbn [srun concat app]. rewrite En. cbn [concat stack] in Hs. rewrite app_nil_r in Hs. exact Hs.
           ++ inv Hn. exists 1. eexists. cbn [srun concat app]. rewrite En. split; [reflexivity|split; reflexivity].
        -- inv Hn. exists 1. eexists. split; [reflexivity|split; reflexivity].
Qed.

Theorem next_refines_flow p : forall fm m s c m' o,
  R m s -> mnext p fm m c = (m', o) -> o <> OFuel ->
  exists fs s', snext p fs s c = (s', o) /\ R m' s'.
Proof.
  intros fm m s c m' o [Hk Hl] Hn Ho.
  destruct fm as [|fm]; [simpl in Hn; inv Hn; congruence|].
  unfold snext, chosen. rewrite <- Hl, <- Hk.
  destruct (last m) as [os|] eqn:El.
  - destruct (nth_error os c) as [body|] eqn:En.
    + destruct body as [|b0 bs].
      * (* empty body: nothing pushed, waiting flag stays harmlessly *)
        simpl. eapply mnext_srun; eauto.
      * (* non-empty body pushed; first fetch clears last *)
        cbn [mnext] in Hn. unfold apply_choice in Hn. rewrite El, En in Hn. cbn [is_nil stack last] in Hn.
        (* one step by hand on b0, then mnext_srun *)
        destruct b0.
        -- inv Hn. exists 1. eexists. split; [reflexivity|split; reflexivity].
        -- inv Hn. exists 1. eexists. split; [reflexivity|split; reflexivity].
        -- destruct (first_true cs) as [body|] eqn:Ef.
           ++ eapply mnext_srun in Hn; [|left; reflexivity|exact Ho].
              destruct Hn as (fs & s' & Hs & HR). exists (S fs), s'. split; [|exact HR].
              cbn [srun]. simpl. rewrite Ef. cbn [concat stack] in Hs. rewrite <- ?app_assoc in *. exact Hs.
           ++ eapply mnext_srun in Hn; [|left; reflexivity|exact Ho].
              destruct Hn as (fs & s' & Hs & HR). exists (S fs), s'. split; [|exact HR].
              cbn [srun]. simpl. rewrite Ef. exact Hs.
        -- destruct (nth_error p n) as [body|] eqn:Ep.
           ++ eapply mnext_srun in Hn; [|left; reflexivity|exact Ho].
              destruct Hn as (fs & s' & Hs & HR). exists (S fs), s'. split; [|exact HR].
              cbn [srun]. simpl. rewrite Ep. cbn [concat stack] in Hs. rewrite app_nil_r in Hs. exact Hs.
           ++ inv Hn. exists 1. eexists. cbn [srun]. simpl. rewrite Ep. split; [reflexivity|split; reflexivity].
        -- inv Hn. exists 1. eexists. split; [reflexivity|split; reflexivity].
    + cbn [mnext] in Hn. unfold apply_choice in Hn. rewrite El, En in Hn. inv Hn.
      exists 1, s. split; [reflexivity|split; [assumption|congruence]].
  - eapply mnext_srun; eauto.
Qed.

Theorem end_absorbing p : forall f s c s', mnext p f s c = (s', OEnd) ->
  forall f' c', f' > 0 -> mnext p f' s' c' = (s', OEnd).
Proof.
  intros f s c s' H f' c' Hf.
  assert (Hs : s' = {| stack := []; last := None |}).
  { revert s c H. induction f as [|f IH]; intros s c H; [simpl in H; inv H|].
    cbn [mnext] in H. destruct (apply_choice s c) as [s1|]; [|inv H].
    destruct (stack s1) as [|[|st q] rest].
    - inv H. reflexivity.
    - eapply IH; eauto.
    - destruct st; try (inv H; reflexivity).
      + destruct (first_true cs); eapply IH; eauto.
      + destruct (nth_error p n); [eapply IH; eauto|inv H]. }
  subst s'. destruct f'; [lia|]. reflexivity.
Qed.
Print Assumptions next_refines_flow.
Print Assumptions end_absorbing.
