From Spike Require Import F.
From Coq Require Import ZArith List.
From Coq Require Extraction ExtrOcamlBasic.
Definition test (z : Z) : Z := to_bits (fadd (ffloor (of_bits z)) fone).
Fixpoint iter (n : nat) (z : Z) : Z := match n with O => z | S k => iter k (test z) end.
Extraction "model.ml" test iter.
