From Coq Require Import List ZArith Lia Arith.
Import ListNotations.

(* faithful model of internal/container/queue.go on Z payloads *)
Record queue := { base : list Z; first : Z; next : Z }.
Definition cap (q : queue) : Z := Z.of_nat (length (base q)).

Fixpoint set_nth (l : list Z) (n : nat) (x : Z) : list Z :=
  match l, n with
  | [], _ => []
  | _ :: t, O => x :: t
  | h :: t, S k => h :: set_nth t k x
  end.

Definition empty_q : queue := {| base := []; first := 0; next := 0 |}.

Definition enqueue (q : queue) (x : Z) : queue :=
  let q1 := if Nat.eqb (length (base q)) 0 then {| base := repeat 0%Z 8; first := -1; next := next q |} else q in
  if negb (Z.eqb (next q1) (first q1)) then
    let f := if Z.eqb (first q1) (-1) then next q1 else first q1 in
    {| base := set_nth (base q1) (Z.to_nat (next q1)) x; first := f; next := ((next q1 + 1) mod cap q1)%Z |}
  else
    let ps := length (base q1) in
    let fi := Z.to_nat (first q1) in
    let bigger := skipn fi (base q1) ++ firstn fi (base q1) ++ repeat 0%Z ps in
    {| base := set_nth bigger ps x; first := 0; next := Z.of_nat ps + 1 |}.

Definition size (q : queue) : Z :=
  if orb (Nat.eqb (length (base q)) 0) (Z.eqb (first q) (-1)) then 0
  else if Z.eqb (next q) (first q) then cap q
  else ((next q - first q + cap q) mod cap q)%Z.

Definition dequeue (q : queue) : option (Z * queue) :=
  if Z.eqb (size q) 0 then None else
  let r := nth (Z.to_nat (first q)) (base q) 0%Z in
  let f := ((first q + 1) mod cap q)%Z in
  if Z.eqb f (next q) then Some (r, {| base := base q; first := -1; next := 0 |})
  else Some (r, {| base := base q; first := f; next := next q |}).

Inductive op := Enq (x : Z) | Deq.
Fixpoint run (q : queue) (ops : list op) : list (option Z) :=
  match ops with
  | [] => []
  | Enq x :: t => run (enqueue q x) t
  | Deq :: t => match dequeue q with
                | None => None :: run q t
                | Some (r, q') => Some r :: run q' t
                end
  end.
Fixpoint spec (l : list Z) (ops : list op) : list (option Z) :=
  match ops with
  | [] => []
  | Enq x :: t => spec (l ++ [x]) t
  | Deq :: t => match l with [] => None :: spec l t | h :: l' => Some h :: spec l' t end
  end.
Definition ops1 := [Enq 1; Enq 2; Deq; Enq 3; Enq 4; Enq 5; Enq 6; Enq 7; Enq 8; Enq 9; Enq 10; Deq; Enq 11; Enq 12;Deq;Deq;Deq;Deq;Deq;Deq;Deq;Deq;Deq;Deq;Deq]%Z.
Eval vm_compute in (run empty_q ops1, spec [] ops1).
