let rec z_of_int n = if n = 0 then Model.Z0 else if n > 0 then Model.Zpos (p_of_int n) else Model.Zneg (p_of_int (-n))
and p_of_int n = if n = 1 then Model.XH else if n land 1 = 0 then Model.XO (p_of_int (n lsr 1)) else Model.XI (p_of_int (n lsr 1))
let rec int_of_p = function Model.XH -> 1 | Model.XO p -> 2 * int_of_p p | Model.XI p -> 2 * int_of_p p + 1
let int_of_z = function Model.Z0 -> 0 | Model.Zpos p -> int_of_p p | Model.Zneg p -> - (int_of_p p)
let rec nat_of_int n = if n = 0 then Model.O else Model.S (nat_of_int (n-1))
let () =
  let t0 = Sys.time () in
  let z = ref (z_of_int 0x4004000000000000) in
  for _ = 1 to 100000 do z := Model.test !z done;
  Printf.printf "%x %.2fs\n" (int_of_z !z) (Sys.time () -. t0)
